import PgBifrost.Driver.Ledger
import PgBifrost.Driver.Batcher
import PgBifrost.Driver.BatcherMon
import PgBifrost.Driver.Filter
import PgBifrost.Driver.Partitioner
import PgBifrost.Driver.Pipeline
import PgBifrost.Driver.E2E
import PgBifrost.Driver.ConnManager
import PgBifrost.Driver.Aggregator
import PgBifrost.Driver.Client
import PgBifrost.Driver.Rabbit
import PgBifrost.Driver.S3
import PgBifrost.Driver.Kafka
import PgBifrost.Driver.Kinesis
import PgBifrost.Driver.Marshal
import PgBifrost.Driver.Parser
import PgBifrost.Driver.Sys
import PgBifrost.Driver.Backoff
import PgBifrost.Driver.Runner
import PgBifrost.Driver.Plumbing
import PgBifrost.Driver.RabbitConn
/-! `bfmodel`: line-protocol driver for the executable models (core Lean only, so it links).
One request line in, one answer line out. First word selects the model. -/
open PgBifrost

structure DriverState where
  ledger : Driver.Ledger.DState := some {}
  ledgermon : Driver.Ledger.MonState := {}
  batcher : Driver.Batcher.DState := {}
  batch : Driver.Batcher.BState := {}
  batchermon : Driver.BatcherMon.MState := {}
  filter : Driver.Filter.DState := ⟨false, false, []⟩
  partitioner : Driver.Partitioner.DState := {}
  rabbitconn : Driver.RabbitConn.DState := {}
  pipemon : Driver.Pipeline.MState := []
  connmgr : Driver.ConnManager.DState := {}
  marshal : Driver.Marshal.DState := {}
  kinesis : Driver.Kinesis.DState := {}
  kafka : Driver.Kafka.DState := {}
  s3 : Driver.S3.DState := {}
  rabbit : Driver.Rabbit.DState := {}
  client : Driver.Client.DState := {}
  clientmon : Driver.Client.MonState := {}
  aggregator : Driver.Aggregator.DState := {}
  sys : Driver.Sys.DState := {}
  backoff : Driver.Backoff.DState := {}

def dispatch (st : DriverState) (line : String) : DriverState × String :=
  match Util.words line with
  | "ledger" :: args => let (s, out) := Driver.Ledger.handle st.ledger args; ({ st with ledger := s }, out)
  | "ledgermon" :: args => let (s, out) := Driver.Ledger.monHandle st.ledgermon args; ({ st with ledgermon := s }, out)
  | "batcher" :: args => let (s, out) := Driver.Batcher.handle st.batcher args; ({ st with batcher := s }, out)
  | "batchermon" :: args => let (s, out) := Driver.BatcherMon.handle st.batchermon args; ({ st with batchermon := s }, out)
  | "batch" :: args => let (s, out) := Driver.Batcher.batchHandle st.batch args; ({ st with batch := s }, out)
  | "filter" :: args => let (s, out) := Driver.Filter.handle st.filter args; ({ st with filter := s }, out)
  | "partitioner" :: args => let (s, out) := Driver.Partitioner.handle st.partitioner args; ({ st with partitioner := s }, out)
  | "batcherload" :: _ => (st, "-")  -- measured load scenario of the batcher harness (C16); judged by its monitor
  | "clientload" :: _ => (st, "-")  -- measured load scenario of the client harness (C18); judged by its monitor
  | "pipeline" :: _ => (st, "-")   -- environment script of the pipeline harness; judged by pipemon/ledgermon
  | "pipemon" :: args => let (s, out) := Driver.Pipeline.handle st.pipemon args; ({ st with pipemon := s }, out)
  | "e2e" :: args => (st, Driver.E2E.handle args)   -- expected stdout of the real binary = user's intent on the scripted changes
  | "connmgr" :: args => let (s, out) := Driver.ConnManager.handle st.connmgr args; ({ st with connmgr := s }, out)
  | "cli" :: args => (st, Driver.Filter.cliHandle args)
  | "crc" :: args => (st, Driver.Batcher.crcHandle args)
  | "parser" :: args => let (_, out) := Driver.Parser.handle () args; (st, out)
  | "marshal" :: args => let (s, out) := Driver.Marshal.handle st.marshal args; ({ st with marshal := s }, out)
  | "marshalmon" :: args => (st, Driver.Marshal.monHandle args)
  | "kinesis" :: args => let (s, out) := Driver.Kinesis.handle st.kinesis args; ({ st with kinesis := s }, out)
  | "kinesismon" :: args => (st, Driver.Kinesis.monHandle args)
  | "kafka" :: args => let (s, out) := Driver.Kafka.handle st.kafka args; ({ st with kafka := s }, out)
  | "kafkamon" :: args => (st, Driver.Kafka.monHandle args)
  | "s3" :: args => let (s, out) := Driver.S3.handle st.s3 args; ({ st with s3 := s }, out)
  | "s3fixed" :: args => let (s, out) := Driver.S3.handleFixed st.s3 args; ({ st with s3 := s }, out)
  | "s3spec" :: args => (st, Driver.S3.specHandle args)
  -- `rabbit` is the model of the code as it is now (after the F7/F8 fix); `rabbitold` the pre-fix model (witnesses only)
  | "rabbit" :: args => let (s, out) := Driver.Rabbit.handle .fixed st.rabbit args; ({ st with rabbit := s }, out)
  | "rabbitold" :: args => let (s, out) := Driver.Rabbit.handle .asIs st.rabbit args; ({ st with rabbit := s }, out)
  | "rabbitspec" :: args => (st, Driver.Rabbit.specHandle args)
  | "client" :: args => let (s, out) := Driver.Client.handle st.client args; ({ st with client := s }, out)
  | "clientmon" :: args => let (s, out) := Driver.Client.monHandle st.clientmon args; ({ st with clientmon := s }, out)
  | "aggregator" :: args => let (s, out) := Driver.Aggregator.handle st.aggregator args; ({ st with aggregator := s }, out)
  | "aggspec" :: args => let (s, out) := Driver.Aggregator.specHandle st.aggregator args; ({ st with aggregator := s }, out)
  | "sys" :: args => let (s, out) := Driver.Sys.handle st.sys args; ({ st with sys := s }, out)
  | "runner" :: args => (st, Driver.Runner.handle args)
  | "clientstop" :: args => (st, Driver.Runner.clientStop args)
  | "plumbing" :: args => (st, Driver.Plumbing.handle args)
  | "rabbitstop" :: args => (st, Driver.RabbitConn.stopHandle args)
  | "rabbitconn" :: args => let (s, out) := Driver.RabbitConn.handle st.rabbitconn args; ({ st with rabbitconn := s }, out)
  | "retrypolicy" :: args => let (s, out) := Driver.Backoff.handle st.backoff args; ({ st with backoff := s }, out)
  | ["ping"] => (st, "pong")
  | _ => (st, "bad-op")

partial def loop (hin hout : IO.FS.Stream) (st : DriverState) : IO Unit := do
  let line ← hin.getLine
  if line.isEmpty then return ()
  let line := String.ofList (line.toList.reverse.dropWhile (fun c => c == '\n' || c == '\r')).reverse
  let (st', out) := dispatch st line
  hout.putStrLn out
  hout.flush
  loop hin hout st'

def main : IO Unit := do
  loop (← IO.getStdin) (← IO.getStdout) {}
