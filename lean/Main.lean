import PgBifrost.Driver.Ledger
/-! `bfmodel`: line-protocol driver for the executable models (core Lean only, so it links).
One request line in, one answer line out. First word selects the model. -/
open PgBifrost

structure DriverState where
  ledger : Driver.Ledger.DState := some {}
  ledgermon : Driver.Ledger.MonState := {}

def dispatch (st : DriverState) (line : String) : DriverState × String :=
  match Util.words line with
  | "ledger" :: args => let (s, out) := Driver.Ledger.handle st.ledger args; ({ st with ledger := s }, out)
  | "ledgermon" :: args => let (s, out) := Driver.Ledger.monHandle st.ledgermon args; ({ st with ledgermon := s }, out)
  | ["ping"] => (st, "pong")
  | _ => (st, "bad-op")

partial def loop (hin hout : IO.FS.Stream) (st : DriverState) : IO Unit := do
  let line ← hin.getLine
  if line.isEmpty then return ()
  let line := String.ofList (line.toList.reverse.dropWhile (fun c => c == '\n' || c == '\r')).reverse
  let (st', out) := dispatch st line
  hout.putStrLn out
  hout.flush
  loop hin hout st'

def main : IO Unit := do
  loop (← IO.getStdin) (← IO.getStdout) {}
