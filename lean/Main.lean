import PgBifrost.Driver.Ledger
import PgBifrost.Driver.Batcher
import PgBifrost.Driver.BatcherMon
import PgBifrost.Driver.Filter
import PgBifrost.Driver.Partitioner
/-! `bfmodel`: line-protocol driver for the executable models (core Lean only, so it links).
One request line in, one answer line out. First word selects the model. -/
open PgBifrost

structure DriverState where
  ledger : Driver.Ledger.DState := some {}
  ledgermon : Driver.Ledger.MonState := {}
  batcher : Driver.Batcher.DState := {}
  batch : Driver.Batcher.BState := {}
  batchermon : Driver.BatcherMon.MState := {}
  filter : Driver.Filter.DState := ⟨false, false, []⟩
  partitioner : Driver.Partitioner.DState := {}

def dispatch (st : DriverState) (line : String) : DriverState × String :=
  match Util.words line with
  | "ledger" :: args => let (s, out) := Driver.Ledger.handle st.ledger args; ({ st with ledger := s }, out)
  | "ledgermon" :: args => let (s, out) := Driver.Ledger.monHandle st.ledgermon args; ({ st with ledgermon := s }, out)
  | "batcher" :: args => let (s, out) := Driver.Batcher.handle st.batcher args; ({ st with batcher := s }, out)
  | "batchermon" :: args => let (s, out) := Driver.BatcherMon.handle st.batchermon args; ({ st with batchermon := s }, out)
  | "batch" :: args => let (s, out) := Driver.Batcher.batchHandle st.batch args; ({ st with batch := s }, out)
  | "filter" :: args => let (s, out) := Driver.Filter.handle st.filter args; ({ st with filter := s }, out)
  | "partitioner" :: args => let (s, out) := Driver.Partitioner.handle st.partitioner args; ({ st with partitioner := s }, out)
  | "cli" :: args => (st, Driver.Filter.cliHandle args)
  | "crc" :: args => (st, Driver.Batcher.crcHandle args)
  | ["ping"] => (st, "pong")
  | _ => (st, "bad-op")

partial def loop (hin hout : IO.FS.Stream) (st : DriverState) : IO Unit := do
  let line ← hin.getLine
  if line.isEmpty then return ()
  let line := String.ofList (line.toList.reverse.dropWhile (fun c => c == '\n' || c == '\r')).reverse
  let (st', out) := dispatch st line
  hout.putStrLn out
  hout.flush
  loop hin hout st'

def main : IO Unit := do
  loop (← IO.getStdin) (← IO.getStdout) {}
