import PgBifrost.Model.Util
import PgBifrost.Model.Ledger
import PgBifrost.Driver.Ledger
