import PgBifrost.Model.KafkaSend
/-!
# C14 — decidable statement on one Kafka batch's history (monitor + theorems)
-/
namespace PgBifrost.Spec.Kafka
open PgBifrost.KafkaSend PgBifrost.Batch

def isData (m : KMsg) : Bool := m.m.op == .data

/-- the message is within the producer's size limit -/
def fits (c : Cfg) (m : KMsg) : Bool := decide (m.m.ksize ≤ c.maxBytes)

/-- the data messages the batch still looks at: everything until `n` fitting messages have been taken
(after that `Add` answers "batch is full" and touches nothing) -/
def untilFull (c : Cfg) : Nat → List KMsg → List KMsg
  | _, [] => []
  | 0, _ :: _ => []
  | n + 1, m :: ms => m :: untilFull c (if fits c m then n else n + 1) ms

/-- the messages of `ms` that the property says are counted in the batch's transactions -/
def counted (c : Cfg) (ms : List KMsg) : List KMsg := untilFull c c.maxSize (ms.filter isData)

/-- what the property says the batch must produce: for every counted message within the size limit, in
order, the key dictated by the method and the message's JSON -/
def expectedPayload (c : Cfg) (uuid : Nat) (ms : List KMsg) : List PMsg :=
  ((counted c ms).filter (fits c)).map (produce c.meth uuid)

/-- … and count: every counted message, dropped or not -/
def expectedTxns (c : Cfg) (ms : List KMsg) : List TxnCount :=
  (counted c ms).foldl (fun t m => updateTxns t m.m) []

inductive Verdict | ok | viol (what : String)
deriving DecidableEq, Repr

/-- judge one batch of the implementation's history. `payload`/`batchTxns`: what the real batch object
holds after the `Add`s; `sent`: argument of `SendMessages` (if called); `reported`: what arrived on
`txnsWritten`; `term`: the worker cancelled the process context. -/
def check (c : Cfg) (uuid : Nat) (ms : List KMsg) (payload : List PMsg) (batchTxns : List TxnCount)
    (sent : Option (List PMsg)) (out : Outcome) (reported : Option (List TxnCount)) (term : Bool) : Verdict :=
  if payload != expectedPayload c uuid ms then .viol "key-or-value-or-drop-rule"
  else if batchTxns != expectedTxns c ms then .viol "dropped-message-not-counted"
  else if reported.isSome != (out == .accepted) then .viol "written-iff-producer-accepted-all"
  else if reported.isSome && reported != some batchTxns then .viol "report-is-not-the-batch's-transactions"
  else if out != .accepted && !term then .viol "no-fail-stop"
  else if (match out with | .cancelled _ => sent.isSome | _ => sent != some payload) then .viol "sent-wrong-messages"
  else .ok

end PgBifrost.Spec.Kafka
