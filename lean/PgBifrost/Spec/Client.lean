import PgBifrost.Model.Client
/-!
# Decidable specs of C03 / C07 / C18 / C02-recovery on a finite client history

A history is what was OBSERVED: the start actions and, for every event handed to the client, the
actions it performed until its next `ReceiveMessage` call. The monitors judge the
IMPLEMENTATION's history (the harness sends it here); the same functions are applied to the
model's own history in the theorems and non-vacuity examples.

None of these definitions mentions the model's state machine: they restate the properties.
-/
namespace PgBifrost.Spec.Client
open PgBifrost.Client

abbrev Hist := List (Ev × List Action)

def acts (h : Hist) : List Action := (h.map (·.2)).flatten

def statusesOf (as : List Action) : List Nat :=
  as.filterMap fun | .status l => some l | _ => none

def startsOf (as : List Action) : List Nat :=
  as.filterMap fun | .getconn l true => some l | _ => none

def fwdsOf (as : List Action) : List (Op × String × Key × Nat) :=
  as.filterMap fun | .fwd o t k l => some (o, t, k, l) | _ => none

def hasClose (as : List Action) : Bool := as.any fun | .close => true | _ => false
def hasExit (as : List Action) : Bool := as.any fun | .exit _ => true | _ => false
def hasStatus (as : List Action) : Bool := as.any fun | .status _ => true | _ => false

def nondecreasing : List Nat → Bool
  | a :: b :: r => a ≤ b && nondecreasing (b :: r)
  | _ => true

/-- values the environment fed to the progress channel in one event -/
def fedOf (e : Ev) : List Nat :=
  e.feed ++ match e.msg with
    | .data _ _ _ blocks => blocks.flatten
    | _ => []

/-- position announced by the first keepalive (`none`: `Start` returns at once) -/
def initOf (e : Ev) : Option Nat :=
  match e.msg with
  | .keepalive _ w _ => some w
  | .kabad => some 0
  | _ => none

/-! ## C03 -/

/-- every status of every event is the initial position or a value fed up to and including that
event -/
def sourcedAux (init : Nat) : List Nat → Hist → Bool
  | _, [] => true
  | fed, (e, as) :: r =>
    let fed' := fed ++ fedOf e
    (statusesOf as).all (fun v => v == init || fed'.contains v) && sourcedAux init fed' r

/-- running maximum of a position and the values fed after it -/
def rmax (m : Nat) (l : List Nat) : Nat := l.foldl max m

def blocksOf (e : Ev) : List (List Nat) :=
  match e.msg with
  | .data _ _ _ blocks => blocks
  | _ => []

/-- values a status may carry when the running maximum was `p` and the environment feeds `blocks`
one after the other: the running maximum after the first `j` of them, for some `j` -/
def allowedFrom (p : Nat) (blocks : List (List Nat)) : List Nat :=
  (List.range (blocks.length + 1)).map fun j => rmax p (blocks.take j).flatten

/-- exactness: every status of an event equals the maximum of the initial position and ALL values
put on the progress channel before that status (`handleProgress` drains the channel completely
before it sends) -/
def runMaxAux : Nat → Hist → Bool
  | _, [] => true
  | m, (e, as) :: r =>
    (statusesOf as).all (fun v => (allowedFrom (rmax m e.feed) (blocksOf e)).contains v) &&
      runMaxAux (rmax m (fedOf e)) r

/-- the LSN every (re)start of replication must request after the event: the largest COMMIT
position received so far, or the position reported by IdentifySystem in the last recovery -/
def expectedStart (cur : Nat) (e : Ev) : Nat :=
  match e.msg with
  | .data lsn (.commit _) _ _ => max cur lsn
  | .errorResponse pos => pos
  | _ => cur

def restartsAux : Nat → Hist → Bool
  | _, [] => true
  | cur, (e, as) :: r =>
    let cur' := expectedStart cur e
    (startsOf as).all (· == cur') && restartsAux cur' r

def c03Monotone (h : Hist) : Bool := nondecreasing (statusesOf (acts h))
def c03Sourced : Hist → Bool
  | [] => true
  | (e, as) :: r =>
    match initOf e with
    | some i => sourcedAux i [] ((e, as) :: r)
    | none => (statusesOf as).isEmpty && (statusesOf (acts r)).isEmpty
def c03RunMax : Hist → Bool
  | [] => true
  | (e, as) :: r =>
    match initOf e with
    | some i => (statusesOf as).all (· == rmax i e.feed) && runMaxAux (rmax i e.feed) r
    | none => (statusesOf as).isEmpty && (statusesOf (acts r)).isEmpty
def c03Restarts (h : Hist) : Bool := restartsAux 0 h

/-! ## PG-stream grammar (DESIGN §3) on a history

Connection boundaries are observable: an event that returned a "closed" error, or whose actions
contain a `close`, ends the connection; the next data message belongs to a new one. -/
inductive GState
  | idle                -- between transactions
  | inTxn (xid : String)
  deriving DecidableEq, Repr

def digits (s : String) : Bool := !s.isEmpty && s.toList.all Char.isDigit

/-- (grammar state, largest COMMIT/recovery position so far) → next, or none if violated -/
def gramStep (g : GState) (hi : Nat) (e : Ev) (as : List Action) : Option (GState × Nat) :=
  let g' : Option (GState × Nat) :=
    match e.msg with
    | .data _ (.begin x) _ _ => if digits x then some (.inTxn x, hi) else none  -- inTxn → lost COMMIT
    | .data _ .change _ _ => match g with | .inTxn _ => some (g, hi) | .idle => none
    | .data lsn (.commit x) _ _ =>
      match g with
      | .inTxn y => if x = y then some (.idle, max hi lsn) else none   -- a re-sent transaction repeats its COMMIT position
      | .idle => none
    | .data _ _ _ _ => none
    | .keepalive .. | .nil | .timeout | .skip => some (g, hi)
    | .closedErr => some (.idle, hi)
    | .errorResponse pos => some (.idle, pos)
    | _ => none
  match g' with
  | some (g1, hi1) => if hasClose as then some (.idle, hi1) else some (g1, hi1)
  | none => none

def gramAux : GState → Nat → Hist → Bool
  | _, _, [] => true
  | g, hi, (e, as) :: r =>
    match gramStep g hi e as with
    | some (g', hi') => gramAux g' hi' r
    | none => false

/-- first event is a keepalive, the rest follows the stream grammar, nobody exits -/
def pgGrammar : Hist → Bool
  | (e, as) :: r =>
    (match e.msg with | .keepalive .. => true | _ => false) && !hasExit as &&
      gramAux .idle 0 r && !hasExit (acts r)
  | [] => true

def isErrResp (e : Ev) : Bool :=
  match e.msg with
  | .errorResponse _ => true
  | _ => false

def noErrorResponse (h : Hist) : Bool := h.all fun p => !isErrResp p.1

/-! ## C07 -/

/-- stamp attribution: a forwarded BEGIN carries its own xid and `(xid, clock reading)`; every
other forwarded message carries txn/key of the latest forwarded BEGIN. Synthetic COMMITs of error
recovery are judged by C02, not here. -/
def stampAux : String × Key → Hist → Bool
  | _, [] => true
  | cur, (e, as) :: r =>
    match e.msg with
    | .errorResponse _ => stampAux cur r
    | .data lsn p nanos _ =>
      match p, fwdsOf as with
      | .begin _, [] => stampAux cur r            -- dropped BEGIN: judged by `c07Framing`
      | .begin x, [(.begin, t, k, l)] =>
        t == x && k == some (x, nanos) && l == lsn && stampAux (t, k) r
      | .commit _, [(.commit, t, k, l)] => (t, k) == cur && l == lsn && stampAux cur r
      | .change, [(.change, t, k, l)] => (t, k) == cur && l == lsn && stampAux cur r
      | .unparsable, [] => stampAux cur r
      | .parseError, [] => stampAux cur r
      | _, _ => false
    | _ => (fwdsOf as).isEmpty && stampAux cur r

def c07Stamp (h : Hist) : Bool := stampAux ("", none) h

def distinct : List String → Bool
  | [] => true
  | a :: r => !r.contains a && distinct r

def beginKeys (as : List Action) : List String :=
  (fwdsOf as).filterMap fun | (.begin, _, k, _) => some (renderKey k) | _ => none
def commitKeys (as : List Action) : List String :=
  (fwdsOf as).filterMap fun | (.commit, _, k, _) => some (renderKey k) | _ => none

def c07KeysUnique (h : Hist) : Bool := distinct (beginKeys (acts h))
def c07OneCommit (h : Hist) : Bool := !noErrorResponse h || distinct (commitKeys (acts h))
/-- full strength (error responses included): what the code satisfies since the repair of F2 -/
def c07OneCommitFull (h : Hist) : Bool := distinct (commitKeys (acts h))

/-- "PostgreSQL starts a new transaction while the previous one has no COMMIT": `pending` = a BEGIN
was accepted and no COMMIT was received since. Such a BEGIN must not be forwarded, the connection
must be closed, and every later (re)start is judged by `c03Restarts`. A BEGIN that is not in this
situation must be forwarded. -/
def framingAux : Bool → Hist → Bool
  | _, [] => true
  | pending, (e, as) :: r =>
    if hasExit as then true else
    match e.msg with
    | .data _ (.begin _) _ _ =>
      if pending then (fwdsOf as).isEmpty && hasClose as && framingAux false r
      else (fwdsOf as).length == 1 && framingAux true r
    | .data _ (.commit _) _ _ => framingAux false r
    | .errorResponse _ => framingAux false r
    | _ => framingAux pending r

def c07Framing : Hist → Bool
  | [] => true
  | (_, as) :: r => hasExit as || framingAux false r

/-! ## C18 (order of actions; durations are measured by the harness) -/

/-- the four forced-send sites: a reply-requested keepalive, a receive timeout, every ticker
firing while blocked on output, and a ticker firing at the top of the loop are each followed by
a status before the next `ReceiveMessage` (unless `Start` returns) -/
def forcedCount (e : Ev) (as : List Action) : Nat :=
  (match e.msg with
   | .keepalive true _ _ => 1
   | .timeout => 1
   | .data _ _ _ blocks => if (fwdsOf as).isEmpty then 0 else blocks.length  -- only a forwarded message blocks
   | _ => 0) + (if e.tick then 1 else 0)

def c18Aux : Hist → Bool
  | [] => true
  | (e, as) :: r =>
    hasExit as || (forcedCount e as ≤ (statusesOf as).length && c18Aux r)

def c18Replies (h : Hist) : Bool :=
  match h with
  | [] => true
  | (e, as) :: r => hasExit as || ((!e.tick || hasStatus as) && c18Aux r)

/-! ## C02, recovery part -/

inductive RecVerdict | ok | zeroLsn | notOpen | wrongKey | unclosed | malformed
  deriving DecidableEq, Repr

/-- open delivery downstream after these forwards -/
def openAfter (o : Option (String × Key)) : List (Op × String × Key × Nat) → Option (String × Key)
  | [] => o
  | (.begin, t, k, _) :: r => openAfter (some (t, k)) r
  | (.commit, _, _, _) :: r => openAfter none r
  | (.change, _, _, _) :: r => openAfter o r

def judgeRecovery (o : Option (String × Key)) (fw : List (Op × String × Key × Nat)) : RecVerdict :=
  match o, fw with
  | none, [] => .ok
  | none, _ :: _ => .notOpen
  | some _, [] => .unclosed
  | some (t, k), [(.commit, t', k', l)] =>
    if (t', k') ≠ (t, k) then .wrongKey else if l = 0 then .zeroLsn else .ok
  | some _, _ => .malformed

def recAux : Option (String × Key) → Hist → List RecVerdict
  | _, [] => []
  | o, (e, as) :: r =>
    if hasExit as then [] else      -- `Start` returned: nothing after this is real
    match e.msg with
    | .errorResponse _ => judgeRecovery o (fwdsOf as) :: recAux none r
    | _ => recAux (openAfter o (fwdsOf as)) r

def c02Verdicts (h : Hist) : List RecVerdict := recAux none h
def c02Recovery (h : Hist) : Bool := (c02Verdicts h).all (· == .ok)

end PgBifrost.Spec.Client
