import PgBifrost.Model.Filter
import PgBifrost.Gen.CliFilter
/-!
# C08: what the user asks for with the four filter options, and the composition
command line ▸ filter stage
-/
namespace PgBifrost.Spec.Filter
open PgBifrost.Filter PgBifrost.Gen.CliFilter

/-- what the documentation promises. `mt p` = "pattern number `p` of the (only) regex list
matches the relation". -/
def userIntent (wl bl wlr blr : List String) (mt : Nat → Bool) (rel : String) : Bool :=
  if !wl.isEmpty then wl.any (· == rel)
  else if !bl.isEmpty then !(bl.any (· == rel))
  else if !wlr.isEmpty then (List.range wlr.length).any mt
  else if !blr.isEmpty then !((List.range blr.length).any mt)
  else true

/-- at most one of the four options is given -/
def atMostOneKind (wl bl wlr blr : List String) : Bool :=
  ([wl, bl, wlr, blr].filter (fun l => !l.isEmpty)).length ≤ 1

def ofCli (c : CliOut) : Cfg := ⟨c.whitelist, c.regex, c.tablelist⟩

/-- the decision the real pipeline takes for a data message of relation `rel`, from the command line -/
def cliDecision (wl bl wlr blr : List String) (mt : Nat → Bool) (rel : String) : Except String Bool :=
  (cliFilter wl bl wlr blr).map fun c => passes (ofCli c) mt .data rel

end PgBifrost.Spec.Filter
