import PgBifrost.Model.KinesisRetry
/-!
# C11 — decidable statement on one batch's history (used by the monitor and the theorems)

A history of one batch: the batch's records, the argument of every `PutRecords` call, the
outcome the world played at every attempt, the worker's result and what it sent on `txnsWritten`.
-/
namespace PgBifrost.Spec.Kinesis
open PgBifrost.KinesisRetry PgBifrost.Batch

/-- outcome of attempt `i` (a script that is too short continues with whole-call errors) -/
def outAt (outs : List Outcome) (i : Nat) : Outcome := outs.getD i .callError

/-- the AWS `PutRecords` contract for the answer to request `req`: one result entry per request
entry, and `FailedRecordCount` = number of entries with an error code -/
def respOk {α} (req : List α) : Outcome → Bool
  | .resp codes fc => codes.length == req.length && fc == codes.count true
  | _ => true

/-- every answer played during the run satisfied the contract for the request it answered -/
def AwsContract {α} (outs : List Outcome) (calls : List (List α)) : Prop :=
  ∀ i c, calls[i]? = some c → respOk c (outAt outs i) = true

def awsContractB {α} (outs : List Outcome) (calls : List (List α)) : Bool :=
  calls.zipIdx.all fun p => respOk p.1 (outAt outs p.2)

/-- record `j` of call `i` was accepted: the answer has an entry `j` without error code -/
def acceptedAt (outs : List Outcome) (i j : Nat) : Bool :=
  match outAt outs i with
  | .resp codes _ => codes[j]? == some false
  | _ => false

/-- what the call after `c` must carry, given the outcome of `c` -/
def nextOf {α} (c : List α) : Outcome → List α
  | .resp codes _ => failedOf c codes
  | _ => c

def allAccepted {α} [BEq α] (recs : List α) (calls : List (List α)) (outs : List Outcome) : Bool :=
  recs.all fun r => calls.zipIdx.any fun ci => ci.1.zipIdx.any fun xj => xj.1 == r && acceptedAt outs ci.2 xj.2

def retryExact {α} [BEq α] (recs : List α) (calls : List (List α)) (outs : List Outcome) : Bool :=
  (match calls with | [] => true | c :: _ => c == recs) &&
  (List.range (calls.length - 1)).all fun n =>
    calls[n + 1]? == some (nextOf (calls.getD n []) (outAt outs n))

/-- C05 at the sink: every `PutRecords` call submits records of the batch in the batch's order (each call is a
sub-list, in order, of the batch) -/
def callsInOrder {α} [BEq α] (recs : List α) (calls : List (List α)) : Bool :=
  calls.all fun c => c.isSublist recs

inductive Verdict | skip | ok | viol (what : String)
deriving DecidableEq, Repr

/-- `reported` = what was received on `txnsWritten` for this batch; `txns` = the batch's transactions -/
def check (recs : List Rec) (calls : List (List Rec)) (outs : List Outcome) (written : Bool)
    (reported : Option (List TxnCount)) (txns : List TxnCount) : Verdict :=
  if !awsContractB outs calls then .skip
  else if written && !allAccepted recs calls outs then .viol "written-but-not-all-accepted"
  else if !retryExact recs calls outs then .viol "retry-not-exactly-the-failed-records"
  else if !written && reported.isSome then .viol "reported-without-success"
  else if written && reported != some txns then .viol "written-but-wrong-report"
  else .ok

end PgBifrost.Spec.Kinesis
