import PgBifrost.Model.S3Put
/-!
# C12 as a decidable statement about ONE batch of an S3 worker history

"written ⇒ a PutObject succeeded whose gunzipped body is exactly the batch's records in order, one per
line; key = `<ks'>/<yyyy>/<mm>/<dd>/<hh>/<full>_<first record lsn>.gz` where `ks'` is the key space without
leading/trailing slashes, omitted when empty."
-/
namespace PgBifrost.Spec.S3
open PgBifrost.S3Put

/-- key space without its outer slashes (characterised by `Props.C12.strip_spec`: `ks` = slashes ++
`stripSlashes ks` ++ slashes and `stripSlashes ks` neither starts nor ends with a slash) -/
def stripSlashes (ks : Bytes) : Bytes := trim ks

/-- the key the property prescribes -/
def expectedKey (ks : Bytes) (t : TimeParts) (lsn : Nat) : Bytes :=
  (if stripSlashes ks = [] then [] else stripSlashes ks ++ [slash])
    ++ t.year ++ [slash] ++ t.month ++ [slash] ++ t.day ++ [slash] ++ t.hour ++ [slash]
    ++ t.full ++ [underscore] ++ dec lsn ++ gzSuffix

/-- the body the property prescribes -/
def expectedBody (recs : List Rec) : Bytes := recs.flatMap fun r => r.json ++ [newline]

def isDigit (b : UInt8) : Bool := 48 ≤ b && b ≤ 57

/-- a clock answer of the shape the property talks about -/
def wellFormedTime (t : TimeParts) : Bool :=
  [t.year, t.month, t.day, t.hour].all (fun p => p ≠ [] && p.all isDigit) && t.full.length == 14 && t.full.all isDigit

/-- what the sink observed for one batch -/
structure Obs where
  reported : Bool
  key : Option Bytes
  lastOk : Bool                 -- the last PutObject call succeeded
  body : Option Bytes           -- gunzipped body of that call (`none`: not decodable)
  enc : String

def check (ks : Bytes) (t : TimeParts) (recs : List Rec) (o : Obs) : Option String :=
  if !o.reported then none
  else if !o.lastOk then some "reported written without a successful PutObject"
  else if o.enc != "gzip" then some "content encoding is not gzip"
  else if o.body != some (expectedBody recs) then some "object body is not the batch's records, one per line"
  else match recs with
    | [] => some "empty batch reported"
    | r0 :: _ =>
      if !wellFormedTime t then none
      else if o.key != some (expectedKey ks t r0.lsn) then some "object key deviates from <ks>/<yyyy>/<mm>/<dd>/<hh>/<full>_<lsn>.gz"
      else none

/-- a clock component as the property assumes it: non-empty, no slash -/
def Clean (p : Bytes) : Prop := p ≠ [] ∧ slash ∉ p

/-- a clock answer as the property assumes it -/
structure CleanTime (t : TimeParts) : Prop where
  year : Clean t.year
  month : Clean t.month
  day : Clean t.day
  hour : Clean t.hour
  full : slash ∉ t.full

end PgBifrost.Spec.S3
