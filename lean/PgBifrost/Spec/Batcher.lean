import PgBifrost.Model.Batcher
import PgBifrost.Model.Partitioner
/-!
# Decidable monitors for the batcher-level statements of C04 / C05 / C06 / C15

Evaluated on what the IMPLEMENTATION emitted (dispatches, self-reports, statistics, the final
open set), against the input messages and the configuration. Core Lean only.
-/
namespace PgBifrost.Spec.Batcher
open PgBifrost.Batch PgBifrost.Batcher

/-- which records a batch kind refuses, as the property states it (per-record limits) -/
inductive KindSpec where
  | generic (maxSize : Nat)
  | kinesis (maxRecords maxBatch maxRecord : Nat) (meth : KinesisMethod)
  | kafka (maxSize maxBytes : Nat)
deriving Repr, Inhabited

def tooBig (k : KindSpec) (m : Msg) : Bool :=
  match k with
  | .generic _ => false
  | .kinesis _ _ mr _ => decide (mr < m.size)
  | .kafka _ mb => decide (mb < m.ksize)

def invalid (k : KindSpec) (m : Msg) : Bool :=
  match k with
  | .kinesis _ _ _ meth => !tooBig k m && kinesisKeyLen meth m == 0
  | _ => false

def accepted (k : KindSpec) (m : Msg) : Bool := m.op == .data && !tooBig k m && !invalid k m

/-- a dispatched batch as observed at a worker channel -/
structure OBatch where
  worker : Nat
  pkey : PKey
  ids : List Nat
  txns : List TxnCount
  bytes : Nat
  keys : Option (List (List UInt8)) := none
deriving Repr, Inhabited

structure OOpen where
  pkey : PKey
  n : Nat
  bytes : Nat
  txns : List TxnCount
deriving Repr, Inhabited

structure Hist where
  kind : KindSpec
  workers : Nat
  routing : Routing
  msgs : List Msg            -- every message fed, in order
  dispatched : List OBatch   -- in dispatch order
  selfReports : List (List TxnCount)
  tooBigStats : Nat
  invalidStats : Nat
  openB : List OOpen         -- open set at the end
  fatal : Bool
deriving Repr, Inhabited

def msgOf (h : Hist) (id : Nat) : Option Msg := h.msgs.find? fun m => m.op == .data && m.id == id

def pkeys (h : Hist) : List PKey := (h.msgs.map (·.pkey)).eraseDups

/-- C06: every record of a batch carries the batch's partition key -/
def singleKey (h : Hist) : Bool :=
  h.dispatched.all fun b => b.ids.all fun id =>
    match msgOf h id with
    | some m => m.pkey == b.pkey
    | none => false

/-- C04/C05: per partition key, the dispatched records (in dispatch order) followed by the
still-open ones are exactly the accepted input records of that key in input order; nothing is
dispatched twice -/
def exactlyOnce (h : Hist) : Bool :=
  let allIds := h.dispatched.flatMap (·.ids)
  allIds.length == allIds.eraseDups.length &&
  (pkeys h).all fun pk =>
    let want := (h.msgs.filter fun m => m.pkey == pk && accepted h.kind m).map (·.id)
    let got := (h.dispatched.filter (·.pkey == pk)).flatMap (·.ids)
    let openN := ((h.openB.filter (·.pkey == pk)).map (·.n)).foldl (· + ·) 0
    got == want.take got.length && got.length + openN == want.length

def countOf (txns : List TxnCount) (key : Nat) : Nat :=
  ((txns.filter (·.key == key)).map (·.count)).foldl (· + ·) 0

/-- C04 (second sentence): per delivery key, the counts reported by all batches handed out or
still open add up to that key's records plus counted over-size drops -/
def txnsExact (h : Hist) : Bool :=
  let keys := ((h.msgs.filter (·.op == .data)).map (·.key)).eraseDups
  keys.all fun key =>
    let want := (h.msgs.filter fun m => m.op == .data && m.key == key && !invalid h.kind m).length
    let got := (h.dispatched.map fun b => countOf b.txns key).foldl (· + ·) 0 +
               (h.selfReports.map fun t => countOf t key).foldl (· + ·) 0 +
               (h.openB.map fun o => countOf o.txns key).foldl (· + ·) 0
    got == want

/-- per batch: its reported counts cover at least its own records -/
def txnsCoverPayload (h : Hist) : Bool :=
  h.dispatched.all fun b =>
    let keys := (b.ids.filterMap fun id => (msgOf h id).map (·.key)).eraseDups
    keys.all fun key =>
      (b.ids.filter fun id => (msgOf h id).map (·.key) == some key).length ≤ countOf b.txns key

/-- C05: routing -/
def routingOk (h : Hist) : Bool :=
  match h.routing with
  | .partition => h.dispatched.all fun b => b.worker == PgBifrost.Crc32.quickHash b.pkey h.workers
  | .roundRobin =>
    ((List.range h.dispatched.length).zip h.dispatched).all fun (i, b) => b.worker == i % h.workers

/-- C15: hard limits of the sink -/
def limitsOk (h : Hist) : Bool :=
  h.dispatched.all fun b =>
    let ms := b.ids.filterMap (msgOf h)
    match h.kind with
    | .generic n => decide (b.ids.length ≤ n)
    | .kafka n mb => decide (b.ids.length ≤ n) && ms.all fun m => decide (m.ksize ≤ mb)
    | .kinesis _ _ _ meth =>
      -- the sink's hard limits as the property (and AWS) state them, whatever the code's constants say
      decide (b.ids.length ≤ 500) &&
      decide ((ms.map fun m => m.size + kinesisKeyLen meth m).foldl (· + ·) 0 ≤ 5 * 1024 * 1024) &&
      ms.all fun m => decide (m.size ≤ 1024 * 1024)

/-- C15: every per-record-limit drop has its statistic -/
def dropStatsOk (h : Hist) : Bool :=
  h.tooBigStats == (h.msgs.filter fun m => m.op == .data && tooBig h.kind m).length &&
  h.invalidStats == (h.msgs.filter fun m => m.op == .data && invalid h.kind m).length

/-- C06: Kinesis record keys -/
def kinesisKeysOk (h : Hist) : Bool :=
  match h.kind with
  | .kinesis _ _ _ meth =>
    h.dispatched.all fun b =>
      match b.keys with
      | some ks => ks == (b.ids.filterMap (msgOf h)).map (PgBifrost.Partitioner.kinesisKey meth)
      | none => false
  | _ => true

end PgBifrost.Spec.Batcher
