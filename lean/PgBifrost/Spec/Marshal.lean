import PgBifrost.Model.Marshal
/-!
# C10 — the documented decision table, as a decidable check of ONE (change, record) pair

Used by the monitor on the implementation's parsed output and by the theorems in `Props/C10.lean`.

Stated interpretation of the property text:
* DELETE shows every column (of `Pr.Columns`, where the decoder puts the old tuple) as `old` only;
* otherwise, for each column `k ↦ v` of the new tuple: `old` is shown iff old values are enabled, `k` is in the
  old tuple and the old value TEXT differs from the new value TEXT ("only where the value changed");
* `new` is the previous value iff `v` is the TOAST marker — the UNQUOTED text `unchanged-toast-datum`, which is how
  test_decoding prints an unchanged external datum; a quoted `'unchanged-toast-datum'` is ordinary text — and the old
  tuple has a value for `k` (one that is not itself the marker: then there is no previous value to show);
  otherwise `new` is `v`;
* `v`,`t` are the value/type texts, `q` is `"true"`/`"false"`; table, operation, txn, time_ms equal the change's,
  time is the environment's RFC3339 text (epoch constant for 0), lsn is `%X/%X` of the high and low 32 bits.
-/
namespace PgBifrost.Spec.Marshal
open PgBifrost.Marshal

/-- the TOAST marker as test_decoding prints it: unquoted -/
def unchangedToast (v : CV) : Bool := v.value == toastMarker && !v.quoted

/-- a quoted text value that happens to read `unchanged-toast-datum` (finding F5) -/
def quotedToastLiteral (v : CV) : Bool := v.value == toastMarker && v.quoted

def render (v : CV) : JCV := ⟨v.value, v.type, if v.quoted then "true" else "false"⟩

def specOld (noOld : Bool) (old : Option CV) (v : CV) : Option CV :=
  match old with
  | some o => if !noOld && o.value != v.value then some o else none
  | none => none

def specNew (old : Option CV) (v : CV) : CV :=
  match old with
  | some o => if unchangedToast v && !unchangedToast o then o else v
  | none => v

/-- expected (`old`?, `new`?) for the column `k ↦ v` -/
def specPair (op : String) (noOld : Bool) (old : Option CV) (v : CV) : Option JCV × Option JCV :=
  if op = "DELETE" then (some (render v), none)
  else ((specOld noOld old v).map render, some (render (specNew old v)))

def specColumn (op : String) (noOld : Bool) (old : List (String × CV)) (kv : String × CV) :
    String × Option JCV × Option JCV :=
  (kv.1, specPair op noOld (old.lookup kv.1) kv.2)

/-! ## LSN text -/

def hexValU (c : Char) : Option Nat :=
  if '0' ≤ c ∧ c ≤ '9' then some (c.toNat - 48)
  else if 'A' ≤ c ∧ c ≤ 'F' then some (c.toNat - 55)
  else none

def parseHexAux : Nat → List Char → Option Nat
  | acc, [] => some acc
  | acc, c :: cs => match hexValU c with
    | some d => parseHexAux (acc * 16 + d) cs
    | none => none

/-- non-empty upper-case hex -/
def parseHex (cs : List Char) : Option Nat := if cs.isEmpty then none else parseHexAux 0 cs

/-- split at the first `/` -/
def splitSlash : List Char → Option (List Char × List Char)
  | [] => none
  | c :: cs => if c = '/' then some ([], cs) else (splitSlash cs).map fun p => (c :: p.1, p.2)

def parseLsnChars (cs : List Char) : Option Nat :=
  match splitSlash cs with
  | some (a, b) => match parseHex a, parseHex b with
    | some hi, some lo => if hi < 2 ^ 32 ∧ lo < 2 ^ 32 then some (hi * 2 ^ 32 + lo) else none
    | _, _ => none
  | none => none

/-- the standard `hi/lo` text form of a 64-bit LSN, read back -/
def parseLsn (s : String) : Option Nat := parseLsnChars s.toList

/-- the standard text of an LSN -/
def specLsn (x : Nat) : String := upperHex (x / 2 ^ 32) ++ "/" ++ upperHex (x % 2 ^ 32)

/-! ## conformance of a record -/

def specTime (c : Change) : String := if c.timeMs = 0 then epochFormatted else c.timeStr

/-- header part of the check -/
def fieldsOk (c : Change) (r : Record) : Bool :=
  r.time == specTime c && r.timeMs == c.timeMs && r.txn == c.key && r.table == c.relation &&
  r.operation == c.operation && r.lsn == specLsn c.lsn && parseLsn r.lsn == some c.lsn

def columnOk (op : String) (noOld : Bool) (old : List (String × CV)) (rcols : List (String × Option JCV × Option JCV))
    (kv : String × CV) : Bool :=
  rcols.lookup kv.1 == some (specPair op noOld (old.lookup kv.1) kv.2)

/-- every column of the change is rendered as the table says, and there is no other column -/
def columnsOk (noOld : Bool) (c : Change) (r : Record) : Bool :=
  r.columns.length == c.columns.length && c.columns.all (columnOk c.operation noOld c.oldColumns r.columns)

/-- **the property for one change** -/
def conforms (noOld : Bool) (c : Change) (r : Record) : Bool := fieldsOk c r && columnsOk noOld c r

/-- header fields of the stage output -/
def headerOk (c : Change) (o : Out) : Bool :=
  o.operation == c.operation && o.table == c.relation && o.timeBasedKey == c.key && o.walStart == c.lsn &&
  o.transaction == c.txn && o.partitionKey == c.pkey

/-- the property for one stage output: BEGIN/COMMIT carry no JSON, every other change a conforming record -/
def outOk (noOld : Bool) (c : Change) (o : Out) : Bool :=
  headerOk c o &&
  (if c.operation = "BEGIN" ∨ c.operation = "COMMIT" then o.json.isNone
   else match o.json with
     | some r => conforms noOld c r
     | none => false)

/-- the change contains no quoted `'unchanged-toast-datum'` text (hypothesis of the partial theorem) -/
def noQuotedToastLiteral (c : Change) : Bool :=
  c.columns.all (fun kv => !quotedToastLiteral kv.2) && c.oldColumns.all (fun kv => !quotedToastLiteral kv.2)

/-- names are unique, as in a Go map -/
def uniqueNames (l : List (String × CV)) : Bool := (l.map (·.1)).eraseDups.length == l.length

/-! ## monitor verdict -/

/-- verdict on one column: `none` = conforms; `some true` = deviates exactly as finding F5 (the column's new or
old value is a quoted toast literal and the record shows what the faithful model shows); `some false` = any other deviation -/
def columnVerdict (noOld : Bool) (c : Change) (r : Record) (kv : String × CV) : Option Bool :=
  if columnOk c.operation noOld c.oldColumns r.columns kv then none
  else
    let lit := quotedToastLiteral kv.2 || (c.oldColumns.lookup kv.1).any quotedToastLiteral
    some (lit && r.columns.lookup kv.1 == some (colEntry c.operation noOld c.oldColumns kv).2)

/-- monitor answer: `ok`, or `viol` followed by what deviates; `known` only if every deviation is an F5 column -/
def verdict (noOld : Bool) (c : Change) (o : Out) : String :=
  if outOk noOld c o then "ok"
  else if !headerOk c o then "viol header"
  else match o.json with
    | none => if c.operation = "BEGIN" ∨ c.operation = "COMMIT" then "ok" else "viol nojson"
    | some r =>
      if c.operation = "BEGIN" ∨ c.operation = "COMMIT" then "viol json-for-marker"
      else if !fieldsOk c r then "viol fields"
      else if r.columns.length != c.columns.length then "viol column-count"
      else
        let vs := c.columns.filterMap (columnVerdict noOld c r)
        if vs.all id then "viol known quoted_toast_literal" else "viol columns"

end PgBifrost.Spec.Marshal
