import PgBifrost.Proofs.LedgerSimple.Basic
/-!
# Decidable monitors for the ledger-level statements of C01 / C02

`Contract` (E1–E3 + key/txn consistency) and `NoStale` (E4) of DESIGN.md §6/C01 as `Bool`
checkers on a finite trace, plus the safety / drain conclusions evaluated on what an
implementation actually emitted. Core Lean only (used by the driver).
-/
namespace PgBifrost.Spec.Ledger
open PgBifrost.Ledger (Op)
open PgBifrost.LedgerSimple (wsum seenIn)

def idxs (tr : List Op) : List (Nat × Op) := (List.range tr.length).zip tr

def seens (tr : List Op) : List (Nat × Nat × Nat × Nat × Nat × Bool) :=
  (idxs tr).filterMap fun (i, op) => match op with
    | .seen t k tot c r => some (i, t, k, tot, c, r)
    | _ => none

def mentions (tr : List Op) : List (Nat × Nat × Nat) :=   -- (index, txn, key)
  (idxs tr).filterMap fun (i, op) => match op.txn?, op.key? with
    | some t, some k => some (i, t, k)
    | _, _ => none

/-- E1a: at most one `seen` per key -/
def seenUnique (tr : List Op) : Bool :=
  let ks := (seens tr).map fun (_, _, k, _, _, _) => k
  ks.length == ks.eraseDups.length

/-- E1b: commits non-decreasing in seen order; a real seen is strictly above everything before -/
def seenMono (tr : List Op) : Bool :=
  let ss := seens tr
  ss.all fun (i, _, _, _, c1, _) => ss.all fun (j, _, _, _, c2, r2) =>
    !(i < j) || (c1 ≤ c2 && (!r2 || c1 < c2))

/-- E2: written sums never exceed the announced total; every written count is positive -/
def wsumLe (tr : List Op) : Bool :=
  (seens tr).all fun (_, _, k, tot, _, _) => wsum tr k ≤ tot

def writtenPos (tr : List Op) : Bool :=
  tr.all fun op => match op with | .written _ _ n => 0 < n | _ => true

/-- E3: if `seen k1` (at j) precedes `seen kj` (at m), nothing mentions `kj` before j -/
def orderOk (tr : List Op) : Bool :=
  let ss := seens tr
  let ms := mentions tr
  ss.all fun (j, _, _, _, _, _) => ss.all fun (m, _, kj, _, _, _) =>
    !(j < m) || ms.all fun (i, _, k) => !(i < j && k == kj)

/-- a delivery key belongs to one transaction -/
def keyTxn (tr : List Op) : Bool :=
  let ms := mentions tr
  ms.all fun (_, t1, k1) => ms.all fun (_, t2, k2) => !(k1 == k2) || t1 == t2

def checkContract (tr : List Op) : Bool :=
  seenUnique tr && seenMono tr && wsumLe tr && writtenPos tr && orderOk tr && keyTxn tr

/-- E4: once a different key of the same transaction shows up, the older key was never
committed (`seen`) and is never mentioned again -/
def checkNoStale (tr : List Op) : Bool :=
  let ms := mentions tr
  let ss := seens tr
  ms.all fun (i, t1, k1) => ms.all fun (j, t2, k2) =>
    !(i < j && t1 == t2 && k1 != k2) ||
      (ss.all (fun (_, _, k, _, _, _) => k != k1) && ms.all (fun (m, _, k) => !(j < m && k == k1)))

/-- safety of one emit: at position `n` the implementation emitted `v` -/
def emitSafe (tr : List Op) (n v : Nat) : Bool :=
  (seens tr).all fun (_, _, k, tot, c, real) => !(real && c ≤ v) || wsum (tr.take n) k == tot

/-- all recorded emits `(position, value)` are safe -/
def emitsSafe (tr : List Op) (emits : List (Nat × Nat)) : Bool :=
  emits.all fun (n, v) => emitSafe tr n v

def maxCommit (tr : List Op) : Nat := (seens tr).foldl (fun m (_, _, _, _, c, _) => max m c) 0

/-- hypotheses of the drain statement: every committed delivery fully written, commits
non-zero, every delivery without a `seen` was superseded by a later key of its transaction -/
def drainHyps (tr : List Op) : Bool :=
  let ss := seens tr
  let ms := mentions tr
  ss.all (fun (_, _, k, tot, c, _) => wsum tr k == tot && 0 < c) &&
  ms.all fun (_, t, k) =>
    ss.any (fun (_, _, k', _, _, _) => k' == k) ||
      ms.any fun (j, t', k') => t' == t && k' != k && ms.all fun (i, _, k'') => !(k'' == k) || i < j

end PgBifrost.Spec.Ledger
