import PgBifrost.Model.Aggregator
/-!
# C19 as a decidable statement on a finite history of the aggregator

The history is what an observer of the IMPLEMENTATION sees: which statistics were inserted, which
were dropped (with the clock reading of their expiry test), what every scan put on the output
channel (raw statistics in channel order), and finally the table of still-held aggregates.
The spec does not use the model's `step`; it recomputes everything from the property's text:

* per (identity, window = window·(ts ÷ window)) the values "open" (recorded, not yet reported);
* a report for (identity, window) must carry exactly the sum of the open values, and for a
  histogram `_avg = trunc(sum/count)`, `_max`, `_min` of exactly these values; it closes them;
* a statistic may be dropped only if its window had expired at its check
  (`now > window start + window + grace`);
* at the end, every open (identity, window) is held with exactly the open sum and count, nothing
  else is held; and per (identity, window): Σ reported + held = Σ recorded-and-not-dropped.
-/
namespace PgBifrost.Spec.Aggregator
open PgBifrost.Aggregator

inductive Ev
  | added (s : Stat)
  | dropped (s : Stat) (now : Int)
  | scan (out : List Stat)
  /-- bucket, key, value, count -/
  | held (tbl : List (Int × String × Int × Int))
deriving Repr

abbrev Key := Ident × Int

structure SState where
  /-- values recorded for (identity, window) and not yet reported, oldest first -/
  opn : List (Key × List Int) := []
  /-- per (identity, window): (Σ recorded-and-inserted, Σ reported) -/
  tally : List (Key × (Int × Int)) := []
  viol : List String := []

def isum : List Int → Int
  | [] => 0
  | a :: r => a + isum r

def imax : Int → List Int → Int
  | m, [] => m
  | m, a :: r => imax (if a > m then a else m) r

def imin : Int → List Int → Int
  | m, [] => m
  | m, a :: r => imin (if a < m then a else m) r

def getOpen (st : SState) (k : Key) : List Int := (st.opn.lookup k).getD []

def setOpen (l : List (Key × List Int)) (k : Key) (v : List Int) : List (Key × List Int) :=
  (k, v) :: l.filter (fun p => p.1 != k)

def bump (l : List (Key × (Int × Int))) (k : Key) (da dr : Int) : List (Key × (Int × Int)) :=
  let cur := (l.lookup k).getD (0, 0)
  (k, (cur.1 + da, cur.2 + dr)) :: l.filter (fun p => p.1 != k)

def showKey (k : Key) : String := s!"{k.1.component}|{k.1.name}|{k.1.typ.str}|{k.1.unit}@{k.2}"

/-- one report (count: the main statistic; histogram: main, _avg, _max, _min) against the open values -/
def judgeReport (st : SState) (m : Stat) (extra : Option (Int × Int × Int)) : SState :=
  let k : Key := (m.id, m.ts)
  let vals := getOpen st k
  let v1 := if vals.isEmpty then [s!"report of {showKey k} covers no recorded value"] else []
  let v2 := if m.value != isum vals then
      [s!"report of {showKey k} carries {m.value}, recorded values sum to {isum vals}"] else []
  let v3 := match extra, vals with
    | some (avg, mx, mn), a :: r =>
      (if avg != Int.tdiv (isum vals) vals.length then [s!"{showKey k}: _avg {avg} is not trunc({isum vals}/{vals.length})"] else []) ++
      (if mx != imax a r then [s!"{showKey k}: _max {mx} is not {imax a r}"] else []) ++
      (if mn != imin a r then [s!"{showKey k}: _min {mn} is not {imin a r}"] else [])
    | _, _ => []
  { opn := setOpen st.opn k [], tally := bump st.tally k 0 m.value, viol := st.viol ++ v1 ++ v2 ++ v3 }

def isDerived (m x : Stat) (sfx : String) : Bool :=
  x.id == m.id.withSuffix sfx && x.ts == m.ts

/-- group the raw output of one scan into reports (structural recursion; `grp` = a histogram's
main statistic and the derived statistics collected so far) -/
def judgeScanAux : SState → Option (Stat × List Stat) → List Stat → SState
  | st, none, [] => st
  | st, some (m, _), [] =>
    { st with viol := st.viol ++ [s!"histogram report of {showKey (m.id, m.ts)} is truncated"] }
  | st, none, x :: r =>
    match x.id.typ with
    | .count => judgeScanAux (judgeReport st x none) none r
    | .histogram => judgeScanAux st (some (x, [])) r
  | st, some (m, got), x :: r =>
    match got ++ [x] with
    | [a, mx, mn] =>
      if isDerived m a "_avg" && isDerived m mx "_max" && isDerived m mn "_min" then
        judgeScanAux (judgeReport st m (some (a.value, mx.value, mn.value))) none r
      else
        judgeScanAux { st with viol := st.viol ++ [s!"histogram report of {showKey (m.id, m.ts)} is not followed by _avg,_max,_min"] } none r
    | got' => judgeScanAux st (some (m, got')) r

def judgeScan (st : SState) (out : List Stat) : SState := judgeScanAux st none out

def judgeHeld (c : Cfg) (st : SState) (tbl : List (Int × String × Int × Int)) : SState :=
  let live := st.opn.filter (fun p => !p.2.isEmpty)
  let v1 := live.flatMap fun p =>
    match tbl.filter (fun e => e.1 == p.1.2 && e.2.1 == aggKey p.1.1) with
    | [e] =>
      (if e.2.2.1 != isum p.2 then [s!"held {showKey p.1} value {e.2.2.1}, open values sum to {isum p.2}"] else []) ++
      (if e.2.2.2 != p.2.length then [s!"held {showKey p.1} count {e.2.2.2}, {p.2.length} open values"] else [])
    | [] => [s!"{showKey p.1}: {p.2.length} recorded values neither reported nor held"]
    | _ => [s!"{showKey p.1}: held more than once"]
  let v2 := if tbl.length != live.length then
      [s!"{tbl.length} aggregates held, {live.length} (identity, window) pairs open"] else []
  -- the literal conservation equation, per (identity, window)
  let v3 := st.tally.flatMap fun t =>
    let heldV := isum ((tbl.filter (fun e => e.1 == t.1.2 && e.2.1 == aggKey t.1.1)).map (·.2.2.1))
    if t.2.2 + heldV != t.2.1 then
      [s!"{showKey t.1}: reported {t.2.2} + held {heldV} ≠ recorded {t.2.1}"] else []
  let _ := c
  { st with viol := st.viol ++ v1 ++ v2 ++ v3 }

def stepEv (c : Cfg) (st : SState) : Ev → SState
  | .added s =>
    let k : Key := (s.id, c.window * Int.tdiv s.ts c.window)
    { st with opn := setOpen st.opn k (getOpen st k ++ [s.value]), tally := bump st.tally k s.value 0 }
  | .dropped s now =>
    let win := c.window * Int.tdiv s.ts c.window
    if now > win + c.window + c.grace then st
    else { st with viol := st.viol ++ [s!"statistic {showKey (s.id, win)} value {s.value} dropped at {now} although its window was still open"] }
  | .scan out => judgeScan st out
  | .held tbl => judgeHeld c st tbl

/-- violations of C19 in the history (empty = the history satisfies the property) -/
def violations (c : Cfg) (h : List Ev) : List String := (h.foldl (stepEv c) {}).viol

def ok (c : Cfg) (h : List Ev) : Bool := (violations c h).isEmpty

/-! ## The model's own history (for non-vacuity examples and the driver's self-check) -/

def heldTable (st : State) : List (Int × String × Int × Int) :=
  st.held.flatMap fun p => p.2.map fun q => (p.1, q.1, q.2.value, q.2.count)

def historyAux (c : Cfg) : State → List Op → List Ev
  | st, [] => [.held (heldTable st)]
  | st, .check s now :: r =>
    (if expired c (bucketOf c s.ts) now then [Ev.dropped s now] else []) ++ historyAux c (step c st (.check s now)) r
  | st, .add s :: r => .added s :: historyAux c (step c st (.add s)) r
  | st, .scan nows :: r => .scan (scanOutput c st nows) :: historyAux c (step c st (.scan nows)) r

def historyOf (c : Cfg) (ops : List Op) : List Ev := historyAux c {} ops

end PgBifrost.Spec.Aggregator
