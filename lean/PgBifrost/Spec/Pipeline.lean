/-!
# System-level monitors (C01 safety, C02 drain, C04 exactly-once, C05 per-key order)

Evaluated on an end-to-end history of the assembled real stages: what was fed in (as the
replication client would forward it), what the sink fakes accepted, what was dropped as
over-size, and which positions were acknowledged (values the ledger emitted), in global
event order. Core Lean only.
-/
namespace PgBifrost.Spec.Pipeline

inductive Ev where
  /-- message handed to the pipeline: BEGIN/COMMIT/DATA of delivery `key`; `passes` = permitted by the filter -/
  | fed (kind : Nat) (id key lsn : Nat) (passes : Bool) (pkey : Nat)   -- kind 0 BEGIN, 1 COMMIT, 2 DATA
  /-- the sink accepted record `id` (worker `w`) -/
  | sunk (w id : Nat)
  /-- record `id` dropped (and counted) as larger than the sink's record limit -/
  | dropped (id : Nat)
  /-- position acknowledged (emitted by the ledger) -/
  | ack (v : Nat)
deriving Repr, Inhabited

def idxs (h : List Ev) : List (Nat × Ev) := (List.range h.length).zip h

/-- delivery keys with a forwarded COMMIT, with the COMMIT's LSN -/
def commits (h : List Ev) : List (Nat × Nat) :=
  h.filterMap fun e => match e with | .fed 1 _ key lsn _ _ => some (key, lsn) | _ => none

/-- ids of the row changes of delivery `key` that pass the filter -/
def changesOf (h : List Ev) (key : Nat) : List Nat :=
  h.filterMap fun e => match e with
    | .fed 2 id k _ true _ => if k == key then some id else none
    | _ => none

def settledBefore (h : List Ev) (p id : Nat) : Bool :=
  (h.take p).any fun e => match e with
    | .sunk _ i => i == id
    | .dropped i => i == id
    | _ => false

/-- C01: at every acknowledgement of `v`, every filtered-in change of every delivery committed at
or before `v` has been accepted by the sink (or dropped as over-size) already -/
def safe (h : List Ev) : Bool :=
  (idxs h).all fun (p, e) => match e with
    | .ack v => (commits h).all fun (key, lsn) => !(lsn ≤ v) || (changesOf h key).all (settledBefore h p)
    | _ => true

/-- the first unsafe acknowledgement, for the replay message -/
def firstUnsafe (h : List Ev) : Option (Nat × Nat) :=
  (idxs h).findSome? fun (p, e) => match e with
    | .ack v =>
      if (commits h).all fun (key, lsn) => !(lsn ≤ v) || (changesOf h key).all (settledBefore h p) then none else some (p, v)
    | _ => none

def maxCommit (h : List Ev) : Nat := (commits h).foldl (fun m (_, l) => max m l) 0
def lastAck (h : List Ev) : Nat :=
  h.foldl (fun m e => match e with | .ack v => max m v | _ => m) 0

/-- C02: the acknowledged position has caught up with the last delivered COMMIT -/
def caughtUp (h : List Ev) : Bool := lastAck h == maxCommit h

/-- C04: every filtered-in change of every delivery (one record per change per delivery) was
accepted exactly once or dropped-and-counted exactly once, and nothing else was accepted -/
def exactlyOnce (h : List Ev) : Bool :=
  let want := h.filterMap fun e => match e with | .fed 2 id _ _ true _ => some id | _ => none
  let got := h.filterMap fun e => match e with | .sunk _ id => some id | .dropped id => some id | _ => none
  got.length == got.eraseDups.length && want.all got.contains && got.all want.contains

/-- C05: records sharing a partition key reach the sink in delivery order (first submissions) -/
def perKeyOrder (h : List Ev) : Bool :=
  let fedOrder := h.filterMap fun e => match e with | .fed 2 id _ _ true pk => some (id, pk) | _ => none
  let pks := (fedOrder.map (·.2)).eraseDups
  let sunk := h.filterMap fun e => match e with | .sunk _ id => some id | _ => none
  pks.all fun pk =>
    let want := (fedOrder.filter (·.2 == pk)).map (·.1)
    let got := sunk.filter want.contains
    got == want.filter got.contains

/-- C05: with partition routing all records of one key are handled by one worker -/
def oneWorkerPerKey (h : List Ev) : Bool :=
  let pkOf := fun id => (h.findSome? fun e => match e with | .fed 2 i _ _ _ pk => if i == id then some pk else none | _ => none)
  let ws := h.filterMap fun e => match e with | .sunk w id => (pkOf id).map fun pk => (pk, w) | _ => none
  ws.all fun (pk, w) => ws.all fun (pk', w') => !(pk == pk') || w == w'

end PgBifrost.Spec.Pipeline
