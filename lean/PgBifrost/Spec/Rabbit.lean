import PgBifrost.Model.RabbitConfirm
/-!
# C13 as a decidable statement about the publish/confirm log of ONE batch

"written ⇒ every message of the batch has a publish that the broker acked, and that ack was delivered (to the
worker, while it handled this batch) after that publish."  Plus the two known shapes (DESIGN §7 F7, F8).
-/
namespace PgBifrost.Spec.Rabbit
open PgBifrost.RabbitConfirm

/-- message `i` has, in `evs`, an accepted publish whose positive confirmation is consumed later in `evs` -/
def confirmedIn : List Ev → Nat → Bool
  | [], _ => false
  | .pub ch tag m .ack :: rest, i => (m == i && rest.contains (.conf ch tag true)) || confirmedIn rest i
  | _ :: rest, i => confirmedIn rest i

def allConfirmed (evs : List Ev) (n : Nat) : Bool := (List.range n).all (confirmedIn evs)

/-- C13 for one batch: `evs` = what happened while the worker handled it -/
def writtenOk (evs : List Ev) (n : Nat) (o : Outcome) : Bool := o != .written || allConfirmed evs n

def isBoundary : Ev → Bool
  | .fail => true | .openFail => true | _ => false

/-- events after the last element satisfying `p` -/
def afterLast (p : Ev → Bool) (evs : List Ev) : List Ev :=
  (evs.reverse.takeWhile (fun e => !p e)).reverse

def isOpened : Ev → Bool
  | .opened _ => true | _ => false

def isPubOf (ch tag : Nat) : Ev → Bool
  | .pub c t _ _ => c == ch && t == tag | _ => false

/-- the attempts of a batch: its events cut after every boundary -/
def segments : List Ev → List Ev → List (List Ev)
  | [], cur => [cur.reverse]
  | e :: rest, cur => if isBoundary e then (e :: cur).reverse :: segments rest [] else segments rest (e :: cur)

def openedCh (ch : Nat) : Ev → Bool
  | .opened c => c == ch | _ => false

/-- F7 `stale_confirm_after_failed_attempt`: in some attempt of the batch a confirmation was consumed whose
publish was not made in that attempt, and an attempt on that channel had failed (nack, publish error, …) since
the channel was opened. -/
def staleShape (prior evs : List Ev) : Bool :=
  (segments evs []).any fun seg =>
    seg.any fun e => match e with
      | .conf ch tag _ => !seg.any (isPubOf ch tag) && (afterLast (openedCh ch) (prior ++ evs)).contains .fail
      | _ => false

def isHandler : Ev → Bool
  | .handler _ => true | _ => false

/-- F8 `nil_notify_after_channel_close`: the broker closed the current channel, its closeHandler ran, and
since then the worker only entered / stayed in the wait. -/
def wedgeShape (prior evs : List Ev) : Bool :=
  let sinceOpen := afterLast isOpened (prior ++ evs)
  let afterH := afterLast isHandler sinceOpen
  sinceOpen.any (fun e => match e with | .close _ => true | _ => false)
  && sinceOpen.any isHandler
  && afterH.all (fun e => match e with | .wait => true | .conf _ _ _ => true | _ => false)
  && (afterLast isBoundary evs).contains .wait

structure Verdict where
  what : String
  known : String

def check (prior evs : List Ev) (n : Nat) (o : Outcome) : Option Verdict :=
  match o with
  | .written =>
    if allConfirmed evs n then none
    else some ⟨"batch reported written but a message has no positively confirmed publish",
               if staleShape prior evs then "stale_confirm_after_failed_attempt" else ""⟩
  | .hang =>
    some ⟨"worker blocks forever after a channel close",
          if wedgeShape prior evs then "nil_notify_after_channel_close" else ""⟩
  | .starve => some ⟨"worker blocks forever on an open channel", ""⟩
  | _ => none

end PgBifrost.Spec.Rabbit
