import PgBifrost.Model.Batcher
import PgBifrost.Model.BatcherTimed
import PgBifrost.Model.Partitioner
import PgBifrost.Model.Util
/-! Line protocol for the batch and batcher models. -/
namespace PgBifrost.Driver.Batcher
open PgBifrost.Batch PgBifrost.Batcher PgBifrost.Util

def showTxns (l : List TxnCount) : String :=
  "[" ++ ";".intercalate (l.map fun e => s!"{e.key}:{e.txn}:{e.count}") ++ "]"

def showIds (l : List Msg) : String := "[" ++ ",".intercalate (l.map fun m => toString m.id) ++ "]"

def showKeys (km : Option KinesisMethod) (b : Batch) : String :=
  match km with
  | none => ""
  | some meth => ":[" ++ ",".intercalate (b.payload.map fun m => hex (PgBifrost.Partitioner.kinesisKey meth m)) ++ "]"

def showEv (km : Option KinesisMethod) : Ev → String
  | .seen l => "seen[" ++ ";".intercalate (l.map fun e => s!"{e.txn}:{e.key}:{e.total}:{e.commit}") ++ "]"
  | .dispatch w b => s!"dispatch:{w}:{hex b.pkey}:{showIds b.payload}:{showTxns b.txns}:{b.bytes}{showKeys km b}"
  | .selfReport t => s!"self:{showTxns t}"
  | .stat n => s!"stat:{n}"
  | .fatal => "fatal"

def showEvs (km : Option KinesisMethod) (l : List Ev) : String :=
  if l.isEmpty then "-" else " ".intercalate (l.map (showEv km))

structure DState where
  K : Kind := genericKind 1
  cfg : Cfg := ⟨1, .roundRobin, 0, 0, 1⟩
  s : State := {}
  km : Option KinesisMethod := none
  /-- timed layer (`Model/BatcherTimed.lean`) run with the INDEX of the message op as clock reading: per open
  key, which op created its batch and which op last moved its modify time -/
  idxTimes : List BTimes := []
  nmsg : Nat := 0

instance : Inhabited DState := ⟨{}⟩

/-- `pm-<documented partition method name>`: the Kinesis factory's decision is then the model's
(`Partitioner.kinesisMethodFor`, tied to the source by `kinesis_factory_as_modelled`) -/
def pmOfName (meth : String) : Option Partitioner.Method :=
  if meth == "pm-none" then some .none else if meth == "pm-tablename" then some .tableName
  else if meth == "pm-transaction" then some .txn else if meth == "pm-transaction-bucket" then some .txnBucket else none

def parseKMeth (s : String) : Option KinesisMethod :=
  match s.splitOn ":" with
  | "kinesis" :: meth :: _ =>
    if meth == "walstart" then some .walStart else if meth == "batch" then some .batch
    else (pmOfName meth).map Partitioner.kinesisMethodFor
  | _ => none

def parseKind (s : String) : Option Kind :=
  match s.splitOn ":" with
  | ["generic", n] => n.toNat?.map genericKind
  | ["kinesis", meth, a, b, c] =>
    match a.toNat?, b.toNat?, c.toNat? with
    | some a, some b, some c =>
      if meth == "walstart" then some (kinesisKind a b c .walStart)
      else if meth == "batch" then some (kinesisKind a b c .batch)
      else (pmOfName meth).map fun pm => kinesisKind a b c (Partitioner.kinesisMethodFor pm)
    | _, _, _ => none
  | ["kafka", a, b, _] =>
    match a.toNat?, b.toNat? with
    | some a, some b => some (kafkaKind a b)
    | _, _ => none
  | _ => none

def parseMOp (s : String) : Option MOp :=
  if s == "BEGIN" then some .begin else if s == "COMMIT" then some .commit
  else if s == "DATA" then some .data else none

def parseMsg (args : List String) : Option Msg :=
  match args with
  | [op, pk, txn, key, size, lsn, id, ksize] =>
    match parseMOp op, unhex pk, nats [txn, key, size, lsn, id, ksize] with
    | some op, some pk, some [txn, key, size, lsn, id, ksize] => some ⟨op, pk, txn, key, size, lsn, id, ksize⟩
    | _, _, _ => none
  | _ => none

def parseTimes (s : String) : Option (List BTimes) :=
  (splitList s).mapM fun e =>
    match e.splitOn ":" with
    | [pk, c, m] =>
      match unhex pk, c.toInt?, m.toInt? with
      | some pk, some c, some m => some ⟨pk, c, m⟩
      | _, _, _ => none
    | _ => none

def showOpen (s : State) : String :=
  joinList (s.openB.map fun (pk, b) => s!"{hex pk}:{b.payload.length}:{b.bytes}:{showTxns b.txns}") ","

def handle (st : DState) (args : List String) : DState × String :=
  match args with
  | ["cfg", kind, workers, routing, upd, mx, mem] =>
    match parseKind kind, workers.toNat?, upd.toInt?, mx.toInt?, mem.toInt? with
    | some K, some w, some upd, some mx, some mem =>
      let r := if routing == "partition" then Routing.partition else Routing.roundRobin
      ({ K := K, cfg := ⟨w, r, upd, mx, mem⟩, s := {}, km := parseKMeth kind, idxTimes := [], nmsg := 0 }, "ok")
    | _, _, _, _, _ => (st, "bad-op")
  | "msg" :: rest =>
    match parseMsg rest with
    | some m =>
      let (s', evs) := step st.K st.cfg st.s (.msg m)
      let n := st.nmsg + 1
      let it := if st.s.dead then st.idxTimes
                else BatcherTimed.setTimes st.idxTimes (BatcherTimed.msgEntry st.K st.s st.idxTimes m (n : Int))
      ({ st with s := s', idxTimes := it, nmsg := n }, showEvs st.km evs)
    | none => (st, "bad-op")
  | ["tick", now, times, order] =>
    match now.toInt?, parseTimes times, (splitList order).mapM unhex with
    | some now, some times, some order =>
      let valid := validTick st.K st.cfg now st.s times order
      let (s', evs) := step st.K st.cfg st.s (.tick now times order)
      ({ st with s := s' }, s!"valid={valid} {showEvs st.km evs}")
    | _, _, _ => (st, "bad-op")
  | ["tick", now, times, order, idx] =>
    -- as above, plus `idx`: per open key the message ops in whose clock brackets the observed create / modify
    -- times of the real batch fall; compared with the timed layer's prediction
    match now.toInt?, parseTimes times, (splitList order).mapM unhex, parseTimes idx with
    | some now, some times, some order, some idx =>
      let valid := validTick st.K st.cfg now st.s times order
      let bad := st.s.openB.filterMap fun (pk, _) =>
        match timesOf st.idxTimes pk, timesOf idx pk with
        | some p, some o => if p.ctime == o.ctime && p.mtime == o.mtime then none
                            else some s!"{hex pk}:model={p.ctime}/{p.mtime}:impl={o.ctime}/{o.mtime}"
        | some _, none => some s!"{hex pk}:not-observed"
        | none, _ => some s!"{hex pk}:no-prediction"
      let (s', evs) := step st.K st.cfg st.s (.tick now times order)
      ({ st with s := s' }, s!"valid={valid} times={if bad.isEmpty then "ok" else joinList bad ";"} {showEvs st.km evs}")
    | _, _, _, _ => (st, "bad-op")
  | ["open"] => (st, showOpen st.s)
  | _ => (st, "bad-op")

/-! `batch`: a single batch driven directly (`new`, `add`) -/
structure BState where
  K : Kind := genericKind 1
  b : Batch := fresh []

instance : Inhabited BState := ⟨{}⟩

def showRes : AddRes → String
  | .ok => "ok" | .full => "full" | .cantFit => "cantfit" | .tooBig => "toobig" | .invalid => "invalid"

def batchHandle (st : BState) (args : List String) : BState × String :=
  match args with
  | ["new", kind, pk] =>
    match parseKind kind, unhex pk with
    | some K, some pk => ({ K := K, b := fresh pk }, "ok")
    | _, _ => (st, "bad-op")
  | "add" :: rest =>
    match parseMsg rest with
    | some m =>
      if m.op != .data then (st, "ok-noop") else
      let (r, b') := st.K.add st.b m
      ({ st with b := b' }, s!"{showRes r} full={st.K.isFull b'} empty={b'.isEmpty} n={b'.payload.length} bytes={b'.bytes} ids={showIds b'.payload} txns={showTxns b'.txns} mtime={if touchesMtime r then "changed" else "same"} ctime=same")
    | none => (st, "bad-op")
  | _ => (st, "bad-op")

def crcHandle (args : List String) : String :=
  match args with
  | [h] => match unhex h with
    | some bs => toString (Crc32.checksum bs).toNat
    | none => "bad-op"
  | [h, n] => match unhex h, n.toNat? with
    | some bs, some n => toString (Crc32.quickHash bs n)
    | _, _ => "bad-op"
  | _ => "bad-op"

end PgBifrost.Driver.Batcher
