import PgBifrost.Spec.Pipeline
import PgBifrost.Model.Util
/-! `pipemon`: Spec.Pipeline evaluated on an end-to-end history of the real stages. -/
namespace PgBifrost.Driver.Pipeline
open PgBifrost.Spec.Pipeline PgBifrost.Util

abbrev MState := List Ev   -- reversed

def handle (st : MState) (args : List String) : MState × String :=
  match args with
  | ["reset"] => ([], "ok")
  | ["fed", kind, id, key, lsn, passes, pk] =>
    match nats [kind, id, key, lsn, pk] with
    | some [kind, id, key, lsn, pk] => (.fed kind id key lsn (passes == "1") pk :: st, "ok")
    | _ => (st, "bad-op")
  | ["sunk", w, id] =>
    match nats [w, id] with
    | some [w, id] => (.sunk w id :: st, "ok")
    | _ => (st, "bad-op")
  | ["dropped", id] =>
    match id.toNat? with
    | some id => (.dropped id :: st, "ok")
    | none => (st, "bad-op")
  | ["ack", v] =>
    match v.toNat? with
    | some v => (.ack v :: st, "ok")
    | none => (st, "bad-op")
  | ["verdict"] =>
    let h := st.reverse
    let fu := match firstUnsafe h with | some (p, v) => s!"{p}:{v}" | none => "-"
    (st, s!"safe={safe h} firstunsafe={fu} caughtup={caughtUp h} once={exactlyOnce h} order={perKeyOrder h} oneworker={oneWorkerPerKey h} lastack={lastAck h} maxcommit={maxCommit h}")
  | _ => (st, "bad-op")

end PgBifrost.Driver.Pipeline
