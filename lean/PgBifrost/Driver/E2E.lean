import PgBifrost.Spec.Filter
import PgBifrost.Driver.Filter
/-!
Line protocol `e2e`: the EXPECTED stdout of the real binary for one end-to-end case (C08, and C04/C10 as a
by-product). It is not a model of the code: it is the user's intent for the option given on the command
line / in the environment (`Spec.Filter.userIntent`) applied to the scripted changes.

`e2e run <mode> <kind> <list> <pm> <extra> <tok>…`
* `kind` ∈ wl | bl | wlr | blr | none, `list` the entries of that option (hex, `-` when none);
* `tok` = `B<xid>` | `C:<relhex>:<OP>:<id>:<bits>` | `E`; token number `k` (1-based) has LSN `base + 16k`;
  `bits` = which regex entries match the relation (Go's regexp, supplied by the harness);
* `mode`, `pm`, `extra` say how the options were passed / partition method / --no-marshal-old-value, --create-slot:
  none of them may change which changes are printed, so they do not enter the answer.

Answer: `ok <relhex:OP:lsn:id,…>` (script order = LSN order) of the permitted changes.
-/
namespace PgBifrost.Driver.E2E
open PgBifrost.Spec.Filter PgBifrost.Util PgBifrost.Driver.Filter

def baseLsn : Nat := 16777216

structure Opts where
  wl : List String := []
  bl : List String := []
  wlr : List String := []
  blr : List String := []

def opts (kind : String) (l : List String) : Option Opts :=
  if kind == "none" then (if l.isEmpty then some {} else none)
  else if l.isEmpty then none
  else if kind == "wl" then some { wl := l }
  else if kind == "bl" then some { bl := l }
  else if kind == "wlr" then some { wlr := l }
  else if kind == "blr" then some { blr := l }
  else none

def str1 (h : String) : Option String :=
  (unhex h).bind fun bs => String.fromUTF8? (ByteArray.mk bs.toArray)

def isOp (s : String) : Bool := s == "INSERT" || s == "UPDATE" || s == "DELETE"

def isBits (s : String) : Bool := !s.isEmpty && s.toList.all fun c => c == '0' || c == '1'

def known (s : String) (l : List String) : Bool := l.any (· == s)

/-- the user's intent for one scripted change -/
def permitted (o : Opts) (bits rel : String) : Bool :=
  userIntent o.wl o.bl o.wlr o.blr (bitsFn bits) rel

/-- walk the tokens: `inTxn`, token index, accumulated items (reversed) -/
def walk (o : Opts) : List String → Bool → Nat → List String → Option (List String)
  | [], inTxn, _, acc => if inTxn then none else some acc.reverse
  | t :: rest, inTxn, k, acc =>
    if t == "E" then (if inTxn then walk o rest false (k + 1) acc else none)
    else match t.toList with
    | 'B' :: xid =>
      if !inTxn && (String.ofList xid).toNat?.isSome then walk o rest true (k + 1) acc else none
    | _ =>
      match t.splitOn ":" with
      | ["C", relh, op, id, bits] =>
        match str1 relh with
        | some rel =>
          if inTxn && isOp op && id.toNat?.isSome && isBits bits then
            let item := s!"{relh}:{op}:{baseLsn + 16 * k}:{id}"
            walk o rest true (k + 1) (if permitted o bits rel then item :: acc else acc)
          else none
        | none => none
      | _ => none

def handle (args : List String) : String :=
  match args with
  | "run" :: mode :: kind :: list :: pm :: extra :: toks =>
    if !(known mode ["flags", "flagseq", "env", "envsp"]) then "bad-op"
    else if !(known pm ["none", "tablename", "transaction", "transaction-bucket"]) then "bad-op"
    else if !(known extra ["-", "noold", "create", "noold+create"]) then "bad-op"
    else match strList list with
      | none => "bad-op"
      | some l =>
        match opts kind l with
        | none => "bad-op"
        | some o =>
          match walk o toks false 1 [] with
          | some items => "ok " ++ joinList items
          | none => "bad-op"
  | _ => "bad-op"

-- F3 end to end (DESIGN §C08 expectation): `--whitelist-regex '^public\.a$'`, rows of public.a and public.b
-- (the pattern matches only the first relation): only public.a may be printed.
#guard handle ["run", "flags", "wlr", "5e7075626c69635c2e6124", "none", "-",
    "B700", "C:7075626c69632e61:INSERT:1:1", "C:7075626c69632e62:INSERT:2:0", "E"]
  == "ok 7075626c69632e61:INSERT:16777248:1"

end PgBifrost.Driver.E2E
