import PgBifrost.Spec.Rabbit
import PgBifrost.Model.Util
/-! Line protocol `rabbit` / `rabbitfixed` (model of the RabbitMQ worker as it is / after the planned repair)
and `rabbitspec` (C13 judged on an observed batch).

* `rabbit cfg <retry budget>` → `ok` (new worker)
* `rabbit batch <msgs> <toks>`; `msgs` = list of `<table hex>:<operation hex>`; `toks` = list of
  `a|n|e|c|C` optionally followed by `h`.  Answer:
  `<outcome> ev=<events> fields=<set|nil> confirms=<channelConfirms>` with events
  `o<ch>` opened, `of` open failed, `p<ch>.<tag>.<msg>.<a|n|e|c|C>.<routing key hex>.<delivery mode>` publish,
  `k<ch>.<tag>.<1|0>` confirmation consumed, `x<ch>` closed, `h<ch>` closeHandler cleared the fields,
  `w` wait entered, `f` attempt failed.
* `rabbitspec <msgs> <prior events> <answer words of the implementation…>` → `ok` | `violation <known|-> <what>` -/
namespace PgBifrost.Driver.Rabbit
open PgBifrost.RabbitConfirm PgBifrost.Util

structure DState where
  budget : Nat := 0
  st : St := {}

def parseTok (s : String) : Option Tok :=
  let p : Option POut := match s.toList.head? with
    | some 'a' => some .ack | some 'n' => some .nack | some 'e' => some .err
    | some 'c' => some .closeCh | some 'C' => some .closeConn | _ => none
  match p, s.toList.tail with
  | some p, [] => some ⟨p, false⟩
  | some p, ['h'] => some ⟨p, true⟩
  | _, _ => none

def parseMsg (s : String) : Option (List UInt8 × List UInt8) :=
  match s.splitOn ":" with
  | [t, o] => do pure (← unhex t, ← unhex o)
  | _ => none

def showP : POut → String
  | .ack => "a" | .nack => "n" | .err => "e" | .closeCh => "c" | .closeConn => "C"

def showEv (msgs : List (List UInt8 × List UInt8)) : Ev → String
  | .opened c => s!"o{c}"
  | .openFail => "of"
  | .pub c t m o =>
    let mo := msgs.getD m ([], [])
    s!"p{c}.{t}.{m}.{showP o}.{hex (routingKey mo.1 mo.2)}.{deliveryMode}"
  | .conf c t a => s!"k{c}.{t}.{if a then 1 else 0}"
  | .close c => s!"x{c}"
  | .handler c => s!"h{c}"
  | .wait => "w"
  | .fail => "f"

def showOutcome : Outcome → String
  | .written => "written" | .exhausted => "exhausted" | .hang => "hang" | .panic => "panic"
  | .starve => "starve" | .dead => "dead"

def handle (mode : Mode) (st : DState) (args : List String) : DState × String :=
  match args with
  | ["cfg", budget] =>
    match budget.toNat? with
    | some b => ({ budget := b, st := {} }, "ok")
    | none => (st, "bad-op")
  | ["batch", msgs, toks] =>
    match (splitList msgs).mapM parseMsg, (splitList toks).mapM parseTok with
    | some ms, some tk =>
      let r := batch mode st.budget st.st ms.length tk
      ({ st with st := r.1 },
       s!"{showOutcome r.2.2} ev={joinList (r.2.1.map (showEv ms))} fields={if r.1.fieldsSet then "set" else "nil"} confirms={r.1.confirms}")
    | _, _ => (st, "bad-op")
  | _ => (st, "bad-op")

/-! parsing an observed log -/

def parseNats (s : String) : Option (List Nat) := (s.splitOn ".").mapM (·.toNat?)

/-- event plus, for publishes, (routing key hex, delivery mode) as observed -/
def parseEv (s : String) : Option (Ev × Option (String × String)) :=
  if s == "w" then some (.wait, none)
  else if s == "f" then some (.fail, none)
  else if s == "of" then some (.openFail, none)
  else match s.toList with
    | 'o' :: r => (String.ofList r).toNat?.map fun c => (.opened c, none)
    | 'x' :: r => (String.ofList r).toNat?.map fun c => (.close c, none)
    | 'h' :: r => (String.ofList r).toNat?.map fun c => (.handler c, none)
    | 'k' :: r =>
      match parseNats (String.ofList r) with
      | some [c, t, a] => some (.conf c t (a == 1), none)
      | _ => none
    | 'p' :: r =>
      match (String.ofList r).splitOn "." with
      | [c, t, m, o, rk, dm] =>
        match c.toNat?, t.toNat?, m.toNat?, parseTok o with
        | some c, some t, some m, some o => some (.pub c t m o.p, some (rk, dm))
        | _, _, _, _ => none
      | _ => none
    | _ => none

def parseOutcome : String → Option Outcome
  | "written" => some .written | "exhausted" => some .exhausted | "hang" => some .hang
  | "panic" => some .panic | "starve" => some .starve | "dead" => some .dead | _ => none

def field (ws : List String) (name : String) : Option String :=
  ws.findSome? fun w => if w.startsWith (name ++ "=") then some ((w.drop (name.length + 1)).toString) else none

def specHandle (args : List String) : String :=
  match args with
  | msgs :: prior :: outcome :: ws =>
    match (splitList msgs).mapM parseMsg, (splitList prior).mapM parseEv, parseOutcome outcome,
          (field ws "ev").bind (fun e => (splitList e).mapM parseEv) with
    | some ms, some pr, some o, some evs =>
      -- persistent delivery mode and routing key `<table>.<operation>` on every publish
      let badPub := evs.any fun e => match e with
        | (.pub _ _ m _, some (rk, dm)) =>
          let mo := ms.getD m ([], [])
          rk != hex (routingKey mo.1 mo.2) || dm != toString deliveryMode
        | _ => false
      if badPub then "violation - a publish is not persistent or its routing key is not <table>.<operation>"
      else match Spec.Rabbit.check (pr.map (·.1)) (evs.map (·.1)) ms.length o with
        | none => "ok"
        | some v => s!"violation {if v.known == "" then "-" else v.known} {v.what}"
    | _, _, _, _ => "bad-op"
  | _ => "bad-op"

end PgBifrost.Driver.Rabbit
