import PgBifrost.Model.Ledger
import PgBifrost.Model.Util
import PgBifrost.Spec.Ledger
/-! Line protocol for the ledger model. -/
namespace PgBifrost.Driver.Ledger
open PgBifrost.Ledger PgBifrost.Util

def showEntry (e : Entry) : String :=
  s!"{e.txn}:{e.key}:{e.commit}:{e.count}:{e.total}"

def insertSorted (p : Nat × Nat) : List (Nat × Nat) → List (Nat × Nat)
  | [] => [p]
  | q :: r => if p.1 < q.1 ∨ (p.1 = q.1 ∧ p.2 ≤ q.2) then p :: q :: r else q :: insertSorted p r

def showSnap (s : State) : String :=
  let cur := s.cur.foldl (fun acc p => insertSorted p acc) []
  "items=" ++ joinList (s.items.map showEntry) ";" ++ " cur=" ++
    joinList (cur.map fun p => s!"{p.1}:{p.2}") ";"

/-- state is `none` after a modelled tracker panic -/
abbrev DState := Option State

def parseTriple (s : String) : Option (Nat × Nat × Nat) :=
  match (s.splitOn ":").mapM (·.toNat?) with
  | some [a, b, c] => some (a, b, c)
  | _ => none

def handle (st : DState) (args : List String) : DState × String :=
  match args with
  | ["reset"] => (some {}, "ok")
  | _ =>
  match st with
  | none => (none, "dead")
  | some s =>
    match args with
    | "seen" :: t :: k :: tot :: c :: _ =>
      match nats [t, k, tot, c] with
      | some [t, k, tot, c] =>
        match updateSeen s t k tot c with
        | some s' => (some s', "ok")
        | none => (none, "panic")
      | _ => (st, "bad-op")
    | ["written", l] =>
      match (splitList l).mapM parseTriple with
      | some ws => (some (ws.foldl (fun s (t, k, n) => updateWritten s t k n) s), "ok")
      | none => (st, "bad-op")
    | ["emit"] =>
      let (v, s') := emit s
      (some s', match v with | some v => s!"some {v}" | none => "none")
    | ["snap"] => (st, showSnap s)
    | _ => (st, "bad-op")


/-! ## `ledgermon`: the Spec evaluated on what the implementation did -/
structure MonState where
  tr : List Op := []            -- reversed
  emits : List (Nat × Nat) := []
  deriving Inhabited

def monHandle (st : MonState) (args : List String) : MonState × String :=
  match args with
  | ["reset"] => ({}, "ok")
  | ["seen", t, k, tot, c, r] =>
    match nats [t, k, tot, c] with
    | some [t, k, tot, c] => ({ st with tr := .seen t k tot c (r == "1") :: st.tr }, "ok")
    | _ => (st, "bad-op")
  | ["written", l] =>
    match (splitList l).mapM parseTriple with
    | some ws => ({ st with tr := (ws.map fun (t, k, n) => Op.written t k n).reverse ++ st.tr }, "ok")
    | none => (st, "bad-op")
  | ["emit", v] =>
    let pos := st.tr.length
    let st' := { st with tr := .emit :: st.tr }
    if v == "none" then (st', "ok") else
    match v.toNat? with
    | some v => ({ st' with emits := (pos, v) :: st'.emits }, "ok")
    | none => (st, "bad-op")
  | ["verdict", nitems, lastAck] =>
    match nitems.toNat?, lastAck.toNat? with
    | some nitems, some lastAck =>
      let tr := st.tr.reverse
      let c := Spec.Ledger.checkContract tr
      let ns := Spec.Ledger.checkNoStale tr
      let safe := Spec.Ledger.emitsSafe tr st.emits
      let dh := Spec.Ledger.drainHyps tr
      let drained := nitems == 0 && lastAck == Spec.Ledger.maxCommit tr
      (st, s!"contract={c} nostale={ns} safe={safe} drainhyps={dh} drained={drained}")
    | _, _ => (st, "bad-op")
  | _ => (st, "bad-op")

end PgBifrost.Driver.Ledger
