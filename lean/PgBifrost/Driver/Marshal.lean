import PgBifrost.Spec.Marshal
import PgBifrost.Model.Util
/-!
Line protocol of the marshaller model (C10).

* `marshal cfg <noOld 0|1>` → `ok`
* `marshal gc` → `ok` (the harness forces pool eviction; no effect on the model)
* `marshal msg <op> <rel> <timeMs> <timeStr> <lsn> <key> <txn> <pkey> <cols> <oldcols>` — strings hex-encoded,
  `cols`/`oldcols` are `,`-lists of `name.value.type.q` (`q` = 0|1), `-` = empty →
  `json hdr=<op>,<table>,<key>,<walStart>,<txn>,<pkey> time=… time_ms=… txn=… lsn=… table=… operation=… cols=<list>`
  where `cols` is a `,`-list of `name:old:new` sorted by (hex) name, `old`/`new` = `n` or `v.t.q` (all hex), or
  `nojson hdr=…` for BEGIN/COMMIT.
* `marshalmon check <noOld> <the ten msg fields> <an output in the format above>` → `ok` | `viol …` (Spec verdict)
-/
namespace PgBifrost.Driver.Marshal
open PgBifrost.Marshal PgBifrost.Spec.Marshal PgBifrost.Util

def str? (h : String) : Option String :=
  (unhex h).bind fun bs => String.fromUTF8? (ByteArray.mk bs.toArray)

def hexs (s : String) : String := hex s.toUTF8.toList

def cv? (s : String) : Option (String × CV) :=
  match s.splitOn "." with
  | [n, v, t, q] =>
    match str? n, str? v, str? t with
    | some n, some v, some t =>
      if q == "1" then some (n, ⟨v, t, true⟩) else if q == "0" then some (n, ⟨v, t, false⟩) else none
    | _, _, _ => none
  | _ => none

def hasDup : List String → Bool
  | [] => false
  | x :: xs => xs.contains x || hasDup xs

def cols? (s : String) : Option (List (String × CV)) :=
  match (splitList s).mapM cv? with
  | some l => if hasDup (l.map (·.1)) then none else some l
  | none => none

def change? : List String → Option Change
  | [op, rel, ms, ts, lsn, key, txn, pkey, cols, old] =>
    match str? op, str? rel, ms.toInt?, str? ts, lsn.toNat?, str? key, str? txn, str? pkey, cols? cols, cols? old with
    | some op, some rel, some ms, some ts, some lsn, some key, some txn, some pkey, some cols, some old =>
      if lsn < 2 ^ 64 then some ⟨op, rel, ms, ts, lsn, key, txn, pkey, cols, old⟩ else none
    | _, _, _, _, _, _, _, _, _, _ => none
  | _ => none

def showJcv : Option JCV → String
  | none => "n"
  | some j => s!"{hexs j.v}.{hexs j.t}.{hexs j.q}"

def showCols (l : List (String × Option JCV × Option JCV)) : String :=
  let items := l.map fun (k, o, n) => (hexs k, s!"{hexs k}:{showJcv o}:{showJcv n}")
  let sorted := items.mergeSort fun a b => !(b.1 < a.1)
  joinList (sorted.map (·.2))

def showOut (o : Out) : String :=
  let hdr := s!"hdr={hexs o.operation},{hexs o.table},{hexs o.timeBasedKey},{o.walStart},{hexs o.transaction},{hexs o.partitionKey}"
  match o.json with
  | none => s!"nojson {hdr}"
  | some r =>
    s!"json {hdr} time={hexs r.time} time_ms={r.timeMs} txn={hexs r.txn} lsn={hexs r.lsn} table={hexs r.table} operation={hexs r.operation} cols={showCols r.columns}"

/-! parsing an output line back (monitor) -/

def field? (name : String) (tok : String) : Option String :=
  let p := name ++ "="
  if tok.startsWith p then some (tok.drop p.length).toString else none

def jcv? (s : String) : Option (Option JCV) :=
  if s == "n" then some none else
  match s.splitOn "." with
  | [v, t, q] => match str? v, str? t, str? q with
    | some v, some t, some q => some (some ⟨v, t, q⟩)
    | _, _, _ => none
  | _ => none

def outCol? (s : String) : Option (String × Option JCV × Option JCV) :=
  match s.splitOn ":" with
  | [k, o, n] => match str? k, jcv? o, jcv? n with
    | some k, some o, some n => some (k, o, n)
    | _, _, _ => none
  | _ => none

def hdr? (tok : String) : Option (Option Record → Out) :=
  (field? "hdr" tok).bind fun h =>
  match h.splitOn "," with
  | [op, tb, key, ws, txn, pk] =>
    match str? op, str? tb, str? key, ws.toNat?, str? txn, str? pk with
    | some op, some tb, some key, some ws, some txn, some pk => some fun j => ⟨op, tb, j, key, ws, txn, pk⟩
    | _, _, _, _, _, _ => none
  | _ => none

def out? : List String → Option Out
  | ["nojson", h] => (hdr? h).map (· none)
  | ["json", h, time, ms, txn, lsn, table, op, cols] =>
    match hdr? h, (field? "time" time).bind str?, (field? "time_ms" ms).bind String.toInt?, (field? "txn" txn).bind str?,
      (field? "lsn" lsn).bind str?, (field? "table" table).bind str?, (field? "operation" op).bind str?,
      (field? "cols" cols).bind (fun s => (splitList s).mapM outCol?) with
    | some mk, some time, some ms, some txn, some lsn, some table, some op, some cols =>
      some (mk (some ⟨time, ms, txn, lsn, table, op, cols⟩))
    | _, _, _, _, _, _, _, _ => none
  | _ => none

structure DState where
  noOld : Bool := false

def handle (st : DState) (args : List String) : DState × String :=
  match args with
  | ["cfg", b] => if b == "0" ∨ b == "1" then ({ noOld := b == "1" }, "ok") else (st, "bad-op")
  | ["gc"] => (st, "ok")
  | "msg" :: fields =>
    match change? fields with
    | some c => (st, showOut (stage st.noOld c))
    | none => (st, "bad-op")
  | _ => (st, "bad-op")

/-- stateless: `check <noOld> <10 fields> <output tokens…>` -/
def monHandle (args : List String) : String :=
  match args with
  | "check" :: b :: rest =>
    match change? (rest.take 10), out? (rest.drop 10) with
    | some c, some o => if b == "0" ∨ b == "1" then verdict (b == "1") c o else "bad-op"
    | _, _ => "bad-op"
  | _ => "bad-op"

end PgBifrost.Driver.Marshal
