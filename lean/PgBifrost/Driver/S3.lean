import PgBifrost.Spec.S3
import PgBifrost.Model.Util
/-! Line protocol `s3` (model of the S3 worker) and `s3spec` (C12 judged on an observed batch).

* `s3 cfg <keyspace hex> <bufMaxReuse> <retry budget>` → `ok` (new worker)
* `s3 batch <y> <m> <d> <h> <full> <none|early|mid> <zlen> <script> <recs>`; the five clock strings are
  hex; `script` = list of `f<n>` / `ok`; `recs` = list of `<lsn>:<json hex>`; `zlen` = observed length of the
  compressed body.  Answer: `<outcome> key=<hex|none> enc=<gzip|none> att=<start:read:ok;…|-> body=<hex|garbage|none>
  reported=<b> terminated=<b> used=<bufUsedCount>`
* `s3spec <keyspace hex> <y> <m> <d> <h> <full> <recs> <answer words of the implementation…>` → `ok` |
  `violation <what>` -/
namespace PgBifrost.Driver.S3
open PgBifrost.S3Put PgBifrost.Util

structure DState where
  cfg : Cfg := ⟨[], 0, 0⟩
  w : Worker := {}

def parseAtt (s : String) : Option Att :=
  if s == "ok" then some .ok
  else match s.toList with
    | 'f' :: r => (String.ofList r).toNat?.map .fail
    -- `x<n>`: shutdown is requested while the call is in flight; the call fails like any other failed call, and the
    -- retry loop (not context-aware) goes on against a sink that fails every later call too
    | 'x' :: r => (String.ofList r).toNat?.map .fail
    | _ => none

def parseRec (s : String) : Option Rec :=
  match s.splitOn ":" with
  | [l, j] => do let l ← l.toNat?; let j ← unhex j; pure ⟨l, j⟩
  | _ => none

def parseCancel : String → Option Cancel
  | "none" => some .none | "early" => some .early | "mid" => some .mid | _ => none

def parseTime (y m d h f : String) : Option TimeParts := do
  pure ⟨← unhex y, ← unhex m, ← unhex d, ← unhex h, ← unhex f⟩

def showOutcome : Outcome → String
  | .written => "written" | .exhausted => "exhausted" | .cancelled => "cancelled"
  | .terminated => "terminated" | .panic => "panic" | .dead => "dead"

def showAtt (a : AttRec) : String := s!"{a.start}:{a.read}:{if a.ok then 1 else 0}"

def showResult (r : Result) (used : Nat) : String :=
  let key := match r.key with | some k => hex k | none => "none"
  let body := match r.received with
    | some (some b) => hex b | some none => "garbage" | none => "none"
  let enc := if r.attempts.isEmpty then "none" else "gzip"   -- line 258: ContentEncoding: "gzip"
  s!"{showOutcome r.outcome} key={key} enc={enc} att={joinList (r.attempts.map showAtt) ";"} body={body} reported={r.reported} terminated={r.terminated} used={used}"

def handleWith (kj : List Bytes → Bytes) (st : DState) (args : List String) : DState × String :=
  match args with
  | ["cfg", ks, reuse, budget] =>
    match unhex ks, reuse.toNat?, budget.toNat? with
    | some ks, some r, some b => ({ cfg := ⟨ks, r, b⟩, w := {} }, "ok")
    | _, _, _ => (st, "bad-op")
  | ["batch", y, m, d, h, f, cancel, zlen, script, recs] =>
    match parseTime y m d h f, parseCancel cancel, zlen.toNat?, (splitList script).mapM parseAtt,
          (splitList recs).mapM parseRec with
    | some t, some c, some z, some sc, some rs =>
      let (w, r) := stepWith kj Env.std st.cfg st.w t c z sc rs
      ({ st with w := w }, showResult r w.buf.used)
    | _, _, _, _, _ => (st, "bad-op")
  | _ => (st, "bad-op")

/-- the code as it is today -/
def handle := handleWith keyFn
/-- the code after the planned F6 fix (`s3fixed …` lines) -/
def handleFixed := handleWith keyJoinFixed

def field (ws : List String) (name : String) : Option String :=
  ws.findSome? fun w => if w.startsWith (name ++ "=") then some ((w.drop (name.length + 1)).toString) else none

def specHandle (args : List String) : String :=
  match args with
  | ks :: y :: m :: d :: h :: f :: recs :: outcome :: ws =>
    match unhex ks, parseTime y m d h f, (splitList recs).mapM parseRec, field ws "key", field ws "body",
          field ws "att", field ws "enc", field ws "reported" with
    | some ks, some t, some rs, some key, some body, some att, some enc, some rep =>
      let lastOk := match (splitList att ";").getLast? with
        | some a => a.endsWith ":1"
        | none => false
      let o : Spec.S3.Obs := {
        reported := rep == "true" || outcome == "written"
        key := if key == "none" then none else unhex key
        lastOk := lastOk
        body := if body == "none" || body == "garbage" then none else unhex body
        enc := enc }
      match Spec.S3.check ks t rs o with
      | none => "ok"
      | some what => "violation " ++ what
    | _, _, _, _, _, _, _, _ => "bad-op"
  | _ => "bad-op"

end PgBifrost.Driver.S3
