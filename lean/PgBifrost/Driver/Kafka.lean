import PgBifrost.Spec.Kafka
import PgBifrost.Model.Util
/-!
Line protocol `kafka` (batch construction + worker model) and `kafkamon` (C14 spec evaluator).

* `kafka cfg <method name> <maxSize> <maxBytes>` → `ok` (new worker)
* `kafka batch <msgs> <outcome>` → `dead` if the worker has returned, else
  `adds=… payload=… txns=… sent=<payload|none> result=… reported=… stats=s<n>f<v|->w<v|->d<0|1> term=<0|1> closes=<n>`
  * `msgs`: list of `<D|B|C>:id:key:txn:table:size:ksize`
  * `outcome`: `A` accepted | `X<bits>` rejected (bit i = message i of the payload is in the error list) |
    `O` other error | `C`/`C1`/`C2` cancelled before (at the send / at the loop's first / second select)
* `kafkamon check <method> <maxSize> <maxBytes> <msgs> <outcome> <payload> <txns> <sent> <reported> <term>`
-/
namespace PgBifrost.Driver.Kafka
open PgBifrost.KafkaSend PgBifrost.Spec.Kafka PgBifrost.Batch PgBifrost.Util

structure DState where
  cfg : Cfg := ⟨.random, 1, 1⟩
  dead : Bool := false

def parseMsg (s : String) : Option KMsg :=
  match s.splitOn ":" with
  | op :: rest =>
    let o : Option MOp := if op == "D" then some .data else if op == "B" then some .begin else if op == "C" then some .commit else none
    match o, rest.mapM String.toNat? with
    | some o, some [id, key, txn, table, size, ksize] =>
      some ⟨{ op := o, pkey := [], txn := txn, key := key, size := size, lsn := 0, id := id, ksize := ksize }, table⟩
    | _, _ => none
  | _ => none

def parseMsgs (s : String) : Option (List KMsg) := (splitList s).mapM parseMsg

def bitIdxs (bits : List Char) : List Nat :=
  (bits.zipIdx.filter fun p => p.1 == '1').map (·.2)

def parseOutcome (s : String) (n : Nat) : Option Outcome :=
  if s == "A" then some .accepted
  else if s == "O" then some .otherError
  else if s == "C" then some (.cancelled false)
  else if s == "C1" || s == "C2" then some (.cancelled true)
  else match s.toList with
    | 'X' :: bits =>
      if bits.all (fun c => c == '0' || c == '1') then some (.rejected ((bitIdxs bits).filter (· < n))) else none
    | _ => none

def showKey : Key → String
  | .timeBased k => s!"tk{k}" | .transaction t => s!"tx{t}" | .batchUuid _ => "uuid"
  | .table t => s!"tb{t}" | .none => "nil"

def showP (p : PMsg) : String := s!"{showKey p.key}/{p.valueId}/{p.valueLen}"

def showPayload (l : List PMsg) : String := joinList (l.map showP)

def parseKey (s : String) : Option Key :=
  if s == "uuid" then some (.batchUuid 0) else if s == "nil" then some .none
  else match s.toList with
    | 't' :: 'k' :: r => (String.ofList r).toNat?.map .timeBased
    | 't' :: 'x' :: r => (String.ofList r).toNat?.map .transaction
    | 't' :: 'b' :: r => (String.ofList r).toNat?.map .table
    | _ => none

def parseP (s : String) : Option PMsg :=
  match s.splitOn "/" with
  | [k, id, len] =>
    match parseKey k, id.toNat?, len.toNat? with
    | some k, some id, some len => some ⟨k, id, len⟩
    | _, _, _ => none
  | _ => none

def parsePayload (s : String) : Option (List PMsg) := (splitList s).mapM parseP

def showTxns (l : List TxnCount) : String :=
  "[" ++ ";".intercalate (l.map fun e => s!"{e.key}:{e.txn}:{e.count}") ++ "]"

def parseTxns (s : String) : Option (List TxnCount) :=
  match s.toList with
  | '[' :: rest =>
    let inner := String.ofList (rest.reverse.drop 1).reverse
    if inner == "" then some [] else
    (inner.splitOn ";").mapM fun e =>
      match (e.splitOn ":").mapM String.toNat? with
      | some [k, t, c] => some ⟨k, t, c⟩
      | _ => none
  | _ => none

def showAdd : AddRes → String
  | .ok => "ok" | .full => "full" | .tooBig => "toobig" | .cantFit => "cantfit" | .invalid => "invalid"

def showResult : Result → String
  | .written => "written" | .rejected => "rejected" | .panicked => "panic" | .cancelled => "cancelled"

/-- the `Add` answers, message by message -/
def addAnswers (c : Cfg) : KBatch → List KMsg → List AddRes
  | _, [] => []
  | b, m :: ms => (add c b m).1 :: addAnswers c (add c b m).2 ms

def optNat : Option Nat → String
  | some n => toString n | none => "-"

def handle (st : DState) (args : List String) : DState × String :=
  match args with
  | ["cfg", meth, mx, mb] =>
    match Method.ofName meth, mx.toNat?, mb.toNat? with
    | some m, some mx, some mb => ({ cfg := ⟨m, mx, mb⟩, dead := false }, "ok")
    | _, _, _ => (st, "bad-op")
  | ["batch", msgs, out] =>
    match parseMsgs msgs with
    | none => (st, "bad-op")
    | some ms =>
      let b := build st.cfg 0 ms
      match parseOutcome out b.msgs.length with
      | none => (st, "bad-op")
      | some o =>
        if st.dead then (st, "dead") else
        match worker [⟨b.msgs, b.core.txns, o⟩] with
        | [rep] =>
          let adds := joinList ((addAnswers st.cfg { uuid := 0 } ms).map showAdd)
          let sent := match rep.sent with | some _ => "payload" | none => "none"
          let reported := match rep.reported with | some t => showTxns t | none => "none"
          let d := if rep.durationStat then "1" else "0"
          let term := if rep.result = .written then "0" else "1"
          ({ st with dead := rep.result ≠ .written },
            s!"adds={adds} payload={showPayload b.msgs} txns={showTxns b.core.txns} sent={sent} result={showResult rep.result} reported={reported} stats=s{rep.successStat}f{optNat rep.failureStat}w{optNat rep.writtenStat}d{d} term={term} closes={term}")
        | _ => (st, "bad-op")
  | _ => (st, "bad-op")

def monHandle (args : List String) : String :=
  match args with
  | ["check", meth, mx, mb, msgs, out, payload, txns, sent, reported, term] =>
    match Method.ofName meth, mx.toNat?, mb.toNat?, parseMsgs msgs, parsePayload payload, parseTxns txns with
    | some m, some mx, some mb, some ms, some pl, some tx =>
      let sentV : Option (Option (List PMsg)) :=
        if sent == "none" then some none else if sent == "payload" then some (some pl) else (parsePayload sent).map some
      let repV : Option (Option (List TxnCount)) :=
        if reported == "none" then some none else (parseTxns reported).map some
      match parseOutcome out pl.length, sentV, repV with
      | some o, some sentV, some repV =>
        match check ⟨m, mx, mb⟩ 0 ms pl tx sentV o repV (term == "1") with
        | .ok => "ok"
        | .viol w => "viol " ++ w
      | _, _, _ => "bad-op"
    | _, _, _, _, _, _ => "bad-op"
  | _ => "bad-op"

end PgBifrost.Driver.Kafka
