import PgBifrost.Spec.Aggregator
import PgBifrost.Model.Util
/-! Line protocol `aggregator` (model) and `aggspec` (C19 spec evaluator on an observed history).

```
aggregator cfg <window>                                   → ok
aggregator check <comp> <name> <type> <unit> <value> <ts> <now>   → ok pass | ok drop
aggregator add                                            → ok newbucket | ok newkey | ok update
aggregator scan <bucket>:<now>,…                          → ok <stat>,…      (sorted; stat = comp|name|type|unit|value|ts)
                                                            err no-reading-for-held-bucket <b>,… when the model holds a bucket the caller did not evaluate
aggregator held                                           → ok <bucket>|<key>|<value>|<count>|<min>|<max>,…  (sorted)
aggregator arms                                           → ok <counter>=<n>,…
aggspec reset <window> / added <stat6> / dropped <stat6> <now> / scan <stat>,… / held <b>|<key>|<v>|<c>,… → ok
aggspec verdict                                           → ok | viol <text>
```
Identity fields are non-empty and contain none of ` ,|:`. -/
namespace PgBifrost.Driver.Aggregator
open PgBifrost.Aggregator PgBifrost.Spec.Aggregator PgBifrost.Util

structure DState where
  cfg : Cfg := { window := 1 }
  st : State := {}
  pending : Option Stat := none
  arms : List (String × Nat) := []
  scfg : Cfg := { window := 1 }
  evs : List Ev := []

def parseType (s : String) : Option StatType :=
  if s == StatType.count.str then some .count else if s == StatType.histogram.str then some .histogram else none

def parseStat : List String → Option Stat
  | [comp, name, typ, unit, value, ts] => do
    let t ← parseType typ
    let v ← value.toInt?
    let ts ← ts.toInt?
    some ⟨⟨comp, name, t, unit⟩, v, ts⟩
  | _ => none

def showStat (s : Stat) : String :=
  s!"{s.id.component}|{s.id.name}|{s.id.typ.str}|{s.id.unit}|{s.value}|{s.ts}"

def sortStrs (l : List String) : List String := l.mergeSort (fun a b => !(decide (b < a)))

def parsePair (sep : String) (s : String) : Option (Int × Int) :=
  match s.splitOn sep with
  | [a, b] => do some (← a.toInt?, ← b.toInt?)
  | _ => none

def bumpArm (l : List (String × Nat)) (k : String) : List (String × Nat) :=
  match l.lookup k with
  | some n => (k, n + 1) :: l.filter (·.1 != k)
  | none => (k, 1) :: l

def showHeld (st : State) : String :=
  joinList (sortStrs (st.held.flatMap fun p => p.2.map fun q =>
    s!"{p.1}|{q.1}|{q.2.value}|{q.2.count}|{q.2.min}|{q.2.max}"))

def handle (d : DState) (args : List String) : DState × String :=
  match args with
  | ["cfg", w] =>
    match w.toInt? with
    | some w => if w > 0 then ({ d with cfg := { window := w }, st := {}, pending := none }, "ok") else (d, "bad-op")
    | none => (d, "bad-op")
  | ["check", comp, name, typ, unit, value, ts, now] =>
    -- a still-pending statistic means the implementation did not insert what the model let pass:
    -- that divergence was already answered (`ok pass` vs `ok drop`); the model moves on
    match parseStat [comp, name, typ, unit, value, ts], now.toInt? with
    | some s, some now =>
      let st' := step d.cfg d.st (.check s now)
      if expired d.cfg (bucketOf d.cfg s.ts) now then
        ({ d with st := st', arms := bumpArm d.arms "check.drop" }, "ok drop")
      else ({ d with st := st', pending := some s, arms := bumpArm d.arms "check.pass" }, "ok pass")
    | _, _ => (d, "bad-op")
  | ["add"] =>
    match d.pending with
    | some s =>
      let arm := match addArm d.cfg d.st s with
        | .newBucket => "newbucket" | .newKey => "newkey" | .update => "update"
      ({ d with st := step d.cfg d.st (.add s), pending := none, arms := bumpArm d.arms ("add." ++ arm) }, "ok " ++ arm)
    | none => (d, "err no-pending-statistic") -- the implementation inserted what the model dropped
  | ["scan", l] =>
    match (splitList l).mapM (parsePair ":") with
    | some nows =>
      -- Go evaluates every held bucket: a held bucket without a reading is a harness error
      if d.st.held.all (fun p => (nows.lookup p.1).isSome) then
        let out := scanOutput d.cfg d.st nows
        let n := (d.st.held.filter fun p => scanExpired d.cfg nows p.1).length
        let arm := if d.st.held.isEmpty then "scan.empty" else if n == 0 then "scan.none"
          else if n == d.st.held.length then "scan.all" else "scan.some"
        ({ d with st := step d.cfg d.st (.scan nows), arms := bumpArm d.arms arm },
          "ok " ++ joinList (sortStrs (out.map showStat)))
      else
        -- the implementation evaluated a different set of buckets than the model holds: a
        -- divergence (reported as a mismatch), not an ill-formed request
        ({ d with st := step d.cfg d.st (.scan nows), arms := bumpArm d.arms "scan.diverged" },
          "err no-reading-for-held-bucket " ++ joinList ((d.st.held.filter fun p => (nows.lookup p.1).isNone).map fun p => toString p.1))
    | none => (d, "bad-op")
  | ["held"] => (d, "ok " ++ showHeld d.st)
  | ["arms"] => (d, "ok " ++ joinList (sortStrs (d.arms.map fun p => s!"{p.1}={p.2}")))
  | _ => (d, "bad-op")

def parseStatBar (s : String) : Option Stat := parseStat (s.splitOn "|")

def parseHeldRow (s : String) : Option (Int × String × Int × Int) :=
  match s.splitOn "|" with
  | b :: key :: v :: c :: _ => do some (← b.toInt?, key, ← v.toInt?, ← c.toInt?)
  | _ => none

def specHandle (d : DState) (args : List String) : DState × String :=
  match args with
  | ["reset", w] =>
    match w.toInt? with
    | some w => ({ d with scfg := { window := w }, evs := [] }, "ok")
    | none => (d, "bad-op")
  | "added" :: rest =>
    match parseStat rest with
    | some s => ({ d with evs := d.evs ++ [.added s] }, "ok")
    | none => (d, "bad-op")
  | ["dropped", comp, name, typ, unit, value, ts, now] =>
    match parseStat [comp, name, typ, unit, value, ts], now.toInt? with
    | some s, some now => ({ d with evs := d.evs ++ [.dropped s now] }, "ok")
    | _, _ => (d, "bad-op")
  | ["scan", l] =>
    match (splitList l).mapM parseStatBar with
    | some out => ({ d with evs := d.evs ++ [.scan out] }, "ok")
    | none => (d, "bad-op")
  | ["held", l] =>
    match (splitList l).mapM parseHeldRow with
    | some tbl => ({ d with evs := d.evs ++ [.held tbl] }, "ok")
    | none => (d, "bad-op")
  | ["verdict"] =>
    match violations d.scfg d.evs with
    | [] => (d, "ok")
    | v => (d, "viol " ++ "; ".intercalate v)
  | _ => (d, "bad-op")

end PgBifrost.Driver.Aggregator
