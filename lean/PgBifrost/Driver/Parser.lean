import PgBifrost.Model.TestDecoding
import PgBifrost.Model.Util
/-!
Line protocol of the decoder model (`parser …`). Byte strings are lower-case hex (`e` = empty).

* `parser parse <hex>` → `err:<kind>` | `panic` | `ok op=<hex> txn=<hex> rel=<hex> ntd=<0|1> cols=<L> old=<L>`
  with `<L>` = `-` or `,`-separated `name:value:type:<0|1>` (hex fields), sorted by column name (bytewise).
* `parser render <change>` → hex of `TestDecoding.render`.
* `parser renderck <hex> <change>` → `same` | `differ:<hex of render>` (keeps the Go generator's encoder equal to `render`).
* `parser expect <change>` → the dump of `ok (view m)`.
* `parser wf <change>` → `wf=<0|1>`.

`<change>` (structured): `begin <xid>` | `commit <xid>` | `insert <rel> <tup>` | `update <rel> <tup:old> <tup:new>` |
`delete <rel> <tup>` | `truncate <0|1 restart_seqs> <0|1 cascade> <rels>`; `<rel>` = `<hex>.<hex>`; `<rels>` = `-` or
`,`-list of `<rel>`; `<tup>` = `none` | `-` (printed but empty) | `,`-list of `<name hex>:<type>:<lit>`;
`<type>` = (`s`|`a` array) + (`b<hex>` builtin | `n<hex>` named | `q<hex>.<hex>` schema-qualified);
`<lit>` = `N` null | `T` unchanged-toast-datum | `v<hex>` bare | `B<hex>` bits | `t<hex>` text.
-/
namespace PgBifrost.Driver.Parser
open PgBifrost.Parser PgBifrost.TestDecoding PgBifrost.Util

abbrev DState := Unit

def errName : ErrKind → String
  | .tooShort => "tooShort"
  | .unknownTxnMsg => "unknownTxnMsg"
  | .unknownMsg => "unknownMsg"
  | .invalidChar => "invalidChar"
  | .invalidEndState => "invalidEndState"
  | .nullState => "nullState"

def bytesLe : Bytes → Bytes → Bool
  | [], _ => true
  | _ :: _, [] => false
  | a :: r, b :: s => if a < b then true else if b < a then false else bytesLe r s

def dumpCols (l : List (Bytes × CV)) : String :=
  let sorted := l.mergeSort (fun a b => bytesLe a.1 b.1)
  joinList (sorted.map fun (k, v) => s!"{hex k}:{hex v.value}:{hex v.type}:{if v.quoted then "1" else "0"}")

def dumpRes (r : Res) : String :=
  s!"ok op={hex r.operation} txn={hex r.transaction} rel={hex r.relation} ntd={if r.noTuple then "1" else "0"} cols={dumpCols r.cols} old={dumpCols r.old}"

def dumpOut : Out → String
  | .ok r => dumpRes r
  | .err k => "err:" ++ errName k
  | .panic => "panic"

def parseRel (s : String) : Option Rel :=
  match s.splitOn "." with
  | [a, b] => do pure ⟨← unhex a, ← unhex b⟩
  | _ => none

def parseType (s : String) : Option PgType :=
  match s.toList with
  | a :: k :: rest =>
    let arr? : Option Bool := if a == 's' then some false else if a == 'a' then some true else none
    let body := String.ofList rest
    match arr?, k with
    | some arr, 'b' => do pure ⟨.builtin (← unhex body), arr⟩
    | some arr, 'n' => do pure ⟨.named none (← unhex body), arr⟩
    | some arr, 'q' =>
      match body.splitOn "." with
      | [x, y] => do pure ⟨.named (some (← unhex x)) (← unhex y), arr⟩
      | _ => none
    | _, _ => none
  | _ => none

def parseLit (s : String) : Option Literal :=
  match s.toList with
  | ['N'] => some .null
  | ['T'] => some .toast
  | 'v' :: r => (unhex (String.ofList r)).map .bare
  | 'B' :: r => (unhex (String.ofList r)).map .bits
  | 't' :: r => (unhex (String.ofList r)).map .text
  | _ => none

def parseCol (s : String) : Option Col :=
  match s.splitOn ":" with
  | [n, t, v] => do pure ⟨← unhex n, ← parseType t, ← parseLit v⟩
  | _ => none

def parseTup (s : String) : Option (Option (List Col)) :=
  if s == "none" then some none else (splitList s).mapM parseCol |>.map some

def parseBit (s : String) : Option Bool :=
  if s == "1" then some true else if s == "0" then some false else none

def parseChange : List String → Option Change
  | ["begin", x] => x.toNat?.map .begin
  | ["commit", x] => x.toNat?.map .commit
  | ["insert", r, t] => do pure (.insert (← parseRel r) (← parseTup t))
  | ["update", r, o, t] => do pure (.update (← parseRel r) (← parseTup o) (← parseTup t))
  | ["delete", r, t] => do pure (.delete (← parseRel r) (← parseTup t))
  | ["truncate", a, b, rs] => do pure (.truncate (← (splitList rs).mapM parseRel) (← parseBit a) (← parseBit b))
  | _ => none

def b01 (b : Bool) : String := if b then "1" else "0"

def handle (st : DState) (args : List String) : DState × String :=
  match args with
  | ["parse", h] =>
    match unhex h with
    | some bs => (st, dumpOut (parseIdx bs))
    | none => (st, "bad-op")
  | "render" :: ch =>
    match parseChange ch with
    | some m => (st, hex (render m))
    | none => (st, "bad-op")
  | "renderck" :: h :: ch =>
    match unhex h, parseChange ch with
    | some bs, some m => (st, if render m = bs then "same" else "differ:" ++ hex (render m))
    | _, _ => (st, "bad-op")
  | "expect" :: ch =>
    match parseChange ch with
    | some m => (st, dumpRes (view m))
    | none => (st, "bad-op")
  | "wf" :: ch =>
    match parseChange ch with
    | some m => (st, s!"wf={b01 (wf m)}")
    | none => (st, "bad-op")
  | _ => (st, "bad-op")

end PgBifrost.Driver.Parser
