import PgBifrost.Model.Stages
/-! Line protocol `runner fault <kind>`: what the process model (`Model/Stages.lean`, instantiated with the
stage facts regenerated from the source) says about one injected fault in the assembled process:
`term=1` when the stage's death raises the shared termination signal, `term=0` otherwise. -/
namespace PgBifrost.Driver.Runner
open PgBifrost.Stages PgBifrost.Gen.Stages

/-- the stage a fault kills, and how -/
def faultEv : String → Option (Option Ev)
  | "none" => some none
  | "agg-panic" => some (some (.panics "aggregator_ingest"))
  | "reporter-closed" => some (some (.returns "datadog_reporter"))
  | "filter-closed" => some (some (.returns "filter"))
  | "partitioner-closed" => some (some (.returns "partitioner"))
  | "marshaller-closed" => some (some (.returns "marshaller"))
  | "batcher-closed" => some (some (.returns "batcher"))
  | _ => none

def handle (args : List String) : String :=
  match args with
  | ["fault", k] =>
    match faultEv k with
    | none => "bad-op"
    | some none => "term=0"
    | some (some ev) =>
      let p := run (init (stages ++ reporterStages)) [ev]
      if p.cancelled then "term=1" else "term=0"
  | _ => "bad-op"

/-- Line protocol `clientstop <fault> <closemode>`: the replication client dies while closing its connection is
quick (`normal`) or blocks (`hang`). The termination signal is raised iff the client's deferred `shutdown`
cancels - and, when the close blocks, only if it cancels BEFORE anything else (`cancelBeforeRecover`: the
`CancelFunc` call is the first statement). -/
def clientStop (args : List String) : String :=
  match args with
  | [fault, mode] =>
    if !(["recverr", "firstbad", "panic"].contains fault) || !(["normal", "hang"].contains mode) then "bad-op" else
    match stages.find? (·.name == "client") with
    | none => "bad-op"
    | some f =>
      let cancels := f.defersShutdownFirst && f.shutdownCancels && (fault != "panic" || f.recoverDirect)
      let early := cancels && f.cancelBeforeRecover
      if (mode == "hang" && early) || (mode == "normal" && cancels) then "term=1" else "term=0"
  | _ => "bad-op"

end PgBifrost.Driver.Runner
