import PgBifrost.Model.Client
import PgBifrost.Model.Util
import PgBifrost.Spec.Client
/-!
Line protocol for the client model (`client …`) and for the monitors (`clientmon …`).

```
client start <today|fixed|fixedC> <tick|notick>          -> actions of Start up to the first ReceiveMessage
client recv <w> <tick> <feed> <kind> <args…>             -> actions until the next ReceiveMessage / exit
   kinds: ka <reply> <walEnd> <elapsedNs> | kabad | nil | timeout | closed | fatal | skip | unexpected
          | copyempty | errresp <pos> | data <lsn> <B<xid>|C<xid>|X|U|P> <nanos> <blocks>
   <feed>: `,`-list of naturals (`-` empty); <blocks>: `;`-list of feeds, an empty feed is `_` (`-` = no block)
   <w> is a harness-only field (how long it waits before answering ReceiveMessage)
client end <maxGapUs> <maxHoldUs> <ambiguous>            -> ok   (measurements, ignored by the model)
```
Actions: `getconn:<lsn>:<0|1>` `getplain:<0|1>` `status:<lsn>` `fwd:<B|C|X>:<txn|~>:<key|~>:<lsn>` `close`
`identify` `exit:<reason>`; no action = `-`; after exit = `dead`.
-/
namespace PgBifrost.Driver.Client
open PgBifrost.Client PgBifrost.Util PgBifrost.Spec.Client

def showOp : Op → String | .begin => "B" | .commit => "C" | .change => "X"
def tilde (s : String) : String := if s.isEmpty then "~" else s
def b01 (b : Bool) : String := if b then "1" else "0"

def showAction : Action → String
  | .getconn l s => s!"getconn:{l}:{b01 s}"
  | .getplain s => s!"getplain:{b01 s}"
  | .status l => s!"status:{l}"
  | .fwd o t k l => s!"fwd:{showOp o}:{tilde t}:{tilde (renderKey k)}:{l}"
  | .close => "close"
  | .identify => "identify"
  | .exit r => s!"exit:{r}"

def showActions (as : List Action) : String :=
  if as.isEmpty then "-" else " ".intercalate (as.map showAction)

def parseFeed (s : String) : Option (List Nat) :=
  if s == "_" then some [] else nats (splitList s)

def parseBlocks (s : String) : Option (List (List Nat)) :=
  if s == "-" then some [] else (s.splitOn ";").mapM parseFeed

def parsePayload (s : String) : Option Payload :=
  match s.toList with
  | 'B' :: r => some (.begin (String.ofList r))
  | 'C' :: r => some (.commit (String.ofList r))
  | ['X'] => some .change
  | ['U'] => some .unparsable
  | ['P'] => some .parseError
  | _ => none

def parseBool (s : String) : Option Bool :=
  if s == "1" then some true else if s == "0" then some false else none

def parseMsg : List String → Option Msg
  | ["ka", r, w, el] => do
    let r ← parseBool r; let w ← w.toNat?; let el ← el.toNat?
    pure (.keepalive r w el)
  | ["kabad"] => some .kabad
  | ["nil"] => some .nil
  | ["timeout"] => some .timeout
  | ["closed"] => some .closedErr
  | ["fatal"] => some .fatalErr
  | ["skip"] => some .skip
  | ["unexpected"] => some .unexpected
  | ["copyempty"] => some .copyEmpty
  | ["errresp", p] => do let p ← p.toNat?; pure (.errorResponse p)
  | ["data", l, p, n, b] => do
    let l ← l.toNat?; let p ← parsePayload p; let n ← n.toNat?; let b ← parseBlocks b
    pure (.data l p n b)
  | _ => none

/-- `<w> <tick> <feed> <kind…>` -/
def parseEv : List String → Option Ev
  | _w :: t :: f :: rest => do
    let t ← parseBool t; let f ← parseFeed f; let m ← parseMsg rest
    pure ⟨f, m, t⟩
  | _ => none

def parseVariant : String → Option Variant
  | "today" => some .today | "fixed" => some .fixed | "fixedC" => some .fixedC | _ => none

/-- name of the model arm an event takes (coverage) -/
def armOf (s : State) (e : Ev) : String :=
  let t := if e.tick then "+tick" else ""
  let upd := (drain (s.chan ++ e.feed) s.overall false).2
  let u := if upd then "+upd" else ""
  (match s.phase with
  | .exited => "dead"
  | .first => match e.msg with
    | .keepalive .. => "first.ka" | .kabad => "first.kabad" | _ => "first.exit"
  | .running => match e.msg with
    | .keepalive false _ _ => "ka.noreply"
    | .keepalive true _ el =>
      (match heartbeat s el with
       | none => "ka.reply.shutdown"
       | some s' => if s.hbCount + 1 > 5 then "ka.reply.reset" else if s'.hbCount > 0 then "ka.reply" else "ka.reply")
    | .kabad => "kabad" | .nil => "nil" | .timeout => "timeout" | .closedErr => "closed"
    | .fatalErr => "fatal" | .skip => "skip" | .unexpected => "unexpected" | .copyEmpty => "copyempty"
    | .errorResponse _ =>
      "errresp." ++ (if s.key.isNone then "nokey" else if s.sawCommit then "between"
        else if s.firstIter then "afterdrop" else "intxn") ++ (if s.highest = 0 then ".h0" else "")
    | .data lsn p _ blocks =>
      let b := if blocks.isEmpty then "" else "+blocked"
      (match p with
       | .begin _ => if !s.sawCommit && !s.firstIter then "data.begin.nocommit" else
           (if s.firstIter then "data.begin.first" else "data.begin.next")
       | .commit _ => if s.highest < lsn then "data.commit.new" else "data.commit.dup"
       | .change => "data.change" | .unparsable => "data.unparsable" | .parseError => "data.parseerr") ++ b)
  ++ t ++ u

structure DState where
  v : Variant := .fixedC
  st : Option State := none
  deriving Inhabited

def handle (d : DState) (args : List String) : DState × String :=
  match args with
  | ["start", v, _mode] =>
    match parseVariant v with
    | some v => let (s, a) := start; ({ v := v, st := some s }, showActions a)
    | none => (d, "bad-op")
  | "recv" :: rest =>
    match d.st, parseEv rest with
    | some s, some e =>
      if s.phase = .exited then (d, "dead") else
      let (s', a) := step d.v s e
      ({ d with st := some s' }, showActions a)
    | _, _ => (d, "bad-op")
  | ["end", a, b, c] =>
    match nats [a, b, c] with
    | some _ => (d, "ok")
    | none => (d, "bad-op")
  | _ => (d, "bad-op")

/-! ## monitors: the Spec evaluated on the IMPLEMENTATION's history -/

def parseOp : String → Option Op | "B" => some .begin | "C" => some .commit | "X" => some .change | _ => none

def untilde (s : String) : String := if s == "~" then "" else s

/-- "txn-nanos" → (txn, nanos); any other shape becomes a key that equals no expected key -/
def parseKey (s : String) : Option Key :=
  if s == "~" then some none else
  match s.splitOn "-" with
  | [t, n] => match n.toNat? with
    | some k => if toString k == n then some (some (t, k)) else some (some ("?" ++ s, 0))
    | none => some (some ("?" ++ s, 0))
  | _ => some (some ("?" ++ s, 0))

def parseAction (s : String) : Option Action :=
  match s.splitOn ":" with
  | ["getconn", l, st] => do let l ← l.toNat?; let st ← parseBool st; pure (.getconn l st)
  | ["getplain", st] => do let st ← parseBool st; pure (.getplain st)
  | ["status", l] => do let l ← l.toNat?; pure (.status l)
  | ["fwd", o, t, k, l] => do
    let o ← parseOp o; let k ← parseKey k; let l ← l.toNat?
    pure (.fwd o (untilde t) k l)
  | ["close"] => some .close
  | ["identify"] => some .identify
  | ["exit", r] => some (.exit r)
  | _ => none

def parseActions (l : List String) : Option (List Action) :=
  if l == ["-"] then some [] else l.mapM parseAction

structure MonState where
  hist : List (Ev × List Action) := []   -- reversed
  model : Option State := none             -- the model run alongside, for arm coverage only
  v : Variant := .fixedC
  pending : Option Ev := none
  deriving Inhabited

def showVerdict : Spec.Client.RecVerdict → String
  | .ok => "ok" | .zeroLsn => "a" | .notOpen => "b" | .wrongKey => "c" | .unclosed => "c2" | .malformed => "m"

/-- `clientmon reset <variant>` · `clientmon ev <recv args>` (answers the model arm) ·
`clientmon acts <actions>` (the implementation's) · `clientmon verdict` -/
def monHandle (m : MonState) (args : List String) : MonState × String :=
  match args with
  | ["reset", v] =>
    match parseVariant v with
    | some v => ({ v := v, model := some start.1 }, "ok")
    | none => (m, "bad-op")
  | "ev" :: rest =>
    match parseEv rest, m.model with
    | some e, some s =>
      ({ m with pending := some e, model := some (step m.v s e).1 }, "arm=" ++ armOf s e)
    | _, _ => (m, "bad-op")
  | "acts" :: rest =>
    match m.pending, parseActions rest with
    | some e, some as => ({ m with hist := (e, as) :: m.hist, pending := none }, "ok")
    | _, _ => (m, "bad-op")
  | ["verdict"] =>
    let h := m.hist.reverse
    let g := pgGrammar h
    let rec_ := (c02Verdicts h).filter (· ≠ .ok)
    (m, s!"grammar={b01 g} c03mono={b01 (c03Monotone h)} c03src={b01 (c03Sourced h)} c03runmax={b01 (c03RunMax h)} c03restart={b01 (c03Restarts h)} c07stamp={b01 (!g || c07Stamp h)} c07uniq={b01 (c07KeysUnique h)} c07onecommit={b01 (!g || (if m.v = .fixedC then c07OneCommitFull h else c07OneCommit h))} c07framing={b01 (c07Framing h)} c18={b01 (c18Replies h)} c02={joinList (rec_.map showVerdict)}")
  | _ => (m, "bad-op")

end PgBifrost.Driver.Client
