import PgBifrost.Model.S3Put
import PgBifrost.Model.Util
/-! Line protocol `plumbing <workers> <routing> <pmethod> <buckets> <updMs> <maxMs> <depth> <tickMs> <mem> <wl> <rx>
<noold> <listhex>`: what the documented options promise each stage is built with. Ages and the tick rate are given in
milliseconds (README: "batch-flush-update-age … in milliseconds"), everything else reaches its stage as given. -/
namespace PgBifrost.Driver.Plumbing
open PgBifrost.Util

def msToNs (ms : Nat) : Nat := ms * 1000000

def handle (args : List String) : String :=
  match args with
  | [workers, routing, pmethod, buckets, upd, max, depth, tick, mem, wl, rx, noold, list] =>
    match workers.toNat?, buckets.toNat?, upd.toNat?, max.toNat?, depth.toNat?, tick.toNat?, mem.toNat? with
    | some w, some b, some u, some m, some d, some t, some mm =>
      if !(["round-robin", "partition"].contains routing) ||
         !(["none", "tablename", "transaction", "transaction-bucket"].contains pmethod) then "bad-op" else
      s!"tick={msToNs t} upd={msToNs u} max={msToNs m} workers={w} chans={w} depth={d} mem={mm} routing={routing} pmethod={pmethod} buckets={b} wl={wl} rx={rx} list={list} noold={noold}"
    | _, _, _, _, _, _, _ => "bad-op"
  | ["startworkers", n] =>
    -- one worker per queue, each serving its own (C17 `runner_starts_every_stage` has the manager started; this is inside it)
    match n.toNat? with
    | some n => s!"queues={n} served={",".intercalate ((List.range n).map toString)}"
    | none => "bad-op"
  | ["kafkaput", what] =>
    -- written iff the broker accepted every message; a rejected batch stops the worker (C14 `kafka_failstop`)
    if what == "accept" then "written=1 stopped=0" else if what == "reject" then "written=0 stopped=1" else "bad-op"
  | ["datestring", _off] => "ok"
  | ["ddreport", nw, nc] =>
    -- every statistic the aggregator reported reaches Datadog as its own metric line: `bifrost.<component>.<name>.<unit>`,
    -- a count as `|c`, each part of a histogram report as a gauge `|g` (C19: nothing lost, nothing merged)
    match nw.toNat?, nc.toNat? with
    | some nw, some nc =>
      let hist := (List.range nw).flatMap fun i =>
        ["", "_avg", "_max", "_min"].zipIdx.map fun (sfx, j) =>
          "bifrost.batcher.batch_write_wait" ++ sfx ++ ".ms:" ++ toString (100 * (i + 1) + j) ++ "|g"
      let cnt := (List.range nc).map fun i => "bifrost.transport.written.count:" ++ toString (1000 + i + 1) ++ "|c"
      let all := (hist ++ cnt).toArray.qsort (· < ·) |>.toList
      s!"lines={all.length} {",".intercalate all}"
    | _, _ => "bad-op"
  | ["kinput", pmethod, n] =>
    -- one PutRecords call per batch on the configured stream, the records' data in batch order; the Kinesis partition key
    -- of a record is the batch's partition key, or - without a partition method - the record's own LSN (C06)
    match n.toNat? with
    | some n =>
      if !(["none", "tablename", "transaction", "transaction-bucket"].contains pmethod) then "bad-op" else
      let recs := (List.range n).flatMap fun i => [(i + 1, 0), (i + 1, 1)]
      let data := ";".intercalate (recs.map fun (b, r) => "{\"b\":" ++ toString b ++ ",\"r\":" ++ toString r ++ "}")
      let keys := ",".intercalate (recs.map fun (b, r) => if pmethod == "none" then toString (1000 * b + r) else "pk" ++ toString b)
      s!"stream=verif-stream calls={n} data={hex data.toUTF8.toList} keys={keys}"
    | none => "bad-op"
  | ["s3put", ks, _reuse, n] =>
    -- one PUT per batch into the configured bucket, the key prefix is the key space without its leading and trailing
    -- slashes (the model's `trim`, `Props.C12.s3_key_format`), every body complete, file names carry the first LSN
    match unhex ks, n.toNat? with
    | some k, some n =>
      let bucket := hex ("verif-bucket".toUTF8.toList)
      let lsns := ",".intercalate ((List.range n).map fun i => toString (1000 * (i + 1)))
      s!"bucket={bucket} prefix={hex (S3Put.trim k)} puts={n} bodies=ok lsns={lsns}"
    | _, _ => "bad-op"
  | ["workers", kind, n] =>
    -- one retry policy per worker (the model's retry budget is per worker: Props.C17 `retry_budget_gives_up`)
    if kind == "kinesis" || kind == "s3" then (match n.toNat? with | some k => s!"policies={k}" | none => "bad-op") else "bad-op"
  | ["factory", kind, size, _maxMsg, _flush] =>
    -- a batch is full at exactly the configured record count; Kafka refuses a record above `kafka-max-message-bytes`
    -- (whatever `kafka-flush-bytes` is) and accepts one 200 bytes below it
    match size.toNat? with
    | some n =>
      if kind == "kafka" then s!"full_at={n} big=toobig small=ok"
      else if kind == "s3" || kind == "rabbitmq" then s!"full_at={n}"
      else "bad-op"
    | none => "bad-op"
  | _ => "bad-op"

end PgBifrost.Driver.Plumbing
