import PgBifrost.Spec.Batcher
import PgBifrost.Driver.Batcher
/-! `batchermon`: Spec.Batcher evaluated on the implementation's events. -/
namespace PgBifrost.Driver.BatcherMon
open PgBifrost.Batch PgBifrost.Batcher PgBifrost.Spec.Batcher PgBifrost.Util

/-- split at `sep` outside square brackets -/
def splitTop (s : String) (sep : Char) : List String :=
  let rec go (cs : List Char) (depth : Nat) (cur : List Char) (acc : List String) : List String :=
    match cs with
    | [] => (String.ofList cur.reverse :: acc).reverse
    | c :: r =>
      if c == '[' then go r (depth + 1) (c :: cur) acc
      else if c == ']' then go r (depth - 1) (c :: cur) acc
      else if c == sep && depth == 0 then go r depth [] (String.ofList cur.reverse :: acc)
      else go r depth (c :: cur) acc
  go s.toList 0 [] []

def unbracket (s : String) : Option String :=
  match s.toList with
  | '[' :: r => if r.getLast? == some ']' then some (String.ofList r.dropLast) else none
  | _ => none

def parseTxns (s : String) : Option (List TxnCount) :=
  (unbracket s).bind fun inner =>
    if inner.isEmpty then some [] else
    (inner.splitOn ";").mapM fun e =>
      match (e.splitOn ":").mapM (·.toNat?) with
      | some [k, t, n] => some ⟨k, t, n⟩
      | _ => none

def parseIds (s : String) : Option (List Nat) :=
  (unbracket s).bind fun inner => if inner.isEmpty then some [] else (inner.splitOn ",").mapM (·.toNat?)

def parseKeys (s : String) : Option (List (List UInt8)) :=
  (unbracket s).bind fun inner => if inner.isEmpty then some [] else (inner.splitOn ",").mapM unhex

structure MState where
  h : Hist := ⟨.generic 1, 1, .roundRobin, [], [], [], 0, 0, [], false⟩
  bad : Bool := false
  /-- COMMITs received since the seen list was last handed to the progress tracker -/
  pendingSeen : Nat := 0
  /-- a batch went to a worker while `pendingSeen > 0` (contract E3 of the ledger: seen before dispatch) -/
  seenLate : Bool := false
deriving Inhabited

def parseKindSpec (s : String) : Option KindSpec :=
  match s.splitOn ":" with
  | ["generic", n] => n.toNat?.map .generic
  | ["kinesis", meth, a, b, c] =>
    match a.toNat?, b.toNat?, c.toNat? with
    | some a, some b, some c =>
      if meth == "walstart" then some (.kinesis a b c .walStart)
      else if meth == "batch" then some (.kinesis a b c .batch)
      else (Driver.Batcher.pmOfName meth).map fun pm => .kinesis a b c (Partitioner.kinesisMethodFor pm)
    | _, _, _ => none
  | ["kafka", a, b, _] =>
    match a.toNat?, b.toNat? with
    | some a, some b => some (.kafka a b)
    | _, _ => none
  | _ => none

def addEv (st : MState) (tok : String) : MState :=
  let h := st.h
  if tok.startsWith "seen[" then { st with pendingSeen := 0 }
  else if tok == "-" || tok.startsWith "valid=" || tok.startsWith "times=" then st
  else if tok == "fatal" then { st with h := { h with fatal := true } }
  else if tok == "stat:dropped_too_big" then { st with h := { h with tooBigStats := h.tooBigStats + 1 } }
  else if tok == "stat:dropped_msg_invalid" then { st with h := { h with invalidStats := h.invalidStats + 1 } }
  else if tok.startsWith "stat:" then st
  else if tok.startsWith "self:" then
    match parseTxns (String.ofList (tok.toList.drop 5)) with
    | some t => { st with h := { h with selfReports := h.selfReports ++ [t] } }
    | none => { st with bad := true }
  else if tok.startsWith "dispatch:" then
    match splitTop tok ':' with
    | "dispatch" :: w :: pk :: ids :: txns :: bytes :: rest =>
      match w.toNat?, unhex pk, parseIds ids, parseTxns txns, bytes.toNat? with
      | some w, some pk, some ids, some txns, some bytes =>
        let keys := match rest with
          | [k] => parseKeys k
          | _ => none
        { st with h := { h with dispatched := h.dispatched ++ [⟨w, pk, ids, txns, bytes, keys⟩] },
                  seenLate := st.seenLate || decide (st.pendingSeen > 0) }
      | _, _, _, _, _ => { st with bad := true }
    | _ => { st with bad := true }
  else { st with bad := true }

def parseOpen (s : String) : Option (List OOpen) :=
  if s == "-" then some [] else
  (splitTop s ',').mapM fun e =>
    match splitTop e ':' with
    | [pk, n, bytes, txns] =>
      match unhex pk, n.toNat?, bytes.toNat?, parseTxns txns with
      | some pk, some n, some bytes, some txns => some ⟨pk, n, bytes, txns⟩
      | _, _, _, _ => none
    | _ => none

def handle (st : MState) (args : List String) : MState × String :=
  match args with
  | ["cfg", kind, workers, routing, _, _, _] =>
    match parseKindSpec kind, workers.toNat? with
    | some k, some w =>
      ({ h := ⟨k, w, if routing == "partition" then .partition else .roundRobin, [], [], [], 0, 0, [], false⟩ }, "ok")
    | _, _ => (st, "bad-op")
  | "msg" :: rest =>
    match Driver.Batcher.parseMsg rest with
    | some m => ({ st with h := { st.h with msgs := st.h.msgs ++ [m] },
                           pendingSeen := if m.op = .commit then st.pendingSeen + 1 else st.pendingSeen }, "ok")
    | none => (st, "bad-op")
  | "evs" :: toks => (toks.foldl addEv st, "ok")
  | ["open", s] =>
    match parseOpen s with
    | some o => ({ st with h := { st.h with openB := o } }, "ok")
    | none => (st, "bad-op")
  | ["verdict"] =>
    let h := st.h
    if st.bad then (st, "bad-op") else
    (st, s!"fatal={h.fatal} once={exactlyOnce h} txns={txnsExact h && txnsCoverPayload h} routing={routingOk h} single={singleKey h} kkeys={kinesisKeysOk h} limits={limitsOk h} dropstats={dropStatsOk h} seenfirst={!st.seenLate}")
  | _ => (st, "bad-op")

end PgBifrost.Driver.BatcherMon
