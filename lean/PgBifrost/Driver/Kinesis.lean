import PgBifrost.Spec.Kinesis
import PgBifrost.Model.Util
/-!
Line protocol `kinesis` (worker model) and `kinesismon` (C11 spec evaluator).

* `kinesis cfg <budget>` → `ok` (new worker)
* `kinesis batch <msgs> <outs>` → `dead` if the worker has already returned, else
  `calls=<c|c|…> result=<r> reported=<txns|none> stats=f<n>s<n>w<n|->d<0|1> term=<0|1> ptr=ok`
  * `msgs`: list of `id:key:txn` (the records of the batch, in order)
  * `outs`: list of `E` (whole-call error) | `C`/`C1`/`C2` (context cancelled before the attempt; the digit
    is the harness's choice of where the real worker notices, irrelevant to the model) | `R<bits>:<failedCount>`
* `kinesismon check <recs> <calls> <outs> <result> <reported|none> <txns>` → `ok` | `skip` | `viol <what>`
* `kinesismon order <recs> <calls>` → `ok` | `viol out-of-batch-order` (C05: every call is a sub-list, in order, of the batch)
-/
namespace PgBifrost.Driver.Kinesis
open PgBifrost.KinesisRetry PgBifrost.Spec.Kinesis PgBifrost.Batch PgBifrost.Util

structure DState where
  budget : Nat := 0
  dead : Bool := false

def parseOutcome (s : String) : Option Outcome :=
  if s == "E" then some .callError
  else if s == "C" || s == "C1" || s == "C2" then some .cancelled
  else match s.toList with
    | 'R' :: rest =>
      match (String.ofList rest).splitOn ":" with
      | [bits, fc] =>
        if bits.toList.all (fun c => c == '0' || c == '1') then
          fc.toNat?.map fun n => .resp (bits.toList.map (· == '1')) n
        else none
      | _ => none
    | _ => none

def parseOuts (s : String) : Option (List Outcome) := (splitList s).mapM parseOutcome

def parseMsg (s : String) : Option Msg :=
  match (s.splitOn ":").mapM String.toNat? with
  | some [id, key, txn] => some { op := .data, pkey := [], txn := txn, key := key, size := 8, lsn := 0, id := id }
  | _ => none

/-- `+id:key:txn`: a record near the per-record limit (accepted); `!id:key:txn`: a record the (nearly full)
batch REFUSED with can't-fit - the batcher moves it to the next batch, so it is no part of this one -/
def parseMsgs (s : String) : Option (List Msg) :=
  ((splitList s).filter (fun e => !e.startsWith "!")).mapM fun e =>
    parseMsg (if e.startsWith "+" then (e.drop 1).toString else e)

def showCall (c : List Rec) : String := joinList (c.map toString)

def showCalls (cs : List (List Rec)) : String :=
  if cs.isEmpty then "none" else "|".intercalate (cs.map showCall)

def parseCalls (s : String) : Option (List (List Rec)) :=
  if s == "none" then some [] else (s.splitOn "|").mapM fun c => nats (splitList c)

def showResult : Result → String
  | .written => "written" | .exhausted => "exhausted" | .cancelled => "cancelled"
  | .panicSizeMismatch => "panic-size" | .panicIndex => "panic-index"

def showTxns (l : List TxnCount) : String :=
  "[" ++ ";".intercalate (l.map fun e => s!"{e.key}:{e.txn}:{e.count}") ++ "]"

def parseTxns (s : String) : Option (List TxnCount) :=
  match s.toList with
  | '[' :: rest =>
    let inner := String.ofList (rest.reverse.drop 1).reverse
    if inner == "" then some [] else
    (inner.splitOn ";").mapM fun e =>
      match (e.splitOn ":").mapM String.toNat? with
      | some [k, t, c] => some ⟨k, t, c⟩
      | _ => none
  | _ => none

def showReport (r : Report Rec) : String :=
  let rep := match r.reported with | some t => showTxns t | none => "none"
  let w := match r.writtenStat with | some n => toString n | none => "-"
  let d := if r.durationStat then "1" else "0"
  let term := if r.result = .written then "0" else "1"
  s!"calls={showCalls r.calls} result={showResult r.result} reported={rep} stats=f{r.failures}s{r.successes}w{w}d{d} term={term} ptr=ok"

def handle (st : DState) (args : List String) : DState × String :=
  match args with
  | ["cfg", b] =>
    match b.toNat? with
    | some n => ({ budget := n, dead := false }, "ok")
    | none => (st, "bad-op")
  | ["batch", msgs, outs] =>
    match parseMsgs msgs, parseOuts outs with
    | some ms, some os =>
      if st.dead then (st, "dead") else
      let pre := (splitList outs).head? == some "C1" || (splitList outs).head? == some "C2"
      let job : Job Rec := { recs := ms.map (·.id), txns := ms.foldl updateTxns [], outs := os, preCancelled := pre }
      match worker st.budget [job] with
      | [rep] => ({ st with dead := rep.result ≠ .written }, showReport rep)
      | _ => (st, "bad-op")
    | _, _ => (st, "bad-op")
  | _ => (st, "bad-op")

def monHandle (args : List String) : String :=
  match args with
  | ["check", recs, calls, outs, result, reported, txns] =>
    match nats (splitList recs), parseCalls calls, parseOuts outs, parseTxns txns with
    | some rs, some cs, some os, some tx =>
      let rep := if reported == "none" then some none else (parseTxns reported).map some
      match rep with
      | none => "bad-op"
      | some rep =>
        match check rs cs os (result == "written") rep tx with
        | .skip => "skip"
        | .ok => "ok"
        | .viol w => "viol " ++ w
    | _, _, _, _ => "bad-op"
  | ["order", recs, calls] =>
    match nats (splitList recs), parseCalls calls with
    | some rs, some cs => if callsInOrder rs cs then "ok" else "viol out-of-batch-order"
    | _, _ => "bad-op"
  | _ => "bad-op"

end PgBifrost.Driver.Kinesis
