import PgBifrost.Model.Backoff
import PgBifrost.Model.Util
import PgBifrost.Gen.Retry
/-! Line protocol for the retry-policy model (component `retrypolicy`).
  retrypolicy lib <maxElapsed> <stopSet 0|1> <initial> <mult> <maxInterval>   new deterministic policy, Reset()
  retrypolicy next <elapsed>                                                   NextBackOff at that elapsed time -> r:<ns>
  retrypolicy gen <idx> <file>        what the model says about the idx-th policy literal of the source:
                                      giveup | never | unknown (bad-index when the table has no such row) -/
namespace PgBifrost.Driver.Backoff
open PgBifrost.Backoff

structure DState where
  pol : Policy := ⟨0, 0⟩
  prog : Prog := ⟨0, 1, 0⟩
  st : St := ⟨0⟩

/-- what the model predicts for a policy literal facing a sink that never recovers -/
def verdictOf (f : Gen.Retry.PolicyFact) : String :=
  if f.maxElapsed = "" then "never"            -- no budget: never stops by design
  else if f.stop = "backoff.Stop" then "giveup"
  else if f.stop = "" then "never"             -- zero value of the Stop field: retried for ever
  else "unknown"

def handle (s : DState) (args : List String) : DState × String :=
  match args with
  | ["lib", m, ss, ini, mu, mx] =>
    match m.toNat?, ss.toNat?, ini.toNat?, mu.toNat?, mx.toNat? with
    | some m, some ss, some ini, some mu, some mx =>
      let g : Prog := ⟨ini, mu, mx⟩
      ({ pol := ⟨m, if ss = 1 then stopConst else 0⟩, prog := g, st := reset g }, "ok")
    | _, _, _, _, _ => (s, "bad-op")
  | ["next", e] =>
    match e.toNat? with
    | some e => let (st', r) := stepDet s.pol s.prog s.st e; ({ s with st := st' }, s!"r:{r}")
    | none => (s, "bad-op")
  | ["gen", i, file] =>
    match i.toNat? with
    | some i =>
      match Gen.Retry.policies[i]? with
      | some f => if f.file = file then (s, verdictOf f) else (s, "bad-index")
      | none => (s, "bad-index")
    | none => (s, "bad-op")
  | _ => (s, "bad-op")

end PgBifrost.Driver.Backoff
