import PgBifrost.Model.Sys
import PgBifrost.Driver.Batcher
import PgBifrost.Driver.Ledger
/-!
# Line protocol for the composed system model `Sys` (differential counterpart: `harness/syscorr.go`)

Every request performs `Sys.step` actions on the driver's `SysState` and answers a canonical
rendering of the OBSERVABLE effect of that action, which the harness compares with what the real,
assembled stages did:

* `sys cfg <kind> <workers> <routing> <memlimit>` – kind as in the batcher driver
  (`generic:<n>`, `kinesis:<meth>:<R>:<B>:<S>`); resets the state. → `ok`
* `sys feed <op> <pk> <txn> <key> <size> <lsn> <id> <ksize>` (fields of `batcher msg`) –
  `Act.feed m`. → the batcher events of this step (`Driver.Batcher.showEvs`)
* `sys tick <order hex,…>` – `Act.tick order`. → the batcher events of this step
* `sys take <w>` – `Act.take w`. → ids of the batch the worker now holds (`[i,…]`), `busy` if it
  already held one (no change), `none` if its queue is empty (no change)
* `sys accept <w>` – (`Act.take w` first if `w` holds nothing, see below) `Act.sinkAccept w`.
  → the record ids appended to `sinkAccepted`, `none` if the worker holds nothing
* `sys retry <w>` – (auto-take as for accept) `Act.sinkRetry w`. → ids of the batch the worker
  (still) holds and submits again, `none` if it holds nothing
* `sys track` – `Act.trackWritten`. → the written report consumed (`[k:t:n;…]`), `none` if the
  written FIFO is empty
* `sys emit` – `Act.emit`. → `some v` / `none`
* `sys snap` – no action. → `items=… cur=…` (as `Driver.Ledger.showSnap`) ` q=<queue length per
  worker ,…> held=<per worker: [ids] or -, separated by /> wchan=<length of the written FIFO>
  seen=<length of the batcher's pending seen list>`

If the tracker panics during a step (`ledger = none`) the answer gets the suffix ` tracker-panic`;
afterwards every request answers `dead` (every `Sys.step` is a no-op then).

## Where `take` happens (mapping to the real worker)

A real transporter goroutine takes the next batch of its channel by itself as soon as it is idle
and calls the sink; that sink call ARRIVING at the harness's gate is the observable `take`. The
harness therefore emits an explicit `sys take <w>` (expected answer: the record ids of the sink
request) at the first quiescent point after the action that made the take possible:
after the `sys feed`/`sys tick` whose dispatch reached an idle worker, and after the `sys accept <w>`
that made worker `w` idle while its queue was not empty. A sink call that arrives after a
retryable failure is NOT a take (`sys retry`, the worker keeps its batch).
In addition the driver itself inserts `Act.take w` in front of `sinkAccept w` / `sinkRetry w` when
`w` holds nothing: the sink can only answer a call that was made, i.e. the real worker necessarily
has taken. (With the harness's explicit takes this never fires on matching runs; a missing
explicit take shows up in the `held=` / `q=` part of the next `sys snap`.)
-/
namespace PgBifrost.Driver.Sys
open PgBifrost.Batch PgBifrost.Batcher PgBifrost.Util PgBifrost.Sys
open PgBifrost.Driver.Batcher (showEvs showIds showTxns parseKind parseKMeth parseMsg)

structure DState where
  cfg : Sys.Cfg := ⟨genericKind 1, ⟨1, .roundRobin, 0, 0, 1⟩⟩
  s : SysState := {}
  km : Option KinesisMethod := none

instance : Inhabited DState := ⟨{}⟩

def holds (s : SysState) (w : Nat) : Bool := s.held.any (fun p => p.1 == w)

def heldOf (s : SysState) (w : Nat) : Option Batch := (s.held.find? (fun p => p.1 == w)).map (·.2)

/-- the driver's automatic `take` in front of accept / retry -/
def autoTake (cfg : Sys.Cfg) (s : SysState) (w : Nat) : SysState :=
  if holds s w then s else Sys.step cfg s (.take w)

/-- one batcher action: perform it and render the events it produced -/
def batAct (st : DState) (a : Act) : DState × String :=
  let s' := Sys.step st.cfg st.s a
  let evs := s'.evs.drop st.s.evs.length
  ({ st with s := s' }, showEvs st.km evs ++ (if s'.dead then " tracker-panic" else ""))

def range (n : Nat) : List Nat := List.range n

def showSnap (st : DState) : String :=
  let s := st.s
  let led := match s.ledger with
    | some l => PgBifrost.Driver.Ledger.showSnap l
    | none => "dead"
  let ws := range st.cfg.bcfg.workers
  let q := joinList (ws.map fun w => toString ((s.queue.filter fun p => p.1 == w).length)) ","
  let held := "/".intercalate (ws.map fun w =>
    match heldOf s w with
    | some b => showIds b.payload
    | none => "-")
  s!"{led} q={q} held={held} wchan={s.wchan.length} seen={s.bat.seenList.length}"

def handle (st : DState) (args : List String) : DState × String :=
  match args with
  | ["cfg", kind, workers, routing, mem] =>
    match parseKind kind, workers.toNat?, mem.toInt? with
    | some K, some w, some mem =>
      let r := if routing == "partition" then Routing.partition else Routing.roundRobin
      ({ cfg := ⟨K, ⟨w, r, 0, 0, mem⟩⟩, s := {}, km := parseKMeth kind }, "ok")
    | _, _, _ => (st, "bad-op")
  | ["snap"] => (st, showSnap st)
  | _ =>
  -- well-formedness first, so that an ill-formed request is `bad-op` even when dead
  let wellFormed : Bool := match args with
    | "feed" :: rest => (parseMsg rest).isSome
    | ["tick", order] => ((splitList order).mapM unhex).isSome
    | ["take", w] => w.toNat?.isSome
    | ["accept", w] => w.toNat?.isSome
    | ["retry", w] => w.toNat?.isSome
    | ["track"] => true
    | ["emit"] => true
    | _ => false
  if !wellFormed then (st, "bad-op")
  else if st.s.dead then (st, "dead")
  else
  let s := st.s
  match args with
  | "feed" :: rest =>
    match parseMsg rest with
    | some m => batAct st (.feed m)
    | none => (st, "bad-op")
  | ["tick", order] =>
    match (splitList order).mapM unhex with
    | some order => batAct st (.tick order)
    | none => (st, "bad-op")
  | ["take", w] =>
    match w.toNat? with
    | some w =>
      if holds s w then (st, "busy")
      else
        let s' := Sys.step st.cfg s (.take w)
        match heldOf s' w with
        | some b => ({ st with s := s' }, showIds b.payload)
        | none => (st, "none")
    | none => (st, "bad-op")
  | ["accept", w] =>
    match w.toNat? with
    | some w =>
      let s1 := autoTake st.cfg s w
      if holds s1 w then
        let s2 := Sys.step st.cfg s1 (.sinkAccept w)
        ({ st with s := s2 }, showIds (s2.sinkAccepted.drop s1.sinkAccepted.length))
      else (st, "none")
    | none => (st, "bad-op")
  | ["retry", w] =>
    match w.toNat? with
    | some w =>
      let s1 := autoTake st.cfg s w
      let s2 := Sys.step st.cfg s1 (.sinkRetry w)
      match heldOf s2 w with
      | some b => ({ st with s := s2 }, showIds b.payload)
      | none => (st, "none")
    | none => (st, "bad-op")
  | ["track"] =>
    match s.wchan with
    | [] => (st, "none")
    | t :: _ =>
      let s' := Sys.step st.cfg s .trackWritten
      ({ st with s := s' }, showTxns t ++ (if s'.dead then " tracker-panic" else ""))
  | ["emit"] =>
    let s' := Sys.step st.cfg s .emit
    let v := s'.acks.drop s.acks.length
    ({ st with s := s' }, match v with | v :: _ => s!"some {v}" | [] => "none")
  | _ => (st, "bad-op")

end PgBifrost.Driver.Sys
