import PgBifrost.Model.Partitioner
import PgBifrost.Model.Util
namespace PgBifrost.Driver.Partitioner
open PgBifrost.Partitioner PgBifrost.Util

structure DState where
  m : Method := .none
  buckets : Nat := 1
deriving Inhabited

def parseMethod (s : String) : Option Method :=
  if s == "none" then some .none else if s == "tablename" then some .tableName
  else if s == "transaction" then some .txn else if s == "transaction-bucket" then some .txnBucket else none

def handle (st : DState) (args : List String) : DState × String :=
  match args with
  | ["cfg", m, b] =>
    match parseMethod m, b.toNat? with
    | some m, some b => (⟨m, b⟩, "ok")
    | _, _ => (st, "bad-op")
  | ["msg", rel, txn] =>
    match unhex rel, unhex txn with
    | some rel, some txn => (st, hex (partitionKey st.m st.buckets rel txn))
    | _, _ => (st, "bad-op")
  | ["msg", rel, txn, _op] =>          -- the key does not depend on the operation (BEGIN/COMMIT/rows alike)
    match unhex rel, unhex txn with
    | some rel, some txn => (st, hex (partitionKey st.m st.buckets rel txn))
    | _, _ => (st, "bad-op")
  | ["storm", b] =>                    -- hashing is a function of its argument, whoever else is hashing
    match b.toNat? with
    | some n => if n ≥ 1 then (st, "mismatches=0") else (st, "bad-op")
    | none => (st, "bad-op")
  | _ => (st, "bad-op")

end PgBifrost.Driver.Partitioner
