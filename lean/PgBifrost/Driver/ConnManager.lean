import PgBifrost.Model.ConnManager
import PgBifrost.Model.Util
namespace PgBifrost.Driver.ConnManager
open PgBifrost.ConnManager

abbrev DState := Conn

def showOut : Out → String
  | .start l => s!"start:{l}" | .dial => "dial" | .reuse => "reuse" | .ok => "ok"

def handle (st : DState) (args : List String) : DState × String :=
  match args with
  | ["reset"] => (.none, "ok")
  | ["repl", l] => match l.toNat? with
    | some l => let (c, o) := step st (.getRepl l); (c, showOut o)
    | none => (st, "bad-op")
  | ["plain"] => let (c, o) := step st .getPlain; (c, showOut o)
  | ["close"] => let (c, o) := step st .close; (c, showOut o)
  | ["drop"] => let (c, o) := step st .drop; (c, showOut o)
  | _ => (st, "bad-op")

end PgBifrost.Driver.ConnManager
