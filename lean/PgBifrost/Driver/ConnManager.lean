import PgBifrost.Model.ConnManager
import PgBifrost.Model.Util
namespace PgBifrost.Driver.ConnManager
open PgBifrost.ConnManager

/-- the manager's connection, and whether the live one was opened for replication (START_REPLICATION sent) -/
structure DState where
  c : Conn := .none
  repl : Bool := false
deriving Inhabited

def showOut : Out → String
  | .start l => s!"start:{l}" | .dial => "dial" | .reuse => "reuse" | .ok => "ok"

def handle (st : DState) (args : List String) : DState × String :=
  match args with
  | ["reset"] => ({}, "ok")
  | ["repl", l] => match l.toNat? with
    | some l =>
      let (c, o) := step st.c (.getRepl l)
      ({ c := c, repl := match o with | .start _ => true | _ => st.repl }, showOut o)
    | none => (st, "bad-op")
  | ["plain"] =>
    let (c, o) := step st.c .getPlain
    ({ c := c, repl := match o with | .dial => false | _ => st.repl }, showOut o)
  | ["close"] => let (c, o) := step st.c .close; ({ c := c, repl := false }, showOut o)
  | ["drop"] => let (c, o) := step st.c .drop; ({ st with c := c }, showOut o)
  -- a status update accepted on a live replication connection is on the wire (C18: no further read is needed)
  | ["status", _] => (st, if st.c = .live && st.repl then "sent:1" else "noconn")
  | _ => (st, "bad-op")

end PgBifrost.Driver.ConnManager
