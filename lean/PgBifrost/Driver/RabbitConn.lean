/-! Line protocol `rabbitconn new|get|close|failnext`: the RabbitMQ connection manager as a state machine - an open
connection is reused, a closed one is replaced by a NEW one at the next `GetConnection`, a failed dial is tried again. -/
namespace PgBifrost.Driver.RabbitConn

structure DState where
  cur : Option Nat := none      -- id of the connection the manager holds
  nextId : Nat := 0
  failNext : Nat := 0
deriving Inhabited

def handle (st : DState) (args : List String) : DState × String :=
  match args with
  | ["new"] => ({}, "ok")
  | ["get"] =>
    match st.cur with
    | some c => (st, s!"conn={c} dials=0")
    | none =>
      let id := st.nextId + 1
      ({ cur := some id, nextId := id, failNext := 0 }, s!"conn={id} dials={st.failNext + 1}")
  | ["close"] => ({ st with cur := none }, "ok")
  | ["failnext"] => ({ st with failNext := st.failNext + 1 }, "ok")
  | _ => (st, "bad-op")

/-- Line protocol `rabbitstop wait|acked <n>`: shutdown while the worker waits for confirmations reports nothing and ends
the worker; a batch whose every message is positively confirmed is reported and the worker goes on (it is stopped by the
harness afterwards, not by itself). -/
def stopHandle (args : List String) : String :=
  match args with
  | ["wait", n] => if n.toNat?.isSome then "reported=0 exited=1" else "bad-op"
  | ["acked", n] => if n.toNat?.isSome then "reported=1 exited=0" else "bad-op"
  | _ => "bad-op"

end PgBifrost.Driver.RabbitConn
