import PgBifrost.Spec.Filter
import PgBifrost.Model.Util
/-! Line protocol: `filter` (stage model) and `cli` (generated command-line fragment ▸ stage). -/
namespace PgBifrost.Driver.Filter
open PgBifrost.Filter PgBifrost.Spec.Filter PgBifrost.Util

def strList (s : String) : Option (List String) :=
  (splitList s).mapM fun h => (unhex h).bind fun bs => String.fromUTF8? (ByteArray.mk bs.toArray)

/-- match bits: string of 0/1, bit `i` = pattern `i` matches -/
def bitsFn (bits : String) : Nat → Bool := fun i => bits.toList.getD i '0' == '1'

def parseOp (s : String) : MOp :=
  if s == "BEGIN" then .begin else if s == "COMMIT" then .commit else .data

abbrev DState := Cfg

def handle (st : DState) (args : List String) : DState × String :=
  match args with
  | ["cfg", wl, rx, list] =>
    match strList list with
    | some l => (⟨wl == "1", rx == "1", l⟩, "ok")
    | none => (st, "bad-op")
  | ["msg", op, rel, bits] =>
    match strList rel with
    | some [rel] => (st, if passes st (bitsFn bits) (parseOp op) rel then "pass" else "drop")
    | some [] => (st, if passes st (bitsFn bits) (parseOp op) "" then "pass" else "drop")
    | _ => (st, "bad-op")
  | _ => (st, "bad-op")

/-- `cli decide wl bl wlr blr rel bits` → the pipeline's decision and the user's intent -/
def cliHandle (args : List String) : String :=
  match args with
  | ["decide", wl, bl, wlr, blr, rel, bits] =>
    match strList wl, strList bl, strList wlr, strList blr, strList rel with
    | some wl, some bl, some wlr, some blr, some rel =>
      let rel := rel.headD ""
      let d := match cliDecision wl bl wlr blr (bitsFn bits) rel with
        | .ok b => toString b
        | .error _ => "error"
      s!"decision={d} intent={userIntent wl bl wlr blr (bitsFn bits) rel} onekind={atMostOneKind wl bl wlr blr}"
    | _, _, _, _, _ => "bad-op"
  | _ => "bad-op"

end PgBifrost.Driver.Filter
