import PgBifrost.Proofs.S3
import PgBifrost.Gen.S3Src
import PgBifrost.Gen.TimeSrc
import PgBifrost.Gen.S3WorkerSrc
import PgBifrost.Gen.WorkerLoops
/-!
# C12 — S3: one complete, correctly keyed object per written batch (property theorems)

About `PgBifrost.S3Put` (model of `transport/transporters/s3/transporter/transporter.go`), tied to the
code by the `s3` correspondence component.  Byte strings are `List UInt8`.
-/
namespace PgBifrost.Props.C12
open PgBifrost.S3Put PgBifrost.Spec.S3 PgBifrost.Proofs.S3

/-- the `key_join` the model (and the driver) uses: the code after the F6 fix (`fix:` commit
"omit slash-only key space components from S3 object keys"). `keyJoin` is the pre-fix function;
`s3_key_format_partial` / `s3_key_slashonly_witness` about it are kept as the record of the defect. -/
theorem s3_model_key : objectKey = objectKeyWith keyJoinFixed := rfl

/-! ## key format -/

/-- FULL STATEMENT (what the property says), FALSE for the code as it is (finding F6, see
`s3_key_slashonly_witness`):
`∀ ks t lsn, CleanTime t → objectKeyWith keyJoin ks t lsn = expectedKey ks t lsn`.
It is TRUE of the planned fix: `s3_key_format_fixed`.

Proved part, for the code as it is today: the key space is empty, exactly "/", or contains a character
other than '/'. -/
theorem s3_key_format_partial (ks : Bytes) (t : TimeParts) (lsn : Nat) (ht : CleanTime t)
    (hks : ks = [] ∨ ks = [slash] ∨ ∃ c ∈ ks, c ≠ slash) :
    objectKeyWith keyJoin ks t lsn = expectedKey ks t lsn := by
  have hb := base_clean t.full lsn ht.full
  have tail : ∀ i, i = 1 → keyJoinAux 6 i [t.year, t.month, t.day, t.hour, baseFilename t.full lsn] =
      t.year ++ [slash] ++ t.month ++ [slash] ++ t.day ++ [slash] ++ t.hour ++ [slash] ++ baseFilename t.full lsn := by
    intro i hi; subst hi
    rw [keyJoinAux_clean _ _ _ _ ht.year, keyJoinAux_clean _ _ _ _ ht.month, keyJoinAux_clean _ _ _ _ ht.day,
      keyJoinAux_clean _ _ _ _ ht.hour, keyJoinAux_clean _ _ _ _ hb]
    simp [keyJoinAux, List.append_assoc]
  unfold objectKeyWith keyJoin expectedKey stripSlashes
  show keyJoinAux 6 0 (ks :: [t.year, t.month, t.day, t.hour, baseFilename t.full lsn]) ++ gzSuffix = _
  rw [keyJoinAux_cons]
  rcases hks with h | h | ⟨c, hc, hne⟩
  · subst h
    have : trim ([] : Bytes) = [] := by decide
    simp only [true_or, if_true, this]
    rw [tail _ rfl]; simp [baseFilename, List.append_assoc]
  · subst h
    have : trim [slash] = [] := by decide
    simp only [or_true, if_true, this]
    rw [tail _ rfl]; simp [baseFilename, List.append_assoc]
  · have hne' := trim_ne_nil ks c hc hne
    have hskip : ¬ (ks = [] ∨ ks = [slash]) := by
      intro hh
      rcases hh with hh | hh
      · subst hh; cases hc
      · subst hh; simp at hc; exact hne hc
    simp only [hskip, if_false, hne']
    rw [tail _ rfl]; simp [baseFilename, List.append_assoc]

/-- F6 on the model of today's code: for the key space "//" (slash-only but not exactly "/") the key
starts with '/' and is not the key the property prescribes. -/
theorem s3_key_slashonly_witness :
    ∃ (ks : Bytes) (t : TimeParts) (lsn : Nat), wellFormedTime t = true ∧
      (objectKeyWith keyJoin ks t lsn).head? = some slash ∧
      objectKeyWith keyJoin ks t lsn ≠ expectedKey ks t lsn :=
  ⟨[slash, slash],
   ⟨[50, 48, 50, 52], [48, 49], [48, 50], [48, 51], [50, 48, 50, 52, 48, 49, 48, 50, 48, 51, 48, 52, 48, 53]⟩, 17,
   by decide, by decide, by decide⟩

/-- the planned fix (trim first, then skip empties) satisfies the FULL statement: every key space -/
theorem s3_key_format_fixed (ks : Bytes) (t : TimeParts) (lsn : Nat) (ht : CleanTime t) :
    objectKeyWith keyJoinFixed ks t lsn = expectedKey ks t lsn := by
  have hb := base_clean t.full lsn ht.full
  have tail : ∀ i, i = 1 → keyJoinFixedAux 6 i [t.year, t.month, t.day, t.hour, baseFilename t.full lsn] =
      t.year ++ [slash] ++ t.month ++ [slash] ++ t.day ++ [slash] ++ t.hour ++ [slash] ++ baseFilename t.full lsn := by
    intro i hi; subst hi
    rw [keyJoinFixedAux_clean _ _ _ _ ht.year, keyJoinFixedAux_clean _ _ _ _ ht.month,
      keyJoinFixedAux_clean _ _ _ _ ht.day, keyJoinFixedAux_clean _ _ _ _ ht.hour, keyJoinFixedAux_clean _ _ _ _ hb]
    simp [keyJoinFixedAux, List.append_assoc]
  unfold objectKeyWith keyJoinFixed expectedKey stripSlashes
  show keyJoinFixedAux 6 0 (ks :: [t.year, t.month, t.day, t.hour, baseFilename t.full lsn]) ++ gzSuffix = _
  rw [keyJoinFixedAux_cons]
  by_cases h : trim ks = []
  · simp only [h, if_true]
    rw [tail _ rfl]; simp [baseFilename, List.append_assoc]
  · simp only [h, if_false]
    rw [tail _ rfl]; simp [baseFilename, List.append_assoc]

/-- what "key space without its outer slashes" means: `stripSlashes ks` is `ks` minus a run of slashes on
each side, and itself neither starts nor ends with a slash -/
theorem strip_spec (ks : Bytes) :
    ∃ a b, ks = a ++ stripSlashes ks ++ b ∧ (∀ x ∈ a, x = slash) ∧ (∀ x ∈ b, x = slash) ∧
      (stripSlashes ks).head? ≠ some slash ∧ (stripSlashes ks).getLast? ≠ some slash := by
  refine ⟨(trimRight ks).takeWhile (· == slash), ((ks.reverse).takeWhile (· == slash)).reverse, ?_, ?_, ?_, ?_, ?_⟩
  · unfold stripSlashes trim trimLeft
    rw [List.takeWhile_append_dropWhile]
    unfold trimRight
    rw [← List.reverse_append, List.takeWhile_append_dropWhile, List.reverse_reverse]
  · intro x hx; simpa using mem_takeWhile _ _ x hx
  · intro x hx
    rw [List.mem_reverse] at hx
    simpa using mem_takeWhile _ _ x hx
  · intro h
    have := head_dropWhile _ _ _ h
    simp at this
  · intro h
    have h1 := getLast_dropWhile _ _ _ h
    unfold trimRight at h1
    rw [List.getLast?_reverse] at h1
    have := head_dropWhile _ _ _ h1
    simp at this

/-- the fixed key never starts with '/' (the symptom of F6) -/
theorem s3_key_fixed_no_leading_slash (ks : Bytes) (t : TimeParts) (lsn : Nat) (ht : CleanTime t) :
    (objectKeyWith keyJoinFixed ks t lsn).head? ≠ some slash := by
  rw [s3_key_format_fixed ks t lsn ht]
  obtain ⟨_, _, _, _, _, hh, _⟩ := strip_spec ks
  unfold expectedKey
  by_cases h : stripSlashes ks = []
  · simp only [h, if_true, List.nil_append, List.append_assoc]
    cases hy : t.year with
    | nil => exact absurd hy ht.year.1
    | cons a u =>
      simp only [List.cons_append, List.head?_cons, ne_eq, Option.some.injEq]
      intro e; subst e; exact ht.year.2 (by rw [hy]; simp)
  · simp only [h, if_false, List.append_assoc]
    cases hs : stripSlashes ks with
    | nil => exact absurd hs h
    | cons a u =>
      rw [hs] at hh
      simpa using hh

/-! ## distinct batches / upload seconds never share a key -/

/-- **batches that differ in first record or in upload second never share a key** (code as it is today):
equal keys ⇒ equal `<yyyymmddhhmmss>` and equal first-record LSN.  Holds for ANY key space (also "//")
and any year/month/day/hour strings; `full` = 14 characters without '/'. -/
theorem s3_key_injective (ks : Bytes) (t₁ t₂ : TimeParts) (l₁ l₂ : Nat)
    (h₁ : t₁.full.length = 14) (h₂ : t₂.full.length = 14) (hs₁ : slash ∉ t₁.full) (hs₂ : slash ∉ t₂.full)
    (h : objectKeyWith keyJoin ks t₁ l₁ = objectKeyWith keyJoin ks t₂ l₂) : t₁.full = t₂.full ∧ l₁ = l₂ := by
  obtain ⟨X₁, e₁⟩ := key_suffix ks t₁ l₁ hs₁
  obtain ⟨X₂, e₂⟩ := key_suffix ks t₂ l₂ hs₂
  rw [e₁, e₂] at h
  exact suffix_injective X₁ X₂ _ _ l₁ l₂ h₁ h₂ h

/-- the same for the planned fix -/
theorem s3_key_injective_fixed (ks : Bytes) (t₁ t₂ : TimeParts) (l₁ l₂ : Nat)
    (h₁ : t₁.full.length = 14) (h₂ : t₂.full.length = 14) (hs₁ : slash ∉ t₁.full) (hs₂ : slash ∉ t₂.full)
    (h : objectKeyWith keyJoinFixed ks t₁ l₁ = objectKeyWith keyJoinFixed ks t₂ l₂) :
    t₁.full = t₂.full ∧ l₁ = l₂ := by
  obtain ⟨X₁, e₁⟩ := key_suffix_fixed ks t₁ l₁ hs₁
  obtain ⟨X₂, e₂⟩ := key_suffix_fixed ks t₂ l₂ hs₂
  rw [e₁, e₂] at h
  exact suffix_injective X₁ X₂ _ _ l₁ l₂ h₁ h₂ h

/-- **key format, full statement, for the code as it is now**: for every key space spelling the
object key is `<ks'>/<yyyy>/<mm>/<dd>/<hh>/<full>_<lsn>.gz` with `ks'` the key space without its outer
slashes, the component omitted when that is empty -/
theorem s3_key_format (ks : Bytes) (t : TimeParts) (lsn : Nat) (ht : CleanTime t) :
    objectKey ks t lsn = expectedKey ks t lsn := by
  rw [s3_model_key]; exact s3_key_format_fixed ks t lsn ht

/-- **keys never collide** for batches that differ in first record or upload second (code as it is now) -/
theorem s3_object_key_injective (ks : Bytes) (t₁ t₂ : TimeParts) (l₁ l₂ : Nat)
    (h₁ : t₁.full.length = 14) (h₂ : t₂.full.length = 14) (hs₁ : slash ∉ t₁.full) (hs₂ : slash ∉ t₂.full)
    (h : objectKey ks t₁ l₁ = objectKey ks t₂ l₂) : t₁.full = t₂.full ∧ l₁ = l₂ := by
  rw [s3_model_key] at h; exact s3_key_injective_fixed ks t₁ t₂ l₁ l₂ h₁ h₂ hs₁ hs₂ h

/-- decimal rendering (`%d`) is injective -/
theorem s3_dec_injective (n m : Nat) (h : dec n = dec m) : n = m := dec_injective n m h

/-! ## body -/

/-- `Buffer.Reset` / `gz.Reset` leave an empty stream (assumption about bytes.Buffer / pgzip, checked by the
correspondence over buffer-reuse limits 0/1/2/5) -/
def ResetEmpties (env : Env) : Prop := ∀ b, env.reset b = []

/-- **what is handed to gzip is exactly the batch's records in order, one per line** — for every
`bufUsedCount`, every `bufMaxReuse` and whatever earlier batches left in the buffer -/
theorem s3_body_lines (env : Env) (henv : ResetEmpties env) (maxReuse : Nat) (b : Buf) (recs : List Rec) :
    writeAll (prepare env maxReuse b).plain recs = recs.flatMap (fun r => r.json ++ [newline]) := by
  rw [writeAll_eq]
  unfold prepare expectedBody
  simp only []
  split <;> simp [henv b.plain]

/-- the reuse counter does what the comment in the code says: a fresh buffer every `maxReuse + 1` batches -/
theorem s3_buf_counter (env : Env) (maxReuse : Nat) (b : Buf) :
    (prepare env maxReuse b).used = if b.used + 1 > maxReuse then 0 else b.used + 1 := by
  unfold prepare; simp only []; split <;> rfl

/-! ## retry -/

/-- **every attempt after a failed one starts reading at offset 0** (whatever the reader's offset was at the
first attempt, and however much each failing call consumed) -/
theorem s3_retry_from_zero (zlen max off tries : Nat) (script : List Att) :
    ∀ a ∈ (retry zlen max off tries script).1.tail, a.start = 0 :=
  retry_tail_zero zlen max script off tries

/-- **success ⇒ the last call succeeded, started at offset 0 and consumed the whole body; all calls before
it failed; and the number of calls respects the budget** (the loop as `transportWithRetry` starts it) -/
theorem s3_retry_written_whole_body (zlen max : Nat) (script : List Att)
    (h : (retry zlen max 0 0 script).2 = true) :
    ∃ pre a, (retry zlen max 0 0 script).1 = pre ++ [a] ∧ a.ok = true ∧ a.start = 0 ∧ a.read = zlen ∧
      (∀ b ∈ pre, b.ok = false ∧ b.start = 0) ∧ pre.length ≤ max := by
  obtain ⟨pre, a, hpa, h1, h2, h3⟩ := retry_ok_last zlen max script 0 0 h
  have hz := retry_all_zero zlen max script 0
  have hb := retry_budget zlen max script 0 0
  rw [hpa] at hz hb
  have ha : a.start = 0 := hz a (by simp)
  refine ⟨pre, a, hpa, h1, ha, by rw [h2, ha]; rfl, fun b hb' => ⟨h3 b hb', hz b (by simp [hb'])⟩, ?_⟩
  simp at hb; omega

/-! ## the worker step -/

/-- **written ⇒ a PutObject succeeded whose body decodes to exactly the batch's records, one per line, and
that call read the whole compressed body from offset 0; the key is the model's key for the first record** -/
theorem s3_written_complete (env : Env) (henv : ResetEmpties env) (cfg : Cfg) (w : Worker) (t : TimeParts)
    (c : Cancel) (zlen : Nat) (script : List Att) (recs : List Rec)
    (h : (step env cfg w t c zlen script recs).2.reported = true) :
    ∃ r0 rest pre a, recs = r0 :: rest ∧
      (step env cfg w t c zlen script recs).2.key = some (objectKey cfg.keySpace t r0.lsn) ∧
      (step env cfg w t c zlen script recs).2.attempts = pre ++ [a] ∧ a.ok = true ∧ a.start = 0 ∧ a.read = zlen ∧
      (∀ b ∈ pre, b.ok = false) ∧
      (step env cfg w t c zlen script recs).2.received = some (some (recs.flatMap fun r => r.json ++ [newline])) := by
  unfold step stepWith at h ⊢
  by_cases ha : w.alive = true
  · simp only [ha, Bool.not_true, Bool.false_eq_true, if_false] at h ⊢
    by_cases hc : c = .early
    · simp [hc] at h
    · simp only [hc, if_false] at h ⊢
      cases recs with
      | nil => simp at h
      | cons r0 rest =>
        simp only [] at h ⊢
        by_cases hok : (retry zlen cfg.budget 0 0 script).2 = true
        · simp only [hok, Bool.not_true, Bool.false_eq_true, if_false] at h ⊢
          by_cases hm : c = .mid
          · simp [hm] at h
          · obtain ⟨pre, a, hpa, h1, h2, h3, h4, _⟩ := s3_retry_written_whole_body zlen cfg.budget script hok
            refine ⟨r0, rest, pre, a, rfl, ?_, ?_, h1, h2, h3, fun b hb => (h4 b hb).1, ?_⟩
            · simp [hm]; rfl
            · simp [hm, hpa]
            · simp only [hm, if_false, hpa]
              simp only [List.getLast?_append, List.getLast?_singleton, Option.some_or, Option.map_some, sinkDecodes, h2,
                if_true]
              rw [s3_body_lines env henv]
        · simp [hok] at h
  · simp [ha] at h

/-- **giving up reports nothing and stops the worker**: if every PutObject within the budget failed, the
batch is not reported, the worker terminates (fail-stop) and never handles another batch -/
theorem s3_no_report_on_giveup (env : Env) (cfg : Cfg) (w : Worker) (t : TimeParts) (c : Cancel) (zlen : Nat)
    (script : List Att) (recs : List Rec) (ha : w.alive = true) (hc : c ≠ .early) (hne : recs ≠ [])
    (hfail : (retry zlen cfg.budget 0 0 script).2 = false) :
    (step env cfg w t c zlen script recs).2.outcome = .exhausted ∧
    (step env cfg w t c zlen script recs).2.reported = false ∧
    (step env cfg w t c zlen script recs).2.terminated = true ∧
    (step env cfg w t c zlen script recs).1.alive = false ∧
    (∀ a ∈ (step env cfg w t c zlen script recs).2.attempts, a.ok = false) ∧
    ∀ t' c' z' s' recs',
      (step env cfg (step env cfg w t c zlen script recs).1 t' c' z' s' recs').2.reported = false := by
  cases recs with
  | nil => exact absurd rfl hne
  | cons r0 rest =>
    have hall := retry_fail_all zlen cfg.budget script 0 0 hfail
    simp only [step, stepWith, ha, hc, hfail, Bool.not_true, Bool.not_false, Bool.false_eq_true, if_false, if_true]
    refine ⟨trivial, trivial, trivial, trivial, hall, ?_⟩
    intro t' c' z' s' recs'
    trivial

/-- nothing is reported unless the outcome is `written`; a worker that has stopped reports nothing -/
theorem s3_reported_iff_written (env : Env) (cfg : Cfg) (w : Worker) (t : TimeParts) (c : Cancel) (zlen : Nat)
    (script : List Att) (recs : List Rec) :
    (step env cfg w t c zlen script recs).2.reported = true ↔
      (step env cfg w t c zlen script recs).2.outcome = .written := by
  unfold step stepWith
  cases w.alive <;> simp only [Bool.not_true, Bool.not_false, if_true, Bool.false_eq_true, if_false]
  · simp
  · by_cases hc : c = .early
    · simp [hc]
    · simp only [hc, if_false]
      cases recs with
      | nil => simp
      | cons r0 rest =>
        simp only []
        cases (retry zlen cfg.budget 0 0 script).2 <;> simp only [Bool.not_true, Bool.not_false, if_true, Bool.false_eq_true, if_false]
        · simp
        · by_cases hm : c = .mid <;> simp [hm]

/-! ## the key function IS the source's (translator `tools/factgen/s3tr.go`, regenerated every run) -/

theorem gen_go_eq (n : Nat) (l : List Bytes) (i : Nat) :
    PgBifrost.Gen.S3Src.go n i l = keyJoinFixedAux n i l := by
  induction l generalizing i with
  | nil => simp [PgBifrost.Gen.S3Src.go, keyJoinFixedAux]
  | cons s rest ih =>
    simp only [PgBifrost.Gen.S3Src.go, keyJoinFixedAux, trim, ih]
    by_cases h : trimLeft (trimRight s) = [] <;> simp [h]

/-- `key_join` translated from the source loop (trim right, trim left, skip when empty, write, separator
unless this is the last component, ".gz") is the model's key function, and `transportWithRetry` builds the
key once per batch from the key space, the four date parts and `<full>_<first record's LSN>`, handing exactly
that key and the rewindable reader to `PutObject`. -/
theorem s3_key_as_in_source :
    PgBifrost.Gen.S3Src.keyJoin = keyFn ∧
    PgBifrost.Gen.S3Src.firstWalStart = "messagesSlice[0].WalStart" ∧
    PgBifrost.Gen.S3Src.dateParts = "ts.DateString()" ∧
    PgBifrost.Gen.S3Src.baseFilename = "fmt.Sprintf(\"%s_%d\", full, firstWalStart)" ∧
    PgBifrost.Gen.S3Src.fullKey = "key_join(t.keySpace, year, month, day, hour, baseFilename)" ∧
    PgBifrost.Gen.S3Src.putKey = "aws.String(fullKey)" ∧
    PgBifrost.Gen.S3Src.putBody = "byteReader" := by
  refine ⟨?_, rfl, rfl, rfl, rfl, rfl, rfl⟩
  funext parts
  simp only [PgBifrost.Gen.S3Src.keyJoin, keyFn, keyJoinFixed, gen_go_eq]

/-- The S3 worker as written: the buffer bookkeeping at the top of `transportWithRetry` (count first, compare with
`>`, fresh buffer and counter 0 when above the reuse limit, `Reset` otherwise), what each pass of the write loop
appends (the record's JSON, then a newline), the reader made only after `gz.Close()`, a cancellation seen before
the upload only recorded, and the rewind `Seek(0, 0)` of the body after a failed attempt are the model's; the
loop body of `StartTransporting`, translated statement by statement, is the generic worker iteration, and the
model's `stepWith` reports a batch exactly when that iteration does. -/
theorem s3_worker_as_in_source :
    PgBifrost.Gen.S3WorkerSrc.prepare = prepare ∧
    (∀ plain recs, writeAll plain recs = recs.foldl PgBifrost.Gen.S3WorkerSrc.writeRec plain) ∧
    PgBifrost.Gen.S3WorkerSrc.seekAfterFailure = some (0, 0) ∧
    PgBifrost.Gen.S3WorkerSrc.readerAfterClose = true ∧
    PgBifrost.Gen.S3WorkerSrc.cancelOnlyRecorded = true ∧
    PgBifrost.Gen.WorkerLoops.s3Iteration = PgBifrost.WorkerLoop.iteration ∧
    (∀ kj env cfg (w : Worker) t cancel zlen script recs, w.alive = true →
      (stepWith kj env cfg w t cancel zlen script recs).2.reported =
        (PgBifrost.Gen.WorkerLoops.s3Iteration
          ⟨cancel = .early, recs = [], !(retry zlen cfg.budget 0 0 script).2, cancel = .mid⟩).reported) := by
  have hl : PgBifrost.Gen.WorkerLoops.s3Iteration = PgBifrost.WorkerLoop.iteration := by
    funext i; obtain ⟨a, b, c, d⟩ := i; cases a <;> cases b <;> cases c <;> cases d <;> rfl
  refine ⟨?_, fun _ _ => rfl, rfl, rfl, rfl, hl, ?_⟩
  · funext env maxReuse b
    simp only [PgBifrost.Gen.S3WorkerSrc.prepare, prepare, Id.run]
    by_cases h : b.used + 1 > maxReuse <;> simp [h, pure]
  · intro kj env cfg w t cancel zlen script recs ha
    rw [hl]
    unfold stepWith
    simp only [ha, Bool.not_true, Bool.false_eq_true, if_false]
    by_cases he : cancel = .early
    · simp [he, PgBifrost.WorkerLoop.iteration]
    · cases recs with
      | nil => simp [he, PgBifrost.WorkerLoop.iteration]
      | cons r0 rest =>
        cases hr : (retry zlen cfg.budget 0 0 script).2 <;> by_cases hm : cancel = .mid <;>
          simp [he, hm, PgBifrost.WorkerLoop.iteration]

/-- `RealTime.DateString` as written: the year is `strconv.Itoa` of the date's year; month, day and hour go through the
zero-padding helper, which (translated) yields exactly two decimal digits for every value below 100 - so for every month,
day and hour; the hour is the 24-hour `now.Hour()`; the full stamp is `now.Format` with the 24-hour layout
`20060102150405`. This is where the `CleanTime` hypothesis of the key theorems comes from for the real clock. -/
theorem date_string_as_in_source :
    PgBifrost.Gen.TimeSrc.parts =
      ["strconv.Itoa(now.Date()#0)", "intDateToNormalString(int(now.Date()#1))", "intDateToNormalString(now.Date()#2)",
       "intDateToNormalString(now.Hour())", "now.Format(\"20060102150405\")"] ∧
    ((List.range 100).all fun n =>
      (PgBifrost.Gen.TimeSrc.pad n).length == 2 && (PgBifrost.Gen.TimeSrc.pad n).toList.all Char.isDigit) = true :=
  ⟨rfl, by decide⟩

/-! ## non-vacuity -/

def exTime : TimeParts :=
  ⟨[50, 48, 50, 52], [48, 49], [48, 50], [48, 51], [50, 48, 50, 52, 48, 49, 48, 50, 48, 51, 48, 52, 48, 53]⟩
def exRecs : List Rec := [⟨17, [123, 125]⟩, ⟨18, [123, 49, 125]⟩]

/-- key space "/a/" → key "a/2024/01/02/03/20240102030405_17.gz" -/
example : objectKey [47, 97, 47] exTime 17 =
    [97, 47, 50, 48, 50, 52, 47, 48, 49, 47, 48, 50, 47, 48, 51, 47, 50, 48, 50, 52, 48, 49, 48, 50, 48, 51, 48, 52,
      48, 53, 95, 49, 55, 46, 103, 122] := by decide
example : CleanTime exTime := ⟨⟨by decide, by decide⟩, ⟨by decide, by decide⟩, ⟨by decide, by decide⟩,
  ⟨by decide, by decide⟩, by decide⟩
/-- two failed calls (3 bytes, then everything), then success, with buffer reuse: written, body intact -/
example : let r := (step Env.std ⟨[97], 5, 2⟩ { buf := ⟨1, [1, 2, 3]⟩ } exTime .none 40 [.fail 3, .fail 100, .ok] exRecs).2
    r.reported = true ∧ r.attempts = [⟨0, 3, false⟩, ⟨0, 40, false⟩, ⟨0, 40, true⟩] ∧
    r.received = some (some [123, 125, 10, 123, 49, 125, 10]) := by decide
/-- budget 1, two failures: gives up -/
example : (retry 40 1 0 0 [.fail 3, .fail 0, .ok]).2 = false := by decide
example : ResetEmpties Env.std := fun _ => rfl
/-- the planned fix on the F6 input: "2024/01/02/03/20240102030405_17.gz" -/
example : (objectKeyWith keyJoinFixed [47, 47] exTime 17).head? = some 50 := by decide
example : dec 18446744073709551615 = [49, 56, 52, 52, 54, 55, 52, 52, 48, 55, 51, 55, 48, 57, 53, 53, 49, 54, 49, 53] := by
  decide

end PgBifrost.Props.C12
