import PgBifrost.Proofs.LedgerSimple.Main
import PgBifrost.Model.WorkerLoop
import PgBifrost.Model.KafkaSend
import PgBifrost.Model.KinesisRetry
import PgBifrost.Gen.TrackerSrc
import PgBifrost.Proofs.LedgerRefine
import PgBifrost.Proofs.LedgerSpecSound
import PgBifrost.Proofs.SysExample
import PgBifrost.Gen.Wiring
import PgBifrost.Gen.Conds
import PgBifrost.Proofs.LedgerSrc
import PgBifrost.Proofs.SysClient
/-!
# C01 — no WAL position is acknowledged before its data is in the sink (property theorems)

Layer L1 (ledger). See DESIGN.md §6/C01 for the layering.
-/
namespace PgBifrost.Props.C01
open PgBifrost.Ledger PgBifrost.LedgerSimple

/-- **Ledger safety, simple item-list model (partial: under `NoStale`).** Whenever the ledger
emits `v`, every real delivery committed at or before `v` anywhere in the trace is completely
written at that point. Full statement (without `NoStale`) is false: see the F1 witness. -/
theorem ledger_emit_safe_simple_partial {tr : List Op} (hC : Contract tr) (hS : NoStale tr) {n v : Nat}
    (hemit : tr[n]? = some Op.emit)
    (hv : emitVal (run [] (tr.take n)) = some v)
    {i t k tot c : Nat} (hk : tr[i]? = some (Op.seen t k tot c true)) (hcv : c ≤ v) :
    wsum (tr.take n) k = tot :=
  emit_safe hC hS hemit hv hk hcv

/-! ## The same statements about the FAITHFUL model (`PgBifrost.Ledger`: items + helper map) -/

/-- **The tracker never panics (partial: under `NoStale`).** On a contract-respecting trace
without stale keys, `updateSeen` never returns its `CommitWalStart was not 0` error, at any
prefix. -/
theorem ledger_never_panics_partial {tr : List Op} (hC : Contract tr) (hS : NoStale tr) (n : Nat) :
    (PgBifrost.Ledger.run (tr.take n)).isSome := by
  obtain ⟨s, hrun, _, _⟩ := PgBifrost.LedgerRefine.run_refine' hC hS n
  rw [hrun]; rfl

/-- **Ledger safety, faithful model (partial: under `NoStale`).** Whenever `emitProgress` would
put `v` on the output channel, every real delivery committed at or before `v` anywhere in the
trace is completely written at that point. -/
theorem ledger_emit_safe_partial {tr : List Op} (hC : Contract tr) (hS : NoStale tr) {n v : Nat}
    (hemit : tr[n]? = some Op.emit) {s : PgBifrost.Ledger.State}
    (hrun : PgBifrost.Ledger.run (tr.take n) = some s) (hv : PgBifrost.Ledger.emitVal s = some v)
    {i t k tot c : Nat} (hk : tr[i]? = some (Op.seen t k tot c true)) (hcv : c ≤ v) :
    wsum (tr.take n) k = tot := by
  obtain ⟨s', hrun', hitems, _⟩ := PgBifrost.LedgerRefine.run_refine' hC hS n
  rw [hrun] at hrun'; cases hrun'
  rw [PgBifrost.LedgerRefine.emitVal_eq, hitems] at hv
  exact emit_safe hC hS hemit hv hk hcv

/-! ### non-vacuity -/

/-- Two transactions; delivery `k11` of txn 1 is interrupted after its rows were written (never
gets a `seen`) and txn 1 is redelivered under the new key `k12`, whose rows are written before
its commit is seen; two emits, both of which report progress. -/
def exTrace : List Op :=
  [.written 1 11 2, .written 1 12 1, .seen 1 12 1 100 true, .emit,
   .seen 2 23 1 200 true, .written 2 23 1, .emit]

theorem exTrace_contract : Contract exTrace :=
  PgBifrost.Spec.Ledger.checkContract_sound (by decide)

theorem exTrace_noStale : NoStale exTrace :=
  PgBifrost.Spec.Ledger.checkNoStale_sound (by decide)

/-- all hypotheses of `ledger_emit_safe_partial` hold together on `exTrace`, at both emits -/
example :
    7 ≤ exTrace.length ∧ Contract exTrace ∧ NoStale exTrace ∧
    (∃ s, exTrace[3]? = some Op.emit ∧ PgBifrost.Ledger.run (exTrace.take 3) = some s ∧
      PgBifrost.Ledger.emitVal s = some 100 ∧
      exTrace[2]? = some (Op.seen 1 12 1 100 true) ∧ 100 ≤ 100 ∧ wsum (exTrace.take 3) 12 = 1) ∧
    (∃ s, exTrace[6]? = some Op.emit ∧ PgBifrost.Ledger.run (exTrace.take 6) = some s ∧
      PgBifrost.Ledger.emitVal s = some 200 ∧
      exTrace[4]? = some (Op.seen 2 23 1 200 true) ∧ 200 ≤ 200 ∧ wsum (exTrace.take 6) 23 = 1) :=
  ⟨by decide, exTrace_contract, exTrace_noStale,
   ⟨⟨[⟨1, 12, 100, 1, 1⟩], [(1, 12)]⟩, by decide⟩,
   ⟨⟨[⟨2, 23, 200, 1, 1⟩], [(2, 23)]⟩, by decide⟩⟩

/-- the theorem applied to the second emit of `exTrace` (for the first transaction's delivery) -/
example : wsum (exTrace.take 6) 12 = 1 :=
  ledger_emit_safe_partial exTrace_contract exTrace_noStale (n := 6) (v := 200)
    (s := ⟨[⟨2, 23, 200, 1, 1⟩], [(2, 23)]⟩) (by decide) (by decide) (by decide)
    (i := 2) (t := 1) (k := 12) (tot := 1) (c := 100) (by decide) (by decide)

example : (PgBifrost.Ledger.run (exTrace.take 7)).isSome :=
  ledger_never_panics_partial exTrace_contract exTrace_noStale 7

/-! ### the full statement (without `NoStale`) is false -/

/-- F1 witness: `k11` is a stale key of txn 1 that shows up after `k12` was committed. Its
`written` makes the ledger drop the committed-but-unwritten entry `k12`, and the next emit
acknowledges 200 ≥ 100 although none of `k12`'s 3 rows are written. -/
def staleTrace : List Op :=
  [.seen 1 12 3 100 true, .seen 2 23 1 200 true, .written 1 11 2, .written 2 23 1, .emit]

/-- **`NoStale` cannot be dropped** from `ledger_emit_safe_partial`: a contract-respecting trace
on which the faithful model emits `v` while a real delivery committed at `c ≤ v` is incomplete. -/
theorem ledger_emit_unsafe_witness :
    ∃ (tr : List Op) (n v : Nat) (s : PgBifrost.Ledger.State) (i t k tot c : Nat),
      Contract tr ∧ tr[n]? = some Op.emit ∧
      PgBifrost.Ledger.run (tr.take n) = some s ∧ PgBifrost.Ledger.emitVal s = some v ∧
      tr[i]? = some (Op.seen t k tot c true) ∧ c ≤ v ∧ wsum (tr.take n) k < tot :=
  ⟨staleTrace, 4, 200, ⟨[⟨2, 23, 200, 1, 1⟩, ⟨1, 11, 0, 2, 0⟩], [(2, 23), (1, 11)]⟩, 0, 1, 12, 3, 100,
    PgBifrost.Spec.Ledger.checkContract_sound (by decide), by decide, by decide, by decide,
    by decide, by decide, by decide⟩

/-- and indeed the monitor for `NoStale` rejects it -/
example : PgBifrost.Spec.Ledger.checkNoStale staleTrace = false := by decide

/-! ## Layers L2 and Top: the composed system (`Model/Sys.lean`)

`Sys.run ⟨K, bcfg⟩ acts` runs the composition of the batcher model, per-worker FIFO queues, the
sink's accept / retry answers, the shared written channel and the tracker (faithful ledger model) on
an action list `acts` — all schedules, all retryable failures, all crash points are the universally
quantified `acts`; `K`, `bcfg` (kind, workers, routing) are universally quantified too.

`Sys.Env redeliver K big bad dom acts` (input hypotheses): the batch kind satisfies the batcher's
laws and `NoFatal` (proved for the generic, Kinesis and Kafka batches), every fed data message is in
the kind's domain, and the fed messages follow the replication client's output grammar
(`Sys.gscan redeliver`, a decidable prefix-closed recogniser):
`redeliver = false` — deliveries `BEGIN data* COMMIT`, contiguous; delivery keys pairwise distinct;
transaction ids pairwise distinct; COMMIT LSNs strictly increasing and > 0.
`redeliver = true` — additionally an open delivery may be interrupted (no COMMIT) by the BEGIN of a
new delivery, under a fresh key, of the SAME transaction id.

`Sys.Sched redeliver cfg acts` (scheduling hypothesis, a predicate on the action list):
`redeliver = false`, or `Sys.redeliverQuiet cfg acts = true`: at every `feed m` where `m` is a BEGIN
that interrupts the open delivery `k`, `Sys.keyInFlight s k = false` in the state `s` before the feed
— no open batch counts a record of `k` in its `txns`, no queued / held batch and no unconsumed
written report mentions `k` (everything of `k` was consumed by the tracker). This is what makes
`NoStale` true; without it `NoStale` fails (`sys_nostale_needs_schedule_witness`, finding F1). -/
section sys
open PgBifrost.Batch
variable {K : Kind} {big bad : Msg → Bool} {dom : Msg → Prop}

/-- **L2: batcher/worker contract (`sys_ledger_trace_contract`).** For every action list under
`Env` (with or without redelivery, ANY schedule), the sequence of ledger operations the tracker
performed satisfies `Contract` (E1 seen keys unique and commits ordered, E2 written sums ≤ total and
counts ≥ 1, E3 order, key/txn consistency); under the scheduling hypothesis (always true without
redelivery) it also satisfies `NoStale`. -/
theorem sys_ledger_trace_contract (bcfg : Batcher.Cfg) (redeliver : Bool) (acts : List Sys.Act)
    (hE : Sys.Env redeliver K big bad dom acts) :
    Contract (Sys.ledgerTrace (Sys.run ⟨K, bcfg⟩ acts)) ∧
    (Sys.Sched redeliver ⟨K, bcfg⟩ acts → NoStale (Sys.ledgerTrace (Sys.run ⟨K, bcfg⟩ acts))) :=
  Sys.trace_contract bcfg redeliver acts hE

/-- the tracker never panics (`updateSeen` never fails) in the composed system -/
theorem sys_tracker_never_panics (bcfg : Batcher.Cfg) (redeliver : Bool) (acts : List Sys.Act)
    (hE : Sys.Env redeliver K big bad dom acts) (hs : Sys.Sched redeliver ⟨K, bcfg⟩ acts) :
    (Sys.run ⟨K, bcfg⟩ acts).dead = false :=
  Sys.never_dead bcfg redeliver acts hE hs

/-- **C01 Top (`sys_ack_safe`).** Every value `v` in `acks` was emitted at some point `pre` of the
run (`acts = pre ++ emit :: post`, the ledger at `pre` emits `v`), and AT THAT MOMENT, for every
delivery of the run whose COMMIT LSN is ≤ `v` (deliveries fed later included: there are none, COMMIT
LSNs increase), every data message of that delivery was already in `sinkAccepted` or was dropped as
too big by the batch kind (`big m`). Uses `ledger_emit_safe` (L1), the trace contract (L2), the
batcher's accounting (`txns_global_accounting`, `batch_txns_exact`, `batcher_partition_faithful`) and
the accept rule of the composition (a written report is enqueued only after the batch's records
were appended to `sinkAccepted`). -/
theorem sys_ack_safe (bcfg : Batcher.Cfg) (redeliver : Bool) (acts : List Sys.Act)
    (hE : Sys.Env redeliver K big bad dom acts) (hs : Sys.Sched redeliver ⟨K, bcfg⟩ acts) :
    ∀ v ∈ (Sys.run ⟨K, bcfg⟩ acts).acks, ∃ pre post, acts = pre ++ Sys.Act.emit :: post ∧
      (∃ l, (Sys.run ⟨K, bcfg⟩ pre).ledger = some l ∧ PgBifrost.Ledger.emitVal l = some v) ∧
      ∀ c ∈ Sys.fedMsgs acts, c.op = .commit → c.lsn ≤ v →
        ∀ m ∈ Sys.fedMsgs acts, m.op = .data → m.key = c.key →
          m ∈ (Sys.run ⟨K, bcfg⟩ pre).sinkAccepted ∨ big m = true := by
  obtain ⟨g, hg⟩ := hE.grammar
  exact Sys.ack_safe_acks bcfg hE.kind redeliver acts hE.dom g hg hs

/-- state form: whenever the tracker WOULD emit `v` in the current state, every data message of
every fed delivery committed at or before `v` is in the sink or was dropped as too big -/
theorem sys_ack_safe_state (bcfg : Batcher.Cfg) (redeliver : Bool) (acts : List Sys.Act)
    (hE : Sys.Env redeliver K big bad dom acts) (hs : Sys.Sched redeliver ⟨K, bcfg⟩ acts)
    (l : PgBifrost.Ledger.State)
    (hl : (Sys.run ⟨K, bcfg⟩ acts).ledger = some l) (v : Nat) (hv : PgBifrost.Ledger.emitVal l = some v) :
    ∀ c ∈ Sys.fedMsgs acts, c.op = .commit → c.lsn ≤ v →
      ∀ m ∈ Sys.fedMsgs acts, m.op = .data → m.key = c.key →
        m ∈ (Sys.run ⟨K, bcfg⟩ acts).sinkAccepted ∨ big m = true := by
  obtain ⟨g, hg⟩ := hE.grammar
  exact Sys.ack_safe_state bcfg hE.kind redeliver acts hE.dom g hg hs l hl v hv

/-- **`sys_crash_restart_no_loss`.** At every crash point (prefix of the action list), for every
acknowledged value `v` (in particular the largest one, from which PostgreSQL restarts), every data
message of every delivery committed at or before `v` is already in `sinkAccepted` (or was dropped as
too big): restarting from the acknowledged position loses nothing. -/
theorem sys_crash_restart_no_loss (bcfg : Batcher.Cfg) (redeliver : Bool) (acts : List Sys.Act)
    (hE : Sys.Env redeliver K big bad dom acts) (hs : Sys.Sched redeliver ⟨K, bcfg⟩ acts) :
    ∀ crash, crash <+: acts → ∀ v ∈ (Sys.run ⟨K, bcfg⟩ crash).acks,
      ∀ c ∈ Sys.fedMsgs crash, c.op = .commit → c.lsn ≤ v →
        ∀ m ∈ Sys.fedMsgs crash, m.op = .data → m.key = c.key →
          m ∈ (Sys.run ⟨K, bcfg⟩ crash).sinkAccepted ∨ big m = true :=
  Sys.crash_restart bcfg redeliver acts hE hs

/-- **C01 end to end, client included (`flush_position_safe`).** Compose the replication client (model of
`replication/client`, any variant, ANY list of received events — data, keepalives, timeouts, lost
connections, error responses, blocked output) with the batcher ▸ workers ▸ tracker system: if the values the
client reads from its progress channel are values the tracker emitted (the wiring fact
`runner_wiring_as_modelled`: the client is started with `progressTracker.OutputChan`), then every flush
position `a` it reports to PostgreSQL is either the position the server announced when the session started,
or such that every data message of every delivery committed at or before `a` has been accepted by the sink
(or dropped as too big). The client adds nothing of its own (C03 `acks_sourced`), the tracker's values are
safe (`sys_crash_restart_no_loss`). -/
theorem flush_position_safe (bcfg : Batcher.Cfg) (redeliver : Bool) (sacts : List Sys.Act)
    (hE : Sys.Env redeliver K big bad dom sacts) (hs : Sys.Sched redeliver ⟨K, bcfg⟩ sacts)
    (v : Client.Variant) (e : Client.Ev) (evs : List Client.Ev) (i : Nat)
    (hi : PgBifrost.Spec.Client.initOf e = some i)
    (hfeed : ∀ x ∈ SysClient.allFed (ClientProofs.hist v (e :: evs)), x ∈ (Sys.run ⟨K, bcfg⟩ sacts).acks) :
    ∀ a ∈ PgBifrost.Spec.Client.statusesOf (PgBifrost.Spec.Client.acts (ClientProofs.hist v (e :: evs))),
      a = i ∨
      ∀ c ∈ Sys.fedMsgs sacts, c.op = .commit → c.lsn ≤ a →
        ∀ m ∈ Sys.fedMsgs sacts, m.op = .data → m.key = c.key →
          m ∈ (Sys.run ⟨K, bcfg⟩ sacts).sinkAccepted ∨ big m = true := by
  intro a ha
  rcases SysClient.status_sourced v e evs i hi a ha with h | h
  · exact Or.inl h
  · exact Or.inr (sys_crash_restart_no_loss bcfg redeliver sacts hE hs sacts (List.prefix_refl _) a (hfeed a h))

/-- the same without redelivery (no scheduling hypothesis needed) -/
theorem sys_ack_safe_noredelivery (bcfg : Batcher.Cfg) (acts : List Sys.Act)
    (hE : Sys.Env false K big bad dom acts) :
    ∀ v ∈ (Sys.run ⟨K, bcfg⟩ acts).acks, ∃ pre post, acts = pre ++ Sys.Act.emit :: post ∧
      (∃ l, (Sys.run ⟨K, bcfg⟩ pre).ledger = some l ∧ PgBifrost.Ledger.emitVal l = some v) ∧
      ∀ c ∈ Sys.fedMsgs acts, c.op = .commit → c.lsn ≤ v →
        ∀ m ∈ Sys.fedMsgs acts, m.op = .data → m.key = c.key →
          m ∈ (Sys.run ⟨K, bcfg⟩ pre).sinkAccepted ∨ big m = true :=
  sys_ack_safe bcfg false acts hE (Or.inl rfl)

/-- **The scheduling hypothesis cannot be dropped** (finding F1 is reachable in the composed system):
an input following the stage-2 grammar, scheduled so that the redelivery starts while a row of the
interrupted delivery is still in an open batch, on which the trace violates `NoStale`. -/
theorem sys_nostale_needs_schedule_witness :
    ∃ acts : List Sys.Act, Sys.Env true (genericKind 2) genericBig genericBad (fun _ => True) acts ∧
      Sys.redeliverQuiet Sys.exCfg acts = false ∧
      PgBifrost.Spec.Ledger.checkNoStale (Sys.ledgerTrace (Sys.run Sys.exCfg acts)) = false :=
  ⟨Sys.ex2Bad, Sys.ex2BadEnv, Sys.ex2Bad_facts.1, by rw [Sys.ex2Bad_facts.2.1]; decide⟩

/-! ### non-vacuity: `Sys.exActs` (two workers, a retry, a later batch accepted before an earlier
one, a tick, three emits of which two report progress) and `Sys.ex2Acts` (an interrupted delivery
redelivered after the tracker consumed its reports) -/

example : (Sys.run Sys.exCfg Sys.exActs).acks = [104, 113] ∧
    (Sys.run Sys.exCfg Sys.exActs).sinkAccepted.map (·.id) = [3, 6, 1, 2, 7] := ⟨Sys.ex_acks, Sys.ex_sink⟩

example : Contract (Sys.ledgerTrace (Sys.run Sys.exCfg Sys.exActs)) ∧
    NoStale (Sys.ledgerTrace (Sys.run Sys.exCfg Sys.exActs)) :=
  ⟨(sys_ledger_trace_contract Sys.exCfg.bcfg false Sys.exActs Sys.exEnv).1,
   (sys_ledger_trace_contract Sys.exCfg.bcfg false Sys.exActs Sys.exEnv).2 (Or.inl rfl)⟩

/-- and the monitors agree on the concrete trace -/
example : PgBifrost.Spec.Ledger.checkContract (Sys.ledgerTrace (Sys.run Sys.exCfg Sys.exActs)) = true ∧
    PgBifrost.Spec.Ledger.checkNoStale (Sys.ledgerTrace (Sys.run Sys.exCfg Sys.exActs)) = true := by
  rw [Sys.ex_trace]; decide

example := sys_ack_safe Sys.exCfg.bcfg false Sys.exActs Sys.exEnv (Or.inl rfl) 104
  (by rw [show (⟨genericKind 2, Sys.exCfg.bcfg⟩ : Sys.Cfg) = Sys.exCfg from rfl, Sys.ex_acks]; decide)

/-- non-vacuity of `flush_position_safe`: the client of a session announced at 100 is fed the two values the
example system emits (104 at a receive timeout, 113 at the next one) and reports exactly 100, 104, 113 -/
def exClientEvs : List Client.Ev :=
  [⟨[], .keepalive false 100 0, false⟩, ⟨[], .timeout, false⟩, ⟨[104], .timeout, false⟩, ⟨[113], .timeout, false⟩]
example : PgBifrost.Spec.Client.statusesOf (PgBifrost.Spec.Client.acts (ClientProofs.hist .fixedC exClientEvs)) =
    [100, 104, 113] := by decide
example := flush_position_safe Sys.exCfg.bcfg false Sys.exActs Sys.exEnv (Or.inl rfl) .fixedC
  ⟨[], .keepalive false 100 0, false⟩ exClientEvs.tail 100 rfl
  (by rw [show (⟨genericKind 2, Sys.exCfg.bcfg⟩ : Sys.Cfg) = Sys.exCfg from rfl, Sys.ex_acks]; decide)

example := sys_crash_restart_no_loss Sys.exCfg.bcfg false Sys.exActs Sys.exEnv (Or.inl rfl) (Sys.exActs.take 20)
  (List.take_prefix _ _)

/-- stage 2: all hypotheses hold together on `Sys.ex2Acts`, and the acknowledged 104 is safe -/
example : Sys.Env true (genericKind 2) genericBig genericBad (fun _ => True) Sys.ex2Acts ∧
    Sys.Sched true Sys.exCfg Sys.ex2Acts ∧ (Sys.run Sys.exCfg Sys.ex2Acts).acks = [104] ∧
    NoStale (Sys.ledgerTrace (Sys.run Sys.exCfg Sys.ex2Acts)) :=
  ⟨Sys.ex2Env, Or.inr Sys.ex2_quiet, Sys.ex2_acks,
   (sys_ledger_trace_contract Sys.exCfg.bcfg true Sys.ex2Acts Sys.ex2Env).2 (Or.inr Sys.ex2_quiet)⟩

example := sys_ack_safe Sys.exCfg.bcfg true Sys.ex2Acts Sys.ex2Env (Or.inr Sys.ex2_quiet) 104
  (by rw [show (⟨genericKind 2, Sys.exCfg.bcfg⟩ : Sys.Cfg) = Sys.exCfg from rfl, Sys.ex2_acks]; decide)

end sys

/-! ## the composition is the one `app/runner.go` builds

`Model/Sys.lean` composes batcher, workers and tracker through two channels — seen lists handed over at a
rendezvous (an UNBUFFERED channel: clause E3 of the ledger contract rests on it) and a FIFO of written
reports — and feeds the tracker's output to the client. The facts below are regenerated from `app/runner.go`
on every run. -/
section wiring
open PgBifrost.Gen.Wiring

def argOf (callee : String) (i : Nat) : Option String :=
  (runnerCalls.find? (·.1 == callee)).bind (·.2[i]?)

theorem runner_wiring_as_modelled :
    -- client ▸ filter ▸ partitioner ▸ marshaller ▸ batcher (transport manager)
    argOf "filter.New" 1 = some "replicationClient.GetOutputChan()" ∧
    argOf "partitioner.New" 1 = some "filterInstance.OutputChan" ∧
    argOf "marshaller.New" 1 = some "partitionerInstance.OutputChan" ∧
    argOf "manager.New" 1 = some "marshallerInstance.OutputChan" ∧
    -- batcher/workers ▸ tracker: one seen channel, one written channel, shared by both ends
    argOf "manager.New" 2 = some "txnsSeen" ∧ argOf "manager.New" 3 = some "txnsWritten" ∧
    argOf "progress.New" 1 = some "txnsSeen" ∧ argOf "progress.New" 2 = some "txnsWritten" ∧
    -- the seen channel is unbuffered ("Must be unbuffered to maintain seen -> written ordering")
    runnerMakes.lookup "txnsSeen" = some "make(chan []*progress.Seen)" ∧
    -- tracker ▸ client: the acknowledgements the client sends are the tracker's output
    runnerGo.getLast? = some "r.replicationClient.Start(r.progressTracker.OutputChan)" := by decide

/-- **the release condition is the one in the source**: `Gen.Conds.releasable` is TRANSLATED from
`emitProgress` on every run (`walStart != 0 && count == total`, with the three locals read from the entry's
`CommitWalStart`, `Count`, `TotalMsgs`); the ledger model releases an entry under exactly that condition.
(`==` weakened to `>=`, or the `walStart != 0` guard dropped, breaks this theorem.) -/
theorem release_condition_as_in_source (e : PgBifrost.Ledger.Entry) :
    PgBifrost.Ledger.releasable e = PgBifrost.Gen.Conds.releasable e.commit e.count e.total := by
  simp only [PgBifrost.Ledger.releasable, PgBifrost.Gen.Conds.releasable]
  by_cases h1 : e.commit = 0 <;> by_cases h2 : e.count = e.total <;> simp [h1, h2]

/-- **the ledger model is the ledger's source** (`ledger_as_in_source`). `Gen/LedgerSrc.lean` is
`transport/progress/ledger.go` TRANSLATED statement by statement on every run (`updateSeen`, `updateWritten`,
`remove`: map look-ups, deletes, the entry literal, assignments through the entry pointer, the error return);
the hand-written model functions every ledger theorem above is about are EQUAL to the translation. A changed
supersession rule, a dropped delete, a different initial count or a swapped field breaks this theorem (or falls
outside the translator's subset, which is reported as a broken tie). Trusted here: that `ordered_map`'s
`Get/Set/Delete` and Go's map operations are the model's list primitives, and that a `*LedgerEntry` taken from
the map points into it (both also exercised by the `ledger` correspondence). -/
theorem ledger_as_in_source :
    (∀ s t k tot c, PgBifrost.Gen.LedgerSrc.updateSeen s t k tot c = PgBifrost.Ledger.updateSeen s t k tot c) ∧
    (∀ s t k n, PgBifrost.Gen.LedgerSrc.updateWritten s t k n = some (PgBifrost.Ledger.updateWritten s t k n)) ∧
    (∀ s k, PgBifrost.Gen.LedgerSrc.remove s k = some (PgBifrost.Ledger.remove s k)) ∧
    -- … and `ProgressTracker.emitProgress` (Gen/EmitSrc.lean: scan while releasable, emit the LAST collected
    -- commit position, remove every collected entry) is the model's `emit`
    (∀ s, PgBifrost.Gen.EmitSrc.emitProgress s = PgBifrost.Ledger.emit s) :=
  ⟨LedgerSrcProofs.updateSeen_eq, LedgerSrcProofs.updateWritten_eq, LedgerSrcProofs.remove_eq, LedgerSrcProofs.emit_eq⟩

end wiring

/-- The progress tracker's glue as written: `updateSeen` / `updateWritten` perform one ledger operation per entry,
in order, and stop at the first error - which is the system model's `ledApply` over the mapped entries; in
`readProgress` every receive from the seen channel goes to `updateSeen` and every receive from the written channel
to `updateWritten`, a closed channel ends the tracker with an error, an error of the ledger is a panic; in `Start`
the ticker arm emits progress and the default arm reads progress. -/
theorem tracker_as_in_source :
    (∀ l seen, PgBifrost.Gen.TrackerSrc.updateSeen l seen = PgBifrost.Sys.ledApply (some l) (seen.map PgBifrost.Sys.seenOp)) ∧
    (∀ l ws, PgBifrost.Gen.TrackerSrc.updateWritten l ws = PgBifrost.Sys.ledApply (some l) (ws.map PgBifrost.Sys.writtenOp)) ∧
    PgBifrost.Gen.TrackerSrc.readArms =
      [("<-p.txnSeenChan", "error", "p.updateSeen(txnSeen)", "panic"),
       ("<-p.txnsWritten", "error", "p.updateWritten(batchTransactions)", "panic"),
       ("<-p.txnsWritten", "error", "p.updateWritten(batchTransactions)", "panic")] ∧
    PgBifrost.Gen.TrackerSrc.startArms = ["<-ticker.C -> p.emitProgress", "default -> p.readProgress"] := by
  refine ⟨?_, ?_, rfl, rfl⟩
  · intro l seen
    induction seen generalizing l with
    | nil => simp [PgBifrost.Gen.TrackerSrc.updateSeen, PgBifrost.Sys.ledApply]
    | cons s rest ih =>
      simp only [PgBifrost.Gen.TrackerSrc.updateSeen, PgBifrost.Sys.ledApply, List.map_cons, List.foldlM_cons,
        Option.bind_some, Option.bind_eq_bind]
      cases h : PgBifrost.Ledger.step l (PgBifrost.Sys.seenOp s) with
      | none => simp
      | some l' => simpa [PgBifrost.Sys.ledApply] using ih l'
  · intro l ws
    induction ws generalizing l with
    | nil => simp [PgBifrost.Gen.TrackerSrc.updateWritten, PgBifrost.Sys.ledApply]
    | cons w rest ih =>
      simp only [PgBifrost.Gen.TrackerSrc.updateWritten, PgBifrost.Sys.ledApply, List.map_cons, List.foldlM_cons,
        Option.bind_some, Option.bind_eq_bind]
      cases h : PgBifrost.Ledger.step l (PgBifrost.Sys.writtenOp w) with
      | none => simp
      | some l' => simpa [PgBifrost.Sys.ledApply] using ih l'

/-! ## layer L3: all sink workers share one loop -/

/-- what the Kafka worker's loop sees of a batch -/
def kafkaIn (o : PgBifrost.KafkaSend.Outcome) : PgBifrost.WorkerLoop.LoopIn :=
  ⟨o = .cancelled true, o = .otherError, (match o with | .rejected _ => true | _ => false), o = .cancelled false⟩

/-- what the Kinesis worker's loop sees of a batch's retry loop -/
def kinesisIn (pre : Bool) (r : PgBifrost.KinesisRetry.Result) : PgBifrost.WorkerLoop.LoopIn :=
  ⟨pre, r = .panicSizeMismatch || r = .panicIndex, r = .exhausted, r = .cancelled⟩

/-- The four sink workers share ONE loop (`Model/WorkerLoop.iteration`; the S3 and RabbitMQ loop bodies are translated
from the source and proved equal to it in `s3_worker_as_in_source` / `rabbit_loop_as_in_source`, the Kafka and Kinesis
ones in `kafka_iteration_as_in_source` / `kinesis_iteration_as_in_source`): a batch's transactions are handed to the
progress tracker exactly when the attempt was made and neither panicked, nor failed, nor was cancelled - for the Kafka
and the Kinesis worker models this is their `processBatch`. Together with C11-C14 (what "did not fail" means per sink)
this is the worker layer of "nothing is acknowledged before it is in the sink". -/
theorem workers_report_only_on_success :
    (∀ i : PgBifrost.WorkerLoop.LoopIn, (PgBifrost.WorkerLoop.iteration i).reported = true ↔
        i.preCancelled = false ∧ i.panicked = false ∧ i.err = false ∧ i.cancelled = false) ∧
    (∀ j : PgBifrost.KafkaSend.Job, (PgBifrost.KafkaSend.processBatch j).reported.isSome =
        (PgBifrost.WorkerLoop.iteration (kafkaIn j.out)).reported) ∧
    (∀ (budget : Nat) (j : PgBifrost.KinesisRetry.Job Nat), (PgBifrost.KinesisRetry.processBatch budget j).reported.isSome =
        (PgBifrost.WorkerLoop.iteration (kinesisIn j.preCancelled (PgBifrost.KinesisRetry.run j.recs j.outs budget).1)).reported) := by
  refine ⟨PgBifrost.WorkerLoop.reported_iff, ?_, ?_⟩
  · intro j
    obtain ⟨p, t, o⟩ := j
    cases o with
    | accepted => simp [PgBifrost.KafkaSend.processBatch, kafkaIn, PgBifrost.WorkerLoop.iteration]
    | rejected i => simp [PgBifrost.KafkaSend.processBatch, kafkaIn, PgBifrost.WorkerLoop.iteration]
    | otherError => simp [PgBifrost.KafkaSend.processBatch, kafkaIn, PgBifrost.WorkerLoop.iteration]
    | cancelled b => cases b <;> simp [PgBifrost.KafkaSend.processBatch, kafkaIn, PgBifrost.WorkerLoop.iteration]
  · intro budget j
    unfold PgBifrost.KinesisRetry.processBatch kinesisIn
    cases hp : j.preCancelled
    · cases hr : (PgBifrost.KinesisRetry.run j.recs j.outs budget).1 <;> simp [hr, PgBifrost.WorkerLoop.iteration]
    · simp [PgBifrost.WorkerLoop.iteration]

end PgBifrost.Props.C01
