import PgBifrost.Proofs.LedgerSimple.Main
/-!
# C01 — no WAL position is acknowledged before its data is in the sink (property theorems)

Layer L1 (ledger). See DESIGN.md §6/C01 for the layering.
-/
namespace PgBifrost.Props.C01
open PgBifrost.Ledger PgBifrost.LedgerSimple

/-- **Ledger safety, simple item-list model (partial: under `NoStale`).** Whenever the ledger
emits `v`, every real delivery committed at or before `v` anywhere in the trace is completely
written at that point. Full statement (without `NoStale`) is false: see the F1 witness. -/
theorem ledger_emit_safe_simple_partial {tr : List Op} (hC : Contract tr) (hS : NoStale tr) {n v : Nat}
    (hemit : tr[n]? = some Op.emit)
    (hv : emitVal (run [] (tr.take n)) = some v)
    {i t k tot c : Nat} (hk : tr[i]? = some (Op.seen t k tot c true)) (hcv : c ≤ v) :
    wsum (tr.take n) k = tot :=
  emit_safe hC hS hemit hv hk hcv

end PgBifrost.Props.C01
