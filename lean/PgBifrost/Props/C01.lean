import PgBifrost.Proofs.LedgerSimple.Main
import PgBifrost.Proofs.LedgerRefine
import PgBifrost.Proofs.LedgerSpecSound
/-!
# C01 — no WAL position is acknowledged before its data is in the sink (property theorems)

Layer L1 (ledger). See DESIGN.md §6/C01 for the layering.
-/
namespace PgBifrost.Props.C01
open PgBifrost.Ledger PgBifrost.LedgerSimple

/-- **Ledger safety, simple item-list model (partial: under `NoStale`).** Whenever the ledger
emits `v`, every real delivery committed at or before `v` anywhere in the trace is completely
written at that point. Full statement (without `NoStale`) is false: see the F1 witness. -/
theorem ledger_emit_safe_simple_partial {tr : List Op} (hC : Contract tr) (hS : NoStale tr) {n v : Nat}
    (hemit : tr[n]? = some Op.emit)
    (hv : emitVal (run [] (tr.take n)) = some v)
    {i t k tot c : Nat} (hk : tr[i]? = some (Op.seen t k tot c true)) (hcv : c ≤ v) :
    wsum (tr.take n) k = tot :=
  emit_safe hC hS hemit hv hk hcv

/-! ## The same statements about the FAITHFUL model (`PgBifrost.Ledger`: items + helper map) -/

/-- **The tracker never panics (partial: under `NoStale`).** On a contract-respecting trace
without stale keys, `updateSeen` never returns its `CommitWalStart was not 0` error, at any
prefix. -/
theorem ledger_never_panics_partial {tr : List Op} (hC : Contract tr) (hS : NoStale tr) (n : Nat) :
    (PgBifrost.Ledger.run (tr.take n)).isSome := by
  obtain ⟨s, hrun, _, _⟩ := PgBifrost.LedgerRefine.run_refine' hC hS n
  rw [hrun]; rfl

/-- **Ledger safety, faithful model (partial: under `NoStale`).** Whenever `emitProgress` would
put `v` on the output channel, every real delivery committed at or before `v` anywhere in the
trace is completely written at that point. -/
theorem ledger_emit_safe_partial {tr : List Op} (hC : Contract tr) (hS : NoStale tr) {n v : Nat}
    (hemit : tr[n]? = some Op.emit) {s : PgBifrost.Ledger.State}
    (hrun : PgBifrost.Ledger.run (tr.take n) = some s) (hv : PgBifrost.Ledger.emitVal s = some v)
    {i t k tot c : Nat} (hk : tr[i]? = some (Op.seen t k tot c true)) (hcv : c ≤ v) :
    wsum (tr.take n) k = tot := by
  obtain ⟨s', hrun', hitems, _⟩ := PgBifrost.LedgerRefine.run_refine' hC hS n
  rw [hrun] at hrun'; cases hrun'
  rw [PgBifrost.LedgerRefine.emitVal_eq, hitems] at hv
  exact emit_safe hC hS hemit hv hk hcv

/-! ### non-vacuity -/

/-- Two transactions; delivery `k11` of txn 1 is interrupted after its rows were written (never
gets a `seen`) and txn 1 is redelivered under the new key `k12`, whose rows are written before
its commit is seen; two emits, both of which report progress. -/
def exTrace : List Op :=
  [.written 1 11 2, .written 1 12 1, .seen 1 12 1 100 true, .emit,
   .seen 2 23 1 200 true, .written 2 23 1, .emit]

theorem exTrace_contract : Contract exTrace :=
  PgBifrost.Spec.Ledger.checkContract_sound (by decide)

theorem exTrace_noStale : NoStale exTrace :=
  PgBifrost.Spec.Ledger.checkNoStale_sound (by decide)

/-- all hypotheses of `ledger_emit_safe_partial` hold together on `exTrace`, at both emits -/
example :
    7 ≤ exTrace.length ∧ Contract exTrace ∧ NoStale exTrace ∧
    (∃ s, exTrace[3]? = some Op.emit ∧ PgBifrost.Ledger.run (exTrace.take 3) = some s ∧
      PgBifrost.Ledger.emitVal s = some 100 ∧
      exTrace[2]? = some (Op.seen 1 12 1 100 true) ∧ 100 ≤ 100 ∧ wsum (exTrace.take 3) 12 = 1) ∧
    (∃ s, exTrace[6]? = some Op.emit ∧ PgBifrost.Ledger.run (exTrace.take 6) = some s ∧
      PgBifrost.Ledger.emitVal s = some 200 ∧
      exTrace[4]? = some (Op.seen 2 23 1 200 true) ∧ 200 ≤ 200 ∧ wsum (exTrace.take 6) 23 = 1) :=
  ⟨by decide, exTrace_contract, exTrace_noStale,
   ⟨⟨[⟨1, 12, 100, 1, 1⟩], [(1, 12)]⟩, by decide⟩,
   ⟨⟨[⟨2, 23, 200, 1, 1⟩], [(2, 23)]⟩, by decide⟩⟩

/-- the theorem applied to the second emit of `exTrace` (for the first transaction's delivery) -/
example : wsum (exTrace.take 6) 12 = 1 :=
  ledger_emit_safe_partial exTrace_contract exTrace_noStale (n := 6) (v := 200)
    (s := ⟨[⟨2, 23, 200, 1, 1⟩], [(2, 23)]⟩) (by decide) (by decide) (by decide)
    (i := 2) (t := 1) (k := 12) (tot := 1) (c := 100) (by decide) (by decide)

example : (PgBifrost.Ledger.run (exTrace.take 7)).isSome :=
  ledger_never_panics_partial exTrace_contract exTrace_noStale 7

/-! ### the full statement (without `NoStale`) is false -/

/-- F1 witness: `k11` is a stale key of txn 1 that shows up after `k12` was committed. Its
`written` makes the ledger drop the committed-but-unwritten entry `k12`, and the next emit
acknowledges 200 ≥ 100 although none of `k12`'s 3 rows are written. -/
def staleTrace : List Op :=
  [.seen 1 12 3 100 true, .seen 2 23 1 200 true, .written 1 11 2, .written 2 23 1, .emit]

/-- **`NoStale` cannot be dropped** from `ledger_emit_safe_partial`: a contract-respecting trace
on which the faithful model emits `v` while a real delivery committed at `c ≤ v` is incomplete. -/
theorem ledger_emit_unsafe_witness :
    ∃ (tr : List Op) (n v : Nat) (s : PgBifrost.Ledger.State) (i t k tot c : Nat),
      Contract tr ∧ tr[n]? = some Op.emit ∧
      PgBifrost.Ledger.run (tr.take n) = some s ∧ PgBifrost.Ledger.emitVal s = some v ∧
      tr[i]? = some (Op.seen t k tot c true) ∧ c ≤ v ∧ wsum (tr.take n) k < tot :=
  ⟨staleTrace, 4, 200, ⟨[⟨2, 23, 200, 1, 1⟩, ⟨1, 11, 0, 2, 0⟩], [(2, 23), (1, 11)]⟩, 0, 1, 12, 3, 100,
    PgBifrost.Spec.Ledger.checkContract_sound (by decide), by decide, by decide, by decide,
    by decide, by decide, by decide⟩

/-- and indeed the monitor for `NoStale` rejects it -/
example : PgBifrost.Spec.Ledger.checkNoStale staleTrace = false := by decide

end PgBifrost.Props.C01
