import PgBifrost.Proofs.BatcherBuilt
import PgBifrost.Gen.FactoryOpts
import PgBifrost.Proofs.BatcherDrops
import PgBifrost.Gen.Consts
import PgBifrost.Gen.BatcherSwitch
import PgBifrost.Gen.KinesisAdd
import PgBifrost.Gen.OtherAdds
/-!
# C15 — batches respect the sink's hard limits

Per-kind invariants of `Add` (for ANY sequence of `Add` calls starting from a fresh batch, whatever
the answers), and their lift to every batch the batcher dispatches or keeps open.
-/
namespace PgBifrost.Props.C15
open PgBifrost.Batch PgBifrost.Batcher

/-- **8a. Kinesis limits.** Any batch obtained by folding `KinesisBatch.Add` over any messages from a
fresh batch has at most `R` records, its `bytes` is the sum of `|data| + |partition key|` over its
records and is at most `B`, and every record is within the per-record limit `S` and has a
non-empty Kinesis partition key. -/
theorem kinesis_batch_limits (R B S : Nat) (meth : KinesisMethod) (pk : PKey) (adds : List Msg) :
    let b := foldAdd (kinesisKind R B S meth) (fresh pk) adds
    b.payload.length ≤ R ∧
    b.bytes = (b.payload.map fun m => m.size + kinesisKeyLen meth m).sum ∧
    b.bytes ≤ B ∧
    ∀ m ∈ b.payload, m.size ≤ S ∧ kinesisKeyLen meth m ≠ 0 := by
  have h := foldAdd_inv _ (KinesisOK R B S meth) (kinesisOK_add R B S meth) adds _ (kinesisOK_fresh R B S meth pk)
  exact ⟨h.count, h.bytes_eq, h.bytes_le, h.each⟩

/-- **8b. Generic batch**: at most `n` records, `bytes` is the sum of the record sizes. -/
theorem generic_count_limit (n : Nat) (pk : PKey) (adds : List Msg) :
    let b := foldAdd (genericKind n) (fresh pk) adds
    b.payload.length ≤ n ∧ b.bytes = (b.payload.map (·.size)).sum := by
  have h := foldAdd_inv _ (GenericOK n) (genericOK_add n) adds _ (genericOK_fresh n pk)
  exact ⟨h.count, h.bytes_eq⟩

/-- **8c. Kafka batch**: at most `n` records, every record's `ByteSize` is within `maxBytes`. -/
theorem kafka_limits (n maxBytes : Nat) (pk : PKey) (adds : List Msg) :
    let b := foldAdd (kafkaKind n maxBytes) (fresh pk) adds
    b.payload.length ≤ n ∧ b.bytes = (b.payload.map (·.size)).sum ∧ ∀ m ∈ b.payload, m.ksize ≤ maxBytes := by
  have h := foldAdd_inv _ (KafkaOK n maxBytes) (kafkaOK_add n maxBytes) adds _ (kafkaOK_fresh n maxBytes pk)
  exact ⟨h.count, h.bytes_eq, h.each⟩

variable {K : Kind} {big bad : Msg → Bool} {dom : Msg → Prop}

/-- every dispatched / self-reported / open batch of a run is `foldAdd K (fresh pkey) adds` for some
list `adds` of data messages of its own partition key -/
theorem batches_are_folds (hL : Laws K big bad dom) (cfg : Cfg) (ops : List Op)
    (hdom : ∀ m ∈ dataMsgs ops, dom m) :
    (∀ b ∈ dispatched (run K cfg ops).2, ∃ adds, b = foldAdd K (fresh b.pkey) adds ∧
        ∀ m ∈ adds, m.pkey = b.pkey ∧ m.op = .data) ∧
    (∀ k b, getOpen (run K cfg ops).1 k = some b → ∃ adds, b = foldAdd K (fresh k) adds ∧
        ∀ m ∈ adds, m.pkey = k ∧ m.op = .data) := by
  obtain ⟨h1, _, h3⟩ := run_built hL cfg ops hdom
  refine ⟨fun b hb => ?_, fun k b hb => ?_⟩
  · obtain ⟨⟨adds, hB⟩, _⟩ := h1 b hb
    exact ⟨adds, hB.eq_foldAdd hL⟩
  · obtain ⟨⟨adds, hB⟩, hk⟩ := h3 k b hb
    subst hk
    exact ⟨adds, hB.eq_foldAdd hL⟩

/-- **8d. Lift**: any invariant `Q` of `Add` that holds for fresh batches holds for every batch the
batcher dispatches and every batch it keeps open (every run, dead or not). -/
theorem dispatched_respect_limits (hL : Laws K big bad dom) (cfg : Cfg) (ops : List Op)
    (hdom : ∀ m ∈ dataMsgs ops, dom m) (Q : Batch → Prop) (hfresh : ∀ pk, Q (fresh pk))
    (hstep : ∀ b m, Q b → Q (K.add b m).2) :
    (∀ b ∈ dispatched (run K cfg ops).2, Q b) ∧ (∀ k b, getOpen (run K cfg ops).1 k = some b → Q b) := by
  obtain ⟨h1, _, h3⟩ := run_built hL cfg ops hdom
  refine ⟨fun b hb => ?_, fun k b hb => ?_⟩
  · obtain ⟨⟨adds, hB⟩, _⟩ := h1 b hb
    exact hB.inv Q hfresh hstep
  · obtain ⟨⟨adds, hB⟩, _⟩ := h3 k b hb
    exact hB.inv Q hfresh hstep

/-- 8d for Kinesis with the documented constants: every dispatched batch has 1…500 records, at most
5 MiB counting partition keys, every record at most 1 MiB. -/
theorem kinesis_dispatched_limits (meth : KinesisMethod) (cfg : Cfg) (ops : List Op)
    (hdom : ∀ m ∈ dataMsgs ops, kinesisFits (5*1024*1024) (1024*1024) meth m) :
    ∀ b ∈ dispatched (run (kinesisKind 500 (5*1024*1024) (1024*1024) meth) cfg ops).2,
      b.payload ≠ [] ∧ b.payload.length ≤ 500 ∧
      (b.payload.map fun m => m.size + kinesisKeyLen meth m).sum ≤ 5*1024*1024 ∧
      ∀ m ∈ b.payload, m.size ≤ 1024*1024 ∧ kinesisKeyLen meth m ≠ 0 := by
  intro b hb
  have hL := kinesisLaws 500 (5*1024*1024) (1024*1024) meth (by omega)
  have h := (dispatched_respect_limits hL cfg ops hdom (KinesisOK 500 (5*1024*1024) (1024*1024) meth)
    (kinesisOK_fresh _ _ _ _) (kinesisOK_add _ _ _ _)).1 b hb
  exact ⟨((run_built hL cfg ops hdom).1 b hb).2, h.count, by rw [← h.bytes_eq]; exact h.bytes_le, h.each⟩

theorem generic_dispatched_limits (n : Nat) (hn : 1 ≤ n) (cfg : Cfg) (ops : List Op) :
    ∀ b ∈ dispatched (run (genericKind n) cfg ops).2, b.payload ≠ [] ∧ b.payload.length ≤ n := by
  intro b hb
  have hL := genericLaws n hn
  have h := (dispatched_respect_limits hL cfg ops (fun _ _ => trivial) (GenericOK n)
    (genericOK_fresh _) (genericOK_add _)).1 b hb
  exact ⟨((run_built hL cfg ops (fun _ _ => trivial)).1 b hb).2, h.count⟩

theorem kafka_dispatched_limits (n maxBytes : Nat) (hn : 1 ≤ n) (cfg : Cfg) (ops : List Op) :
    ∀ b ∈ dispatched (run (kafkaKind n maxBytes) cfg ops).2,
      b.payload ≠ [] ∧ b.payload.length ≤ n ∧ ∀ m ∈ b.payload, m.ksize ≤ maxBytes := by
  intro b hb
  have hL := kafkaLaws n maxBytes hn
  have h := (dispatched_respect_limits hL cfg ops (fun _ _ => trivial) (KafkaOK n maxBytes)
    (kafkaOK_fresh _ _) (kafkaOK_add _ _)).1 b hb
  exact ⟨((run_built hL cfg ops (fun _ _ => trivial)).1 b hb).2, h.count, h.each⟩

/-- **9a. `cant_fit_not_lost`.** One `onMsg` step for a data message `m` (in `dom`) whose `Add` on the
key's open batch `cur = (prep K cfg s m).2.1` answers can't-fit: the step's events are those of the
preparation, then `sendBatch` of `cur` (unchanged), then at most a stat; and the key's new open batch
has `m` as its first and only record — unless `m` is invalid, in which case it is dropped
(`dropped_msg_invalid`) and the new open batch is the fresh one. -/
theorem cant_fit_not_lost (hL : Laws K big bad dom) (cfg : Cfg) (s : State) (m : Msg) (hd : m.op = .data)
    (hdom : dom m) {x : Batch} (h : K.add (prep K cfg s m).2.1 m = (.cantFit, x)) :
    (∃ st, (onMsg K cfg s m).2 =
        (prep K cfg s m).2.2 ++ (sendBatch cfg (prep K cfg s m).1 (prep K cfg s m).2.1).2 ++ st ∧
        dispatched st = [] ∧ selfReported st = []) ∧
    ∃ b2, getOpen (onMsg K cfg s m).1 m.pkey = some b2 ∧ b2.pkey = m.pkey ∧
      (bad m = false → b2.payload = [m]) ∧ (bad m = true → b2 = fresh m.pkey) :=
  cant_fit_step hL cfg s m hd hdom h

/-- **9b. `too_big_counted`.** One `onMsg` step for a data message `m` whose `Add` answers too-big: `m`
is `big`; the step emits, after the preparation's events, exactly `stat "dropped_too_big"` (nothing
is dispatched for it); the key's open batch keeps its payload (the record is in no payload) but its
`txns` count for `m`'s delivery key grows by one (other keys unchanged); and `total` counts it. -/
theorem too_big_counted (hL : Laws K big bad dom) (cfg : Cfg) (s : State) (m : Msg) (hd : m.op = .data)
    {b' : Batch} (h : K.add (prep K cfg s m).2.1 m = (.tooBig, b')) :
    big m = true ∧
    (onMsg K cfg s m).2 = (prep K cfg s m).2.2 ++ [.stat "dropped_too_big"] ∧
    getOpen (onMsg K cfg s m).1 m.pkey = some b' ∧
    b'.payload = (prep K cfg s m).2.1.payload ∧
    (∀ key, countOf b'.txns key = countOf (prep K cfg s m).2.1.txns key + (if m.key = key then 1 else 0)) ∧
    (onMsg K cfg s m).1.total = (if s.curKey = some m.key then s.total else 0) + 1 :=
  too_big_step hL cfg s m hd h

/-- 9b, globally: no over-size or invalid record is ever in a dispatched or open payload. -/
theorem payload_only_good (hL : Laws K big bad dom) (cfg : Cfg) (ops : List Op)
    (hdom : ∀ m ∈ dataMsgs ops, dom m) :
    (∀ b ∈ dispatched (run K cfg ops).2, ∀ m ∈ b.payload, big m = false ∧ bad m = false) ∧
    (∀ k b, getOpen (run K cfg ops).1 k = some b → ∀ m ∈ b.payload, big m = false ∧ bad m = false) := by
  obtain ⟨h1, _, h3⟩ := run_built hL cfg ops hdom
  refine ⟨fun b hb m hm => ?_, fun k b hb m hm => ?_⟩
  · obtain ⟨⟨adds, hB⟩, _⟩ := h1 b hb
    rw [hB.payload hL, List.mem_filter] at hm
    simpa using hm.2
  · obtain ⟨⟨adds, hB⟩, _⟩ := h3 k b hb
    rw [hB.payload hL, List.mem_filter] at hm
    simpa using hm.2

/-! ### not vacuous -/
example (pk : PKey) (adds : List Msg) := kinesis_batch_limits 500 (5*1024*1024) (1024*1024) .walStart pk adds
example (pk : PKey) (adds : List Msg) := generic_count_limit 3 pk adds
example (pk : PKey) (adds : List Msg) := kafka_limits 1000 1000000 pk adds
example (cfg : Cfg) (ops : List Op) := generic_dispatched_limits 3 (by omega) cfg ops
example (cfg : Cfg) (ops : List Op) (h : ∀ m ∈ dataMsgs ops, kinesisKeyLen .batch m ≤ 256) :=
  kinesis_dispatched_limits .batch cfg ops (fun m hm hs => by have := h m hm; omega)


/-- a concrete can't-fit: Kinesis batch limit 100 bytes, records of 60 bytes + 3-digit LSN key -/
example :
    let K := kinesisKind 500 100 80 .walStart
    let m1 : Msg := ⟨.data, [1], 7, 70, 60, 100, 1, 0⟩
    let m2 : Msg := ⟨.data, [1], 7, 70, 60, 101, 2, 0⟩
    let cfg : Cfg := ⟨2, .partition, 1000, 5000, 1000000⟩
    let s := (run K cfg [.msg m1]).1
    ∃ b2, getOpen (onMsg K cfg s m2).1 m2.pkey = some b2 ∧ b2.payload = [m2] := by
  intro K m1 m2 cfg s
  obtain ⟨_, b2, h1, _, h3, _⟩ := cant_fit_not_lost (kinesisLaws 500 100 80 .walStart (by omega)) cfg s m2 rfl
    (by intro _; decide) (x := (prep K cfg s m2).2.1) (by decide)
  exact ⟨b2, h1, h3 (by decide)⟩

/-- a concrete too-big: per-record limit 80 bytes, a record of 90 bytes -/
example :
    let K := kinesisKind 500 100 80 .walStart
    let m1 : Msg := ⟨.data, [1], 7, 70, 90, 100, 1, 0⟩
    let cfg : Cfg := ⟨2, .partition, 1000, 5000, 1000000⟩
    (onMsg K cfg {} m1).2 = [.stat "dropped_too_big"] ∧ (onMsg K cfg {} m1).1.total = 1 := by
  intro K m1 cfg
  obtain ⟨_, h2, _, _, _, h6⟩ := too_big_counted (kinesisLaws 500 100 80 .walStart (by omega)) cfg {} m1 rfl
    (b' := (K.add (prep K cfg {} m1).2.1 m1).2) (by decide)
  exact ⟨h2, h6⟩

/-- the limits the theorems above are instantiated with are the ones in the source (constants
regenerated from `kinesis/batch/batch.go` on every run) and the ones AWS documents -/
theorem limits_are_the_documented_ones :
    PgBifrost.Gen.Consts.kinesisMaxRecords = 500 ∧
    PgBifrost.Gen.Consts.kinesisMaxBatchBytes = 5 * 1024 * 1024 ∧
    PgBifrost.Gen.Consts.kinesisMaxRecordBytes = 1024 * 1024 := by decide

/-- the batcher's reaction per error class is the modelled one (switch regenerated from
`batcher.go addToBatch` on every run): can't-fit → resend on a fresh batch, too-big and invalid
→ drop with their statistic, anything else → fatal -/
theorem reaction_per_error_class :
    PgBifrost.Gen.BatcherSwitch.errorSwitch =
      [("ERR_CANT_FIT", "resendOnFreshBatch"), ("ERR_MSG_TOOBIG", "drop:dropped_too_big"),
       ("ERR_MSG_INVALID", "drop:dropped_msg_invalid"), ("default", "fatal")] ∧
    PgBifrost.Gen.Consts.eRR_FULL = "batch is full" := by decide

/-! ## `KinesisBatch.Add` is the chain of checks in the source

`Gen/KinesisAdd.lean` is TRANSLATED on every run from `KinesisBatch.Add` / `IsFull`: the guarded
`return false, errors.New(transport.ERR_…)` statements in source order with their conditions, and whether
`progress.UpdateTransactions` ran before returning. The batch model answers exactly like it: a reordered
check, a `>` turned into `>=`, a key length left out of the size, a drop that is no longer counted — each
breaks this theorem. -/
section source
open PgBifrost.Gen.KinesisAdd

def className : AddRes → String
  | .ok => "ok" | .full => "ERR_FULL" | .cantFit => "ERR_CANT_FIT" | .tooBig => "ERR_MSG_TOOBIG" | .invalid => "ERR_MSG_INVALID"

theorem kinesis_add_as_in_source (R B S : Nat) (meth : KinesisMethod) (b : Batch) (m : Msg) :
    let r := (kinesisKind R B S meth).add b m
    let src := Gen.KinesisAdd.add false (kinesisKeyLen meth m != 0) m.size (kinesisKeyLen meth m) b.bytes b.payload.length S B R
    className r.1 = src.1 ∧
    -- the transaction count moves exactly when the source calls UpdateTransactions
    (r.2.txns = if src.2 then updateTxns b.txns m else b.txns) ∧
    ((kinesisKind R B S meth).isFull b = Gen.KinesisAdd.isFull b.payload.length R) := by
  simp only [kinesisKind, Gen.KinesisAdd.add, Gen.KinesisAdd.isFull]
  by_cases h1 : S < m.size
  · simp [h1, className]
  · by_cases h2 : R ≤ b.payload.length
    · simp [h1, h2, className]
    · by_cases h3 : B < m.size + kinesisKeyLen meth m + b.bytes
      · simp [h1, h2, h3, className]
      · by_cases h4 : kinesisKeyLen meth m = 0
        · have h3' : ¬ B < m.size + b.bytes := by rw [h4] at h3; simpa using h3
          simp [h1, h2, h4, h3', className]
        · simp [h1, h2, h3, h4, className]

/-- the generic batch (S3, RabbitMQ, stdout workers) answers like the translated `GenericBatch.Add` / `IsFull` -/
theorem generic_add_as_in_source (n : Nat) (b : Batch) (m : Msg) :
    let r := (genericKind n).add b m
    let src := Gen.OtherAdds.genericAdd false b.payload.length n
    (r.1 = .full ↔ src.1 = "batch is full") ∧ (r.1 = .ok ↔ src.1 = "ok") ∧
    (r.2.txns = if src.2 then updateTxns b.txns m else b.txns) ∧
    ((genericKind n).isFull b = Gen.OtherAdds.genericIsFull b.payload.length n) := by
  simp only [genericKind, Gen.OtherAdds.genericAdd, Gen.OtherAdds.genericIsFull]
  by_cases h : b.payload.length = n <;> simp [h]

/-- the Kafka batch answers like the translated `KafkaBatch.Add` / `IsFull`, and the producer's size check sees
the message with its key (`m.ksize` is `ByteSize(2)` of the keyed message, measured by the harness) -/
theorem kafka_add_as_in_source (n maxBytes : Nat) (b : Batch) (m : Msg) :
    let r := (kafkaKind n maxBytes).add b m
    let src := Gen.OtherAdds.kafkaAdd false b.payload.length n m.ksize maxBytes
    (r.1 = .full ↔ src.1 = "batch is full") ∧ (r.1 = .tooBig ↔ src.1 = "ERR_MSG_TOOBIG") ∧ (r.1 = .ok ↔ src.1 = "ok") ∧
    (r.2.txns = if src.2 then updateTxns b.txns m else b.txns) ∧
    ((kafkaKind n maxBytes).isFull b = Gen.OtherAdds.kafkaIsFull b.payload.length n) ∧
    Gen.OtherAdds.kafkaKeySetBeforeSizeCheck = true := by
  simp only [kafkaKind, Gen.OtherAdds.kafkaAdd, Gen.OtherAdds.kafkaIsFull]
  by_cases h : b.payload.length = n
  · simp [h]; decide
  · by_cases h2 : maxBytes < m.ksize
    · simp [h, h2]; decide
    · simp [h, h2]; decide

end source

/-- The sink factories as written: inside each factory function every local is traced back to the option it was read
from, and every constructor call, batch-factory literal and sarama configuration assignment is listed with its
arguments resolved to those options. Each limit reaches its consumer from the option of its OWN name - the Kafka batch
factory's per-message limit from `kafka-max-message-bytes` and its record count from `kafka-batch-size`, the producer's
`MaxMessageBytes` from the same `kafka-max-message-bytes`, its flush threshold from `kafka-flush-bytes`; the S3 and RabbitMQ
batch factories' record count from their batch-size options; the workers get the stream / bucket / key space / exchange of
their own options, and the sync producer reports successes and errors. -/
theorem factory_options_as_in_source :
    PgBifrost.Gen.FactoryOpts.calls = [
      ("transport/transporters/kafka/factory.go:New", "producerConfig", ["opt:ConfVarKafkaTls", "opt:ConfVarKafkaClusterCA", "opt:ConfVarKafkaPrivateKey", "opt:ConfVarKafkaPublicKey", "opt:ConfVarKafkaFlushBytes", "opt:ConfVarKafkaFlushFrequency", "opt:ConfVarKafkaMaxMessageBytes", "opt:ConfVarKafkaRetryMax"]),
      ("transport/transporters/kafka/factory.go:New", "sarama.NewSyncProducer", ["[]string{bootstrapServer}", "config"]),
      ("transport/transporters/kafka/factory.go:New", "transporter.NewTransporter", ["shutdownHandler", "inputChans[i]", "statsChan", "txnsWritten", "*log", "syncProducer", "opt:ConfVarKafkaTopic"]),
      ("transport/transporters/kafka/factory.go:NewBatchFactory", "KafkaBatchFactory{}", ["opt:ConfVarKafkaTopic", "opt:ConfVarKafkaMaxMessageBytes", "opt:ConfVarKafkaBatchSize", "partMethod"]),
      ("transport/transporters/kinesis/factory.go:New", "transporter.NewTransporter", ["shutdownHandler", "inputChans[i]", "txnsWritten", "statsChan", "*log", "i", "opt:ConfVarStreamName", "retryPolicy", "&opt:ConfVarAwsRegion", "&opt:ConfVarAwsAccessKeyId", "&opt:ConfVarAwsSecretAccessKey", "&opt:ConfVarEndpoint"]),
      ("transport/transporters/kinesis/factory.go:NewBatchFactory", "KinesisBatchFactory{}", ["kinesisPartMethod"]),
      ("transport/transporters/s3/factory.go:New", "transporter.NewTransporter", ["shutdownHandler", "inputChans[i]", "txnsWritten", "statsChan", "*log", "i", "opt:ConfVarBucketName", "opt:ConfVarKeySpace", "retryPolicy", "&opt:ConfVarAwsRegion", "&opt:ConfVarAwsAccessKeyId", "&opt:ConfVarAwsSecretAccessKey", "&opt:ConfVarEndpoint", "opt:ConfVarBufMaxRuse"]),
      ("transport/transporters/s3/factory.go:NewBatchFactory", "batch.NewGenericBatchFactory", ["opt:ConfVarPutBatchSize"]),
      ("transport/transporters/rabbitmq/factory.go:New", "transporter.NewConnectionManager", ["opt:ConfVarURL", "log", "makeDialer(amqpURL)"]),
      ("transport/transporters/rabbitmq/factory.go:New", "makeDialer", ["opt:ConfVarURL"]),
      ("transport/transporters/rabbitmq/factory.go:New", "transporter.NewTransporter", ["shutdownHandler", "inputChans[i]", "txnsWritten", "statsChan", "*log", "i", "opt:ConfVarExchangeName", "connMan", "opt:ConfVarWriteBatchSize", "retryPolicy"]),
      ("transport/transporters/rabbitmq/factory.go:NewBatchFactory", "batch.NewGenericBatchFactory", ["opt:ConfVarWriteBatchSize"])
    ] ∧
    PgBifrost.Gen.FactoryOpts.producerParams = ["kafkaTLS", "clusterCA", "clientPrivateKey", "clientPublicKey", "kafkaFlushBytes", "kafkaFlushFrequency", "maxMessageBytes", "kafkaRetryMax"] ∧
    PgBifrost.Gen.FactoryOpts.producerConf = [
      ("config.Version", "sarama.V3_0_0_0"),
      ("config.ChannelBufferSize", "256"),
      ("config.Net.DialTimeout", "10 * time.Second"),
      ("config.Net.ReadTimeout", "10 * time.Second"),
      ("config.Net.WriteTimeout", "10 * time.Second"),
      ("config.Producer.Flush.Bytes", "kafkaFlushBytes"),
      ("config.Producer.Flush.Frequency", "time.Duration(kafkaFlushFrequency) * time.Millisecond"),
      ("config.Producer.Return.Successes", "true"),
      ("config.Producer.Return.Errors", "true"),
      ("config.Producer.Compression", "sarama.CompressionSnappy"),
      ("config.Producer.MaxMessageBytes", "maxMessageBytes"),
      ("config.Producer.Retry.Backoff", "500 * time.Millisecond"),
      ("config.Producer.Partitioner", "sarama.NewHashPartitioner"),
      ("config.Metadata.Full", "false"),
      ("config.Metadata.RefreshFrequency", "5 * time.Minute"),
      ("config.Metadata.Timeout", "20 * time.Second"),
      ("config.Metadata.Retry.Max", "kafkaRetryMax"),
      ("config.Metadata.Retry.BackoffFunc", "metadataBackoff")
    ] := ⟨rfl, rfl, rfl⟩

end PgBifrost.Props.C15
