import PgBifrost.Proofs.Kafka
import PgBifrost.Gen.Consts
import PgBifrost.Gen.KafkaSrc
/-!
# C14 — Kafka: written only on full producer success, otherwise fail-stop

Statements about `KafkaSend.worker`/`processBatch` (transporter), `KafkaSend.add`/`build` (message
construction) and `Batch.kafkaKind` (the count/size rule shared with the batcher model).
-/
namespace PgBifrost.Props.C14
open PgBifrost.KafkaSend PgBifrost.Spec.Kafka PgBifrost.Batch PgBifrost.Proofs.Kafka

/-- **written ⇔ the producer accepted every message and shutdown was not requested first.**
For every batch the worker handles: something is sent on `txnsWritten` iff `SendMessages` was called on
the batch's whole payload and returned nil (which excludes the context having been cancelled before);
and what is sent is that batch's own transactions. -/
theorem kafka_written_iff_all_ok (jobs : List Job) (k : Nat) (rep : Report)
    (h : (worker jobs)[k]? = some rep) :
    ∃ j, jobs[k]? = some j ∧
      (rep.result = .written ↔ j.out = .accepted) ∧
      (rep.reported.isSome ↔ j.out = .accepted) ∧
      (∀ t, rep.reported = some t → t = j.txns ∧ rep.sent = some j.payload) ∧
      ((∃ b, j.out = .cancelled b) → rep.sent = none) := by
  induction jobs generalizing k with
  | nil => simp [worker] at h
  | cons j js ih =>
    rw [worker] at h
    cases k with
    | zero =>
      have hrep : rep = processBatch j := by
        split at h <;> simpa using h.symm
      subst hrep
      refine ⟨j, by simp, ?_⟩
      unfold processBatch
      cases j.out with
      | accepted => simp
      | rejected idxs => simp
      | otherError => simp
      | cancelled b => cases b <;> simp
    | succ k =>
      split at h
      · simp only [List.getElem?_cons_succ] at h
        simpa using ih k h
      · simp at h

example : (worker [⟨[⟨.none, 1, 8⟩], [⟨1, 1, 1⟩], .accepted⟩, ⟨[⟨.none, 2, 8⟩], [⟨2, 2, 1⟩], .rejected [0]⟩,
                   ⟨[⟨.none, 3, 8⟩], [⟨3, 3, 1⟩], .accepted⟩]).map (fun r => (r.result, r.reported))
    = [(.written, some [⟨1, 1, 1⟩]), (.rejected, none)] := by decide

/-- **fail-stop.** If the producer reports failed messages (any subset, even an empty error list), or
returns another kind of error (the type assertion panics), or shutdown was requested first, then for that
batch nothing is sent on `txnsWritten` (and no `written` stat), the worker returns (`terminated`: its
`shutdown` cancels the process context) and no later batch is touched. -/
theorem kafka_failstop (jobs : List Job) (k : Nat) (j : Job)
    (hj : jobs[k]? = some j) (hout : j.out ≠ .accepted)
    (hprev : ∀ i j', i < k → jobs[i]? = some j' → j'.out = .accepted) :
    (worker jobs).length = k + 1 ∧ terminated jobs = true ∧
    ∃ rep, (worker jobs)[k]? = some rep ∧ rep.reported = none ∧ rep.writtenStat = none ∧ rep.result ≠ .written := by
  induction jobs generalizing k with
  | nil => simp at hj
  | cons j0 js ih =>
    unfold terminated
    rw [worker]
    cases k with
    | zero =>
      simp only [List.getElem?_cons_zero, Option.some.injEq] at hj
      subst hj
      have hne : (processBatch j0).result ≠ .written ∧ (processBatch j0).reported = none ∧
          (processBatch j0).writtenStat = none := by
        unfold processBatch
        cases h : j0.out with
        | accepted => exact absurd h hout
        | rejected idxs => simp
        | otherError => simp
        | cancelled b => cases b <;> simp
      simp [hne.1, hne.2.1, hne.2.2]
    | succ k =>
      have h0 : j0.out = .accepted := hprev 0 j0 (by omega) (by simp)
      have hw : (processBatch j0).result = .written := by simp [processBatch, h0]
      simp only [List.getElem?_cons_succ] at hj
      obtain ⟨h1, h2, rep, h3, h4⟩ := ih k hj (fun i j' hi hij => hprev (i + 1) j' (by omega) (by simpa using hij))
      simp only [hw, if_true, List.length_cons, List.any_cons, List.getElem?_cons_succ]
      refine ⟨by omega, ?_, rep, h3, h4⟩
      simp
      exact ⟨rep, List.mem_of_getElem? h3, h4.2.2⟩

example : terminated [⟨[], [], .accepted⟩, ⟨[], [], .otherError⟩] = true ∧
    (worker [⟨[], [], .accepted⟩, ⟨[], [], .otherError⟩, ⟨[], [], .accepted⟩]).length = 2 := by decide

/-- only non-accepted outcomes end the worker: while the producer accepts, every batch is handled -/
theorem kafka_no_stop_without_cause (jobs : List Job) (h : ∀ j ∈ jobs, j.out = .accepted) :
    terminated jobs = false ∧ (worker jobs).length = jobs.length := by
  induction jobs with
  | nil => simp [terminated, worker]
  | cons j js ih =>
    have h0 : j.out = .accepted := h j (by simp)
    have hw : (processBatch j).result = .written := by simp [processBatch, h0]
    obtain ⟨h1, h2⟩ := ih (fun j' hj' => h j' (by simp [hj']))
    unfold terminated at h1 ⊢
    rw [worker]
    simp [hw, h2]
    simpa using h1

/-! ### message construction -/

/-- **key per method, value = JSON, too big ⇒ dropped but counted** (for a whole batch): whatever
messages are `Add`ed to a fresh batch, its payload is, in order, one message per counted data message
within the size limit, carrying the key the configured method dictates and the record's JSON; and its
transactions count every counted data message, including the dropped ones. -/
theorem kafka_key_by_method (c : Cfg) (uuid : Nat) (ms : List KMsg) :
    (build c uuid ms).msgs = expectedPayload c uuid ms ∧
    (build c uuid ms).core.txns = expectedTxns c ms ∧
    (∀ m : KMsg, keyOf .txn uuid m = .timeBased m.m.key ∧ keyOf .txnConst uuid m = .transaction m.m.txn ∧
      keyOf .batch uuid m = .batchUuid uuid ∧ keyOf .table uuid m = .table m.table ∧ keyOf .random uuid m = .none) ∧
    (∀ (meth : Method) (m : KMsg), (produce meth uuid m).valueId = m.m.id ∧ (produce meth uuid m).valueLen = m.m.size) := by
  refine ⟨?_, ?_, fun m => ⟨rfl, rfl, rfl, rfl, rfl⟩, fun _ _ => ⟨rfl, rfl⟩⟩
  · have := (foldl_add c ms { uuid := uuid } (by simp) (by simp)).1
    simpa [build, expectedPayload, counted] using this
  · have := (foldl_add c ms { uuid := uuid } (by simp) (by simp)).2
    simpa [build, expectedTxns, counted] using this

/-- non-vacuity: limit 50 bytes, batch size 2; message 2 is too big (dropped, counted), message 4 arrives
when the batch is full (not counted); method `tablename` -/
example :
    let mk (id key txn sz ks tbl : Nat) : KMsg := ⟨{ op := .data, pkey := [], txn := txn, key := key, size := sz, lsn := 0, id := id, ksize := ks }, tbl⟩
    let ms := [mk 1 1 1 10 46 7, mk 2 1 1 30 66 7, mk 3 2 2 10 46 8, mk 4 2 2 10 46 8]
    (build ⟨.table, 2, 50⟩ 0 ms).msgs = [⟨.table 7, 1, 10⟩, ⟨.table 8, 3, 10⟩] ∧
    (build ⟨.table, 2, 50⟩ 0 ms).core.txns = [⟨1, 1, 2⟩, ⟨2, 2, 1⟩] := by decide

/-- **too big ⇒ dropped but counted** (the rule in `Batch.kafkaKind`, which the batcher model uses too):
a message above the producer's limit offered to a batch that is not full is answered `tooBig`, does not
enter the payload, and the count of its delivery key in the batch's transactions goes up by one. (When
the batch is full the answer is `full` and nothing is touched, whatever the size.) -/
theorem kafka_toobig_counted (maxSize maxBytes : Nat) (b : Batch) (m : Msg)
    (hbig : maxBytes < m.ksize) (hroom : b.payload.length ≠ maxSize) :
    ((kafkaKind maxSize maxBytes).add b m).1 = .tooBig ∧
    ((kafkaKind maxSize maxBytes).add b m).2.payload = b.payload ∧
    ((kafkaKind maxSize maxBytes).add b m).2.txns = updateTxns b.txns m ∧
    txnCount ((kafkaKind maxSize maxBytes).add b m).2.txns m.key = txnCount b.txns m.key + 1 := by
  simp [kafkaKind, hroom, hbig, txnCount_updateTxns]

/-- the limit is inclusive: a message of exactly `maxMessageBytes` is kept -/
theorem kafka_limit_inclusive (maxSize maxBytes : Nat) (b : Batch) (m : Msg)
    (hfit : m.ksize ≤ maxBytes) (hroom : b.payload.length ≠ maxSize) :
    ((kafkaKind maxSize maxBytes).add b m).1 = .ok ∧
    ((kafkaKind maxSize maxBytes).add b m).2.payload = b.payload ++ [m] := by
  have : ¬ maxBytes < m.ksize := by omega
  simp [kafkaKind, hroom, this]

example :
    let m : Msg := { op := .data, pkey := [], txn := 5, key := 9, size := 100, lsn := 0, id := 1, ksize := 136 }
    ((kafkaKind 10 135).add (fresh []) m).1 = .tooBig ∧ ((kafkaKind 10 136).add (fresh []) m).1 = .ok := by decide

/-- **the method vocabulary is the documented one** (about the table regenerated from
`kafka/utils/kafka.go` on every run): the option names are exactly `batch`, `random`, `tablename`,
`transaction`, `transaction-constant`, each mapped to the constant the model's method of that name stands
for, and the constants are the five the model has. -/
theorem kafka_methods_as_documented :
    (Gen.Consts.kafkaNameToPartitionMethod.all fun p =>
        (Method.ofName p.1).map Method.constName == some p.2) = true ∧
    Gen.Consts.kafkaNameToPartitionMethod.map (·.1) =
      ["batch", "random", "tablename", "transaction", "transaction-constant"] ∧
    Gen.Consts.kafkaPartitionMethods = Method.all.map Method.constName := by decide

/-! ### the decidable spec used by the monitor accepts the model's histories and rejects broken ones -/

example :
    let mk (id key txn sz ks tbl : Nat) : KMsg := ⟨{ op := .data, pkey := [], txn := txn, key := key, size := sz, lsn := 0, id := id, ksize := ks }, tbl⟩
    let c : Cfg := ⟨.txn, 5, 50⟩
    let ms := [mk 1 1 1 10 46 7, mk 2 1 1 30 66 7]
    let b := build c 0 ms
    check c 0 ms b.msgs b.core.txns (some b.msgs) .accepted (some b.core.txns) false = .ok ∧
    check c 0 ms b.msgs b.core.txns (some b.msgs) (.rejected [0]) none true = .ok ∧
    -- reported although the producer rejected a message
    check c 0 ms b.msgs b.core.txns (some b.msgs) (.rejected [0]) (some b.core.txns) true
      = .viol "written-iff-producer-accepted-all" ∧
    -- wrong key for the method
    check c 0 ms [⟨.transaction 1, 1, 10⟩] b.core.txns (some [⟨.transaction 1, 1, 10⟩]) .accepted (some b.core.txns) false
      = .viol "key-or-value-or-drop-rule" ∧
    -- dropped message not counted
    check c 0 ms b.msgs [⟨1, 1, 1⟩] (some b.msgs) .accepted (some [⟨1, 1, 1⟩]) false
      = .viol "dropped-message-not-counted" ∧
    -- rejection without fail-stop
    check c 0 ms b.msgs b.core.txns (some b.msgs) (.rejected []) none false = .viol "no-fail-stop" := by decide

/-! ## the worker's iteration IS the source's (translator `tools/factgen/kafkatr.go`, regenerated every run) -/

/-- `sendBatchToKafka` and the loop body of `StartTransporting`, translated statement by statement in source
order, compute the model's `processBatch` for every batch and everything the world can do with it: the
duration stat precedes the error test, the error test precedes the cancellation test, and the written stat and
the hand-over of the batch's transactions to the progress channel come only after both. -/
theorem kafka_iteration_as_in_source (j : Job) : PgBifrost.Gen.KafkaSrc.iteration j = processBatch j := by
  obtain ⟨payload, txns, out⟩ := j
  cases out with
  | accepted => rfl
  | rejected idxs => rfl
  | otherError => rfl
  | cancelled atLoop => cases atLoop <;> rfl


end PgBifrost.Props.C14
