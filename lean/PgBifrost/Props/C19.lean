import PgBifrost.Proofs.Aggregator
import PgBifrost.Proofs.AggLoopSrc
import PgBifrost.Spec.Aggregator
import PgBifrost.Gen.AggSrc
/-!
# C19 — operational statistics are conserved by aggregation (property theorems)

About the model `PgBifrost.Aggregator` (Model/Aggregator.lean): ALL interleavings `ops` of the
ingest worker's `check`/`add` steps and the reporter's `scan` steps, all clock readings (not even
monotone), all windows, all timestamps.

The one hypothesis the proof forced: `KeyInjOn ids` — the aggregate key concatenates the four
identity fields without separator, so two identities may share an aggregate
(`agg_key_collision_witness`, `agg_collision_breaks_conservation`). It holds for every statistic
pg-bifrost itself emits (`agg_key_inj_table`, on the table regenerated from source on every run).
-/
namespace PgBifrost.Props.C19
open PgBifrost.Aggregator PgBifrost.Spec.Aggregator

/-- **Conservation.** For every interleaving, every identity and every window: what was reported
for that (identity, window) over all scans plus what is still held equals the sum of the values
inserted for it (= recorded and not dropped), and likewise for the NUMBER of statistics: nothing
is lost, nothing is counted twice — also across the check/scan/add race, where a bucket is reported,
re-created and reported again. -/
theorem agg_conservation (c : Cfg) (ids : List Ident) (hkey : KeyInjOn ids) (ops : List Op)
    (hids : ∀ s ∈ added ops, s.id ∈ ids) (id : Ident) (win : Int) :
    reportedValue (run c {} ops) id win + heldValue (run c {} ops) id win
        = sumBy Stat.value ((added ops).filter (Stat.isFor c id win))
    ∧ reportedCount (run c {} ops) id win + heldCount (run c {} ops) id win
        = ((added ops).filter (Stat.isFor c id win)).length := by
  constructor
  · have h := conservation_gen c ids hkey ops hids Agg.value Stat.value (fun a g => g.value) id win
    rw [filter_allAggs, sumBy_append] at h
    exact h
  · have h := conservation_gen c ids hkey ops hids Agg.count (fun _ => 1)
      (fun a g => by rw [g.count, sumBy_one]) id win
    rw [filter_allAggs, sumBy_append, sumBy_one] at h
    exact h

/-- **Exactly one window, or dropped late.** For every interleaving respecting the ingest
worker's sequencing (`wf`):
1. every recorded statistic (occurrence) is exactly one of: dropped, inserted, or still between
   its check and its insert (multiset equation);
2. the model's drop log is exactly the statistics whose window had expired at their own check
   (`now > bucket + window + grace`);
3. every inserted statistic (occurrence) is covered by exactly one aggregate among those reported
   and those held (multiset equation on the ghost cover lists);
4. and that aggregate carries the statistic's own bucket `window·(ts ÷ window)` as timestamp and
   the statistic's key. -/
theorem agg_exactly_one_window (c : Cfg) (ops : List Op) (hwf : wf c none ops = true) :
    (∀ s : Stat, (recorded ops).count s
        = ((droppedBy c ops).map (·.1)).count s + (added ops).count s
          + (pendingAfter c none ops).toList.count s)
    ∧ ((run c {} ops).dropped = droppedBy c ops
        ∧ ∀ p ∈ droppedBy c ops, Op.check p.1 p.2 ∈ ops ∧ p.2 > bucketOf c p.1.ts + c.window + c.grace)
    ∧ (∀ s : Stat, sumBy (fun a => (a.cov.count s : Int)) (allAggs (run c {} ops)) = (added ops).count s)
    ∧ (∀ a ∈ allAggs (run c {} ops), ∀ s ∈ a.cov,
        s ∈ added ops ∧ a.ts = bucketOf c s.ts ∧ aggKey a.id = aggKey s.id) := by
  refine ⟨?_, ⟨?_, ?_⟩, ?_, ?_⟩
  · intro s
    have := partition_wf c ops none hwf s
    simpa using this
  · simpa using dropped_run c ops {}
  · intro p hp
    obtain ⟨h1, h2⟩ := droppedBy_expired c ops p hp
    exact ⟨h1, by simpa [expired] using h2⟩
  · intro s
    have h := covSum_run (fun x => if x = s then (1 : Int) else 0) c ops {}
    simp only [covSum, sumBy_indicator] at h
    rw [h]
    simp [allAggs, heldAggs, sumBy]
  · intro a ha s hs
    have hinv := inv_run c (fun s => s ∈ added ops) ops {} (inv_init c _) (fun s h => h)
    obtain ⟨h1, h2, h3⟩ := (good_allAggs c _ _ hinv a ha).cov s hs
    exact ⟨h1, h3.symm, h2.symm⟩

/-- **Histogram reports.** Every histogram aggregate handed to the output channel, in every
interleaving, covers at least one inserted statistic, and its four output statistics are: the sum
of exactly the covered values, `trunc(sum / number)` (see the 2^53 caveat in the model: this is
what `int64(float64(sum)/float64(n))` computes), a maximum and a minimum of exactly these values
(`int64` values assumed, as `min`/`max` start from MaxInt64/MinInt64). -/
theorem agg_hist_minmaxavg (c : Cfg) (ops : List Op)
    (hrange : ∀ s ∈ added ops, InRange64 s.value) :
    ∀ a ∈ (run c {} ops).reports, a.id.typ = .histogram →
      a.cov ≠ [] ∧
      a.toStats =
        [⟨a.id, sumBy Stat.value a.cov, a.ts⟩,
         ⟨a.id.withSuffix "_avg", Int.tdiv (sumBy Stat.value a.cov) a.cov.length, a.ts⟩,
         ⟨a.id.withSuffix "_max", a.max, a.ts⟩,
         ⟨a.id.withSuffix "_min", a.min, a.ts⟩] ∧
      (∀ s ∈ a.cov, a.min ≤ s.value ∧ s.value ≤ a.max) ∧
      (∃ s ∈ a.cov, s.value = a.min) ∧ (∃ s ∈ a.cov, s.value = a.max) := by
  intro a ha ht
  have hinv := inv_run c (fun s => s ∈ added ops) ops {} (inv_init c _) (fun s h => h)
  have g := hinv.reports a ha
  have hr : ∀ s ∈ a.cov, InRange64 s.value := fun s hs => hrange s (g.cov s hs).1
  obtain ⟨hlo, hlow⟩ := g.lo ht hr
  obtain ⟨hhi, hhiw⟩ := g.hi ht hr
  obtain ⟨ha1, ha2⟩ := g.avg ht
  refine ⟨g.ne, ?_, fun s hs => ⟨hlo s hs, hhi s hs⟩, hlow, hhiw⟩
  simp only [Agg.toStats, ht, Agg.mainStat, Agg.avgInt, ha1, ha2, g.value, g.count]

/-- count reports: one output statistic carrying the sum of exactly the covered values -/
theorem agg_count_report (c : Cfg) (ops : List Op) :
    ∀ a ∈ (run c {} ops).reports, a.id.typ = .count →
      a.cov ≠ [] ∧ a.toStats = [⟨a.id, sumBy Stat.value a.cov, a.ts⟩] := by
  intro a ha ht
  have hinv := inv_run c (fun s => s ∈ added ops) ops {} (inv_init c _) (fun s h => h)
  have g := hinv.reports a ha
  exact ⟨g.ne, by simp only [Agg.toStats, ht, Agg.mainStat, g.value]⟩

/-! ### The window function itself (aggregator.go:170, `bucketOf`)

"Accounted in exactly one window" needs the windows to PARTITION time: the bucket a statistic is
filed under is the unique window-aligned interval `[b, b + window)` that contains its timestamp.
Stated for the timestamps the code produces (`time.Now().UnixNano()`, non-negative); for a
negative timestamp Go's truncating division rounds UP (`bucket_negative_timestamp_witness`), which
is why `0 ≤ ts` is a hypothesis and not dropped. -/

/-- the bucket of a statistic contains its timestamp -/
theorem bucket_contains_timestamp (c : Cfg) (ts : Int) (hw : 0 < c.window) (hts : 0 ≤ ts) :
    bucketOf c ts ≤ ts ∧ ts < bucketOf c ts + c.window := by
  unfold bucketOf
  have h1 := Int.mul_tdiv_add_tmod ts c.window
  have h2 := Int.tmod_nonneg c.window hts
  have h3 := Int.tmod_lt_of_pos ts hw
  omega

/-- … and it is the ONLY aligned window that does: windows never overlap -/
theorem bucket_unique (c : Cfg) (ts k : Int) (hw : 0 < c.window) (hts : 0 ≤ ts)
    (hk : c.window * k ≤ ts ∧ ts < c.window * k + c.window) : bucketOf c ts = c.window * k := by
  have hb := bucket_contains_timestamp c ts hw hts
  unfold bucketOf at *
  generalize Int.tdiv ts c.window = q at *
  have : q = k := by
    rcases Int.lt_trichotomy q k with h | h | h
    · have : c.window * (q + 1) ≤ c.window * k := Int.mul_le_mul_of_nonneg_left (by omega) (by omega)
      rw [Int.mul_add] at this; omega
    · exact h
    · have : c.window * (k + 1) ≤ c.window * q := Int.mul_le_mul_of_nonneg_left (by omega) (by omega)
      rw [Int.mul_add] at this; omega
  rw [this]

/-- a report's timestamp (the bucket start) is filed under the same window by a downstream
aggregation with the same window length -/
theorem bucket_idempotent (c : Cfg) (ts : Int) (hw : 0 < c.window) :
    bucketOf c (bucketOf c ts) = bucketOf c ts := by
  unfold bucketOf
  rw [Int.mul_tdiv_cancel_left _ (by omega)]

/-- later timestamps never land in an earlier window -/
theorem bucket_monotone (c : Cfg) (a b : Int) (hw : 0 < c.window) (hab : a ≤ b) :
    bucketOf c a ≤ bucketOf c b := by
  unfold bucketOf
  exact Int.mul_le_mul_of_nonneg_left (Int.tdiv_le_tdiv hw hab) (by omega)

/-- Go's truncating division rounds a negative timestamp UP: the hypothesis `0 ≤ ts` is needed -/
theorem bucket_negative_timestamp_witness :
    ¬ (bucketOf { window := 10 } (-3) ≤ -3) := by decide

example : bucketOf { window := 10 } 37 = 30 ∧ (0:Int) < 10 ∧ (0:Int) ≤ 37 := by decide

/-- **The key is injective on everything the pipeline emits** (generated table
`Gen.Stats.emitted`, every `stats.NewStatCount` / `stats.NewStatHistogram` call site; the key
function is the model's `aggKey`). Adding a colliding statistic to pg-bifrost breaks this theorem. -/
theorem agg_key_inj_table : KeyInjOn emittedIds := by decide +kernel

/-- every row of the generated table has one of the two statistic types the aggregator handles
without panicking, so `emittedIds` loses no row -/
theorem emitted_types_known :
    Gen.Stats.emitted.all (fun t => (ofTuple t).isSome) = true
    ∧ emittedIds.length = Gen.Stats.emitted.length := by decide +kernel

/-- On the output channel a histogram's `_avg`/`_max`/`_min` statistics carry the identity with a
suffixed name. No emitted identity is such a derived identity of another one, so grouping the
output by identity (as `reportedValue` does on the structured reports) is unambiguous. -/
theorem agg_no_derived_clash_table : NoDerivedClash emittedIds := by decide +kernel

/-- **The key is not injective in general**: ("ab","c") and ("a","bc") share an aggregate. -/
theorem agg_key_collision_witness :
    ¬ KeyInjOn [⟨"ab", "c", .count, "count"⟩, ⟨"a", "bc", .count, "count"⟩] := by decide

/-! ## Non-vacuity -/

def idA : Ident := ⟨"filter", "passed", .count, "count"⟩
def idH : Ident := ⟨"s3_transport", "duration", .histogram, "ms"⟩
def cfg10 : Cfg := { window := 10 }

/-- The race C19 worries about, window 10, grace 10^9: two statistics are held in bucket 100;
a third passes its check at a time the bucket is still open; the reporter's scan then finds the
bucket expired, reports and deletes it; the third statistic's insert RE-CREATES bucket 100, which a
later scan reports a second time. -/
def raceOps : List Op :=
  [ .check ⟨idA, 5, 101⟩ 100, .add ⟨idA, 5, 101⟩,
    .check ⟨idH, 7, 102⟩ 100, .add ⟨idH, 7, 102⟩,
    .check ⟨idH, -2, 109⟩ 1000000110, .add ⟨idH, -2, 109⟩,
    .check ⟨idA, 3, 109⟩ 1000000110,          -- passes: 1000000110 > 100+10+10^9 is false
    .scan [(100, 1000000111)],                -- bucket 100 reported (5; 5,2,7,-2) and deleted
    .add ⟨idA, 3, 109⟩,                       -- bucket 100 re-created
    .check ⟨idA, 9, 100⟩ 1000000111,          -- dropped: its window had closed
    .scan [(100, 1000000111)] ]               -- bucket 100 reported a second time (3)

/-- the race really happens in the model: two reports for (filter.passed, 100), 5 then 3, the
histogram reported as sum 5, avg 2, max 7, min −2; one statistic dropped; nothing held -/
example :
    ((run cfg10 {} raceOps).reports.map Agg.toStats =
      [[⟨idA, 5, 100⟩],
       [⟨idH, 5, 100⟩, ⟨idH.withSuffix "_avg", 2, 100⟩, ⟨idH.withSuffix "_max", 7, 100⟩, ⟨idH.withSuffix "_min", -2, 100⟩],
       [⟨idA, 3, 100⟩]])
    ∧ (run cfg10 {} raceOps).held = []
    ∧ (run cfg10 {} raceOps).dropped = [(⟨idA, 9, 100⟩, 1000000111)]
    ∧ wf cfg10 none raceOps = true := by decide

/-- … and conservation holds on it: 5 + 3 reported in two reports = 5 + 3 inserted -/
example : reportedValue (run cfg10 {} raceOps) idA 100 + heldValue (run cfg10 {} raceOps) idA 100 = 8
    ∧ sumBy Stat.value ((added raceOps).filter (Stat.isFor cfg10 idA 100)) = 8 := by decide

/-- the hypotheses of `agg_conservation` are satisfiable on it (identities from the generated table) -/
example : ∀ s ∈ added raceOps, s.id ∈ emittedIds := by decide +kernel

/-- the decidable spec used by the monitor accepts the model's history of the race … -/
example : ok cfg10 (historyOf cfg10 raceOps) = true := by decide +kernel

/-- … and is not vacuous: a history in which the re-created bucket's report is lost is rejected -/
example : ok cfg10 ((historyOf cfg10 raceOps).filter fun e => match e with
    | .scan [s] => !(s.value == 3) | _ => true) = false := by decide +kernel

/-- without `KeyInjOn` conservation per identity is FALSE in the model (as in the code): the two
colliding identities are merged into the aggregate of the first -/
theorem agg_collision_breaks_conservation :
    let ops : List Op :=
      [.add ⟨⟨"ab", "c", .count, "count"⟩, 1, 101⟩, .add ⟨⟨"a", "bc", .count, "count"⟩, 2, 102⟩,
       .scan [(100, 2000000000)]]
    reportedValue (run cfg10 {} ops) ⟨"ab", "c", .count, "count"⟩ 100 = 3
    ∧ reportedValue (run cfg10 {} ops) ⟨"a", "bc", .count, "count"⟩ 100 = 0 := by decide

/-- **the aggregate of the model is `aggregate.go`** (`aggregate_as_in_source`; the file is TRANSLATED on every
run): a new aggregate starts with minimum `MaxInt64` and maximum `MinInt64`; `update` adds to sum and count and,
for a histogram, lowers the minimum / raises the maximum by strict comparison and takes the average of the NEW
sum and count; `toStats` of a histogram adds `_avg`, `_max`, `_min` carrying exactly those fields. -/
theorem aggregate_as_in_source (a : PgBifrost.Aggregator.Agg) (s : PgBifrost.Aggregator.Stat) (t : Int) :
    PgBifrost.Gen.AggSrc.update a s = a.update s ∧
    (PgBifrost.Aggregator.newAgg s t).min = PgBifrost.Gen.AggSrc.initMin ∧
    (PgBifrost.Aggregator.newAgg s t).max = PgBifrost.Gen.AggSrc.initMax ∧
    (a.id.typ = .histogram → a.toStats = a.mainStat ::
        (PgBifrost.Gen.AggSrc.derived a).map fun p => ⟨a.id.withSuffix p.1, p.2, a.ts⟩) ∧
    (a.id.typ = .count → a.toStats = [a.mainStat]) := by
  refine ⟨?_, rfl, rfl, ?_, ?_⟩
  · unfold PgBifrost.Gen.AggSrc.update PgBifrost.Aggregator.Agg.update
    cases a.id.typ <;> rfl
  · intro h; simp [PgBifrost.Aggregator.Agg.toStats, h, PgBifrost.Gen.AggSrc.derived]
  · intro h; simp [PgBifrost.Aggregator.Agg.toStats, h]

/-- The aggregator's workers as written - the bucket arithmetic (`window * (ts / window)`, truncating), the expiry
test (`now > bucket + window + grace`, grace = 1 s), the key (component, name, type, unit concatenated in that
order), the three arms of the ingest closure (new bucket / existing aggregate updated through its pointer / new
aggregate in an existing bucket, each followed by `update`) and the report closure (report pass over all held
buckets, each tested with its own clock reading, then the delete pass over the marked bucket times) - are the
model's `check`, `add` and `scan` steps. Go maps are association lists with first-match assignment. -/
theorem aggregator_steps_as_in_source (c : Cfg) (st : State) :
    PgBifrost.Gen.AggLoopSrc.graceNano = ({ window := 1 } : Cfg).grace ∧
    PgBifrost.Gen.AggLoopSrc.bucketOf = bucketOf ∧ PgBifrost.Gen.AggLoopSrc.expired = expired ∧
    PgBifrost.Gen.AggLoopSrc.aggKey = aggKey ∧
    (∀ s, step c st (.add s) =
      { st with held := PgBifrost.Gen.AggLoopSrc.add st.held (bucketOf c s.ts) (aggKey s.id) s }) ∧
    (∀ nows, step c st (.scan nows) =
      { st with held := (PgBifrost.Gen.AggLoopSrc.scan c nows st.held).1,
                reports := st.reports ++ (PgBifrost.Gen.AggLoopSrc.scan c nows st.held).2 }) := by
  refine ⟨rfl, rfl, rfl, rfl, ?_, fun nows => PgBifrost.Proofs.AggLoopSrc.scan_eq c st nows⟩
  intro s
  simp [step, PgBifrost.Proofs.AggLoopSrc.add_eq]

end PgBifrost.Props.C19
