import PgBifrost.Model.Stages
import PgBifrost.Proofs.Backoff
import PgBifrost.Gen.Retry
import PgBifrost.Gen.Wiring
import PgBifrost.Props.C01
/-!
# C17 — fail-stop (property theorems; partial)

What is proved: in the process model of `Model/Stages.lean`, instantiated with the structural
facts REGENERATED from the source of every stage on every run, the death of any stage — by
return or by panic — raises the shared termination signal, no panic escapes a stage, and after
the signal every stage that reaches the top of its loop stops; `main` waits for the signal and
exits. What is NOT exhibited by the model (Go runtime behaviour, see DESIGN.md §C17): that a
deferred function runs on return/panic, that `recover()` called directly by it stops a panic,
goroutines blocked in a send that does not select on the context. The second half of the
property ("nothing is acknowledged beyond what the sink had accepted") is the C01 invariant,
judged by the `pipefault` harness monitor on the assembled real stages with injected faults.
-/
namespace PgBifrost.Props.C17
open PgBifrost.Stages PgBifrost.Gen.Stages

theorem step_facts (p : Proc) (e : Ev) : (step p e).facts = p.facts := by
  cases e with
  | returns s =>
    simp only [step]; split
    · split
      · simp only [afterShutdown]; split <;> simp [setStopped]
      · rfl
    · rfl
  | panics s =>
    simp only [step]; split
    · split
      · simp only [afterShutdown]; split <;> split <;> simp [setStopped]
      · rfl
    · rfl
  | observe s => simp only [step]; split <;> simp [setStopped]

theorem step_cancelled_mono (p : Proc) (e : Ev) (h : p.cancelled = true) : (step p e).cancelled = true := by
  cases e with
  | returns s =>
    simp only [step]; split
    · split
      · simp only [afterShutdown]; split <;> simp [setStopped, h]
      · exact h
    · exact h
  | panics s =>
    simp only [step]; split
    · split
      · simp only [afterShutdown]; split <;> split <;> simp [setStopped, h]
      · exact h
    · exact h
  | observe s => simp only [step]; split <;> simp [setStopped, h]

theorem run_facts (p : Proc) (evs : List Ev) : (run p evs).facts = p.facts := by
  induction evs generalizing p with
  | nil => rfl
  | cons e r ih => simp only [run, List.foldl_cons]; exact (ih (step p e)).trans (step_facts p e)

theorem run_cancelled_mono (p : Proc) (evs : List Ev) (h : p.cancelled = true) :
    (run p evs).cancelled = true := by
  induction evs generalizing p with
  | nil => exact h
  | cons e r ih => simp only [run, List.foldl_cons]; exact ih (step p e) (step_cancelled_mono p e h)

/-- a stage of `facts` that is running has its fact, and it is one of `facts` -/
theorem fact_of_running (p : Proc) (s : String) (hr : isRunning p s = true)
    (hst : ∀ n st, (n, st) ∈ p.status → ∃ f ∈ p.facts, f.name = n) :
    ∃ f, factOf p s = some f ∧ f ∈ p.facts := by
  simp only [isRunning, List.any_eq_true, Bool.and_eq_true, beq_iff_eq] at hr
  obtain ⟨⟨n, st⟩, hmem, hn, _⟩ := hr
  obtain ⟨f, hf, hname⟩ := hst n st hmem
  simp only at hn
  have : ∃ g, p.facts.find? (·.name == s) = some g := by
    cases h : p.facts.find? (·.name == s) with
    | some g => exact ⟨g, rfl⟩
    | none =>
      have := List.find?_eq_none.mp h f hf
      simp [hname, hn] at this
  obtain ⟨g, hg⟩ := this
  exact ⟨g, hg, List.mem_of_find?_eq_some hg⟩

theorem status_names (p : Proc) (e : Ev)
    (hst : ∀ n st, (n, st) ∈ p.status → ∃ f ∈ p.facts, f.name = n) :
    ∀ n st, (n, st) ∈ (step p e).status → ∃ f ∈ (step p e).facts, f.name = n := by
  intro n st hmem
  rw [step_facts]
  have key : ∀ q : Proc, q.facts = p.facts → (∀ n st, (n, st) ∈ q.status → ∃ st', (n, st') ∈ p.status) →
      (n, st) ∈ q.status → ∃ f ∈ p.facts, f.name = n := by
    intro q _ hq hm
    obtain ⟨st', h'⟩ := hq n st hm
    exact hst n st' h'
  have hset : ∀ s n st, (n, st) ∈ (setStopped p s).status → ∃ st', (n, st') ∈ p.status := by
    intro s n st hm
    simp only [setStopped, List.mem_map] at hm
    obtain ⟨⟨n', st'⟩, hm', heq⟩ := hm
    split at heq <;> (cases heq; exact ⟨st', hm'⟩)
  cases e with
  | returns s =>
    simp only [step] at hmem
    split at hmem
    · split at hmem
      · simp only [afterShutdown] at hmem
        split at hmem <;> (obtain ⟨st', h'⟩ := hset s n st (by simpa using hmem); exact hst n st' h')
      · exact hst n st hmem
    · exact hst n st hmem
  | panics s =>
    simp only [step] at hmem
    split at hmem
    · split at hmem
      · simp only [afterShutdown] at hmem
        split at hmem <;> split at hmem <;>
          (obtain ⟨st', h'⟩ := hset s n st (by simpa using hmem); exact hst n st' h')
      · exact hst n st hmem
    · exact hst n st hmem
  | observe s =>
    simp only [step] at hmem
    split at hmem
    · obtain ⟨st', h'⟩ := hset s n st hmem; exact hst n st' h'
    · exact hst n st hmem

theorem run_status_names (facts : List StageFact) (evs : List Ev) :
    ∀ n st, (n, st) ∈ (run (init facts) evs).status → ∃ f ∈ (run (init facts) evs).facts, f.name = n := by
  have base : ∀ n st, (n, st) ∈ (init facts).status → ∃ f ∈ (init facts).facts, f.name = n := by
    intro n st h
    simp only [init, List.mem_map] at h
    obtain ⟨f, hf, heq⟩ := h
    cases heq
    exact ⟨f, hf, rfl⟩
  suffices h : ∀ (p : Proc), (∀ n st, (n, st) ∈ p.status → ∃ f ∈ p.facts, f.name = n) →
      ∀ n st, (n, st) ∈ (run p evs).status → ∃ f ∈ (run p evs).facts, f.name = n from h _ base
  induction evs with
  | nil => intro p hp; exact hp
  | cons e r ih => intro p hp; simp only [run, List.foldl_cons]; exact ih (step p e) (status_names p e hp)

/-- **stage death raises the termination signal and never crashes the process**: for facts all
of which are `good`, in any history, when a running stage returns or panics the shared context
is cancelled from then on, and the panic is contained -/
theorem stage_death_cancels (facts : List StageFact) (hgood : ∀ f ∈ facts, good f = true)
    (pre post : List Ev) (s : String) (byPanic : Bool)
    (hrun : isRunning (run (init facts) pre) s = true) :
    let death := if byPanic then Ev.panics s else Ev.returns s
    (run (init facts) (pre ++ death :: post)).cancelled = true ∧
    (step (run (init facts) pre) death).crashed = (run (init facts) pre).crashed := by
  intro death
  have hfacts : (run (init facts) pre).facts = facts := run_facts _ _
  obtain ⟨f, hf, hmem⟩ := fact_of_running _ s hrun (run_status_names facts pre)
  rw [hfacts] at hmem
  have hg := hgood f hmem
  simp only [good, Bool.and_eq_true] at hg
  obtain ⟨⟨⟨h1, h2⟩, h3⟩, _⟩ := hg
  have hstep : (step (run (init facts) pre) death).cancelled = true ∧
      (step (run (init facts) pre) death).crashed = (run (init facts) pre).crashed := by
    cases byPanic <;> simp [death, step, hrun, hf, afterShutdown, h1, h2, h3, setStopped]
  refine ⟨?_, hstep.2⟩
  have : run (init facts) (pre ++ death :: post) = run (step (run (init facts) pre) death) post := by
    simp [run, List.foldl_append]
  rw [this]
  exact run_cancelled_mono _ _ hstep.1

theorem not_running_after_stop (p : Proc) (s : String) : isRunning (setStopped p s) s = false := by
  simp only [isRunning, setStopped, List.any_map, List.any_eq_false]
  intro x _
  obtain ⟨n, st⟩ := x
  simp only [Function.comp]
  by_cases hn : n = s <;> simp [hn]

/-- **no half-dead process**: once the signal is raised, a stage that reaches the top of its loop stops -/
theorem no_half_dead (p : Proc) (s : String) (hc : p.cancelled = true) :
    isRunning (step p (.observe s)) s = false := by
  by_cases hr : isRunning p s = true
  · have : step p (.observe s) = setStopped p s := by simp [step, hc, hr]
    rw [this]; exact not_running_after_stop p s
  · have : step p (.observe s) = p := by simp [step, hr]
    rw [this]; simpa using hr

/-- the facts regenerated from the source on this run are all good, for every stage loop -/
theorem stages_good : ∀ f ∈ stages, good f = true := by decide

/-- every stage of the pipeline is in the regenerated table (a removed or renamed stage breaks this) -/
theorem stages_complete : stages.map (·.name) =
    ["client", "filter", "partitioner", "marshaller", "batcher", "progress_tracker", "kinesis_transporter",
     "s3_transporter", "rabbitmq_transporter", "kafka_transporter", "stdout_transporter", "aggregator_ingest",
     "aggregator_report", "runner"] := by decide

/-- the statistics reporters (datadog, stdout) also defer `shutdown` first and `shutdown` calls `CancelFunc`:
when one returns (its input channel closed, or the signal observed) the signal is raised. They do not
`recover()`: a panic inside a reporter is not contained and takes the process down (which stops it, too). -/
theorem reporters_cancel : ∀ f ∈ reporterStages, f.defersShutdownFirst = true ∧ f.shutdownCancels = true := by decide

theorem reporter_return_cancels (s : String) (hs : s ∈ reporterStages.map (·.name)) :
    (run (init (stages ++ reporterStages)) [.returns s]).cancelled = true := by
  simp only [reporterStages, List.map_cons, List.map_nil, List.mem_cons, List.not_mem_nil, or_false] at hs
  rcases hs with rfl | rfl <;> decide

/-- `main` blocks on the shared context and returns afterwards; the handler is `context.WithCancel` -/
theorem main_waits_then_exits : mainWaitsOnCtx = true ∧ handlerIsWithCancel = true := by decide

/-- the theorem instantiated with the real table: the death of ANY stage of pg-bifrost, at any
point of any history, by return or panic, raises the termination signal -/
theorem pg_bifrost_fail_stop (pre post : List Ev) (s : String) (byPanic : Bool)
    (hrun : isRunning (run (init stages) pre) s = true) :
    (run (init stages) (pre ++ (if byPanic then Ev.panics s else Ev.returns s) :: post)).cancelled = true :=
  (stage_death_cancels stages stages_good pre post s byPanic hrun).1

/-- non-vacuity: the batcher is running at the start, and its death cancels -/
example : isRunning (init stages) "batcher" = true := by decide
example : (run (init stages) [.panics "kafka_transporter", .observe "client"]).cancelled = true ∧
    isRunning (run (init stages) [.panics "kafka_transporter", .observe "client"]) "client" = false := by decide
/-- and a stage whose shutdown did not cancel would break it -/
example : (run (init [⟨"x", true, false, true, true, false⟩]) [.returns "x"]).cancelled = false := by decide

/-! ## "a sink that keeps failing past its retry budget" — the retry policies actually give up

The stages' fail-stop machinery above only runs once a worker RETURNS. For the sinks with a retry budget
(Kinesis, S3, RabbitMQ: 5 minutes; the PostgreSQL connection: 20 s) the worker returns when
`backoff.Retry` gives up, and that is decided by the library from the policy value the factory builds.
`Model/Backoff.lean` models that decision; the policy literals are regenerated from the source on every run
(`Gen/Retry.lean`), and the harness component `retrypolicy` runs the real library on the same literals. -/
section retry
open PgBifrost.Backoff PgBifrost.Gen.Retry

/-- **A policy with a budget and `Stop: backoff.Stop` gives up.** For every budget `m ≠ 0`, every clock that
advances at least by the sleeps the loop performs and every sequence of drawn intervals of at least `minI`:
once enough calls have failed for the sleeps alone to exceed the budget, the loop has given up — after at most
`m / minI + 1` calls of the operation (stated without division: `(k - 1) * minI ≤ m`). -/
theorem retry_budget_gives_up (m minI : Nat) (hm : m ≠ 0) (obs : List Obs)
    (hadv : Advances minI 0 obs) (hlen : m < obs.length * minI) :
    ∃ k, retryFailing ⟨m, stopConst⟩ obs 0 = some k ∧ 1 ≤ k ∧ k ≤ obs.length ∧ (k - 1) * minI ≤ m := by
  obtain ⟨k, hk, h1, h2, h3⟩ :=
    retryFailing_gives_up ⟨m, stopConst⟩ rfl hm minI obs 0 0 hadv (Nat.zero_le _) (by simpa using hlen)
  exact ⟨k, hk, by omega, by omega, by simpa using h3⟩

/-- **The defect repaired by "fix: retry policies never gave up"** (a struct literal without the `Stop` field:
zero value): for EVERY budget and EVERY behaviour of the clock the loop never gives up, and once the budget
is exceeded it retries with a sleep of 0 ns. -/
theorem retry_unset_stop_never_gives_up (m : Nat) (obs : List Obs) (c : Nat) :
    retryFailing ⟨m, 0⟩ obs c = none :=
  retryFailing_none_of_field ⟨m, 0⟩ (by simp [stopConst]) obs c

theorem retry_unset_stop_spins (m : Nat) (hm : m ≠ 0) (e n : Nat) (hover : m < e + n) :
    sleepAfter ⟨m, 0⟩ (e, n) = some 0 :=
  sleep_after_budget ⟨m, 0⟩ (by simp [stopConst]) hm e n hover

/-- the value of the `Stop` field as far as its source text determines it -/
def stopValue : String → Option Int
  | "backoff.Stop" => some stopConst
  | "" => some 0
  | _ => none

/-- **Every retry policy of pg-bifrost that has a budget sets `Stop: backoff.Stop`** (about the table
regenerated from the source on every run; removing the field from one of the factories breaks this). -/
theorem retry_policies_give_up :
    ∀ f ∈ policies, f.maxElapsed ≠ "" → stopValue f.stop = some stopConst := by decide

/-- the table is the five literals the models know: the PostgreSQL connection, the three sink factories with a
budget, and RabbitMQ's connection manager, which has no budget by design (it retries until shutdown) -/
theorem retry_policies_complete :
    policies.map (fun f => (f.file, f.func, f.maxElapsed != "")) =
      [("replication/client/conn/conn.go", "NewConnWithRetry", true),
       ("transport/transporters/kinesis/factory.go", "New", true),
       ("transport/transporters/rabbitmq/factory.go", "New", true),
       ("transport/transporters/rabbitmq/transporter/connection.go", "NewConnectionManager", false),
       ("transport/transporters/s3/factory.go", "New", true)] := by decide

/-- instantiated: for each of pg-bifrost's budgeted policies, whatever number of nanoseconds its
`MaxElapsedTime` expression denotes (`m ≠ 0`), a sink that keeps failing makes the retry loop give up -/
theorem pg_bifrost_retry_gives_up (f : PolicyFact) (hf : f ∈ policies) (hb : f.maxElapsed ≠ "")
    (m minI : Nat) (hm : m ≠ 0) (obs : List Obs) (hadv : Advances minI 0 obs) (hlen : m < obs.length * minI) :
    ∃ s, stopValue f.stop = some s ∧ ∃ k, retryFailing ⟨m, s⟩ obs 0 = some k ∧ k ≤ obs.length :=
  ⟨stopConst, retry_policies_give_up f hf hb, by
    obtain ⟨k, hk, _, h2, _⟩ := retry_budget_gives_up m minI hm obs hadv hlen
    exact ⟨k, hk, h2⟩⟩

/-- non-vacuity: a 3-second budget, 1-second intervals, a clock that advances exactly by the sleeps -/
example : Advances 1000000000 0 [(0, 1000000000), (1000000000, 1000000000), (2000000000, 1000000000), (3000000000, 1000000000)] ∧
    retryFailing ⟨3000000000, stopConst⟩ [(0, 1000000000), (1000000000, 1000000000), (2000000000, 1000000000), (3000000000, 1000000000)] 0 = some 4 ∧
    retryFailing ⟨3000000000, 0⟩ [(0, 1000000000), (1000000000, 1000000000), (2000000000, 1000000000), (3000000000, 1000000000)] 0 = none := by
  refine ⟨by simp [Advances], by decide, by decide⟩

end retry

/-! ## one termination signal for the whole process

`stage_death_cancels` says that a dying stage cancels the context of ITS shutdown handler. That this is the
process-wide signal `main` waits on rests on the wiring: there is exactly one handler value (made in `main`,
by `shutdown.NewShutdownHandler`), nobody rewrites its fields or swaps it, `app.New` hands it to every stage
constructor and `Runner.Start` launches every stage. All of it regenerated from the source on every run. -/
section wiring
open PgBifrost.Gen.Wiring

/-- **exactly one shutdown handler**: the only place a `ShutdownHandler` is built is
`shutdown.NewShutdownHandler`, called once, by `main`; no function assigns to a `.CancelFunc` /
`.TerminateCtx` field (or takes its address), and no constructor replaces its `shutdownHandler` parameter.
(A stage given a handler of its own — e.g. a derived context with its own cancel function — could die
without the process noticing.) -/
theorem single_shutdown_handler :
    handlerCreations = ["main/main.go:runReplicate:call", "shutdown/shutdown.go:NewShutdownHandler:literal"] ∧
    handlerFieldWrites = [] ∧ handlerParamReassigned = [] := by decide

/-- `app.New` passes that handler, as first argument, to every stage it constructs, and keeps it for itself -/
theorem runner_hands_the_handler_to_every_stage :
    (∀ c ∈ runnerCalls, c.2.head? = some "shutdownHandler") ∧
    runnerCalls.map (·.1) = ["client.New", "filter.New", "partitioner.New", "marshaller.New", "manager.New",
      "progress.New", "aggregator.New", "factory.New"] ∧
    runnerFields.head? = some "shutdownHandler" := by decide

/-- `Runner.Start` launches every stage it was given (each field of the Runner is started exactly once) and
then blocks on the shared context -/
theorem runner_starts_every_stage :
    runnerGo = ["r.progressTracker.Start(time.Millisecond * 5000)", "r.statsAggregator.Start()",
      "r.statsReporter.Start()", "r.transportManager.Start()", "r.marshallerInstance.Start()",
      "r.partitionerInstance.Start()", "r.filterInstance.Start()",
      "r.replicationClient.Start(r.progressTracker.OutputChan)"] ∧
    runnerFields = ["shutdownHandler", "statsChan", "&replicationClient", "&filterInstance", "&partitionerInstance",
      "&marshallerInstance", "&transportManager", "&statsAggregator", "&progressTracker", "statsReporter"] ∧
    runnerWaitsOnCtx = true := by decide

end wiring

/-! ## "from that moment on nothing is acknowledged beyond what the sink had accepted"

In the composed system (`Model/Sys.lean`) a fault is not a special action: a sink that keeps failing is a run in
which `sinkRetry` is all that worker ever does again, a dead worker or batcher is a run in which its actions no
longer occur, a crash is the end of the action list. The C01 theorems quantify over ALL action lists, so they
cover every fault at every point. Restated here for the reading the property gives it. -/
section faults
open PgBifrost.Batch PgBifrost.Batcher
variable {K : Kind} {big bad : Msg → Bool} {dom : Msg → Prop}

/-- **No fault makes an acknowledgement unsafe.** Split any run at any point (`fault`): whatever happens
afterwards — workers that never accept again, stages that stop taking part, nothing at all — every value the
tracker emits, before or after that point, covers only deliveries whose data messages the sink has accepted
(or that were dropped as too big). -/
theorem fault_never_unsafe_ack (bcfg : Batcher.Cfg) (redeliver : Bool) (before after : List Sys.Act)
    (hE : Sys.Env redeliver K big bad dom (before ++ after)) (hs : Sys.Sched redeliver ⟨K, bcfg⟩ (before ++ after)) :
    ∀ v ∈ (Sys.run ⟨K, bcfg⟩ (before ++ after)).acks,
      ∀ c ∈ Sys.fedMsgs (before ++ after), c.op = .commit → c.lsn ≤ v →
        ∀ m ∈ Sys.fedMsgs (before ++ after), m.op = .data → m.key = c.key →
          m ∈ (Sys.run ⟨K, bcfg⟩ (before ++ after)).sinkAccepted ∨ big m = true :=
  PgBifrost.Props.C01.sys_crash_restart_no_loss bcfg redeliver (before ++ after) hE hs (before ++ after) (List.prefix_refl _)

end faults

end PgBifrost.Props.C17
