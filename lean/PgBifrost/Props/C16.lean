import PgBifrost.Proofs.BatcherTick
import PgBifrost.Gen.TickSrc
import PgBifrost.Gen.MainOpts
import PgBifrost.Proofs.BatcherTimed
import PgBifrost.Gen.Conds
/-!
# C16 — flush by age and by memory pressure (decision logic; timing is modelled)

`validTick K cfg now s times order` says that `order` is a flush order `handleTicker` can produce at
time `now` when the open batches have the creation/modification times `times` (any permutation of
the mandatory set — Go map iteration order — followed by a valid sequence of heap pops).
-/
namespace PgBifrost.Props.C16
open PgBifrost.Batch PgBifrost.Batcher

/-- **10. Due batches are flushed.** At a valid tick every open batch has observed times, and every
open batch that is empty, idle past `updAge`, older than `maxAge` or full (`mustFlush`) is in the
flush order; after the tick it is no longer open and, if non-empty, it was dispatched. -/
theorem tick_flushes_due {K : Kind} {cfg : Cfg} {now : Int} {s : State} {times : List BTimes} {order : List PKey}
    (hv : validTick K cfg now s times order = true) {pk : PKey} {b : Batch} (ho : getOpen s pk = some b) :
    ∃ t, timesOf times pk = some t ∧
      (mustFlush K cfg now b t.ctime t.mtime = true →
        pk ∈ order ∧ getOpen (onTick cfg s order).1 pk = none ∧
        (b.isEmpty = false → b ∈ dispatched (onTick cfg s order).2)) := by
  obtain ⟨h1, _, h3, _⟩ := validTick_parts hv
  have hmem := mem_of_getOpen ho
  have hk : pk ∈ keysOf s := List.mem_map.mpr ⟨_, hmem, rfl⟩
  have ht := h1 pk hk
  cases htt : timesOf times pk with
  | none => rw [htt] at ht; cases ht
  | some t =>
    refine ⟨t, rfl, fun hf => ?_⟩
    have hord : pk ∈ order := List.mem_of_mem_take (h3 pk (mem_mandatory hmem htt hf))
    refine ⟨hord, by rw [getOpen_onTick, if_pos hord], fun hne => ?_⟩
    exact foldl_flushOne_dispatches cfg order s [] pk b hord ho hne

/-- 10, for any order (valid or not): a key in the flush order is not open after the tick, and its
batch, if non-empty, was dispatched; a key not in the order keeps its batch. -/
theorem tick_flushes_order (cfg : Cfg) (s : State) (order : List PKey) (pk : PKey) :
    (pk ∈ order → getOpen (onTick cfg s order).1 pk = none ∧
      ∀ b, getOpen s pk = some b → b.isEmpty = false → b ∈ dispatched (onTick cfg s order).2) ∧
    (pk ∉ order → getOpen (onTick cfg s order).1 pk = getOpen s pk) := by
  refine ⟨fun h => ⟨by rw [getOpen_onTick, if_pos h], fun b ho hne => ?_⟩, fun h => by rw [getOpen_onTick, if_neg h]⟩
  exact foldl_flushOne_dispatches cfg order s [] pk b h ho hne

/-- **11a. Memory pressure, totals.** After a valid tick (open keys distinct, as in every reachable
state: `reach_keysNodup`) the batches left open total fewer than `memLimit` bytes, or none is left. -/
theorem tick_pressure {K : Kind} {cfg : Cfg} {now : Int} {s : State} {times : List BTimes} {order : List PKey}
    (hn : KeysNodup s) (hv : validTick K cfg now s times order = true) :
    openBytes (onTick cfg s order).1 < cfg.memLimit ∨ (onTick cfg s order).1.openB = [] :=
  tick_pressure_total hn hv

/-- **11b. Memory pressure, largest first.** The part of a valid flush order after the mandatory
keys is a pop sequence: each popped key is an open, non-mandatory key; at the moment it is popped
its batch is at least as large as every batch still kept (open, non-mandatory, not popped earlier),
and the kept total is still at or above the limit. -/
theorem tick_pressure_order {K : Kind} {cfg : Cfg} {now : Int} {s : State} {times : List BTimes} {order : List PKey}
    (hv : validTick K cfg now s times order = true) (i : Nat) (p : PKey)
    (hi : (order.drop (mandatory K cfg now s times).length)[i]? = some p) :
    p ∈ keysOf s ∧ p ∉ mandatory K cfg now s times ∧
    (∀ k ∈ keysOf s, k ∉ mandatory K cfg now s times →
      k ∉ (order.drop (mandatory K cfg now s times).length).take i → bytesOf s k ≤ bytesOf s p) ∧
    cfg.memLimit ≤
      sumBytes s ((keysOf s).filter fun k => !(mandatory K cfg now s times).contains k)
        - sumBytes s ((order.drop (mandatory K cfg now s times).length).take i) := by
  obtain ⟨_, _, _, h4⟩ := validTick_parts hv
  split at h4
  · obtain ⟨h1, h2, h3⟩ := validPops_order cfg s _ _ _ h4 i p hi
    rw [List.mem_filter] at h1
    refine ⟨h1.1, by simpa using h1.2, fun k hk hm hnot => ?_, ?_⟩
    · exact h2 k (List.mem_filter.mpr ⟨hk, by simpa using hm⟩) hnot
    · rw [foldl_bytes] at h3; omega
  · rw [h4] at hi; simp at hi

variable {K : Kind} {big bad : Msg → Bool} {dom : Msg → Prop}

/-- the hypothesis `KeysNodup` of 11a holds in every state a (non-dead) run reaches -/
theorem run_keysNodup (hL : Laws K big bad dom) (cfg : Cfg) (ops : List Op)
    (hdom : ∀ m ∈ dataMsgs ops, dom m) (hnd : (run K cfg ops).1.dead = false) :
    KeysNodup (run K cfg ops).1 :=
  reach_keysNodup (run_reach_or_dead hL cfg ops hdom hnd)

/-! ### not vacuous: a concrete valid tick -/

private def m1 : Msg := ⟨.data, [1], 7, 70, 10, 100, 1, 0⟩
private def m2 : Msg := ⟨.data, [2], 7, 70, 30, 101, 2, 0⟩
private def cfg0 : Cfg := ⟨2, .partition, 1000, 5000, 25⟩
private def s0 : State := (run (genericKind 3) cfg0 [.msg m1, .msg m2]).1
private def times0 : List BTimes := [⟨[1], 0, 0⟩, ⟨[2], 0, 0⟩]

/-- at time 10 nothing is mandatory, the total 40 ≥ 25 forces popping the largest batch (key 2) -/
example : validTick (genericKind 3) cfg0 10 s0 times0 [[2]] = true := by decide
example : openBytes (onTick cfg0 s0 [[2]]).1 < cfg0.memLimit ∨ (onTick cfg0 s0 [[2]]).1.openB = [] :=
  tick_pressure (K := genericKind 3) (now := 10) (times := times0)
    (run_keysNodup (genericLaws 3 (by omega)) cfg0 _ (fun _ _ => trivial) (by decide)) (by decide)
/-- at time 2000 both batches are idle past `updAge`: both must be flushed -/
example : validTick (genericKind 3) cfg0 2000 s0 times0 [[2], [1]] = true := by decide

/-! ## flush by age, in logical time (`Model/BatcherTimed.lean`)

The theorems above are about ONE tick whose batch times are given. Here the clock is part of the run: every
loop iteration (message or tick) carries its clock reading, the layer keeps the create / modify times the
real batches would hold, and ticks decide on those. Assumptions of a run (`ok`): the clock never goes
backwards, every tick flushes a `validTick` order. NOT assumed: anything about how often messages arrive, for
which keys, or how they interleave with ticks — "no matter how steadily records keep arriving". What the
model cannot exhibit is that a tick IS handled at least every Δ (Go's ticker and `select`; measured by the
`batcherload` component): the bounds below are stated relative to the times at which ticks were handled. -/
section timed
open PgBifrost.BatcherTimed

/-- **Age invariant.** In every state a run reaches, relative to the last handled tick no open batch is older
than the maximum age or idle for longer than the idle age: for every arrival pattern. -/
theorem age_invariant {K : Kind} {cfg : Cfg} (hmax : 0 ≤ cfg.maxAge) (hupd : 0 ≤ cfg.updAge) (t0 : Int)
    (ops : List TOp) (hok : (trun K cfg (tinit {} t0) ops).ok = true) :
    ∀ pk b, getOpen (trun K cfg (tinit {} t0) ops).s pk = some b →
      ∃ e, timesOf (trun K cfg (tinit {} t0) ops).times pk = some e ∧
        (trun K cfg (tinit {} t0) ops).lastTick - e.ctime ≤ cfg.maxAge ∧
        (trun K cfg (tinit {} t0) ops).lastTick - e.mtime ≤ cfg.updAge := by
  intro pk b hb
  obtain ⟨e, he, h1, h2⟩ := (fresh_run hmax hupd ops _ (fresh_init cfg t0) hok).2 pk b hb
  exact ⟨e, he, by omega, by omega⟩

/-- **`age_bound`: a batch is handed to a worker at the latest one tick after it became due.** Take any run
and the next handled tick, at `now`, the previous one having been handled at `lastTick` (or the run started
then). For every non-empty open batch: (a) at this tick it is at most `maxAge + (now - lastTick)` old and
`updAge + (now - lastTick)` idle — it cannot have been overdue at the previous tick; (b) if it IS overdue now
(older than `maxAge`, or idle for longer than `updAge`) this tick dispatches it. With ticks handled at most Δ
apart: handed over within `maxAge + Δ` of its creation, or `updAge + Δ` of its last record. -/
theorem age_bound {K : Kind} {cfg : Cfg} (hmax : 0 ≤ cfg.maxAge) (hupd : 0 ≤ cfg.updAge) (t0 : Int)
    (ops : List TOp) (now : Int) (order : List PKey)
    (hok : (tstep K cfg (trun K cfg (tinit {} t0) ops) (.tick now order)).1.ok = true)
    (halive : (trun K cfg (tinit {} t0) ops).s.dead = false)
    (pk : PKey) (b : Batch) (hb : getOpen (trun K cfg (tinit {} t0) ops).s pk = some b) (hne : b.isEmpty = false) :
    ∃ e, timesOf (trun K cfg (tinit {} t0) ops).times pk = some e ∧
      now - e.ctime ≤ cfg.maxAge + (now - (trun K cfg (tinit {} t0) ops).lastTick) ∧
      now - e.mtime ≤ cfg.updAge + (now - (trun K cfg (tinit {} t0) ops).lastTick) ∧
      ((cfg.maxAge < now - e.ctime ∨ cfg.updAge < now - e.mtime) →
        b ∈ dispatched (tstep K cfg (trun K cfg (tinit {} t0) ops) (.tick now order)).2 ∧
        getOpen (tstep K cfg (trun K cfg (tinit {} t0) ops) (.tick now order)).1.s pk = none) := by
  have hok0 := tstep_ok_mono _ _ hok
  obtain ⟨e, he, h1, h2⟩ := age_invariant hmax hupd t0 ops hok0 pk b hb
  refine ⟨e, he, by omega, by omega, ?_⟩
  intro hdue
  simp only [tstep, halive, Bool.false_eq_true, ↓reduceIte, Bool.and_eq_true] at hok ⊢
  obtain ⟨t, ht, hflush⟩ := tick_flushes_due hok.2 hb
  rw [he] at ht; cases ht
  have hmf : mustFlush K cfg now b e.ctime e.mtime = true := by
    simp only [mustFlush, Bool.or_eq_true, decide_eq_true_eq]
    rcases hdue with h | h
    · exact Or.inl (Or.inr (by omega))
    · exact Or.inl (Or.inl (Or.inr (by omega)))
  obtain ⟨_, hgone, hdisp⟩ := hflush hmf
  exact ⟨hdisp hne, hgone⟩

/-! not vacuous: records for key 1 keep arriving every 300 ns, one record for key 2 at the start; idle age 1000,
maximum age 2500, ticks at 1000, 2000, 3000. The cold batch (key 2) goes at the tick at 2000 (idle since 0), the
hot one (key 1, never idle) at the tick at 3000 (created at 100, older than 2500). -/
private def cfgT : Cfg := ⟨1, .roundRobin, 1000, 2500, 1000000⟩
private def hot (lsn : Nat) : Msg := ⟨.data, [1], 7, 70, 10, lsn, lsn, 0⟩
private def cold : Msg := ⟨.data, [2], 7, 70, 10, 99, 99, 0⟩
private def opsT : List TOp :=
  [.msg cold 0, .msg (hot 100) 100, .msg (hot 101) 400, .msg (hot 102) 700, .tick 1000 [],
   .msg (hot 103) 1100, .msg (hot 104) 1400, .msg (hot 105) 1700, .tick 2000 [[2]],
   .msg (hot 106) 2100, .msg (hot 107) 2400, .msg (hot 108) 2700]
example : (trun (genericKind 100) cfgT (tinit {} 0) opsT).ok = true := by decide
example : (trun (genericKind 100) cfgT (tinit {} 0) opsT).s.openB.map (·.1) = [[1]] := by decide
example : (tstep (genericKind 100) cfgT (trun (genericKind 100) cfgT (tinit {} 0) opsT) (.tick 3000 [[1]])).1.ok = true := by
  decide
example : ((dispatched (tstep (genericKind 100) cfgT (trun (genericKind 100) cfgT (tinit {} 0) opsT) (.tick 3000 [[1]])).2).map
    (·.payload.length)) = [9] := by decide
/-- an order that leaves the overdue batch open is not a valid tick: `ok` turns false -/
example : (tstep (genericKind 100) cfgT (trun (genericKind 100) cfgT (tinit {} 0) opsT) (.tick 3000 [])).1.ok = false := by
  decide

end timed

/-! ## the decision rules are the ones in the source

`Gen/Conds.lean` is TRANSLATED from `handleTicker` on every run (the `if … { flush = true }` conditions of the
marking loop, the entry and exit conditions of the memory-pressure loop). The model's rules are equal to it:
a changed comparison (`<` for `<=`), a dropped or added condition, swapped ages break these theorems. -/
section source
open PgBifrost.Gen.Conds

theorem tick_decision_as_in_source (K : Kind) (cfg : Cfg) (now : Int) (b : Batch) (c m : Int) :
    mustFlush K cfg now b c m = tickFlush b.isEmpty (K.isFull b) c m now cfg.updAge cfg.maxAge := by
  simp [mustFlush, tickFlush]

theorem pressure_rule_as_in_source (cfg : Cfg) (s : State) (kept : List PKey) (total : Int) :
    (decide (total ≥ cfg.memLimit) = pressureStart total cfg.memLimit) ∧
    (validPops cfg s kept [] total = (pressureStop total cfg.memLimit || kept.isEmpty)) ∧
    (∀ p ps, validPops cfg s kept (p :: ps) total = true → pressureStop total cfg.memLimit = false) := by
  refine ⟨rfl, rfl, ?_⟩
  intro p ps h
  simp only [validPops, Bool.and_eq_true, decide_eq_true_eq] at h
  simp only [pressureStop, decide_eq_false_iff_not, Int.not_lt]
  exact h.1.1.1

end source

/-- `main.go` fills every slot of the client, marshaller, partitioner and batcher configuration maps from the option of
the SAME name (through `GetPartitionMethod` / `GetRoutingMethod` for the two named methods), each local used for it
is assigned exactly once; and `app.New` reads each slot into a local that is assigned exactly once before it is
handed on (`runner_wiring_as_modelled`, C01, has the constructor calls); below `app.New`, every argument of `manager.New`,
`factory.NewTransport` and `batcher.NewBatcher` is listed against the parameter it fills (same value under at most a new
name, never assigned to in between, except the batch factory chosen by the transport type). The same chain is followed at
run time: the `plumbing` component reads back what the stages were built with. -/
theorem options_reach_their_own_slot :
    PgBifrost.Gen.MainOpts.slots = [
      ("clientConfig", "config.VAR_NAME_CLIENT_BUFFER_SIZE", "config.VAR_NAME_CLIENT_BUFFER_SIZE"),
      ("transportConfig", "flagName", "computed:getFlagValue(c.Generic(flagName))"),
      ("transportConfig", "config.VAR_NAME_WORKERS", "config.VAR_NAME_WORKERS"),
      ("transportConfig", "config.VAR_NAME_PARTITION_METHOD", "partitioner.GetPartitionMethod∘config.VAR_NAME_PARTITION_METHOD"),
      ("transportConfig", "config.VAR_NAME_BATCHER_ROUTING_METHOD", "batcher.GetRoutingMethod∘config.VAR_NAME_BATCHER_ROUTING_METHOD"),
      ("filterConfig", "\"whitelist\"", "computed:whitelist"),
      ("filterConfig", "\"tablelist\"", "computed:tablelist"),
      ("filterConfig", "\"regex\"", "computed:regex"),
      ("marshallerConfig", "config.VAR_NAME_NO_MARSHAL_OLD_VALUE", "config.VAR_NAME_NO_MARSHAL_OLD_VALUE"),
      ("partitionerConfig", "config.VAR_NAME_PARTITION_METHOD", "partitioner.GetPartitionMethod∘config.VAR_NAME_PARTITION_METHOD"),
      ("partitionerConfig", "config.VAR_NAME_PARTITION_COUNT", "config.VAR_NAME_PARTITION_COUNT"),
      ("batcherConfig", "config.VAR_NAME_BATCH_FLUSH_MAX_AGE", "config.VAR_NAME_BATCH_FLUSH_MAX_AGE"),
      ("batcherConfig", "config.VAR_NAME_BATCH_FLUSH_UPDATE_AGE", "config.VAR_NAME_BATCH_FLUSH_UPDATE_AGE"),
      ("batcherConfig", "config.VAR_NAME_BATCH_QUEUE_DEPTH", "config.VAR_NAME_BATCH_QUEUE_DEPTH"),
      ("batcherConfig", "config.VAR_NAME_BATCHER_MEMORY_SOFT_LIMIT", "config.VAR_NAME_BATCHER_MEMORY_SOFT_LIMIT"),
      ("batcherConfig", "config.VAR_NAME_BATCHER_ROUTING_METHOD", "batcher.GetRoutingMethod∘config.VAR_NAME_BATCHER_ROUTING_METHOD"),
      ("batcherConfig", "config.VAR_NAME_BATCHER_TICK_RATE", "config.VAR_NAME_BATCHER_TICK_RATE"),
      ("reporterConfig", "config.VAR_NAME_DD_HOST", "reassigned:config.VAR_NAME_DD_HOST"),
      ("reporterConfig", "config.VAR_NAME_DD_TAGS", "computed:datadogTagsList")
    ] ∧
    PgBifrost.Gen.MainOpts.reads = [
      ("batchFlushMaxAge", "batcherConfig", "config.VAR_NAME_BATCH_FLUSH_MAX_AGE", true),
      ("batchFlushUpdateAge", "batcherConfig", "config.VAR_NAME_BATCH_FLUSH_UPDATE_AGE", true),
      ("batchQueueDepth", "batcherConfig", "config.VAR_NAME_BATCH_QUEUE_DEPTH", true),
      ("batcherMemorySoftLimit", "batcherConfig", "config.VAR_NAME_BATCHER_MEMORY_SOFT_LIMIT", true),
      ("batcherRoutingMethod", "batcherConfig", "config.VAR_NAME_BATCHER_ROUTING_METHOD", true),
      ("batcherTickRate", "batcherConfig", "config.VAR_NAME_BATCHER_TICK_RATE", true),
      ("clientBufferSize", "clientConfig", "config.VAR_NAME_CLIENT_BUFFER_SIZE", true),
      ("noMarshalOldValue", "marshallerConfig", "config.VAR_NAME_NO_MARSHAL_OLD_VALUE", true),
      ("partMethod", "partitionConfig", "config.VAR_NAME_PARTITION_METHOD", true),
      ("partPartitions", "partitionConfig", "config.VAR_NAME_PARTITION_COUNT", true),
      ("regex", "filterConfig", "\"regex\"", true),
      ("tablelist", "filterConfig", "\"tablelist\"", true),
      ("whitelist", "filterConfig", "\"whitelist\"", true)
    ] ∧
    PgBifrost.Gen.MainOpts.passes = [
      ("manager.New", "shutdownHandler", "shutdownHandler"),
      ("manager.New", "inputChan", "marshallerInstance.OutputChan"),
      ("manager.New", "txnsSeen", "txnsSeen"),
      ("manager.New", "txnsWritten", "txnsWritten"),
      ("manager.New", "statsChan", "statsChan"),
      ("manager.New", "transportType", "transportType"),
      ("manager.New", "transportConfig", "transportConfig"),
      ("manager.New", "flushBatchUpdateAge", "batchFlushUpdateAge"),
      ("manager.New", "flushBatchMaxAge", "batchFlushMaxAge"),
      ("manager.New", "batchQueueDepth", "batchQueueDepth"),
      ("manager.New", "batcherTickRate", "batcherTickRate"),
      ("manager.New", "batcherMemorySoftLimit", "batcherMemorySoftLimit"),
      ("manager.New", "routingMethod", "batcherRoutingMethod"),
      ("factory.NewTransport", "shutdownHandler", "shutdownHandler"),
      ("factory.NewTransport", "transportType", "transportType"),
      ("factory.NewTransport", "transportConfig", "transportConfig"),
      ("factory.NewTransport", "inputChan", "inputChan"),
      ("factory.NewTransport", "txnsSeen", "txnsSeen"),
      ("factory.NewTransport", "txnsWritten", "txnsWritten"),
      ("factory.NewTransport", "statsChan", "statsChan"),
      ("factory.NewTransport", "workers", "workerNum"),
      ("factory.NewTransport", "flushBatchUpdateAge", "flushBatchUpdateAge"),
      ("factory.NewTransport", "flushBatchMaxAge", "flushBatchMaxAge"),
      ("factory.NewTransport", "batchQueueDepth", "batchQueueDepth"),
      ("factory.NewTransport", "batcherTickRate", "batcherTickRate"),
      ("factory.NewTransport", "batcherMemorySoftLimit", "batcherMemorySoftLimit"),
      ("factory.NewTransport", "routingMethod", "routingMethod"),
      ("batcher.NewBatcher", "shutdownHandler", "shutdownHandler"),
      ("batcher.NewBatcher", "inputChan", "inputChan"),
      ("batcher.NewBatcher", "txnsSeenChan", "txnsSeen"),
      ("batcher.NewBatcher", "txnsWritten", "txnsWritten"),
      ("batcher.NewBatcher", "statsChan", "statsChan"),
      ("batcher.NewBatcher", "tickRate", "batcherTickRate"),
      ("batcher.NewBatcher", "batchFactory", "reassigned:batchFactory"),
      ("batcher.NewBatcher", "workers", "workers"),
      ("batcher.NewBatcher", "flushBatchUpdateAge", "flushBatchUpdateAge"),
      ("batcher.NewBatcher", "flushBatchMaxAge", "flushBatchMaxAge"),
      ("batcher.NewBatcher", "batchQueueDepth", "batchQueueDepth"),
      ("batcher.NewBatcher", "maxMemoryBytes", "batcherMemorySoftLimit"),
      ("batcher.NewBatcher", "routingMethod", "routingMethod")
    ] := ⟨rfl, rfl, rfl⟩

/-- The structure of `handleTicker` around the translated conditions (`tick_decision_as_in_source`,
`pressure_rule_as_in_source`), every statement that is not a log call, with its nesting: only batches NOT marked for
flushing count towards the memory total and enter the priority queue (keyed by their payload size); under pressure the
largest is popped, marked, and its payload size subtracted; every marked batch is handed over through `sendBatch`, a
failed hand-over ends the tick, the batch is deleted from the open set. -/
theorem handle_ticker_structure_as_in_source :
    PgBifrost.Gen.TickSrc.stmts = [
      "toFlush := make([]string, 0)",
      "totalMemory := int64(0)",
      "bq := make(queue.BatchQueue, 0)",
      "queueIndex := 0",
      "for batchKey, curBatch := range b.batches {",
      "· flush := false",
      "· if curBatch.IsEmpty() {",
      "· · flush = true",
      "· }",
      "· if curBatch.ModifyTime() < time.Now().UnixNano()-b.flushBatchUpdateAge.Nanoseconds() {",
      "· · flush = true",
      "· }",
      "· if curBatch.CreateTime() < time.Now().UnixNano()-b.flushBatchMaxAge.Nanoseconds() {",
      "· · flush = true",
      "· }",
      "· if curBatch.IsFull() {",
      "· · flush = true",
      "· }",
      "· if flush {",
      "· · toFlush = append(toFlush, batchKey)",
      "· } else {",
      "· · batchMemorySize := curBatch.GetPayloadByteSize()",
      "· · totalMemory += batchMemorySize",
      "· · a := &queue.BatchQueueItem{ Batch: curBatch, Index: queueIndex, Priority: batchMemorySize, Key: batchKey, }",
      "· · bq.Push(a)",
      "· · queueIndex += 1",
      "· }",
      "}",
      "if totalMemory >= b.batcherMemorySoftLimit {",
      "· heap.Init(&bq)",
      "· for {",
      "· · if totalMemory < b.batcherMemorySoftLimit {",
      "· · · break",
      "· · }",
      "· · item := heap.Pop(&bq).(*queue.BatchQueueItem)",
      "· · toFlush = append(toFlush, item.Key)",
      "· · totalMemory -= item.Batch.GetPayloadByteSize()",
      "· }",
      "}",
      "for _, key := range toFlush {",
      "· curBatch := b.batches[key]",
      "· ok := b.sendBatch(curBatch)",
      "· if !ok {",
      "· · return false",
      "· }",
      "· b.statsChan <- stats.NewStatCount(\"batcher\", \"batch_closed_early\", 1, time.Now().UnixNano())",
      "· delete(b.batches, key)",
      "}",
      "return true"
    ] := rfl

end PgBifrost.Props.C16
