import PgBifrost.Proofs.BatcherTick
/-!
# C16 — flush by age and by memory pressure (decision logic; timing is modelled)

`validTick K cfg now s times order` says that `order` is a flush order `handleTicker` can produce at
time `now` when the open batches have the creation/modification times `times` (any permutation of
the mandatory set — Go map iteration order — followed by a valid sequence of heap pops).
-/
namespace PgBifrost.Props.C16
open PgBifrost.Batch PgBifrost.Batcher

/-- **10. Due batches are flushed.** At a valid tick every open batch has observed times, and every
open batch that is empty, idle past `updAge`, older than `maxAge` or full (`mustFlush`) is in the
flush order; after the tick it is no longer open and, if non-empty, it was dispatched. -/
theorem tick_flushes_due {K : Kind} {cfg : Cfg} {now : Int} {s : State} {times : List BTimes} {order : List PKey}
    (hv : validTick K cfg now s times order = true) {pk : PKey} {b : Batch} (ho : getOpen s pk = some b) :
    ∃ t, timesOf times pk = some t ∧
      (mustFlush K cfg now b t.ctime t.mtime = true →
        pk ∈ order ∧ getOpen (onTick cfg s order).1 pk = none ∧
        (b.isEmpty = false → b ∈ dispatched (onTick cfg s order).2)) := by
  obtain ⟨h1, _, h3, _⟩ := validTick_parts hv
  have hmem := mem_of_getOpen ho
  have hk : pk ∈ keysOf s := List.mem_map.mpr ⟨_, hmem, rfl⟩
  have ht := h1 pk hk
  cases htt : timesOf times pk with
  | none => rw [htt] at ht; cases ht
  | some t =>
    refine ⟨t, rfl, fun hf => ?_⟩
    have hord : pk ∈ order := List.mem_of_mem_take (h3 pk (mem_mandatory hmem htt hf))
    refine ⟨hord, by rw [getOpen_onTick, if_pos hord], fun hne => ?_⟩
    exact foldl_flushOne_dispatches cfg order s [] pk b hord ho hne

/-- 10, for any order (valid or not): a key in the flush order is not open after the tick, and its
batch, if non-empty, was dispatched; a key not in the order keeps its batch. -/
theorem tick_flushes_order (cfg : Cfg) (s : State) (order : List PKey) (pk : PKey) :
    (pk ∈ order → getOpen (onTick cfg s order).1 pk = none ∧
      ∀ b, getOpen s pk = some b → b.isEmpty = false → b ∈ dispatched (onTick cfg s order).2) ∧
    (pk ∉ order → getOpen (onTick cfg s order).1 pk = getOpen s pk) := by
  refine ⟨fun h => ⟨by rw [getOpen_onTick, if_pos h], fun b ho hne => ?_⟩, fun h => by rw [getOpen_onTick, if_neg h]⟩
  exact foldl_flushOne_dispatches cfg order s [] pk b h ho hne

/-- **11a. Memory pressure, totals.** After a valid tick (open keys distinct, as in every reachable
state: `reach_keysNodup`) the batches left open total fewer than `memLimit` bytes, or none is left. -/
theorem tick_pressure {K : Kind} {cfg : Cfg} {now : Int} {s : State} {times : List BTimes} {order : List PKey}
    (hn : KeysNodup s) (hv : validTick K cfg now s times order = true) :
    openBytes (onTick cfg s order).1 < cfg.memLimit ∨ (onTick cfg s order).1.openB = [] :=
  tick_pressure_total hn hv

/-- **11b. Memory pressure, largest first.** The part of a valid flush order after the mandatory
keys is a pop sequence: each popped key is an open, non-mandatory key; at the moment it is popped
its batch is at least as large as every batch still kept (open, non-mandatory, not popped earlier),
and the kept total is still at or above the limit. -/
theorem tick_pressure_order {K : Kind} {cfg : Cfg} {now : Int} {s : State} {times : List BTimes} {order : List PKey}
    (hv : validTick K cfg now s times order = true) (i : Nat) (p : PKey)
    (hi : (order.drop (mandatory K cfg now s times).length)[i]? = some p) :
    p ∈ keysOf s ∧ p ∉ mandatory K cfg now s times ∧
    (∀ k ∈ keysOf s, k ∉ mandatory K cfg now s times →
      k ∉ (order.drop (mandatory K cfg now s times).length).take i → bytesOf s k ≤ bytesOf s p) ∧
    cfg.memLimit ≤
      sumBytes s ((keysOf s).filter fun k => !(mandatory K cfg now s times).contains k)
        - sumBytes s ((order.drop (mandatory K cfg now s times).length).take i) := by
  obtain ⟨_, _, _, h4⟩ := validTick_parts hv
  split at h4
  · obtain ⟨h1, h2, h3⟩ := validPops_order cfg s _ _ _ h4 i p hi
    rw [List.mem_filter] at h1
    refine ⟨h1.1, by simpa using h1.2, fun k hk hm hnot => ?_, ?_⟩
    · exact h2 k (List.mem_filter.mpr ⟨hk, by simpa using hm⟩) hnot
    · rw [foldl_bytes] at h3; omega
  · rw [h4] at hi; simp at hi

variable {K : Kind} {big bad : Msg → Bool} {dom : Msg → Prop}

/-- the hypothesis `KeysNodup` of 11a holds in every state a (non-dead) run reaches -/
theorem run_keysNodup (hL : Laws K big bad dom) (cfg : Cfg) (ops : List Op)
    (hdom : ∀ m ∈ dataMsgs ops, dom m) (hnd : (run K cfg ops).1.dead = false) :
    KeysNodup (run K cfg ops).1 :=
  reach_keysNodup (run_reach_or_dead hL cfg ops hdom hnd)

/-! ### not vacuous: a concrete valid tick -/

private def m1 : Msg := ⟨.data, [1], 7, 70, 10, 100, 1, 0⟩
private def m2 : Msg := ⟨.data, [2], 7, 70, 30, 101, 2, 0⟩
private def cfg0 : Cfg := ⟨2, .partition, 1000, 5000, 25⟩
private def s0 : State := (run (genericKind 3) cfg0 [.msg m1, .msg m2]).1
private def times0 : List BTimes := [⟨[1], 0, 0⟩, ⟨[2], 0, 0⟩]

/-- at time 10 nothing is mandatory, the total 40 ≥ 25 forces popping the largest batch (key 2) -/
example : validTick (genericKind 3) cfg0 10 s0 times0 [[2]] = true := by decide
example : openBytes (onTick cfg0 s0 [[2]]).1 < cfg0.memLimit ∨ (onTick cfg0 s0 [[2]]).1.openB = [] :=
  tick_pressure (K := genericKind 3) (now := 10) (times := times0)
    (run_keysNodup (genericLaws 3 (by omega)) cfg0 _ (fun _ _ => trivial) (by decide)) (by decide)
/-- at time 2000 both batches are idle past `updAge`: both must be flushed -/
example : validTick (genericKind 3) cfg0 2000 s0 times0 [[2], [1]] = true := by decide

end PgBifrost.Props.C16
