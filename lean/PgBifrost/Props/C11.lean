import PgBifrost.Proofs.Kinesis
import PgBifrost.Gen.KinesisSrc
import PgBifrost.Gen.KinesisLoopSrc
/-!
# C11 — Kinesis: written means every record was accepted; only failures are retried

All statements are about `KinesisRetry.run` / `KinesisRetry.worker` (the model of
`transportWithRetry` and `StartTransporting`), for every batch, every script of `PutRecords`
outcomes and every retry budget.
-/
namespace PgBifrost.Props.C11
open PgBifrost.KinesisRetry PgBifrost.Spec.Kinesis PgBifrost.Proofs.Kinesis PgBifrost.Batch

variable {α : Type}

/-- **the in-place compaction (`toRetry := pri.Records[:0]` … `append`) never reads a cell it has
already overwritten and never goes out of range: it equals filtering the request by the positions
whose answer carries an error code** -/
theorem compact_eq_filter (recs : List α) (codes : List Bool) (h : codes.length = recs.length) :
    compact recs codes = some (((recs.zip codes).filter (·.2)).map (·.1)) := by
  rw [compact_eq_failedOf recs codes h, failedOf_eq_filter]

example : compact [10, 11, 12, 13, 14] [false, true, true, false, true] = some [11, 12, 14] := by decide

/-- **written ⇒ every record of the batch was accepted in some call.** If the worker's result is
`written` and every `PutRecords` answer played during the run satisfied the AWS contract (one
result entry per request entry, `FailedRecordCount` = number of error codes), then every record of
the batch was entry `j` of some call `i` whose answer has no error code at `j`. -/
theorem kinesis_written_all_accepted (recs : List α) (outs : List Outcome) (budget : Nat)
    (calls : List (List α)) (hrun : run recs outs budget = (.written, calls))
    (hc : AwsContract outs calls) :
    ∀ r ∈ recs, ∃ (i j : Nat) (c : List α),
      calls[i]? = some c ∧ c[j]? = some r ∧ acceptedAt outs i j = true :=
  loop_written (budget + 1) recs outs calls hrun hc

/-- non-vacuity: 3 records, first call fails records 0 and 2, second call is a whole error, third
fails record 2 (position 1 of that call), fourth succeeds; the contract holds and the run is written -/
example :
    let outs := [.resp [true, false, true] 2, .callError, .resp [false, true] 1, .resp [false] 0]
    run [7, 8, 9] outs 5 = (.written, [[7, 8, 9], [7, 9], [7, 9], [9]]) ∧
    awsContractB outs [[7, 8, 9], [7, 9], [7, 9], [9]] = true := by decide

/-- without the contract the conclusion is false for the code: `FailedRecordCount = 0` is tested
first and means success whatever the entries say (the reason `hc` is a hypothesis) -/
theorem kinesis_written_needs_contract_witness :
    run [7, 8] [.resp [true, false] 0] 3 = (.written, [[7, 8]]) ∧
    allAccepted [7, 8] [[7, 8]] [.resp [true, false] 0] = false := by decide

/-- **only failures are retried, in order, unmodified.** The first call carries the whole batch;
call `n+1` carries exactly call `n`'s records if call `n` failed as a whole, and otherwise exactly
the sub-list of call `n`'s records whose answer entries carry an error code (relative order kept;
the records are the same values, the model never builds a record). No contract is needed. -/
theorem kinesis_retry_exact (recs : List α) (outs : List Outcome) (budget : Nat) :
    let calls := (run recs outs budget).2
    (calls = [] ∨ calls.head? = some recs) ∧
    ∀ (n : Nat) (a b : List α), calls[n]? = some a → calls[n + 1]? = some b →
      b = (match outAt outs n with
           | .resp codes _ => failedOf a codes
           | _ => a) ∧
      b.Sublist a := by
  refine ⟨loop_calls_head _ _ _, ?_⟩
  intro n a b ha hb
  have h := loop_retry (budget + 1) recs outs n a b ha hb
  refine ⟨by rw [h]; cases outAt outs n <;> rfl, ?_⟩
  rw [h]
  cases outAt outs n with
  | resp codes fc => exact failedOf_sublist a codes
  | callError => exact List.Sublist.refl a
  | cancelled => exact List.Sublist.refl a

example :
    (run [1, 2, 3, 4] [.resp [false, true, true, false] 2, .callError, .resp [true, false] 1, .resp [false] 0] 9).2
      = [[1, 2, 3, 4], [2, 3], [2, 3], [2]] := by decide

/-- every call is followed by another one only if it failed (as a whole or in part): a call that
was answered with `FailedRecordCount = 0` is the last one -/
theorem kinesis_no_call_after_success (recs : List α) (outs : List Outcome) (budget : Nat) (n : Nat)
    (codes : List Bool) (h : outAt outs n = .resp codes 0) :
    (run recs outs budget).2.length ≤ n + 1 := by
  unfold run
  generalize budget + 1 = fuel
  induction fuel generalizing recs outs n with
  | zero => simp [loop]
  | succ fuel ih =>
    cases n with
    | zero =>
      rw [outAt_zero] at h
      rw [loop_success fuel recs outs codes h]; simp
    | succ n =>
      rw [← outAt_tail] at h
      rcases loop_cases fuel recs outs with ⟨_, e⟩ | ⟨_, e⟩ | ⟨_, _, e⟩ | ⟨_, _, _, _, _, e⟩ | ⟨_, _, _, _, _, e⟩ <;>
        rw [e] <;> simp
      · exact ih _ outs.tail n h
      · exact ih _ outs.tail n h

/-- **nothing is reported when the worker gives up**: for every batch the worker handles, a result
other than `written` (retry budget exhausted, shutdown requested before an attempt, the size-mismatch
panic) sends nothing on `txnsWritten` and no `written` stat, and it is the last batch the worker
touches (fail-stop: `terminated`); what is reported for a written batch is that batch's own transactions. -/
theorem kinesis_no_report_on_giveup (budget : Nat) (jobs : List (Job α)) :
    (∀ rep ∈ worker budget jobs, rep.result ≠ .written → rep.reported = none ∧ rep.writtenStat = none) ∧
    (∀ (k : Nat) (rep : Report α), (worker budget jobs)[k]? = some rep → rep.result ≠ .written →
        (worker budget jobs).length = k + 1 ∧ terminated budget jobs = true) ∧
    (∀ (k : Nat) (rep : Report α), (worker budget jobs)[k]? = some rep →
        ∃ j, jobs[k]? = some j ∧ rep = processBatch budget j ∧
          (rep.result = .written → rep.reported = some j.txns)) := by
  refine ⟨?_, ?_, ?_⟩
  · induction jobs with
    | nil => simp [worker]
    | cons j js ih =>
      intro rep hrep hne
      rw [worker] at hrep
      split at hrep
      · rcases List.mem_cons.mp hrep with rfl | h
        · contradiction
        · exact ih rep h hne
      · simp only [List.mem_singleton] at hrep
        subst hrep
        exact processBatch_giveup budget j hne
  · induction jobs with
    | nil => simp [worker]
    | cons j js ih =>
      intro k rep hk hne
      unfold terminated
      rw [worker] at hk ⊢
      split at hk
      · rename_i hw
        cases k with
        | zero => simp at hk; subst hk; contradiction
        | succ k =>
          simp only [List.getElem?_cons_succ] at hk
          have := ih k rep hk hne
          simp only [hw, if_true, List.length_cons, List.any_cons]
          refine ⟨by omega, ?_⟩
          simp
          exact ⟨rep, List.mem_of_getElem? hk, hne⟩
      · rename_i hw
        cases k with
        | zero =>
          simp only [List.getElem?_cons_zero, Option.some.injEq] at hk
          subst hk
          simp [hw]
        | succ k => simp at hk
  · induction jobs with
    | nil => simp [worker]
    | cons j js ih =>
      intro k rep hk
      rw [worker] at hk
      split at hk
      · cases k with
        | zero =>
          simp only [List.getElem?_cons_zero, Option.some.injEq] at hk
          subst hk
          refine ⟨j, by simp, rfl, ?_⟩
          exact processBatch_written budget j
        | succ k =>
          simp only [List.getElem?_cons_succ] at hk
          simpa using ih k rep hk
      · cases k with
        | zero =>
          simp only [List.getElem?_cons_zero, Option.some.injEq] at hk
          subst hk
          refine ⟨j, by simp, rfl, ?_⟩
          exact processBatch_written budget j
        | succ k => simp at hk

/-- non-vacuity: budget 1 (two calls), second batch exhausts it; the third batch is never touched -/
example :
    let t1 : List TxnCount := [⟨1, 1, 2⟩]
    let t2 : List TxnCount := [⟨2, 2, 1⟩]
    let jobs : List (Job Nat) := [⟨[1, 2], t1, [.resp [true, false] 1, .resp [false] 0], false⟩,
                                  ⟨[3], t2, [.callError, .resp [true] 1], false⟩,
                                  ⟨[4], t2, [], false⟩]
    (worker 1 jobs).map (fun r => (r.result, r.reported, r.calls)) =
      [(.written, some t1, [[1, 2], [1]]), (.exhausted, none, [[3], [3]])] ∧
    terminated 1 jobs = true := by decide

/-- cancellation before an attempt: nothing reported although the first call had accepted a record -/
example : run [1, 2] [.resp [true, false] 1, .cancelled] 5 = (.cancelled, [[1, 2]]) := by decide

/-- a response of the wrong length with `FailedRecordCount > 0` is the panic branch -/
example : run [1, 2] [.resp [true] 1] 5 = (.panicSizeMismatch, [[1, 2]]) := by decide

/-- the index panic of the compaction loop is unreachable -/
theorem kinesis_no_index_panic (recs : List α) (outs : List Outcome) (budget : Nat) :
    (run recs outs budget).1 ≠ .panicIndex := by
  unfold run
  generalize budget + 1 = fuel
  induction fuel generalizing recs outs with
  | zero => simp [loop]
  | succ fuel ih =>
    rcases loop_cases fuel recs outs with ⟨_, e⟩ | ⟨_, e⟩ | ⟨_, _, e⟩ | ⟨_, _, _, _, _, e⟩ | ⟨_, _, _, _, _, e⟩ <;>
      rw [e] <;> first | exact ih _ _ | simp

/-- at most `budget + 1` calls per batch -/
theorem kinesis_calls_le_budget (recs : List α) (outs : List Outcome) (budget : Nat) :
    (run recs outs budget).2.length ≤ budget + 1 := by
  unfold run
  generalize budget + 1 = fuel
  induction fuel generalizing recs outs with
  | zero => simp [loop]
  | succ fuel ih =>
    rcases loop_cases fuel recs outs with ⟨_, e⟩ | ⟨_, e⟩ | ⟨_, _, e⟩ | ⟨_, _, _, _, _, e⟩ | ⟨_, _, _, _, _, e⟩ <;>
      rw [e] <;> first | (simp; done) | (simpa using ih _ _)

/-! ### the decidable spec used by the monitor accepts the model's histories and rejects broken ones -/

example :
    let outs := [.resp [true, false, true] 2, .callError, .resp [false, true] 1, .resp [false] 0]
    let t : List TxnCount := [⟨1, 1, 3⟩]
    check [7, 8, 9] (run [7, 8, 9] outs 5).2 outs true (some t) t = .ok ∧
    -- a success kept in the retry
    check [7, 8, 9] [[7, 8, 9], [7, 8, 9]] [.resp [true, false, true] 2, .resp [false, false, false] 0] true (some t) t
      = .viol "retry-not-exactly-the-failed-records" ∧
    -- reported although record 9 was never accepted
    check [7, 8, 9] [[7, 8, 9], [7, 9]] [.resp [true, false, true] 2, .resp [false, true] 1] true (some t) t
      = .viol "written-but-not-all-accepted" ∧
    -- outside the AWS contract nothing is judged
    check [7, 8] [[7, 8]] [.resp [true, false] 0] true (some t) t = .skip := by decide

/-- **the retry loop of the model is the iteration of the attempt in the source**
(`kinesis_attempt_as_in_source`). `Gen/KinesisSrc.lean` is the `operation` closure of `transportWithRetry`
TRANSLATED on every run: cancellation at the top returns without a call; a `PutRecords` error retries the same
records; `FailedRecordCount == 0` is tested first and means success; then the size check; then the in-place
compaction and `return err`. One step of the model's loop is exactly that attempt. -/
theorem kinesis_attempt_as_in_source {α : Type} (fuel : Nat) (cur : List α) (outs : List Outcome) :
    loop (fuel + 1) cur outs =
      (match PgBifrost.Gen.KinesisSrc.attempt cur (headOut outs) with
       | .cancelled => (.cancelled, [])
       | .success => (.written, [cur])
       | .panicSize => (.panicSizeMismatch, [cur])
       | .panicIndex => (.panicIndex, [cur])
       | .retry next => ((loop fuel next outs.tail).1, cur :: (loop fuel next outs.tail).2)) := by
  simp only [loop, PgBifrost.Gen.KinesisSrc.attempt]
  cases ho : headOut outs with
  | cancelled => rfl
  | callError => rfl
  | resp codes fc =>
    by_cases h0 : fc = 0
    · simp [h0]
    · by_cases hl : codes.length = cur.length
      · have hl' : ¬ cur.length ≠ codes.length := by simp [hl]
        simp only [h0, ↓reduceIte, hl, ne_eq, not_true_eq_false]
        cases compact cur codes <;> rfl
      · have hl' : cur.length ≠ codes.length := fun h => hl h.symm
        simp [h0, hl, hl']

/-- The loop body of `StartTransporting`, translated statement by statement in source order, is the model's
`processBatch`: the duration stat precedes the error test, the error test the cancellation test, and the `written`
stat and the hand-over of the batch's transactions to the progress channel come only after both. -/
theorem kinesis_iteration_as_in_source {α : Type} (budget : Nat) (j : Job α) :
    PgBifrost.Gen.KinesisLoopSrc.iteration budget j = processBatch budget j := by
  unfold PgBifrost.Gen.KinesisLoopSrc.iteration processBatch
  cases hp : j.preCancelled
  · cases hr : (run j.recs j.outs budget).1 <;> simp [Id.run, hr, pure, bind]
  · simp [Id.run, pure, bind]

end PgBifrost.Props.C11
