import PgBifrost.Proofs.LedgerSimple.Drain
import PgBifrost.Proofs.LedgerRefine
import PgBifrost.Proofs.LedgerSpecSound
import PgBifrost.Proofs.ClientC02
import PgBifrost.Proofs.SysExample
import PgBifrost.Proofs.LedgerSrc
import PgBifrost.Gen.ClientSrc
/-!
# C02 — the ledger never wedges (property theorems)

Layer L1 (ledger), faithful model. Once every committed delivery is completely written and every
delivery that never got a `seen` has been superseded by a later key of its transaction, every
entry left in the ledger is complete and committed: one final `emitProgress` releases
everything and reports the largest commit of the trace.
-/
namespace PgBifrost.Props.C02
open PgBifrost.Ledger PgBifrost.LedgerSimple

/-- **The ledger drains (partial: under `NoStale`).**

`hDone`: every `seen` delivery is completely written by the end and has a non-zero commit.
`hSup`: every delivery that never got a `seen` was followed, after its last mention, by a
different key of the same transaction.

Conclusion: the final emit empties the item list and, if anything was still in the ledger,
reports `maxCommit tr`. (If the ledger is already empty — everything was released by earlier
emits — the final emit reports nothing; see `drains_nonempty_needed`.) -/
theorem ledger_drains_partial {tr : List Op} (hC : Contract tr) (hS : NoStale tr)
    (hDone : ∀ (i t k tot c : Nat) (r : Bool), tr[i]? = some (Op.seen t k tot c r) → wsum tr k = tot ∧ 0 < c)
    (hSup : ∀ (i : Nat) (op : Op) (k : Nat), tr[i]? = some op → op.key? = some k → (∀ j, ¬ seenAt tr j k) →
        ∃ (j : Nat) (op' : Op) (k' : Nat), tr[j]? = some op' ∧ op'.key? = some k' ∧ k' ≠ k ∧ op'.txn? = op.txn? ∧
          ∀ m, mentAt tr m k → m < j)
    {s : PgBifrost.Ledger.State} (hrun : PgBifrost.Ledger.run tr = some s) :
    (PgBifrost.Ledger.emit s).2.items = [] ∧
    (s.items ≠ [] →
       PgBifrost.Ledger.emitVal s = some (PgBifrost.Spec.Ledger.maxCommit tr)) := by
  obtain ⟨s', hrun', hitems, hA⟩ :=
    PgBifrost.LedgerRefine.run_refine hC hS tr.length (Nat.le_refl _)
  rw [List.take_length] at hrun' hitems
  rw [hrun] at hrun'; cases hrun'
  obtain ⟨h1, h2⟩ := drain_simple hC hS hDone hSup
  refine ⟨?_, ?_⟩
  · rw [(PgBifrost.LedgerRefine.emit_refine hA).1, hitems]; exact h1
  · intro hne
    rw [hitems] at hne
    obtain ⟨c, hv, hex, hmax⟩ := h2 hne
    rw [PgBifrost.LedgerRefine.emitVal_eq, hitems, hv,
      PgBifrost.Spec.Ledger.maxCommit_eq hex hmax]

/-- the same, with the hypotheses discharged by the runtime monitors -/
theorem ledger_drains_of_checks {tr : List Op}
    (h1 : PgBifrost.Spec.Ledger.checkContract tr = true)
    (h2 : PgBifrost.Spec.Ledger.checkNoStale tr = true)
    (h3 : PgBifrost.Spec.Ledger.drainHyps tr = true) :
    ∃ s, PgBifrost.Ledger.run tr = some s ∧ (PgBifrost.Ledger.emit s).2.items = [] ∧
      (s.items ≠ [] → PgBifrost.Ledger.emitVal s = some (PgBifrost.Spec.Ledger.maxCommit tr)) := by
  have hC := PgBifrost.Spec.Ledger.checkContract_sound h1
  have hS := PgBifrost.Spec.Ledger.checkNoStale_sound h2
  obtain ⟨hD, hSup⟩ := PgBifrost.Spec.Ledger.drainHyps_sound h3
  obtain ⟨s, hrun, _, _⟩ := PgBifrost.LedgerRefine.run_refine hC hS tr.length (Nat.le_refl _)
  rw [List.take_length] at hrun
  exact ⟨s, hrun, ledger_drains_partial hC hS hD hSup hrun⟩

/-! ### non-vacuity -/

/-- Three transactions: txn 1 interrupted (`k11` written, never seen) and redelivered as `k12`
(written before seen) and released by a mid-trace emit; txn 2 seen before written; txn 3
interrupted (`k31`) and redelivered as an empty transaction `k32`. Two entries are left at the
end. -/
def drainTrace : List Op :=
  [.written 1 11 2, .written 1 12 1, .seen 1 12 1 100 true, .emit, .seen 2 23 1 200 true,
   .written 3 31 1, .written 2 23 1, .seen 3 32 0 300 true]

example :
    Contract drainTrace ∧ NoStale drainTrace ∧ AllDone drainTrace ∧ AllSuperseded drainTrace ∧
    ∃ s, PgBifrost.Ledger.run drainTrace = some s ∧ s.items.length = 2 ∧
      (PgBifrost.Ledger.emit s).2.items = [] ∧ PgBifrost.Ledger.emitVal s = some 300 ∧
      PgBifrost.Spec.Ledger.maxCommit drainTrace = 300 :=
  ⟨PgBifrost.Spec.Ledger.checkContract_sound (by decide),
   PgBifrost.Spec.Ledger.checkNoStale_sound (by decide),
   (PgBifrost.Spec.Ledger.drainHyps_sound (by decide)).1,
   (PgBifrost.Spec.Ledger.drainHyps_sound (by decide)).2,
   ⟨[⟨2, 23, 200, 1, 1⟩, ⟨3, 32, 300, 0, 0⟩], [(2, 23), (3, 32)]⟩, by decide⟩

/-- the theorem instantiated on `drainTrace` -/
example : ∃ s, PgBifrost.Ledger.run drainTrace = some s ∧ s.items ≠ [] ∧
    (PgBifrost.Ledger.emit s).2.items = [] ∧ PgBifrost.Ledger.emitVal s = some 300 := by
  obtain ⟨s, hrun, h1, h2⟩ := ledger_drains_of_checks (tr := drainTrace) (by decide) (by decide) (by decide)
  have hs : s = ⟨[⟨2, 23, 200, 1, 1⟩, ⟨3, 32, 300, 0, 0⟩], [(2, 23), (3, 32)]⟩ :=
    Option.some.inj (hrun.symm.trans (by decide))
  have hne : s.items ≠ [] := by rw [hs]; decide
  exact ⟨s, hrun, hne, h1, (h2 hne).trans (by decide)⟩

/-- Why the premise of the second conjunct is `s.items ≠ []` and not "the trace contains a
`seen`": if an earlier emit already released everything, the ledger is empty at the end and the
final emit reports nothing, although all hypotheses hold. -/
theorem drains_nonempty_needed :
    ∃ tr : List Op, Contract tr ∧ NoStale tr ∧ AllDone tr ∧ AllSuperseded tr ∧
      tr.any (fun op => match op with | .seen .. => true | _ => false) = true ∧
      ∃ s, PgBifrost.Ledger.run tr = some s ∧ PgBifrost.Ledger.emitVal s = none :=
  ⟨[.seen 1 11 0 5 true, .emit],
   PgBifrost.Spec.Ledger.checkContract_sound (by decide),
   PgBifrost.Spec.Ledger.checkNoStale_sound (by decide),
   (PgBifrost.Spec.Ledger.drainHyps_sound (by decide)).1,
   (PgBifrost.Spec.Ledger.drainHyps_sound (by decide)).2,
   by decide, ⟨[], []⟩, by decide⟩


/-! ## Client layer: the synthetic COMMIT of error recovery (`recoverFromErrorResponse`)

`c02Recovery h`: at every `ErrorResponse` of the history `h`, if a delivery is open downstream
(BEGIN forwarded, no COMMIT forwarded since) exactly one COMMIT with that delivery's transaction id
and key and a non-zero LSN is forwarded, and nothing is forwarded when no delivery is open.
Verdicts: `zeroLsn` = F2(a), `notOpen` = F2(b), `wrongKey` / `unclosed` = F2(c). -/
section client
open PgBifrost.Client PgBifrost.Spec.Client PgBifrost.ClientProofs

/-- FULL statement, for the client with the planned F2 patch plus the one-flag change for (c)
(model variant `.fixedC`, validated against a scratch copy of the repository carrying both):
every recovery closes exactly the open delivery. Hypothesis: the position announced by the first
keepalive is not 0 (it is the stamp of last resort). -/
theorem recovery_commit_closes_open_delivery (evs : List Ev)
    (hinit : ∀ e ∈ evs.head?, ∀ w, initOf e = some w → 0 < w) :
    c02Recovery (hist .fixedC evs) = true :=
  rec_hist evs hinit

/-- the planned F2 patch as it is (variant `.fixed`): never a zero LSN, never a COMMIT for a
closed delivery or under a foreign key; the only remaining deviation is an open delivery left
without COMMIT (F2c, see the witness below) -/
theorem recovery_fixed_partial (evs : List Ev)
    (hinit : ∀ e ∈ evs.head?, ∀ w, initOf e = some w → 0 < w) :
    okOrUnclosed (c02Verdicts (hist .fixed evs)) = true :=
  rec_fixed_hist evs hinit

def f2a : List Ev := [⟨[], .keepalive false 100 0, false⟩, ⟨[], .data 110 (.begin "7") 1000 [], false⟩,
  ⟨[], .data 120 .change 0 [], false⟩, ⟨[], .errorResponse 500, false⟩]
def f2b : List Ev := [⟨[], .keepalive false 100 0, false⟩, ⟨[], .data 110 (.begin "7") 1000 [], false⟩,
  ⟨[], .data 130 (.commit "7") 0 [], false⟩, ⟨[], .errorResponse 500, false⟩]
def f2c : List Ev := [⟨[], .keepalive false 100 0, false⟩, ⟨[], .data 110 (.begin "6") 1000 [], false⟩,
  ⟨[], .data 115 (.commit "6") 0 [], false⟩, ⟨[], .data 120 (.begin "7") 2000 [], false⟩,
  ⟨[], .data 125 .change 0 [], false⟩, ⟨[], .closedErr, false⟩,
  ⟨[], .data 120 (.begin "7") 3000 [], false⟩, ⟨[], .errorResponse 500, false⟩]

/-- F2(a) on today's code: error response before any COMMIT was received → LSN 0 -/
theorem recovery_today_witness_a : c02Verdicts (hist .today f2a) = [.zeroLsn] := by decide
/-- F2(b) on today's code: error response between transactions → a second COMMIT for the closed key -/
theorem recovery_today_witness_b : c02Verdicts (hist .today f2b) = [.notOpen] := by decide
/-- F2(c) on today's code: after a cut whose redelivered BEGIN was dropped the COMMIT names the
dropped BEGIN's key, which no message carries -/
theorem recovery_today_witness_c : c02Verdicts (hist .today f2c) = [.wrongKey] := by decide
/-- F2(c) survives the planned patch: nothing is emitted, the interrupted delivery stays open -/
theorem recovery_fixed_witness_c : c02Verdicts (hist .fixed f2c) = [.unclosed] := by decide
/-- starting position 0: the stamp of last resort is 0 as well (hypothesis `hinit` is needed) -/
theorem recovery_fixedC_witness_init0 :
    c02Verdicts (hist .fixedC (⟨[], .keepalive false 0 0, false⟩ :: f2a.tail)) = [.zeroLsn] := by decide

example : c02Verdicts (hist .fixed f2a) = [.ok] ∧ c02Verdicts (hist .fixed f2b) = [.ok] ∧
    c02Verdicts (hist .fixedC f2a) = [.ok] ∧ c02Verdicts (hist .fixedC f2b) = [.ok] ∧
    c02Verdicts (hist .fixedC f2c) = [.ok] := by decide
example : fwdsOf (acts (hist .fixedC f2c)) = [(.begin, "6", some ("6", 1000), 110),
    (.commit, "6", some ("6", 1000), 115), (.begin, "7", some ("7", 2000), 120),
    (.change, "7", some ("7", 2000), 125), (.commit, "7", some ("7", 2000), 115)] := by decide
end client

/-! ## Top: the composed system quiesces (`Model/Sys.lean`; `Sys.Env`, `Sys.Sched`: see `Props/C01.lean`) -/
section sys
open PgBifrost.Batch
variable {K : Kind} {big bad : Msg → Bool} {dom : Msg → Prop}

/-- **C02 Top (`sys_quiesces`).** Suppose the whole input was fed and it does not end inside a
transaction (`g.cur = none` for the grammar state `g` of the fed stream; with redelivery: every
interrupted delivery was redelivered and that redelivery committed), nothing is left between the
batcher and the tracker (`Sys.Quiet`: every queue empty, every worker idle, the written channel
consumed, the batcher's seen list empty and no open batch with a non-empty `txns`), and no data
message was dropped as invalid without being counted (`big m || !bad m`). Then the tracker is alive
with some ledger `l`; one more `emit` leaves the ledger empty; and unless the ledger was already
empty that emit acknowledges the LSN of the last COMMIT of the input. Uses `ledger_drains_partial`
(L1), the trace contract (L2) and the batcher's accounting (`txns_global_accounting`, `seen_log_exact`). -/
theorem sys_quiesces (bcfg : Batcher.Cfg) (redeliver : Bool) (acts : List Sys.Act)
    (hE : Sys.Env redeliver K big bad dom acts) (hs : Sys.Sched redeliver ⟨K, bcfg⟩ acts)
    (g : Sys.GState) (hg : Sys.gscan redeliver (Sys.fedMsgs acts) = some g)
    (hcomplete : g.cur = none) (hQ : Sys.Quiet (Sys.run ⟨K, bcfg⟩ acts))
    (hvalid : ∀ m ∈ Sys.fedMsgs acts, m.op = .data → (big m || !bad m) = true) :
    ∃ l, (Sys.run ⟨K, bcfg⟩ acts).ledger = some l ∧
      (Sys.run ⟨K, bcfg⟩ (acts ++ [.emit])).ledger = some (PgBifrost.Ledger.emit l).2 ∧
      (PgBifrost.Ledger.emit l).2.items = [] ∧
      (l.items ≠ [] →
        (Sys.run ⟨K, bcfg⟩ (acts ++ [.emit])).acks =
          (Sys.run ⟨K, bcfg⟩ acts).acks ++ [Sys.lastCommitLsn (Sys.fedMsgs acts)]) := by
  obtain ⟨hC, hS, hD, hSup, hmax, l, hl, hrun⟩ :=
    Sys.quiesce_hyps bcfg hE.kind redeliver acts hE.dom g hg hs hcomplete hQ hvalid
  obtain ⟨h1, h2⟩ := ledger_drains_partial hC hS hD hSup hrun
  have hdead : (Sys.run ⟨K, bcfg⟩ acts).dead = false := by simp [Sys.SysState.dead, hl]
  have hstep : Sys.run ⟨K, bcfg⟩ (acts ++ [.emit]) = Sys.stepLive ⟨K, bcfg⟩ (Sys.run ⟨K, bcfg⟩ acts) .emit := by
    rw [Sys.run_snoc, Sys.step_live _ hdead]
  refine ⟨l, hl, ?_, h1, fun hne => ?_⟩
  · rw [hstep]; simp [Sys.stepLive, Sys.perform, Sys.ledApply, hl, PgBifrost.Ledger.step]
  · have hv := h2 hne
    rw [hmax, Sys.gscan_last _ _ hg] at hv
    rw [hstep]; simp [Sys.stepLive, Sys.perform, hl, hv]

/-- non-vacuity: `Sys.exActs'` (the example run stopped before its last emit) is quiescent with one
entry left in the ledger; the theorem says the next emit acknowledges 113 and empties the ledger -/
example : ∃ l, (Sys.run Sys.exCfg Sys.exActs').ledger = some l ∧
      (Sys.run Sys.exCfg (Sys.exActs' ++ [.emit])).ledger = some (PgBifrost.Ledger.emit l).2 ∧
      (PgBifrost.Ledger.emit l).2.items = [] ∧
      (l.items ≠ [] → (Sys.run Sys.exCfg (Sys.exActs' ++ [.emit])).acks =
          (Sys.run Sys.exCfg Sys.exActs').acks ++ [Sys.lastCommitLsn (Sys.fedMsgs Sys.exActs')]) :=
  sys_quiesces Sys.exCfg.bcfg false Sys.exActs' Sys.exEnv' (Or.inl rfl)
    { cur := none, used := [80, 70], usedT := [8, 7], last := 113, intr := [] } (by decide) rfl Sys.ex_quiet'
    (fun _ _ _ => rfl)

example : (Sys.run Sys.exCfg Sys.exActs').ledger = some ⟨[⟨8, 80, 113, 2, 2⟩], [(8, 80)]⟩ ∧
    Sys.lastCommitLsn (Sys.fedMsgs Sys.exActs') = 113 := ⟨Sys.ex_ledger', by decide⟩

end sys

/-- the ledger functions the drain theorems are about are the statement-by-statement translation of
`transport/progress/ledger.go` regenerated on this run (see `ledger_as_in_source` of C01) -/
theorem ledger_model_is_source :
    (∀ s t k tot c, PgBifrost.Gen.LedgerSrc.updateSeen s t k tot c = PgBifrost.Ledger.updateSeen s t k tot c) ∧
    (∀ s t k n, PgBifrost.Gen.LedgerSrc.updateWritten s t k n = some (PgBifrost.Ledger.updateWritten s t k n)) ∧
    (∀ s k, PgBifrost.Gen.LedgerSrc.remove s k = some (PgBifrost.Ledger.remove s k)) ∧
    -- … and `ProgressTracker.emitProgress` (Gen/EmitSrc.lean: scan while releasable, emit the LAST collected
    -- commit position, remove every collected entry) is the model's `emit`
    (∀ s, PgBifrost.Gen.EmitSrc.emitProgress s = PgBifrost.Ledger.emit s) :=
  ⟨PgBifrost.LedgerSrcProofs.updateSeen_eq, PgBifrost.LedgerSrcProofs.updateWritten_eq, PgBifrost.LedgerSrcProofs.remove_eq, PgBifrost.LedgerSrcProofs.emit_eq⟩

/-- `recoverFromErrorResponse`, translated statement by statement from the source on this run, is the model's
`recover` (variant `fixedC`, the code after the repair of F2/F3): a synthetic COMMIT is forwarded only while a
delivery is open, it clears that flag, it is stamped with the highest commit position (the overall progress when
that is still 0, never a zero position), then close, a plain connection, IdentifySystem, restart position and flags,
close. -/
theorem recovery_as_in_source (s : PgBifrost.Client.State) (pos : Nat) :
    PgBifrost.Gen.ClientSrc.recover s pos = PgBifrost.Client.recover .fixedC s pos := by
  unfold PgBifrost.Gen.ClientSrc.recover PgBifrost.Client.recover PgBifrost.Client.recoveryFwd
    PgBifrost.Client.recoverState PgBifrost.Client.fixedLsn PgBifrost.Client.mgrClose PgBifrost.Client.getConnPlain
  cases ho : s.openFlag <;> by_cases hh : s.highest = 0 <;>
    simp [Id.run, pure, ho, hh, PgBifrost.Client.needDial]

end PgBifrost.Props.C02
