import PgBifrost.Proofs.LedgerSimple.Drain
import PgBifrost.Proofs.LedgerRefine
import PgBifrost.Proofs.LedgerSpecSound
/-!
# C02 — the ledger never wedges (property theorems)

Layer L1 (ledger), faithful model. Once every committed delivery is completely written and every
delivery that never got a `seen` has been superseded by a later key of its transaction, every
entry left in the ledger is complete and committed: one final `emitProgress` releases
everything and reports the largest commit of the trace.
-/
namespace PgBifrost.Props.C02
open PgBifrost.Ledger PgBifrost.LedgerSimple

/-- **The ledger drains (partial: under `NoStale`).**

`hDone`: every `seen` delivery is completely written by the end and has a non-zero commit.
`hSup`: every delivery that never got a `seen` was followed, after its last mention, by a
different key of the same transaction.

Conclusion: the final emit empties the item list and, if anything was still in the ledger,
reports `maxCommit tr`. (If the ledger is already empty — everything was released by earlier
emits — the final emit reports nothing; see `drains_nonempty_needed`.) -/
theorem ledger_drains_partial {tr : List Op} (hC : Contract tr) (hS : NoStale tr)
    (hDone : ∀ (i t k tot c : Nat) (r : Bool), tr[i]? = some (Op.seen t k tot c r) → wsum tr k = tot ∧ 0 < c)
    (hSup : ∀ (i : Nat) (op : Op) (k : Nat), tr[i]? = some op → op.key? = some k → (∀ j, ¬ seenAt tr j k) →
        ∃ (j : Nat) (op' : Op) (k' : Nat), tr[j]? = some op' ∧ op'.key? = some k' ∧ k' ≠ k ∧ op'.txn? = op.txn? ∧
          ∀ m, mentAt tr m k → m < j)
    {s : PgBifrost.Ledger.State} (hrun : PgBifrost.Ledger.run tr = some s) :
    (PgBifrost.Ledger.emit s).2.items = [] ∧
    (s.items ≠ [] →
       PgBifrost.Ledger.emitVal s = some (PgBifrost.Spec.Ledger.maxCommit tr)) := by
  obtain ⟨s', hrun', hitems, hA⟩ :=
    PgBifrost.LedgerRefine.run_refine hC hS tr.length (Nat.le_refl _)
  rw [List.take_length] at hrun' hitems
  rw [hrun] at hrun'; cases hrun'
  obtain ⟨h1, h2⟩ := drain_simple hC hS hDone hSup
  refine ⟨?_, ?_⟩
  · rw [(PgBifrost.LedgerRefine.emit_refine hA).1, hitems]; exact h1
  · intro hne
    rw [hitems] at hne
    obtain ⟨c, hv, hex, hmax⟩ := h2 hne
    rw [PgBifrost.LedgerRefine.emitVal_eq, hitems, hv,
      PgBifrost.Spec.Ledger.maxCommit_eq hex hmax]

/-- the same, with the hypotheses discharged by the runtime monitors -/
theorem ledger_drains_of_checks {tr : List Op}
    (h1 : PgBifrost.Spec.Ledger.checkContract tr = true)
    (h2 : PgBifrost.Spec.Ledger.checkNoStale tr = true)
    (h3 : PgBifrost.Spec.Ledger.drainHyps tr = true) :
    ∃ s, PgBifrost.Ledger.run tr = some s ∧ (PgBifrost.Ledger.emit s).2.items = [] ∧
      (s.items ≠ [] → PgBifrost.Ledger.emitVal s = some (PgBifrost.Spec.Ledger.maxCommit tr)) := by
  have hC := PgBifrost.Spec.Ledger.checkContract_sound h1
  have hS := PgBifrost.Spec.Ledger.checkNoStale_sound h2
  obtain ⟨hD, hSup⟩ := PgBifrost.Spec.Ledger.drainHyps_sound h3
  obtain ⟨s, hrun, _, _⟩ := PgBifrost.LedgerRefine.run_refine hC hS tr.length (Nat.le_refl _)
  rw [List.take_length] at hrun
  exact ⟨s, hrun, ledger_drains_partial hC hS hD hSup hrun⟩

/-! ### non-vacuity -/

/-- Three transactions: txn 1 interrupted (`k11` written, never seen) and redelivered as `k12`
(written before seen) and released by a mid-trace emit; txn 2 seen before written; txn 3
interrupted (`k31`) and redelivered as an empty transaction `k32`. Two entries are left at the
end. -/
def drainTrace : List Op :=
  [.written 1 11 2, .written 1 12 1, .seen 1 12 1 100 true, .emit, .seen 2 23 1 200 true,
   .written 3 31 1, .written 2 23 1, .seen 3 32 0 300 true]

example :
    Contract drainTrace ∧ NoStale drainTrace ∧ AllDone drainTrace ∧ AllSuperseded drainTrace ∧
    ∃ s, PgBifrost.Ledger.run drainTrace = some s ∧ s.items.length = 2 ∧
      (PgBifrost.Ledger.emit s).2.items = [] ∧ PgBifrost.Ledger.emitVal s = some 300 ∧
      PgBifrost.Spec.Ledger.maxCommit drainTrace = 300 :=
  ⟨PgBifrost.Spec.Ledger.checkContract_sound (by decide),
   PgBifrost.Spec.Ledger.checkNoStale_sound (by decide),
   (PgBifrost.Spec.Ledger.drainHyps_sound (by decide)).1,
   (PgBifrost.Spec.Ledger.drainHyps_sound (by decide)).2,
   ⟨[⟨2, 23, 200, 1, 1⟩, ⟨3, 32, 300, 0, 0⟩], [(2, 23), (3, 32)]⟩, by decide⟩

/-- the theorem instantiated on `drainTrace` -/
example : ∃ s, PgBifrost.Ledger.run drainTrace = some s ∧ s.items ≠ [] ∧
    (PgBifrost.Ledger.emit s).2.items = [] ∧ PgBifrost.Ledger.emitVal s = some 300 := by
  obtain ⟨s, hrun, h1, h2⟩ := ledger_drains_of_checks (tr := drainTrace) (by decide) (by decide) (by decide)
  have hs : s = ⟨[⟨2, 23, 200, 1, 1⟩, ⟨3, 32, 300, 0, 0⟩], [(2, 23), (3, 32)]⟩ :=
    Option.some.inj (hrun.symm.trans (by decide))
  have hne : s.items ≠ [] := by rw [hs]; decide
  exact ⟨s, hrun, hne, h1, (h2 hne).trans (by decide)⟩

/-- Why the premise of the second conjunct is `s.items ≠ []` and not "the trace contains a
`seen`": if an earlier emit already released everything, the ledger is empty at the end and the
final emit reports nothing, although all hypotheses hold. -/
theorem drains_nonempty_needed :
    ∃ tr : List Op, Contract tr ∧ NoStale tr ∧ AllDone tr ∧ AllSuperseded tr ∧
      tr.any (fun op => match op with | .seen .. => true | _ => false) = true ∧
      ∃ s, PgBifrost.Ledger.run tr = some s ∧ PgBifrost.Ledger.emitVal s = none :=
  ⟨[.seen 1 11 0 5 true, .emit],
   PgBifrost.Spec.Ledger.checkContract_sound (by decide),
   PgBifrost.Spec.Ledger.checkNoStale_sound (by decide),
   (PgBifrost.Spec.Ledger.drainHyps_sound (by decide)).1,
   (PgBifrost.Spec.Ledger.drainHyps_sound (by decide)).2,
   by decide, ⟨[], []⟩, by decide⟩

end PgBifrost.Props.C02
