import PgBifrost.Proofs.RabbitConfirmed
import PgBifrost.Proofs.RabbitSrc
import PgBifrost.Gen.WorkerLoops
/-!
# C13 — RabbitMQ: written ⇒ the broker positively confirmed every message (property theorems)

About `PgBifrost.RabbitConfirm`: `Mode.asIs` = `rabbitmq/transporter/transporter.go` before the repair of F7/F8,
`Mode.fixed` = after the rabbitmq hunks of /root/proto/planned-fixes.patch, i.e. the file as it is now in /repo.  Both are tied to their code by the
`rabbit` / `rabbitfixed` correspondence components.  The adversary (broker + goroutine scheduler) is the token
list; theorems quantify over all token lists.
-/
namespace PgBifrost.Props.C13
open PgBifrost.RabbitConfirm PgBifrost.Spec.Rabbit PgBifrost.Proofs.Rabbit

/-! ## the code as it is -/

/-- FULL STATEMENT, FALSE for the code as it is (findings F7, F8):
`∀ budget st n toks, Clean st → (batch .asIs budget st n toks).2.2 = .written → allConfirmed (batch …).2.1 n`.

F7, nack shape: two messages, the broker nacks the first publish and acks everything else.  The batch is
reported written although message 0 has no positively confirmed publish: the pending ack of the first
attempt (tag 2) satisfies the wait of the second. -/
theorem rabbit_stale_confirm_witness :
    ∃ toks : List Tok,
      (batch .asIs 3 {} 2 toks).2.2 = .written ∧ allConfirmed (batch .asIs 3 {} 2 toks).2.1 2 = false ∧
      confirmedIn (batch .asIs 3 {} 2 toks).2.1 0 = false ∧
      staleShape [] (batch .asIs 3 {} 2 toks).2.1 = true :=
  ⟨[⟨.nack, false⟩, ⟨.ack, false⟩], by decide, by decide, by decide, by decide⟩

/-- F7, publish-error shape: the second publish of the first attempt returns an error; the retry republishes
both on the same channel and the first attempt's pending ack is counted: message 1 is never confirmed. -/
theorem rabbit_stale_confirm_puberr_witness :
    ∃ toks : List Tok,
      (batch .asIs 3 {} 2 toks).2.2 = .written ∧ confirmedIn (batch .asIs 3 {} 2 toks).2.1 1 = false ∧
      staleShape [] (batch .asIs 3 {} 2 toks).2.1 = true :=
  ⟨[⟨.ack, false⟩, ⟨.err, false⟩], by decide, by decide, by decide⟩

/-- F7 carries over: after the nack shape the NEXT batch (all acks) is reported early by the same offset -/
theorem rabbit_stale_confirm_next_batch_witness :
    ∃ toks : List Tok,
      let r1 := batch .asIs 3 {} 2 toks
      let r2 := batch .asIs 3 r1.1 1 []
      r2.2.2 = .written ∧ allConfirmed r2.2.1 1 = false :=
  ⟨[⟨.nack, false⟩, ⟨.ack, false⟩], by decide⟩

/-- F8: one message; the broker closes the channel at the publish and the closeHandler goroutine runs before
the worker reaches the `select` of waitForConfirmations: the worker selects on nil channels forever. -/
theorem rabbit_wedge_witness :
    ∃ toks : List Tok,
      (batch .asIs 3 {} 1 toks).2.2 = .hang ∧ wedgeShape [] (batch .asIs 3 {} 1 toks).2.1 = true :=
  ⟨[⟨.closeCh, true⟩], by decide, by decide⟩

/-- the same close WITHOUT that interleaving (closeHandler runs only after the failed attempt): retry on a new
channel, written, everything confirmed — the wedge needs the schedule, not just the close -/
example : (batch .asIs 3 {} 1 [⟨.closeCh, false⟩, ⟨.ack, false⟩]).2.2 = .written ∧
    allConfirmed (batch .asIs 3 {} 1 [⟨.closeCh, false⟩, ⟨.ack, false⟩]).2.1 1 = true := by decide

/-- a second symptom of the same race (not a C13 violation: fail-stop): the closeHandler runs between two
publishes of `sendMessages`, the next `t.channel.Publish` dereferences nil and the worker panics -/
theorem rabbit_nil_channel_panic_witness :
    (batch .asIs 3 {} 2 [⟨.closeCh, true⟩]).2.2 = .panic := by decide

/-! ## the repaired code -/

/-- on the three witness scripts the repaired code is correct -/
example : (batch .fixed 3 {} 2 [⟨.nack, false⟩, ⟨.ack, false⟩]).2.2 = .written ∧
    allConfirmed (batch .fixed 3 {} 2 [⟨.nack, false⟩, ⟨.ack, false⟩]).2.1 2 = true := by decide
example : (batch .fixed 3 {} 2 [⟨.ack, false⟩, ⟨.err, false⟩]).2.2 = .written ∧
    allConfirmed (batch .fixed 3 {} 2 [⟨.ack, false⟩, ⟨.err, false⟩]).2.1 2 = true := by decide
example : (batch .fixed 3 {} 1 [⟨.closeCh, true⟩]).2.2 = .written ∧
    allConfirmed (batch .fixed 3 {} 1 [⟨.closeCh, true⟩]).2.1 1 = true := by decide

/-- **no wedge on close** (repaired code): for every broker script and every schedule of the closeHandler,
from EVERY state, a batch never ends with the worker selecting on nil channels (`hang`): after a close the
worker sees it on its own snapshot of the channel and the attempt fails (retry or termination). -/
theorem rabbit_no_wedge_on_close (budget : Nat) (st : St) (n : Nat) (toks : List Tok) :
    (batch .fixed budget st n toks).2.2 ≠ .hang := by
  unfold batch
  split
  · simp
  · exact retryLoop_fixed_no_hang budget st (List.range n) toks

/-- **no publish on a nil channel** (repaired code): `sendMessages` never dereferences a cleared field -/
theorem rabbit_no_nil_publish (st : St) (msgs : List Nat) (toks : List Tok) :
    (send .fixed st msgs toks).2.2.2 ≠ .panic := send_fixed_no_panic msgs st toks

/-- **after any failed attempt the repaired worker has dropped its channel** (so the retry opens a new one
with fresh delivery tags, or the retry budget ends and the worker terminates): for every script, a failed
attempt — publish error, nack, channel or connection closed at any point, channel cannot be opened — leaves
`t.channel = nil`. -/
theorem rabbit_failed_attempt_drops_channel (st : St) (msgs msgs' : List Nat) (toks : List Tok)
    (h : (attempt .fixed st msgs toks).2.2.2 = .retry msgs') :
    (attempt .fixed st msgs toks).1.fieldsSet = false :=
  attempt_fixed_retry_fields st msgs msgs' toks h

/-! ## the repaired code: written ⇒ every message positively confirmed (main theorem of C13)

`Clean st` (Proofs/RabbitConfirmed): if the worker holds a channel the broker has not closed, nothing is pending
on it and `channelConfirms` equals its delivery-tag counter.  It holds initially and after every batch. -/

theorem rabbit_clean_init : Clean {} := clean_init

/-- `Clean` is preserved by a batch of the repaired worker, whatever the script and the outcome -/
theorem rabbit_clean_preserved (budget : Nat) (st : St) (n : Nat) (toks : List Tok) (hc : Clean st) :
    Clean (batch .fixed budget st n toks).1 := batch_fixed_clean budget st n toks hc

/-- **written ⇒ all confirmed** (repaired code).  For every retry budget, every `Clean` state, every batch size
and every broker/scheduler script: if the batch is reported written, then every message `i < n` has, in the event
log OF THIS BATCH, a publish accepted on some channel `ch` with delivery tag `tag`, and LATER in that log the
worker consumed the positive confirmation of that very channel and tag. -/
theorem rabbit_written_all_confirmed (budget : Nat) (st : St) (n : Nat) (toks : List Tok) (hc : Clean st)
    (hw : (batch .fixed budget st n toks).2.2 = .written) :
    ∀ i, i < n → ∃ ch tag pre mid post,
      (batch .fixed budget st n toks).2.1 = pre ++ Ev.pub ch tag i .ack :: (mid ++ Ev.conf ch tag true :: post) :=
  (batch_spec .fixed budget st n toks hc (Or.inl rfl)).1 hw

/-- the same over any SEQUENCE of batches (each with its own script) from any `Clean` state, in particular from
the initial state: every batch of the run that is reported written has all its messages confirmed in its own log;
and the repaired worker never hangs, panics or starves -/
theorem rabbit_written_all_confirmed_run (budget : Nat) (st : St) (hc : Clean st) (bs : List (Nat × List Tok))
    (b : Nat × List Tok) (r : List Ev × Outcome) (hmem : (b, r) ∈ bs.zip (run .fixed budget st bs)) :
    (r.2 = .written → ∀ i, i < b.1 → ConfirmedAt r.1 i) ∧ (r.2 = .written ∨ r.2 = .exhausted ∨ r.2 = .dead) :=
  run_fixed_spec budget bs st hc b r hmem

theorem rabbit_run_length (mode : Mode) (budget : Nat) (st : St) (bs : List (Nat × List Tok)) :
    (run mode budget st bs).length = bs.length := run_length mode budget bs st

/-- `ConfirmedAt` is exactly what the runtime monitor evaluates (`Spec.Rabbit.confirmedIn`) -/
theorem rabbit_confirmedIn_iff (evs : List Ev) (i : Nat) : confirmedIn evs i = true ↔ ConfirmedAt evs i :=
  confirmedIn_iff evs i

/-- the model's own histories under the repaired code always pass the monitor's check: `writtenOk` holds and
`check` raises no verdict (no unconfirmed `written`, no `hang`, no `starve`) -/
theorem rabbit_spec_ok_of_fixed (budget : Nat) (st : St) (n : Nat) (toks : List Tok) (hc : Clean st)
    (prior : List Ev) :
    writtenOk (batch .fixed budget st n toks).2.1 n (batch .fixed budget st n toks).2.2 = true ∧
    (check prior (batch .fixed budget st n toks).2.1 n (batch .fixed budget st n toks).2.2).isNone = true := by
  have hall : (batch .fixed budget st n toks).2.2 = .written →
      allConfirmed (batch .fixed budget st n toks).2.1 n = true :=
    fun hw => (allConfirmed_iff _ _).2 (rabbit_written_all_confirmed budget st n toks hc hw)
  rcases batch_fixed_outcome budget st n toks hc with h | h | h
  · simp [writtenOk, check, h, hall h]
  · simp [writtenOk, check, h]
  · simp [writtenOk, check, h]

/-- non-vacuity of `rabbit_written_all_confirmed`: (1) a nack followed by acks, (2) a publish error mid-batch,
(3) the channel closed when the wait is entered (closeHandler runs at once) — each from the `Clean` initial state,
each ends `.written` after a retry on a new channel, and the theorem applies -/
example : (batch .fixed 3 {} 3 [⟨.ack, false⟩, ⟨.nack, false⟩, ⟨.ack, false⟩]).2.2 = .written ∧
    allConfirmed (batch .fixed 3 {} 3 [⟨.ack, false⟩, ⟨.nack, false⟩, ⟨.ack, false⟩]).2.1 3 = true ∧
    (batch .fixed 3 {} 3 [⟨.ack, false⟩, ⟨.nack, false⟩, ⟨.ack, false⟩]).2.1.contains (.conf 1 2 false) = true := by
  decide
example := rabbit_written_all_confirmed 3 {} 3 [⟨.ack, false⟩, ⟨.nack, false⟩, ⟨.ack, false⟩] clean_init (by decide)
example : (batch .fixed 3 {} 3 [⟨.ack, false⟩, ⟨.err, false⟩]).2.2 = .written ∧
    allConfirmed (batch .fixed 3 {} 3 [⟨.ack, false⟩, ⟨.err, false⟩]).2.1 3 = true ∧
    (batch .fixed 3 {} 3 [⟨.ack, false⟩, ⟨.err, false⟩]).2.1.contains (.pub 1 0 1 .err) = true := by decide
example := rabbit_written_all_confirmed 3 {} 3 [⟨.ack, false⟩, ⟨.err, false⟩] clean_init (by decide)
example : (batch .fixed 3 {} 2 [⟨.ack, false⟩, ⟨.ack, false⟩, ⟨.closeCh, true⟩]).2.2 = .written ∧
    allConfirmed (batch .fixed 3 {} 2 [⟨.ack, false⟩, ⟨.ack, false⟩, ⟨.closeCh, true⟩]).2.1 2 = true ∧
    (batch .fixed 3 {} 2 [⟨.ack, false⟩, ⟨.ack, false⟩, ⟨.closeCh, true⟩]).2.1.take 6 =
      [.opened 1, .pub 1 1 0 .ack, .pub 1 2 1 .ack, .wait, .close 1, .handler 1] := by decide
example := rabbit_written_all_confirmed 3 {} 2 [⟨.ack, false⟩, ⟨.ack, false⟩, ⟨.closeCh, true⟩] clean_init (by decide)
/-- (the code before the repair wedges on script (3): F8) -/
example : (batch .asIs 3 {} 2 [⟨.ack, false⟩, ⟨.ack, false⟩, ⟨.closeCh, true⟩]).2.2 = .hang := by decide
/-- a sequence: the nack batch, then a second batch on the channel the retry left open (`Clean` carried over) -/
example : (run .fixed 3 {} [(3, [⟨.ack, false⟩, ⟨.nack, false⟩, ⟨.ack, false⟩]), (2, [])]).map (·.2) =
    [.written, .written] := by decide

/-- the conclusion of `rabbit_written_all_confirmed` is FALSE for the code before the repair on the nack script of
`rabbit_stale_confirm_witness` (from the same `Clean` initial state, outcome `.written`): message 0 has no
publish whose positive confirmation is consumed afterwards -/
example : (batch .asIs 3 {} 2 [⟨.nack, false⟩, ⟨.ack, false⟩]).2.2 = .written ∧
    ¬ (∀ i, i < 2 → ∃ ch tag pre mid post, (batch .asIs 3 {} 2 [⟨.nack, false⟩, ⟨.ack, false⟩]).2.1 =
        pre ++ Ev.pub ch tag i .ack :: (mid ++ Ev.conf ch tag true :: post)) := by
  refine ⟨by decide, fun h => ?_⟩
  have h0 : confirmedIn (batch .asIs 3 {} 2 [⟨.nack, false⟩, ⟨.ack, false⟩]).2.1 0 = true :=
    (confirmedIn_iff _ 0).2 (h 0 (by decide))
  exact absurd h0 (by decide)

/-- **a failed attempt retries exactly the unconfirmed suffix, on a fresh channel** (repaired code).  If an
attempt on `msgs`, started in a `Clean` state, fails (nack, publish error, channel/connection closed at any point,
channel cannot be opened) with `msgs'` left for the retry, then
* `msgs' = msgs.drop k` for some `k ≤ msgs.length` — this is `messagesSlice[len-remaining:]` with
  `remaining = len - k ≤ len` (non-empty if `msgs` is) — and the `k` dropped messages each have a publish and a
  later positive confirmation of that publish in this attempt's log;
* none of the kept messages has one (for pairwise distinct `msgs`, as the batch indices are);
* the worker has dropped its channel (`t.channel = nil`), so for EVERY continuation script the next attempt either
  fails to open a channel (connection broken; nothing published, `msgs'` kept) or opens the NEW channel
  `nextId`, publishes only on it, and publishes the messages of `msgs'` in order — a prefix of them if
  `sendMessages` fails, all of them if the attempt succeeds. -/
theorem rabbit_retry_republishes_unconfirmed (st : St) (msgs msgs' : List Nat) (toks : List Tok) (hc : Clean st)
    (h : (attempt .fixed st msgs toks).2.2.2 = .retry msgs') :
    (∃ k, k ≤ msgs.length ∧ msgs' = msgs.drop k ∧ (msgs ≠ [] → msgs' ≠ []) ∧
      ∀ m ∈ msgs.take k, ConfirmedAt (attempt .fixed st msgs toks).2.2.1 m) ∧
    (msgs.Nodup → ∀ m ∈ msgs', ¬ ConfirmedAt (attempt .fixed st msgs toks).2.2.1 m) ∧
    (attempt .fixed st msgs toks).1.fieldsSet = false ∧
    ∀ toks2 : List Tok,
      ((attempt .fixed st msgs toks).1.connBroken = true →
        (attempt .fixed (attempt .fixed st msgs toks).1 msgs' toks2).2.2.1 = [.openFail] ∧
        (attempt .fixed (attempt .fixed st msgs toks).1 msgs' toks2).2.2.2 = .retry msgs') ∧
      ((attempt .fixed st msgs toks).1.connBroken = false →
        ∃ rest, (attempt .fixed (attempt .fixed st msgs toks).1 msgs' toks2).2.2.1 =
            .opened (attempt .fixed st msgs toks).1.nextId :: rest ∧
          (∀ ch tag m o, Ev.pub ch tag m o ∈ rest → ch = (attempt .fixed st msgs toks).1.nextId) ∧
          pubMsgs rest <+: msgs' ∧
          ((attempt .fixed (attempt .fixed st msgs toks).1 msgs' toks2).2.2.2 = .ok → pubMsgs rest = msgs')) := by
  obtain ⟨_, ⟨k, h1, h2, h3, h4⟩, h5⟩ := (attempt_spec .fixed st msgs toks hc (Or.inl rfl)).2.2.1 msgs' h
  have hf := attempt_fixed_retry_fields st msgs msgs' toks h
  refine ⟨⟨k, h1, h2, h3, fun m hm => (confirmedAt_iff_confd _ _).2 (h4 m hm)⟩,
    fun hn m hm hcf => h5 hn m hm ((confirmedAt_iff_confd _ _).1 hcf), hf, fun toks2 => ?_⟩
  exact attempt_fresh_pubs .fixed _ msgs' toks2 hf

/-- the slice expression `messagesSlice[len-remaining:]` cannot go out of range (the model's `.panic`), and the
wait never blocks (`hang`, `starve`): an attempt of the repaired code from a `Clean` state ends `ok` or `retry` -/
theorem rabbit_remaining_le_len (st : St) (msgs : List Nat) (toks : List Tok) (hc : Clean st) :
    (attempt .fixed st msgs toks).2.2.2 ≠ .panic ∧ (attempt .fixed st msgs toks).2.2.2 ≠ .hang ∧
    (attempt .fixed st msgs toks).2.2.2 ≠ .starve := by
  obtain ⟨_, _, _, h4, h5⟩ := attempt_spec .fixed st msgs toks hc (Or.inl rfl)
  exact ⟨fun h => absurd (h4 (Or.inr h)) (by decide), fun h => absurd (h4 (Or.inl h)) (by decide), h5⟩

/-- instance: 3 messages, the broker nacks the second: the first is confirmed, `[1, 2]` are retried on channel 2 -/
example : (attempt .fixed {} [0, 1, 2] [⟨.ack, false⟩, ⟨.nack, false⟩, ⟨.ack, false⟩]).2.2.2 = .retry [1, 2] ∧
    (attempt .fixed {} [0, 1, 2] [⟨.ack, false⟩, ⟨.nack, false⟩, ⟨.ack, false⟩]).1.nextId = 2 ∧
    pubMsgs (attempt .fixed (attempt .fixed {} [0, 1, 2] [⟨.ack, false⟩, ⟨.nack, false⟩, ⟨.ack, false⟩]).1
      [1, 2] []).2.2.1 = [1, 2] := by decide
example := rabbit_retry_republishes_unconfirmed {} [0, 1, 2] [1, 2] [⟨.ack, false⟩, ⟨.nack, false⟩, ⟨.ack, false⟩]
  clean_init (by decide)

/-! ## the code before the repair: the defect needs a nack or a publish error -/

/-- FULL STATEMENT (false, see `rabbit_stale_confirm_witness` / `_puberr_witness`): without the hypothesis on the
script.  PROVED: under a script WITHOUT negative confirmation and WITHOUT publish error (channel / connection
closes at any point and any closeHandler schedule are allowed — those lead to `hang`/`panic`, F8, not to a false
`written`), from a `Clean` state, written ⇒ all confirmed also holds for the code before the repair.  Both
conjuncts of the hypothesis are needed (the two witnesses use one `nack` / one `err` and nothing else). -/
theorem rabbit_written_all_confirmed_asIs_partial (budget : Nat) (st : St) (n : Nat) (toks : List Tok)
    (hc : Clean st) (hs : ∀ t ∈ toks, t.p ≠ .nack ∧ t.p ≠ .err)
    (hw : (batch .asIs budget st n toks).2.2 = .written) :
    ∀ i, i < n → ∃ ch tag pre mid post,
      (batch .asIs budget st n toks).2.1 = pre ++ Ev.pub ch tag i .ack :: (mid ++ Ev.conf ch tag true :: post) :=
  (batch_spec .asIs budget st n toks hc (Or.inr hs)).1 hw

/-- non-vacuity: a script with a connection close when the wait is entered (no nack, no publish error), written
after a failed `conn.Channel()` and a retry; the hypotheses of the partial theorem hold -/
example : (batch .asIs 3 {} 2 [⟨.ack, false⟩, ⟨.ack, false⟩, ⟨.closeConn, false⟩]).2.2 = .written ∧
    (batch .asIs 3 {} 2 [⟨.ack, false⟩, ⟨.ack, false⟩, ⟨.closeConn, false⟩]).2.1.contains .openFail = true := by
  decide
example := rabbit_written_all_confirmed_asIs_partial 3 {} 2 [⟨.ack, false⟩, ⟨.ack, false⟩, ⟨.closeConn, false⟩]
  clean_init (by decide) (by decide)
/-- `Clean` is needed too: after the nack shape the next all-ack batch is reported early
(`rabbit_stale_confirm_next_batch_witness`); the state it starts from is not `Clean` -/
example : ¬ Clean (batch .asIs 3 {} 2 [⟨.nack, false⟩, ⟨.ack, false⟩]).1 := by
  intro h
  have := (h (by decide) (by decide)).2
  exact absurd this (by decide)

/-! ## the attempt IS the source's (translator `tools/factgen/rabbittr.go`, regenerated every run) -/

/-- `waitForConfirmations` and the `operation` closure of `transportWithRetry`, translated statement by
statement (loop condition, `remaining`, the desired count, the counter taking the confirmation's delivery tag,
the cut of the batch for the retry, and the order of log points, channel resets and returns as written), run on
the model's world, are the model's `attempt` after the repair - the function every theorem above is about. -/
theorem rabbit_attempt_as_in_source (st : St) (msgs : List Nat) (toks : List Tok) :
    (let r := PgBifrost.Gen.RabbitSrc.attempt msgs ⟨st, toks, []⟩
     (r.2.st, r.2.toks, r.2.evs, r.1)) = attempt .fixed st msgs toks :=
  PgBifrost.Proofs.RabbitSrc.attempt_eq st msgs toks

/-- what the worker's loop sees of a batch's retry loop -/
def loopInOf (o : Outcome) : PgBifrost.WorkerLoop.LoopIn := ⟨false, o = .panic, o = .exhausted, false⟩

/-- The loop body of the RabbitMQ worker's `StartTransporting`, translated statement by statement, is the generic
worker iteration: it reports the batch's transactions exactly when the retry loop ended `written` (every message
confirmed, `rabbit_written_all_confirmed`), and stops the worker when it ended exhausted or panicked. -/
theorem rabbit_loop_as_in_source :
    PgBifrost.Gen.WorkerLoops.rabbitIteration = PgBifrost.WorkerLoop.iteration ∧
    (∀ o : Outcome, o ≠ .hang → o ≠ .starve → o ≠ .dead →
      ((PgBifrost.Gen.WorkerLoops.rabbitIteration (loopInOf o)).reported = true ↔ o = .written)) ∧
    (∀ o : Outcome, o = .exhausted ∨ o = .panic →
      (PgBifrost.Gen.WorkerLoops.rabbitIteration (loopInOf o)).stops = true) := by
  refine ⟨?_, ?_, ?_⟩
  · funext i; obtain ⟨a, b, c, d⟩ := i; cases a <;> cases b <;> cases c <;> cases d <;> rfl
  · intro o h1 h2 h3
    cases o <;> simp_all [PgBifrost.Gen.WorkerLoops.rabbitIteration, loopInOf, Id.run, pure]
  · intro o h
    rcases h with h | h <;> subst h <;> simp [PgBifrost.Gen.WorkerLoops.rabbitIteration, loopInOf, Id.run, pure]

end PgBifrost.Props.C13
