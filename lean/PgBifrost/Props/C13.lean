import PgBifrost.Proofs.Rabbit
/-!
# C13 — RabbitMQ: written ⇒ the broker positively confirmed every message (property theorems)

About `PgBifrost.RabbitConfirm`: `Mode.asIs` = `rabbitmq/transporter/transporter.go` as it is today,
`Mode.fixed` = after the rabbitmq hunks of /root/proto/planned-fixes.patch.  Both are tied to their code by the
`rabbit` / `rabbitfixed` correspondence components.  The adversary (broker + goroutine scheduler) is the token
list; theorems quantify over all token lists.
-/
namespace PgBifrost.Props.C13
open PgBifrost.RabbitConfirm PgBifrost.Spec.Rabbit PgBifrost.Proofs.Rabbit

/-! ## the code as it is -/

/-- FULL STATEMENT, FALSE for the code as it is (findings F7, F8):
`∀ budget st n toks, Clean st → (batch .asIs budget st n toks).2.2 = .written → allConfirmed (batch …).2.1 n`.

F7, nack shape: two messages, the broker nacks the first publish and acks everything else.  The batch is
reported written although message 0 has no positively confirmed publish: the pending ack of the first
attempt (tag 2) satisfies the wait of the second. -/
theorem rabbit_stale_confirm_witness :
    ∃ toks : List Tok,
      (batch .asIs 3 {} 2 toks).2.2 = .written ∧ allConfirmed (batch .asIs 3 {} 2 toks).2.1 2 = false ∧
      confirmedIn (batch .asIs 3 {} 2 toks).2.1 0 = false ∧
      staleShape [] (batch .asIs 3 {} 2 toks).2.1 = true :=
  ⟨[⟨.nack, false⟩, ⟨.ack, false⟩], by decide, by decide, by decide, by decide⟩

/-- F7, publish-error shape: the second publish of the first attempt returns an error; the retry republishes
both on the same channel and the first attempt's pending ack is counted: message 1 is never confirmed. -/
theorem rabbit_stale_confirm_puberr_witness :
    ∃ toks : List Tok,
      (batch .asIs 3 {} 2 toks).2.2 = .written ∧ confirmedIn (batch .asIs 3 {} 2 toks).2.1 1 = false ∧
      staleShape [] (batch .asIs 3 {} 2 toks).2.1 = true :=
  ⟨[⟨.ack, false⟩, ⟨.err, false⟩], by decide, by decide, by decide⟩

/-- F7 carries over: after the nack shape the NEXT batch (all acks) is reported early by the same offset -/
theorem rabbit_stale_confirm_next_batch_witness :
    ∃ toks : List Tok,
      let r1 := batch .asIs 3 {} 2 toks
      let r2 := batch .asIs 3 r1.1 1 []
      r2.2.2 = .written ∧ allConfirmed r2.2.1 1 = false :=
  ⟨[⟨.nack, false⟩, ⟨.ack, false⟩], by decide⟩

/-- F8: one message; the broker closes the channel at the publish and the closeHandler goroutine runs before
the worker reaches the `select` of waitForConfirmations: the worker selects on nil channels forever. -/
theorem rabbit_wedge_witness :
    ∃ toks : List Tok,
      (batch .asIs 3 {} 1 toks).2.2 = .hang ∧ wedgeShape [] (batch .asIs 3 {} 1 toks).2.1 = true :=
  ⟨[⟨.closeCh, true⟩], by decide, by decide⟩

/-- the same close WITHOUT that interleaving (closeHandler runs only after the failed attempt): retry on a new
channel, written, everything confirmed — the wedge needs the schedule, not just the close -/
example : (batch .asIs 3 {} 1 [⟨.closeCh, false⟩, ⟨.ack, false⟩]).2.2 = .written ∧
    allConfirmed (batch .asIs 3 {} 1 [⟨.closeCh, false⟩, ⟨.ack, false⟩]).2.1 1 = true := by decide

/-- a second symptom of the same race (not a C13 violation: fail-stop): the closeHandler runs between two
publishes of `sendMessages`, the next `t.channel.Publish` dereferences nil and the worker panics -/
theorem rabbit_nil_channel_panic_witness :
    (batch .asIs 3 {} 2 [⟨.closeCh, true⟩]).2.2 = .panic := by decide

/-! ## the repaired code -/

/-- on the three witness scripts the repaired code is correct -/
example : (batch .fixed 3 {} 2 [⟨.nack, false⟩, ⟨.ack, false⟩]).2.2 = .written ∧
    allConfirmed (batch .fixed 3 {} 2 [⟨.nack, false⟩, ⟨.ack, false⟩]).2.1 2 = true := by decide
example : (batch .fixed 3 {} 2 [⟨.ack, false⟩, ⟨.err, false⟩]).2.2 = .written ∧
    allConfirmed (batch .fixed 3 {} 2 [⟨.ack, false⟩, ⟨.err, false⟩]).2.1 2 = true := by decide
example : (batch .fixed 3 {} 1 [⟨.closeCh, true⟩]).2.2 = .written ∧
    allConfirmed (batch .fixed 3 {} 1 [⟨.closeCh, true⟩]).2.1 1 = true := by decide

/-- **no wedge on close** (repaired code): for every broker script and every schedule of the closeHandler,
from EVERY state, a batch never ends with the worker selecting on nil channels (`hang`): after a close the
worker sees it on its own snapshot of the channel and the attempt fails (retry or termination). -/
theorem rabbit_no_wedge_on_close (budget : Nat) (st : St) (n : Nat) (toks : List Tok) :
    (batch .fixed budget st n toks).2.2 ≠ .hang := by
  unfold batch
  split
  · simp
  · exact retryLoop_fixed_no_hang budget st (List.range n) toks

/-- **no publish on a nil channel** (repaired code): `sendMessages` never dereferences a cleared field -/
theorem rabbit_no_nil_publish (st : St) (msgs : List Nat) (toks : List Tok) :
    (send .fixed st msgs toks).2.2.2 ≠ .panic := send_fixed_no_panic msgs st toks

/-- **after any failed attempt the repaired worker has dropped its channel** (so the retry opens a new one
with fresh delivery tags, or the retry budget ends and the worker terminates): for every script, a failed
attempt — publish error, nack, channel or connection closed at any point, channel cannot be opened — leaves
`t.channel = nil`. -/
theorem rabbit_failed_attempt_drops_channel (st : St) (msgs msgs' : List Nat) (toks : List Tok)
    (h : (attempt .fixed st msgs toks).2.2.2 = .retry msgs') :
    (attempt .fixed st msgs toks).1.fieldsSet = false :=
  attempt_fixed_retry_fields st msgs msgs' toks h

end PgBifrost.Props.C13
