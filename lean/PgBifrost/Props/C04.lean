import PgBifrost.Proofs.BatcherFaithful
import PgBifrost.Gen.StdoutSrc
import PgBifrost.Gen.TxnsSrc
import PgBifrost.Proofs.BatcherAccounting
import PgBifrost.Proofs.BatcherSeenOrder
import PgBifrost.Proofs.SysExample
import PgBifrost.Model.Front
import PgBifrost.Proofs.BatcherSrc
/-!
# C04 — every filtered-in change reaches the sink exactly once, intact (batcher layer)

Property theorems over the executable model `PgBifrost.Batcher` (tied to
`transport/batcher/batcher.go` by the differential harness). `K` is any batch implementation
satisfying `Batch.Laws K big bad dom` (proved for the generic, Kinesis and Kafka batches in
`Proofs/BatchLaws.lean`); `big`/`bad` say which records the kind drops as over-size / invalid,
`dom` is the set of records for which the can't-fit retry terminates (everything for generic and
Kafka; "record + key fits an empty batch" for Kinesis). `ops` is any sequence of input messages
and ticks, ticks carrying ANY flush order (valid or not).
-/
namespace PgBifrost.Props.C04
open PgBifrost.Batch PgBifrost.Batcher

variable {K : Kind} {big bad : Msg → Bool} {dom : Msg → Prop}

/-- **1. Partition-faithful bookkeeping.** Unless the run ended in the fatal branch, for every
partition key the records of its dispatched batches (in dispatch order) followed by the records
of its open batch are exactly the data messages of that key that are neither over-size nor
invalid, in input order: nothing lost, duplicated, reordered or moved to another key. -/
theorem batcher_partition_faithful (hL : Laws K big bad dom) (cfg : Cfg) (ops : List Op)
    (hdom : ∀ m ∈ dataMsgs ops, dom m) (hnd : (run K cfg ops).1.dead = false) (k : PKey) :
    ((dispatched (run K cfg ops).2).filter (fun b => b.pkey = k)).flatMap (·.payload)
        ++ openPayload (run K cfg ops).1 k
      = (dataMsgs ops).filter (fun m => decide (m.pkey = k) && !big m && !bad m) :=
  (reach_faithful hL (run_reach_or_dead hL cfg ops hdom hnd)).2 k

/-- The fatal branch is unreachable when `Add` answers "full" only for batches that `IsFull`
reports (true for all three real batch kinds). -/
theorem batcher_never_dead (hL : Laws K big bad dom) (hN : NoFatal K) (cfg : Cfg) (ops : List Op)
    (hdom : ∀ m ∈ dataMsgs ops, dom m) : (run K cfg ops).1.dead = false :=
  reach_not_dead (run_reach hL hN cfg ops hdom)

/-- 1, unconditional form for kinds with `NoFatal`. -/
theorem batcher_partition_faithful_nofatal (hL : Laws K big bad dom) (hN : NoFatal K) (cfg : Cfg)
    (ops : List Op) (hdom : ∀ m ∈ dataMsgs ops, dom m) (k : PKey) :
    ((dispatched (run K cfg ops).2).filter (fun b => b.pkey = k)).flatMap (·.payload)
        ++ openPayload (run K cfg ops).1 k
      = (dataMsgs ops).filter (fun m => decide (m.pkey = k) && !big m && !bad m) :=
  batcher_partition_faithful hL cfg ops hdom (batcher_never_dead hL hN cfg ops hdom) k

/-- 1, when the run is dead: the input splits as `pre ++ msg m :: rest`; the run of `pre` was not
dead (so 1 holds for it), the step for `m` was the fatal one and everything after it was ignored;
the fatal step dispatched only records of `pre` and left them open or dispatched: the equation
holds for the final state w.r.t. `pre` (the message `m` itself was not stored). -/
theorem batcher_partition_faithful_dead (hL : Laws K big bad dom) (cfg : Cfg) (ops : List Op)
    (hdom : ∀ m ∈ dataMsgs ops, dom m) (hd : (run K cfg ops).1.dead = true) :
    ∃ (pre : List Op) (m : Msg) (rest : List Op), ops = pre ++ .msg m :: rest ∧
      (run K cfg pre).1.dead = false ∧
      run K cfg ops = stepAcc K cfg (run K cfg pre) (.msg m) ∧
      ∀ k, ((dispatched (run K cfg ops).2).filter (fun b => b.pkey = k)).flatMap (·.payload)
              ++ openPayload (run K cfg ops).1 k
            = (dataMsgs pre).filter (fun m => decide (m.pkey = k) && !big m && !bad m) := by
  rcases run_shape hL cfg ops hdom with h | ⟨_, _, pre, m, rest, hops, hR, ⟨acc0, hR0, _, hev, hopen, _⟩, hacc⟩
  · have := reach_not_dead h; rw [hd] at this; cases this
  · refine ⟨pre, m, rest, hops, reach_not_dead hR, hacc, fun k => ?_⟩
    refine Eq.trans ?_ ((reach_faithful hL hR0).2 k)
    unfold openPayload D
    rw [hopen k, hev, dispatched_append]
    simp [dispatched, dispatchOf]

/-- **2. One partition key per batch.** Every record of a dispatched batch carries the batch's
partition key (holds for every run, dead or not). -/
theorem batch_single_key (hL : Laws K big bad dom) (cfg : Cfg) (ops : List Op)
    (hdom : ∀ m ∈ dataMsgs ops, dom m) :
    ∀ b ∈ dispatched (run K cfg ops).2, ∀ m ∈ b.payload, m.pkey = b.pkey := by
  intro b hb
  obtain ⟨w, hw⟩ := mem_dispatched.mp hb
  exact (run_events hL cfg ops hdom (EvQ SingleKey) trivial
    (fun g acc hR => (reach_batches SingleKey singleKey_fresh (singleKey_add hL) hR).2) _ hw).1

/-- 2, open part: open batches are stored under their own key and hold only records of that key
(every run, dead or not). -/
theorem open_single_key (hL : Laws K big bad dom) (cfg : Cfg) (ops : List Op)
    (hdom : ∀ m ∈ dataMsgs ops, dom m) (k : PKey) (b : Batch)
    (hb : getOpen (run K cfg ops).1 k = some b) : b.pkey = k ∧ ∀ m ∈ b.payload, m.pkey = k := by
  have := run_open hL cfg ops hdom (fun k b => SingleKey b ∧ b.pkey = k)
    (fun g acc hR => (reach_batches SingleKey singleKey_fresh (singleKey_add hL) hR).1) k b hb
  exact ⟨this.2, fun m hm => by rw [← this.2]; exact this.1 m hm⟩

/-- **4. Seen before dispatch (ledger contract clause E3).** `sendBatch` always hands the pending
seen list to the ledger first: afterwards the list is empty; the events are the `.seen` of exactly
the pending list (only if it was non-empty) followed by exactly one more event, the dispatch or
self-report. -/
theorem seen_before_dispatch (cfg : Cfg) (s : State) (b : Batch) :
    (sendBatch cfg s b).1.seenList = [] ∧
    (s.seenList ≠ [] → ∃ e, (sendBatch cfg s b).2 = [.seen s.seenList, e] ∧ ∀ l, e ≠ .seen l) ∧
    (s.seenList = [] → ∃ e, (sendBatch cfg s b).2 = [e] ∧ ∀ l, e ≠ .seen l) := by
  refine ⟨sendBatch_seenList cfg s b, fun hne => ?_, fun he => ?_⟩
  · rw [sendBatch_eq]
    have h1 : (flushSeen s).2 = [.seen s.seenList] := by
      unfold flushSeen
      have : s.seenList.isEmpty = false := by cases h : s.seenList <;> simp_all
      simp [this]
    obtain ⟨e, h2, h3⟩ := route_single cfg (flushSeen s).1 b
    exact ⟨e, by rw [h1, h2]; rfl, h3⟩
  · rw [sendBatch_eq]
    have h1 : (flushSeen s).2 = [] := by unfold flushSeen; simp [he]
    obtain ⟨e, h2, h3⟩ := route_single cfg (flushSeen s).1 b
    exact ⟨e, by rw [h1, h2]; rfl, h3⟩

/-- **4, on the event log (E3).** Let the input be `pre ++ msg c :: post` with `c` a COMMIT that arrives
while the batcher is not dead (any kind `K`, any flush orders). The event log is the log of `pre`
followed by some `r`, and in `r` — everything emitted since `c` arrived — the seen entry of `c`
(`total` = the batcher's `total` when `c` arrived, i.e. `(track (msgs pre)).total` by
`seen_log_exact`) is handed to the ledger in a `.seen` event before every dispatch and every
self-report (`SendsAfter`); at the end it has been handed over or is still pending in `seenList`. -/
theorem seen_before_dispatch_log (K : Kind) (cfg : Cfg) (pre : List Op) (c : Msg) (post : List Op)
    (hc : c.op = .commit) (hnd : (run K cfg pre).1.dead = false) :
    ∃ r, (run K cfg (pre ++ .msg c :: post)).2 = (run K cfg pre).2 ++ r ∧
      (∀ (r1 : List Ev) (d : Ev) (r2 : List Ev), r = r1 ++ d :: r2 → isSend d = true →
        (⟨c.txn, c.key, (run K cfg pre).1.total, c.lsn⟩ : SeenE) ∈ seenEntries r1) ∧
      ((⟨c.txn, c.key, (run K cfg pre).1.total, c.lsn⟩ : SeenE) ∈ (run K cfg (pre ++ .msg c :: post)).1.seenList ∨
       (⟨c.txn, c.key, (run K cfg pre).1.total, c.lsn⟩ : SeenE) ∈ seenEntries r) :=
  seen_precedes_sends K cfg pre c post hc hnd

/-- **3a. Per-batch txns accounting.** Every batch that is dispatched, self-reported or still open
was built from a fresh batch by `Add`ing a ghost list `adds` of data messages of its partition key
(`Built K b adds`: what it was offered while it was the open batch, each answered ok / too big /
invalid); its payload is `adds` minus the over-size and invalid records, and for every delivery key
the count recorded in `txns` is the number of records of that key it accepted plus the number it
dropped as too big. (Every run, dead or not.) -/
theorem batch_txns_exact (hL : Laws K big bad dom) (cfg : Cfg) (ops : List Op)
    (hdom : ∀ m ∈ dataMsgs ops, dom m) :
    (∀ b ∈ dispatched (run K cfg ops).2, ∃ adds, Built K b adds ∧
        b.payload = adds.filter (fun m => !big m && !bad m) ∧
        ∀ key, countOf b.txns key = (b.payload.filter (fun m => m.key == key)).length +
                                      (adds.filter (fun m => m.key == key && big m)).length) ∧
    (∀ t ∈ selfReported (run K cfg ops).2, ∃ b adds, Built K b adds ∧ b.txns = t ∧ b.payload = [] ∧
        ∀ key, countOf t key = (adds.filter (fun m => m.key == key && big m)).length) ∧
    (∀ k b, getOpen (run K cfg ops).1 k = some b → ∃ adds, Built K b adds ∧
        b.payload = adds.filter (fun m => !big m && !bad m) ∧
        ∀ key, countOf b.txns key = (b.payload.filter (fun m => m.key == key)).length +
                                      (adds.filter (fun m => m.key == key && big m)).length) := by
  obtain ⟨h1, h2, h3⟩ := run_built hL cfg ops hdom
  refine ⟨fun b hb => ?_, fun t ht => ?_, fun k b hb => ?_⟩
  · obtain ⟨⟨adds, hB⟩, _⟩ := h1 b hb
    exact ⟨adds, hB, hB.payload hL, hB.txns hL⟩
  · obtain ⟨b, ⟨adds, hB⟩, hp, ht'⟩ := h2 t ht
    refine ⟨b, adds, hB, ht', hp, fun key => ?_⟩
    have := hB.txns hL key
    rw [hp, ht'] at this
    simpa using this
  · obtain ⟨⟨adds, hB⟩, _⟩ := h3 k b hb
    exact ⟨adds, hB, hB.payload hL, hB.txns hL⟩

/-- **3b. Global txns accounting.** For every delivery key, the counts recorded for it in the `txns`
of all dispatched, self-reported and open batches add up to the number of data messages of that
key in the input that were accepted or dropped as too big (i.e. all but the ones dropped as
invalid): what the workers will report as written for `key` is exactly that number. -/
theorem txns_global_accounting (hL : Laws K big bad dom) (cfg : Cfg) (ops : List Op)
    (hdom : ∀ m ∈ dataMsgs ops, dom m) (hnd : (run K cfg ops).1.dead = false) (key : Nat) :
    chargedEvs (run K cfg ops).2 key + chargedOpen (run K cfg ops).1 key =
      ((dataMsgs ops).filter (fun m => m.key == key && (big m || !bad m))).length :=
  reach_charges hL (run_reach_or_dead hL cfg ops hdom hnd) key

/-- **3c. The seen log.** `curKey`, `total` and the seen entries (handed to the ledger so far, then
the pending ones) are exactly what the specification `track` computes from the input messages:
one entry per COMMIT, in input order, carrying the COMMIT's txn, delivery key and LSN and the value
of `total` when it arrived. (Any kind `K`, no laws needed; not dead.) -/
theorem seen_log_exact (K : Kind) (cfg : Cfg) (ops : List Op) (hnd : (run K cfg ops).1.dead = false) :
    (run K cfg ops).1.curKey = (track (msgs ops)).curKey ∧
    (run K cfg ops).1.total = (track (msgs ops)).total ∧
    seenEntries (run K cfg ops).2 ++ (run K cfg ops).1.seenList = (track (msgs ops)).seens :=
  run_obs K cfg ops hnd

/-- 3c, closed form: the COMMIT `c` arriving after the messages `pre` yields the seen entry
`⟨c.txn, c.key, total, c.lsn⟩` where, provided `c`'s key is the current key (the last message
before it carries the same delivery key), `total` is the number of data messages of that key
processed since the key became current (`trailingData`: the data messages in the maximal run of
messages with that key that ends at `c`). -/
theorem seen_total (K : Kind) (cfg : Cfg) (ops : List Op) (hnd : (run K cfg ops).1.dead = false)
    (pre : List Msg) (c : Msg) (post : List Msg) (hops : msgs ops = pre ++ c :: post) (hc : c.op = .commit) :
    (⟨c.txn, c.key, (track pre).total, c.lsn⟩ : SeenE) ∈
        seenEntries (run K cfg ops).2 ++ (run K cfg ops).1.seenList ∧
    (pre.getLast?.map (·.key) = some c.key → (track pre).total = trailingData c.key pre) := by
  refine ⟨?_, fun h => track_total pre c.key (by rw [track_curKey]; exact h)⟩
  rw [(run_obs K cfg ops hnd).2.2, hops]
  exact track_commit_mem pre c post hc

/-- **3d. `seen_total_accounting`.** Let the input messages be `A ++ T ++ c :: P` where `c` is a COMMIT,
`T` (non-empty: it contains at least the BEGIN) is the run of messages carrying `c`'s delivery key,
and no other message carries that key. Then the ledger is told `total = number of data messages in
T` for that key, and — if none of them is dropped as invalid — the counts recorded for the key in
the `txns` of all dispatched, self-reported and still-open batches add up to exactly that `total`
(so once no open batch holds the key any more, the dispatched and self-reported ones alone do). -/
theorem seen_total_accounting (hL : Laws K big bad dom) (cfg : Cfg) (ops : List Op)
    (hdom : ∀ m ∈ dataMsgs ops, dom m) (hnd : (run K cfg ops).1.dead = false)
    (A T : List Msg) (c : Msg) (P : List Msg) (hops : msgs ops = A ++ T ++ c :: P) (hc : c.op = .commit)
    (hT0 : T ≠ []) (hT : ∀ m ∈ T, m.key = c.key) (hA : ∀ m ∈ A, m.key ≠ c.key) (hP : ∀ m ∈ P, m.key ≠ c.key)
    (hvalid : ∀ m ∈ T, m.op = .data → (big m || !bad m) = true) :
    (⟨c.txn, c.key, (T.filter (fun m => m.op == .data)).length, c.lsn⟩ : SeenE) ∈
        seenEntries (run K cfg ops).2 ++ (run K cfg ops).1.seenList ∧
    chargedEvs (run K cfg ops).2 c.key + chargedOpen (run K cfg ops).1 c.key =
      (T.filter (fun m => m.op == .data)).length := by
  constructor
  · obtain ⟨h1, h2⟩ := seen_total K cfg ops hnd (A ++ T) c P hops hc
    have hlast : (A ++ T).getLast?.map (·.key) = some c.key := by
      rw [List.getLast?_append]
      cases hl : T.getLast? with
      | none => rw [List.getLast?_eq_none_iff] at hl; exact absurd hl hT0
      | some x => simp [hT x (List.mem_of_getLast? hl)]
    rw [h2 hlast, trailingData_run A T c.key hT hA] at h1
    exact h1
  · rw [txns_global_accounting hL cfg ops hdom hnd c.key]
    unfold dataMsgs
    rw [hops]
    simp only [List.filter_append, List.filter_cons, List.length_append]
    have hA0 : ((A.filter fun m => m.op == .data).filter fun m => m.key == c.key && (big m || !bad m)) = [] := by
      rw [List.filter_eq_nil_iff]; intro m hm
      have := hA m (List.mem_filter.mp hm).1
      simp [this]
    have hP0 : ((P.filter fun m => m.op == .data).filter fun m => m.key == c.key && (big m || !bad m)) = [] := by
      rw [List.filter_eq_nil_iff]; intro m hm
      have := hP m (List.mem_filter.mp hm).1
      simp [this]
    have hT1 : ((T.filter fun m => m.op == .data).filter fun m => m.key == c.key && (big m || !bad m))
        = T.filter fun m => m.op == .data := by
      rw [List.filter_eq_self]; intro m hm
      obtain ⟨hm1, hm2⟩ := List.mem_filter.mp hm
      have := hvalid m hm1 (by simpa using hm2)
      simp [hT m hm1, this]
    have hc0 : (c.op == MOp.data) = false := by rw [hc]; rfl
    simp [hA0, hP0, hT1, hc0]

/-! ### the theorems are not vacuous -/

example (cfg : Cfg) (ops : List Op) (k : PKey) :=
  batcher_partition_faithful_nofatal (genericLaws 3 (by omega)) (genericNoFatal 3) cfg ops (fun _ _ => trivial) k
example (cfg : Cfg) (ops : List Op)
    (hkey : ∀ m ∈ dataMsgs ops, kinesisKeyLen .walStart m ≤ 4 * 1024 * 1024) (k : PKey) :=
  batcher_partition_faithful_nofatal
    (kinesisLaws 500 (5*1024*1024) (1024*1024) .walStart (by omega)) (kinesisNoFatal _ _ _ _) cfg ops
    (fun m hm hs => by have := hkey m hm; omega) k
example (cfg : Cfg) (ops : List Op) (k : PKey) :=
  batcher_partition_faithful_nofatal (kafkaLaws 1000 1000000 (by omega)) (kafkaNoFatal _ _) cfg ops
    (fun _ _ => trivial) k
example (cfg : Cfg) (ops : List Op) := batch_single_key (genericLaws 3 (by omega)) cfg ops (fun _ _ => trivial)
example (cfg : Cfg) (ops : List Op) := batch_txns_exact (kafkaLaws 100 1000000 (by omega)) cfg ops (fun _ _ => trivial)
example (cfg : Cfg) (ops : List Op) (key : Nat) :=
  txns_global_accounting (genericLaws 3 (by omega)) cfg ops (fun _ _ => trivial)
    (batcher_never_dead (genericLaws 3 (by omega)) (genericNoFatal 3) cfg ops (fun _ _ => trivial)) key

example (cfg : Cfg) (pre post : List Op) (c : Msg) (hc : c.op = .commit) :=
  seen_before_dispatch_log (genericKind 3) cfg pre c post hc
    (batcher_never_dead (genericLaws 3 (by omega)) (genericNoFatal 3) cfg pre (fun _ _ => trivial))

/-- a concrete instance of `seen_total_accounting`: BEGIN, two rows, COMMIT, one batch of size 3 -/
example :
    let b : Msg := ⟨.begin, [], 7, 70, 0, 100, 0, 0⟩
    let d1 : Msg := ⟨.data, [1], 7, 70, 10, 101, 1, 0⟩
    let d2 : Msg := ⟨.data, [2], 7, 70, 10, 102, 2, 0⟩
    let c : Msg := ⟨.commit, [], 7, 70, 0, 103, 3, 0⟩
    let cfg : Cfg := ⟨2, .partition, 1000, 5000, 1000000⟩
    let r := run (genericKind 3) cfg [.msg b, .msg d1, .msg d2, .msg c]
    (⟨7, 70, 2, 103⟩ : SeenE) ∈ seenEntries r.2 ++ r.1.seenList ∧ chargedEvs r.2 70 + chargedOpen r.1 70 = 2 := by
  intro b d1 d2 c cfg r
  exact seen_total_accounting (genericLaws 3 (by omega)) cfg _ (fun _ _ => trivial) (by decide)
    [] [b, d1, d2] c [] rfl rfl (by simp) (by decide) (by simp) (by simp) (by intros; rfl)

/-! ## Top: exactly once at the sink of the composed system (`Model/Sys.lean`; the sink eventually
accepts everything: every queue empty, every worker idle, all open batches flushed;
`Sys.Env`, `Sys.Sched`: see `Props/C01.lean`) -/
section sys
variable {K : Kind} {big bad : Msg → Bool} {dom : Msg → Prop}

/-- **C04 Top, multiset, any input.** If the tracker is alive, every queue is empty, every worker
idle and no open batch holds a record, then `sinkAccepted` is, as a multiset, exactly the accepted
(neither too big nor invalid) data messages of the input: each exactly once, nothing else. (No
grammar hypothesis: only `hlive` depends on the input's shape.) -/
theorem sys_exactly_once_live (bcfg : Cfg) (hK : Sys.KindOK K big bad dom) (acts : List Sys.Act)
    (hdom : ∀ m ∈ Sys.fedMsgs acts, m.op = .data → dom m)
    (hlive : (Sys.run ⟨K, bcfg⟩ acts).dead = false)
    (hq : (Sys.run ⟨K, bcfg⟩ acts).queue = []) (hh : (Sys.run ⟨K, bcfg⟩ acts).held = [])
    (hopen : ∀ p ∈ (Sys.run ⟨K, bcfg⟩ acts).bat.openB, p.2.payload = []) :
    (Sys.run ⟨K, bcfg⟩ acts).sinkAccepted.Perm
      ((Sys.fedMsgs acts).filter (fun m => m.op == .data && !big m && !bad m)) :=
  Sys.exactly_once_multiset bcfg hK acts hdom hlive hq hh hopen

/-- **C04 Top (`sys_exactly_once`).** Under the input hypotheses, at quiescence:
(1) as a multiset `sinkAccepted` = all accepted data messages, each exactly once; (2) if every batch
of a partition key goes to one worker (partition routing, or a single worker), `sinkAccepted`
restricted to each partition key equals the accepted data messages of that key IN INPUT ORDER
(from `batcher_partition_faithful` + "every dispatched batch was accepted exactly once, per key in
dispatch order"). Without the routing hypothesis (2) fails: see the example below. -/
theorem sys_exactly_once (bcfg : Cfg) (redeliver : Bool) (acts : List Sys.Act)
    (hE : Sys.Env redeliver K big bad dom acts) (hs : Sys.Sched redeliver ⟨K, bcfg⟩ acts)
    (hq : (Sys.run ⟨K, bcfg⟩ acts).queue = []) (hh : (Sys.run ⟨K, bcfg⟩ acts).held = [])
    (hopen : ∀ p ∈ (Sys.run ⟨K, bcfg⟩ acts).bat.openB, p.2.payload = []) :
    (Sys.run ⟨K, bcfg⟩ acts).sinkAccepted.Perm
      ((Sys.fedMsgs acts).filter (fun m => m.op == .data && !big m && !bad m)) ∧
    ((bcfg.routing = .partition ∨ bcfg.workers = 1) → ∀ pk : PKey,
      (Sys.run ⟨K, bcfg⟩ acts).sinkAccepted.filter (fun m => m.pkey = pk) =
        (Sys.fedMsgs acts).filter (fun m => m.op == .data && decide (m.pkey = pk) && !big m && !bad m)) := by
  have hlive := Sys.never_dead bcfg redeliver acts hE hs
  refine ⟨Sys.exactly_once_multiset bcfg hE.kind acts hE.dom hlive hq hh hopen, fun hr pk => ?_⟩
  rcases hr with hr | hr
  · exact Sys.exactly_once_per_key bcfg hE.kind _ (Sys.routed_partition hE.kind bcfg hr) acts hE.dom hlive hq hh hopen pk
  · exact Sys.exactly_once_per_key bcfg hE.kind _ (Sys.routed_single hE.kind bcfg hr) acts hE.dom hlive hq hh hopen pk

/-- without that routing hypothesis the per-key order can fail: in `Sys.exActs` (round robin, two
workers) the later key-1 batch `[3,6]` is accepted before the earlier `[1,2]` -/
example : ((Sys.run Sys.exCfg Sys.exActs).sinkAccepted.filter (fun m => m.pkey = [1])).map (·.id) = [3, 6, 1, 2] := by
  decide

/-- non-vacuity of (2): one worker, two partition keys interleaved in the input (`Sys.ex1Acts`,
sink order `[1, 3, 2, 4]`): per key the sink has the input order -/
example : ∀ pk : PKey, (Sys.run Sys.ex1Cfg Sys.ex1Acts).sinkAccepted.filter (fun m => m.pkey = pk) =
    (Sys.fedMsgs Sys.ex1Acts).filter (fun m => m.op == .data && decide (m.pkey = pk) && !genericBig m && !genericBad m) :=
  (sys_exactly_once Sys.ex1Cfg.bcfg false Sys.ex1Acts Sys.ex1Env (Or.inl rfl) Sys.ex1_sink.2.1 Sys.ex1_sink.2.2.1
    Sys.ex1_sink.2.2.2).2 (Or.inr rfl)

/-- non-vacuity of (1) on the example run -/
example : (Sys.run Sys.exCfg Sys.exActs).sinkAccepted.Perm
    ((Sys.fedMsgs Sys.exActs).filter (fun m => m.op == .data && !genericBig m && !genericBad m)) :=
  (sys_exactly_once Sys.exCfg.bcfg false Sys.exActs Sys.exEnv (Or.inl rfl) (by decide) (by decide) (by decide)).1

end sys

/-- **the batcher model's message path is the batcher's source** (`batcher_as_in_source`).
`Gen/BatcherSrc.lean` is `transport/batcher/batcher.go` TRANSLATED statement by statement on every run: the part
of `StartBatching` that handles a received message (look up or create the key's batch, note a COMMIT in the seen
list with the running count, reset the count when the delivery key changes, replace a full batch after sending
it, skip BEGIN/COMMIT, `addToBatch`, store the batch back, stop on a fatal error, count the record) and
`addToBatch` itself (the reaction per `Add` answer, the recursion on can't-fit). The model functions the master
theorem above is about are EQUAL to the translation, for every batch kind and configuration. Trusted: Go's map
read/write = `getOpen`/`setOpen`, `batchFactory.NewBatch` = `fresh`, the `Batch` interface = `Kind`, and that
`Batch.Close` of the real batches never fails (the `if !ok { return }` after `sendBatch` is not translated). -/
theorem batcher_as_in_source (K : Kind) (cfg : Cfg) :
    (∀ s m, PgBifrost.Gen.BatcherSrc.onMsg K cfg s m = onMsg K cfg s m) ∧
    (∀ f s b m, PgBifrost.Gen.BatcherSrc.addToBatch K cfg f s b m = addToBatch K cfg f s b m) ∧
    -- `sendBatch` (Gen/SendBatchSrc.lean): the pending seen list is handed to the tracker FIRST (clause E3 of the
    -- ledger contract), an empty batch is self-reported, otherwise the worker is picked by the routing rule
    (∀ s b, PgBifrost.Gen.SendBatchSrc.sendBatch cfg s b = sendBatch cfg s b) :=
  ⟨PgBifrost.BatcherSrcProofs.onMsg_eq K cfg, PgBifrost.BatcherSrcProofs.addToBatch_eq K cfg,
   PgBifrost.BatcherSrcProofs.sendBatch_eq cfg⟩

/-! ## from the replication client to the sink: filter ▸ partitioner ▸ marshaller ▸ batcher ▸ workers -/
section front
open PgBifrost.Front
variable {K : Kind} {big bad : Msg → Bool} {dom : Msg → Prop}

/-- **C04 end to end (`pipeline_exactly_once`).** Let `ws` be the stream the replication client forwarded and let
the batcher have been fed what the stages in front of it make of `ws` (`Front.front`: the filter drops exactly
the data messages whose table is not permitted; partitioner and marshaller stamp and render one message at a
time, in order). At quiescence (queues empty, workers idle, no record left in an open batch):

1. the changes in the sink are, as a multiset of change identities, exactly the received row changes that pass
   the table filter (minus the rows dropped as too big / invalid by the batch kind): each exactly once, none
   else — BEGIN and COMMIT markers never become records;
2. every record in the sink is the rendering (`Front.stamp`) of one received change that passes the filter, and
   carries that change's own LSN, transaction, delivery key and partition key: nothing merged or re-attributed. -/
theorem pipeline_exactly_once (fc : Front.Cfg) (ws : List Recv) (bcfg : Batcher.Cfg) (redeliver : Bool) (acts : List Sys.Act)
    (hfed : Sys.fedMsgs acts = front fc ws)
    (hE : Sys.Env redeliver K big bad dom acts) (hs : Sys.Sched redeliver ⟨K, bcfg⟩ acts)
    (hq : (Sys.run ⟨K, bcfg⟩ acts).queue = []) (hh : (Sys.run ⟨K, bcfg⟩ acts).held = [])
    (hopen : ∀ p ∈ (Sys.run ⟨K, bcfg⟩ acts).bat.openB, p.2.payload = []) :
    ((Sys.run ⟨K, bcfg⟩ acts).sinkAccepted.map (·.id)).Perm
      ((ws.filter fun r => r.op == .data && Front.passes fc r && !big (stamp fc r) && !bad (stamp fc r)).map (·.id)) ∧
    ∀ m ∈ (Sys.run ⟨K, bcfg⟩ acts).sinkAccepted, ∃ r ∈ ws, m = stamp fc r ∧ r.op = .data ∧ Front.passes fc r = true := by
  have h1 := (sys_exactly_once bcfg redeliver acts hE hs hq hh hopen).1
  rw [hfed] at h1
  have hfm : (front fc ws).filter (fun m => m.op == .data && !big m && !bad m) =
      (ws.filter fun r => r.op == .data && Front.passes fc r && !big (stamp fc r) && !bad (stamp fc r)).map (stamp fc) := by
    unfold front
    rw [List.filter_map, List.filter_filter]
    congr 1
    apply List.filter_congr
    intro r _
    simp only [Function.comp, stamp]
    cases r.op <;> cases Front.passes fc r <;> simp
  constructor
  · have := h1.map (·.id)
    rw [hfm, List.map_map] at this
    exact this
  · intro m hm
    have hm' := h1.mem_iff.mp hm
    rw [hfm, List.mem_map] at hm'
    obtain ⟨r, hr, rfl⟩ := hm'
    rw [List.mem_filter] at hr
    obtain ⟨hrw, hc⟩ := hr
    simp only [Bool.and_eq_true, beq_iff_eq] at hc
    exact ⟨r, hrw, rfl, hc.1.1.1, hc.1.1.2⟩

/-! not vacuous: the client forwards the two transactions of `Sys.ex1Acts`' input plus one row of a blacklisted
table; partition method `tablename` (tables with the one-byte names 1 and 2). The front stages turn that into
exactly the messages `Sys.ex1Acts` feeds; the sink ends up with the four permitted rows. -/
private def fcEx : Front.Cfg :=
  { filter := ⟨false, false, ["public.audit"]⟩, mt := fun _ _ => false, method := .tableName, buckets := 1 }
private def rB (t k lsn id : Nat) : Recv := ⟨.begin, "", [], [], t, k, lsn, id, 0, 0⟩
private def rC (t k lsn id : Nat) : Recv := ⟨.commit, "", [], [], t, k, lsn, id, 0, 0⟩
private def rD (rel : String) (rb : UInt8) (t k lsn id : Nat) : Recv := ⟨.data, rel, [rb], [], t, k, lsn, id, 10, 0⟩
private def wsEx : List Recv :=
  [rB 7 70 100 0, rD "public.a" 1 7 70 101 1, rD "public.audit" 9 7 70 0 99, rD "public.b" 2 7 70 102 2,
   rD "public.a" 1 7 70 103 3, rD "public.a" 1 7 70 104 4, rC 7 70 105 5]
example : Sys.fedMsgs Sys.ex1Acts = front fcEx wsEx := by decide
set_option maxRecDepth 100000 in
example : ((Sys.run Sys.ex1Cfg Sys.ex1Acts).sinkAccepted.map (·.id)).Perm [1, 2, 3, 4] :=
  (pipeline_exactly_once fcEx wsEx Sys.ex1Cfg.bcfg false Sys.ex1Acts (by decide) Sys.ex1Env (Or.inl rfl)
    (by decide) (by decide) (by decide)).1

end front

/-- `progress.UpdateTransactions`, translated from the source on this run, is the model's `updateTxns`: a batch's
transactions map is keyed by the DELIVERY key (`TimeBasedKey`), a message of a delivery not yet in the map appends an
entry with the message's transaction id and count 1 (stored under its own key), any other increments that entry. -/
theorem update_transactions_as_in_source (txns : List PgBifrost.Batch.TxnCount) (m : PgBifrost.Batch.Msg) :
    PgBifrost.Gen.TxnsSrc.updateTransactions txns m = PgBifrost.Batch.updateTxns txns m ∧
    PgBifrost.Gen.TxnsSrc.entryKeyIsMapKey = true := by
  refine ⟨?_, by decide⟩
  unfold PgBifrost.Gen.TxnsSrc.updateTransactions PgBifrost.Batch.updateTxns
  cases h : txns.find? (·.key == m.key) with
  | none =>
    have : txns.any (·.key == m.key) = false := by
      rw [List.any_eq_false]; intro x hx; have := List.find?_eq_none.mp h x hx; simpa using this
    simp [this]
  | some e =>
    have : txns.any (·.key == m.key) = true := by
      rw [List.any_eq_true]; exact ⟨e, List.mem_of_find?_eq_some h, by simpa using List.find?_some h⟩
    simp [this]

/-- The stdout sink's worker as written: every record of the batch, in batch order, goes through `fmt.Printf` with the
CONSTANT format `"%d: %s\n"` and the worker id and the record's JSON as ARGUMENTS (never as the format), and the batch's
transactions are handed to the progress tracker after the records were written. -/
theorem stdout_worker_as_in_source :
    PgBifrost.Gen.StdoutSrc.steps =
      ["write fmt.Printf format=\"%d: %s\\n\" args=t.id,string(msg.Json)",
       "send t.txnsWritten <- genericBatch.GetTransactions()"] := rfl

end PgBifrost.Props.C04
