import PgBifrost.Proofs.ClientC07b
import PgBifrost.Proofs.ClientC07c
import PgBifrost.Gen.FrameSrc
/-!
# C07 — transaction framing and delivery-instance identity assigned by the client

Statements about the `Client` model (tied to `client.go` by the `client` correspondence harness),
for every event list and all three model variants. `pgGrammar` is the PG-stream hypothesis of
DESIGN §3 evaluated on the history (whole transactions per connection, keepalives/timeouts/nil
anywhere, cuts anywhere, lost COMMITs, error responses; no malformed message, `Start` keeps running);
`ClockStrictPerTxn` is the clock hypothesis of §3.
-/
namespace PgBifrost.Props.C07
open PgBifrost.Client PgBifrost.Spec.Client PgBifrost.ClientProofs

/-- every forwarded BEGIN carries its own transaction id and `(id, clock reading)`; every other
forwarded message carries transaction id and key of the latest forwarded BEGIN, and its own LSN -/
theorem stamp_attribution (v : Variant) (evs : List Ev) (hpg : pgGrammar (hist v evs) = true) :
    c07Stamp (hist v evs) = true :=
  stamp_hist v evs hpg

/-- decimal rendering is injective, hence so is `txn ++ "-" ++ decimal nanos` on ids without '-' -/
theorem key_rendering_injective {t t' : String} {n n' : Nat} (ht : '-' ∉ t.toList) (ht' : '-' ∉ t'.toList)
    (h : renderKey (some (t, n)) = renderKey (some (t', n'))) : t = t' ∧ n = n' :=
  Decimal.key_inj ht ht' h

/-- two forwarded BEGINs (even of the same transaction id) never carry the same key -/
theorem keys_unique (v : Variant) (evs : List Ev) (hclk : ClockStrictPerTxn evs) (hids : TxnIdsNoDash evs) :
    c07KeysUnique (hist v evs) = true :=
  keysUnique_hist v evs hclk hids

/-- without error responses at most one COMMIT is forwarded per key -/
theorem one_commit_per_key (v : Variant) (evs : List Ev) (hpg : pgGrammar (hist v evs) = true)
    (hclk : ClockStrictPerTxn evs) (hids : TxnIdsNoDash evs) : c07OneCommit (hist v evs) = true :=
  oneCommit_hist v evs hpg hclk hids

/-- **at most one COMMIT per key, full statement** (error responses included) for the code as it is now
(model variant `.fixedC`, after the repair of F2): the synthetic COMMIT of error recovery is emitted only
while a delivery is open downstream and closes it, so it can neither double a real COMMIT nor be doubled.
(For the pre-fix variants this is false: `recovery_today_witness_b` of C02.) -/
theorem one_commit_per_key_full (evs : List Ev) (hpg : pgGrammar (hist .fixedC evs) = true)
    (hclk : ClockStrictPerTxn evs) (hids : TxnIdsNoDash evs) : c07OneCommitFull (hist .fixedC evs) = true :=
  oneCommitFull_hist evs hpg hclk hids

/-- run level: a BEGIN that arrives while the previous accepted BEGIN has no COMMIT is not forwarded
and the connection is closed; any other BEGIN is forwarded (the start position of the reconnect is
`restart_lsn_exact` of C03) -/
theorem begin_without_commit (v : Variant) (evs : List Ev) : c07Framing (hist v evs) = true :=
  framing_hist v evs

/-- step level: in that situation the first action is `Close`, nothing is forwarded, and exactly
one (re)start of replication follows before the next receive, at `highestWalStart` -/
theorem begin_without_commit_step (v : Variant) (s : State) (feed : List Nat) (lsn : Nat) (x : String)
    (n : Nat) (bl : List (List Nat)) (tick : Bool) (hr : s.phase = .running)
    (hs : s.sawCommit = false) (hf : s.firstIter = false) :
    fwdsOf (step v s ⟨feed, .data lsn (.begin x) n bl, tick⟩).2 = [] ∧
      (step v s ⟨feed, .data lsn (.begin x) n bl, tick⟩).2.head? = some .close ∧
      startsOf (step v s ⟨feed, .data lsn (.begin x) n bl, tick⟩).2 = [s.highest] := by
  have hd : beginDropped s = true := by simp [beginDropped, hs, hf]
  refine ⟨by rw [(step_frame v s _ hr).1]; simp [fwdsExp, hd], ?_, ?_⟩
  · rw [step_running v s _ hr]
    simp [handleMsg, handleData, hd, finish_none]
  · rw [step_running v s _ hr]
    simp only [handleMsg, handleData, beginDropped_feed1, hd, ↓reduceIte, finish_none,
      List.cons_append, List.nil_append, startsOf_close]
    rw [loopTop_eq]
    simp only [handleProgress, sendStatus, getConnRepl]
    have hcn : (Conn.none != Conn.live) = true := by decide
    split <;> simp [startsOf, needDial, hcn]

/-! ### non-vacuity -/

/-- two transactions, a cut inside the second one, its redelivery (dropped, then forwarded under a
new key), a lost COMMIT -/
def exEvs : List Ev := [
  ⟨[], .keepalive false 100 0, false⟩,
  ⟨[], .data 110 (.begin "7") 1000 [], false⟩,
  ⟨[], .data 115 .change 0 [], false⟩,
  ⟨[], .data 120 (.commit "7") 0 [], false⟩,
  ⟨[], .data 130 (.begin "8") 2000 [], false⟩,
  ⟨[], .closedErr, false⟩,
  ⟨[], .data 130 (.begin "8") 3000 [], false⟩,
  ⟨[], .data 130 (.begin "8") 4000 [], false⟩,
  ⟨[], .data 135 .change 0 [], false⟩,
  ⟨[], .timeout, false⟩,
  ⟨[], .data 140 (.begin "9") 5000 [], false⟩,
  ⟨[], .data 130 (.begin "8") 6000 [], false⟩,
  ⟨[], .data 137 (.commit "8") 0 [], false⟩]

example : pgGrammar (hist .today exEvs) = true := by decide
example : ClockStrictPerTxn exEvs := by
  simp [ClockStrictPerTxn, beginStamps, exEvs]
example : TxnIdsNoDash exEvs := by
  intro p hp
  simp [beginStamps, exEvs] at hp
  rcases hp with rfl | rfl | rfl | rfl | rfl | rfl <;> decide
example : fwdsOf (acts (hist .today exEvs)) =
    [(.begin, "7", some ("7", 1000), 110), (.change, "7", some ("7", 1000), 115),
     (.commit, "7", some ("7", 1000), 120), (.begin, "8", some ("8", 2000), 130),
     (.begin, "8", some ("8", 4000), 130), (.change, "8", some ("8", 4000), 135),
     (.begin, "8", some ("8", 6000), 130), (.commit, "8", some ("8", 6000), 137)] := by decide
example : startsOf (acts (hist .today exEvs)) = [120, 120, 120] := by decide
example : c07Stamp (hist .today exEvs) = true ∧ c07KeysUnique (hist .today exEvs) = true ∧
    c07OneCommit (hist .today exEvs) = true ∧ c07Framing (hist .today exEvs) = true := by decide
/-- non-vacuity of the full statement: error responses inside a transaction (synthetic COMMIT for the open
key) and between transactions (nothing forwarded) -/
def exEvsErr : List Ev := [
  ⟨[], .keepalive false 100 0, false⟩,
  ⟨[], .data 110 (.begin "7") 1000 [], false⟩,
  ⟨[], .data 115 .change 0 [], false⟩,
  ⟨[], .errorResponse 200, false⟩,
  ⟨[], .data 210 (.begin "8") 2000 [], false⟩,
  ⟨[], .data 220 (.commit "8") 0 [], false⟩,
  ⟨[], .errorResponse 300, false⟩,
  ⟨[], .data 310 (.begin "9") 3000 [], false⟩,
  ⟨[], .data 320 (.commit "9") 0 [], false⟩]
example : pgGrammar (hist .fixedC exEvsErr) = true := by decide
example : commitKeys (acts (hist .fixedC exEvsErr)) = ["7-1000", "8-2000", "9-3000"] := by decide
example : c07OneCommitFull (hist .fixedC exEvsErr) = true := by decide
/-- … and the pre-fix code fails it on the same stream (second COMMIT for `8-2000`) -/
example : c07OneCommitFull (hist .today exEvsErr) = false := by decide

/-- the grammar admits what PostgreSQL does after a reconnect: the last transaction, whose COMMIT was
already received, is sent again with the same COMMIT position (`txns_dup` in the code) — and an error
response right after it must not double that COMMIT -/
def exEvsDup : List Ev := [
  ⟨[], .keepalive false 100 0, false⟩,
  ⟨[], .data 110 (.begin "7") 1000 [], false⟩,
  ⟨[], .data 120 (.commit "7") 0 [], false⟩,
  ⟨[], .closedErr, false⟩,
  ⟨[], .data 110 (.begin "7") 2000 [], false⟩,
  ⟨[], .data 120 (.commit "7") 0 [], false⟩,
  ⟨[], .errorResponse 300, false⟩]
example : pgGrammar (hist .fixedC exEvsDup) = true := by decide
example : commitKeys (acts (hist .fixedC exEvsDup)) = ["7-1000", "7-2000"] := by decide
example : c07OneCommitFull (hist .fixedC exEvsDup) = true := by decide

/-- the specs reject a message stamped with another delivery's key, a reused key, a second COMMIT,
and a forwarded BEGIN without preceding COMMIT -/
example : c07Stamp [(⟨[], .keepalive false 0 0, false⟩, []),
    (⟨[], .data 1 (.begin "7") 5 [], false⟩, [.fwd .begin "7" (some ("7", 5)) 1]),
    (⟨[], .data 2 .change 0 [], false⟩, [.fwd .change "7" (some ("7", 6)) 2])] = false := by decide
example : c07KeysUnique [(⟨[], .keepalive false 0 0, false⟩, [.fwd .begin "7" (some ("7", 5)) 1,
    .fwd .begin "7" (some ("7", 5)) 1])] = false := by decide
example : c07OneCommit [(⟨[], .keepalive false 0 0, false⟩, [.fwd .commit "7" (some ("7", 5)) 1,
    .fwd .commit "7" (some ("7", 5)) 1])] = false := by decide
example : c07Framing [(⟨[], .keepalive false 0 0, false⟩, []),
    (⟨[], .data 1 (.begin "7") 5 [], false⟩, [.fwd .begin "7" (some ("7", 5)) 1]),
    (⟨[], .data 2 (.begin "8") 6 [], false⟩, [.fwd .begin "8" (some ("8", 6)) 2])] = false := by decide

/-! ## the framing logic is the one in the source -/
section source
open PgBifrost.Gen.FrameSrc

/-- the framing fields of the client model's state -/
def frameOf (s : State) : Frame := ⟨s.highest, s.sawCommit, s.firstIter, s.openFlag, s.txn, s.key⟩

/-- **the client model's handling of BEGIN / COMMIT / row changes is `handleXLogData`'s**
(`framing_as_in_source`). `Gen/FrameSrc.lean` is the COMMIT block and the BEGIN block of `handleXLogData`
TRANSLATED on every run (the running maximum of COMMIT positions, `sawCommit`, `deliveryOpen`, the
no-COMMIT-before-BEGIN branch with `connManager.Close()` and its early return, the new transaction id and
delivery key `transaction + "-" + UnixNano`, the flags). For the model of the code as it is (`.fixedC`), every
state, every message and every blocked-output pattern: the framing fields afterwards, whether the connection
is closed, and what is forwarded with which transaction id and key are exactly what the translation says. -/
theorem framing_as_in_source (s : State) (lsn : Nat) (nanos : Nat) (blocks : List (List Nat)) :
    (∀ xid, let r := handleData .fixedC s lsn (.begin xid) nanos blocks
            let g := frame (frameOf s) false true lsn xid nanos
            frameOf r.1.1 = g.1 ∧ hasClose r.1.2 = g.2.1 ∧
            fwdsOf r.1.2 = if g.2.2 then [(.begin, g.1.txn, g.1.key, lsn)] else []) ∧
    (∀ x, let r := handleData .fixedC s lsn (.commit x) nanos blocks
          let g := frame (frameOf s) true false lsn "" nanos
          frameOf r.1.1 = g.1 ∧ hasClose r.1.2 = g.2.1 ∧
          fwdsOf r.1.2 = if g.2.2 then [(.commit, g.1.txn, g.1.key, lsn)] else []) ∧
    (let r := handleData .fixedC s lsn .change nanos blocks
     let g := frame (frameOf s) false false lsn "" nanos
     frameOf r.1.1 = g.1 ∧ hasClose r.1.2 = g.2.1 ∧
     fwdsOf r.1.2 = if g.2.2 then [(.change, g.1.txn, g.1.key, lsn)] else []) := by
  refine ⟨?_, ?_, ?_⟩
  · intro xid
    by_cases hd : beginDropped s = true
    · have hd' : (!s.sawCommit && !s.firstIter) = true := hd
      simp [handleData, hd, frame, frameOf, hd', Id.run, dropState, fwdsOf, hasClose, pure, bind]
    · have hd' : (!s.sawCommit && !s.firstIter) = false := by simpa [beginDropped] using hd
      simp [handleData, hd, frame, frameOf, hd', Id.run, forward_eq, acceptState, stampBegin, trackOpen, pure, bind]
  · intro x
    by_cases hh : s.highest < lsn
    · simp [handleData, frame, frameOf, hh, Id.run, forward_eq, commitState, trackOpen, Nat.max_def, Nat.le_of_lt hh, pure, bind]
    · have : ¬ s.highest ≤ lsn ∨ s.highest = lsn := by omega
      rcases this with h | h
      · simp [handleData, frame, frameOf, hh, h, Id.run, forward_eq, commitState, trackOpen, Nat.max_def, pure, bind]
      · simp [handleData, frame, frameOf, h, Id.run, forward_eq, commitState, trackOpen, Nat.max_def, pure, bind]
  · simp [handleData, frame, frameOf, Id.run, forward_eq, trackOpen, pure, bind]

end source

end PgBifrost.Props.C07
