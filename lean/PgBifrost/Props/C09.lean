import PgBifrost.Proofs.Parser.Total
import PgBifrost.Proofs.Parser.RoundTrip
import PgBifrost.Proofs.ParserSrc
import PgBifrost.Gen.MessageSrc
/-!
# C09 — decoder fidelity for everything test_decoding can print (property theorems)

`parseIdx` (`Model/Parser.lean`) is the index-faithful model of what `XLogDataToWalMessage` computes
(`ParsePrelude` then `ParseColumns`, every Go slice expression able to panic). `render`
(`Model/TestDecoding.lean`) is the reference encoder of `contrib/test_decoding`, `view` the faithful
decoding, `WF` the decidable well-formedness of a change.

The model mirrors `parselogical.go` with the repair of finding F4 (the `B` of a bit-string literal
`B'1010'` is dropped together with the quotes). The full round trip

    theorem parse_render (m : Change) (hwf : WF m) : parseIdx (render m) = .ok (view m)

holds for ALL well-formed changes, bit strings included. (Before the repair the statement FAILED for
bit strings: `B'1010'` was decoded as value `'1010`, quoted — finding F4; only a version restricted to
changes without bit-string values could be proved.) All stages (BEGIN/COMMIT, prelude incl. quoted
identifiers, TRUNCATE, columns, old-key/new-tuple sections, `(no-tuple-data)`) are covered; nothing
else is left open. `WF` still excludes the empty printed tuple (relation without columns), which
the decoder rejects (`parse_empty_tuple_witness`, known finding "empty_tuple").
-/
namespace PgBifrost.Props.C09
open PgBifrost.Parser PgBifrost.TestDecoding

/-- **Never panics, always terminates**: for every byte string no Go slice expression and no index
expression (`message[startStr]`, new with the repair of F4) of the decoder is out of range
(`ParsePrelude` + `ParseColumns`); termination is the well-founded recursion of `Parser.loop`
itself (`len + 1 - i` decreases). -/
theorem parse_total (bytes : List UInt8) : parseIdx bytes ≠ .panic :=
  parseIdx_ne_panic bytes

/-- the same for a single call of `parse(preludeOnly)` on any previous result -/
theorem parseGo_total (bytes : List UInt8) (preludeOnly : Bool) (res : Res) :
    parseGo bytes preludeOnly res ≠ .panic :=
  parseGo_ne_panic bytes preludeOnly res

/-- of the six error sites, "invalid parse State null" (`parselogical.go:157`) is dead code: on every
input the decoder answers with a result or one of the other five errors -/
theorem parse_never_null_state (bytes : List UInt8) : parseIdx bytes ≠ .err .nullState :=
  parseIdx_ne_null bytes

example : parseIdx [116, 97, 98, 108, 101, 32, 58, 32, 58, 32, 91, 93, 58, 39] ≠ .panic := parse_total _
-- `table : : []:B''` — the shortest quoted token starting with `B` (reaches `message[startStr]` and the empty cut)
example : parseIdx [116, 97, 98, 108, 101, 32, 58, 32, 58, 32, 91, 93, 58, 66, 39, 39] ≠ .panic := parse_total _

/-- stage BEGIN / COMMIT (no hypothesis) -/
theorem parse_render_txn (x : Nat) :
    parseIdx (render (.begin x)) = .ok (view (.begin x)) ∧
    parseIdx (render (.commit x)) = .ok (view (.commit x)) :=
  ⟨parse_begin x, parse_commit x⟩

/-- stage TRUNCATE (no hypothesis: any relations, any identifiers, any flags) -/
theorem parse_render_truncate (rs : List Rel) (restartSeqs cascade : Bool) :
    parseIdx (render (.truncate rs restartSeqs cascade)) = .ok (view (.truncate rs restartSeqs cascade)) :=
  parse_truncate rs restartSeqs cascade

/-- **Round trip** for every well-formed change, bit strings included: relation, operation,
transaction id, every column's printed name, printed type, value with quote doubling undone (for a
bit string `B'1010'`: the digits `1010`), quoted flag, old-key / new-tuple placement and `NoTupleData`
are recovered exactly. (Before the repair of F4 this failed for bit strings: value `'1010`.) -/
theorem parse_render (m : Change) (hwf : WF m) : parseIdx (render m) = .ok (view m) := by
  cases m with
  | begin x => exact parse_begin x
  | commit x => exact parse_commit x
  | insert r new => exact parse_dml _ _ none new (Scan.rel r) opInert_INSERT (by decide) rfl hwf
  | update r old new =>
    have h : oldWf old = true ∧ tupWf new = true := by simpa [WF, wf] using hwf
    exact parse_dml _ _ old new (Scan.rel r) opInert_UPDATE (by decide) h.1 h.2
  | delete r old => exact parse_dml _ _ none old (Scan.rel r) opInert_DELETE (by decide) rfl hwf
  | truncate rs a b => exact parse_truncate rs a b

/-- a realistic UPDATE: quoted and keyword identifiers, schema-qualified array type, old-key section,
quotes / brackets / colons / newline / UTF-8 inside text, `null`, `unchanged-toast-datum` -/
def exampleUpdate : Change :=
  .update ⟨[77, 121, 32, 83], [117, 115, 101, 114]⟩                      -- "My S"."user"
    (some [⟨[105, 100], ⟨.builtin [105, 110, 116, 101, 103, 101, 114], false⟩, .bare [52, 50]⟩])   -- id[integer]:42
    (some [⟨[105, 100], ⟨.builtin [105, 110, 116, 101, 103, 101, 114], false⟩, .bare [52, 51]⟩,
           ⟨[97, 34, 58, 91, 98], ⟨.named (some [80]) [77, 121, 32, 69], true⟩,                    -- "a"":[b"["P"."My E"[]]
              .text [105, 116, 39, 115, 32, 93, 58, 91, 10, 195, 169, 39]⟩,                         -- 'it''s ]:[\né'''
           ⟨[110], ⟨.builtin [116, 101, 120, 116], false⟩, .null⟩,
           ⟨[116], ⟨.builtin [116, 101, 120, 116], false⟩, .toast⟩,
           ⟨[101], ⟨.builtin [116, 101, 120, 116], false⟩, .text []⟩])

example : parseIdx (render exampleUpdate) = .ok (view exampleUpdate) :=
  parse_render exampleUpdate (by decide)

example : parseIdx (render (.insert ⟨[115], [116]⟩ none)) = .ok (view (.insert ⟨[115], [116]⟩ none)) :=
  parse_render _ (by decide)

/-- `table public.t: INSERT: b[bit varying]:B'1010'` -/
def bitsChange : Change :=
  .insert ⟨[112, 117, 98, 108, 105, 99], [116]⟩
    (some [⟨[98], ⟨.builtin [98, 105, 116, 32, 118, 97, 114, 121, 105, 110, 103], false⟩, .bits [49, 48, 49, 48]⟩])

/-- bit strings round-trip: `B'1010'` ↦ value `1010`, quoted; the empty bit string `B''` ↦ empty value
(before the repair of F4: `'1010` and `'`) -/
example : parseIdx (render bitsChange) = .ok (view bitsChange) := parse_render bitsChange (by decide)

example : parseIdx (render bitsChange) =
    .ok { relation := [112, 117, 98, 108, 105, 99, 46, 116], operation := bINSERT,
          cols := [([98], { value := [49, 48, 49, 48],
                            type := [98, 105, 116, 32, 118, 97, 114, 121, 105, 110, 103], quoted := true })] } := by
  rw [parse_render bitsChange (by decide)]; decide

example : parseIdx (render (.insert ⟨[115], [116]⟩ (some [⟨[98], ⟨.builtin [98, 105, 116], false⟩, .bits []⟩]))) =
    .ok (view (.insert ⟨[115], [116]⟩ (some [⟨[98], ⟨.builtin [98, 105, 116], false⟩, .bits []⟩]))) :=
  parse_render _ (by decide)

/-- **Finding "empty_tuple"**: for a relation without columns test_decoding prints an empty tuple
(`table public.t: INSERT:`); the decoder answers `invalid character` for every such INSERT
and DELETE, whatever the relation — so `WF` has to exclude it. -/
theorem parse_empty_tuple_witness (r : Rel) :
    parseIdx (render (.insert r (some []))) = .err .invalidChar ∧
    parseIdx (render (.delete r (some []))) = .err .invalidChar :=
  ⟨parse_empty_tuple _ _ (Scan.rel r) opInert_INSERT, parse_empty_tuple _ _ (Scan.rel r) opInert_DELETE⟩

/-! ## the state machine IS the source's (translator `tools/factgen/parsertr.go`, regenerated every run) -/

/-- The `switch state.Current` inside the loop of `parselogical.parse` and the code after the loop, translated
statement by statement from the source on this run (every Go slice and index expression through `slice?` /
`index?`, so an out-of-range one is the outcome `panic`), are the model's `stepC` and `finish` - the functions
`parse_total` and the round-trip theorem are about. The loop header (`for i := 0; i <= len(message); i++`), the
`TokenStart` jump and the two look-ahead bytes are checked by the translator to be as the model's `loop`/`step`
have them. -/
theorem parser_switch_as_in_source :
    (∀ msg p i chr nxt st res, PgBifrost.Gen.ParserSrc.stepC msg p i chr nxt st res = stepC msg p i chr nxt st res) ∧
    PgBifrost.Gen.ParserSrc.finish = finish :=
  ⟨PgBifrost.Proofs.ParserSrc.stepC_eq, PgBifrost.Proofs.ParserSrc.finish_eq⟩

/-- the statements before the loop as the model's `parseGo` reads them (line by line, as text): the length test,
the five-byte prefix switch with `BEGIN` falling through to `COMMI`, `strings.Fields` with exactly two fields
giving operation and transaction, `table` going on to the loop at `TokenStart = 6` in state `relation`, anything
else an error -/
def expectedPrologue : List String := [
  "state := pr.State",
  "message := *state.Msg",
  "if state.Current == parseStateInitial {",
  "if len(message) < 5 { return errors.Errorf(\"message too short: %s\", message) }",
  "switch message[0:5] {",
  "case \"BEGIN\":",
  "fallthrough",
  "case \"COMMI\":",
  "fields := strings.Fields(message)",
  "if len(fields) != 2 { return errors.Errorf(\"unknown transaction message: %s\", message) }",
  "pr.Operation = fields[0]",
  "pr.Transaction = fields[1]",
  "return nil",
  "case \"table\":",
  "default:",
  "return errors.Errorf(\"unknown logical message received: %s\", message)",
  "}",
  "state.TokenStart = 6",
  "state.Current = parseStateRelation",
  "}"]

theorem parser_prologue_as_in_source : PgBifrost.Gen.ParserSrc.prologue = expectedPrologue := rfl

/-- `replication.XLogDataToWalMessage` as written: a fresh ParseResult (state `initial`, token start 0), `ParsePrelude`
(= `parse(true)`) then `ParseColumns` (= `parse(false)`) on the same result, an error of either returned at once; the
WalMessage takes its WAL start, server WAL end and server time (milliseconds) from the XLogData, the parse result as is,
and empty delivery and partition keys. The composition is the model's `parseIdx`. -/
theorem xlog_to_walmessage_as_in_source :
    PgBifrost.Gen.MessageSrc.parseIdx = parseIdx ∧
    PgBifrost.Gen.MessageSrc.initialState =
      "ParseState{Msg: &msg, Current: parseStateInitial, Prev: parseStateInitial, TokenStart: 0, OldKey: false}" ∧
    PgBifrost.Gen.MessageSrc.walMessageFields =
      ["uint64(xld.WALStart)", "uint64(xld.ServerWALEnd)", "xld.ServerTime.UnixMilli()", "\"\"", "pr", "\"\""] :=
  ⟨rfl, rfl, rfl⟩

end PgBifrost.Props.C09
