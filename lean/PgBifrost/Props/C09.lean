import PgBifrost.Proofs.Parser.Total
import PgBifrost.Proofs.Parser.RoundTrip
/-!
# C09 — decoder fidelity for everything test_decoding can print (property theorems)

`parseIdx` (`Model/Parser.lean`) is the index-faithful model of what `XLogDataToWalMessage` computes
(`ParsePrelude` then `ParseColumns`, every Go slice expression able to panic). `render`
(`Model/TestDecoding.lean`) is the reference encoder of `contrib/test_decoding`, `view` the faithful
decoding, `WF` the decidable well-formedness of a change.

The full statement

    theorem parse_render (m : Change) (hwf : WF m) : parseIdx (render m) = .ok (view m)

is FALSE for the unchanged code: a bit-string literal `B'1010'` is decoded as value `'1010`
(finding F4, `parse_render_bits_witness`). What is proved instead, for ALL well-formed changes:
`parse_render_f4` — the decoder returns exactly `viewF4 m`, i.e. `view m` with every bit-string
value replaced by `'` + digits; hence `parse_render_partial` (no bit strings ⇒ faithful). All stages
(BEGIN/COMMIT, prelude incl. quoted identifiers, TRUNCATE, columns, old-key/new-tuple sections,
`(no-tuple-data)`) are covered; nothing else is left open. `WF` also excludes the empty printed
tuple (relation without columns), which the unchanged decoder rejects (`parse_empty_tuple_witness`).
-/
namespace PgBifrost.Props.C09
open PgBifrost.Parser PgBifrost.TestDecoding

/-- **Never panics, always terminates**: for every byte string no Go slice expression of the
decoder is out of range (`ParsePrelude` + `ParseColumns`); termination is the well-founded
recursion of `Parser.loop` itself (`len + 1 - i` decreases). -/
theorem parse_total (bytes : List UInt8) : parseIdx bytes ≠ .panic :=
  parseIdx_ne_panic bytes

/-- the same for a single call of `parse(preludeOnly)` on any previous result -/
theorem parseGo_total (bytes : List UInt8) (preludeOnly : Bool) (res : Res) :
    parseGo bytes preludeOnly res ≠ .panic :=
  parseGo_ne_panic bytes preludeOnly res

/-- of the six error sites, "invalid parse State null" (`parselogical.go:157`) is dead code: on every
input the decoder answers with a result or one of the other five errors -/
theorem parse_never_null_state (bytes : List UInt8) : parseIdx bytes ≠ .err .nullState :=
  parseIdx_ne_null bytes

example : parseIdx [116, 97, 98, 108, 101, 32, 58, 32, 58, 32, 91, 93, 58, 39] ≠ .panic := parse_total _

/-- stage BEGIN / COMMIT (no hypothesis) -/
theorem parse_render_txn (x : Nat) :
    parseIdx (render (.begin x)) = .ok (view (.begin x)) ∧
    parseIdx (render (.commit x)) = .ok (view (.commit x)) :=
  ⟨parse_begin x, parse_commit x⟩

/-- stage TRUNCATE (no hypothesis: any relations, any identifiers, any flags) -/
theorem parse_render_truncate (rs : List Rel) (restartSeqs cascade : Bool) :
    parseIdx (render (.truncate rs restartSeqs cascade)) = .ok (view (.truncate rs restartSeqs cascade)) :=
  parse_truncate rs restartSeqs cascade

/-- **What the unchanged decoder computes for every well-formed change** (bit strings included):
`viewF4 m` = `view m` except that a bit-string value `B'1010'` comes out as `'1010`, quoted. -/
theorem parse_render_f4 (m : Change) (hwf : WF m) : parseIdx (render m) = .ok (viewF4 m) := by
  cases m with
  | begin x => exact parse_begin x
  | commit x => exact parse_commit x
  | insert r new => exact parse_dml _ _ none new (Scan.rel r) opInert_INSERT (by decide) rfl hwf
  | update r old new =>
    have h : oldWf old = true ∧ tupWf new = true := by simpa [WF, wf] using hwf
    exact parse_dml _ _ old new (Scan.rel r) opInert_UPDATE (by decide) h.1 h.2
  | delete r old => exact parse_dml _ _ none old (Scan.rel r) opInert_DELETE (by decide) rfl hwf
  | truncate rs a b => exact parse_truncate rs a b

/-- **Round trip** for every well-formed change without bit-string values: relation, operation,
transaction id, every column's printed name, printed type, value with quote doubling undone,
quoted flag, old-key / new-tuple placement and `NoTupleData` are recovered exactly. -/
theorem parse_render_partial (m : Change) (hwf : WF m) (hnb : NoBits m) :
    parseIdx (render m) = .ok (view m) := by
  rw [parse_render_f4 m hwf, viewF4_eq m hnb]

/-- a realistic UPDATE: quoted and keyword identifiers, schema-qualified array type, old-key section,
quotes / brackets / colons / newline / UTF-8 inside text, `null`, `unchanged-toast-datum` -/
def exampleUpdate : Change :=
  .update ⟨[77, 121, 32, 83], [117, 115, 101, 114]⟩                      -- "My S"."user"
    (some [⟨[105, 100], ⟨.builtin [105, 110, 116, 101, 103, 101, 114], false⟩, .bare [52, 50]⟩])   -- id[integer]:42
    (some [⟨[105, 100], ⟨.builtin [105, 110, 116, 101, 103, 101, 114], false⟩, .bare [52, 51]⟩,
           ⟨[97, 34, 58, 91, 98], ⟨.named (some [80]) [77, 121, 32, 69], true⟩,                    -- "a"":[b"["P"."My E"[]]
              .text [105, 116, 39, 115, 32, 93, 58, 91, 10, 195, 169, 39]⟩,                         -- 'it''s ]:[\né'''
           ⟨[110], ⟨.builtin [116, 101, 120, 116], false⟩, .null⟩,
           ⟨[116], ⟨.builtin [116, 101, 120, 116], false⟩, .toast⟩,
           ⟨[101], ⟨.builtin [116, 101, 120, 116], false⟩, .text []⟩])

example : parseIdx (render exampleUpdate) = .ok (view exampleUpdate) :=
  parse_render_partial exampleUpdate (by decide) (by decide)

example : parseIdx (render (.insert ⟨[115], [116]⟩ none)) = .ok (view (.insert ⟨[115], [116]⟩ none)) :=
  parse_render_partial _ (by decide) (by decide)

/-- `table public.t: INSERT: b[bit varying]:B'1010'` -/
def bitsChange : Change :=
  .insert ⟨[112, 117, 98, 108, 105, 99], [116]⟩
    (some [⟨[98], ⟨.builtin [98, 105, 116, 32, 118, 97, 114, 121, 105, 110, 103], false⟩, .bits [49, 48, 49, 48]⟩])

/-- **F4**: the full round trip fails on the unchanged code — a well-formed change with a bit string
is decoded to something else than `view` (value `'1010` instead of `1010`). -/
theorem parse_render_bits_witness :
    WF bitsChange ∧ parseIdx (render bitsChange) ≠ .ok (view bitsChange) ∧
    parseIdx (render bitsChange) = .ok (viewF4 bitsChange) := by
  have hwf : WF bitsChange := by decide
  refine ⟨hwf, ?_, parse_render_f4 _ hwf⟩
  rw [parse_render_f4 _ hwf]
  decide

/-- **New finding "empty_tuple"**: for a relation without columns test_decoding prints an empty tuple
(`table public.t: INSERT:`); the unchanged decoder answers `invalid character` for every such INSERT
and DELETE, whatever the relation — so `WF` has to exclude it. -/
theorem parse_empty_tuple_witness (r : Rel) :
    parseIdx (render (.insert r (some []))) = .err .invalidChar ∧
    parseIdx (render (.delete r (some []))) = .err .invalidChar :=
  ⟨parse_empty_tuple _ _ (Scan.rel r) opInert_INSERT, parse_empty_tuple _ _ (Scan.rel r) opInert_DELETE⟩

end PgBifrost.Props.C09
