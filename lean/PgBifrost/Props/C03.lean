import PgBifrost.Proofs.ClientC03
import PgBifrost.Model.ConnManager
import PgBifrost.Gen.ClientSites
import PgBifrost.Gen.ProgressSrc
import PgBifrost.Gen.ConnSrc
/-!
# C03 — acknowledged position monotone and ledger-sourced; restarts never ahead

All statements are about `PgBifrost.Client` (the model of `replication/client/client.go`, tied to
the code by the `client` correspondence harness) and hold for EVERY list of events — any
interleaving of data, keepalives, nil messages, timeouts, closed connections, error responses,
ticker firings, blocked-output intervals and arbitrary progress values — and for all three model
variants (`.today`, `.fixed`, `.fixedC`).

`hist v evs` is the model's history: each event paired with the actions performed until the next
`ReceiveMessage`; `trace v evs` = the actions of `Start` before the first receive followed by
those. The `c03…` predicates are the decidable specs of `Spec/Client.lean` that the monitor
evaluates on the implementation's histories.
-/
namespace PgBifrost.Props.C03
open PgBifrost.Client PgBifrost.Spec.Client PgBifrost.ClientProofs

/-- the LSNs of all `SendStandbyStatus` calls of a run never decrease -/
theorem acks_monotone (v : Variant) (evs : List Ev) :
    (statusesOf (trace v evs)).Pairwise (· ≤ ·) := by
  rw [trace_eq, statusesOf_append]
  simpa [start_acts, statusesOf] using mono_hist v evs

/-- exactness: every status equals the maximum of the position announced by the first keepalive and
ALL values put on the progress channel before it was sent (the feed of the event, then one block
per ticker firing of the blocked-output loop); without a first keepalive nothing is ever sent -/
theorem ack_is_running_max (v : Variant) (evs : List Ev) : c03RunMax (hist v evs) = true :=
  runMax_hist v evs

/-- every status is the initial keepalive's position or a progress value fed earlier — never a
position taken from received data -/
theorem acks_sourced (v : Variant) (evs : List Ev) : c03Sourced (hist v evs) = true :=
  sourced_of_runMax _ (runMax_hist v evs)

/-- every (re)start of replication (`GetConnWithStartLsn` that dials) requests exactly the largest
COMMIT position received so far (0 if none) — or, after an error recovery, the position reported
by `IdentifySystem` (raised by later COMMITs): `expectedStart` folded over the events so far.
Under the PG-stream grammar COMMIT positions increase, so "largest" is "last". -/
theorem restart_lsn_exact (v : Variant) (evs : List Ev) : c03Restarts (hist v evs) = true :=
  restarts_hist v evs

/-- `Start` begins with `GetConnWithStartLsn(0)` -/
theorem first_start_at_zero (v : Variant) (evs : List Ev) :
    (trace v evs).head? = some (.getconn 0 true) := by
  rw [trace_eq]; rfl

/-- What the model assumes about the source, re-generated from `client.go` by `factgen` on every run:
* `SendStandbyStatus` is called only by `sendProgressStatus`, which is called only by
  `handleProgress` (model: `sendStatus` is used by `handleProgress` alone);
* `handleProgress` has exactly the four call sites of the model: top of the loop with the ticker
  flag, receive timeout, reply-requested keepalive, blocked-output loop (all forced);
* `GetConnWithStartLsn` is called with `0` once (start) and with `c.highestWalStart` otherwise;
* `overallProgress` is assigned only from the first keepalive's `ServerWALEnd` and from a drained
  progress value; `highestWalStart` only from a COMMIT's `WalStart` and `IdentifySystem`'s position;
* the framing fields are written only by `handleXLogData` and `recoverFromErrorResponse`. -/
theorem client_write_sites_as_modelled :
    Gen.ClientSites.callersOf_SendStandbyStatus = ["sendProgressStatus"] ∧
    Gen.ClientSites.callersOf_sendProgressStatus = ["handleProgress"] ∧
    Gen.ClientSites.callersOf_handleProgress =
      ["Start(forceProgress)", "Start(true)", "handlePrimaryKeepaliveMessage(true)", "handleXLogData(true)"] ∧
    Gen.ClientSites.callersOf_GetConnWithStartLsn =
      ["sendProgressStatus(c.highestWalStart)", "Start(0)", "Start(c.highestWalStart)"] ∧
    Gen.ClientSites.assignsTo_overallProgress =
      [("handleProgress", "latestProgress"), ("Start", "uint64(pkm.ServerWALEnd)")] ∧
    Gen.ClientSites.assignsTo_highestWalStart =
      [("recoverFromErrorResponse", "uint64(sysident.XLogPos)"), ("handleXLogData", "wal.WalStart")] ∧
    Gen.ClientSites.assignsTo_transaction = [("handleXLogData", "wal.Pr.Transaction")] ∧
    Gen.ClientSites.assignsTo_timeBasedKey = [("handleXLogData", "strings.Join(strs, \"\")")] ∧
    Gen.ClientSites.assignsTo_sawCommit =
      [("recoverFromErrorResponse", "false"), ("handleXLogData", "true"), ("handleXLogData", "false"),
       ("handleXLogData", "false")] ∧
    Gen.ClientSites.assignsTo_firstIteration =
      [("recoverFromErrorResponse", "true"), ("handleXLogData", "true"), ("handleXLogData", "false")] := by
  decide

/-! ### non-vacuity: a session with decreasing / repeated / increasing progress values, a blocked
output interval, a cut, a dropped redelivery and an error recovery -/

def exEvs : List Ev := [
  ⟨[90, 150], .keepalive false 100 0, false⟩,
  ⟨[120], .data 110 (.begin "7") 1000 [], false⟩,
  ⟨[], .data 115 .change 0 [[], [180, 170]], true⟩,
  ⟨[], .data 120 (.commit "7") 0 [], false⟩,
  ⟨[], .data 130 (.begin "8") 2000 [], false⟩,
  ⟨[], .closedErr, false⟩,
  ⟨[], .data 130 (.begin "8") 3000 [], false⟩,
  ⟨[], .timeout, false⟩,
  ⟨[200], .errorResponse 500, false⟩,
  ⟨[], .keepalive true 600 0, false⟩]

example : statusesOf (trace .today exEvs) = [150, 150, 150, 180, 180, 200, 200] := by decide
example : startsOf (trace .today exEvs) = [0, 120, 120, 500] := by decide
example : c03RunMax (hist .today exEvs) = true ∧ c03Sourced (hist .today exEvs) = true ∧
    c03Restarts (hist .today exEvs) = true := by decide
/-- the specs are not trivially true: a status taken from received data is rejected -/
example : c03Sourced [(⟨[], .keepalive false 100 0, false⟩, []),
    (⟨[], .data 110 (.commit "7") 0 [], false⟩, [.status 110])] = false := by decide
example : c03Restarts [(⟨[], .keepalive false 100 0, false⟩, []),
    (⟨[], .data 110 (.commit "7") 0 [], false⟩, []), (⟨[], .closedErr, false⟩, [.getconn 111 true])] = false := by
  decide

/-! ## the connection manager (`conn/manager.go`, tied by the `connmgr` component over TCP) -/

/-- every START_REPLICATION the manager issues carries exactly the LSN of the call that opened the
connection, and is issued only when there was no live connection -/
theorem manager_start_exact (c : PgBifrost.ConnManager.Conn) (ops : List PgBifrost.ConnManager.Op) :
    ∀ (i l : Nat), (PgBifrost.ConnManager.run c ops)[i]? = some (.start l) → ops[i]? = some (.getRepl l) := by
  induction ops generalizing c with
  | nil => intro i l h; simp [PgBifrost.ConnManager.run] at h
  | cons op r ih =>
    intro i l h
    cases i with
    | zero =>
      simp only [PgBifrost.ConnManager.run, List.getElem?_cons_zero, Option.some.injEq] at h
      cases op <;> simp only [PgBifrost.ConnManager.step] at h
      · split at h <;> simp_all
      · split at h <;> simp_all
      · simp at h
      · simp at h
    | succ j =>
      simp only [PgBifrost.ConnManager.run, List.getElem?_cons_succ] at h ⊢
      exact ih _ j l h

example : PgBifrost.ConnManager.run .none [.getRepl 0, .getRepl 7, .drop, .getRepl 1080, .close, .getPlain] =
    [.start 0, .reuse, .ok, .start 1080, .ok, .dial] := by decide

/-! ## the acknowledgement logic is the one in the source

`Gen/ProgressSrc.lean` is TRANSLATED from `handleProgress` / `sendProgressStatus` on every run: the body of the
drain loop's receive case as a step on (overallProgress, progressUpdated), the condition for sending, the value
the status carries. The model's `drain`, `handleProgress` and `sendStatus` are equal to it. -/
section source
open PgBifrost.Gen.ProgressSrc

/-- the model's drain loop is the fold of the translated step over the values on the channel -/
theorem drain_as_in_source (l : List Nat) (o : Nat) (u : Bool) :
    drain l o u = l.foldl (fun p v => drainStep p.1 p.2 v) (o, u) := by
  induction l generalizing o u with
  | nil => rfl
  | cons v r ih =>
    have hstep : drainStep o u v = if o ≥ v then (o, u) else (v, true) := by
      unfold drainStep
      by_cases h : o ≥ v
      · simp [h]
      · have hv : v > o := by omega
        simp [h, hv]
    rw [List.foldl_cons, hstep, drain]
    by_cases h : o ≥ v
    · simp only [h, ↓reduceIte]; exact ih o u
    · simp only [h, ↓reduceIte]; exact ih v true

/-- a status is sent exactly under the source's condition, it carries `overallProgress` (after the drain), and the
connection is requested at `highestWalStart` -/
theorem handle_progress_as_in_source (s : State) (force : Bool) :
    handleProgress s force =
      (if sendCond (drain s.chan s.overall false).2 force
       then sendStatus { s with overall := (drain s.chan s.overall false).1, chan := [] }
       else ({ s with overall := (drain s.chan s.overall false).1, chan := [] }, [])) ∧
    statusCarries = "c.overallProgress" ∧ statusStartArg = "c.highestWalStart" ∧
    (∀ s', (sendStatus s').2.getLast? = some (.status s'.overall)) := by
  refine ⟨by simp [handleProgress, sendCond], by decide, by decide, ?_⟩
  intro s'
  simp [sendStatus, getConnRepl]

end source

/-- The connection manager as written (`getConn` with its reconnect test, the two public getters, `Close`),
translated from the source on this run, is the model's `step`: START_REPLICATION is issued only on a NEW
connection, on the configured slot, at EXACTLY the position passed in; a live connection is reused; `Close`
forgets the connection. -/
theorem conn_manager_as_in_source (c : PgBifrost.ConnManager.Conn) :
    (∀ lsn, PgBifrost.Gen.ConnSrc.getRepl c lsn = PgBifrost.ConnManager.step c (.getRepl lsn)) ∧
    PgBifrost.Gen.ConnSrc.getPlain c = PgBifrost.ConnManager.step c .getPlain ∧
    PgBifrost.Gen.ConnSrc.close c = PgBifrost.ConnManager.step c .close := by
  cases c <;> simp [PgBifrost.Gen.ConnSrc.getRepl, PgBifrost.Gen.ConnSrc.getPlain, PgBifrost.Gen.ConnSrc.getConn,
    PgBifrost.Gen.ConnSrc.close, PgBifrost.ConnManager.step, Id.run, pure]

end PgBifrost.Props.C03
