import PgBifrost.Model.Partitioner
import PgBifrost.Gen.Consts
import PgBifrost.Gen.Switches
/-!
# C06 — partition method decides batch composition as documented (property theorems)

The partition key is a function of the record alone (`partitionKey` takes only the relation
and the transaction id). That every batch holds records of exactly one partition key is
`PgBifrost.Props.C04.batch_single_key` (master batcher theorem); the theorems here say what
that key is per method, so that "one key per batch" means one transaction / one bucket / one
table / a single key.
-/
namespace PgBifrost.Props.C06
open PgBifrost.Partitioner PgBifrost.Batch PgBifrost.Gen.Consts

/-- 'transaction': the key is the transaction id, so equal keys mean the same transaction -/
theorem txn_key_single_txn (b : Nat) (r₁ r₂ t₁ t₂ : List UInt8)
    (h : partitionKey .txn b r₁ t₁ = partitionKey .txn b r₂ t₂) : t₁ = t₂ := h

/-- 'transaction-bucket': all records of a transaction get the same key, whatever their table -/
theorem bucket_same_txn_same_key (b : Nat) (r₁ r₂ t : List UInt8) :
    partitionKey .txnBucket b r₁ t = partitionKey .txnBucket b r₂ t := rfl

/-- 'transaction-bucket': the key is the decimal rendering of one of the configured buckets -/
theorem bucket_in_range (b : Nat) (hb : 1 ≤ b) (r t : List UInt8) :
    ∃ i, i < b ∧ partitionKey .txnBucket b r t = decimal i :=
  ⟨PgBifrost.Crc32.quickHash t b, Nat.mod_lt _ (by omega), rfl⟩

theorem map_inj_on {α β} (f : α → β) : ∀ (l₁ l₂ : List α),
    (∀ a ∈ l₁, ∀ b ∈ l₂, f a = f b → a = b) → l₁.map f = l₂.map f → l₁ = l₂
  | [], [], _, _ => rfl
  | [], _ :: _, _, h => by simp at h
  | _ :: _, [], _, h => by simp at h
  | a :: l₁, b :: l₂, hinj, h => by
    simp only [List.map_cons, List.cons.injEq] at h
    have hab := hinj a (by simp) b (by simp) h.1
    have := map_inj_on f l₁ l₂ (fun x hx y hy => hinj x (by simp [hx]) y (by simp [hy])) h.2
    rw [hab, this]

theorem digit_byte_inj (a b : Char) (ha : a.isDigit) (hb : b.isDigit)
    (h : a.toNat.toUInt8 = b.toNat.toUInt8) : a = b := by
  simp only [Char.isDigit, Bool.and_eq_true, decide_eq_true_eq] at ha hb
  have h' := congrArg UInt8.toNat h
  simp only [Nat.toUInt8, UInt8.toNat_ofNat'] at h'
  have ha1 : a.val.toNat = a.toNat := rfl
  have hb1 : b.val.toNat = b.toNat := rfl
  have h48 : '0'.val.toNat = 48 := rfl
  have h57 : '9'.val.toNat = 57 := rfl
  have a1 := UInt32.le_iff_toNat_le.mp ha.1
  have a2 := UInt32.le_iff_toNat_le.mp ha.2
  have b1 := UInt32.le_iff_toNat_le.mp hb.1
  have b2 := UInt32.le_iff_toNat_le.mp hb.2
  apply Char.ext
  apply UInt32.toNat_inj.mp
  omega

/-- the decimal rendering is injective: two different buckets never share a partition key -/
theorem decimal_injective (i j : Nat) (h : decimal i = decimal j) : i = j := by
  unfold decimal at h
  have := map_inj_on _ _ _ (fun a ha b hb hab =>
    digit_byte_inj a b (Nat.isDigit_of_mem_toDigits (by omega) (by omega) ha)
      (Nat.isDigit_of_mem_toDigits (by omega) (by omega) hb) hab) h
  have h2 := congrArg (fun l => Nat.ofDigitChars 10 l 0) this
  simpa [Nat.ofDigitChars_ten_toDigits] using h2

/-- 'transaction-bucket': equal keys mean the same bucket number, so with `bucket_in_range` the
keys are in one-to-one correspondence with the configured buckets `0 … b-1` -/
theorem bucket_key_same_bucket (b : Nat) (r₁ r₂ t₁ t₂ : List UInt8)
    (h : partitionKey .txnBucket b r₁ t₁ = partitionKey .txnBucket b r₂ t₂) :
    PgBifrost.Crc32.quickHash t₁ b = PgBifrost.Crc32.quickHash t₂ b := decimal_injective _ _ h

example : decimal 7 ≠ decimal 17 := by decide

/-- 'tablename': the key is the relation, so equal keys mean one table -/
theorem tablename_key_single_table (b : Nat) (r₁ r₂ t₁ t₂ : List UInt8)
    (h : partitionKey .tableName b r₁ t₁ = partitionKey .tableName b r₂ t₂) : r₁ = r₂ := h

/-- 'none': a single key -/
theorem none_single_key (b : Nat) (r t : List UInt8) : partitionKey .none b r t = [] := rfl

/-- Kinesis: partitioned batches key every record by the batch's partition key, un-partitioned
records are keyed by their own LSN in decimal -/
theorem kinesis_key_choice (m : Method) (msg : Msg) :
    kinesisKey (kinesisMethodFor m) msg = if m = .none then decimal msg.lsn else msg.pkey := by
  unfold kinesisMethodFor kinesisKey; cases m <;> simp

/-- the record-size accounting of the Kinesis batch uses exactly that key's length -/
theorem kinesis_key_len (meth : KinesisMethod) (msg : Msg) :
    kinesisKeyLen meth msg = (kinesisKey meth msg).length := by
  cases meth <;> simp [kinesisKeyLen, kinesisKey, decLen, decimal]

/-- the factory decision modelled by `kinesisMethodFor` is the one in the source (regenerated) -/
theorem kinesis_factory_as_modelled :
    kinesisFactoryDecision = ("PART_METHOD_NONE", "KINESIS_PART_WALSTART", "KINESIS_PART_BATCH") := by decide

/-- the option vocabulary is the documented one and maps to the modelled methods (regenerated) -/
theorem name_tables_as_documented :
    nameToPartitionMethod = [("none", "PART_METHOD_NONE"), ("tablename", "PART_METHOD_TABLENAME"),
      ("transaction", "PART_METHOD_TXN"), ("transaction-bucket", "PART_METHOD_TXN_BUCKET")] ∧
    partitionMethods = ["PART_METHOD_NONE", "PART_METHOD_TABLENAME", "PART_METHOD_TXN", "PART_METHOD_TXN_BUCKET"] ∧
    nameToRoutingMethod = [("partition", "BATCH_ROUTING_PARTITION"), ("round-robin", "BATCH_ROUTING_ROUND_ROBIN")] ∧
    routingMethods = ["BATCH_ROUTING_ROUND_ROBIN", "BATCH_ROUTING_PARTITION"] ∧
    kinesisPartitionMethods = ["KINESIS_PART_WALSTART", "KINESIS_PART_BATCH"] := by decide

example : partitionKey .txnBucket 4 [] "123".toUTF8.toList = decimal (PgBifrost.Crc32.quickHash "123".toUTF8.toList 4) := rfl

/-- **the partitioner's switch is the modelled one** (table regenerated from `Partitioner.Start` on every run):
`none` ↦ the empty key, `tablename` ↦ the relation, `transaction` ↦ the transaction id, `transaction-bucket` ↦
`strconv.Itoa(QuickHash(transaction, buckets))` — the cases of `Partitioner.partitionKey` — and the key is
stamped on the message exactly once, before the one send on the output channel. -/
theorem partition_switch_as_in_source :
    PgBifrost.Gen.Switches.partitionSwitch =
      [("PART_METHOD_NONE", "partitionKey = \"\""),
       ("PART_METHOD_TABLENAME", "partitionKey = msg.Pr.Relation"),
       ("PART_METHOD_TXN", "partitionKey = msg.Pr.Transaction"),
       ("PART_METHOD_TXN_BUCKET", "partitionKey = strconv.Itoa(utils.QuickHash(msg.Pr.Transaction, f.buckets))")] ∧
    PgBifrost.Gen.Switches.partitionStamp = ["msg.PartitionKey = partitionKey", "f.OutputChan <- msg"] := by decide

end PgBifrost.Props.C06
