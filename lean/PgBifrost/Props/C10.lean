import PgBifrost.Proofs.Marshal
import PgBifrost.Gen.MarshalEntrySrc
import PgBifrost.Proofs.MarshalPool
import PgBifrost.Gen.MarshalSrc
/-!
# C10 — JSON rendering faithful and independent of earlier messages (property theorems)

About the model `PgBifrost.Marshal` (`Model/Marshal.lean`) of `marshaller/marshaller.go`. The byte encoding
(goccy/go-json) is trusted; the correspondence harness parses the real bytes back with `encoding/json`.

FULL STATEMENT (false for the model, i.e. for the code — finding F5, see `marshal_quoted_toast_witness`):

    theorem marshal_decision_table (noOld : Bool) (c : Change) :
        (entry noOld c).columns = c.columns.map (specColumn c.operation noOld c.oldColumns)

where `specColumn` is the documented table: DELETE → old only; otherwise old shown iff enabled ∧ present in the old
tuple ∧ old text ≠ new text; new = previous value iff the new value is the UNQUOTED marker `unchanged-toast-datum`
and the old tuple has a (non-marker) value. The code tests `v.Value == "unchanged-toast-datum"` without looking at
`v.Quoted`, so a quoted text value reading `unchanged-toast-datum` is replaced by the old value (and, symmetrically, an
old quoted text of that content is taken for "unchanged" when the new tuple carries the marker).
-/
namespace PgBifrost.Props.C10
open PgBifrost.Marshal PgBifrost.Spec.Marshal PgBifrost.Proofs.Marshal

/-! ## decision table -/

/-- **decision table** (partial: for every change without a quoted `'unchanged-toast-datum'` text; both settings of
`noMarshalOldValue`, every operation, any column sets): the rendered columns are exactly the documented ones. -/
theorem marshal_decision_table_partial (noOld : Bool) (c : Change) (h : noQuotedToastLiteral c = true) :
    (entry noOld c).columns = c.columns.map (specColumn c.operation noOld c.oldColumns) := by
  simp only [noQuotedToastLiteral, Bool.and_eq_true, List.all_eq_true, Bool.not_eq_true'] at h
  show c.columns.map (colEntry c.operation noOld c.oldColumns) = _
  apply List.map_congr_left
  intro kv hkv
  exact colEntry_eq_spec _ _ _ kv (h.1 kv hkv) (fun o ho => h.2 (kv.1, o) (lookup_some_mem _ _ _ ho))

example : noQuotedToastLiteral
    { operation := "UPDATE", relation := "public.t", timeMs := 0, timeStr := "", lsn := 1, key := "1-0", txn := "",
      pkey := "", columns := [("a", ⟨"unchanged-toast-datum", "text", false⟩), ("b", ⟨"x", "text", true⟩)],
      oldColumns := [("a", ⟨"big", "text", true⟩), ("b", ⟨"y", "text", true⟩)] } = true := by decide

/-- DELETE needs no hypothesis: every column is shown as `old` only -/
theorem marshal_delete_old_only (noOld : Bool) (c : Change) (h : c.operation = "DELETE") :
    (entry noOld c).columns = c.columns.map fun kv => (kv.1, some (render kv.2), none) := by
  show c.columns.map (colEntry c.operation noOld c.oldColumns) = _
  apply List.map_congr_left
  intro kv _
  simp [colEntry, h, marshalColumnValuePair, mcv_render]

/-- **the full statement fails** (finding F5): `UPDATE t SET c = 'unchanged-toast-datum'` on a row whose old value
was `'before'` is rendered with new = old = `before`. -/
theorem marshal_quoted_toast_witness :
    ¬ ∀ (noOld : Bool) (c : Change),
        (entry noOld c).columns = c.columns.map (specColumn c.operation noOld c.oldColumns) := by
  intro h
  have := h false
    { operation := "UPDATE", relation := "public.t", timeMs := 0, timeStr := "", lsn := 1, key := "1-0", txn := "",
      pkey := "", columns := [("c", ⟨"unchanged-toast-datum", "text", true⟩)],
      oldColumns := [("c", ⟨"before", "text", true⟩)] }
  revert this
  decide

/-- the same witness seen by the monitor's check: the model's own output does not conform, and the verdict is the
known-finding tag -/
theorem marshal_quoted_toast_witness_verdict :
    let c : Change :=
      { operation := "UPDATE", relation := "public.t", timeMs := 0, timeStr := "", lsn := 1, key := "1-0", txn := "",
        pkey := "", columns := [("c", ⟨"unchanged-toast-datum", "text", true⟩)],
        oldColumns := [("c", ⟨"before", "text", true⟩)] }
    outOk false c (stage false c) = false ∧ verdict false c (stage false c) = "viol known quoted_toast_literal" := by
  decide

/-! ## LSN -/

/-- **LSN text**: `%X/%X` of the high and low 32 bits, and it reads back to the same 64-bit value -/
theorem lsn_format_roundtrip (x : Nat) (hx : x < 2 ^ 64) :
    parseLsn (formatLsn x) = some x ∧
    formatLsn x = upperHex (x / 2 ^ 32) ++ "/" ++ upperHex (x % 2 ^ 32) := by
  refine ⟨?_, formatLsn_eq x hx⟩
  unfold parseLsn formatLsn
  rw [String.toList_ofList]
  exact parseLsnChars_format x hx

/-- hex rendering is injective (a consequence of the round trip) -/
theorem upperHex_injective (a b : Nat) (h : upperHex a = upperHex b) : a = b := by
  have h' : upperHexChars a = upperHexChars b := by
    have := congrArg String.toList h
    simpa [upperHex, String.toList_ofList] using this
  have ha := parseHex_upperHexChars a
  rw [h', parseHex_upperHexChars b] at ha
  exact (Option.some.inj ha).symm

theorem formatLsn_injective (x y : Nat) (hx : x < 2 ^ 64) (hy : y < 2 ^ 64) (h : formatLsn x = formatLsn y) : x = y := by
  have h1 := (lsn_format_roundtrip x hx).1
  rw [h, (lsn_format_roundtrip y hy).1] at h1
  exact (Option.some.inj h1).symm

example : formatLsn 0x16B374D848 = "16/B374D848" ∧ formatLsn 0 = "0/0" ∧ formatLsn 0x10000000F = "1/F" ∧
    formatLsn (2 ^ 64 - 1) = "FFFFFFFF/FFFFFFFF" ∧ parseLsn "16/B374D848" = some 0x16B374D848 ∧
    parseLsn "16/b374d848" = none ∧ parseLsn "/1" = none := by decide

/-! ## fields -/

/-- **header and scalar fields are copied unchanged** (record and `MarshalledMessage`); BEGIN/COMMIT carry no JSON -/
theorem marshal_fields_equal (noOld : Bool) (c : Change) :
    (entry noOld c).table = c.relation ∧ (entry noOld c).operation = c.operation ∧
    (entry noOld c).txn = c.key ∧ (entry noOld c).timeMs = c.timeMs ∧
    (entry noOld c).time = (if c.timeMs = 0 then epochFormatted else c.timeStr) ∧
    (entry noOld c).lsn = formatLsn c.lsn ∧
    (stage noOld c).operation = c.operation ∧ (stage noOld c).table = c.relation ∧
    (stage noOld c).timeBasedKey = c.key ∧ (stage noOld c).walStart = c.lsn ∧
    (stage noOld c).transaction = c.txn ∧ (stage noOld c).partitionKey = c.pkey ∧
    (stage noOld c).json =
      (if c.operation = "BEGIN" ∨ c.operation = "COMMIT" then none else some (entry noOld c)) := by
  refine ⟨rfl, rfl, rfl, rfl, ?_, rfl, rfl, rfl, rfl, rfl, rfl, rfl, rfl⟩
  show timeText c = _
  unfold timeText
  by_cases h : c.timeMs = 0 <;> simp [h]

/-- **value / type / quoted of every shown entry are those of a column of the change with the same name** (no
hypothesis: this also holds for the F5 cases), and the names are exactly the new tuple's -/
theorem marshal_values_from_change (noOld : Bool) (c : Change) :
    (entry noOld c).columns.map (·.1) = c.columns.map (·.1) ∧
    ∀ k o n, (k, o, n) ∈ (entry noOld c).columns →
      (∀ j, o = some j → ∃ cv, ((k, cv) ∈ c.columns ∨ (k, cv) ∈ c.oldColumns) ∧ j = render cv) ∧
      (∀ j, n = some j → ∃ cv, ((k, cv) ∈ c.columns ∨ (k, cv) ∈ c.oldColumns) ∧ j = render cv) := by
  constructor
  · show (c.columns.map (colEntry c.operation noOld c.oldColumns)).map (·.1) = _
    rw [List.map_map]
    apply List.map_congr_left
    intro kv _
    simp only [Function.comp, colEntry]
    split
    · rfl
    · split
      · split
        · split <;> split <;> rfl
        · rfl
      · rfl
  · intro k o n hmem
    obtain ⟨kv, hkv, he⟩ := List.mem_map.mp hmem
    obtain ⟨k', v⟩ := kv
    have hnew : (k', v) ∈ c.columns := hkv
    simp only [colEntry] at he
    split at he
    · cases he
      exact ⟨fun j hj => ⟨v, Or.inl hnew, by simpa [marshalColumnValuePair, mcv_render] using hj.symm⟩,
        fun j hj => by simp at hj⟩
    · split at he
      · rename_i oldV hl
        have hold : (k', oldV) ∈ c.oldColumns := lookup_some_mem _ _ _ hl
        split at he
        · split at he
          · split at he <;> cases he <;> refine ⟨fun j hj => ?_, fun j hj => ?_⟩ <;>
              first
              | (simp at hj; done)
              | exact ⟨oldV, Or.inr hold, by simpa [marshalColumnValuePair, mcv_render] using hj.symm⟩
          · split at he <;> cases he <;> refine ⟨fun j hj => ?_, fun j hj => ?_⟩ <;>
              first
              | (simp at hj; done)
              | exact ⟨oldV, Or.inr hold, by simpa [marshalColumnValuePair, mcv_render] using hj.symm⟩
              | exact ⟨v, Or.inl hnew, by simpa [marshalColumnValuePair, mcv_render] using hj.symm⟩
        · cases he
          exact ⟨fun j hj => by simp at hj,
            fun j hj => ⟨v, Or.inl hnew, by simpa [marshalColumnValuePair, mcv_render] using hj.symm⟩⟩
      · cases he
        exact ⟨fun j hj => by simp at hj,
          fun j hj => ⟨v, Or.inl hnew, by simpa [marshalColumnValuePair, mcv_render] using hj.symm⟩⟩

/-! ## the monitor's check accepts the model (soundness link between `Spec.conforms` and the theorems above) -/

/-- for every well-formed change (unique names as in a Go map, 64-bit LSN) without a quoted toast literal the stage
output passes the check the monitor applies to the implementation's outputs -/
theorem marshal_conforms_partial (noOld : Bool) (c : Change) (h : noQuotedToastLiteral c = true)
    (hn : (c.columns.map (·.1)).Nodup) (hl : c.lsn < 2 ^ 64) :
    outOk noOld c (stage noOld c) = true := by
  have hf := marshal_fields_equal noOld c
  have hfields : fieldsOk c (entry noOld c) = true := by
    obtain ⟨h1, h2⟩ := lsn_format_roundtrip c.lsn hl
    have ht : (entry noOld c).time = specTime c := hf.2.2.2.2.1
    have hlsn : (entry noOld c).lsn = formatLsn c.lsn := rfl
    have hms : (entry noOld c).timeMs = c.timeMs := rfl
    have htxn : (entry noOld c).txn = c.key := rfl
    have htab : (entry noOld c).table = c.relation := rfl
    have hop : (entry noOld c).operation = c.operation := rfl
    simp only [fieldsOk, ht, hlsn, hms, htxn, htab, hop, h1, specLsn, ← h2, beq_self_eq_true, Bool.and_self]
  have hcols : columnsOk noOld c (entry noOld c) = true := by
    have hd := marshal_decision_table_partial noOld c h
    simp only [columnsOk, hd, List.length_map, beq_self_eq_true, Bool.true_and, List.all_eq_true]
    intro kv hkv
    obtain ⟨k, v⟩ := kv
    simp only [columnOk, beq_iff_eq]
    exact lookup_map_of_mem (fun kv => specPair c.operation noOld (c.oldColumns.lookup kv.1) kv.2) c.columns k v hn hkv
  have hhdr : headerOk c (stage noOld c) = true := by simp [headerOk, stage]
  unfold outOk
  rw [hhdr]
  by_cases hm : c.operation = "BEGIN" ∨ c.operation = "COMMIT"
  · simp [hm, stage]
  · simp [hm, stage, conforms, hfields, hcols]

example :
    let c : Change :=
      { operation := "UPDATE", relation := "public.t", timeMs := 1500, timeStr := "1970-01-01T00:00:01Z",
        lsn := 0x16B374D848, key := "7-1", txn := "", pkey := "",
        columns := [("a", ⟨"unchanged-toast-datum", "text", false⟩), ("b", ⟨"x", "text", true⟩), ("c", ⟨"1", "integer", false⟩)],
        oldColumns := [("a", ⟨"big", "text", true⟩), ("b", ⟨"y", "text", true⟩), ("c", ⟨"1", "integer", false⟩)] }
    (entry false c).columns =
      [("a", some ⟨"big", "text", "true"⟩, some ⟨"big", "text", "true"⟩),
       ("b", some ⟨"y", "text", "true"⟩, some ⟨"x", "text", "true"⟩),
       ("c", none, some ⟨"1", "integer", "false"⟩)] ∧
    (entry true c).columns =
      [("a", none, some ⟨"big", "text", "true"⟩), ("b", none, some ⟨"x", "text", "true"⟩),
       ("c", none, some ⟨"1", "integer", "false"⟩)] ∧
    outOk false c (stage false c) = true := by decide

/-! ## history independence -/

/-- **the record for a change depends only on that change and the configuration.** For the MODEL this is true by
construction (it is a function without state; the proof is `rfl`/`List.map` bookkeeping). The content of the claim is
about the CODE — pooled maps, `colsTemp`, `reusedWalEntry`, `lsnBuffer` do not leak between calls — and that is what
the correspondence harness decides by pushing sequences of changes of different shapes through one real
`Marshaller` (plus the shuffled re-run) and comparing every output with this per-message function. -/
theorem marshal_history_independent (noOld : Bool) (before after : List Change) (c : Change) :
    stageSeq noOld (before ++ c :: after) =
      stageSeq noOld before ++ stage noOld c :: stageSeq noOld after ∧
    (stageSeq noOld (before ++ c :: after))[before.length]? = some (stage noOld c) := by
  constructor
  · simp [stageSeq]
  · simp [stageSeq]

/-- **the reuse machinery does not leak** (about the lower-level model `PgBifrost.MarshalPool`, which keeps `colsTemp`,
the two `sync.Pool`s with the stale content of returned maps, the `used…` lists and the environment's choice at every
`Pool.Get`): from ANY state satisfying the invariant "pooled pair maps are empty, pooled value maps have no key but
`v`/`t`/`q`" — `colsTemp` arbitrary — and for ANY choices of the pools, one call hands the JSON encoder exactly the pure
model's record, and re-establishes the invariant. The fresh process satisfies the invariant. -/
theorem marshal_pool_independent (noOld : Bool) (st : MarshalPool.PState) (choices : List (Option Nat)) (c : Change)
    (h : Proofs.MarshalPool.Inv st) :
    (MarshalPool.marshalP noOld st choices c).1 = MarshalPool.pureRecord noOld c ∧
    Proofs.MarshalPool.Inv (MarshalPool.marshalP noOld st choices c).2 ∧
    Proofs.MarshalPool.Inv MarshalPool.pristine :=
  ⟨(Proofs.MarshalPool.marshalP_spec noOld st choices c h).1, (Proofs.MarshalPool.marshalP_spec noOld st choices c h).2,
   Proofs.MarshalPool.inv_pristine⟩

/-- whole streams through one marshaller, with arbitrary pool choices and garbage collections in between, starting
from a fresh process: the outputs are the per-message records of the pure model -/
theorem marshal_pool_stream (noOld : Bool) (steps : List (List (Option Nat) × Bool × Change)) :
    MarshalPool.runP noOld MarshalPool.pristine steps = steps.map fun s => MarshalPool.pureRecord noOld s.2.2 :=
  Proofs.MarshalPool.runP_spec noOld steps _ Proofs.MarshalPool.inv_pristine

/-- the invariant is needed: a pooled pair map that still carries `old` (what removing `delete(m, "old")` from
`clearColValuePairs` would leave behind) shows up in the next record -/
example :
    let stale : MarshalPool.PairMap := MarshalPool.SMap.empty.set "old" (MarshalPool.jcvMap ⟨"x", "text", "true"⟩)
    let st : MarshalPool.PState := ⟨MarshalPool.SMap.empty, [], [stale]⟩
    let c : Change := { (default : Change) with operation := "INSERT", columns := [("a", ⟨"1", "integer", false⟩)] }
    (((MarshalPool.marshalP false st [some 0] c).1.columns "a").bind (· "old")).isSome = true ∧
    (((MarshalPool.pureRecord false c).columns "a").bind (· "old")).isSome = false := by decide

example : (stageSeq false [default, { (default : Change) with operation := "BEGIN" }]).map (·.json.isSome) =
    [true, false] := by decide

/-- **the column decision of the model is the loop in the source** (`marshal_columns_as_in_source`).
`Gen/MarshalSrc.lean` is the body of `for k, v := range msg.Pr.Columns` of `marshalWalToJson` TRANSLATED on every
run (the two-value map read of the old column with Go's zero value when absent, DELETE, the changed / TOAST /
`noMarshalOldValue` branches with their `continue`s, which values go to `marshalColumnValuePair`, and that
function puts its first argument under `"new"` and its second under `"old"`). The model's `colEntry` is EQUAL to
it for every operation, option, old tuple, column name and value. -/
theorem marshal_columns_as_in_source (op : String) (noOld : Bool) (old : List (String × CV)) (k : String) (v : CV) :
    colEntry op noOld old (k, v) =
      (k, marshalColumnValuePair (PgBifrost.Gen.MarshalSrc.colArgs op noOld old k v).1
            (PgBifrost.Gen.MarshalSrc.colArgs op noOld old k v).2) := by
  unfold colEntry PgBifrost.Gen.MarshalSrc.colArgs
  by_cases hd : op = "DELETE"
  · simp [hd, Id.run, pure, bind]
  · cases ho : old.lookup k with
    | none => simp [hd, ho, Id.run, pure, bind]
    | some oldV =>
      by_cases hv : v.value = oldV.value
      · simp [hd, ho, hv, Id.run, pure, bind]
      · by_cases ht : v.value = toastMarker <;> cases noOld <;>
          simp [hd, ho, hv, ht, toastMarker, Id.run, pure, bind] <;> simp_all [toastMarker]

theorem upperHex_append (a b : Nat) :
    upperHex a ++ "/" ++ upperHex b = String.ofList (upperHexChars a ++ '/' :: upperHexChars b) := by
  simp [upperHex, String.ofList_append, String.append_assoc]

/-- The rest of `marshalWalToJson` - the time text (the server time only when non-zero), the LSN text (`%X/%X` of
the upper and lower 32 bits), every field of the entry handed to the JSON encoder, its JSON names - and the header
copy and BEGIN/COMMIT rule of `Marshaller.Start`, translated from the source on this run, are the model's `entry`
and `stage`: every field of a rendered record is a function of the message alone. -/
theorem marshal_entry_as_in_source :
    PgBifrost.Gen.MarshalEntrySrc.entry = entry ∧ PgBifrost.Gen.MarshalEntrySrc.stage = stage ∧
    PgBifrost.Gen.MarshalEntrySrc.tags = [("Time", "json:\"time\""), ("TimeMs", "json:\"time_ms\""), ("Txn", "json:\"txn\""),
      ("Lsn", "json:\"lsn\""), ("Table", "json:\"table\""), ("Operation", "json:\"operation\""), ("Columns", "json:\"columns\"")] := by
  have he : PgBifrost.Gen.MarshalEntrySrc.entry = entry := by
    funext noOld c
    simp [PgBifrost.Gen.MarshalEntrySrc.entry, entry, timeText, formatLsn, formatLsnChars, upperHex_append]
  refine ⟨he, ?_, rfl⟩
  funext noOld c
  simp only [PgBifrost.Gen.MarshalEntrySrc.stage, stage, he]
  by_cases h : c.operation = "BEGIN" ∨ c.operation = "COMMIT" <;> simp [h]

end PgBifrost.Props.C10
