import PgBifrost.Spec.Filter
import PgBifrost.Gen.FilterSrc
/-!
# C08 — table filter semantics from command line to output (property theorems)
-/
namespace PgBifrost.Props.C08
open PgBifrost.Filter PgBifrost.Spec.Filter PgBifrost.Gen.CliFilter

/-- what "permitted by the configured filter" means for the filter stage's own configuration -/
def permitted (c : Cfg) (mt : Nat → Bool) (rel : String) : Bool :=
  if passthrough c then true
  else match c.whitelist, c.regex with
    | true, false => c.tablelist.any (· == rel)
    | false, false => !(c.tablelist.any (· == rel))
    | true, true => (List.range c.tablelist.length).any mt
    | false, true => !((List.range c.tablelist.length).any mt)

/-- **filter stage**: a message is forwarded iff it is a BEGIN/COMMIT marker or its table is permitted -/
theorem filter_iff (c : Cfg) (mt : Nat → Bool) (op : MOp) (rel : String) :
    passes c mt op rel = (op != .data || permitted c mt rel) := by
  unfold passes permitted found
  cases hp : passthrough c <;> cases op <;> cases hw : c.whitelist <;> cases hr : c.regex <;> simp

/-- **stream**: the stage's output is the input filtered by `passes`, order unchanged -/
theorem filter_stream (c : Cfg) (mt : String → Nat → Bool) (msgs : List (MOp × String)) :
    (msgs.filter fun m => passes c (mt m.2) m.1 m.2).Sublist msgs := List.filter_sublist

/-- markers always pass -/
theorem markers_pass (c : Cfg) (mt : Nat → Bool) (rel : String) :
    passes c mt .begin rel = true ∧ passes c mt .commit rel = true := by
  unfold passes; cases passthrough c <;> simp

/-- **command line ▸ filter stage** (about the fragment of `main.go` regenerated on every run):
with at most one of the four options given, the pipeline forwards a row change exactly when
the user's option permits its table. -/
theorem cli_filter_correct (wl bl wlr blr : List String) (mt : Nat → Bool) (rel : String)
    (h : atMostOneKind wl bl wlr blr = true) :
    cliDecision wl bl wlr blr mt rel = .ok (userIntent wl bl wlr blr mt rel) := by
  unfold cliDecision cliFilter userIntent atMostOneKind at *
  cases wl <;> cases bl <;> cases wlr <;> cases blr <;>
    simp_all [Except.map, passes, passthrough, found, ofCli, bind, Except.bind, pure, Except.pure]

/-- the hypotheses are satisfiable and the statement is about a real decision -/
example : cliDecision ["public.a"] [] [] [] (fun _ => false) "public.b" = .ok false := by rfl

/-- **the filter model is the filter's source** (`filter_as_in_source`). `Gen/FilterSrc.lean` is `filter/filter.go`
TRANSLATED on every run: the pass-through rule of `New`, and what `Start` does with one received message — forward
when passing through, forward BEGIN/COMMIT, search the list (one compiled pattern per entry, or equality), the
whitelist / blacklist decision, drop or forward. The model's `passes` is EQUAL to it for every configuration,
matcher, operation and relation. -/
theorem filter_as_in_source (c : Cfg) (mt : Nat → Bool) (op : MOp) (rel : String) :
    PgBifrost.Gen.FilterSrc.forwards c mt op rel = passes c mt op rel ∧
    PgBifrost.Gen.FilterSrc.passthrough c = passthrough c ∧
    PgBifrost.Gen.FilterSrc.compilesPerEntry = true := by
  have hp : PgBifrost.Gen.FilterSrc.passthrough c = passthrough c := by
    simp only [PgBifrost.Gen.FilterSrc.passthrough, passthrough]
    cases c.whitelist <;> cases h : c.tablelist <;> simp
  refine ⟨?_, hp, rfl⟩
  unfold PgBifrost.Gen.FilterSrc.forwards passes found
  rw [hp]
  have hsym : (c.tablelist.any fun item => rel == item) = c.tablelist.any (· == rel) := by
    congr 1; funext item; exact Bool.eq_iff_iff.mpr ⟨fun h => by simpa using (by simpa using h : rel = item).symm, fun h => by simpa using (by simpa using h : item = rel).symm⟩
  cases hpt : passthrough c <;> cases op <;> cases hw : c.whitelist <;> cases hr : c.regex <;>
    simp [Id.run, hsym, pure, bind] <;> (repeat' (first | rfl | split)) <;> (try simp_all) <;>
    (try (intro x hx hxr; subst hxr; contradiction))

end PgBifrost.Props.C08
