import PgBifrost.Proofs.BatcherRouting
import PgBifrost.Gen.PosLits
import PgBifrost.Props.C04
import PgBifrost.Proofs.Kinesis
import PgBifrost.Gen.Switches
/-!
# C05 — WAL order inside batches and per partition key (batcher layer)

Corollaries of `C04.batcher_partition_faithful` (list equality = order) plus the routing
decision of `sendBatch`. The worker side (FIFO channel, sequential worker) is not part of this
model: `dispatchedTo evs w` is the sequence of batches handed to worker `w`'s channel.
-/
namespace PgBifrost.Props.C05
open PgBifrost.Batch PgBifrost.Batcher

variable {K : Kind} {big bad : Msg → Bool} {dom : Msg → Prop}

/-- **5. Order inside a batch.** The payload of every dispatched batch is a subsequence, in
order, of the data messages of the input (every run, dead or not). -/
theorem in_batch_order (hL : Laws K big bad dom) (cfg : Cfg) (ops : List Op)
    (hdom : ∀ m ∈ dataMsgs ops, dom m) :
    ∀ b ∈ dispatched (run K cfg ops).2, b.payload.Sublist (dataMsgs ops) := by
  intro b hb
  have h1 : b.payload.Sublist (D (run K cfg ops).2 b.pkey ++ openPayload (run K cfg ops).1 b.pkey) :=
    (payload_sublist_D hb).trans (List.sublist_append_left _ _)
  cases hd : (run K cfg ops).1.dead with
  | false =>
    have h2 := C04.batcher_partition_faithful hL cfg ops hdom hd b.pkey
    unfold D at h1
    rw [h2] at h1
    exact h1.trans List.filter_sublist
  | true =>
    obtain ⟨pre, m, rest, hops, _, _, h2⟩ := C04.batcher_partition_faithful_dead hL cfg ops hdom hd
    unfold D at h1
    rw [h2 b.pkey] at h1
    refine (h1.trans List.filter_sublist).trans ?_
    rw [hops, dataMsgs_append]
    exact List.sublist_append_left _ _

/-- **7a. Worker index in range** (both routing modes, every run). -/
theorem worker_in_range (hL : Laws K big bad dom) (cfg : Cfg) (hw : 1 ≤ cfg.workers) (ops : List Op)
    (hdom : ∀ m ∈ dataMsgs ops, dom m) :
    ∀ w b, Ev.dispatch w b ∈ (run K cfg ops).2 → w < cfg.workers := by
  intro w b h
  exact run_events hL cfg ops hdom (fun e => ∀ w b, e = Ev.dispatch w b → w < cfg.workers)
    (fun w b h => by cases h) (fun g acc hR => reach_worker_in_range hw hR) _ h w b rfl

/-- `round_robin_in_range` is the instance of `worker_in_range` the property list names. -/
theorem round_robin_in_range (hL : Laws K big bad dom) (cfg : Cfg) (hw : 1 ≤ cfg.workers)
    (_hr : cfg.routing = .roundRobin) (ops : List Op) (hdom : ∀ m ∈ dataMsgs ops, dom m) :
    ∀ w b, Ev.dispatch w b ∈ (run K cfg ops).2 → w < cfg.workers :=
  worker_in_range hL cfg hw ops hdom

/-- **6. Partition routing is a function of the partition key**: with `routing = partition`
every dispatch goes to worker `crc32(pkey) % workers` (every run). -/
theorem partition_routing_fixed (hL : Laws K big bad dom) (cfg : Cfg) (hr : cfg.routing = .partition)
    (ops : List Op) (hdom : ∀ m ∈ dataMsgs ops, dom m) :
    ∀ w b, Ev.dispatch w b ∈ (run K cfg ops).2 → w = Crc32.quickHash b.pkey cfg.workers := by
  intro w b h
  exact run_events hL cfg ops hdom (fun e => ∀ w b, e = Ev.dispatch w b → w = Crc32.quickHash b.pkey cfg.workers)
    (fun w b h => by cases h) (fun g acc hR => reach_partition_routing hr hR) _ h w b rfl

/-- 6, corollary: all batches of one partition key go to the same worker. -/
theorem partition_same_worker (hL : Laws K big bad dom) (cfg : Cfg) (hr : cfg.routing = .partition)
    (ops : List Op) (hdom : ∀ m ∈ dataMsgs ops, dom m) (w1 w2 : Nat) (b1 b2 : Batch)
    (h1 : Ev.dispatch w1 b1 ∈ (run K cfg ops).2) (h2 : Ev.dispatch w2 b2 ∈ (run K cfg ops).2)
    (hk : b1.pkey = b2.pkey) : w1 = w2 := by
  rw [partition_routing_fixed hL cfg hr ops hdom w1 b1 h1, partition_routing_fixed hL cfg hr ops hdom w2 b2 h2, hk]

/-- 6, corollary (`per_key_submission_order`): under partition routing the key-`k` batches that
worker `crc32(k) % workers` receives, concatenated in the order it receives them, followed by the
key's open batch, are the accepted input records of key `k` in input order. -/
theorem per_key_submission_order (hL : Laws K big bad dom) (cfg : Cfg) (hr : cfg.routing = .partition)
    (ops : List Op) (hdom : ∀ m ∈ dataMsgs ops, dom m) (hnd : (run K cfg ops).1.dead = false) (k : PKey) :
    ((dispatchedTo (run K cfg ops).2 (Crc32.quickHash k cfg.workers)).filter (fun b => b.pkey = k)).flatMap (·.payload)
        ++ openPayload (run K cfg ops).1 k
      = (dataMsgs ops).filter (fun m => decide (m.pkey = k) && !big m && !bad m) := by
  rw [dispatchedTo_filter_eq]
  · exact C04.batcher_partition_faithful hL cfg ops hdom hnd k
  · intro e he w' b heq hk
    subst heq
    rw [partition_routing_fixed hL cfg hr ops hdom w' b he, hk]

/-- **7b. Single worker**: with one worker every batch goes to worker 0 (either routing mode). -/
theorem single_worker_zero (hL : Laws K big bad dom) (cfg : Cfg) (hw : cfg.workers = 1) (ops : List Op)
    (hdom : ∀ m ∈ dataMsgs ops, dom m) :
    ∀ w b, Ev.dispatch w b ∈ (run K cfg ops).2 → w = 0 := by
  intro w b h
  have := worker_in_range hL cfg (by omega) ops hdom w b h
  omega

/-- **7c. `single_worker_total_order`**: one worker and one partition key (no partitioning): what
worker 0 receives, concatenated in order, followed by the open batch, is the accepted input in
input order. -/
theorem single_worker_total_order (hL : Laws K big bad dom) (cfg : Cfg) (hw : cfg.workers = 1)
    (ops : List Op) (hdom : ∀ m ∈ dataMsgs ops, dom m) (hnd : (run K cfg ops).1.dead = false)
    (k0 : PKey) (hk0 : ∀ m ∈ dataMsgs ops, m.pkey = k0) :
    (dispatchedTo (run K cfg ops).2 0).flatMap (·.payload) ++ openPayload (run K cfg ops).1 k0
      = (dataMsgs ops).filter (fun m => !big m && !bad m) := by
  rw [dispatchedTo_all _ 0 (fun e he w' b heq => by subst heq; exact single_worker_zero hL cfg hw ops hdom w' b he)]
  have hall : ∀ b ∈ dispatched (run K cfg ops).2, b.pkey = k0 := by
    intro b hb
    have hne := run_dispatched_nonempty hL cfg ops hdom b hb
    cases hp : b.payload with
    | nil => exact absurd hp hne
    | cons m r =>
      have hm : m ∈ b.payload := by rw [hp]; exact List.mem_cons_self
      rw [← C04.batch_single_key hL cfg ops hdom b hb m hm]
      exact hk0 m ((in_batch_order hL cfg ops hdom b hb).subset hm)
  have h1 := C04.batcher_partition_faithful hL cfg ops hdom hnd k0
  rw [List.filter_eq_self.mpr (fun b hb => by simp [hall b hb])] at h1
  rw [h1]
  apply List.filter_congr
  intro m hm
  simp [hk0 m hm]

/-! ### the theorems are not vacuous -/

example (ops : List Op) := in_batch_order (genericLaws 3 (by omega)) ⟨4, .partition, 1000, 5000, 1000000⟩ ops (fun _ _ => trivial)
example (ops : List Op) :=
  partition_routing_fixed (kafkaLaws 100 1000000 (by omega)) ⟨4, .partition, 1000, 5000, 1000000⟩ rfl ops (fun _ _ => trivial)
example (ops : List Op) (hkey : ∀ m ∈ dataMsgs ops, kinesisKeyLen .walStart m ≤ 4 * 1024 * 1024) :=
  per_key_submission_order (kinesisLaws 500 (5*1024*1024) (1024*1024) .walStart (by omega))
    ⟨3, .partition, 1000, 5000, 1000000⟩ rfl ops (fun m hm hs => by have := hkey m hm; omega)
example (ops : List Op) :=
  round_robin_in_range (genericLaws 3 (by omega)) ⟨4, .roundRobin, 1000, 5000, 1000000⟩ (by decide) rfl ops (fun _ _ => trivial)
example (ops : List Op) (hk : ∀ m ∈ dataMsgs ops, m.pkey = []) :=
  single_worker_total_order (genericLaws 3 (by omega)) ⟨1, .roundRobin, 1000, 5000, 1000000⟩ rfl ops (fun _ _ => trivial)
    (C04.batcher_never_dead (genericLaws 3 (by omega)) (genericNoFatal 3) _ ops (fun _ _ => trivial)) [] hk

/-! ## order at the sink: the Kinesis worker's retries

The batcher theorems above end at the worker's input channel. The one worker that re-submits PARTS of a
batch is the Kinesis worker; its model (`Model/KinesisRetry.lean`, tied to the code by the `kinesis`
component) keeps the batch's order in every call. -/
section kinesis
open PgBifrost.KinesisRetry PgBifrost.Spec.Kinesis PgBifrost.Proofs.Kinesis

/-- **Every `PutRecords` call of the Kinesis worker submits records in the batch's order**: each call — the
first one and every retry, whatever fails, for every budget — is a sub-list (order kept) of the batch. -/
theorem kinesis_calls_keep_batch_order {α : Type} (recs : List α) (outs : List Outcome) (budget : Nat) :
    ∀ (n : Nat) (c : List α), (run recs outs budget).2[n]? = some c → c.Sublist recs := by
  intro n
  induction n with
  | zero =>
    intro c hc
    have hh := loop_calls_head (budget + 1) recs outs
    have hrun : run recs outs budget = loop (budget + 1) recs outs := rfl
    rw [hrun] at hc
    rcases hh with h | h
    · rw [h] at hc; cases hc
    · cases hl : (loop (budget + 1) recs outs).2 with
      | nil => rw [hl] at hc; cases hc
      | cons a r =>
        rw [hl] at h hc
        simp at h hc
        rw [← hc, h]
        exact List.Sublist.refl _
  | succ n ih =>
    intro b hb
    cases ha : (run recs outs budget).2[n]? with
    | none =>
      have : (run recs outs budget).2.length ≤ n := List.getElem?_eq_none_iff.mp ha
      have : (run recs outs budget).2[n + 1]? = none := List.getElem?_eq_none_iff.mpr (by omega)
      rw [this] at hb; cases hb
    | some a =>
      have h := loop_retry (budget + 1) recs outs n a b ha hb
      have hsub : b.Sublist a := by
        rw [h]
        cases outAt outs n with
        | resp codes fc => exact failedOf_sublist a codes
        | callError => exact List.Sublist.refl a
        | cancelled => exact List.Sublist.refl a
      exact hsub.trans (ih a ha)

/-- the monitor evaluated on the real worker's calls accepts exactly that -/
theorem callsInOrder_iff {α : Type} [BEq α] [LawfulBEq α] (recs : List α) (calls : List (List α)) :
    callsInOrder recs calls = true ↔ ∀ c ∈ calls, c.Sublist recs := by
  simp [callsInOrder, List.all_eq_true, List.isSublist_iff_sublist]

example : callsInOrder [1, 2, 3, 4] [[1, 2, 3, 4], [1, 3, 4], [3, 4]] = true ∧
    callsInOrder [1, 2, 3, 4] [[1, 2, 3, 4], [1, 4, 3]] = false := by decide

end kinesis

/-- **the routing switch of `sendBatch` is the modelled one** (regenerated on every run): round robin takes the
current position and advances it modulo the number of workers; partition routing takes
`QuickHash(batch's partition key, workers)`; the worker index is assigned nowhere else and the batch is sent on
exactly that worker's channel (`partition_routing_fixed` is about this rule; a fall-back to another worker under
a full queue, as in seed C05-4, changes this table). -/
theorem routing_switch_as_in_source :
    PgBifrost.Gen.Switches.routingSwitch =
      [("BATCH_ROUTING_ROUND_ROBIN", "channelIndex = b.roundRobinPosition ; if b.roundRobinPosition == b.workers-1 { b.roundRobinPosition = 0 } else { b.roundRobinPosition++ }"),
       ("BATCH_ROUTING_PARTITION", "channelIndex = utils.QuickHash(batch.GetPartitionKey(), b.workers)")] ∧
    PgBifrost.Gen.Switches.routingUse =
      ["channelIndex := 0", "channelIndex = b.roundRobinPosition",
       "channelIndex = utils.QuickHash(batch.GetPartitionKey(), b.workers)", "b.outputChans[channelIndex] <- batch"] := by
  constructor <;> rfl

/-- Every struct literal of the non-test source that lists its values WITHOUT field names, with each value paired with
the field it lands in according to the struct declaration of this run. A regrouping of a struct's fields silently
re-routes such values (two `string` fields of the Kafka batch swapped still compile: the per-batch uuid would become the
batcher's routing key); with this list any such change is a change of the regenerated definition. In particular the
Kafka batch's `partitionKey` is the partition key it was created for and `kafkaPartitionKey` the fresh uuid; the
batcher's ages, tick rate, worker count, memory limit and routing method land in the fields of those names. -/
theorem positional_literals_as_in_source :
    PgBifrost.Gen.PosLits.lits = [
      ("app/runner.go:New", "Runner", ["shutdownHandler := shutdownHandler", "statsChan := statsChan", "replicationClient := &replicationClient", "filterInstance := &filterInstance", "partitionerInstance := &partitionerInstance", "marshallerInstance := &marshallerInstance", "transportManager := &transportManager", "statsAggregator := &statsAggregator", "progressTracker := &progressTracker", "statsReporter := statsReporter"]),
      ("filter/filter.go:New", "Filter", ["shutdownHandler := shutdownHandler", "inputChan := inputChan", "OutputChan := outputChan", "statsChan := statsChan", "passthrough := passthrough", "whitelist := whitelist", "regex := regex", "tablelist := tablelist", "regexlist := regexlist"]),
      ("marshaller/marshaller.go:New", "Marshaller", ["shutdownHandler := shutdownHandler", "inputChan := inputChan", "OutputChan := outputChan", "statsChan := statsChan", "noMarshalOldValue := noMarshalOldValue"]),
      ("marshaller/marshaller.go:Start", "MarshalledMessage", ["Operation := walMessage.Pr.Operation", "Table := walMessage.Pr.Relation", "Json := nil", "TimeBasedKey := walMessage.TimeBasedKey", "WalStart := walMessage.WalStart", "Transaction := walMessage.Pr.Transaction", "PartitionKey := walMessage.PartitionKey"]),
      ("partitioner/partitioner.go:New", "Partitioner", ["shutdownHandler := shutdownHandler", "inputChan := inputChan", "OutputChan := outputChan", "statsChan := statsChan", "method := partMethod", "buckets := buckets"]),
      ("replication/message.go:XLogDataToWalMessage", "WalMessage", ["WalStart := uint64(xld.WALStart)", "ServerWalEnd := uint64(xld.ServerWALEnd)", "ServerTime := xld.ServerTime.UnixMilli()", "TimeBasedKey := \"\"", "Pr := pr", "PartitionKey := \"\""]),
      ("shutdown/shutdown.go:NewShutdownHandler", "ShutdownHandler", ["TerminateCtx := terminateCtx", "CancelFunc := cancelFunc"]),
      ("stats/aggregator/aggregator.go:NewConfigureAggregates", "Aggregator", ["shutdownHandler := shutdownHandler", "timeNow := timeNow", "inputChan := inputChan", "outputChan := outputChan", "aggregateTimeNano := aggregateTimeNano", "aggregateMaxBuckets := aggregateMaxBuckets", "muAggregates := muAggregates", "aggregates := aggregates"]),
      ("transport/batch/generic_batch.go:NewGenericBatch", "GenericBatch", ["maxSize := maxSize", "messages := messages", "transactions := transactions", "byteSize := 0", "mtime := time.Now().UnixNano()", "ctime := time.Now().UnixNano()", "dtime := 0", "partitionKey := partitionKey"]),
      ("transport/batcher/batcher.go:NewBatcher", "Batcher", ["shutdownHandler := shutdownHandler", "inputChan := inputChan", "outputChans := outputChans", "txnsSeenChan := txnsSeenChan", "txnsWritten := txnsWritten", "statsChan := statsChan", "tickRate := time.Duration(tickRate) * time.Millisecond", "batchFactory := batchFactory", "workers := workers", "batches := batches", "flushBatchUpdateAge := time.Duration(flushBatchUpdateAge) * time.Millisecond", "flushBatchMaxAge := time.Duration(flushBatchMaxAge) * time.Millisecond", "batcherMemorySoftLimit := maxMemoryBytes", "routingMethod := routingMethod", "roundRobinPosition := 0", "txnsSeenTimeout := time.Second * 12", "seenList := []*progress.Seen{}"]),
      ("transport/manager/manager.go:New", "TransportManager", ["inputChan := inputChan", "txnsSeen := txnsSeen", "txnsWritten := txnsWritten", "statsChan := statsChan", "transportType := transportType", "transportConfig := transportConfig", "workerNum := workerNum", "batcher := b", "transporterGroup := t"]),
      ("transport/progress/ledger.go:NewLedger", "Ledger", ["items := omap", "transactionToTimeBasedKey := t"]),
      ("transport/progress/ledger.go:updateSeen", "LedgerEntry", ["Transaction := seen.Transaction", "TimeBasedKey := seen.TimeBasedKey", "CommitWalStart := seen.CommitWalStart", "Count := 0", "TotalMsgs := seen.TotalMsgs"]),
      ("transport/progress/ledger.go:updateWritten", "LedgerEntry", ["Transaction := written.Transaction", "TimeBasedKey := written.TimeBasedKey", "CommitWalStart := 0", "Count := written.Count", "TotalMsgs := 0"]),
      ("transport/progress/progress_tracker.go:New", "ProgressTracker", ["shutdownHandler := shutdownHandler", "txnSeenChan := txnSeenChan", "txnsWritten := txnsWritten", "statsChan := statsChan", "OutputChan := outputChan", "ledger := ledger", "stopChan := stopChan"]),
      ("transport/progress/progress_tracker.go:emitProgress", "contiguousTuple", ["timeBasedKey := timeBasedKey", "walStart := walStart", "transaction := transaction"]),
      ("transport/progress/utils.go:UpdateTransactions", "Written", ["Transaction := msg.Transaction", "TimeBasedKey := msg.TimeBasedKey", "Count := 1"]),
      ("transport/transporters/kafka/client_config.yaml.go:clientLogger", "saramaLogger", ["prefix := prefix", "logFn := log.Debug"]),
      ("transport/transporters/kafka/client_config.yaml.go:clientLogger", "saramaLogger", ["prefix := prefix", "logFn := log.Info"]),
      ("transport/transporters/kafka/factory.go:NewBatchFactory", "KafkaBatchFactory", ["topic := topic", "maxMessageBytes := maxMessageBytes", "batchSize := batchSize", "kafkaPartMethod := partMethod"]),
      ("transport/transporters/kafka/batch/batch.go:NewKafkaBatch", "KafkaBatch", ["maxBatchSize := maxBathSize", "maxMessageBytes := maxMessageBytes", "kafkaMessages := messages", "transactions := transactions", "byteSize := 0", "mtime := time.Now().UnixNano()", "ctime := time.Now().UnixNano()", "partitionKey := partitionKey", "topic := topic", "kafkaPartMethod := kafkaPartMethod", "kafkaPartitionKey := kafkaPartitionKey"]),
      ("transport/transporters/kafka/transporter/transporter.go:NewTransporter", "KafkaTransporter", ["shutdownHandler := shutdownHandler", "inputChan := inputChan", "txnsWritten := txnsWritten", "statsChan := statsChan", "log := log", "kafkaProducer := producer", "topic := topic"]),
      ("transport/transporters/kinesis/batch/batch.go:NewKinesisBatch", "KinesisBatch", ["records := records", "transactions := transactions", "batchSizeBytes := 0", "mtime := time.Now().UnixNano()", "ctime := time.Now().UnixNano()", "partitionMethod := partitionMethod", "partitionKey := partitionKey"]),
      ("transport/transporters/kinesis/transporter/transporter.go:NewTransporterWithInterface", "KinesisTransporter", ["shutdownHandler := shutdownHandler", "inputChan := inputChan", "txnsWritten := txnsWritten", "statsChan := statsChan", "log := log", "client := client", "streamName := streamName", "retryPolicy := retryPolicy"]),
      ("transport/transporters/rabbitmq/transporter/transporter.go:setupChannel", "openChannel", ["channel := t.channel", "publishNotify := t.publishNotify", "closeNotify := t.closeNotify"]),
      ("transport/transporters/s3/transporter/transporter.go:NewTransporterWithInterface", "S3Transporter", ["shutdownHandler := shutdownHandler", "inputChan := inputChan", "txnsWritten := txnsWritten", "statsChan := statsChan", "log := log", "client := client", "bucketName := bucketName", "keySpace := keySpace", "retryPolicy := retryPolicy", "bufMaxReuse := bufMaxReuse", "bufUsedCount := 0", "gz := pgzip.NewWriter(gzBuf)", "gzBuf := gzBuf"]),
      ("transport/transporters/stdout/transporter/transporter.go:NewTransporter", "StdoutTransporter", ["shutdownHandler := shutdownHandler", "inputChan := inputChan", "txnsWritten := txnsWritten", "statsChan := statsChan", "log := log", "id := id"])
    ] := rfl

end PgBifrost.Props.C05
