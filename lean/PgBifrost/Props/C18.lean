import PgBifrost.Proofs.ClientC07
import PgBifrost.Proofs.ClientTimer
import PgBifrost.Gen.ClientSrc
import PgBifrost.Gen.ConnWrapSrc
/-!
# C18 — standby status updates keep flowing  (partial: timers are modelled)

Two layers.

1. ORDER of actions, exact, on the `Client` model (tied to `client.go` by the `client`
   correspondence harness, which compares the exact action sequence): all four forced-send sites.
2. DURATIONS, in logical time, on the timer sub-model `ClientTimer` (ticker period `P`, receive
   timeout `T`). Its inputs (is a firing pending at the top of the loop; how many firings happen
   while the output is blocked) are exactly the `tick` / `blocks` inputs of the `Client` model.
   ASSUMED about timers: a firing is visible to `select` the instant it is due, handling a message
   takes no time, `ReceiveMessage` returns within `T`. NOT covered: real timer / scheduler latency
   (the harness measures the real gaps and reports the maximum).
-/
namespace PgBifrost.Props.C18
open PgBifrost.Client PgBifrost.Spec.Client PgBifrost.ClientProofs PgBifrost.ClientTimer

/-- run level: every reply-requested keepalive, every receive timeout, every ticker firing while
blocked on output and every ticker firing at the top of the loop is followed by (at least) one
status before the next `ReceiveMessage` call — unless `Start` returns -/
theorem keepalive_reply_before_next_read (v : Variant) (evs : List Ev) : c18Replies (hist v evs) = true :=
  c18_hist v evs

/-- step level, reply-requested keepalive: the status is sent even when the rapid-heartbeat rule
then makes `Start` return -/
theorem keepalive_reply_sends_status (v : Variant) (s : State) (feed : List Nat) (w el : Nat) (tick : Bool)
    (hr : s.phase = .running) :
    statusesOf (step v s ⟨feed, .keepalive true w el, tick⟩).2 ≠ [] := by
  rw [step_running v s _ hr, handleMsg_keepalive]
  rcases heartbeat_cases (handleProgress (feed1 s feed) true).1 el with h | ⟨c, d, h⟩
  · simp [h, finish_some, statusesOf_append, handleProgress_force_sts]
  · simp [h, finish_none, statusesOf_append, handleProgress_force_sts]

/-- logical time: from entering the loop (time 0) to the first status, between consecutive
statuses, and from the last status to the end of the run, at most `P + T` elapses -/
theorem status_gap_bounded {P T : Nat} (hP : 0 < P) (evs : List TEv) (hT : ∀ e ∈ evs, e.d ≤ T) :
    gapsLe (P + T) (0 :: ((runT P (init P) evs).2 ++ [(runT P (init P) evs).1.now])) :=
  run_gaps hP evs hT (init P) 0 ⟨hP, by simp [init], Nat.le_refl _⟩

/-- … and while the client is blocked on its output channel consecutive statuses are at most `P`
apart (they are sent at the ticker firings) -/
theorem status_gap_bounded_blocked {P : Nat} (hP : 0 < P) (s : TState) (e : TEv) :
    gapsLe P (blockedPart P s e) := by
  unfold blockedPart
  split
  · trivial
  · by_cases h : s.nextFire ≤ s.now + e.d + e.blocked
    · obtain ⟨r, hbt, hg, _⟩ := blockedTimes_facts hP s.nextFire (s.now + e.d) (s.now + e.d + e.blocked) h (by omega)
      rw [hbt]; exact hg
    · simp [blockedTimes, h, gapsLe]

/-! ### non-vacuity -/
example : c18Replies (hist .today [⟨[], .keepalive false 100 0, true⟩, ⟨[], .keepalive true 0 0, false⟩,
    ⟨[], .timeout, true⟩, ⟨[], .data 5 (.begin "1") 9 [[], [7]], false⟩]) = true := by decide
/-- the spec rejects a reply-requested keepalive that is not answered before the next read -/
example : c18Replies [(⟨[], .keepalive false 100 0, false⟩, []),
    (⟨[], .keepalive true 0 0, false⟩, [.getconn 0 false])] = false := by decide
/-- P = 10, T = 5: idle receives, a forced send, and an output blocked for 35 units -/
example : (runT 10 (init 10) [⟨5, false, 0⟩, ⟨5, false, 0⟩, ⟨5, true, 0⟩, ⟨2, false, 35⟩, ⟨5, false, 0⟩]).2
    = [10, 15, 20, 30, 40, 50] := by decide
example : gapsLe (10 + 5) (0 :: ((runT 10 (init 10) [⟨5, false, 0⟩, ⟨5, false, 0⟩, ⟨5, true, 0⟩,
    ⟨2, false, 35⟩, ⟨5, false, 0⟩]).2 ++ [(runT 10 (init 10) [⟨5, false, 0⟩, ⟨5, false, 0⟩, ⟨5, true, 0⟩,
    ⟨2, false, 35⟩, ⟨5, false, 0⟩]).1.now])) :=
  status_gap_bounded (by decide) _ (by decide)
/-- the bound is attained up to one unit: receive started just before a firing and ran into the timeout -/
example : (runT 10 (init 10) [⟨5, false, 0⟩, ⟨4, false, 0⟩, ⟨5, false, 0⟩]).2 = [14] := by decide

/-- `handlePrimaryKeepaliveMessage`, translated statement by statement from the source on this run, is the model's
keepalive arm of `handleMsg`: nothing is done unless the server asked for a reply; then a status update is forced
FIRST (`handleProgress(true)`), and only after it the rapid-heartbeat accounting runs (delta and counter updated,
error when more than 5 requests came within 100 ms, reset when the counter passes 5). Same outcome, same actions,
and the same state whenever the client goes on. -/
theorem keepalive_as_in_source (v : Variant) (s : State) (reply : Bool) (w e : Nat) :
    (PgBifrost.Gen.ClientSrc.keepalive s reply e).2 = (handleMsg v s (.keepalive reply w e)).2 ∧
    (PgBifrost.Gen.ClientSrc.keepalive s reply e).1.2 = (handleMsg v s (.keepalive reply w e)).1.2 ∧
    ((PgBifrost.Gen.ClientSrc.keepalive s reply e).2 = none →
      (PgBifrost.Gen.ClientSrc.keepalive s reply e).1.1 = (handleMsg v s (.keepalive reply w e)).1.1) := by
  unfold PgBifrost.Gen.ClientSrc.keepalive handleMsg heartbeat hbSet hbLimitNs
  cases reply
  · simp [Id.run, pure]
  · simp only [Id.run, pure, bind]
    by_cases h1 : s.hbDelta + e < 100000000 <;> by_cases h2 : 5 < s.hbCount + 1 <;> simp [h1, h2]

/-- The connection wrapper as written: every method passes its call straight to pgx / pglogrepl with the arguments it
was given, and `SendStandbyStatus` flushes the update to the wire before it returns (pgx v5 only queues writes until the
next read: the repair of F10) - with no condition on the position or on earlier updates. -/
theorem conn_wrapper_as_in_source :
    PgBifrost.Gen.ConnWrapSrc.methods = [
      ("IsClosed", ["return c.conn.IsClosed()"]),
      ("SendStandbyStatus", ["if err := pglogrepl.SendStandbyStatusUpdate(ctx, c.conn, status); err != nil { return err }", "if f, ok := c.conn.Conn().(interface{ Flush() error }); ok { return f.Flush() }", "return nil"]),
      ("ReceiveMessage", ["return c.conn.ReceiveMessage(ctx)"]),
      ("StartReplication", ["return pglogrepl.StartReplication(ctx, c.conn, slotName, startLSN, options)"]),
      ("Close", ["return c.conn.Close(ctx)"]),
      ("CreateReplicationSlot", ["return pglogrepl.CreateReplicationSlot(ctx, c.conn, slotName, outputPlugin, options)"]),
      ("IdentifySystem", ["return pglogrepl.IdentifySystem(ctx, c.conn)"]),
      ("DropReplicationSlot", ["return pglogrepl.DropReplicationSlot(ctx, c.conn, slotName, options)"])
    ] := rfl

end PgBifrost.Props.C18
