import PgBifrost.Proofs.LedgerSimple.Step

namespace PgBifrost.LedgerSimple
open PgBifrost.Ledger (Entry Op)

section
variable {tr : List LOp} {n : Nat} {items : List Entry}

theorem key_mem_after {f : Entry → Entry} {newE : Entry} {t k k0 : Nat}
    (hf : ∀ e, (f e).key = e.key) (hn : newE.key = k)
    (h : k0 ∈ keys (supersede items t k) ∨ k0 = k) :
    k0 ∈ keys (upd (supersede items t k) k f newE) := by
  rw [keys_step hf hn]
  split
  · rcases h with h | h
    · exact h
    · subst h; assumption
  · rcases h with h | h
    · exact List.mem_append_left _ h
    · subst h; simp

theorem step_written (hC : Contract tr) (hS : NoStale tr) (hI : LInv tr n items)
    {t k n' : Nat} (hop : tr[n]? = some (Op.written t k n')) :
    LInv tr (n + 1) (stepWritten items t k n') := by
  have hk : (Op.written t k n').key? = some k := rfl
  have ht : (Op.written t k n').txn? = some t := rfl
  rw [stepWritten_eq]
  have hfk : ∀ e : Entry, ({ e with count := e.count + n' } : Entry).key = e.key := fun _ => rfl
  have hft : ∀ e : Entry, ({ e with count := e.count + n' } : Entry).txn = e.txn := fun _ => rfl
  obtain ⟨h1, h2, h3, h4⟩ := structural_step hC hS hI hop hk ht
    (f := fun e => { e with count := e.count + n' }) (newE := ⟨t, k, 0, n', 0⟩) hfk hft rfl rfl
  have hw : ∀ k', wsum (tr.take (n + 1)) k' = wsum (tr.take n) k' + (if k = k' then n' else 0) := by
    intro k'; rw [take_succ_of_get hop, wsum_append, wsum_single]
  have kma : ∀ k0, k0 ∈ keys (supersede items t k) ∨ k0 = k →
      k0 ∈ keys (upd (supersede items t k) k (fun e => { e with count := e.count + n' }) ⟨t, k, 0, n', 0⟩) :=
    fun k0 h => key_mem_after hfk rfl h
  have notseen : ∀ i, i < n + 1 → ∀ t' k' tot c r, tr[i]? = some (Op.seen t' k' tot c r) → i < n := by
    intro i hi t' k' tot c r hg
    by_cases hin : i = n
    · subst hin; rw [hop] at hg; cases hg
    · omega
  refine ⟨h1, ?_, ?_, ?_, h2, h3, ?_, h4⟩
  · -- count
    intro e' he'
    rcases mem_upd he' with ⟨h, hne⟩ | ⟨e, he, hek, rfl⟩ | ⟨hnk, rfl⟩
    · rw [hw, hI.count e' (mem_supersede.mp h).1]
      have : ¬ k = e'.key := fun h' => hne h'.symm
      simp [this]
    · show e.count + n' = wsum (tr.take (n + 1)) e.key
      rw [hw, hI.count e (mem_supersede.mp he).1]; simp [hek]
    · show n' = wsum (tr.take (n + 1)) k
      rw [hw, wsum_zero_of_not_ment n (fresh_of_not_key hI hop hk hnk)]; simp
  · -- seenD
    intro e' he' i t' tot c r hi hg
    have hi' := notseen i hi _ _ _ _ _ hg
    rcases mem_upd he' with ⟨h, _⟩ | ⟨e, he, hek, rfl⟩ | ⟨hnk, rfl⟩
    · exact hI.seenD e' (mem_supersede.mp h).1 i t' tot c r hi' hg
    · exact hI.seenD e (mem_supersede.mp he).1 i t' tot c r hi' hg
    · exact absurd ⟨_, hg, rfl⟩ (fresh_of_not_key hI hop hk hnk i hi')
  · -- unseen
    intro e' he' hno
    rcases mem_upd he' with ⟨h, _⟩ | ⟨e, he, hek, rfl⟩ | ⟨hnk, rfl⟩
    · exact hI.unseen e' (mem_supersede.mp h).1 (fun i hi => hno i (by omega))
    · exact hI.unseen e (mem_supersede.mp he).1 (fun i hi => hno i (by omega))
    · rfl
  · -- released
    intro i t' k0 tot c r hi hg hnot
    have hi' := notseen i hi _ _ _ _ _ hg
    by_cases hk0 : k0 ∈ keys items
    · obtain ⟨e, he, hek⟩ := mem_keys.mp hk0
      by_cases hsur : e ∈ supersede items t k
      · exact absurd (kma k0 (Or.inl (mem_keys.mpr ⟨e, hsur, hek⟩))) hnot
      · have := (removed_dead hI hS hop hk ht he hsur).1 i
        rw [hek] at this
        exact absurd ⟨t', tot, c, r, hg⟩ this
    · have hne : ¬ k = k0 := by
        intro h; subst h
        exact hnot (kma k (Or.inr rfl))
      rw [hw, hI.released i t' k0 tot c r hi' hg hk0]; simp [hne]

theorem step_seen (hC : Contract tr) (hS : NoStale tr) (hI : LInv tr n items)
    {t k tot c : Nat} {r : Bool} (hop : tr[n]? = some (Op.seen t k tot c r)) :
    LInv tr (n + 1) (stepSeen items t k tot c) := by
  have hk : (Op.seen t k tot c r).key? = some k := rfl
  have ht : (Op.seen t k tot c r).txn? = some t := rfl
  rw [stepSeen_eq]
  have hfk : ∀ e : Entry, ({ e with total := tot, commit := c } : Entry).key = e.key := fun _ => rfl
  have hft : ∀ e : Entry, ({ e with total := tot, commit := c } : Entry).txn = e.txn := fun _ => rfl
  obtain ⟨h1, h2, h3, h4⟩ := structural_step hC hS hI hop hk ht
    (f := fun e => { e with total := tot, commit := c }) (newE := ⟨t, k, c, 0, tot⟩) hfk hft rfl rfl
  have hw : ∀ k', wsum (tr.take (n + 1)) k' = wsum (tr.take n) k' := by
    intro k'; rw [take_succ_of_get hop, wsum_append, wsum_single]; simp
  have kma : ∀ k0, k0 ∈ keys (supersede items t k) ∨ k0 = k →
      k0 ∈ keys (upd (supersede items t k) k (fun e => { e with total := tot, commit := c }) ⟨t, k, c, 0, tot⟩) :=
    fun k0 h => key_mem_after hfk rfl h
  -- a seen of key k at index i < n+1 is this very op
  have thisop : ∀ i, i < n + 1 → ∀ t' tot' c' r', tr[i]? = some (Op.seen t' k tot' c' r') →
      tot' = tot ∧ c' = c := by
    intro i _ t' tot' c' r' hg
    have : i = n := hC.seen_unique i n k ⟨_, _, _, _, hg⟩ ⟨_, _, _, _, hop⟩
    subst this; rw [hop] at hg; cases hg; exact ⟨rfl, rfl⟩
  refine ⟨h1, ?_, ?_, ?_, h2, h3, ?_, h4⟩
  · -- count
    intro e' he'
    rcases mem_upd he' with ⟨h, _⟩ | ⟨e, he, hek, rfl⟩ | ⟨hnk, rfl⟩
    · rw [hw]; exact hI.count e' (mem_supersede.mp h).1
    · show e.count = _; rw [hw]; exact hI.count e (mem_supersede.mp he).1
    · show 0 = wsum (tr.take (n + 1)) k
      rw [hw, wsum_zero_of_not_ment n (fresh_of_not_key hI hop hk hnk)]
  · -- seenD
    intro e' he' i t' tot' c' r' hi hg
    rcases mem_upd he' with ⟨h, hne⟩ | ⟨e, he, hek, rfl⟩ | ⟨hnk, rfl⟩
    · have hi' : i < n := by
        by_cases hin : i = n
        · subst hin; rw [hop] at hg; cases hg; exact absurd rfl hne
        · omega
      exact hI.seenD e' (mem_supersede.mp h).1 i t' tot' c' r' hi' hg
    · have hg' : tr[i]? = some (Op.seen t' k tot' c' r') := by rw [← hek]; exact hg
      obtain ⟨a, b⟩ := thisop i hi _ _ _ _ hg'
      exact ⟨a.symm, b.symm⟩
    · obtain ⟨a, b⟩ := thisop i hi _ _ _ _ hg
      exact ⟨a.symm, b.symm⟩
  · -- unseen
    intro e' he' hno
    rcases mem_upd he' with ⟨h, _⟩ | ⟨e, he, hek, rfl⟩ | ⟨hnk, rfl⟩
    · exact hI.unseen e' (mem_supersede.mp h).1 (fun i hi => hno i (by omega))
    · exact absurd ⟨t, tot, c, r, by rw [show ({ e with total := tot, commit := c } : Entry).key = k from hek]; exact hop⟩ (hno n (by omega))
    · exact absurd ⟨t, tot, c, r, hop⟩ (hno n (by omega))
  · -- released
    intro i t' k0 tot' c' r' hi hg hnot
    have hi' : i < n := by
      by_cases hin : i = n
      · subst hin; rw [hop] at hg; cases hg
        exact absurd (kma k (Or.inr rfl)) hnot
      · omega
    by_cases hk0 : k0 ∈ keys items
    · obtain ⟨e, he, hek⟩ := mem_keys.mp hk0
      by_cases hsur : e ∈ supersede items t k
      · exact absurd (kma k0 (Or.inl (mem_keys.mpr ⟨e, hsur, hek⟩))) hnot
      · have := (removed_dead hI hS hop hk ht he hsur).1 i
        rw [hek] at this
        exact absurd ⟨t', tot', c', r', hg⟩ this
    · rw [hw]; exact hI.released i t' k0 tot' c' r' hi' hg hk0
end

end PgBifrost.LedgerSimple
