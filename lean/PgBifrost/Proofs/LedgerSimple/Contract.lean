import PgBifrost.Proofs.LedgerSimple.Lemmas

namespace PgBifrost.LedgerSimple
open PgBifrost.Ledger (Entry Op)

def seenAt (tr : List LOp) (i k : Nat) : Prop := ∃ t tot c r, tr[i]? = some (.seen t k tot c r)
def mentAt (tr : List LOp) (i k : Nat) : Prop := ∃ op, tr[i]? = some op ∧ op.key? = some k

theorem seenAt.ment {tr i k} (h : seenAt tr i k) : mentAt tr i k := by
  obtain ⟨t, tot, c, r, h⟩ := h; exact ⟨_, h, rfl⟩

structure Contract (tr : List LOp) : Prop where
  seen_unique : ∀ (i j k : Nat), seenAt tr i k → seenAt tr j k → i = j
  seen_mono : ∀ (i j t1 k1 tot1 c1 : Nat) (r1 : Bool) (t2 k2 tot2 c2 : Nat) (r2 : Bool), i < j →
      tr[i]? = some (Op.seen t1 k1 tot1 c1 r1) → tr[j]? = some (Op.seen t2 k2 tot2 c2 r2) →
      c1 ≤ c2 ∧ (r2 = true → c1 < c2)
  wsum_le : ∀ (i t k tot c : Nat) (r : Bool), tr[i]? = some (Op.seen t k tot c r) → wsum tr k ≤ tot
  written_pos : ∀ (i t k n : Nat), tr[i]? = some (Op.written t k n) → 0 < n
  order : ∀ (i j m kj k1 : Nat), i < j → j < m → mentAt tr i kj → seenAt tr j k1 → seenAt tr m kj → False
  key_txn : ∀ (i j : Nat) (op1 op2 : LOp) (k : Nat), tr[i]? = some op1 → tr[j]? = some op2 →
      op1.key? = some k → op2.key? = some k → op1.txn? = op2.txn?

structure NoStale (tr : List LOp) : Prop where
  stale : ∀ (i j : Nat) (op1 op2 : LOp) (t k1 k2 : Nat), i < j → tr[i]? = some op1 → tr[j]? = some op2 →
     op1.txn? = some t → op2.txn? = some t → op1.key? = some k1 → op2.key? = some k2 → k1 ≠ k2 →
     (∀ m, ¬ seenAt tr m k1) ∧ (∀ m, j < m → ¬ mentAt tr m k1)

structure LInv (tr : List LOp) (n : Nat) (items : List Entry) : Prop where
  nodup : (keys items).Nodup
  count : ∀ e ∈ items, e.count = wsum (tr.take n) e.key
  seenD : ∀ e ∈ items, ∀ (i t tot c : Nat) (r : Bool), i < n → tr[i]? = some (Op.seen t e.key tot c r) →
            e.total = tot ∧ e.commit = c
  unseen : ∀ e ∈ items, (∀ i, i < n → ¬ seenAt tr i e.key) → e.commit = 0
  ment : ∀ e ∈ items, ∃ (i : Nat) (op : LOp), i < n ∧ tr[i]? = some op ∧ op.key? = some e.key ∧ op.txn? = some e.txn
  live : ∀ i k, i < n → mentAt tr i k → k ∈ keys items ∨ ∀ m, n ≤ m → ¬ mentAt tr m k
  released : ∀ (i t k tot c : Nat) (r : Bool), i < n → tr[i]? = some (Op.seen t k tot c r) → k ∉ keys items →
            wsum (tr.take n) k = tot
  order : (keys items).Pairwise (fun k1 k2 => ∀ i j, seenAt tr i k2 → seenAt tr j k1 → ¬ i < j)

theorem take_succ_of_get {tr : List LOp} {n : Nat} {op : LOp} (h : tr[n]? = some op) :
    tr.take (n + 1) = tr.take n ++ [op] := by
  rw [List.take_add_one, h]; rfl

theorem wsum_single (op : LOp) (k : Nat) :
    wsum [op] k = match op with | .written _ k' n => if k' = k then n else 0 | _ => 0 := by
  cases op <;> simp [wsum]

theorem wsum_ge_of_mem {l : List LOp} {t k n : Nat} (h : Op.written t k n ∈ l) : n ≤ wsum l k := by
  induction l with
  | nil => cases h
  | cons op r ih =>
    rcases List.mem_cons.mp h with h | h
    · subst h; simp [wsum]
    · have := ih h
      cases op <;> simp [wsum] <;> omega

theorem wsum_take_add_le {tr : List LOp} {n m t k n' : Nat} (hm : n ≤ m)
    (h : tr[m]? = some (.written t k n')) : wsum (tr.take n) k + n' ≤ wsum tr k := by
  have hsplit : tr = tr.take n ++ tr.drop n := (List.take_append_drop n tr).symm
  have hmem : Op.written t k n' ∈ tr.drop n := by
    have : (tr.drop n)[m - n]? = some (.written t k n') := by
      rw [List.getElem?_drop]; rw [show n + (m - n) = m by omega]; exact h
    exact List.mem_of_getElem? this
  have := wsum_ge_of_mem hmem
  calc wsum (tr.take n) k + n' ≤ wsum (tr.take n) k + wsum (tr.drop n) k := by omega
    _ = wsum (tr.take n ++ tr.drop n) k := (wsum_append _ _ _).symm
    _ = wsum tr k := by rw [← hsplit]

theorem wsum_zero_of_not_ment {tr : List LOp} {k : Nat} :
    ∀ n, (∀ i, i < n → ¬ mentAt tr i k) → wsum (tr.take n) k = 0 := by
  intro n
  induction n with
  | zero => intro _; simp [wsum]
  | succ n ih =>
    intro h
    have ih' := ih (fun i hi => h i (by omega))
    cases hg : tr[n]? with
    | none =>
      have : tr.take (n + 1) = tr.take n := by
        rw [List.take_add_one, hg]; simp
      rw [this]; exact ih'
    | some op =>
      rw [take_succ_of_get hg, wsum_append, ih', wsum_single]
      cases op with
      | written t' k' n' =>
        by_cases hk : k' = k
        · exfalso; exact h n (by omega) ⟨_, hg, by simp [Op.key?, hk]⟩
        · simp [hk]
      | seen => simp
      | emit => simp

end PgBifrost.LedgerSimple
