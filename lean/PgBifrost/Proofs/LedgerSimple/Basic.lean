import PgBifrost.Model.Ledger
/-!
# Simplified ledger (items list only) used for the safety proof

Ported from the calibration prototype. Same `Entry`/`Op` types as the faithful model
(`PgBifrost.Ledger`); supersession is read off the item list instead of the helper map.
`Proofs/LedgerRefine.lean` shows the faithful model's item list evolves exactly like this one
on contract-respecting traces.
-/
namespace PgBifrost.LedgerSimple
open PgBifrost.Ledger (Entry Op)
abbrev LOp := Op

def supersede (items : List Entry) (t k : Nat) : List Entry :=
  items.filter (fun e => !(e.txn == t && e.key != k))

def hasKey (items : List Entry) (k : Nat) : Bool := items.any (·.key == k)

def stepSeen (items : List Entry) (t k tot c : Nat) : List Entry :=
  let items := supersede items t k
  if hasKey items k then
    items.map (fun e => if e.key == k then { e with total := tot, commit := c } else e)
  else items ++ [⟨t, k, c, 0, tot⟩]

def stepWritten (items : List Entry) (t k n : Nat) : List Entry :=
  let items := supersede items t k
  if hasKey items k then
    items.map (fun e => if e.key == k then { e with count := e.count + n } else e)
  else items ++ [⟨t, k, 0, n, 0⟩]

def releasable (e : Entry) : Bool := e.commit != 0 && e.count == e.total

def emitVal (items : List Entry) : Option Nat :=
  ((items.takeWhile releasable).getLast?).map (·.commit)

def step (items : List Entry) : LOp → List Entry
  | .seen t k tot c _ => stepSeen items t k tot c
  | .written t k n => stepWritten items t k n
  | .emit => items.dropWhile releasable

def run (items : List Entry) (ops : List LOp) : List Entry := ops.foldl step items

/-- sum of written counts for key `k` -/
def wsum : List LOp → Nat → Nat
  | [], _ => 0
  | .written _ k' n :: r, k => (if k' = k then n else 0) + wsum r k
  | _ :: r, k => wsum r k

/-- the (first) seen of key `k` -/
def seenIn : List LOp → Nat → Option (Nat × Nat × Bool)
  | [], _ => none
  | .seen _ k' tot c r :: rest, k => if k' = k then some (tot, c, r) else seenIn rest k
  | _ :: rest, k => seenIn rest k

def mentions (ops : List LOp) (k : Nat) : Prop := ∃ op ∈ ops, op.key? = some k

-- F1 witness on this model
example : emitVal (run [] [.seen 1 12 3 100 true, .seen 2 23 1 200 true, .written 1 11 2, .written 2 23 1]) = some 200 := by decide

end PgBifrost.LedgerSimple
