import PgBifrost.Proofs.LedgerSimple.Data

namespace PgBifrost.LedgerSimple
open PgBifrost.Ledger (Entry Op)

section
variable {tr : List LOp} {n : Nat} {items : List Entry}

theorem mem_split_while (items : List Entry) {e : Entry} (he : e ∈ items) :
    e ∈ items.takeWhile releasable ∨ e ∈ items.dropWhile releasable := by
  have h := List.takeWhile_append_dropWhile (p := releasable) (l := items)
  rw [← h] at he
  exact List.mem_append.mp he

theorem releasable_of_mem_takeWhile {items : List Entry} {e : Entry}
    (he : e ∈ items.takeWhile releasable) : releasable e = true := by
  induction items with
  | nil => simp at he
  | cons a l ih =>
    simp only [List.takeWhile_cons] at he
    split at he
    · rcases List.mem_cons.mp he with h | h
      · subst h; assumption
      · exact ih h
    · simp at he

/-- a releasable entry's key has been seen before `n`, with matching data, and is complete -/
theorem releasable_complete (hI : LInv tr n items) {e : Entry} (he : e ∈ items)
    (hr : releasable e = true) :
    ∃ (i t tot c : Nat) (r : Bool), i < n ∧ tr[i]? = some (Op.seen t e.key tot c r) ∧
      e.commit = c ∧ c ≠ 0 ∧ wsum (tr.take n) e.key = tot := by
  simp only [releasable, Bool.and_eq_true, bne_iff_ne, ne_eq, beq_iff_eq] at hr
  obtain ⟨hc, hct⟩ := hr
  have : ¬ (∀ i, i < n → ¬ seenAt tr i e.key) := fun h => hc (hI.unseen e he h)
  have : ∃ i, i < n ∧ seenAt tr i e.key := by
    apply Classical.byContradiction
    intro hne
    apply this
    intro i hi hs
    exact hne ⟨i, hi, hs⟩
  obtain ⟨i, hi, t, tot, c, r, hg⟩ := this
  obtain ⟨h1, h2⟩ := hI.seenD e he i t tot c r hi hg
  refine ⟨i, t, tot, c, r, hi, hg, h2, by rw [← h2]; exact hc, ?_⟩
  rw [← hI.count e he, hct, h1]

theorem step_emit (hC : Contract tr) (hI : LInv tr n items) (hop : tr[n]? = some Op.emit) :
    LInv tr (n + 1) (items.dropWhile releasable) := by
  have hsubI : (items.dropWhile releasable).Sublist items := List.dropWhile_sublist _
  have hsub : (keys (items.dropWhile releasable)).Sublist (keys items) := List.Sublist.map _ hsubI
  have hw : ∀ k', wsum (tr.take (n + 1)) k' = wsum (tr.take n) k' := by
    intro k'; rw [take_succ_of_get hop, wsum_append, wsum_single]; simp
  have lt_of : ∀ i, i < n + 1 → (∃ op, tr[i]? = some op ∧ op ≠ Op.emit) → i < n := by
    intro i hi ⟨op, hg, hne⟩
    by_cases hin : i = n
    · subst hin; rw [hop] at hg; cases hg; exact absurd rfl hne
    · omega
  -- a released (dropped) entry's key is never mentioned again
  have dead : ∀ e ∈ items, releasable e = true → ∀ m, n ≤ m → ¬ mentAt tr m e.key := by
    intro e he hr m hm ⟨op', hg', hk'⟩
    obtain ⟨i, t, tot, c, r, hi, hg, _, _, hsum⟩ := releasable_complete hI he hr
    cases op' with
    | seen t' k' tot' c' r' =>
      simp [Op.key?] at hk'; subst hk'
      have := hC.seen_unique m i e.key ⟨_, _, _, _, hg'⟩ ⟨_, _, _, _, hg⟩
      omega
    | written t' k' n' =>
      simp [Op.key?] at hk'; subst hk'
      have h1 := wsum_take_add_le hm hg'
      have h2 := hC.wsum_le i t e.key tot c r hg
      have h3 := hC.written_pos m t' e.key n' hg'
      omega
    | emit => simp [Op.key?] at hk'
  refine ⟨hI.nodup.sublist hsub, ?_, ?_, ?_, ?_, ?_, ?_, hI.order.sublist hsub⟩
  · intro e he; rw [hw]; exact hI.count e (hsubI.subset he)
  · intro e he i t tot c r hi hg
    exact hI.seenD e (hsubI.subset he) i t tot c r (lt_of i hi ⟨_, hg, by simp⟩) hg
  · intro e he hno
    exact hI.unseen e (hsubI.subset he) (fun i hi => hno i (by omega))
  · intro e he
    obtain ⟨i, op, hi, h⟩ := hI.ment e (hsubI.subset he)
    exact ⟨i, op, by omega, h⟩
  · intro i k hi hm
    have hi' : i < n := by
      obtain ⟨op, hg, hk⟩ := hm
      exact lt_of i hi ⟨op, hg, by intro h; subst h; simp [Op.key?] at hk⟩
    rcases hI.live i k hi' hm with h | h
    · obtain ⟨e, he, hek⟩ := mem_keys.mp h
      rcases mem_split_while items he with ht | hd
      · right; intro m hm'; rw [← hek]
        exact dead e he (releasable_of_mem_takeWhile ht) m (by omega)
      · left; exact mem_keys.mpr ⟨e, hd, hek⟩
    · right; intro m hm'; exact h m (by omega)
  · intro i t k tot c r hi hg hnot
    have hi' : i < n := lt_of i hi ⟨_, hg, by simp⟩
    rw [hw]
    by_cases hk0 : k ∈ keys items
    · obtain ⟨e, he, hek⟩ := mem_keys.mp hk0
      rcases mem_split_while items he with ht | hd
      · obtain ⟨i2, t2, tot2, c2, r2, hi2, hg2, _, _, hsum⟩ :=
          releasable_complete hI he (releasable_of_mem_takeWhile ht)
        rw [hek] at hg2 hsum
        have : i2 = i := hC.seen_unique i2 i k ⟨_, _, _, _, hg2⟩ ⟨_, _, _, _, hg⟩
        subst this; rw [hg] at hg2; cases hg2; exact hsum
      · exact absurd (mem_keys.mpr ⟨e, hd, hek⟩) hnot
    · exact hI.released i t k tot c r hi' hg hk0

theorem linv_zero : LInv tr 0 [] := by
  refine ⟨by simp [keys], ?_, ?_, ?_, ?_, ?_, ?_, by simp [keys]⟩ <;> intros <;> simp_all <;> omega

theorem run_inv (hC : Contract tr) (hS : NoStale tr) :
    ∀ n, n ≤ tr.length → LInv tr n (run [] (tr.take n)) := by
  intro n
  induction n with
  | zero => intro _; simpa [run] using linv_zero
  | succ n ih =>
    intro hn
    have hlt : n < tr.length := by omega
    have hg : tr[n]? = some tr[n] := List.getElem?_eq_getElem hlt
    have hI := ih (by omega)
    rw [take_succ_of_get hg]
    unfold run at *
    rw [List.foldl_append]
    simp only [List.foldl_cons, List.foldl_nil]
    generalize hop : tr[n] = op at hg
    cases op with
    | seen t k tot c r => exact step_seen hC hS hI hg
    | written t k n' => exact step_written hC hS hI hg
    | emit => exact step_emit hC hI hg

/-- **Ledger safety (partial: under NoStale).** Whenever the ledger emits `v`, every real
    delivery committed at or before `v` anywhere in the trace is completely written. -/
theorem emit_safe (hC : Contract tr) (hS : NoStale tr) {n v : Nat}
    (hemit : tr[n]? = some Op.emit)
    (hv : emitVal (run [] (tr.take n)) = some v)
    {i t k tot c : Nat} (hk : tr[i]? = some (Op.seen t k tot c true)) (hcv : c ≤ v) :
    wsum (tr.take n) k = tot := by
  have hn : n ≤ tr.length := by
    have : n < tr.length := by
      rcases Nat.lt_or_ge n tr.length with h | h
      · exact h
      · rw [List.getElem?_eq_none h] at hemit; cases hemit
    omega
  have hI := run_inv hC hS n hn
  generalize hitems : run [] (tr.take n) = items at hI hv
  -- the last entry of the releasable prefix
  unfold emitVal at hv
  cases hlast : (items.takeWhile releasable).getLast? with
  | none => rw [hlast] at hv; cases hv
  | some ej =>
    rw [hlast] at hv; simp at hv
    have hejT : ej ∈ items.takeWhile releasable := List.mem_of_getLast? hlast
    have hejI : ej ∈ items := (List.takeWhile_sublist _).subset hejT
    obtain ⟨ij, tj, totj, cj, rj, hij, hgj, hcj, _, _⟩ :=
      releasable_complete hI hejI (releasable_of_mem_takeWhile hejT)
    have hvj : cj = v := by rw [← hcj]; exact hv
    -- the seen of k is before n
    have hin : i < n := by
      apply Classical.byContradiction; intro hge
      have := (hC.seen_mono ij i tj ej.key totj cj rj t k tot c true (by omega) hgj hk).2 rfl
      omega
    by_cases hkin : k ∈ keys items
    · obtain ⟨ek, hekI, hekk⟩ := mem_keys.mp hkin
      rcases mem_split_while items hekI with hT | hD
      · obtain ⟨i2, t2, tot2, c2, r2, hi2, hg2, _, _, hsum⟩ :=
          releasable_complete hI hekI (releasable_of_mem_takeWhile hT)
        rw [hekk] at hg2 hsum
        have : i2 = i := hC.seen_unique i2 i k ⟨_, _, _, _, hg2⟩ ⟨_, _, _, _, hk⟩
        subst this; rw [hk] at hg2; cases hg2; exact hsum
      · -- ek is behind ej in the ledger: its seen cannot be earlier, so its commit is larger
        exfalso
        have hsplit := List.takeWhile_append_dropWhile (p := releasable) (l := items)
        have hord := hI.order
        have hnd := hI.nodup
        rw [← hsplit] at hord hnd
        unfold keys at hord hnd
        rw [List.map_append] at hord hnd
        have hR := (List.pairwise_append.mp hord).2.2 ej.key (List.mem_map.mpr ⟨ej, hejT, rfl⟩)
          ek.key (List.mem_map.mpr ⟨ek, hD, rfl⟩)
        have hne : ej.key ≠ ek.key := by
          intro heq
          have := (List.nodup_append.mp hnd).2.2 ej.key (List.mem_map.mpr ⟨ej, hejT, rfl⟩)
            ek.key (List.mem_map.mpr ⟨ek, hD, rfl⟩)
          exact this heq
        have hnlt : ¬ i < ij := hR i ij ⟨t, tot, c, true, by rw [hekk]; exact hk⟩ ⟨_, _, _, _, hgj⟩
        have hneq : i ≠ ij := by
          intro h; subst h; rw [hk] at hgj; cases hgj; exact hne hekk.symm
        have := (hC.seen_mono ij i tj ej.key totj cj rj t k tot c true (by omega) hgj hk).2 rfl
        omega
    · exact hI.released i t k tot c true hin hk hkin
end



end PgBifrost.LedgerSimple
