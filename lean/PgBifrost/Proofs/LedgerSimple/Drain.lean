import PgBifrost.Proofs.LedgerSimple.Main
/-!
# Draining (simple model): at the end of a finished trace every entry is releasable

Two extra invariants on top of `LInv`:

* `rel_before` — a delivery whose `seen` happened and whose entry is gone (released) was seen
  before the `seen` of every entry still in the ledger;
* `latest` — for every entry, any earlier op of the same transaction under a *different* key is
  followed by a later mention of the entry's own key (the entry's key is the transaction's
  latest key).
-/
namespace PgBifrost.LedgerSimple
open PgBifrost.Ledger (Entry Op)

structure DInv (tr : List LOp) (n : Nat) (items : List Entry) : Prop where
  rel_before : ∀ (j k' : Nat), j < n → seenAt tr j k' → k' ∉ keys items →
      ∀ e ∈ items, ∀ i, seenAt tr i e.key → j < i
  latest : ∀ e ∈ items, ∀ (j : Nat) (op : LOp) (k' : Nat), j < n → tr[j]? = some op →
      op.txn? = some e.txn → op.key? = some k' → k' ≠ e.key →
      ∃ m, j < m ∧ m < n ∧ mentAt tr m e.key

theorem takeWhile_of_all {α : Type} {p : α → Bool} {l : List α} (h : ∀ a ∈ l, p a = true) :
    l.takeWhile p = l := by
  induction l with
  | nil => rfl
  | cons a r ih =>
    rw [List.takeWhile_cons, h a (by simp), if_pos rfl, ih (fun b hb => h b (List.mem_cons_of_mem _ hb))]

theorem dropWhile_of_all {α : Type} {p : α → Bool} {l : List α} (h : ∀ a ∈ l, p a = true) :
    l.dropWhile p = [] := by
  induction l with
  | nil => rfl
  | cons a r ih =>
    rw [List.dropWhile_cons, h a (by simp), if_pos rfl, ih (fun b hb => h b (List.mem_cons_of_mem _ hb))]

theorem dinv_zero {tr : List LOp} : DInv tr 0 [] :=
  ⟨by intro j k' hj; omega, by intro e he; cases he⟩

section
variable {tr : List LOp} {n : Nat} {items : List Entry}

/-- entries after update-or-append: an old (superseded-list) entry up to key/txn-preserving
update, or the fresh one -/
theorem mem_upd_cases {L : List Entry} {k : Nat} {f : Entry → Entry} {newE e' : Entry}
    (hfk : ∀ e, (f e).key = e.key) (hft : ∀ e, (f e).txn = e.txn)
    (h : e' ∈ upd L k f newE) :
    (∃ e ∈ L, e'.key = e.key ∧ e'.txn = e.txn) ∨ (k ∉ keys L ∧ e' = newE) := by
  rcases mem_upd h with ⟨h1, _⟩ | ⟨e, he, _, rfl⟩ | ⟨h1, h2⟩
  · exact Or.inl ⟨e', h1, rfl, rfl⟩
  · exact Or.inl ⟨e, he, hfk e, hft e⟩
  · exact Or.inr ⟨h1, h2⟩

theorem dinv_step (hS : NoStale tr) (hI : LInv tr n items) (hD : DInv tr n items)
    {op : LOp} {k t : Nat} (hop : tr[n]? = some op) (hk : op.key? = some k) (ht : op.txn? = some t)
    {f : Entry → Entry} {newE : Entry}
    (hfk : ∀ e, (f e).key = e.key) (hft : ∀ e, (f e).txn = e.txn)
    (hnk : newE.key = k) (hnt : newE.txn = t) :
    DInv tr (n + 1) (upd (supersede items t k) k f newE) := by
  have kma : ∀ k0, k0 ∈ keys (supersede items t k) ∨ k0 = k →
      k0 ∈ keys (upd (supersede items t k) k f newE) := fun k0 h => key_mem_after hfk hnk h
  constructor
  · intro j k' hj hs hnot e' he' i hsi
    have hkk : k' ≠ k := fun h => hnot (kma k' (Or.inr h))
    have hjn : j < n := by
      by_cases hjn : j = n
      · exfalso
        subst hjn
        obtain ⟨op', hg', hk'⟩ := hs.ment
        rw [hop] at hg'; cases hg'
        rw [hk] at hk'; cases hk'
        exact hkk rfl
      · omega
    have hk'old : k' ∉ keys items := by
      intro hin
      obtain ⟨e0, he0, hek0⟩ := mem_keys.mp hin
      by_cases hsur : e0 ∈ supersede items t k
      · exact hnot (kma k' (Or.inl (mem_keys.mpr ⟨e0, hsur, hek0⟩)))
      · have := (removed_dead hI hS hop hk ht he0 hsur).1 j
        rw [hek0] at this; exact this hs
    rcases mem_upd_cases hfk hft he' with ⟨e, he, hek, _⟩ | ⟨hfresh, rfl⟩
    · rw [hek] at hsi
      exact hD.rel_before j k' hjn hs hk'old e (mem_supersede.mp he).1 i hsi
    · rw [hnk] at hsi
      have hfr := fresh_of_not_key hI hop hk hfresh
      have : n ≤ i := Nat.le_of_not_lt (fun hlt => hfr i hlt hsi.ment)
      omega
  · intro e' he' j op0 k' hj hg0 ht0 hk0 hne
    rcases mem_upd_cases hfk hft he' with ⟨e, he, hek, het⟩ | ⟨_, rfl⟩
    · obtain ⟨hein, hsup⟩ := mem_supersede.mp he
      rw [hek] at hne ⊢
      rw [het] at ht0
      by_cases hjn : j = n
      · exfalso
        subst hjn
        rw [hop] at hg0; cases hg0
        rw [ht] at ht0; cases ht0
        rw [hk] at hk0; cases hk0
        exact hne (hsup rfl).symm
      · obtain ⟨m, h1, h2, h3⟩ := hD.latest e hein j op0 k' (by omega) hg0 ht0 hk0 hne
        exact ⟨m, h1, by omega, h3⟩
    · rw [hnk] at hne ⊢
      by_cases hjn : j = n
      · exfalso
        subst hjn
        rw [hop] at hg0; cases hg0
        rw [hk] at hk0; cases hk0
        exact hne rfl
      · exact ⟨n, by omega, by omega, op, hop, hk⟩

theorem dinv_emit (hI : LInv tr n items) (hD : DInv tr n items) (hop : tr[n]? = some Op.emit) :
    DInv tr (n + 1) (items.dropWhile releasable) := by
  have hsubI : (items.dropWhile releasable).Sublist items := List.dropWhile_sublist _
  constructor
  · intro j k' hj hs hnot e he i hsi
    have hjn : j < n := by
      by_cases hjn : j = n
      · exfalso; subst hjn
        obtain ⟨_, _, _, _, hg⟩ := hs
        rw [hop] at hg; cases hg
      · omega
    by_cases hin : k' ∈ keys items
    · obtain ⟨e0, he0, hek0⟩ := mem_keys.mp hin
      rcases mem_split_while items he0 with hT | hDr
      · have hsplit := List.takeWhile_append_dropWhile (p := releasable) (l := items)
        have hord := hI.order
        have hnd := hI.nodup
        rw [← hsplit] at hord hnd
        unfold keys at hord hnd
        rw [List.map_append] at hord hnd
        have hR := (List.pairwise_append.mp hord).2.2 e0.key (List.mem_map.mpr ⟨e0, hT, rfl⟩)
          e.key (List.mem_map.mpr ⟨e, he, rfl⟩)
        have hne : e0.key ≠ e.key :=
          (List.nodup_append.mp hnd).2.2 e0.key (List.mem_map.mpr ⟨e0, hT, rfl⟩)
            e.key (List.mem_map.mpr ⟨e, he, rfl⟩)
        have hnlt : ¬ i < j := hR i j hsi (by rw [hek0]; exact hs)
        have hneq : i ≠ j := by
          intro h; subst h
          obtain ⟨_, _, _, _, hg1⟩ := hsi
          obtain ⟨_, _, _, _, hg2⟩ := hs
          rw [hg1] at hg2; cases hg2
          exact hne hek0
        omega
      · exact absurd (mem_keys.mpr ⟨e0, hDr, hek0⟩) hnot
    · exact hD.rel_before j k' hjn hs hin e (hsubI.subset he) i hsi
  · intro e he j op0 k' hj hg0 ht0 hk0 hne
    have hjn : j < n := by
      by_cases hjn : j = n
      · exfalso; subst hjn
        rw [hop] at hg0; cases hg0
        cases hk0
      · omega
    obtain ⟨m, h1, h2, h3⟩ := hD.latest e (hsubI.subset he) j op0 k' hjn hg0 ht0 hk0 hne
    exact ⟨m, h1, by omega, h3⟩

end

theorem run_dinv {tr : List LOp} (hC : Contract tr) (hS : NoStale tr) :
    ∀ n, n ≤ tr.length → DInv tr n (run [] (tr.take n)) := by
  intro n
  induction n with
  | zero => intro _; simpa [run] using dinv_zero
  | succ n ih =>
    intro hn
    have hlt : n < tr.length := by omega
    have hg : tr[n]? = some tr[n] := List.getElem?_eq_getElem hlt
    have hD := ih (by omega)
    have hI := run_inv hC hS n (by omega)
    rw [take_succ_of_get hg]
    unfold run at *
    rw [List.foldl_append]
    simp only [List.foldl_cons, List.foldl_nil]
    generalize hop : tr[n] = op at hg
    cases op with
    | seen t k tot c r =>
      exact dinv_step hS hI hD hg rfl rfl (fun _ => rfl) (fun _ => rfl) rfl rfl
    | written t k n' =>
      exact dinv_step hS hI hD hg rfl rfl (fun _ => rfl) (fun _ => rfl) rfl rfl
    | emit => exact dinv_emit hI hD hg

/-- the drain hypotheses, as predicates on the trace -/
def AllDone (tr : List LOp) : Prop :=
  ∀ (i t k tot c : Nat) (r : Bool), tr[i]? = some (Op.seen t k tot c r) → wsum tr k = tot ∧ 0 < c

/-- every delivery that never got a `seen` was followed, after its last mention, by a different
key of the same transaction -/
def AllSuperseded (tr : List LOp) : Prop :=
  ∀ (i : Nat) (op : LOp) (k : Nat), tr[i]? = some op → op.key? = some k → (∀ j, ¬ seenAt tr j k) →
    ∃ (j : Nat) (op' : LOp) (k' : Nat), tr[j]? = some op' ∧ op'.key? = some k' ∧ k' ≠ k ∧
      op'.txn? = op.txn? ∧ ∀ m, mentAt tr m k → m < j

section
variable {tr : List LOp}

/-- at the end of a finished trace every remaining entry is committed and complete -/
theorem all_releasable (hC : Contract tr) (hS : NoStale tr) (hDone : AllDone tr)
    (hSup : AllSuperseded tr) : ∀ e ∈ run [] tr, releasable e = true := by
  intro e he
  have hI := run_inv hC hS tr.length (Nat.le_refl _)
  have hD := run_dinv hC hS tr.length (Nat.le_refl _)
  rw [List.take_length] at hI hD
  have hlt : ∀ {i op}, tr[i]? = some op → i < tr.length := by
    intro i op h
    rcases Nat.lt_or_ge i tr.length with h' | h'
    · exact h'
    · rw [List.getElem?_eq_none h'] at h; cases h
  by_cases hseen : ∃ j, seenAt tr j e.key
  · obtain ⟨j, t, tot, c, r, hg⟩ := hseen
    obtain ⟨h1, h2⟩ := hI.seenD e he j t tot c r (hlt hg) hg
    obtain ⟨h3, h4⟩ := hDone j t e.key tot c r hg
    have h5 := hI.count e he
    rw [List.take_length] at h5
    have hc : e.commit ≠ 0 := by omega
    simp [releasable, hc, h5, h3, h1]
  · exfalso
    have hno : ∀ j, ¬ seenAt tr j e.key := fun j h => hseen ⟨j, h⟩
    obtain ⟨i, op, hi, hg, hk, ht⟩ := hI.ment e he
    obtain ⟨j, op', k', hg', hk', hne, htxn, hlast⟩ := hSup i op e.key hg hk hno
    rw [ht] at htxn
    obtain ⟨m, h1, _, h3⟩ := hD.latest e he j op' k' (hlt hg') hg' htxn hk' hne
    have := hlast m h3
    omega

/-- the final emit releases everything and, if anything is left, reports a commit that is the
largest commit of any `seen` in the trace -/
theorem drain_simple (hC : Contract tr) (hS : NoStale tr) (hDone : AllDone tr)
    (hSup : AllSuperseded tr) :
    (run [] tr).dropWhile releasable = [] ∧
    (run [] tr ≠ [] → ∃ c, emitVal (run [] tr) = some c ∧
      (∃ (i t k tot : Nat) (r : Bool), tr[i]? = some (Op.seen t k tot c r)) ∧
      ∀ (i t k tot c' : Nat) (r : Bool), tr[i]? = some (Op.seen t k tot c' r) → c' ≤ c) := by
  have hall := all_releasable hC hS hDone hSup
  have hI := run_inv hC hS tr.length (Nat.le_refl _)
  have hD := run_dinv hC hS tr.length (Nat.le_refl _)
  rw [List.take_length] at hI hD
  generalize run [] tr = items at hall hI hD
  have hlt : ∀ {i op}, tr[i]? = some op → i < tr.length := by
    intro i op h
    rcases Nat.lt_or_ge i tr.length with h' | h'
    · exact h'
    · rw [List.getElem?_eq_none h'] at h; cases h
  refine ⟨dropWhile_of_all hall, ?_⟩
  intro hne
  have htw : items.takeWhile releasable = items := takeWhile_of_all hall
  cases hl : items.getLast? with
  | none => exact absurd (List.getLast?_eq_none_iff.mp hl) hne
  | some last =>
    have hlast : last ∈ items := List.mem_of_getLast? hl
    obtain ⟨i, t, tot, c, r, hi, hg, hc, _, _⟩ := releasable_complete hI hlast (hall last hlast)
    refine ⟨c, ?_, ⟨i, t, last.key, tot, r, hg⟩, ?_⟩
    · unfold emitVal; rw [htw, hl]; simp [hc]
    · intro j t' k' tot' c' r' hg'
      have hle : j ≤ i → c' ≤ c := by
        intro hji
        by_cases hEq : j = i
        · subst hEq; rw [hg] at hg'; cases hg'; exact Nat.le_refl _
        · exact (hC.seen_mono j i _ _ _ _ _ _ _ _ _ _ (by omega) hg' hg).1
      apply hle
      have hsi : seenAt tr i last.key := ⟨_, _, _, _, hg⟩
      have hsj : seenAt tr j k' := ⟨_, _, _, _, hg'⟩
      by_cases hin : k' ∈ keys items
      · obtain ⟨e2, he2, hek2⟩ := mem_keys.mp hin
        obtain ⟨ys, hsplit⟩ := List.getLast?_eq_some_iff.mp hl
        replace hsplit := hsplit.symm
        rw [← hsplit] at he2
        rcases List.mem_append.mp he2 with he2 | he2
        · have hord := hI.order
          rw [← hsplit] at hord
          unfold keys at hord
          rw [List.map_append] at hord
          have hR := (List.pairwise_append.mp hord).2.2 e2.key (List.mem_map.mpr ⟨e2, he2, rfl⟩)
            last.key (by simp)
          have := hR i j hsi (by rw [hek2]; exact hsj)
          omega
        · simp only [List.mem_singleton] at he2
          subst he2
          rw [← hek2] at hsj
          have := hC.seen_unique j i e2.key hsj hsi
          omega
      · have := hD.rel_before j k' (hlt hg') hsj hin last hlast i hsi
        omega

end

end PgBifrost.LedgerSimple
