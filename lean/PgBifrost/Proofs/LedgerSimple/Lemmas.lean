import PgBifrost.Proofs.LedgerSimple.Basic

namespace PgBifrost.LedgerSimple
open PgBifrost.Ledger (Entry Op)

/-! Structural lemmas (prototype). -/

def keys (items : List Entry) : List Nat := items.map (·.key)

theorem mem_supersede {items : List Entry} {t k : Nat} {e : Entry} :
    e ∈ supersede items t k ↔ e ∈ items ∧ (e.txn = t → e.key = k) := by
  simp only [supersede, List.mem_filter]
  constructor
  · rintro ⟨h1, h2⟩
    refine ⟨h1, fun ht => ?_⟩
    by_cases hk : e.key = k
    · exact hk
    · simp [ht, hk] at h2
  · rintro ⟨h1, h2⟩
    refine ⟨h1, ?_⟩
    by_cases ht : e.txn = t
    · simp [ht, h2 ht]
    · simp [ht]

theorem keys_supersede_sublist (items : List Entry) (t k : Nat) :
    (keys (supersede items t k)).Sublist (keys items) := by
  unfold keys supersede
  exact List.Sublist.map _ List.filter_sublist

theorem hasKey_iff {items : List Entry} {k : Nat} : hasKey items k = true ↔ k ∈ keys items := by
  simp [hasKey, keys, List.any_eq_true]

/-- generic update-or-append -/
def upd (items : List Entry) (k : Nat) (f : Entry → Entry) (newE : Entry) : List Entry :=
  if hasKey items k then items.map (fun e => if e.key == k then f e else e) else items ++ [newE]

theorem stepSeen_eq (items : List Entry) (t k tot c : Nat) :
    stepSeen items t k tot c =
      upd (supersede items t k) k (fun e => { e with total := tot, commit := c }) ⟨t, k, c, 0, tot⟩ := rfl

theorem stepWritten_eq (items : List Entry) (t k n : Nat) :
    stepWritten items t k n =
      upd (supersede items t k) k (fun e => { e with count := e.count + n }) ⟨t, k, 0, n, 0⟩ := rfl

theorem keys_upd (items : List Entry) (k : Nat) (f : Entry → Entry) (newE : Entry)
    (hf : ∀ e, (f e).key = e.key) (hn : newE.key = k) :
    keys (upd items k f newE) = if k ∈ keys items then keys items else keys items ++ [k] := by
  unfold upd
  by_cases h : hasKey items k = true
  · have hk : k ∈ keys items := hasKey_iff.mp h
    rw [if_pos h, if_pos hk]
    unfold keys
    rw [List.map_map]
    apply List.map_congr_left
    intro e _
    simp only [Function.comp]
    split <;> simp [hf]
  · have hk : k ∉ keys items := fun hk => h (hasKey_iff.mpr hk)
    rw [if_neg h, if_neg hk]
    simp [keys, hn]

theorem mem_upd {items : List Entry} {k : Nat} {f : Entry → Entry} {newE e' : Entry}
    (h : e' ∈ upd items k f newE) :
    (e' ∈ items ∧ e'.key ≠ k) ∨ (∃ e ∈ items, e.key = k ∧ e' = f e) ∨ (k ∉ keys items ∧ e' = newE) := by
  unfold upd at h
  by_cases hk : hasKey items k = true
  · rw [if_pos hk] at h
    simp only [List.mem_map] at h
    obtain ⟨e, he, rfl⟩ := h
    by_cases hek : e.key = k
    · right; left; exact ⟨e, he, hek, by simp [hek]⟩
    · left
      have : (e.key == k) = false := by simp [hek]
      simp [this, he, hek]
  · rw [if_neg hk] at h
    simp only [List.mem_append, List.mem_singleton] at h
    have hk' : k ∉ keys items := fun h' => hk (hasKey_iff.mpr h')
    rcases h with h | h
    · left; refine ⟨h, ?_⟩
      intro hek; exact hk' (by unfold keys; exact List.mem_map.mpr ⟨e', h, hek⟩)
    · right; right; exact ⟨hk', h⟩

theorem wsum_append (a b : List LOp) (k : Nat) : wsum (a ++ b) k = wsum a k + wsum b k := by
  induction a with
  | nil => simp [wsum]
  | cons op r ih =>
    cases op <;> simp [wsum, ih] <;> omega

end PgBifrost.LedgerSimple
