import PgBifrost.Proofs.LedgerSimple.Contract

namespace PgBifrost.LedgerSimple
open PgBifrost.Ledger (Entry Op)

theorem mem_keys {items : List Entry} {k : Nat} : k ∈ keys items ↔ ∃ e ∈ items, e.key = k := by
  simp [keys]

theorem key_in_supersede {items : List Entry} {t k : Nat} {e : Entry}
    (he : e ∈ items) (hk : e.key = k) : e ∈ supersede items t k :=
  mem_supersede.mpr ⟨he, fun _ => hk⟩

theorem keys_supersede_subset {items : List Entry} {t k k' : Nat}
    (h : k' ∈ keys (supersede items t k)) : k' ∈ keys items :=
  (keys_supersede_sublist items t k).subset h

section
variable {tr : List LOp} {n : Nat} {items : List Entry}

theorem fresh_of_not_key (hI : LInv tr n items) {op : LOp} {k t : Nat} (hop : tr[n]? = some op)
    (hk : op.key? = some k) (hfresh : k ∉ keys (supersede items t k)) :
    ∀ i, i < n → ¬ mentAt tr i k := by
  intro i hi hm
  have hk' : k ∉ keys items := by
    intro h; obtain ⟨e, he, hek⟩ := mem_keys.mp h
    exact hfresh (mem_keys.mpr ⟨e, key_in_supersede he hek, hek⟩)
  rcases hI.live i k hi hm with h | h
  · exact hk' h
  · exact h n (Nat.le_refl _) ⟨op, hop, hk⟩

theorem removed_dead (hI : LInv tr n items) (hS : NoStale tr) {op : LOp} {k t : Nat}
    (hop : tr[n]? = some op) (hk : op.key? = some k) (ht : op.txn? = some t)
    {e : Entry} (he : e ∈ items) (hne : e ∉ supersede items t k) :
    (∀ m, ¬ seenAt tr m e.key) ∧ (∀ m, n < m → ¬ mentAt tr m e.key) := by
  have h2 : e.txn = t ∧ e.key ≠ k := by
    by_cases h1 : e.txn = t
    · by_cases h3 : e.key = k
      · exact absurd (key_in_supersede he h3) hne
      · exact ⟨h1, h3⟩
    · exact absurd (mem_supersede.mpr ⟨he, fun h => absurd h h1⟩) hne
  obtain ⟨i0, op0, hi0, hg0, hk0, ht0⟩ := hI.ment e he
  exact hS.stale i0 n op0 op t e.key k hi0 hg0 hop (by rw [ht0, h2.1]) ht hk0 hk h2.2

/-- keys after update-or-append on the superseded list -/
theorem keys_step {f : Entry → Entry} {newE : Entry} {t k : Nat}
    (hf : ∀ e, (f e).key = e.key) (hn : newE.key = k) :
    keys (upd (supersede items t k) k f newE) =
      if k ∈ keys (supersede items t k) then keys (supersede items t k)
      else keys (supersede items t k) ++ [k] := keys_upd _ _ _ _ hf hn

/-- The structural part of the invariant (nodup, ment, live, order) is preserved by any
    key/txn-preserving update-or-append performed for an op mentioning (t,k) at index n. -/
theorem structural_step (hC : Contract tr) (hS : NoStale tr) (hI : LInv tr n items)
    {op : LOp} {k t : Nat} (hop : tr[n]? = some op) (hk : op.key? = some k) (ht : op.txn? = some t)
    {f : Entry → Entry} {newE : Entry}
    (hfk : ∀ e, (f e).key = e.key) (hft : ∀ e, (f e).txn = e.txn)
    (hnk : newE.key = k) (hnt : newE.txn = t) :
    let items' := upd (supersede items t k) k f newE
    (keys items').Nodup ∧
    (∀ e ∈ items', ∃ (i : Nat) (op : LOp), i < n + 1 ∧ tr[i]? = some op ∧ op.key? = some e.key ∧ op.txn? = some e.txn) ∧
    (∀ i k', i < n + 1 → mentAt tr i k' → k' ∈ keys items' ∨ ∀ m, n + 1 ≤ m → ¬ mentAt tr m k') ∧
    (keys items').Pairwise (fun k1 k2 => ∀ i j, seenAt tr i k2 → seenAt tr j k1 → ¬ i < j) := by
  intro items'
  have hkeys : keys items' = if k ∈ keys (supersede items t k) then keys (supersede items t k)
      else keys (supersede items t k) ++ [k] := keys_step hfk hnk
  have hsub := keys_supersede_sublist items t k
  have hnd1 : (keys (supersede items t k)).Nodup := hI.nodup.sublist hsub
  have hord1 := hI.order.sublist hsub
  refine ⟨?_, ?_, ?_, ?_⟩
  · -- nodup
    rw [hkeys]; split
    · exact hnd1
    · rename_i hnk'
      exact List.nodup_append.mpr ⟨hnd1, by simp, by
        intro a ha b hb; simp at hb; subst hb; intro hab; subst hab; exact hnk' ha⟩
  · -- ment
    intro e' he'
    rcases mem_upd he' with ⟨h1, _⟩ | ⟨e, he, _, rfl⟩ | ⟨_, rfl⟩
    · obtain ⟨i, op', hi, hg, hk', ht'⟩ := hI.ment e' (mem_supersede.mp h1).1
      exact ⟨i, op', by omega, hg, hk', ht'⟩
    · obtain ⟨i, op', hi, hg, hk', ht'⟩ := hI.ment e (mem_supersede.mp he).1
      exact ⟨i, op', by omega, hg, by rw [hfk]; exact hk', by rw [hft]; exact ht'⟩
    · exact ⟨n, op, by omega, hop, by rw [hnk]; exact hk, by rw [hnt]; exact ht⟩
  · -- live
    intro i k' hi hm
    have hkin : k ∈ keys items' := by
      rw [hkeys]; split
      · assumption
      · simp
    by_cases hin : i = n
    · subst hin
      obtain ⟨op', hg', hk''⟩ := hm
      rw [hop] at hg'; cases hg'
      rw [hk] at hk''; cases hk''
      exact Or.inl hkin
    · have hi' : i < n := by omega
      rcases hI.live i k' hi' hm with h | h
      · -- k' was in items: survived supersede or is dead
        obtain ⟨e, he, hek⟩ := mem_keys.mp h
        by_cases hsur : e ∈ supersede items t k
        · left
          have : k' ∈ keys (supersede items t k) := mem_keys.mpr ⟨e, hsur, hek⟩
          rw [hkeys]; split
          · exact this
          · exact List.mem_append_left _ this
        · right
          have := (removed_dead hI hS hop hk ht he hsur).2
          intro m hm'; rw [← hek]; exact this m (by omega)
      · right; intro m hm'; exact h m (by omega)
  · -- order
    rw [hkeys]; split
    · exact hord1
    · rename_i hnk'
      apply List.pairwise_append.mpr
      refine ⟨hord1, by simp, ?_⟩
      intro k1 hk1 k2 hk2
      simp at hk2; subst hk2
      intro i j hsi hsj hij
      -- k2 = k is fresh: its seen at i must be at index ≥ n
      have hfr := fresh_of_not_key hI hop hk hnk'
      have hin : n ≤ i := Nat.le_of_not_lt (fun hlt => hfr i hlt hsi.ment)
      -- k1 has an entry, hence a mention before n
      obtain ⟨e1, he1, hek1⟩ := mem_keys.mp (keys_supersede_subset hk1)
      obtain ⟨i1, op1, hi1, hg1, hk1', _⟩ := hI.ment e1 he1
      exact hC.order i1 i j k1 k2 (by omega) hij ⟨op1, hg1, by rw [hk1', hek1]⟩ hsi hsj
end

end PgBifrost.LedgerSimple
