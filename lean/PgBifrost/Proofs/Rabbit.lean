import PgBifrost.Spec.Rabbit
/-! Helper lemmas for C13 (core Lean only). -/
namespace PgBifrost.Proofs.Rabbit
open PgBifrost.RabbitConfirm PgBifrost.Spec.Rabbit

/-! ### no wedge in the repaired code -/

theorem send_fixed_no_panic : ∀ (msgs : List Nat) (st : St) (toks : List Tok),
    (send .fixed st msgs toks).2.2.2 ≠ .panic := by
  intro msgs
  induction msgs with
  | nil => intro st toks; simp [send]
  | cons m ms ih =>
    intro st toks
    simp only [send]
    split
    · rename_i h; exact absurd h.1 (by decide)
    · split
      · simp
      · split
        · simp
        · exact ih _ _
        · exact ih _ _
        · exact ih _ _
        · exact ih _ _

theorem waitLoop_fixed_no_hang (desired : Nat) : ∀ (f : Nat) (st : St) (toks : List Tok),
    (waitLoop .fixed desired f st toks).2.2.2 ≠ .hang := by
  intro f
  induction f with
  | zero => intro st toks; simp [waitLoop]
  | succ f ih =>
    intro st toks
    simp only [waitLoop]
    split
    · simp
    · split
      · rename_i h; exact absurd h.1 (by decide)
      · split
        · split <;> simp
        · split
          · simp
          · exact ih _ _

theorem attempt_fixed_no_hang (st : St) (msgs : List Nat) (toks : List Tok) :
    (attempt .fixed st msgs toks).2.2.2 ≠ .hang := by
  unfold attempt
  simp only []
  split
  · simp
  · split
    · simp
    · simp
    · split
      · simp
      · rename_i h; exact absurd h (waitLoop_fixed_no_hang _ _ _ _)
      · simp
      · split <;> simp

theorem retryLoop_fixed_no_hang : ∀ (left : Nat) (st : St) (msgs : List Nat) (toks : List Tok),
    (retryLoop .fixed left st msgs toks).2.2 ≠ .hang := by
  intro left
  induction left with
  | zero =>
    intro st msgs toks
    unfold retryLoop
    simp only []
    split
    · simp
    · rename_i h; exact absurd h (attempt_fixed_no_hang _ _ _)
    · simp
    · simp
    · simp
  | succ l ih =>
    intro st msgs toks
    unfold retryLoop
    simp only []
    split
    · simp
    · rename_i h; exact absurd h (attempt_fixed_no_hang _ _ _)
    · simp
    · simp
    · exact ih _ _ _

/-- a failed attempt of the repaired code leaves the channel fields cleared -/
theorem hookTok_fields_false (st : St) (t : Tok) (h : st.fieldsSet = false) : (hookTok st t).1.fieldsSet = false := by
  unfold hookTok
  simp only []
  have hc : ∀ b, (closeChan st b).1.fieldsSet = false := by
    intro b; unfold closeChan; split <;> simp [h]
  have hr : ∀ s : St, s.fieldsSet = false → (runHandler s).1.fieldsSet = false := by
    intro s hs; unfold runHandler; split <;> simp [hs]
  split <;> split <;> first | exact hr _ (hc _) | exact hc _ | exact hr _ h | exact h

theorem resetChannel_fields_false (st : St) : (resetChannel st).1.fieldsSet = false := by
  unfold resetChannel
  split
  · rfl
  · rename_i h; simpa using h

theorem setup_fail_fields (st : St) (h : (setup st).2.2 = false) : (setup st).1.fieldsSet = false := by
  unfold setup at h ⊢
  by_cases hf : st.fieldsSet = true
  · simp [hf] at h
  · by_cases hc : st.connBroken = true
    · simp only [hf, hc, if_true, if_false]
      simpa using hf
    · simp [hf, hc] at h

theorem attempt_fixed_retry_fields (st : St) (msgs msgs' : List Nat) (toks : List Tok)
    (h : (attempt .fixed st msgs toks).2.2.2 = .retry msgs') :
    (attempt .fixed st msgs toks).1.fieldsSet = false := by
  unfold attempt at h ⊢
  simp only [] at h ⊢
  split
  · -- setup failed: the fields were not set and stay so
    rename_i hs
    exact setup_fail_fields st hs
  · rename_i hs
    simp only [hs] at h
    split
    · rename_i hp; simp [hp] at h
    · simp only [if_true]
      exact resetChannel_fields_false _
    · rename_i hd
      simp only [hd] at h
      split
      · rename_i hw; simp [hw] at h
      · rename_i hw; simp [hw] at h
      · rename_i hw; simp [hw] at h
      · rename_i rem hw
        simp only [hw] at h
        split
        · rename_i hr; simp [hr] at h
        · simp only [if_true]
          exact hookTok_fields_false _ _ (resetChannel_fields_false _)

end PgBifrost.Proofs.Rabbit
