import PgBifrost.Gen.AggLoopSrc
/-! The translated aggregator steps (Gen/AggLoopSrc.lean) equal the model's. -/
set_option linter.unusedSimpArgs false
namespace PgBifrost.Proofs.AggLoopSrc
open PgBifrost PgBifrost.Aggregator

theorem upsertAgg_eq (k : String) (s : Stat) (b : Int) (m : Bucket) :
    upsertAgg k s b m = match m.lookup k with
      | some a => Gen.AggLoopSrc.setKey k (a.update s) m
      | none => Gen.AggLoopSrc.setKey k ((newAgg s b).update s) m := by
  induction m with
  | nil => simp [upsertAgg, Gen.AggLoopSrc.setKey]
  | cons p r ih =>
    obtain ⟨k', a⟩ := p
    by_cases h : k' = k
    · subst h; simp [upsertAgg, Gen.AggLoopSrc.setKey, List.lookup]
    · have h' : (k == k') = false := by simp [Ne.symm h]
      simp only [upsertAgg, h, if_false, List.lookup, h', ih]
      cases r.lookup k <;> simp [Gen.AggLoopSrc.setKey, h]

theorem add_eq (held : List (Int × Bucket)) (b : Int) (k : String) (s : Stat) :
    Gen.AggLoopSrc.add held b k s = upsertBucket b k s held := by
  induction held with
  | nil => simp [Gen.AggLoopSrc.add, upsertBucket, Gen.AggLoopSrc.setKey]
  | cons p r ih =>
    obtain ⟨b', m⟩ := p
    by_cases h : b' = b
    · subst h
      simp only [Gen.AggLoopSrc.add, upsertBucket, List.lookup, beq_self_eq_true, if_true, upsertAgg_eq]
      cases m.lookup k <;> simp [Gen.AggLoopSrc.setKey]
    · have h' : (b == b') = false := by simp [Ne.symm h]
      simp only [upsertBucket, h, if_false, ← ih]
      simp only [Gen.AggLoopSrc.add, List.lookup, h']
      cases r.lookup b with
      | none => simp [Gen.AggLoopSrc.setKey, h]
      | some m' => cases hk : m'.lookup k <;> simp [Gen.AggLoopSrc.setKey, h, hk]

theorem scan_eq (c : Cfg) (st : State) (nows : List (Int × Int)) :
    step c st (.scan nows) =
      { st with held := (Gen.AggLoopSrc.scan c nows st.held).1, reports := st.reports ++ (Gen.AggLoopSrc.scan c nows st.held).2 } := by
  simp only [step, Gen.AggLoopSrc.scan]
  congr 1
  apply List.filter_congr
  intro p hp
  by_cases he : scanExpired c nows p.1
  · have : ((st.held.filter fun q => scanExpired c nows q.1).map (·.1)).contains p.1 = true := by
      simp only [List.contains_iff_mem, List.mem_map, List.mem_filter]
      exact ⟨p, ⟨hp, he⟩, rfl⟩
    rw [this]; simp [he]
  · have : ((st.held.filter fun q => scanExpired c nows q.1).map (·.1)).contains p.1 = false := by
      rw [Bool.eq_false_iff]
      intro hc
      simp only [List.contains_iff_mem, List.mem_map, List.mem_filter] at hc
      obtain ⟨q, ⟨_, hq⟩, hqe⟩ := hc
      rw [hqe] at hq; exact he hq
    rw [this]; simp [he]

end PgBifrost.Proofs.AggLoopSrc
