import PgBifrost.Proofs.SysBatcher
import PgBifrost.Proofs.LedgerRefine
/-!
# The composed system: closed forms of the steps and the basic history invariants
-/
namespace PgBifrost.Sys
open PgBifrost.Batch PgBifrost.Batcher

/-! ## the tracker -/

theorem ledApply_nil (l : Option Ledger.State) : ledApply l [] = l := by
  cases l <;> simp [ledApply]

theorem ledApply_append (l : Option Ledger.State) (a b : List Ledger.Op) :
    ledApply (ledApply l a) b = ledApply l (a ++ b) := by
  cases l with
  | none => simp [ledApply]
  | some x =>
    simp only [ledApply, Option.bind_some, List.foldlM_append]
    cases List.foldlM Ledger.step x a <;> simp

theorem ledApply_run (tr : List Ledger.Op) : ledApply (some {}) tr = Ledger.run tr := by
  simp [ledApply, Ledger.run]

theorem ledApply_none (a : List Ledger.Op) : ledApply none a = none := rfl

/-! ## events of one batcher step, closed form -/

def dispatchPairOf : Ev → Option (Nat × Batch)
  | .dispatch w b => some (w, b)
  | _ => none

/-- (worker, batch) of the `.dispatch` events, in order -/
def dispatchPairs (evl : List Ev) : List (Nat × Batch) := evl.filterMap dispatchPairOf

theorem dispatchPairs_snd (evl : List Ev) : (dispatchPairs evl).map (·.2) = dispatched evl := by
  induction evl with
  | nil => rfl
  | cons e r ih =>
    cases e <;> simp [dispatchPairs, dispatched, dispatchPairOf, dispatchOf] at ih ⊢ <;> exact ih

theorem dispatchPairs_append (a b : List Ev) : dispatchPairs (a ++ b) = dispatchPairs a ++ dispatchPairs b := by
  simp [dispatchPairs, List.filterMap_append]

theorem mem_dispatchPairs {evl : List Ev} {w : Nat} {b : Batch} :
    (w, b) ∈ dispatchPairs evl ↔ Ev.dispatch w b ∈ evl := by
  unfold dispatchPairs
  rw [List.mem_filterMap]
  constructor
  · rintro ⟨e, he, hb⟩
    cases e <;> simp [dispatchPairOf] at hb
    obtain ⟨rfl, rfl⟩ := hb; exact he
  · intro h; exact ⟨_, h, rfl⟩

def applyEvs (s : SysState) (evl : List Ev) : SysState :=
  { s with ledger := ledApply s.ledger ((seenEntries evl).map seenOp),
           trace := s.trace ++ (seenEntries evl).map seenOp,
           queue := s.queue ++ dispatchPairs evl,
           wchan := s.wchan ++ selfReported evl }

theorem seenEntries_cons (e : Ev) (r : List Ev) : seenEntries (e :: r) = seenOf e ++ seenEntries r := by
  simp [seenEntries]

theorem dispatchPairs_cons (e : Ev) (r : List Ev) :
    dispatchPairs (e :: r) = (dispatchPairOf e).toList ++ dispatchPairs r := by
  unfold dispatchPairs
  cases h : dispatchPairOf e <;> simp [h]

theorem selfReported_cons (e : Ev) (r : List Ev) :
    selfReported (e :: r) = (selfReportOf e).toList ++ selfReported r := by
  unfold selfReported
  cases h : selfReportOf e <;> simp [h]

theorem foldl_applyEv (evl : List Ev) : ∀ s : SysState, evl.foldl applyEv s = applyEvs s evl := by
  induction evl with
  | nil =>
    intro s
    simp [applyEvs, seenEntries, dispatchPairs, selfReported, ledApply_nil]
  | cons e r ih =>
    intro s
    rw [List.foldl_cons, ih]
    unfold applyEvs
    rw [seenEntries_cons, dispatchPairs_cons, selfReported_cons]
    cases e with
    | seen l =>
      simp [applyEv, perform, seenOf, dispatchPairOf, selfReportOf, ledApply_append]
    | dispatch w b =>
      simp [applyEv, seenOf, dispatchPairOf, selfReportOf]
    | selfReport t =>
      simp [applyEv, seenOf, dispatchPairOf, selfReportOf]
    | stat n =>
      simp [applyEv, seenOf, dispatchPairOf, selfReportOf]
    | fatal =>
      simp [applyEv, seenOf, dispatchPairOf, selfReportOf]

/-- closed form of a batcher step of the system -/
theorem batStep_eq (cfg : Cfg) (s : SysState) (op : Batcher.Op) :
    batStep cfg s op =
      { s with bat := (Batcher.step cfg.K cfg.bcfg s.bat op).1,
               ops := s.ops ++ [op],
               evs := s.evs ++ (Batcher.step cfg.K cfg.bcfg s.bat op).2,
               ledger := ledApply s.ledger ((seenEntries (Batcher.step cfg.K cfg.bcfg s.bat op).2).map seenOp),
               trace := s.trace ++ (seenEntries (Batcher.step cfg.K cfg.bcfg s.bat op).2).map seenOp,
               queue := s.queue ++ dispatchPairs (Batcher.step cfg.K cfg.bcfg s.bat op).2,
               wchan := s.wchan ++ selfReported (Batcher.step cfg.K cfg.bcfg s.bat op).2 } := by
  unfold batStep
  simp only [foldl_applyEv, applyEvs]

/-! ## run -/

theorem run_nil (cfg : Cfg) : run cfg [] = {} := rfl

theorem run_snoc (cfg : Cfg) (acts : List Act) (a : Act) : run cfg (acts ++ [a]) = step cfg (run cfg acts) a := by
  simp [run, List.foldl_append]

theorem run_append (cfg : Cfg) (a b : List Act) : run cfg (a ++ b) = b.foldl (step cfg) (run cfg a) := by
  simp [run, List.foldl_append]

theorem run_ind (cfg : Cfg) (P : List Act → SysState → Prop) (h0 : P [] {})
    (hstep : ∀ (pre : List Act) (a : Act), P pre (run cfg pre) → P (pre ++ [a]) (step cfg (run cfg pre) a)) :
    ∀ acts, P acts (run cfg acts) := by
  intro acts
  induction acts using snoc_induction with
  | h0 => exact h0
  | hs l a ih => rw [run_snoc]; exact hstep l a ih

theorem step_dead {cfg : Cfg} {s : SysState} (a : Act) (h : s.dead = true) : step cfg s a = s := by
  simp [step, h]

theorem step_live {cfg : Cfg} {s : SysState} (a : Act) (h : s.dead = false) : step cfg s a = stepLive cfg s a := by
  simp [step, h]

theorem fedMsgs_snoc (acts : List Act) (a : Act) : fedMsgs (acts ++ [a]) = fedMsgs acts ++ fedOf a := by
  simp [fedMsgs]

/-- the batcher operation an action stands for -/
def batOpOf : Act → Option Batcher.Op
  | .feed m => some (.msg m)
  | .tick order => some (.tick 0 [] order)
  | _ => none

theorem stepLive_bat {cfg : Cfg} {s : SysState} {a : Act} {op : Batcher.Op} (h : batOpOf a = some op) :
    stepLive cfg s a = batStep cfg s op := by
  cases a <;> simp [batOpOf] at h <;> subst h <;> rfl

theorem msgs_snoc_op (ops : List Batcher.Op) (op : Batcher.Op) :
    msgs (ops ++ [op]) = msgs ops ++ msgOf op := by
  simp [msgs]

/-! ## basic history invariants -/

/-- popFirst splits a list -/
theorem popFirst_some {w : Nat} : ∀ {q : List (Nat × Batch)} {b : Batch} {q' : List (Nat × Batch)},
    popFirst w q = some (b, q') →
    ∃ q1 q2, q = q1 ++ (w, b) :: q2 ∧ q' = q1 ++ q2 ∧ ∀ p ∈ q1, p.1 ≠ w := by
  intro q
  induction q with
  | nil => intro b q' h; simp [popFirst] at h
  | cons p r ih =>
    intro b q' h
    unfold popFirst at h
    by_cases hp : p.1 = w
    · rw [if_pos hp] at h
      simp only [Option.some.injEq, Prod.mk.injEq] at h
      obtain ⟨rfl, rfl⟩ := h
      exact ⟨[], r, by subst hp; rfl, rfl, fun _ h => by cases h⟩
    · rw [if_neg hp] at h
      cases hr : popFirst w r with
      | none => rw [hr] at h; simp at h
      | some x =>
        obtain ⟨b0, r'⟩ := x
        rw [hr] at h
        simp only [Option.some.injEq, Prod.mk.injEq] at h
        obtain ⟨rfl, rfl⟩ := h
        obtain ⟨q1, q2, h1, h2, h3⟩ := ih hr
        refine ⟨p :: q1, q2, by rw [h1]; rfl, by rw [h2]; rfl, fun x hx => ?_⟩
        rcases List.mem_cons.mp hx with hx | hx
        · rw [hx]; exact hp
        · exact h3 x hx

theorem popFirst_none {w : Nat} : ∀ {q : List (Nat × Batch)}, popFirst w q = none → ∀ p ∈ q, p.1 ≠ w := by
  intro q
  induction q with
  | nil => intro _ p hp; cases hp
  | cons p r ih =>
    intro h x hx
    unfold popFirst at h
    by_cases hp : p.1 = w
    · rw [if_pos hp] at h; cases h
    · rw [if_neg hp] at h
      cases hr : popFirst w r with
      | some y => rw [hr] at h; simp at h
      | none =>
        rcases List.mem_cons.mp hx with hx | hx
        · rw [hx]; exact hp
        · exact ih hr x hx

/-- the system's history: the batcher component is the batcher model run on `ops`; the ledger is the
ledger model run on `trace`; the messages given to the batcher are a prefix of the fed ones (all of
them unless the tracker panicked). -/
structure Hist (cfg : Cfg) (acts : List Act) (s : SysState) : Prop where
  bat : (s.bat, s.evs) = Batcher.run cfg.K cfg.bcfg s.ops
  led : s.ledger = Ledger.run s.trace
  fedPre : ∃ rest, fedMsgs acts = msgs s.ops ++ rest
  fedAll : s.dead = false → fedMsgs acts = msgs s.ops
  sink : s.sinkAccepted = s.accB.flatMap (·.payload)

/-- a step that leaves the batcher alone and lets the tracker perform `lops` -/
theorem hist_frame {cfg : Cfg} {pre : List Act} {a : Act} {s s' : SysState} (hI : Hist cfg pre s)
    (hd : s.dead = false) (hfo : fedOf a = [])
    (h1 : s'.bat = s.bat) (h2 : s'.evs = s.evs) (h3 : s'.ops = s.ops)
    (lops : List Ledger.Op) (h4 : s'.ledger = ledApply s.ledger lops) (h5 : s'.trace = s.trace ++ lops)
    (h6 : s'.sinkAccepted = s'.accB.flatMap (·.payload)) : Hist cfg (pre ++ [a]) s' := by
  have hfa : fedMsgs (pre ++ [a]) = msgs s'.ops := by
    rw [fedMsgs_snoc, hI.fedAll hd, hfo, h3, List.append_nil]
  refine ⟨by rw [h1, h2, h3]; exact hI.bat, ?_, ⟨[], by simpa using hfa⟩, fun _ => hfa, h6⟩
  rw [h4, h5, hI.led, ← ledApply_run, ledApply_append, ledApply_run]

theorem hist_run (cfg : Cfg) : ∀ acts, Hist cfg acts (run cfg acts) := by
  apply run_ind cfg (Hist cfg)
  · exact ⟨rfl, rfl, ⟨[], rfl⟩, (fun _ => rfl), rfl⟩
  · intro pre a hI
    generalize run cfg pre = s at hI
    cases hd : s.dead with
    | true =>
      rw [step_dead a hd]
      obtain ⟨rest, hr⟩ := hI.fedPre
      exact ⟨hI.bat, hI.led, ⟨rest ++ fedOf a, by rw [fedMsgs_snoc, hr, List.append_assoc]⟩,
        (fun h => by rw [hd] at h; cases h), hI.sink⟩
    | false =>
      rw [step_live a hd]
      have hfed := hI.fedAll hd
      cases hb : batOpOf a with
      | some op =>
        rw [stepLive_bat hb, batStep_eq]
        have hfo : fedOf a = msgOf op := by
          cases a <;> simp [batOpOf] at hb <;> subst hb <;> rfl
        have hfa : fedMsgs (pre ++ [a]) = msgs (s.ops ++ [op]) := by
          rw [fedMsgs_snoc, msgs_snoc_op, hfed, hfo]
        refine ⟨?_, ?_, ⟨[], by simpa using hfa⟩, fun _ => hfa, hI.sink⟩
        · simp only []
          rw [Batcher.run_snoc, ← hI.bat]; rfl
        · simp only []
          rw [hI.led, ← ledApply_run, ledApply_append, ledApply_run]
      | none =>
        cases a with
        | feed m => simp [batOpOf] at hb
        | tick o => simp [batOpOf] at hb
        | take w =>
          simp only [stepLive]
          split
          · exact hist_frame hI hd rfl rfl rfl rfl [] (ledApply_nil _).symm (List.append_nil _).symm hI.sink
          · split
            · exact hist_frame hI hd rfl rfl rfl rfl [] (ledApply_nil _).symm (List.append_nil _).symm hI.sink
            · exact hist_frame hI hd rfl rfl rfl rfl [] (ledApply_nil _).symm (List.append_nil _).symm hI.sink
        | sinkAccept w =>
          simp only [stepLive]
          split
          · refine hist_frame hI hd rfl rfl rfl rfl [] (ledApply_nil _).symm (List.append_nil _).symm ?_
            simp only [List.flatMap_append, List.flatMap_cons, List.flatMap_nil, List.append_nil]
            rw [hI.sink]
          · exact hist_frame hI hd rfl rfl rfl rfl [] (ledApply_nil _).symm (List.append_nil _).symm hI.sink
        | sinkRetry w =>
          exact hist_frame hI hd rfl rfl rfl rfl [] (ledApply_nil _).symm (List.append_nil _).symm hI.sink
        | trackWritten =>
          simp only [stepLive]
          split
          · exact hist_frame hI hd rfl rfl rfl rfl [] (ledApply_nil _).symm (List.append_nil _).symm hI.sink
          · exact hist_frame hI hd rfl rfl rfl rfl _ rfl rfl hI.sink
        | emit =>
          simp only [stepLive]
          exact hist_frame hI hd rfl rfl rfl rfl _ rfl rfl hI.sink

end PgBifrost.Sys
