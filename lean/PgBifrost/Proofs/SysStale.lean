import PgBifrost.Proofs.SysContract
/-!
# Stage 2 (redelivery): `NoStale` of the ledger trace under the scheduling hypothesis

`redeliverQuiet cfg acts`: at every `feed` of a BEGIN that interrupts the open delivery `k`, nothing
of `k` is in flight (open batches, queues, held batches, written channel). Then, for an interrupted
key, what the tracker was told as written already equals everything the batcher will ever charge
to that key (no message of that key is fed again), so nothing of it is ever in flight again and the
trace never mentions it again; and of two keys of one transaction mentioned in the trace the
earlier-mentioned one is an interrupted one.
-/
namespace PgBifrost.Sys
open PgBifrost.Batch PgBifrost.Batcher
open PgBifrost.LedgerSimple (seenAt mentAt wsum wsum_append Contract NoStale)

/-! ## the scheduling hypothesis, one action at a time -/

theorem rqf_append (cfg : Cfg) : ∀ (a b : List Act) (s : SysState) (g : Option GState),
    redeliverQuietFrom cfg s g (a ++ b) =
      (redeliverQuietFrom cfg s g a && redeliverQuietFrom cfg (a.foldl (step cfg) s) (a.foldl gnext g) b) := by
  intro a
  induction a with
  | nil => intro b s g; simp [redeliverQuietFrom]
  | cons x r ih =>
    intro b s g
    simp only [List.cons_append, redeliverQuietFrom, List.foldl_cons, ih, Bool.and_assoc]

theorem foldl_gnext (acts : List Act) : acts.foldl gnext (some {}) = gscan true (fedMsgs acts) := by
  induction acts using snoc_induction with
  | h0 => rfl
  | hs l a ih =>
    rw [List.foldl_append, List.foldl_cons, List.foldl_nil, ih, fedMsgs_snoc]
    cases a with
    | feed m => simp only [gnext, fedOf]; rw [gscan_snoc]
    | tick o => simp [gnext, fedOf]
    | take w => simp [gnext, fedOf]
    | sinkAccept w => simp [gnext, fedOf]
    | sinkRetry w => simp [gnext, fedOf]
    | trackWritten => simp [gnext, fedOf]
    | emit => simp [gnext, fedOf]

theorem quiet_snoc (cfg : Cfg) (pre : List Act) (a : Act) :
    redeliverQuiet cfg (pre ++ [a]) =
      (redeliverQuiet cfg pre && quietAt (run cfg pre) (gscan true (fedMsgs pre)) a) := by
  unfold redeliverQuiet
  rw [rqf_append, foldl_gnext]
  simp [redeliverQuietFrom, run]

/-! ## counts -/

theorem countOf_eq_zero {t : List TxnCount} {k : Nat} (h : ∀ x ∈ t, x.key ≠ k) : countOf t k = 0 := by
  induction t with
  | nil => rfl
  | cons e r ih =>
    rw [countOf_cons, if_neg (h e (by simp))]
    exact ih (fun x hx => h x (by simp [hx]))

theorem countOf_pos_of_mem {t : List TxnCount} {x : TxnCount} (hx : x ∈ t) (h1 : ∀ y ∈ t, 1 ≤ y.count) :
    1 ≤ countOf t x.key := by
  induction t with
  | nil => cases hx
  | cons e r ih =>
    rw [countOf_cons]
    by_cases he : e.key = x.key
    · rw [if_pos he]; exact h1 e (by simp)
    · rw [if_neg he]
      rcases List.mem_cons.mp hx with rfl | hx
      · exact absurd rfl he
      · exact ih hx (fun y hy => h1 y (by simp [hy]))

/-- number of data messages of key `k` the batcher charges to some batch's `txns` -/
def chargedCount (big bad : Msg → Bool) (ops : List Batcher.Op) (k : Nat) : Nat :=
  ((dataMsgs ops).filter (fun m => m.key == k && (big m || !bad m))).length

theorem keyInFlight_false {s : SysState} {k : Nat} (h : keyInFlight s k = false) :
    chargedOpen s.bat k = 0 ∧ bcount s.queue k = 0 ∧ bcount s.held k = 0 ∧ wcount s.wchan k = 0 := by
  unfold keyInFlight at h
  simp only [Bool.or_eq_false_iff] at h
  obtain ⟨⟨⟨h1, h2⟩, h3⟩, h4⟩ := h
  have hz : ∀ t : List TxnCount, t.any (fun x => x.key == k) = false → countOf t k = 0 := by
    intro t ht
    apply countOf_eq_zero
    intro x hx hk
    have := List.any_eq_false.mp ht x hx
    simp [hk] at this
  refine ⟨?_, ?_, ?_, ?_⟩
  · unfold chargedOpen sumOpen
    apply sum_map_zero'
    intro p hp
    exact hz _ (by have := List.any_eq_false.mp h1 p hp; simpa using this)
  · unfold bcount
    apply sum_map_zero'
    intro p hp
    exact hz _ (by have := List.any_eq_false.mp h2 p hp; simpa using this)
  · unfold bcount
    apply sum_map_zero'
    intro p hp
    exact hz _ (by have := List.any_eq_false.mp h3 p hp; simpa using this)
  · unfold wcount
    apply sum_map_zero'
    intro t ht
    exact hz _ (by have := List.any_eq_false.mp h4 t ht; simpa using this)
where
  sum_map_zero' {α : Type} {f : α → Nat} {l : List α} (h : ∀ a ∈ l, f a = 0) : (l.map f).sum = 0 := by
    induction l with
    | nil => rfl
    | cons x r ih => simp [h x (by simp), ih (fun a ha => h a (by simp [ha]))]

theorem le_sum_of_mem' {α : Type} {f : α → Nat} {l : List α} {a : α} (h : a ∈ l) : f a ≤ (l.map f).sum := by
  induction l with
  | nil => cases h
  | cons x r ih =>
    rcases List.mem_cons.mp h with rfl | h
    · simp
    · have := ih h; simp; omega

/-! ## the invariant -/

structure SF (big bad : Msg → Bool) (s : SysState) (gs : GState) : Prop where
  done : ∀ k ∈ gs.intr, wsum s.trace k = chargedCount big bad s.ops k
  s1 : ∀ (i j : Nat) (op1 op2 : Ledger.Op) (t k1 k2 : Nat), i < j → s.trace[i]? = some op1 → s.trace[j]? = some op2 →
    op1.txn? = some t → op2.txn? = some t → op1.key? = some k1 → op2.key? = some k2 → k1 ≠ k2 → k1 ∈ gs.intr
  s3 : ∀ (i j m : Nat) (op1 op2 : Ledger.Op) (t k1 k2 : Nat), i < j → j < m → s.trace[i]? = some op1 →
    s.trace[j]? = some op2 → op1.txn? = some t → op2.txn? = some t → op1.key? = some k1 → op2.key? = some k2 →
    k1 ≠ k2 → mentAt s.trace m k1 → False

section
variable {K : Kind} {big bad : Msg → Bool} {dom : Msg → Prop} {bcfg : Batcher.Cfg} {s s' : SysState} {gs gs' : GState}

/-- nothing of an interrupted key is in the written channel (nor anywhere else in flight) -/
theorem intr_not_in_wchan (hF : Facts true K big bad dom bcfg s gs) (hS : SF big bad s gs) {k : Nat}
    (hk : k ∈ gs.intr) : ∀ t ∈ s.wchan, ∀ x ∈ t, x.key ≠ k := by
  intro t ht x hx hxk
  have h1 := hF.flow.num k
  have h2 := hF.charges k
  have h3 := hS.done k hk
  unfold chargedCount at h3
  have h4 := le_sum_of_mem' (f := fun t : List TxnCount => countOf t k) ht
  have h5 := countOf_pos_of_mem hx (fun y hy => ((hF.flow.txw t ht).2 y hy).1)
  rw [hxk] at h5
  unfold wcount at h1
  omega

/-- extending the trace by operations that mention no interrupted key -/
theorem sf_extend (hF' : Facts true K big bad dom bcfg s' gs') (hS : SF big bad s gs)
    (hmono : ∀ k ∈ gs.intr, k ∈ gs'.intr) (new : List Ledger.Op) (htr : s'.trace = s.trace ++ new)
    (hnew : ∀ op ∈ new, ∀ k, op.key? = some k → k ∉ gs'.intr)
    (hdone : ∀ k ∈ gs'.intr, wsum s'.trace k = chargedCount big bad s'.ops k) : SF big bad s' gs' := by
  have hs1 : ∀ (i j : Nat) (op1 op2 : Ledger.Op) (t k1 k2 : Nat), i < j → s'.trace[i]? = some op1 →
      s'.trace[j]? = some op2 → op1.txn? = some t → op2.txn? = some t → op1.key? = some k1 → op2.key? = some k2 →
      k1 ≠ k2 → k1 ∈ gs'.intr := by
    intro i j op1 op2 t k1 k2 hij h1 h2 ht1 ht2 hk1 hk2 hne
    have h1' := h1; have h2' := h2
    rw [htr] at h1' h2'
    rcases (getElem?_append_cases _ _ j _).mp h2' with ⟨hj, h2o⟩ | ⟨hj, h2n⟩
    · rcases (getElem?_append_cases _ _ i _).mp h1' with ⟨_, h1o⟩ | ⟨hi, _⟩
      · exact hmono _ (hS.s1 i j op1 op2 t k1 k2 hij h1o h2o ht1 ht2 hk1 hk2 hne)
      · omega
    · have hk2n := hnew op2 (List.mem_of_getElem? h2n) k2 hk2
      obtain ⟨m1, hm1, hmk1, hmt1⟩ := hF'.op_src (List.mem_of_getElem? h1) hk1
      obtain ⟨m2, hm2, hmk2, hmt2⟩ := hF'.op_src (List.mem_of_getElem? h2) hk2
      rw [ht1] at hmt1; rw [ht2] at hmt2
      have htt : m1.txn = m2.txn := by rw [← Option.some.inj hmt1, ← Option.some.inj hmt2]
      rcases hF'.ginv.chain m1 hm1 m2 hm2 htt (by rw [hmk1, hmk2]; exact hne) with h | h
      · rw [hmk1] at h; exact h
      · rw [hmk2] at h; exact absurd h hk2n
  refine ⟨hdone, hs1, ?_⟩
  intro i j m op1 op2 t k1 k2 hij hjm h1 h2 ht1 ht2 hk1 hk2 hne hm
  have hin := hs1 i j op1 op2 t k1 k2 hij h1 h2 ht1 ht2 hk1 hk2 hne
  rw [htr] at hm h1 h2
  rcases mentAt_append.mp hm with ⟨hmo, hm'⟩ | ⟨_, ⟨op, hop, hk⟩⟩
  · rcases (getElem?_append_cases _ _ j _).mp h2 with ⟨_, h2o⟩ | ⟨hj, _⟩
    · rcases (getElem?_append_cases _ _ i _).mp h1 with ⟨_, h1o⟩ | ⟨hi, _⟩
      · exact hS.s3 i j m op1 op2 t k1 k2 hij hjm h1o h2o ht1 ht2 hk1 hk2 hne hm'
      · omega
    · omega
  · exact hnew op (List.mem_of_getElem? hop) k1 hk hin

/-- a step that changes neither the trace nor the batcher input -/
theorem sf_same (hS : SF big bad s gs) (h1 : s'.trace = s.trace) (h2 : s'.ops = s.ops) : SF big bad s' gs := by
  refine ⟨?_, ?_, ?_⟩
  · rw [h1, h2]; exact hS.done
  · rw [h1]; exact hS.s1
  · rw [h1]; exact hS.s3

theorem Facts.noStale_of_sf (hF : Facts true K big bad dom bcfg s gs) (hS : SF big bad s gs) : NoStale s.trace := by
  constructor
  intro i j op1 op2 t k1 k2 hij h1 h2 ht1 ht2 hk1 hk2 hne
  have hin := hS.s1 i j op1 op2 t k1 k2 hij h1 h2 ht1 ht2 hk1 hk2 hne
  refine ⟨fun m hm => ?_, fun m hjm hm => hS.s3 i j m op1 op2 t k1 k2 hij hjm h1 h2 ht1 ht2 hk1 hk2 hne hm⟩
  obtain ⟨t', tot, c, rl, hg⟩ := hm
  have := (hF.ginv.seenE _ (hF.handed_mem (hF.seen_src (List.mem_of_getElem? hg)).1)).2.2.2.1
  exact this hin

end

theorem stepLive_nonbat {cfg : Cfg} {s : SysState} {a : Act} (hb : batOpOf a = none) :
    (stepLive cfg s a).ops = s.ops ∧ ∃ new, (stepLive cfg s a).trace = s.trace ++ new ∧
      (new = [] ∨ (∃ t rest, s.wchan = t :: rest ∧ new = t.map writtenOp) ∨ new = [Ledger.Op.emit]) := by
  cases a with
  | feed m => simp [batOpOf] at hb
  | tick o => simp [batOpOf] at hb
  | take w =>
    simp only [stepLive]
    split
    · exact ⟨rfl, [], by simp, Or.inl rfl⟩
    · split
      · exact ⟨rfl, [], by simp, Or.inl rfl⟩
      · exact ⟨rfl, [], by simp, Or.inl rfl⟩
  | sinkAccept w =>
    simp only [stepLive]
    split
    · exact ⟨rfl, [], by simp, Or.inl rfl⟩
    · exact ⟨rfl, [], by simp, Or.inl rfl⟩
  | sinkRetry w => exact ⟨rfl, [], by simp [stepLive], Or.inl rfl⟩
  | trackWritten =>
    simp only [stepLive]
    split
    · exact ⟨rfl, [], by simp, Or.inl rfl⟩
    · rename_i t rest hw
      exact ⟨rfl, t.map writtenOp, rfl, Or.inr (Or.inl ⟨t, rest, hw, rfl⟩)⟩
  | emit => exact ⟨rfl, [.emit], rfl, Or.inr (Or.inr rfl)⟩

theorem chargedCount_snoc_other {big bad : Msg → Bool} (ops : List Batcher.Op) (op : Batcher.Op) (k : Nat)
    (h : ∀ m, op = .msg m → m.op = .data → m.key ≠ k) :
    chargedCount big bad (ops ++ [op]) k = chargedCount big bad ops k := by
  unfold chargedCount
  cases op with
  | tick now t o => rw [dataMsgs_snoc_tick]
  | msg m =>
    rw [dataMsgs_snoc_msg]
    by_cases hd : m.op = .data
    · have := h m rfl hd
      simp [hd, this]
    · simp [hd]

theorem sf_run {K : Kind} {big bad : Msg → Bool} {dom : Msg → Prop} (bcfg : Batcher.Cfg)
    (hK : KindOK K big bad dom) :
    ∀ acts, (∀ m ∈ fedMsgs acts, m.op = .data → dom m) → ∀ g, gscan true (fedMsgs acts) = some g →
      redeliverQuiet ⟨K, bcfg⟩ acts = true →
      ∀ gs, gscan true (msgs (run ⟨K, bcfg⟩ acts).ops) = some gs → SF big bad (run ⟨K, bcfg⟩ acts) gs := by
  apply run_ind ⟨K, bcfg⟩ (fun acts s => (∀ m ∈ fedMsgs acts, m.op = .data → dom m) →
    ∀ g, gscan true (fedMsgs acts) = some g → redeliverQuiet ⟨K, bcfg⟩ acts = true →
    ∀ gs, gscan true (msgs s.ops) = some gs → SF big bad s gs)
  · intro _ g _ _ gs hgs
    rw [show msgs ({} : SysState).ops = [] from rfl, gscan_nil] at hgs
    cases hgs
    refine ⟨(fun k hk => by cases hk), ?_, ?_⟩
    · intro i j op1 op2 t k1 k2 _ h1; simp at h1
    · intro i j m op1 op2 t k1 k2 _ _ h1; simp at h1
  · intro pre a ih hdom g hg hq gs' hgs'
    have hdom0 : ∀ m ∈ fedMsgs pre, m.op = .data → dom m :=
      fun m hm => hdom m (by rw [fedMsgs_snoc]; exact List.mem_append_left _ hm)
    have hg' := hg
    rw [fedMsgs_snoc] at hg
    obtain ⟨g0, hg0⟩ := gscan_prefix hg
    rw [quiet_snoc, Bool.and_eq_true] at hq
    obtain ⟨hq0, hqa⟩ := hq
    have ih' := ih hdom0 g0 hg0 hq0
    obtain ⟨gsF, hgsF, hF⟩ := facts_run bcfg hK true pre hdom0 g0 hg0
    obtain ⟨gsF', hgsF', hF'⟩ := facts_run bcfg hK true (pre ++ [a]) hdom g hg'
    have hH := hist_run ⟨K, bcfg⟩ pre
    rw [run_snoc] at hF' hgsF'
    generalize run ⟨K, bcfg⟩ pre = s at ih' hF hgsF hF' hgsF' hH hgs' hqa
    have hS := ih' gsF hgsF
    cases hd : s.dead with
    | true =>
      rw [step_dead a hd] at hgs' ⊢
      rw [hgsF] at hgs'; cases hgs'; exact hS
    | false =>
      have hfed := hH.fedAll hd
      rw [hfed, hgsF] at hqa hg0
      cases hg0
      rw [step_live a hd] at hgs' hF' hgsF' ⊢
      rw [hgsF'] at hgs'; cases hgs'
      cases hb : batOpOf a with
      | some op =>
        rw [stepLive_bat hb] at hF' hgsF' ⊢
        have hops : (batStep ⟨K, bcfg⟩ s op).ops = s.ops ++ [op] := by rw [batStep_eq]
        have htr : (batStep ⟨K, bcfg⟩ s op).trace =
            s.trace ++ (seenEntries (Batcher.step K bcfg s.bat op).2).map seenOp := by rw [batStep_eq]
        rw [hops, msgs_snoc_op] at hgsF'
        -- relation between the grammar states
        have hrel : (gs' = g0 ∧ ∀ m, op ≠ .msg m) ∨ (∃ m, op = .msg m ∧ gstep true g0 m = some gs') := by
          cases op with
          | msg m =>
            right
            refine ⟨m, rfl, ?_⟩
            have : msgOf (Batcher.Op.msg m) = [m] := rfl
            rw [this, gscan_snoc, hgsF] at hgsF'
            exact hgsF'
          | tick now t o =>
            left
            have : msgOf (Batcher.Op.tick now t o) = [] := rfl
            rw [this, List.append_nil, hgsF] at hgsF'
            exact ⟨(Option.some.inj hgsF').symm, fun m h => by cases h⟩
        have hmono : ∀ k ∈ g0.intr, k ∈ gs'.intr := by
          rcases hrel with ⟨h, _⟩ | ⟨m, _, h⟩
          · rw [h]; exact fun k hk => hk
          · exact gstep_intr_mono h
        refine sf_extend hF' hS hmono _ htr ?_ ?_
        · -- new seen operations do not mention interrupted keys
          intro op' hop' k hk hin
          obtain ⟨e, he, rfl⟩ := List.mem_map.mp hop'
          simp only [seenOp, Ledger.Op.key?, Option.some.injEq] at hk
          have hmem : e ∈ seenEntries (batStep ⟨K, bcfg⟩ s op).evs := by
            rw [batStep_eq]; simp only [seenEntries_append]; exact List.mem_append_right _ he
          have := (hF'.ginv.seenE _ (hF'.handed_mem hmem)).2.2.2.1
          rw [hk] at this; exact this hin
        · -- done
          intro k hk
          rw [htr, wsum_append, wsum_seen_map, Nat.add_zero, hops]
          rcases hrel with ⟨hg, hno⟩ | ⟨m, rfl, hst⟩
          · rw [hg] at hk
            rw [chargedCount_snoc_other _ _ _ (fun m h => absurd h (hno m))]
            exact hS.done k hk
          · rcases gstep_cases hst with ⟨_, ho, _, _, rfl⟩ | ⟨k0, t0, hc, ho, hmk, _, hgeq⟩ |
                ⟨_, _, _, ho, _, _, _, rfl⟩ | ⟨_, k0, t0, hc, ho, _, _, rfl⟩
            · rw [chargedCount_snoc_other _ _ _ (fun m' h hd' => by cases h; rw [ho] at hd'; cases hd')]
              exact hS.done k hk
            · rw [hgeq] at hk
              have hk0 : k0 ∉ g0.intr := (hF.ginv.curOpen k0 t0 hc).2.2.2.2.2.2.2
              rw [chargedCount_snoc_other _ _ _ (fun m' h _ => by cases h; rw [hmk]; exact fun h' => hk0 (h' ▸ hk))]
              exact hS.done k hk
            · rw [chargedCount_snoc_other _ _ _ (fun m' h hd' => by cases h; rw [ho] at hd'; cases hd')]
              exact hS.done k hk
            · rw [chargedCount_snoc_other _ _ _ (fun m' h hd' => by cases h; rw [ho] at hd'; cases hd')]
              rcases List.mem_cons.mp hk with rfl | hk
              · -- the key interrupted right now: nothing of it is in flight
                have hqk : keyInFlight s k = false := by
                  have hop : a = Act.feed m := by
                    cases a <;> simp [batOpOf] at hb
                    rw [hb]
                  rw [hop] at hqa
                  simp only [quietAt, hc, ho] at hqa
                  simpa using hqa
                obtain ⟨z1, z2, z3, z4⟩ := keyInFlight_false hqk
                have h1 := hF.flow.num k
                have h2 := hF.charges k
                unfold chargedCount
                omega
              · exact hS.done k hk
      | none =>
        obtain ⟨hops, new, htr, hnewc⟩ := stepLive_nonbat (cfg := ⟨K, bcfg⟩) (s := s) hb
        rw [hops, hgsF] at hgsF'; cases hgsF'
        have hnot := fun k hk => intr_not_in_wchan hF hS (k := k) hk
        refine sf_extend hF' hS (fun k hk => hk) new htr ?_ ?_
        · intro op' hop' k hk hin
          rcases hnewc with rfl | ⟨t, rest, hw, rfl⟩ | rfl
          · cases hop'
          · obtain ⟨x, hx, rfl⟩ := List.mem_map.mp hop'
            simp only [writtenOp, Ledger.Op.key?, Option.some.injEq] at hk
            exact hnot k hin t (by rw [hw]; simp) x hx hk
          · simp at hop'; subst hop'; simp [Ledger.Op.key?] at hk
        · intro k hk
          rw [htr, hops, wsum_append]
          have : wsum new k = 0 := by
            rcases hnewc with rfl | ⟨t, rest, hw, rfl⟩ | rfl
            · rfl
            · exact wsum_written_zero t k (hnot k hk t (by rw [hw]; simp))
            · rfl
          rw [this, Nat.add_zero]
          exact hS.done k hk

end PgBifrost.Sys
