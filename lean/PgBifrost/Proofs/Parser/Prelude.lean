import PgBifrost.Proofs.Parser.Tuple
/-! Round trip of the prelude `table <relation>: <OPERATION>:` and assembly of whole messages. -/
namespace PgBifrost.Parser
open PgBifrost.TestDecoding

def st0 : St := { cur := .relation, tokenStart := 6 }

/-- from the start of the loop to the pass at the colon after the operation (`T'` = what follows it) -/
theorem loop_to_op' {msg : Bytes} {p : Bool} {res : Res} {rel op T' : Bytes}
    (hmsg : msg = bTablePfx ++ (rel ++ 58 :: 32 :: (op ++ 58 :: T')))
    (hrel : Scan .relation rel) (hop : ∀ c ∈ op, inert .operation c = true) :
    ∃ pv, (pv = .initial ∨ pv = .null) ∧
      msg.drop (6 + rel.length + 2 + op.length) = 58 :: T' ∧
      slice? msg (6 + rel.length + 2) (6 + rel.length + 2 + op.length) = some op ∧
      loop msg p 0 st0 res =
        (stepC msg p (6 + rel.length + 2 + op.length) 58 (hd T')
          { cur := .operation, prev := pv, tokenStart := 6 + rel.length + 2 }
          { res with relation := rel }).next msg p (6 + rel.length + 2 + op.length) := by
  have hd6 : msg.drop 6 = rel ++ (58 :: 32 :: (op ++ 58 :: T')) := by
    simp [hmsg, bTablePfx, bTable]
  have hlen6 : 6 ≤ msg.length := by simp [hmsg, bTablePfx, bTable]
  obtain ⟨pv, hpv, he1⟩ := hrel msg p 6 _ st0 res hd6 (by simp) rfl (by simp [st0])
  have hd7 := drop_add hd6
  have hs1 : slice? msg 6 (6 + rel.length) = some rel := slice?_tok hd6 hlen6
  have hst1 : stepC msg p (6 + rel.length) 58 (hd (32 :: (op ++ 58 :: T'))) { cur := .relation, prev := pv, tokenStart := 6 } res =
      .cont false { cur := .operation, prev := pv, tokenStart := 6 + rel.length + 2 } { res with relation := rel } := by
    simp [stepC, hs1]
  have hd8 : msg.drop (6 + rel.length + 2) = op ++ (58 :: T') := drop_succ2 hd7
  have hlt := drop_lt_length (drop_succ hd7)
  have hs2 : slice? msg (6 + rel.length + 2) (6 + rel.length + 2 + op.length) = some op :=
    slice?_tok hd8 (by omega)
  have hl2 := loop_inert (msg := msg) (p := p)
    (st := { cur := .operation, prev := pv, tokenStart := 6 + rel.length + 2 })
    (res := { res with relation := rel }) op _ _ hd8 (by simp) (by simpa using hop)
  have hd9 := drop_add hd8
  refine ⟨pv, ?_, hd9, hs2, ?_⟩
  · simpa [st0] using hpv
  · rw [loop_jump (by omega) (by simp [st0])]
    simp only [st0] at he1 ⊢
    rw [he1, loop_step hd7 (by simp), hst1]
    simp only [StepR.next, Bool.false_eq_true, if_false]
    rw [loop_jump (by omega) (by simp), hl2, loop_step hd9 (by simp)]
    simp only [StepR.next]

theorem loop_to_op {msg : Bytes} {p : Bool} {res : Res} {rel op T : Bytes}
    (hmsg : msg = bTablePfx ++ (rel ++ 58 :: 32 :: (op ++ 58 :: 32 :: T)))
    (hrel : Scan .relation rel) (hop : ∀ c ∈ op, inert .operation c = true) :
    ∃ pv, (pv = .initial ∨ pv = .null) ∧
      msg.drop (6 + rel.length + 2 + op.length) = 58 :: 32 :: T ∧
      slice? msg (6 + rel.length + 2) (6 + rel.length + 2 + op.length) = some op ∧
      loop msg p 0 st0 res =
        (stepC msg p (6 + rel.length + 2 + op.length) 58 32
          { cur := .operation, prev := pv, tokenStart := 6 + rel.length + 2 }
          { res with relation := rel }).next msg p (6 + rel.length + 2 + op.length) := by
  simpa using loop_to_op' (p := p) (res := res) hmsg hrel hop

/-- the operation's colon not followed by a space: `invalid character` (:173) -/
theorem loop_prelude_nospace {msg : Bytes} {p : Bool} {res : Res} {rel op T' : Bytes}
    (hmsg : msg = bTablePfx ++ (rel ++ 58 :: 32 :: (op ++ 58 :: T')))
    (hrel : Scan .relation rel) (hop : ∀ c ∈ op, inert .operation c = true) (hT : hd T' ≠ 32) :
    loop msg p 0 st0 res = .err .invalidChar := by
  obtain ⟨pv, _, _, hs, he⟩ := loop_to_op' (p := p) (res := res) hmsg hrel hop
  rw [he]
  simp [stepC, hT, StepR.next]

theorem loop_prelude_truncate {msg : Bytes} {p : Bool} {res : Res} {rel T : Bytes}
    (hmsg : msg = bTablePfx ++ (rel ++ 58 :: 32 :: (bTRUNCATE ++ 58 :: 32 :: T)))
    (hrel : Scan .relation rel) :
    loop msg p 0 st0 res = .ok { res with relation := rel, operation := bTRUNCATE } := by
  obtain ⟨pv, _, _, hs, he⟩ := loop_to_op (p := p) (res := res) hmsg hrel (by decide)
  rw [he]
  simp [stepC, hs, StepR.next, finish]

theorem loop_prelude_true {msg : Bytes} {res : Res} {rel op T : Bytes}
    (hmsg : msg = bTablePfx ++ (rel ++ 58 :: 32 :: (op ++ 58 :: 32 :: T)))
    (hrel : Scan .relation rel) (hop : ∀ c ∈ op, inert .operation c = true) (hnt : op ≠ bTRUNCATE) :
    loop msg true 0 st0 res = .ok { res with relation := rel, operation := op } := by
  obtain ⟨pv, _, _, hs, he⟩ := loop_to_op (p := true) (res := res) hmsg hrel hop
  rw [he]
  simp [stepC, hs, StepR.next, finish, hnt]

theorem loop_prelude_false {msg : Bytes} {res : Res} {rel op T : Bytes}
    (hmsg : msg = bTablePfx ++ (rel ++ 58 :: 32 :: (op ++ 58 :: 32 :: T)))
    (hrel : Scan .relation rel) (hop : ∀ c ∈ op, inert .operation c = true) (hnt : op ≠ bTRUNCATE) :
    ∃ st', Ready st' (6 + rel.length + 2 + op.length + 2) false ∧
      msg.drop (6 + rel.length + 2 + op.length + 2) = T ∧
      loop msg false 0 st0 res =
        loop msg false (6 + rel.length + 2 + op.length + 2) st' { res with relation := rel, operation := op } := by
  obtain ⟨pv, hpv, hd, hs, he⟩ := loop_to_op (p := false) (res := res) hmsg hrel hop
  have hlt := drop_lt_length (drop_succ hd)
  refine ⟨{ cur := .colName, prev := pv, tokenStart := 6 + rel.length + 2 + op.length + 2 }, ?_, drop_succ2 hd, ?_⟩
  · refine ⟨rfl, rfl, ?_, rfl⟩
    rcases hpv with h | h <;> subst h <;> simp
  · rw [he]
    simp only [stepC, hs, StepR.next, hnt]
    simp only [if_true, if_false, Bool.false_eq_true, ne_eq, not_true_eq_false]
    rw [loop_jump (by omega) (by simp)]

end PgBifrost.Parser
