import PgBifrost.Model.Parser
/-! Index safety of the decoder model for every input (helper lemmas for `Props.C09.parse_total`). -/
namespace PgBifrost.Parser
set_option linter.unusedSimpArgs false

theorem finish_ne_panic (p : Bool) (st : St) (res : Res) : finish p st res ≠ .panic := by
  unfold finish; split
  · simp
  · split <;> simp

theorem slice?_some {msg : Bytes} {a b : Nat} (h1 : a ≤ b) (h2 : b ≤ msg.length) :
    slice? msg a b = some ((msg.take b).drop a) := by
  unfold slice?; simp [h1, h2]

theorem valueTok?_bare (msg : Bytes) (ts i : Nat) : valueTok? msg false ts i = slice? msg ts i := by
  simp [valueTok?]

theorem index?_lt {msg : Bytes} {n : Nat} (h : n < msg.length) : index? msg n = some (msg.getD n 0) := by
  simp [index?, List.getD_eq_getElem?_getD, List.getElem?_eq_getElem h]

/-- the cut of a quoted value is in range as soon as the token holds an opening and a closing quote
(`ts + 2 ≤ i`) and, when it starts with `B` (so that the opening quote is not its first byte),
one byte more -/
theorem valueTok?_quoted_some {msg : Bytes} {ts i : Nat} (h2 : ts + 2 ≤ i) (hi : i ≤ msg.length)
    (hB : msg.getD ts 0 = 66 → ts + 3 ≤ i) : ∃ tok, valueTok? msg true ts i = some tok := by
  unfold valueTok?
  rw [index?_lt (by omega)]
  simp only [if_true]
  by_cases hb : msg.getD ts 0 = 66
  · have := hB hb
    exact ⟨_, by rw [if_pos hb]; exact slice?_some (by omega) (by omega)⟩
  · exact ⟨_, by rw [if_neg hb]; exact slice?_some (by omega) (by omega)⟩

/-- quote-tracking invariant needed for the index expression `message[startStr]` and the slice
`message[startStr:endStr]` of a quoted value (the only ones whose bounds are not local): inside a
quoted section the opening quote lies at or after `TokenStart` — after it, if the token starts
with `B`; after the closing quote the loop index is one further. -/
def J (msg : Bytes) (i : Nat) (st : St) : Prop :=
  (st.cur = .colQuoted → st.prev = .colValue ∧ st.tokenStart + 1 ≤ i ∧
      (msg.getD st.tokenStart 0 = 66 → st.tokenStart + 2 ≤ i)) ∧
  (st.prev = .colQuoted → (st.cur = .colValue ∧ st.tokenStart + 2 ≤ i ∧
      (msg.getD st.tokenStart 0 = 66 → st.tokenStart + 3 ≤ i)) ∨ st.cur = .end_)

def StepR.Safe (msg : Bytes) (i : Nat) : StepR → Prop
  | .done o => o ≠ .panic
  | .cont skip st' _ => J msg (if skip then i + 2 else i + 1) st'

theorem step_safe (msg : Bytes) (p : Bool) (i : Nat) (st : St) (res : Res)
    (hi : i ≤ msg.length) (hts : st.tokenStart ≤ i) (hJ : J msg i st) :
    (step msg p i st res).Safe msg i := by
  obtain ⟨h1, h2⟩ := hJ
  have hs1 := slice?_some hts hi
  have hs2 := slice?_some (Nat.le_trans hts hi) (Nat.le_refl msg.length)
  -- an opening quote at `i` is not the `B` at `TokenStart`
  have hkey : chrAt msg i = 39 → msg.getD st.tokenStart 0 = 66 → st.tokenStart + 1 ≤ i := by
    intro hq hb
    rcases Nat.lt_or_ge st.tokenStart i with h | h
    · omega
    · have he : st.tokenStart = i := by omega
      rw [he] at hb; unfold chrAt at hq; rw [hq] at hb; exact absurd hb (by decide)
  unfold step stepC
  cases hc : st.cur <;> simp only [hs1, hs2]
  case colValue =>
    by_cases hq : st.prev = PS.colQuoted
    · rcases h2 hq with ⟨_, h, hB⟩ | h
      · obtain ⟨tok, hs3⟩ := valueTok?_quoted_some (msg := msg) h hi hB
        simp only [hq, decide_true, hs3]
        repeat' split
        all_goals (first | (simp_all [StepR.Safe, J, enter]; done) | (simp_all [StepR.Safe, J, enter]; omega))
      · rw [hc] at h; cases h
    · simp only [hq, decide_false, valueTok?_bare, hs1]
      repeat' split
      all_goals first
        | (simp_all [StepR.Safe, J, enter]; done)
        | (simp_all [StepR.Safe, J, enter]; omega)
        | (simp_all [StepR.Safe, J, enter]; intro hb; have := hkey hb; omega)
  all_goals (repeat' split)
  all_goals (try (exact finish_ne_panic _ _ _))
  all_goals (try (simp [StepR.Safe]; done))
  all_goals (try (simp_all [StepR.Safe, J, enter]; done))
  all_goals (try (simp_all [StepR.Safe, J, enter]; omega))

theorem loop_no_panic (msg : Bytes) (p : Bool) :
    ∀ i st res, J msg i st → loop msg p i st res ≠ .panic := by
  intro i st res
  fun_induction loop msg p i st res
  all_goals intro hJ
  case case1 ih =>
    apply ih
    obtain ⟨h1, h2⟩ := hJ
    constructor
    · intro hc; have := h1 hc; omega
    · intro hp
      rcases h2 hp with ⟨_, h, _⟩ | h
      · omega
      · exact Or.inr h
  case case2 i st res hi hts skip st' res' hstep ih =>
    have := step_safe msg p i st res hi (by omega) hJ
    rw [hstep] at this
    cases skip <;> simpa [StepR.Safe] using ih this
  case case3 i st res hi hts o hstep =>
    have := step_safe msg p i st res hi (by omega) hJ
    rw [hstep] at this
    exact this
  case case4 => exact finish_ne_panic _ _ _

theorem parseGo_ne_panic (msg : Bytes) (p : Bool) (res : Res) : parseGo msg p res ≠ .panic := by
  unfold parseGo
  split
  · simp
  · rename_i hsz
    rw [slice?_some (msg := msg) (a := 0) (b := 5) (by omega) (by omega)]
    simp only
    split
    · split <;> simp
    · split
      · apply loop_no_panic
        constructor <;> intro h <;> simp at h
      · simp

theorem parseIdx_ne_panic (msg : Bytes) : parseIdx msg ≠ .panic := by
  unfold parseIdx
  split
  · exact parseGo_ne_panic _ _ _
  · rename_i o hne
    cases h : parseGo msg true {} with
    | ok r => exact absurd h (hne r)
    | err k => simp
    | panic => exact absurd h (parseGo_ne_panic _ _ _)

/-! ### the error "invalid parse State null" (:157) is unreachable -/

/-- nested states always remember a proper state to return to -/
def K (st : St) : Prop :=
  st.cur ≠ .null ∧
  (st.cur = .escId → st.prev = .relation ∨ st.prev = .colName ∨ st.prev = .colType) ∧
  (st.cur = .openSq → st.prev = .colType) ∧
  (st.cur = .colQuoted → st.prev = .colValue)

def StepR.NoNull : StepR → Prop
  | .done o => o ≠ .err .nullState
  | .cont _ st' _ => K st'

theorem finish_ne_null (p : Bool) (st : St) (res : Res) : finish p st res ≠ .err .nullState := by
  unfold finish; split
  · simp
  · split <;> simp

theorem step_noNull (msg : Bytes) (p : Bool) (i : Nat) (st : St) (res : Res) (hK : K st) :
    (step msg p i st res).NoNull := by
  obtain ⟨h0, h1, h2, h3⟩ := hK
  unfold step stepC
  cases hc : st.cur <;> simp only []
  all_goals (repeat' split)
  all_goals (try (exact finish_ne_null _ _ _))
  all_goals (try (simp [StepR.NoNull]; done))
  all_goals (try (simp_all [StepR.NoNull, K, enter]; done))
  case escId.isTrue.isFalse =>
    rcases h1 hc with h | h | h <;> simp [StepR.NoNull, K, h]

theorem loop_noNull (msg : Bytes) (p : Bool) :
    ∀ i st res, K st → loop msg p i st res ≠ .err .nullState := by
  intro i st res
  fun_induction loop msg p i st res
  all_goals intro hK
  case case1 ih => exact ih hK
  case case2 i st res hi hts skip st' res' hstep ih =>
    have := step_noNull msg p i st res hK
    rw [hstep] at this
    cases skip <;> simpa [StepR.NoNull] using ih this
  case case3 i st res hi hts o hstep =>
    have := step_noNull msg p i st res hK
    rw [hstep] at this
    exact this
  case case4 => exact finish_ne_null _ _ _

theorem parseGo_ne_null (msg : Bytes) (p : Bool) (res : Res) : parseGo msg p res ≠ .err .nullState := by
  unfold parseGo
  split
  · simp
  · split
    · simp
    · split
      · split <;> simp
      · split
        · apply loop_noNull
          refine ⟨by simp, ?_, ?_, ?_⟩ <;> intro h <;> simp at h
        · simp

theorem parseIdx_ne_null (msg : Bytes) : parseIdx msg ≠ .err .nullState := by
  unfold parseIdx
  split
  · exact parseGo_ne_null _ _ _
  · rename_i o hne
    cases h : parseGo msg true {} with
    | ok r => exact absurd h (hne r)
    | err k => intro hk; injection hk with hk; subst hk; exact parseGo_ne_null _ _ _ h
    | panic => intro h'; cases h'

end PgBifrost.Parser
