import PgBifrost.Model.Parser
/-! Index safety of the decoder model for every input (helper lemmas for `Props.C09.parse_total`). -/
namespace PgBifrost.Parser
set_option linter.unusedSimpArgs false

theorem finish_ne_panic (p : Bool) (st : St) (res : Res) : finish p st res ≠ .panic := by
  unfold finish; split
  · simp
  · split <;> simp

theorem slice?_some {msg : Bytes} {a b : Nat} (h1 : a ≤ b) (h2 : b ≤ msg.length) :
    slice? msg a b = some ((msg.take b).drop a) := by
  unfold slice?; simp [h1, h2]

/-- quote-tracking invariant needed for the only slice whose bounds are not local (`:233`) -/
def J (i : Nat) (st : St) : Prop :=
  (st.cur = .colQuoted → st.prev = .colValue ∧ st.tokenStart + 1 ≤ i) ∧
  (st.prev = .colQuoted → (st.cur = .colValue ∧ st.tokenStart + 2 ≤ i) ∨ st.cur = .end_)

def StepR.Safe (i : Nat) : StepR → Prop
  | .done o => o ≠ .panic
  | .cont skip st' _ => J (if skip then i + 2 else i + 1) st'

theorem step_safe (msg : Bytes) (p : Bool) (i : Nat) (st : St) (res : Res)
    (hi : i ≤ msg.length) (hts : st.tokenStart ≤ i) (hJ : J i st) :
    (step msg p i st res).Safe i := by
  obtain ⟨h1, h2⟩ := hJ
  have hs1 := slice?_some hts hi
  have hs2 := slice?_some (Nat.le_trans hts hi) (Nat.le_refl msg.length)
  unfold step stepC
  cases hc : st.cur <;> simp only [hs1, hs2]
  case colValue =>
    by_cases hq : st.prev = PS.colQuoted
    · rcases h2 hq with ⟨_, h⟩ | h
      · have hs3 := slice?_some (msg := msg) (a := st.tokenStart + 1) (b := i - 1) (by omega) (by omega)
        simp only [hq, decide_true, if_true, hs3]
        repeat' split
        all_goals (first | (simp_all [StepR.Safe, J, enter]; done) | (simp_all [StepR.Safe, J, enter]; omega))
      · rw [hc] at h; cases h
    · simp only [hq, decide_false, Bool.false_eq_true, if_false, hs1]
      repeat' split
      all_goals (first | (simp_all [StepR.Safe, J, enter]; done) | (simp_all [StepR.Safe, J, enter]; omega))
  all_goals (repeat' split)
  all_goals (try (exact finish_ne_panic _ _ _))
  all_goals (try (simp [StepR.Safe]; done))
  all_goals (try (simp_all [StepR.Safe, J, enter]; done))
  all_goals (try (simp_all [StepR.Safe, J, enter]; omega))

theorem loop_no_panic (msg : Bytes) (p : Bool) :
    ∀ i st res, J i st → loop msg p i st res ≠ .panic := by
  intro i st res
  fun_induction loop msg p i st res
  all_goals intro hJ
  case case1 ih =>
    apply ih
    obtain ⟨h1, h2⟩ := hJ
    constructor
    · intro hc; have := h1 hc; omega
    · intro hp
      rcases h2 hp with ⟨_, h⟩ | h
      · omega
      · exact Or.inr h
  case case2 i st res hi hts skip st' res' hstep ih =>
    have := step_safe msg p i st res hi (by omega) hJ
    rw [hstep] at this
    cases skip <;> simpa [StepR.Safe] using ih this
  case case3 i st res hi hts o hstep =>
    have := step_safe msg p i st res hi (by omega) hJ
    rw [hstep] at this
    exact this
  case case4 => exact finish_ne_panic _ _ _

theorem parseGo_ne_panic (msg : Bytes) (p : Bool) (res : Res) : parseGo msg p res ≠ .panic := by
  unfold parseGo
  split
  · simp
  · rename_i hsz
    rw [slice?_some (msg := msg) (a := 0) (b := 5) (by omega) (by omega)]
    simp only
    split
    · split <;> simp
    · split
      · apply loop_no_panic
        constructor <;> intro h <;> simp at h
      · simp

theorem parseIdx_ne_panic (msg : Bytes) : parseIdx msg ≠ .panic := by
  unfold parseIdx
  split
  · exact parseGo_ne_panic _ _ _
  · rename_i o hne
    cases h : parseGo msg true {} with
    | ok r => exact absurd h (hne r)
    | err k => simp
    | panic => exact absurd h (parseGo_ne_panic _ _ _)

/-! ### the error "invalid parse State null" (:157) is unreachable -/

/-- nested states always remember a proper state to return to -/
def K (st : St) : Prop :=
  st.cur ≠ .null ∧
  (st.cur = .escId → st.prev = .relation ∨ st.prev = .colName ∨ st.prev = .colType) ∧
  (st.cur = .openSq → st.prev = .colType) ∧
  (st.cur = .colQuoted → st.prev = .colValue)

def StepR.NoNull : StepR → Prop
  | .done o => o ≠ .err .nullState
  | .cont _ st' _ => K st'

theorem finish_ne_null (p : Bool) (st : St) (res : Res) : finish p st res ≠ .err .nullState := by
  unfold finish; split
  · simp
  · split <;> simp

theorem step_noNull (msg : Bytes) (p : Bool) (i : Nat) (st : St) (res : Res) (hK : K st) :
    (step msg p i st res).NoNull := by
  obtain ⟨h0, h1, h2, h3⟩ := hK
  unfold step stepC
  cases hc : st.cur <;> simp only []
  all_goals (repeat' split)
  all_goals (try (exact finish_ne_null _ _ _))
  all_goals (try (simp [StepR.NoNull]; done))
  all_goals (try (simp_all [StepR.NoNull, K, enter]; done))
  case escId.isTrue.isFalse =>
    rcases h1 hc with h | h | h <;> simp [StepR.NoNull, K, h]

theorem loop_noNull (msg : Bytes) (p : Bool) :
    ∀ i st res, K st → loop msg p i st res ≠ .err .nullState := by
  intro i st res
  fun_induction loop msg p i st res
  all_goals intro hK
  case case1 ih => exact ih hK
  case case2 i st res hi hts skip st' res' hstep ih =>
    have := step_noNull msg p i st res hK
    rw [hstep] at this
    cases skip <;> simpa [StepR.NoNull] using ih this
  case case3 i st res hi hts o hstep =>
    have := step_noNull msg p i st res hK
    rw [hstep] at this
    exact this
  case case4 => exact finish_ne_null _ _ _

theorem parseGo_ne_null (msg : Bytes) (p : Bool) (res : Res) : parseGo msg p res ≠ .err .nullState := by
  unfold parseGo
  split
  · simp
  · split
    · simp
    · split
      · split <;> simp
      · split
        · apply loop_noNull
          refine ⟨by simp, ?_, ?_, ?_⟩ <;> intro h <;> simp at h
        · simp

theorem parseIdx_ne_null (msg : Bytes) : parseIdx msg ≠ .err .nullState := by
  unfold parseIdx
  split
  · exact parseGo_ne_null _ _ _
  · rename_i o hne
    cases h : parseGo msg true {} with
    | ok r => exact absurd h (hne r)
    | err k => intro hk; injection hk with hk; subst hk; exact parseGo_ne_null _ _ _ h
    | panic => intro h'; cases h'

end PgBifrost.Parser
