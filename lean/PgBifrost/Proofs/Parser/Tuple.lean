import PgBifrost.Proofs.Parser.Column
/-! Round trip of the tuple section: attribute lists, `old-key:` / `new-tuple:` labels, `(no-tuple-data)`. -/
namespace PgBifrost.Parser
open PgBifrost.TestDecoding

/-- attributes each FOLLOWED by a space (the form in which the loop meets all but the last one) -/
def colsSp (cs : List Col) : Bytes := cs.flatMap fun c => colBody c ++ [32]

def addCols (res : Res) (ok : Bool) (cs : List Col) : Res :=
  cs.foldl (fun r c => addCol r ok (cvOf c).1 (cvOf c).2) res

theorem renderCols_snoc (cs : List Col) (c : Col) :
    renderCols (cs ++ [c]) = 32 :: (colsSp cs ++ colBody c) := by
  induction cs with
  | nil => simp [renderCols, colsSp]
  | cons d cs ih =>
    have : renderCols (d :: cs ++ [c]) = 32 :: colBody d ++ renderCols (cs ++ [c]) := by
      simp [renderCols]
    rw [this, ih]; simp [colsSp]

theorem renderCols_sp (cs : List Col) : renderCols cs ++ [32] = 32 :: colsSp cs := by
  induction cs with
  | nil => simp [renderCols, colsSp]
  | cons d cs ih =>
    have : renderCols (d :: cs) ++ [32] = 32 :: colBody d ++ (renderCols cs ++ [32]) := by
      simp [renderCols]
    rw [this, ih]; simp [colsSp]

theorem loop_cols {msg : Bytes} {ok : Bool} :
    ∀ (cs : List Col) (i : Nat) (st : St) (res : Res) (rest : Bytes),
      msg.drop i = colsSp cs ++ rest → Ready st i ok →
      (∀ c ∈ cs, c.wf = true) →
      ∃ st', Ready st' (i + (colsSp cs).length) ok ∧
        loop msg false i st res = loop msg false (i + (colsSp cs).length) st' (addCols res ok cs) := by
  intro cs
  induction cs with
  | nil => intro i st res rest _ hR _; exact ⟨st, by simpa [colsSp] using hR, by simp [colsSp, addCols]⟩
  | cons c cs ih =>
    intro i st res rest hm hR hwf
    have hm' : msg.drop i = colBody c ++ (32 :: (colsSp cs ++ rest)) := by simpa [colsSp] using hm
    have hc := hwf c (by simp)
    obtain ⟨_, h2⟩ := loop_col (res := res) hm' hR (Or.inr ⟨_, rfl⟩) hc
    obtain ⟨st1, hR1, he1⟩ := h2 _ rfl
    have hd1 : msg.drop (i + (colBody c).length + 1) = colsSp cs ++ rest := drop_succ (drop_add hm')
    obtain ⟨st2, hR2, he2⟩ := ih (i + (colBody c).length + 1) st1
      (addCol res ok (cvOf c).1 (cvOf c).2) rest hd1 hR1 (fun d hd => hwf d (by simp [hd]))
    have hlen : i + (colsSp (c :: cs)).length = i + (colBody c).length + 1 + (colsSp cs).length := by
      simp [colsSp]; omega
    refine ⟨st2, by rw [hlen]; exact hR2, ?_⟩
    rw [he1, he2, hlen]; rfl

/-- once in the end state nothing happens any more -/
theorem loop_end {msg : Bytes} {i : Nat} {st : St} {res : Res} (hc : st.cur = .end_)
    (hts : st.tokenStart ≤ i) : loop msg false i st res = .ok res := by
  rcases Nat.lt_or_ge msg.length i with h | h
  · rw [loop_past h]; simp [finish, hc]
  · have hl := loop_inert (msg := msg) (p := false) (st := st) (res := res) (msg.drop i) i [] (by simp) hts
      (by intro c _; simp [hc, inert])
    have hlen : i + (msg.drop i).length = msg.length := by simp; omega
    rw [hl, hlen, loop_step_end (by omega)]
    have : stepC msg false msg.length 0 0 st res = .cont false st res := stepC_inert (by simp [hc, inert])
    rw [this]
    simp only [StepR.next, Bool.false_eq_true, if_false]
    rw [loop_past (by omega)]; simp [finish, hc]

theorem loop_noTuple {msg : Bytes} {i : Nat} {st : St} {res : Res} {ok : Bool}
    (hm : msg.drop i = bNoTupleData) (hR : Ready st i ok) :
    loop msg false i st res = .ok { res with noTuple := true } := by
  obtain ⟨hcur, hts, _, _⟩ := hR
  have hm' : msg.drop i = 40 :: bNoTupleData.tail := hm
  have hi := drop_lt_length hm'
  have hs : slice? msg st.tokenStart msg.length = some bNoTupleData := by
    rw [hts]; exact slice?_to_end hm (by omega)
  have : stepC msg false i 40 (hd bNoTupleData.tail) st res =
      .cont false { st with cur := .end_ } { res with noTuple := true } := by
    simp [stepC, hcur, hs]
  rw [loop_step hm' (by omega), this]
  simp only [StepR.next, Bool.false_eq_true, if_false]
  exact loop_end rfl (by simp; omega)

/-- a label `old-key:` / `new-tuple:` and the byte after its colon (skipped through `TokenStart`) -/
theorem loop_label {msg : Bytes} {i : Nat} {st : St} {res : Res} {ok : Bool} {lbl rest : Bytes} {x : UInt8}
    (hm : msg.drop i = lbl ++ 58 :: x :: rest) (hR : Ready st i ok)
    (hin : ∀ c ∈ lbl, inert .colName c = true) :
    ∃ st', Ready st' (i + lbl.length + 2)
        (if lbl = bOldKey then true else if lbl = bNewTuple then false else ok) ∧
      loop msg false i st res = loop msg false (i + lbl.length + 2) st' res := by
  obtain ⟨hcur, hts, hp, hok⟩ := hR
  have hilen : i ≤ msg.length := by
    rcases Nat.lt_or_ge msg.length i with h | h
    · rw [List.drop_of_length_le (by omega)] at hm
      have := congrArg List.length hm; simp at this
    · exact h
  have hl := loop_inert (msg := msg) (p := false) (st := st) (res := res) lbl i _ hm (by omega)
    (by rw [hcur]; exact hin)
  have hd1 := drop_add hm
  have hs : slice? msg st.tokenStart (i + lbl.length) = some lbl := by rw [hts]; exact slice?_tok hm hilen
  have hstep : stepC msg false (i + lbl.length) 58 (hd (x :: rest)) st res =
      .cont false { st with oldKey := if lbl = bOldKey then true else if lbl = bNewTuple then false else st.oldKey,
                            tokenStart := i + lbl.length + 2 } res := by
    simp [stepC, hcur, hs]
  have hlt := drop_lt_length (drop_succ hd1)
  refine ⟨{ st with oldKey := if lbl = bOldKey then true else if lbl = bNewTuple then false else st.oldKey,
                       tokenStart := i + lbl.length + 2 }, ?_, ?_⟩
  rotate_left
  · rw [hl, loop_step hd1 (by omega), hstep]
    simp only [StepR.next, Bool.false_eq_true, if_false]
    rw [loop_jump (by omega) (by simp)]
  · simp [Ready, hcur, hp, hok]

def tupRes (res : Res) (ok : Bool) : Option (List Col) → Res
  | none => { res with noTuple := true }
  | some cs => addCols res ok cs

def oldRes (res : Res) : Option (List Col) → Res
  | none => res
  | some cs => addCols res true cs

theorem tupWf_some {cs : List Col} (h : tupWf (some cs) = true) :
    (∀ c ∈ cs, c.wf = true) ∧ nodupNames cs = true ∧ cs ≠ [] := by
  simp only [tupWf, Bool.and_eq_true, List.all_eq_true, Bool.not_eq_true', List.isEmpty_eq_false_iff] at h
  exact ⟨h.1.1, h.1.2, h.2⟩

/-- the last tuple of a message (everything after its leading space) -/
theorem loop_tup {msg : Bytes} {i : Nat} {st : St} {res : Res} {ok : Bool} (new : Option (List Col))
    (X : Bytes) (hX : renderTup new = 32 :: X) (hm : msg.drop i = X) (hR : Ready st i ok)
    (hwf : tupWf new = true) :
    loop msg false i st res = .ok (tupRes res ok new) := by
  cases new with
  | none =>
    have : X = bNoTupleData := by
      simp only [renderTup, bNoTuple] at hX; injection hX with _ h; exact h.symm
    subst this
    exact loop_noTuple hm hR
  | some cs =>
    obtain ⟨hw, _, hne⟩ := tupWf_some hwf
    obtain ⟨ini, last, rfl⟩ : ∃ ini last, cs = ini ++ [last] :=
      ⟨cs.dropLast, cs.getLast hne, (List.dropLast_concat_getLast hne).symm⟩
    have hX' : X = colsSp ini ++ colBody last := by
      simp only [renderTup, renderCols_snoc] at hX; injection hX with _ h; exact h.symm
    subst hX'
    obtain ⟨st1, hR1, he1⟩ := loop_cols (msg := msg) (ok := ok) ini i st res (colBody last) hm hR
      (fun c hc => hw c (by simp [hc]))
    have hd1 : msg.drop (i + (colsSp ini).length) = colBody last ++ [] := by
      simpa using drop_add hm
    obtain ⟨h1, _⟩ := loop_col (res := addCols res ok ini) hd1 hR1 (Or.inl rfl) (hw last (by simp))
    rw [he1, h1 rfl]
    simp [tupRes, addCols, List.foldl_append]

/-- everything after the colon of the operation, given that the tuple starts with a space -/
def tailOf (old : Option (List Col)) (X : Bytes) : Bytes :=
  match old with
  | none => X
  | some cs => bOldKey ++ 58 :: 32 :: (colsSp cs ++ (bNewTuple ++ 58 :: 32 :: X))

theorem tail_eq (old new : Option (List Col)) (X : Bytes) (hX : renderTup new = 32 :: X) :
    renderOld old ++ renderTup new = 32 :: tailOf old X := by
  cases old with
  | none => simp [renderOld, tailOf, hX]
  | some cs =>
    have h := renderCols_sp cs
    have h2 : ∀ Y : Bytes, renderCols cs ++ 32 :: Y = 32 :: (colsSp cs ++ Y) := by
      intro Y
      rw [show renderCols cs ++ 32 :: Y = (renderCols cs ++ [32]) ++ Y by simp, h]; simp
    simp only [renderOld, tailOf, bOldKeyLbl, bNewTupleLbl, hX]
    simp only [List.cons_append, List.append_assoc, List.nil_append, h2]

theorem oldWf_some {cs : List Col} (h : oldWf (some cs) = true) : ∀ c ∈ cs, c.wf = true := by
  simp only [oldWf, Bool.and_eq_true, List.all_eq_true] at h
  exact h.1

/-- the whole tuple section (optional old-key section, then the tuple) -/
theorem loop_tail {msg : Bytes} {i : Nat} {st : St} {res : Res} (old new : Option (List Col))
    (X : Bytes) (hX : renderTup new = 32 :: X) (hm : msg.drop i = tailOf old X) (hR : Ready st i false)
    (hwo : oldWf old = true) (hwf : tupWf new = true) :
    loop msg false i st res = .ok (tupRes (oldRes res old) false new) := by
  cases old with
  | none => exact loop_tup new X hX hm hR hwf
  | some cs =>
    simp only [tailOf] at hm
    obtain ⟨st1, hR1, he1⟩ := loop_label (res := res) hm hR (by decide)
    simp only [if_true] at hR1
    have hd1 : msg.drop (i + bOldKey.length + 2) = colsSp cs ++ (bNewTuple ++ 58 :: 32 :: X) :=
      drop_succ2 (drop_add hm)
    obtain ⟨st2, hR2, he2⟩ := loop_cols (msg := msg) (ok := true) cs _ st1 res _ hd1 hR1
      (fun c hc => oldWf_some hwo c hc)
    have hd2 := drop_add hd1
    obtain ⟨st3, hR3, he3⟩ := loop_label (res := addCols res true cs) hd2 hR2 (by decide)
    have hf : (if bNewTuple = bOldKey then true else if bNewTuple = bNewTuple then false else true) = false := by
      decide
    rw [hf] at hR3
    have hd3 := drop_succ2 (drop_add hd2)
    rw [he1, he2, he3]
    exact loop_tup new X hX hd3 hR3 hwf

end PgBifrost.Parser
