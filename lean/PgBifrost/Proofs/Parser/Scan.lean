import PgBifrost.Model.TestDecoding
/-! Stepping lemmas for the index-faithful decoder loop: positions are described by
`msg.drop i = segment ++ rest`. -/
namespace PgBifrost.Parser
open PgBifrost.TestDecoding

theorem drop_lt_length {msg : Bytes} {i : Nat} {c : UInt8} {r : Bytes} (h : msg.drop i = c :: r) :
    i < msg.length := by
  rcases Nat.lt_or_ge i msg.length with h' | h'
  · exact h'
  · rw [List.drop_of_length_le h'] at h; cases h

/-- look-ahead byte: head of the remaining input, NUL at the end -/
def hd (l : Bytes) : UInt8 := l.getD 0 0
@[simp] theorem hd_cons (c : UInt8) (r : Bytes) : hd (c :: r) = c := rfl
@[simp] theorem hd_nil : hd [] = 0 := rfl
@[simp] theorem hd_cons_append (c : UInt8) (r s : Bytes) : hd (c :: r ++ s) = c := rfl

theorem drop_succ2 {msg : Bytes} {i : Nat} {c d : UInt8} {r : Bytes} (h : msg.drop i = c :: d :: r) :
    msg.drop (i + 2) = r := by
  rw [← List.drop_drop, h]; rfl

theorem drop_succ {msg : Bytes} {i : Nat} {c : UInt8} {r : Bytes} (h : msg.drop i = c :: r) :
    msg.drop (i + 1) = r := by
  rw [← List.drop_drop, h]; rfl

theorem drop_add {msg : Bytes} {i : Nat} {s r : Bytes} (h : msg.drop i = s ++ r) :
    msg.drop (i + s.length) = r := by
  rw [← List.drop_drop, h]; simp

theorem chrAt_of_drop {msg : Bytes} {i : Nat} {c : UInt8} {r : Bytes} (h : msg.drop i = c :: r) :
    chrAt msg i = c := by
  have := congrArg (fun l => l.getD 0 0) h
  simpa [chrAt, List.getD_eq_getElem?_getD, List.getElem?_drop] using this

theorem chrAt_succ_of_drop {msg : Bytes} {i : Nat} {c : UInt8} {r : Bytes} (h : msg.drop i = c :: r) :
    chrAt msg (i + 1) = hd r := by
  have := congrArg (fun l => l.getD 1 0) h
  simpa [hd, chrAt, List.getD_eq_getElem?_getD, List.getElem?_drop] using this

theorem chrAt_ge {msg : Bytes} {i : Nat} (h : msg.length ≤ i) : chrAt msg i = 0 := by
  simp [chrAt, List.getD_eq_getElem?_getD, List.getElem?_eq_none h]

/-- the token between `ts` and `ts + |tok|` -/
theorem slice?_tok {msg : Bytes} {ts : Nat} {tok r : Bytes} (h : msg.drop ts = tok ++ r)
    (hts : ts ≤ msg.length) : slice? msg ts (ts + tok.length) = some tok := by
  have hlen : ts + tok.length ≤ msg.length := by
    have := congrArg List.length h
    simp at this; omega
  unfold slice?
  rw [if_pos ⟨by omega, hlen⟩, List.drop_take, h]
  simp

theorem slice?_to_end {msg : Bytes} {ts : Nat} {tok : Bytes} (h : msg.drop ts = tok)
    (hts : ts ≤ msg.length) : slice? msg ts msg.length = some tok := by
  unfold slice?
  rw [if_pos ⟨hts, Nat.le_refl _⟩]; simp [h]

/-- the cut of an unquoted value is the whole token -/
theorem valueTok?_unquoted (msg : Bytes) (ts i : Nat) : valueTok? msg false ts i = slice? msg ts i := by
  simp [valueTok?]

/-- the cut of a quoted value whose token starts with byte `b`: one byte in (the quote), two if `b = 'B'` -/
theorem valueTok?_quoted {msg : Bytes} {ts i : Nat} {b : UInt8} {r : Bytes} (h : msg.drop ts = b :: r) :
    valueTok? msg true ts i = slice? msg ((if b = 66 then ts + 1 else ts) + 1) (i - 1) := by
  have hb : index? msg ts = some b := by
    have := congrArg (fun l => l[0]?) h
    simpa [index?, List.getElem?_drop] using this
  simp [valueTok?, hb]

/-- what the loop does with the result of one pass at index `i` -/
def StepR.next (msg : Bytes) (p : Bool) (i : Nat) : StepR → Out
  | .cont skip st' res' => loop msg p (if skip then i + 2 else i + 1) st' res'
  | .done o => o

/-- one pass through the loop body at an index holding byte `c` -/
theorem loop_step {msg : Bytes} {p : Bool} {i : Nat} {st : St} {res : Res} {c : UInt8} {r : Bytes}
    (h : msg.drop i = c :: r) (hts : st.tokenStart ≤ i) :
    loop msg p i st res = (stepC msg p i c (hd r) st res).next msg p i := by
  have hi := drop_lt_length h
  rw [loop, dif_pos (by omega), dif_neg (by omega), step, chrAt_of_drop h, chrAt_succ_of_drop h]
  generalize stepC msg p i c (hd r) st res = s
  cases s <;> rfl

/-- the pass at `i = len(message)` (both look-ahead bytes are NUL) -/
theorem loop_step_end {msg : Bytes} {p : Bool} {st : St} {res : Res}
    (hts : st.tokenStart ≤ msg.length) :
    loop msg p msg.length st res = (stepC msg p msg.length 0 0 st res).next msg p msg.length := by
  rw [loop, dif_pos (Nat.le_refl _), dif_neg (by omega), step, chrAt_ge (Nat.le_refl _), chrAt_ge (by omega)]
  generalize stepC msg p msg.length 0 0 st res = s
  cases s <;> rfl

theorem loop_past {msg : Bytes} {p : Bool} {i : Nat} {st : St} {res : Res} (h : msg.length < i) :
    loop msg p i st res = finish p st res := by
  rw [loop, dif_neg (by omega)]

theorem loop_jump {msg : Bytes} {p : Bool} {i : Nat} {st : St} {res : Res}
    (hi : i ≤ msg.length) (h : i < st.tokenStart) :
    loop msg p i st res = loop msg p st.tokenStart st res := by
  rw [loop, dif_pos hi, dif_pos h]

/-- bytes on which the given state does nothing -/
def inert : PS → UInt8 → Bool
  | .relation, c => c != 58 && c != 34
  | .operation, c => c != 58
  | .colName, c => c != 91 && c != 58 && c != 40 && c != 34
  | .colType, c => c != 93 && c != 34 && c != 91
  | .colValue, c => c != 0 && c != 32 && c != 39
  | .openSq, c => c != 93
  | .escId, c => c != 34
  | .colQuoted, c => c != 39
  | .null, _ => false
  | _, _ => true

theorem stepC_inert {msg : Bytes} {p : Bool} {i : Nat} {c nxt : UInt8} {st : St} {res : Res}
    (h : inert st.cur c = true) : stepC msg p i c nxt st res = .cont false st res := by
  unfold stepC
  cases hc : st.cur <;> simp_all [inert]

theorem loop_inert {msg : Bytes} {p : Bool} {st : St} {res : Res} :
    ∀ (seg : Bytes) (i : Nat) (rest : Bytes), msg.drop i = seg ++ rest → st.tokenStart ≤ i →
      (∀ c ∈ seg, inert st.cur c = true) →
      loop msg p i st res = loop msg p (i + seg.length) st res := by
  intro seg
  induction seg with
  | nil => intros; rfl
  | cons c seg ih =>
    intro i rest h hts hin
    rw [loop_step (c := c) (r := seg ++ rest) (by simpa using h) hts,
      stepC_inert (hin c (by simp))]
    simp only [StepR.next, Bool.false_eq_true, if_false]
    rw [ih (i + 1) rest (drop_succ (by simpa using h)) (by omega) (fun c hc => hin c (by simp [hc]))]
    simp only [List.length_cons]
    congr 1; omega

/-- body of an escaped identifier, up to and including the closing `"` -/
theorem loop_esc_body {msg : Bytes} {p : Bool} {res : Res} :
    ∀ (s : Bytes) (i : Nat) (rest : Bytes) (st : St), msg.drop i = dbl 34 s ++ 34 :: rest →
      hd rest ≠ 34 → st.cur = .escId → st.tokenStart ≤ i →
      loop msg p i st res =
        loop msg p (i + (dbl 34 s).length + 1) { st with cur := st.prev, prev := .null } res := by
  intro s
  induction s with
  | nil =>
    intro i rest st h hn hc hts
    rw [loop_step (c := 34) (r := rest) (by simpa [dbl] using h) hts]
    simp [stepC, hc, hn, StepR.next, dbl]
  | cons c s ih =>
    intro i rest st h hn hc hts
    by_cases hq : c = 34
    · subst hq
      have h' : msg.drop i = 34 :: (34 :: (dbl 34 s ++ 34 :: rest)) := by simpa [dbl] using h
      rw [loop_step h' hts]
      simp only [stepC, hc, hd_cons, StepR.next, if_true]
      rw [ih (i + 2) rest st (drop_succ2 h') hn hc (by omega)]
      simp [dbl]; congr 1; omega
    · have h' : msg.drop i = c :: (dbl 34 s ++ 34 :: rest) := by simpa [dbl, hq] using h
      rw [loop_step h' hts, stepC_inert (by simp [inert, hc, hq])]
      simp only [StepR.next, Bool.false_eq_true, if_false]
      rw [ih (i + 1) rest st (drop_succ h') hn hc (by omega)]
      simp [dbl, hq]; congr 1; omega

/-- body of a quoted value, up to and including the closing `'` -/
theorem loop_sq_body {msg : Bytes} {p : Bool} {res : Res} :
    ∀ (s : Bytes) (i : Nat) (rest : Bytes) (st : St), msg.drop i = dbl 39 s ++ 39 :: rest →
      hd rest ≠ 39 → st.cur = .colQuoted → st.tokenStart ≤ i →
      loop msg p i st res =
        loop msg p (i + (dbl 39 s).length + 1) { st with prev := .colQuoted, cur := st.prev } res := by
  intro s
  induction s with
  | nil =>
    intro i rest st h hn hc hts
    rw [loop_step (c := 39) (r := rest) (by simpa [dbl] using h) hts]
    simp [stepC, hc, hn, StepR.next, dbl]
  | cons c s ih =>
    intro i rest st h hn hc hts
    by_cases hq : c = 39
    · subst hq
      have h' : msg.drop i = 39 :: (39 :: (dbl 39 s ++ 39 :: rest)) := by simpa [dbl] using h
      rw [loop_step h' hts]
      simp only [stepC, hc, hd_cons, StepR.next, if_true]
      rw [ih (i + 2) rest st (drop_succ2 h') hn hc (by omega)]
      simp [dbl]; congr 1; omega
    · have h' : msg.drop i = c :: (dbl 39 s ++ 39 :: rest) := by simpa [dbl, hq] using h
      rw [loop_step h' hts, stepC_inert (by simp [inert, hc, hq])]
      simp only [StepR.next, Bool.false_eq_true, if_false]
      rw [ih (i + 1) rest st (drop_succ h') hn hc (by omega)]
      simp [dbl, hq]; congr 1; omega

/-- the three states in which a `"` opens an escaped identifier -/
def IdState (S : PS) : Prop := S = .relation ∨ S = .colName ∨ S = .colType

/-- `s` is passed over in state `S` without any effect except possibly on `Prev`
(provided the byte after it is not a `"`) -/
def Scan (S : PS) (s : Bytes) : Prop :=
  ∀ (msg : Bytes) (p : Bool) (i : Nat) (rest : Bytes) (st : St) (res : Res),
    msg.drop i = s ++ rest → hd rest ≠ 34 → st.cur = S → st.tokenStart ≤ i →
    ∃ pv, (pv = st.prev ∨ pv = .null) ∧
      loop msg p i st res = loop msg p (i + s.length) { st with prev := pv } res

theorem Scan.nil (S : PS) : Scan S [] := by
  intro msg p i rest st res _ _ _ _
  exact ⟨st.prev, Or.inl rfl, rfl⟩

theorem Scan.of_inert {S : PS} {s : Bytes} (h : ∀ c ∈ s, inert S c = true) : Scan S s := by
  intro msg p i rest st res hm _ hc hts
  exact ⟨st.prev, Or.inl rfl, loop_inert s i rest hm hts (by rw [hc]; exact h)⟩

theorem Scan.cons_inert {S : PS} {c : UInt8} {s : Bytes} (hc : Parser.inert S c = true) (h : Scan S s) :
    Scan S (c :: s) := by
  intro msg p i rest st res hm hn hcur hts
  have hm' : msg.drop i = c :: (s ++ rest) := by simpa using hm
  obtain ⟨pv, hpv, he⟩ := h msg p (i + 1) rest st res (drop_succ hm') hn hcur (by omega)
  refine ⟨pv, hpv, ?_⟩
  rw [loop_step hm' hts, stepC_inert (by rw [hcur]; exact hc)]
  simp only [StepR.next, Bool.false_eq_true, if_false, he, List.length_cons]
  congr 1; omega

theorem Scan.append_cons {S : PS} {s1 s2 : Bytes} {c : UInt8} (h1 : Scan S s1) (hc : c ≠ 34)
    (h2 : Scan S (c :: s2)) : Scan S (s1 ++ c :: s2) := by
  intro msg p i rest st res hm hn hcur hts
  have hm' : msg.drop i = s1 ++ (c :: s2 ++ rest) := by simpa using hm
  obtain ⟨pv1, hpv1, he1⟩ := h1 msg p i _ st res hm' (by simpa using hc) hcur hts
  obtain ⟨pv2, hpv2, he2⟩ := h2 msg p (i + s1.length) rest { st with prev := pv1 } res
    (drop_add hm') hn hcur (by simp; omega)
  refine ⟨pv2, ?_, ?_⟩
  · rcases hpv2 with h | h
    · rcases hpv1 with h' | h'
      · exact Or.inl (by rw [h, h'])
      · exact Or.inr (by rw [h, h'])
    · exact Or.inr h
  · rw [he1, he2]; simp only [List.length_append]; congr 1; omega

theorem Scan.append_nil {S : PS} {s1 : Bytes} (h1 : Scan S s1) : Scan S (s1 ++ []) := by
  simpa using h1

theorem Scan.quoted {S : PS} (hS : IdState S) (s : Bytes) : Scan S (quoted 34 s) := by
  intro msg p i rest st res hm hn hcur hts
  have hm' : msg.drop i = 34 :: (dbl 34 s ++ 34 :: rest) := by simpa [TestDecoding.quoted] using hm
  refine ⟨.null, Or.inr rfl, ?_⟩
  rw [loop_step hm' hts]
  have hstep : stepC msg p i 34 (hd (dbl 34 s ++ 34 :: rest)) st res = .cont false (enter st .escId) res := by
    rcases hS with h | h | h <;> subst h <;> simp [stepC, hcur]
  rw [hstep]
  simp only [StepR.next, Bool.false_eq_true, if_false]
  rw [loop_esc_body s (i + 1) rest (enter st .escId) (drop_succ hm') hn rfl (by simp [enter]; omega)]
  simp only [enter, TestDecoding.quoted, List.length_cons, List.length_append, List.length_nil, hcur]
  congr 1; omega

theorem safe_ne {c : UInt8} (h : isSafeChar c = true) :
    c ≠ 58 ∧ c ≠ 34 ∧ c ≠ 91 ∧ c ≠ 40 ∧ c ≠ 93 := by
  refine ⟨?_, ?_, ?_, ?_, ?_⟩ <;> (rintro rfl; revert h; decide)

theorem safe_inert {S : PS} (hS : IdState S) {c : UInt8} (h : isSafeChar c = true) :
    inert S c = true := by
  have := safe_ne h
  rcases hS with h | h | h <;> subst h <;> simp [inert, this]

theorem allSafe_mem {s : Bytes} (h : allSafe s = true) : ∀ c ∈ s, isSafeChar c = true := by
  induction s with
  | nil => simp
  | cons a s ih =>
    simp only [allSafe, Bool.and_eq_true] at h
    intro c hc
    rcases List.mem_cons.mp hc with rfl | hc
    · exact h.1
    · exact ih h.2 c hc

theorem unquoted_safe {s : Bytes} (h : needsQuote s = false) : ∀ c ∈ s, isSafeChar c = true := by
  cases s with
  | nil => simp
  | cons a s =>
    simp only [needsQuote, Bool.or_eq_false_iff, Bool.not_eq_false'] at h
    exact allSafe_mem h.1.2

/-- `quote_identifier` output is passed over (escaped or plain) -/
theorem Scan.ident {S : PS} (hS : IdState S) (s : Bytes) : Scan S (quoteIdent s) := by
  unfold quoteIdent
  cases h : needsQuote s
  · simp only [Bool.false_eq_true, if_false]
    exact Scan.of_inert fun c hc => safe_inert hS (unquoted_safe h c hc)
  · simp only [if_true]
    exact Scan.quoted hS s

/-- first byte of `quote_identifier` output followed by anything that does not start with `"` … -/
theorem Scan.ident_then {S : PS} (hS : IdState S) (s : Bytes) {c : UInt8} {t : Bytes} (hc : c ≠ 34)
    (h2 : Scan S (c :: t)) : Scan S (quoteIdent s ++ c :: t) :=
  Scan.append_cons (Scan.ident hS s) hc h2

theorem Scan.rel (r : Rel) : Scan .relation (renderRel r) := by
  unfold renderRel
  exact Scan.ident_then (Or.inl rfl) _ (by decide) (Scan.cons_inert (by decide) (Scan.ident (Or.inl rfl) _))

theorem Scan.joinRels : ∀ rs : List Rel, Scan .relation (joinRels rs)
  | [] => Scan.nil _
  | [r] => Scan.rel r
  | r :: r' :: rs => by
    show Scan .relation (renderRel r ++ 44 :: 32 :: TestDecoding.joinRels (r' :: rs))
    exact Scan.append_cons (Scan.rel r) (by decide)
      (Scan.cons_inert (by decide) (Scan.cons_inert (by decide) (Scan.joinRels (r' :: rs))))

theorem Scan.base (b : TBase) (hwf : match b with | .builtin s => builtinOk s = true | _ => True) :
    Scan .colType (renderBase b) := by
  cases b with
  | builtin s =>
    apply Scan.of_inert
    intro c hc
    have := List.all_eq_true.mp hwf c hc
    simpa [Parser.inert] using this
  | named sch n =>
    cases sch with
    | none => exact Scan.ident (Or.inr (Or.inr rfl)) n
    | some sc =>
      exact Scan.ident_then (Or.inr (Or.inr rfl)) _ (by decide)
        (Scan.cons_inert (by decide) (Scan.ident (Or.inr (Or.inr rfl)) _))

theorem Scan.brackets : Scan .colType [91, 93] := by
  intro msg p i rest st res hm hn hcur hts
  have hm' : msg.drop i = 91 :: 93 :: rest := by simpa using hm
  refine ⟨.null, Or.inr rfl, ?_⟩
  have h1 : stepC msg p i 91 (hd (93 :: rest)) st res = .cont false (enter st .openSq) res := by
    simp [stepC, hcur]
  have h2 : stepC msg p (i + 1) 93 (hd rest) (enter st .openSq) res =
      .cont false { st with prev := .null } res := by
    simp [stepC, enter, hcur]
  rw [loop_step hm' hts, h1]
  simp only [StepR.next, Bool.false_eq_true, if_false]
  rw [loop_step (drop_succ hm') (by simp [enter]; omega), h2]
  simp [StepR.next]

theorem Scan.type (t : PgType) (hwf : t.wf = true) : Scan .colType (renderType t) := by
  have hb : Scan .colType (renderBase t.base) := by
    apply Scan.base
    unfold PgType.wf at hwf
    cases hbb : t.base <;> simp_all
  unfold renderType
  cases t.array
  · simpa using hb
  · simp only [if_true]
    exact Scan.append_cons hb (by decide) Scan.brackets

end PgBifrost.Parser
