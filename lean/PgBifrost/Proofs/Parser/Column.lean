import PgBifrost.Proofs.Parser.Scan
/-! Round trip of one printed attribute `name[type]:value` and of attribute lists. -/
namespace PgBifrost.Parser
open PgBifrost.TestDecoding

theorem unescape_dbl : ∀ s : Bytes, unescapeQuotes (dbl 39 s) = s
  | [] => rfl
  | c :: s => by
    by_cases hq : c = 39
    · subst hq
      simp [dbl, unescapeQuotes, unescape_dbl s]
    · simp only [dbl, hq, if_false]
      rw [unescapeQuotes, unescape_dbl s]
      intro r h; exact absurd h hq

theorem unescape_noq : ∀ s : Bytes, (∀ c ∈ s, c ≠ 39) → unescapeQuotes s = s
  | [], _ => rfl
  | c :: s, h => by
    have hq : c ≠ 39 := h c (by simp)
    rw [unescapeQuotes, unescape_noq s (fun d hd => h d (by simp [hd]))]
    intro r h; exact absurd h hq

theorem dbl_noq : ∀ s : Bytes, (∀ c ∈ s, c ≠ 39) → dbl 39 s = s
  | [], _ => rfl
  | c :: s, h => by
    have hq : c ≠ 39 := h c (by simp)
    simp [dbl, hq, dbl_noq s (fun d hd => h d (by simp [hd]))]

theorem length_of_drop {msg s : Bytes} {i : Nat} (h : msg.drop i = s) (hi : i ≤ msg.length) :
    msg.length = i + s.length := by
  have := congrArg List.length h
  simp at this; omega

/-- the end of a value: NUL (end of message) or a space -/
theorem loop_term {msg : Bytes} {e : Nat} {st : St} {res : Res} {tok : Bytes}
    (hc : st.cur = .colValue) (hts : st.tokenStart ≤ e)
    (hsl : valueTok? msg (decide (st.prev = .colQuoted)) st.tokenStart e = some tok) :
    (e = msg.length → loop msg false e st res =
      .ok (addCol res st.oldKey st.curName
        { value := unescapeQuotes tok, type := st.curType, quoted := decide (st.prev = .colQuoted) })) ∧
    (∀ r', msg.drop e = 32 :: r' → loop msg false e st res =
      loop msg false (e + 1) { st with tokenStart := e + 1, prev := .colValue, cur := .colName }
        (addCol res st.oldKey st.curName
          { value := unescapeQuotes tok, type := st.curType, quoted := decide (st.prev = .colQuoted) })) := by
  constructor
  · intro he
    subst he
    rw [loop_step_end hts]
    have : stepC msg false msg.length 0 0 st res = .cont false { st with cur := .end_ }
        (addCol res st.oldKey st.curName
          { value := unescapeQuotes tok, type := st.curType, quoted := decide (st.prev = .colQuoted) }) := by
      simp [stepC, hc, hsl]
    rw [this]
    simp only [StepR.next, Bool.false_eq_true, if_false]
    rw [loop_past (by omega)]
    simp [finish]
  · intro r' hd'
    rw [loop_step hd' hts]
    have : stepC msg false e 32 (hd r') st res =
        .cont false { st with tokenStart := e + 1, prev := .colValue, cur := .colName }
        (addCol res st.oldKey st.curName
          { value := unescapeQuotes tok, type := st.curType, quoted := decide (st.prev = .colQuoted) }) := by
      simp [stepC, hc, hsl]
    rw [this]
    simp [StepR.next]

/-- at the first byte of a token of the tuple section -/
def Ready (st : St) (i : Nat) (ok : Bool) : Prop :=
  st.cur = .colName ∧ st.tokenStart = i ∧ st.prev ≠ .colQuoted ∧ st.oldKey = ok

/-- after a complete attribute whose terminator is at `e` (`msg.drop e = rest`): finished at the
end of the message, or ready for the next token after a space -/
def After (msg : Bytes) (e : Nat) (rest : Bytes) (ok : Bool) (res' : Res) (out : Out) : Prop :=
  (rest = [] → out = .ok res') ∧
  (∀ r', rest = 32 :: r' → ∃ st', Ready st' (e + 1) ok ∧ out = loop msg false (e + 1) st' res')

theorem loop_value_bare {msg : Bytes} {i : Nat} {st : St} {res : Res} {s rest : Bytes}
    (hm : msg.drop i = s ++ rest) (hi : i ≤ msg.length) (hc : st.cur = .colValue)
    (hts : st.tokenStart = i) (hp : st.prev ≠ .colQuoted) (hin : ∀ c ∈ s, inert .colValue c = true) :
    After msg (i + s.length) rest st.oldKey
      (addCol res st.oldKey st.curName { value := s, type := st.curType, quoted := false })
      (loop msg false i st res) := by
  have hsl : valueTok? msg (decide (st.prev = .colQuoted)) st.tokenStart (i + s.length) = some s := by
    simp only [hp, decide_false, valueTok?_unquoted, hts]; exact slice?_tok hm hi
  have hun : unescapeQuotes s = s := unescape_noq s fun c hcs => by
    have := hin c hcs; simp [inert] at this; exact this.2
  have hl := loop_inert (msg := msg) (p := false) (st := st) (res := res) s i rest hm (by omega)
    (by rw [hc]; exact hin)
  obtain ⟨h1, h2⟩ := loop_term (msg := msg) (e := i + s.length) (st := st) (res := res) hc (by omega) hsl
  simp only [hp, decide_false, hun] at h1 h2
  constructor
  · intro hr; subst hr
    rw [hl, h1 (by have := length_of_drop hm hi; simp at this; omega)]
  · intro r' hr; subst hr
    refine ⟨_, ?_, by rw [hl, h2 r' (drop_add hm)]⟩
    simp [Ready]

theorem loop_value_text {msg : Bytes} {i : Nat} {st : St} {res : Res} {s rest : Bytes}
    (hm : msg.drop i = TestDecoding.quoted 39 s ++ rest) (_hi : i ≤ msg.length) (hc : st.cur = .colValue)
    (hts : st.tokenStart = i) (hr : rest = [] ∨ ∃ r', rest = 32 :: r') :
    After msg (i + (TestDecoding.quoted 39 s).length) rest st.oldKey
      (addCol res st.oldKey st.curName { value := s, type := st.curType, quoted := true })
      (loop msg false i st res) := by
  have hm' : msg.drop i = 39 :: (dbl 39 s ++ 39 :: rest) := by simpa [TestDecoding.quoted] using hm
  have hn : hd rest ≠ 39 := by
    rcases hr with h | ⟨r', h⟩ <;> subst h <;> simp
  have h1 : stepC msg false i 39 (hd (dbl 39 s ++ 39 :: rest)) st res = .cont false (enter st .colQuoted) res := by
    simp [stepC, hc]
  have hl : loop msg false i st res = loop msg false (i + 1 + (dbl 39 s).length + 1)
      { st with prev := .colQuoted } res := by
    rw [loop_step hm' (by omega), h1]
    simp only [StepR.next, Bool.false_eq_true, if_false]
    rw [loop_sq_body s (i + 1) rest (enter st .colQuoted) (drop_succ hm') hn rfl (by simp [enter]; omega)]
    simp [enter, hc]
  have hlen : (TestDecoding.quoted 39 s).length = (dbl 39 s).length + 2 := by simp [TestDecoding.quoted]
  have hpos : i + 1 + (dbl 39 s).length + 1 = i + (TestDecoding.quoted 39 s).length := by omega
  rw [hpos] at hl
  have hilt := drop_lt_length hm'
  have hsl : valueTok? msg (decide (({ st with prev := PS.colQuoted } : St).prev = .colQuoted))
      ({ st with prev := PS.colQuoted } : St).tokenStart (i + (TestDecoding.quoted 39 s).length) = some (dbl 39 s) := by
    simp only [decide_true, hts]
    rw [valueTok?_quoted hm', if_neg (by decide)]
    have h := slice?_tok (drop_succ hm') (by omega)
    have e1 : i + (TestDecoding.quoted 39 s).length - 1 = i + 1 + (dbl 39 s).length := by omega
    rw [e1]; exact h
  obtain ⟨h2, h3⟩ := loop_term (msg := msg) (e := i + (TestDecoding.quoted 39 s).length)
    (st := { st with prev := .colQuoted }) (res := res) hc (by simp; omega) hsl
  simp only [decide_true, unescape_dbl] at h2 h3
  have hd2 : msg.drop (i + (TestDecoding.quoted 39 s).length) = rest := drop_add hm
  constructor
  · intro hr; subst hr
    rw [hl, h2 (by have := length_of_drop hd2 (by
        have := congrArg List.length hm'; simp at this; omega); simp at this; omega)]
  · intro r' hr; subst hr
    refine ⟨_, ?_, by rw [hl, h3 r' hd2]⟩
    simp [Ready]

/-- a bit string `B'…'`: the `B` is passed over, the quote opens a quoted value, and — the token
starting with `B` — the cut begins two bytes after `TokenStart`: the value is the digits.
(Before the repair of F4 the cut began one byte after `TokenStart` and the value kept the opening quote.) -/
theorem loop_value_bits {msg : Bytes} {i : Nat} {st : St} {res : Res} {s rest : Bytes}
    (hm : msg.drop i = 66 :: 39 :: (s ++ [39]) ++ rest) (hc : st.cur = .colValue)
    (hts : st.tokenStart = i) (hr : rest = [] ∨ ∃ r', rest = 32 :: r') (hs : ∀ c ∈ s, c ≠ 39) :
    After msg (i + (66 :: 39 :: (s ++ [39])).length) rest st.oldKey
      (addCol res st.oldKey st.curName { value := s, type := st.curType, quoted := true })
      (loop msg false i st res) := by
  have hm' : msg.drop i = 66 :: 39 :: (dbl 39 s ++ 39 :: rest) := by simpa [dbl_noq s hs] using hm
  have hn : hd rest ≠ 39 := by
    rcases hr with h | ⟨r', h⟩ <;> subst h <;> simp
  have h0 : stepC msg false i 66 (hd (39 :: (dbl 39 s ++ 39 :: rest))) st res = .cont false st res :=
    stepC_inert (by simp [hc, inert])
  have hd1 := drop_succ hm'
  have h1 : stepC msg false (i + 1) 39 (hd (dbl 39 s ++ 39 :: rest)) st res = .cont false (enter st .colQuoted) res := by
    simp [stepC, hc]
  have hlen : (66 :: 39 :: (s ++ [39])).length = (dbl 39 s).length + 3 := by simp [dbl_noq s hs]
  have hl : loop msg false i st res = loop msg false (i + (66 :: 39 :: (s ++ [39])).length)
      { st with prev := .colQuoted } res := by
    rw [loop_step hm' (by omega), h0]
    simp only [StepR.next, Bool.false_eq_true, if_false]
    rw [loop_step hd1 (by omega), h1]
    simp only [StepR.next, Bool.false_eq_true, if_false]
    rw [loop_sq_body s (i + 1 + 1) rest (enter st .colQuoted) (drop_succ hd1) hn rfl (by simp [enter]; omega)]
    simp only [enter, hc, hlen]
    congr 1; omega
  have hilt := drop_lt_length hm'
  have hsl : valueTok? msg (decide (({ st with prev := PS.colQuoted } : St).prev = .colQuoted))
      ({ st with prev := PS.colQuoted } : St).tokenStart (i + (66 :: 39 :: (s ++ [39])).length) = some s := by
    simp only [decide_true, hts]
    rw [valueTok?_quoted hm', if_pos rfl]
    have hd2' : msg.drop (i + 1 + 1) = s ++ (39 :: rest) := by simpa [dbl_noq s hs] using drop_succ hd1
    have h := slice?_tok hd2' (by have := drop_lt_length hd1; omega)
    have e1 : i + (66 :: 39 :: (s ++ [39])).length - 1 = i + 1 + 1 + s.length := by simp; omega
    rw [e1]; exact h
  obtain ⟨h2, h3⟩ := loop_term (msg := msg) (e := i + (66 :: 39 :: (s ++ [39])).length)
    (st := { st with prev := .colQuoted }) (res := res) hc (by simp; omega) hsl
  simp only [decide_true, unescape_noq s hs] at h2 h3
  have hd2 : msg.drop (i + (66 :: 39 :: (s ++ [39])).length) = rest := drop_add hm
  constructor
  · intro hr; subst hr
    have hle : i + (66 :: 39 :: (s ++ [39])).length ≤ msg.length := by
      have := congrArg List.length hm; simp at this; simp; omega
    have := length_of_drop hd2 hle
    rw [hl, h2 (by simpa using this.symm)]
  · intro r' hr; subst hr
    refine ⟨_, ?_, by rw [hl, h3 r' hd2]⟩
    simp [Ready]

theorem loop_value {msg : Bytes} {i : Nat} {st : St} {res : Res} {v : Literal} {rest : Bytes}
    (hm : msg.drop i = renderLit v ++ rest) (hi : i ≤ msg.length) (hc : st.cur = .colValue)
    (hts : st.tokenStart = i) (hp : st.prev ≠ .colQuoted) (hr : rest = [] ∨ ∃ r', rest = 32 :: r')
    (hwf : v.wf = true) :
    After msg (i + (renderLit v).length) rest st.oldKey
      (addCol res st.oldKey st.curName { value := litValue v, type := st.curType, quoted := litQuoted v })
      (loop msg false i st res) := by
  cases v with
  | null => exact loop_value_bare hm hi hc hts hp (by decide)
  | toast => exact loop_value_bare hm hi hc hts hp (by decide)
  | bare s =>
    refine loop_value_bare hm hi hc hts hp ?_
    intro c hcs
    have := List.all_eq_true.mp hwf c hcs
    simpa [inert] using this
  | bits s =>
    refine loop_value_bits hm hc hts hr ?_
    intro c hcs hq
    have := List.all_eq_true.mp hwf c hcs
    subst hq; simp at this
  | text s => exact loop_value_text hm hi hc hts hr

/-- one printed attribute `name[type]:value` starting at a token start -/
theorem loop_col {msg : Bytes} {i : Nat} {st : St} {res : Res} {c : Col} {rest : Bytes} {ok : Bool}
    (hm : msg.drop i = colBody c ++ rest) (hR : Ready st i ok)
    (hr : rest = [] ∨ ∃ r', rest = 32 :: r') (hwf : c.wf = true) :
    After msg (i + (colBody c).length) rest ok (addCol res ok (cvOf c).1 (cvOf c).2)
      (loop msg false i st res) := by
  obtain ⟨hcur, hts, hp, hok⟩ := hR
  simp only [Col.wf, Bool.and_eq_true] at hwf
  -- 1. the name
  have hm1 : msg.drop i = quoteIdent c.name ++ (91 :: (renderType c.type ++ 93 :: 58 :: renderLit c.val ++ rest)) := by
    simpa [colBody] using hm
  obtain ⟨pv1, hpv1, he1⟩ := Scan.ident (Or.inr (Or.inl rfl)) c.name msg false i _ st res hm1 (by simp) hcur (by omega)
  have hilen : i ≤ msg.length := by
    rcases Nat.lt_or_ge msg.length i with h | h
    · rw [List.drop_of_length_le (by omega)] at hm1
      have := congrArg List.length hm1; simp at this
    · exact h
  -- 2. `[`
  have hd1 := drop_add hm1
  have hs1 : slice? msg i (i + (quoteIdent c.name).length) = some (quoteIdent c.name) := slice?_tok hm1 hilen
  have hst1 : stepC msg false (i + (quoteIdent c.name).length) 91
      (hd (renderType c.type ++ 93 :: 58 :: renderLit c.val ++ rest)) { st with prev := pv1 } res =
      .cont false { st with prev := pv1, curName := quoteIdent c.name,
                            tokenStart := i + (quoteIdent c.name).length + 1, cur := .colType } res := by
    simp [stepC, hcur, hts, hs1]
  -- 3. the type
  have hd2 := drop_succ hd1
  have hd2' : msg.drop (i + (quoteIdent c.name).length + 1) =
      renderType c.type ++ (93 :: 58 :: (renderLit c.val ++ rest)) := by simpa using hd2
  obtain ⟨pv3, hpv3, he3⟩ := Scan.type c.type hwf.1 msg false _ _
    ({ st with prev := pv1, curName := quoteIdent c.name,
               tokenStart := i + (quoteIdent c.name).length + 1, cur := .colType } : St) res hd2' (by simp) rfl
    (by simp)
  -- 4. `]:`
  have hd3 := drop_add hd2'
  have hlen1 : i + (quoteIdent c.name).length + 1 ≤ msg.length := by
    have := drop_lt_length hd1; omega
  have hs3 := slice?_tok hd2' hlen1
  have hst3 : stepC msg false (i + (quoteIdent c.name).length + 1 + (renderType c.type).length) 93
      (hd (58 :: (renderLit c.val ++ rest)))
      { st with prev := pv3, curName := quoteIdent c.name,
                tokenStart := i + (quoteIdent c.name).length + 1, cur := .colType } res =
      .cont false { st with prev := pv3, curName := quoteIdent c.name, curType := renderType c.type,
                            tokenStart := i + (quoteIdent c.name).length + 1 + (renderType c.type).length + 2,
                            cur := .colValue } res := by
    simp [stepC, hs3]
  -- 5. the value
  have hd4 : msg.drop (i + (quoteIdent c.name).length + 1 + (renderType c.type).length + 2) =
      renderLit c.val ++ rest := drop_succ2 hd3
  have hlen2 : i + (quoteIdent c.name).length + 1 + (renderType c.type).length + 2 ≤ msg.length := by
    have := congrArg List.length hd3
    simp at this; omega
  have hpv : pv3 ≠ .colQuoted := by
    rcases hpv3 with h | h
    · rw [h]; simp only []
      rcases hpv1 with h' | h'
      · rw [h']; exact hp
      · rw [h']; decide
    · rw [h]; decide
  have hval := loop_value (msg := msg) (res := res)
    (st := { st with prev := pv3, curName := quoteIdent c.name, curType := renderType c.type,
                     tokenStart := i + (quoteIdent c.name).length + 1 + (renderType c.type).length + 2,
                     cur := .colValue })
    hd4 hlen2 rfl rfl hpv hr hwf.2
  have hloop : loop msg false i st res =
      loop msg false (i + (quoteIdent c.name).length + 1 + (renderType c.type).length + 2)
        { st with prev := pv3, curName := quoteIdent c.name, curType := renderType c.type,
                  tokenStart := i + (quoteIdent c.name).length + 1 + (renderType c.type).length + 2,
                  cur := .colValue } res := by
    rw [he1, loop_step hd1 (by simp; omega), hst1]
    simp only [StepR.next, Bool.false_eq_true, if_false]
    rw [he3, loop_step hd3 (by simp), hst3]
    simp only [StepR.next, Bool.false_eq_true, if_false]
    rw [loop_jump (by omega) (by simp)]
  have hE : i + (quoteIdent c.name).length + 1 + (renderType c.type).length + 2 + (renderLit c.val).length =
      i + (colBody c).length := by
    simp [colBody]; omega
  rw [hloop]
  rw [hE] at hval
  simpa [cvOf, hok] using hval

end PgBifrost.Parser
