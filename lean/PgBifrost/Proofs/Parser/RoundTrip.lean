import PgBifrost.Proofs.Parser.Prelude
/-! Assembly: `parseIdx (render m)` for every kind of change. -/
namespace PgBifrost.Parser
open PgBifrost.TestDecoding

theorem parseGo_table (Y : Bytes) (p : Bool) (res : Res) :
    parseGo (bTablePfx ++ Y) p res = loop (bTablePfx ++ Y) p 0 st0 res := by
  have h5 : slice? (bTablePfx ++ Y) 0 5 = some bTable := by
    simp [slice?, bTablePfx, bTable]
  unfold parseGo
  rw [if_neg (by simp [bTablePfx, bTable]), h5]
  simp only [st0]
  rw [if_neg (by decide)]
  simp

/-! ### Go-map updates with distinct keys are appends -/

theorem foldl_setCol (f : Col → Bytes × CV) :
    ∀ (cs : List Col) (acc : List (Bytes × CV)),
      (∀ c ∈ cs, ∀ q ∈ acc, q.1 ≠ (f c).1) → (cs.map fun c => (f c).1).Nodup →
      cs.foldl (fun a c => setCol a (f c).1 (f c).2) acc = acc ++ cs.map f := by
  intro cs
  induction cs with
  | nil => intros; simp
  | cons c cs ih =>
    intro acc hacc hnd
    have hfil : acc.filter (fun q => q.1 != (f c).1) = acc := by
      rw [List.filter_eq_self]
      intro q hq; simpa using hacc c (by simp) q hq
    simp only [List.map_cons, List.nodup_cons] at hnd
    have hset : setCol acc (f c).1 (f c).2 = acc ++ [((f c).1, (f c).2)] := by
      simp only [setCol, hfil]
    simp only [List.foldl_cons, hset]
    rw [ih (acc ++ [((f c).1, (f c).2)]) ?_ hnd.2]
    · simp
    · intro d hd q hq
      rcases List.mem_append.mp hq with hq | hq
      · exact hacc d (by simp [hd]) q hq
      · simp only [List.mem_singleton] at hq
        subst hq
        intro heq
        exact hnd.1 (List.mem_map.mpr ⟨d, hd, heq.symm⟩)

theorem addCols_old (res : Res) (cs : List Col) :
    addCols res true cs =
      { res with old := cs.foldl (fun a c => setCol a (cvOf c).1 (cvOf c).2) res.old } := by
  induction cs generalizing res with
  | nil => rfl
  | cons c cs ih => simp only [addCols, List.foldl_cons] at ih ⊢; rw [ih]; simp [addCol]

theorem addCols_new (res : Res) (cs : List Col) :
    addCols res false cs =
      { res with cols := cs.foldl (fun a c => setCol a (cvOf c).1 (cvOf c).2) res.cols } := by
  induction cs generalizing res with
  | nil => rfl
  | cons c cs ih => simp only [addCols, List.foldl_cons] at ih ⊢; rw [ih]; simp [addCol]

theorem nodup_of (cs : List Col) (h : nodupNames cs = true) : (cs.map fun c => (cvOf c).1).Nodup := by
  simpa [nodupNames, cvOf] using h

theorem res_eq_view (rel op : Bytes) (old new : Option (List Col))
    (hwo : oldWf old = true) (hwf : tupWf new = true) :
    tupRes (oldRes { relation := rel, operation := op } old) false new = viewDml rel op old new := by
  have ho : oldRes { relation := rel, operation := op } old =
      { relation := rel, operation := op, old := viewCols old } := by
    cases old with
    | none => rfl
    | some cs =>
      have hnd : nodupNames cs = true := by
        simp only [oldWf, Bool.and_eq_true] at hwo; exact hwo.2
      simp only [oldRes, addCols_old, viewCols]
      rw [foldl_setCol cvOf cs [] (by simp) (nodup_of cs hnd)]
      simp
  rw [ho]
  cases new with
  | none => rfl
  | some cs =>
    obtain ⟨_, hnd, _⟩ := tupWf_some hwf
    simp only [tupRes, addCols_new, viewDml, viewCols]
    rw [foldl_setCol cvOf cs [] (by simp) (nodup_of cs hnd)]
    simp

theorem tup_cons (new : Option (List Col)) (hwf : tupWf new = true) : ∃ X, renderTup new = 32 :: X := by
  cases new with
  | none => exact ⟨_, rfl⟩
  | some cs =>
    obtain ⟨_, _, hne⟩ := tupWf_some hwf
    cases cs with
    | nil => exact absurd rfl hne
    | cons c cs => exact ⟨_, by simp [renderTup, renderCols]; rfl⟩

/-- INSERT / UPDATE / DELETE -/
theorem parse_dml (rel op : Bytes) (old new : Option (List Col))
    (hrel : Scan .relation rel) (hop : ∀ c ∈ op, inert .operation c = true) (hnt : op ≠ bTRUNCATE)
    (hwo : oldWf old = true) (hwf : tupWf new = true) :
    parseIdx (renderDml rel op old new) = .ok (viewDml rel op old new) := by
  obtain ⟨X, hX⟩ := tup_cons new hwf
  have hmsg : renderDml rel op old new =
      bTablePfx ++ (rel ++ 58 :: 32 :: (op ++ 58 :: 32 :: tailOf old X)) := by
    simp only [renderDml, tail_eq old new X hX]
  unfold parseIdx
  rw [hmsg, parseGo_table, loop_prelude_true rfl hrel hop hnt]
  simp only
  rw [parseGo_table]
  obtain ⟨st', hR, hd, he⟩ := loop_prelude_false
    (res := ({ relation := rel, operation := op } : Res)) rfl hrel hop hnt
  rw [he, loop_tail old new X hX hd hR hwo hwf, res_eq_view rel op old new hwo hwf]

theorem truncFlags_cons (a b : Bool) : ∃ T, truncFlags a b = 32 :: T := by
  cases a <;> cases b <;> exact ⟨_, rfl⟩

/-- TRUNCATE -/
theorem parse_truncate (rs : List Rel) (a b : Bool) :
    parseIdx (render (.truncate rs a b)) = .ok (view (.truncate rs a b)) := by
  obtain ⟨T, hT⟩ := truncFlags_cons a b
  have hmsg : render (.truncate rs a b) =
      bTablePfx ++ (joinRels rs ++ 58 :: 32 :: (bTRUNCATE ++ 58 :: 32 :: T)) := by
    simp only [render, hT]
  unfold parseIdx
  rw [hmsg, parseGo_table, loop_prelude_truncate rfl (Scan.joinRels rs)]
  simp only
  rw [parseGo_table, loop_prelude_truncate rfl (Scan.joinRels rs)]
  rfl

/-! ### BEGIN / COMMIT -/

def NoSp (c : UInt8) : Prop := ∀ r, spaceLen (c :: r) = 0

theorem noSp_of_range {c : UInt8} (h1 : 33 ≤ c.toNat) (h2 : c.toNat < 127) : NoSp c := by
  intro r
  have hne : ∀ k : UInt8, (k.toNat < 33 ∨ 127 ≤ k.toNat) → c ≠ k := by
    intro k hk h; subst h; omega
  simp [spaceLen, hne 9 (by decide), hne 10 (by decide), hne 11 (by decide), hne 12 (by decide),
    hne 13 (by decide), hne 32 (by decide), hne 0xC2 (by decide), hne 0xE1 (by decide),
    hne 0xE2 (by decide), hne 0xE3 (by decide)]

theorem fieldsGo_word : ∀ (w rest cur : Bytes), (∀ c ∈ w, NoSp c) →
    fieldsGo (w ++ rest) 0 cur = fieldsGo rest 0 (w.reverse ++ cur)
  | [], _, _, _ => by simp
  | c :: w, rest, cur, h => by
    have hc := h c (by simp) (w ++ rest)
    simp only [List.cons_append, fieldsGo, hc, if_true]
    rw [fieldsGo_word w rest (c :: cur) (fun d hd => h d (by simp [hd]))]
    simp

theorem fields_two (w1 w2 : Bytes) (h1 : ∀ c ∈ w1, NoSp c) (h2 : ∀ c ∈ w2, NoSp c)
    (n1 : w1 ≠ []) (n2 : w2 ≠ []) : fields (w1 ++ 32 :: w2) = [w1, w2] := by
  have hsp : spaceLen (32 :: w2) = 1 := by simp [spaceLen]
  unfold fields
  rw [fieldsGo_word w1 _ [] h1]
  simp only [fieldsGo, hsp, List.append_nil]
  have := fieldsGo_word w2 [] [] h2
  simp only [List.append_nil] at this
  rw [this]
  simp [fieldsGo, flushField, n1, n2]

def IsDigit (c : UInt8) : Prop := 48 ≤ c.toNat ∧ c.toNat ≤ 57

theorem digit_ofNat (n : Nat) : IsDigit (UInt8.ofNat (48 + n % 10)) := by
  have : (UInt8.ofNat (48 + n % 10)).toNat = 48 + n % 10 := by
    simp [UInt8.toNat_ofNat']; omega
  unfold IsDigit; omega

theorem digitsFuel_digits : ∀ (f n : Nat) (acc : Bytes), (∀ c ∈ acc, IsDigit c) →
    ∀ c ∈ digitsFuel f n acc, IsDigit c
  | 0, _, _, h => h
  | f + 1, n, acc, h => by
    have hacc : ∀ c ∈ UInt8.ofNat (48 + n % 10) :: acc, IsDigit c := by
      intro c hc
      rcases List.mem_cons.mp hc with rfl | hc
      · exact digit_ofNat n
      · exact h c hc
    unfold digitsFuel
    split
    · exact hacc
    · exact digitsFuel_digits f (n / 10) _ hacc

theorem digitsFuel_ne_nil : ∀ (f n : Nat) (acc : Bytes), acc ≠ [] → digitsFuel f n acc ≠ []
  | 0, _, _, h => h
  | f + 1, n, acc, _ => by
    unfold digitsFuel
    split
    · simp
    · exact digitsFuel_ne_nil f (n / 10) _ (by simp)

theorem natDigits_ne_nil (n : Nat) : natDigits n ≠ [] := by
  unfold natDigits digitsFuel
  split
  · simp
  · exact digitsFuel_ne_nil n (n / 10) _ (by simp)

theorem natDigits_noSp (n : Nat) : ∀ c ∈ natDigits n, NoSp c := by
  intro c hc
  have := digitsFuel_digits (n + 1) n [] (by simp) c hc
  exact noSp_of_range (by unfold IsDigit at this; omega) (by unfold IsDigit at this; omega)

theorem parseGo_txn (w : Bytes) (pre : Bytes) (hw : w.take 5 = pre) (hpre : pre = bBEGIN ∨ pre = bCOMMI)
    (h5 : 5 ≤ w.length) (hns : ∀ c ∈ w, NoSp c) (x : Nat) (p : Bool) (res : Res) :
    parseGo (w ++ 32 :: natDigits x) p res = .ok { res with operation := w, transaction := natDigits x } := by
  have hne : w ≠ [] := by intro h; subst h; simp at h5
  have hs : slice? (w ++ 32 :: natDigits x) 0 5 = some pre := by
    unfold slice?
    rw [if_pos ⟨by omega, by simp; omega⟩]
    simp [List.take_append_of_le_length h5, hw]
  unfold parseGo
  rw [if_neg (by simp; omega), hs]
  simp only
  rw [if_pos hpre, fields_two w (natDigits x) hns (natDigits_noSp x) hne (natDigits_ne_nil x)]

theorem noSp_BEGIN : ∀ c ∈ bBEGIN, NoSp c := by
  intro c hc
  simp only [bBEGIN, List.mem_cons, List.not_mem_nil, or_false] at hc
  rcases hc with rfl | rfl | rfl | rfl | rfl <;> exact noSp_of_range (by decide) (by decide)

theorem noSp_COMMIT : ∀ c ∈ bCOMMIT, NoSp c := by
  intro c hc
  simp only [bCOMMIT, List.mem_cons, List.not_mem_nil, or_false] at hc
  rcases hc with rfl | rfl | rfl | rfl | rfl | rfl <;> exact noSp_of_range (by decide) (by decide)

theorem parse_begin (x : Nat) : parseIdx (render (.begin x)) = .ok (view (.begin x)) := by
  unfold parseIdx
  simp only [render]
  rw [parseGo_txn bBEGIN bBEGIN rfl (Or.inl rfl) (by decide) noSp_BEGIN]
  simp only
  rw [parseGo_txn bBEGIN bBEGIN rfl (Or.inl rfl) (by decide) noSp_BEGIN]
  rfl

theorem parse_commit (x : Nat) : parseIdx (render (.commit x)) = .ok (view (.commit x)) := by
  unfold parseIdx
  simp only [render]
  rw [parseGo_txn bCOMMIT bCOMMI rfl (Or.inr rfl) (by decide) noSp_COMMIT]
  simp only
  rw [parseGo_txn bCOMMIT bCOMMI rfl (Or.inr rfl) (by decide) noSp_COMMIT]
  rfl

/-- a printed but EMPTY tuple (relation without columns): `table s.t: INSERT:` is rejected -/
theorem parse_empty_tuple (rel op : Bytes) (hrel : Scan .relation rel)
    (hop : ∀ c ∈ op, inert .operation c = true) :
    parseIdx (renderDml rel op none (some [])) = .err .invalidChar := by
  have hmsg : renderDml rel op none (some []) = bTablePfx ++ (rel ++ 58 :: 32 :: (op ++ 58 :: [])) := by
    simp [renderDml, renderOld, renderTup, renderCols]
  unfold parseIdx
  rw [hmsg, parseGo_table, loop_prelude_nospace rfl hrel hop (by simp)]

theorem opInert_INSERT : ∀ c ∈ bINSERT, inert .operation c = true := by decide
theorem opInert_UPDATE : ∀ c ∈ bUPDATE, inert .operation c = true := by decide
theorem opInert_DELETE : ∀ c ∈ bDELETE, inert .operation c = true := by decide

end PgBifrost.Parser
