import PgBifrost.Gen.RabbitSrc
set_option linter.unusedSimpArgs false
/-! The translated RabbitMQ attempt (Gen/RabbitSrc.lean) against the model (`RabbitConfirm.attempt .fixed`). -/
namespace PgBifrost.Proofs.RabbitSrc
open PgBifrost.RabbitConfirm PgBifrost.Gen.RabbitSrc

/-- the translated wait loop started with event log `evs` computes what the model's loop does, appending -/
theorem waitLoop_eq (desired : Nat) (f : Nat) (st : St) (toks : List Tok) (evs : List Ev) :
    Gen.RabbitSrc.waitLoop desired f ⟨st, toks, evs⟩ =
      (let r := RabbitConfirm.waitLoop .fixed desired f st toks
       (r.2.2.2, ⟨r.1, r.2.1, evs ++ r.2.2.1⟩)) := by
  induction f generalizing st toks evs with
  | zero => simp [Gen.RabbitSrc.waitLoop, RabbitConfirm.waitLoop, pure, StateT.pure]
  | succ f ih =>
    unfold Gen.RabbitSrc.waitLoop RabbitConfirm.waitLoop
    simp only [bind, StateT.bind, get, getThe, MonadStateOf.get, StateT.get, pure, StateT.pure, recv, hook, modify,
      modifyGet, MonadStateOf.modifyGet, StateT.modifyGet, MonadState.modifyGet]
    by_cases hlt : st.confirms < desired
    · have hle : ¬ desired ≤ st.confirms := by omega
      simp only [hlt, hle, decide_true, if_true, if_false, reduceCtorEq, false_and]
      cases hp : st.chan.pending with
      | nil =>
        by_cases hc : st.chan.closed = true <;> simp [StateT.bind, recv, hp, hc, StateT.pure, bind, pure]
      | cons c rest =>
        cases hack : c.ack
        · simp [StateT.bind, recv, hp, hack, StateT.pure, StateT.modifyGet, bind, pure]
        · simp [StateT.bind, recv, hp, hack, StateT.pure, StateT.modifyGet, ih, List.append_assoc, bind, pure]
    · have hle : desired ≤ st.confirms := by omega
      simp [hlt, hle, StateT.pure, pure]

theorem wait_eq (n : Nat) (st : St) (toks : List Tok) (evs : List Ev) :
    Gen.RabbitSrc.waitForConfirmations n ⟨st, toks, evs⟩ =
      (let tk := popTok toks
       let hk := hookTok st tk.1
       let wl := RabbitConfirm.waitLoop .fixed (n + st.confirms) (hk.1.chan.pending.length + 1) hk.1 tk.2
       (wl.2.2.2, ⟨wl.1, wl.2.1, evs ++ [.wait] ++ hk.2 ++ wl.2.2.1⟩)) := by
  simp [Gen.RabbitSrc.waitForConfirmations, bind, StateT.bind, get, getThe, MonadStateOf.get, StateT.get, emit, hook,
    modify, modifyGet, MonadStateOf.modifyGet, StateT.modifyGet, waitLoop_eq, List.append_assoc, pure]

/-- the translated `operation` closure is the model's `attempt` after the repair (mode `fixed`) -/
theorem attempt_eq (st : St) (msgs : List Nat) (toks : List Tok) :
    (let r := Gen.RabbitSrc.attempt msgs ⟨st, toks, []⟩
     (r.2.st, r.2.toks, r.2.evs, r.1)) = RabbitConfirm.attempt .fixed st msgs toks := by
  unfold Gen.RabbitSrc.attempt RabbitConfirm.attempt
  simp only [bind, StateT.bind, doSetup, doSend, pure, StateT.pure, emit, hook, doReset, modify, modifyGet,
    MonadStateOf.modifyGet, StateT.modifyGet, List.nil_append]
  cases hs : (setup st).2.2
  · simp [StateT.pure, pure]
  · simp only [Bool.not_true, Bool.false_eq_true, if_false]
    cases hsd : (send Mode.fixed (setup st).1 msgs toks).2.2.2
    · cases hw : (RabbitConfirm.waitLoop Mode.fixed (msgs.length + (send Mode.fixed (setup st).fst msgs toks).fst.confirms)
          ((hookTok (send Mode.fixed (setup st).fst msgs toks).fst (popTok (send Mode.fixed (setup st).fst msgs toks).snd.fst).fst).fst.chan.pending.length + 1)
          (hookTok (send Mode.fixed (setup st).fst msgs toks).fst (popTok (send Mode.fixed (setup st).fst msgs toks).snd.fst).fst).fst
          (popTok (send Mode.fixed (setup st).fst msgs toks).snd.fst).snd).2.2.2
      · simp [StateT.bind, doSend, StateT.pure, hsd, wait_eq, hw, List.append_assoc, StateT.modifyGet, bind, pure]
      · rename_i rem
        by_cases hr : msgs.length < rem <;>
          simp [StateT.bind, doSend, StateT.pure, hsd, wait_eq, hw, List.append_assoc, StateT.modifyGet, hr, bind, pure]
      · simp [StateT.bind, doSend, StateT.pure, hsd, wait_eq, hw, List.append_assoc, StateT.modifyGet, bind, pure]
      · simp [StateT.bind, doSend, StateT.pure, hsd, wait_eq, hw, List.append_assoc, StateT.modifyGet, bind, pure]
    · simp [StateT.bind, doSend, StateT.pure, hsd, List.append_assoc, StateT.modifyGet, bind, pure]
    · simp [StateT.bind, doSend, StateT.pure, hsd, List.append_assoc, StateT.modifyGet, bind, pure]

end PgBifrost.Proofs.RabbitSrc
