import PgBifrost.Proofs.BatcherAccounting
/-!
# What happens to a message answered can't-fit / too big (at the level of one `onMsg`)

`(prep K cfg s m).2.1` is the batch `Add` is called on for `m`: the open batch of `m`'s partition
key (a fresh one if there was none or the stored one was already full); `(prep K cfg s m).1` is the
state at that moment and `(prep K cfg s m).2.2` the events emitted so far in this step.
-/
namespace PgBifrost.Batcher
open PgBifrost.Batch

theorem setOpen_total (s : State) (pk : PKey) (b : Batch) : (setOpen s pk b).total = s.total :=
  (seenFrame_setOpen s pk b).total

theorem prep_total (K : Kind) (cfg : Cfg) (s : State) (m : Msg) :
    (prep K cfg s m).1.total = if s.curKey = some m.key then s.total else 0 := by
  have hl := seenFrame_lookup s m.pkey
  obtain ⟨_, n2, _, _⟩ := noteBoth (lookup s m.pkey).1 m
  have hr := seenFrame_roll K cfg (noteKey (noteCommit (lookup s m.pkey).1 m) m) (lookup s m.pkey).2 m.pkey
  unfold prep; rw [hr.total, n2, hl.curKey, hl.total]

theorem onMsg_data (K : Kind) (cfg : Cfg) (s : State) (m : Msg) (hd : m.op = .data) :
    onMsg K cfg s m = addPhase K cfg (prep K cfg s m).1 (prep K cfg s m).2.1 (prep K cfg s m).2.2 m := by
  rw [onMsg_eq]
  have : (m.op != .data) = false := by simp [hd]
  rw [this]; simp

theorem too_big_step {K : Kind} {big bad : Msg → Bool} {dom : Msg → Prop} (hL : Laws K big bad dom)
    (cfg : Cfg) (s : State) (m : Msg) (hd : m.op = .data) {b' : Batch}
    (h : K.add (prep K cfg s m).2.1 m = (.tooBig, b')) :
    big m = true ∧
    (onMsg K cfg s m).2 = (prep K cfg s m).2.2 ++ [.stat "dropped_too_big"] ∧
    getOpen (onMsg K cfg s m).1 m.pkey = some b' ∧
    b'.payload = (prep K cfg s m).2.1.payload ∧
    (∀ key, countOf b'.txns key = countOf (prep K cfg s m).2.1.txns key + (if m.key = key then 1 else 0)) ∧
    (onMsg K cfg s m).1.total = (if s.curKey = some m.key then s.total else 0) + 1 := by
  obtain ⟨h1, h2, _, h4⟩ := hL.tooBig_big _ _ _ h
  rw [onMsg_data K cfg s m hd]
  unfold addPhase
  rw [addToBatch_tooBig cfg 2 _ h]
  simp only [Bool.false_eq_true, if_false]
  refine ⟨h1, ?_, ?_, h2, (fun key => by rw [h4, countOf_updateTxns]), ?_⟩
  · trivial
  · rw [getOpen_withTotal, getOpen_setOpen]; simp
  · rw [setOpen_total, prep_total]

theorem cant_fit_step {K : Kind} {big bad : Msg → Bool} {dom : Msg → Prop} (hL : Laws K big bad dom)
    (cfg : Cfg) (s : State) (m : Msg) (hd : m.op = .data) (hdom : dom m) {x : Batch}
    (h : K.add (prep K cfg s m).2.1 m = (.cantFit, x)) :
    (∃ st, (onMsg K cfg s m).2 =
        (prep K cfg s m).2.2 ++ (sendBatch cfg (prep K cfg s m).1 (prep K cfg s m).2.1).2 ++ st ∧
        dispatched st = [] ∧ selfReported st = []) ∧
    ∃ b2, getOpen (onMsg K cfg s m).1 m.pkey = some b2 ∧ b2.pkey = m.pkey ∧
      (bad m = false → b2.payload = [m]) ∧ (bad m = true → b2 = fresh m.pkey) := by
  have hbig := hL.cantFit_small _ _ _ h
  rw [onMsg_data K cfg s m hd]
  unfold addPhase
  rw [addToBatch_cantFit cfg 2 _ h]
  cases hadd2 : K.add (fresh m.pkey) m with
  | mk r2 b2 =>
    have hnf2 := hL.fresh_not_full m.pkey m
    have hnc2 := hL.fresh_not_cantFit m.pkey m hdom
    rw [hadd2] at hnf2 hnc2
    cases r2 with
    | ok =>
      rw [addToBatch_ok cfg 1 _ hadd2]
      simp only [Bool.false_eq_true, if_false]
      obtain ⟨p1, p2, _⟩ := hL.ok_payload _ _ _ hadd2
      obtain ⟨_, g2⟩ := hL.ok_good _ _ _ hadd2
      refine ⟨⟨[], (by simp), rfl, rfl⟩, b2, ?_, (by rw [p2]; rfl), (fun _ => by rw [p1]; rfl), (fun hb => ?_)⟩
      · rw [getOpen_withTotal, getOpen_setOpen]; simp
      · rw [g2] at hb; cases hb
    | tooBig =>
      exfalso
      have := (hL.tooBig_big _ _ _ hadd2).1
      rw [hbig] at this; cases this
    | invalid =>
      rw [addToBatch_invalid cfg 1 _ hadd2]
      simp only [Bool.false_eq_true, if_false]
      obtain ⟨_, g2, g3⟩ := hL.invalid_bad _ _ _ hadd2
      refine ⟨⟨[.stat "dropped_msg_invalid"], (by simp), rfl, rfl⟩, b2, ?_, (by rw [g3]; rfl),
        (fun hb => by rw [g2] at hb; cases hb), (fun _ => g3)⟩
      rw [getOpen_withTotal, getOpen_setOpen]; simp
    | full => exact absurd rfl hnf2
    | cantFit => exact absurd rfl hnc2

end PgBifrost.Batcher
