import PgBifrost.Gen.LedgerSrc
import PgBifrost.Gen.EmitSrc
/-! The hand-written ledger model equals the statement-by-statement translation of `ledger.go`. -/
namespace PgBifrost.LedgerSrcProofs
open PgBifrost.Ledger PgBifrost.Gen.LedgerSrc

theorem itemsSet_of_get_none {items : List Entry} {k : Nat} (h : itemsGet items k = none) (e : Entry) :
    itemsSet items k e = items ++ [e] := by
  unfold itemsSet
  have : items.any (·.key == k) = false := by
    unfold itemsGet at h
    rw [List.find?_eq_none] at h
    rw [List.any_eq_false]
    intro x hx
    simpa using h x hx
  rw [this]; simp

theorem supersede_eq (s : State) (t k : Nat) :
    supersede s t k =
      (match curGet s.cur t with
       | some val => if (val != k) = true then
            { items := itemsDelete s.items val, cur := curErase s.cur t } else s
       | none => s) := by
  unfold supersede; rfl

theorem updateSeen_eq (s : State) (t k tot c : Nat) :
    Gen.LedgerSrc.updateSeen s t k tot c = Ledger.updateSeen s t k tot c := by
  unfold Gen.LedgerSrc.updateSeen Ledger.updateSeen supersede
  cases hc : curGet s.cur t with
  | none =>
    simp only [hc]
    cases hg : itemsGet s.items k with
    | none => simp [hg, itemsSet_of_get_none hg, pure, bind, Option.bind]
    | some e =>
      by_cases h0 : e.commit = 0
      · simp [hg, h0, pure, bind, Option.bind, itemsUpdate, List.map_map, Function.comp]
        intro x _; by_cases hx : x.key = k <;> simp [hx]
      · simp [hg, h0, pure, bind, Option.bind, failure, Alternative.failure]
  | some v =>
    by_cases hv : v = k
    · subst hv
      simp only [hc, bne_self_eq_false, Bool.false_eq_true, ↓reduceIte]
      cases hg : itemsGet s.items v with
      | none => simp [hg, itemsSet_of_get_none hg, pure, bind, Option.bind]
      | some e =>
        by_cases h0 : e.commit = 0
        · simp [hg, h0, pure, bind, Option.bind, itemsUpdate, List.map_map, Function.comp]
          intro x _; by_cases hx : x.key = v <;> simp [hx]
        · simp [hg, h0, pure, bind, Option.bind, failure, Alternative.failure]
    · have hne : (v != k) = true := by simpa using hv
      simp only [hc, hne, ↓reduceIte]
      cases hg : itemsGet (itemsDelete s.items v) k with
      | none => simp [hg, itemsSet_of_get_none hg, pure, bind, Option.bind]
      | some e =>
        by_cases h0 : e.commit = 0
        · simp [hg, h0, pure, bind, Option.bind, itemsUpdate, List.map_map, Function.comp]
          intro x _; by_cases hx : x.key = k <;> simp [hx]
        · simp [hg, h0, pure, bind, Option.bind, failure, Alternative.failure]

theorem updateWritten_eq (s : State) (t k n : Nat) :
    Gen.LedgerSrc.updateWritten s t k n = some (Ledger.updateWritten s t k n) := by
  unfold Gen.LedgerSrc.updateWritten Ledger.updateWritten supersede
  cases hc : curGet s.cur t with
  | none =>
    simp only [hc]
    cases hg : itemsGet s.items k with
    | none => simp [hg, itemsSet_of_get_none hg, pure, bind, Option.bind]
    | some e => simp [hg, pure, bind, Option.bind, itemsUpdate]
  | some v =>
    by_cases hv : v = k
    · subst hv
      simp only [hc, bne_self_eq_false, Bool.false_eq_true, ↓reduceIte]
      cases hg : itemsGet s.items v with
      | none => simp [hg, itemsSet_of_get_none hg, pure, bind, Option.bind]
      | some e => simp [hg, pure, bind, Option.bind, itemsUpdate]
    · have hne : (v != k) = true := by simpa using hv
      simp only [hc, hne, ↓reduceIte]
      cases hg : itemsGet (itemsDelete s.items v) k with
      | none => simp [hg, itemsSet_of_get_none hg, pure, bind, Option.bind]
      | some e => simp [hg, pure, bind, Option.bind, itemsUpdate]

theorem remove_eq (s : State) (k : Nat) :
    Gen.LedgerSrc.remove s k = some (Ledger.remove s k) := by
  unfold Gen.LedgerSrc.remove Ledger.remove
  cases hg : itemsGet s.items k with
  | none => simp [hg, pure, bind, Option.bind]
  | some e => simp [hg, pure, bind, Option.bind]

theorem collect_eq_releasable : Gen.EmitSrc.collect = Ledger.releasable := by
  funext e
  simp only [Gen.EmitSrc.collect, Ledger.releasable]
  by_cases h1 : e.commit = 0 <;> by_cases h2 : e.count = e.total <;> simp [h1, h2]

theorem foldl_remove_eq (pre : List Entry) : ∀ s : State,
    pre.foldl (fun s c => (Gen.LedgerSrc.remove s c.key).getD s) s = pre.foldl (fun s e => Ledger.remove s e.key) s := by
  induction pre with
  | nil => intro s; rfl
  | cons a r ih => intro s; simp only [List.foldl_cons, remove_eq, Option.getD_some]

/-- `emitProgress` as translated = the model's `emit` -/
theorem emit_eq (s : State) : Gen.EmitSrc.emitProgress s = Ledger.emit s := by
  unfold Gen.EmitSrc.emitProgress Ledger.emit
  rw [collect_eq_releasable]
  cases hp : s.items.takeWhile releasable with
  | nil => simp
  | cons a r =>
    have hlast : (a :: r)[(a :: r).length - 1]? = (a :: r).getLast? := by
      rw [List.getLast?_eq_getElem?]
    simp only [List.length_cons, Nat.zero_lt_succ, ↓reduceIte, gt_iff_lt]
    have h2 : (a :: r)[r.length + 1 - 1]? = (a :: r).getLast? := by simpa using hlast
    rw [h2, foldl_remove_eq]
    cases hl : (a :: r).getLast? with
    | none => simp at hl
    | some l => simp

end PgBifrost.LedgerSrcProofs
