import PgBifrost.Model.Backoff
/-! Lemmas about the retry-loop model (`Model/Backoff.lean`): a policy whose `Stop` field is not the constant
`backoff.Stop` never gives up; a policy with a budget and `Stop = backoff.Stop` gives up as soon as the clock
has advanced past the budget, within a number of calls bounded by the budget. -/
namespace PgBifrost.Backoff

theorem nextBackOff_ne_stop_of_field (p : Policy) (hs : p.stop ≠ stopConst) (e n : Nat) :
    nextBackOff p e n ≠ stopConst := by
  unfold nextBackOff
  split
  · exact hs
  · unfold stopConst; omega

/-- a policy whose `Stop` field differs from the constant never gives up, whatever the clock does -/
theorem retryFailing_none_of_field (p : Policy) (hs : p.stop ≠ stopConst) :
    ∀ (obs : List Obs) (c : Nat), retryFailing p obs c = none := by
  intro obs
  induction obs with
  | nil => intro c; rfl
  | cons o rest ih =>
    intro c
    obtain ⟨e, n⟩ := o
    simp only [retryFailing]
    rw [if_neg (nextBackOff_ne_stop_of_field p hs e n)]
    exact ih (c + 1)

/-- … and after the budget it does not even wait: the sleep handed to the timer is the field's value -/
theorem sleep_after_budget (p : Policy) (hs : p.stop ≠ stopConst) (hm : p.maxElapsed ≠ 0) (e n : Nat)
    (hover : p.maxElapsed < e + n) : sleepAfter p (e, n) = some p.stop := by
  unfold sleepAfter
  have h : nextBackOff p e n = p.stop := by
    unfold nextBackOff; rw [if_pos ⟨hm, hover⟩]
  simp only [h]
  rw [if_neg hs]

/-- The environment of a retry loop: the clock has advanced at least by the sleeps performed so far
(`acc`), and every drawn interval is at least `minI`. -/
def Advances (minI : Nat) : Nat → List Obs → Prop
  | _, [] => True
  | acc, (e, n) :: rest => acc ≤ e ∧ minI ≤ n ∧ Advances minI (acc + n) rest

theorem retryFailing_gives_up (p : Policy) (hs : p.stop = stopConst) (hm : p.maxElapsed ≠ 0)
    (minI : Nat) :
    ∀ (obs : List Obs) (acc c : Nat), Advances minI acc obs → acc ≤ p.maxElapsed →
      p.maxElapsed < acc + obs.length * minI →
      ∃ k, retryFailing p obs c = some k ∧ c + 1 ≤ k ∧ k ≤ c + obs.length ∧
        (k - (c + 1)) * minI ≤ p.maxElapsed - acc := by
  intro obs
  induction obs with
  | nil =>
    intro acc c _ hle hlen
    simp at hlen
    omega
  | cons o rest ih =>
    intro acc c hadv hle hlen
    obtain ⟨e, n⟩ := o
    obtain ⟨hacc, hn, hrest⟩ := hadv
    simp only [retryFailing]
    by_cases hover : p.maxElapsed < e + n
    · have h : nextBackOff p e n = stopConst := by
        unfold nextBackOff; rw [if_pos ⟨hm, hover⟩]; exact hs
      rw [if_pos h]
      refine ⟨c + 1, rfl, Nat.le_refl _, ?_, ?_⟩
      · simp
      · simp
    · have h : nextBackOff p e n ≠ stopConst := by
        unfold nextBackOff
        rw [if_neg (by intro hh; exact hover hh.2)]
        unfold stopConst; omega
      rw [if_neg h]
      have hle' : acc + n ≤ p.maxElapsed := by omega
      have hlen' : p.maxElapsed < acc + n + rest.length * minI := by
        simp only [List.length_cons, Nat.succ_mul] at hlen
        omega
      obtain ⟨k, hk, hk1, hk2, hk3⟩ := ih (acc + n) (c + 1) hrest hle' hlen'
      refine ⟨k, hk, by omega, by simp only [List.length_cons]; omega, ?_⟩
      have hsplit : k - (c + 1) = (k - (c + 1 + 1)) + 1 := by omega
      rw [hsplit, Nat.succ_mul]
      omega

end PgBifrost.Backoff
