import PgBifrost.Proofs.BatchLaws
/-!
# Per-kind limits (invariants of `Add`) and the `txns` counter
-/
namespace PgBifrost.Batch

/-- fold `Add` over a list of messages (whatever it answers, continue with the batch it returns) -/
def foldAdd (K : Kind) (b : Batch) (adds : List Msg) : Batch := adds.foldl (fun b m => (K.add b m).2) b

theorem foldAdd_inv (K : Kind) (Q : Batch → Prop) (hstep : ∀ b m, Q b → Q (K.add b m).2) :
    ∀ (adds : List Msg) (b : Batch), Q b → Q (foldAdd K b adds) := by
  intro adds
  induction adds with
  | nil => intro b h; exact h
  | cons m r ih => intro b h; exact ih _ (hstep b m h)

/-! ## Kinesis -/

structure KinesisOK (R B S : Nat) (meth : KinesisMethod) (b : Batch) : Prop where
  count : b.payload.length ≤ R
  bytes_eq : b.bytes = (b.payload.map fun m => m.size + kinesisKeyLen meth m).sum
  bytes_le : b.bytes ≤ B
  each : ∀ m ∈ b.payload, m.size ≤ S ∧ kinesisKeyLen meth m ≠ 0

theorem kinesisOK_fresh (R B S : Nat) (meth : KinesisMethod) (pk : PKey) : KinesisOK R B S meth (fresh pk) :=
  ⟨by simp [fresh], by simp [fresh], by simp [fresh], by simp [fresh]⟩

theorem kinesisOK_add (R B S : Nat) (meth : KinesisMethod) (b : Batch) (m : Msg)
    (h : KinesisOK R B S meth b) : KinesisOK R B S meth ((kinesisKind R B S meth).add b m).2 := by
  rcases kinesis_add_cases R B S meth b m with ⟨_, e⟩ | ⟨_, _, e⟩ | ⟨_, _, _, e⟩ | ⟨_, _, _, _, e⟩ | ⟨h1, h2, h3, h4, e⟩ <;>
    rw [e]
  · exact ⟨h.count, h.bytes_eq, h.bytes_le, h.each⟩
  · exact h
  · exact h
  · exact h
  · refine ⟨by simp; omega, by simp [h.bytes_eq], by simp; omega, ?_⟩
    intro x hx
    simp at hx
    rcases hx with hx | hx
    · exact h.each x hx
    · subst hx; exact ⟨h1, h4⟩

/-! ## generic -/

structure GenericOK (n : Nat) (b : Batch) : Prop where
  count : b.payload.length ≤ n
  bytes_eq : b.bytes = (b.payload.map (·.size)).sum

theorem genericOK_fresh (n : Nat) (pk : PKey) : GenericOK n (fresh pk) := ⟨by simp [fresh], by simp [fresh]⟩

theorem genericOK_add (n : Nat) (b : Batch) (m : Msg) (h : GenericOK n b) :
    GenericOK n ((genericKind n).add b m).2 := by
  rcases generic_add_cases n b m with ⟨_, e⟩ | ⟨h1, e⟩ <;> rw [e]
  · exact h
  · have := h.count
    exact ⟨by simp; omega, by simp [h.bytes_eq]⟩

/-! ## Kafka -/

structure KafkaOK (n maxBytes : Nat) (b : Batch) : Prop where
  count : b.payload.length ≤ n
  bytes_eq : b.bytes = (b.payload.map (·.size)).sum
  each : ∀ m ∈ b.payload, m.ksize ≤ maxBytes

theorem kafkaOK_fresh (n maxBytes : Nat) (pk : PKey) : KafkaOK n maxBytes (fresh pk) :=
  ⟨by simp [fresh], by simp [fresh], by simp [fresh]⟩

theorem kafkaOK_add (n maxBytes : Nat) (b : Batch) (m : Msg) (h : KafkaOK n maxBytes b) :
    KafkaOK n maxBytes ((kafkaKind n maxBytes).add b m).2 := by
  rcases kafka_add_cases n maxBytes b m with ⟨_, e⟩ | ⟨_, _, e⟩ | ⟨h1, h2, e⟩ <;> rw [e]
  · exact h
  · exact ⟨h.count, h.bytes_eq, h.each⟩
  · have := h.count
    refine ⟨by simp; omega, by simp [h.bytes_eq], ?_⟩
    intro x hx
    simp at hx
    rcases hx with hx | hx
    · exact h.each x hx
    · subst hx; exact h2

/-! ## the `txns` counter -/

/-- the count recorded for delivery key `key` (0 when there is no entry) -/
def countOf (txns : List TxnCount) (key : Nat) : Nat :=
  match txns.find? (·.key == key) with
  | some e => e.count
  | none => 0

theorem countOf_nil (key : Nat) : countOf [] key = 0 := rfl

theorem countOf_cons (e : TxnCount) (l : List TxnCount) (key : Nat) :
    countOf (e :: l) key = if e.key = key then e.count else countOf l key := by
  unfold countOf
  by_cases h : e.key = key <;> simp [h]

theorem countOf_map_inc (l : List TxnCount) (k key : Nat) :
    countOf (l.map fun e => if e.key == k then { e with count := e.count + 1 } else e) key =
      countOf l key + (if k = key ∧ l.any (·.key == k) then 1 else 0) := by
  induction l with
  | nil => simp [countOf_nil]
  | cons e r ih =>
    rw [List.map_cons, countOf_cons, countOf_cons, ih]
    by_cases h1 : e.key = k
    · by_cases h2 : e.key = key
      · have : k = key := by omega
        simp [h1, this]
      · have : ¬ k = key := by omega
        simp [h1, this]
    · have hk : ¬ key = k ∨ ¬ e.key = key := by omega
      by_cases h2 : e.key = key
      · have h3 : ¬ k = key := by omega
        have h4 : ¬ key = k := by omega
        subst h2
        simp [h3, h4]
      · have h1' : (e.key == k) = false := by simp [h1]
        simp [h2, h1']

theorem countOf_append_single (l : List TxnCount) (e : TxnCount) (key : Nat)
    (h : l.any (·.key == e.key) = false) :
    countOf (l ++ [e]) key = countOf l key + (if e.key = key then e.count else 0) := by
  induction l with
  | nil => simp [countOf_cons, countOf_nil]
  | cons x r ih =>
    simp only [List.any_cons, Bool.or_eq_false_iff, beq_eq_false_iff_ne, ne_eq] at h
    rw [List.cons_append, countOf_cons, countOf_cons, ih h.2]
    by_cases h2 : x.key = key
    · have : ¬ e.key = key := by omega
      simp [h2, this]
    · simp [h2]

/-- `UpdateTransactions` bumps exactly the message's delivery key by one -/
theorem countOf_updateTxns (txns : List TxnCount) (m : Msg) (key : Nat) :
    countOf (updateTxns txns m) key = countOf txns key + (if m.key = key then 1 else 0) := by
  unfold updateTxns
  by_cases h : txns.any (·.key == m.key) = true
  · rw [if_pos h, countOf_map_inc]
    simp [h]
  · rw [if_neg h]
    have h' : txns.any (·.key == m.key) = false := Bool.eq_false_iff.mpr h
    rw [countOf_append_single _ _ _ h']

/-- the delivery keys of a `txns` list stay distinct -/
theorem updateTxns_nodup (txns : List TxnCount) (m : Msg) (h : (txns.map (·.key)).Nodup) :
    ((updateTxns txns m).map (·.key)).Nodup := by
  unfold updateTxns
  by_cases ha : txns.any (·.key == m.key) = true
  · rw [if_pos ha]
    have : (txns.map fun e => if e.key == m.key then { e with count := e.count + 1 } else e).map (·.key)
        = txns.map (·.key) := by
      rw [List.map_map]
      apply List.map_congr_left
      intro e _
      by_cases he : e.key = m.key <;> simp [he]
    rw [this]; exact h
  · rw [if_neg ha]
    rw [List.map_append, List.nodup_append]
    refine ⟨h, by simp, ?_⟩
    intro a ha' b hb
    simp at hb; subst hb
    intro heq; subst heq
    apply ha
    rw [List.any_eq_true]
    obtain ⟨e, he, hk⟩ := List.mem_map.mp ha'
    exact ⟨e, he, by simp [hk]⟩

end PgBifrost.Batch
