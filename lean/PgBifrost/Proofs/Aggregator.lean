import PgBifrost.Model.Aggregator
/-! Helper lemmas for C19 (aggregator). Core Lean only.

Two ingredients:
* `covSum_run` — bookkeeping of the ghost `cov` lists: for ANY weight `f` on statistics, the
  total weight covered by reported + held aggregates grows by exactly `f s` at each `add s` and is
  unchanged by `check` and `scan` (a scan only moves aggregates from `held` to `reports`).
* `inv_run` — every aggregate (held or reported) is `Good`: it covers at least one statistic, all
  covered statistics have its key and its bucket, its `value`/`count`/`avg`/`min`/`max` are the
  sum/length/quotient/extrema of the covered values.
-/
namespace PgBifrost.Aggregator

/-! ### sums -/

theorem sumBy_append {α} (f : α → Int) (l1 l2 : List α) :
    sumBy f (l1 ++ l2) = sumBy f l1 + sumBy f l2 := by
  induction l1 with
  | nil => simp [sumBy]
  | cons a r ih => simp only [List.cons_append, sumBy, ih]; omega

theorem sumBy_filter_split {α} (f : α → Int) (p : α → Bool) (l : List α) :
    sumBy f (l.filter p) + sumBy f (l.filter fun x => !p x) = sumBy f l := by
  induction l with
  | nil => simp [sumBy]
  | cons a r ih =>
    cases h : p a <;> simp only [List.filter_cons, h, sumBy, Bool.not_true, Bool.not_false,
      Bool.false_eq_true, if_true, if_false] <;> omega

theorem sumBy_filter_ite {α} (f : α → Int) (p : α → Bool) (l : List α) :
    sumBy f (l.filter p) = sumBy (fun x => if p x then f x else 0) l := by
  induction l with
  | nil => simp [sumBy]
  | cons a r ih =>
    cases h : p a <;> simp only [List.filter_cons, h, sumBy, Bool.false_eq_true, if_true, if_false, ih] <;> omega

theorem sumBy_flatMap {α β} (f : β → Int) (g : α → List β) (l : List α) :
    sumBy f (l.flatMap g) = sumBy (fun x => sumBy f (g x)) l := by
  induction l with
  | nil => simp [sumBy]
  | cons a r ih => simp only [List.flatMap_cons, sumBy_append, sumBy, ih]

theorem sumBy_map {α β} (f : β → Int) (g : α → β) (l : List α) :
    sumBy f (l.map g) = sumBy (fun x => f (g x)) l := by
  induction l with
  | nil => simp [sumBy]
  | cons a r ih => simp only [List.map_cons, sumBy, ih]

theorem sumBy_congr {α} (f g : α → Int) (l : List α) (h : ∀ x ∈ l, f x = g x) :
    sumBy f l = sumBy g l := by
  induction l with
  | nil => simp [sumBy]
  | cons a r ih =>
    simp only [sumBy]
    rw [h a (List.mem_cons_self ..), ih (fun x hx => h x (List.mem_cons_of_mem _ hx))]

theorem sumBy_zero {α} (f : α → Int) (l : List α) (h : ∀ x ∈ l, f x = 0) : sumBy f l = 0 := by
  induction l with
  | nil => simp [sumBy]
  | cons a r ih =>
    simp only [sumBy]
    rw [h a (List.mem_cons_self ..), ih (fun x hx => h x (List.mem_cons_of_mem _ hx))]; rfl

theorem sumBy_one {α} (l : List α) : sumBy (fun _ => (1 : Int)) l = l.length := by
  induction l with
  | nil => simp [sumBy]
  | cons a r ih => simp only [sumBy, ih, List.length_cons]; omega

/-! ### the ghost bookkeeping -/

def allAggs (st : State) : List Agg := st.reports ++ heldAggs st.held

/-- total `f`-weight of the statistics covered by the aggregates of `l` -/
def covSum (f : Stat → Int) (l : List Agg) : Int := sumBy (fun a => sumBy f a.cov) l

theorem update_cov (a : Agg) (s : Stat) : (a.update s).cov = a.cov ++ [s] := by
  unfold Agg.update; cases a.id.typ <;> rfl

theorem update_id (a : Agg) (s : Stat) : (a.update s).id = a.id := by
  unfold Agg.update; cases a.id.typ <;> rfl

theorem update_ts (a : Agg) (s : Stat) : (a.update s).ts = a.ts := by
  unfold Agg.update; cases a.id.typ <;> rfl

theorem covSum_upsertAgg (f : Stat → Int) (k : String) (s : Stat) (b : Int) (m : Bucket) :
    covSum f (bucketAggs (upsertAgg k s b m)) = covSum f (bucketAggs m) + f s := by
  induction m with
  | nil => simp [upsertAgg, bucketAggs, covSum, sumBy, update_cov, newAgg]
  | cons q r ih =>
    obtain ⟨k', a⟩ := q
    unfold upsertAgg
    by_cases h : k' = k
    · simp only [h, if_true, bucketAggs, List.map_cons, covSum, sumBy, update_cov, sumBy_append]; omega
    · simp only [h, if_false, bucketAggs, List.map_cons, covSum, sumBy] at ih ⊢; omega

theorem covSum_heldAggs_cons (f : Stat → Int) (p : Int × Bucket) (r : List (Int × Bucket)) :
    covSum f (heldAggs (p :: r)) = covSum f (bucketAggs p.2) + covSum f (heldAggs r) := by
  simp only [heldAggs, List.flatMap_cons, covSum, sumBy_append]

theorem covSum_upsertBucket (f : Stat → Int) (b : Int) (k : String) (s : Stat) (h : List (Int × Bucket)) :
    covSum f (heldAggs (upsertBucket b k s h)) = covSum f (heldAggs h) + f s := by
  induction h with
  | nil => simp [upsertBucket, heldAggs, bucketAggs, covSum, sumBy, update_cov, newAgg]
  | cons p r ih =>
    obtain ⟨b', m⟩ := p
    unfold upsertBucket
    by_cases hb : b' = b
    · simp only [hb, if_true, covSum_heldAggs_cons, covSum_upsertAgg]; omega
    · simp only [hb, if_false, covSum_heldAggs_cons, ih]; omega

theorem covSum_heldAggs_filter (f : Stat → Int) (p : Int × Bucket → Bool) (h : List (Int × Bucket)) :
    covSum f (heldAggs (h.filter p)) + covSum f (heldAggs (h.filter fun x => !p x)) = covSum f (heldAggs h) := by
  simp only [covSum, heldAggs, sumBy_flatMap]
  exact sumBy_filter_split _ p h

/-- weight added by one op -/
def opWeight (f : Stat → Int) : Op → Int
  | .add s => f s
  | _ => 0

theorem covSum_step (f : Stat → Int) (c : Cfg) (st : State) (op : Op) :
    covSum f (allAggs (step c st op)) = covSum f (allAggs st) + opWeight f op := by
  cases op with
  | check s now =>
    simp only [step, opWeight]
    split <;> simp [allAggs]
  | add s =>
    simp only [step, opWeight, allAggs, covSum, sumBy_append]
    have := covSum_upsertBucket f (bucketOf c s.ts) (aggKey s.id) s st.held
    simp only [covSum] at this
    omega
  | scan nows =>
    simp only [step, opWeight, allAggs, covSum, sumBy_append]
    have := covSum_heldAggs_filter f (fun p => scanExpired c nows p.1) st.held
    simp only [covSum] at this
    omega

theorem sumBy_added_cons (f : Stat → Int) (op : Op) (ops : List Op) :
    sumBy f (added (op :: ops)) = opWeight f op + sumBy f (added ops) := by
  cases op <;> simp [added, opWeight, sumBy]

theorem covSum_run (f : Stat → Int) (c : Cfg) (ops : List Op) (st : State) :
    covSum f (allAggs (run c st ops)) = covSum f (allAggs st) + sumBy f (added ops) := by
  induction ops generalizing st with
  | nil => simp [run, added, sumBy]
  | cons op r ih =>
    have := ih (step c st op)
    simp only [run, List.foldl_cons] at this ⊢
    rw [this, covSum_step, sumBy_added_cons]; omega

/-! ### the invariant -/

def InRange64 (v : Int) : Prop := minInt64 ≤ v ∧ v ≤ maxInt64

/-- what holds of every aggregate, held or reported -/
structure Good (c : Cfg) (P : Stat → Prop) (a : Agg) : Prop where
  head : ∃ s ∈ a.cov, s.id = a.id
  ne : a.cov ≠ []
  cov : ∀ s ∈ a.cov, P s ∧ aggKey s.id = aggKey a.id ∧ bucketOf c s.ts = a.ts
  value : a.value = sumBy Stat.value a.cov
  count : a.count = a.cov.length
  avg : a.id.typ = .histogram → a.avgNum = a.value ∧ a.avgDen = a.count
  lo : a.id.typ = .histogram → (∀ s ∈ a.cov, InRange64 s.value) →
    (∀ s ∈ a.cov, a.min ≤ s.value) ∧ ∃ s ∈ a.cov, s.value = a.min
  hi : a.id.typ = .histogram → (∀ s ∈ a.cov, InRange64 s.value) →
    (∀ s ∈ a.cov, s.value ≤ a.max) ∧ ∃ s ∈ a.cov, s.value = a.max

theorem good_new (c : Cfg) (P : Stat → Prop) (s : Stat) (hid : P s) :
    Good c P ((newAgg s (bucketOf c s.ts)).update s) := by
  unfold Agg.update newAgg
  cases ht : s.id.typ
  · constructor <;> simp_all [sumBy]
  · constructor
    · simp
    · simp
    · simp_all
    · simp [sumBy]
    · simp
    · simp
    · intro _ hr
      obtain ⟨hlo, hhi⟩ := hr s (by simp)
      have : (if s.value < maxInt64 then s.value else maxInt64) = s.value := by
        split <;> omega
      simp [this]
    · intro _ hr
      obtain ⟨hlo, hhi⟩ := hr s (by simp)
      have : (if s.value > minInt64 then s.value else minInt64) = s.value := by
        split <;> omega
      simp [this]

theorem good_update (c : Cfg) (P : Stat → Prop) (a : Agg) (s : Stat) (g : Good c P a)
    (hid : P s) (hk : aggKey s.id = aggKey a.id) (hb : bucketOf c s.ts = a.ts) :
    Good c P (a.update s) := by
  have hcov : ∀ x ∈ a.cov ++ [s], P x ∧ aggKey x.id = aggKey a.id ∧ bucketOf c x.ts = a.ts := by
    intro x hx
    rcases List.mem_append.1 hx with h | h
    · exact g.cov x h
    · simp only [List.mem_singleton] at h; subst h; exact ⟨hid, hk, hb⟩
  have hval : a.value + s.value = sumBy Stat.value (a.cov ++ [s]) := by
    rw [sumBy_append, ← g.value]; simp [sumBy]
  have hcnt : a.count + 1 = ((a.cov ++ [s]).length : Int) := by
    rw [g.count]; simp
  unfold Agg.update
  cases ht : a.id.typ
  · exact ⟨(by obtain ⟨s0, h0, e0⟩ := g.head; exact ⟨s0, List.mem_append_left _ h0, e0⟩), by simp, hcov, hval, hcnt, by simp [ht], by simp [ht], by simp [ht]⟩
  · refine ⟨(by obtain ⟨s0, h0, e0⟩ := g.head; exact ⟨s0, List.mem_append_left _ h0, e0⟩), by simp, hcov, hval, hcnt, fun _ => ⟨rfl, rfl⟩, fun _ hr => ?_, fun _ hr => ?_⟩
    all_goals
      obtain ⟨hlo1, x, hx, hxe⟩ := g.lo ht (fun z hz => hr z (List.mem_append_left _ hz))
      obtain ⟨hhi1, y, hy, hye⟩ := g.hi ht (fun z hz => hr z (List.mem_append_left _ hz))
      refine ⟨?_, ?_⟩
    · intro z hz
      rcases List.mem_append.1 hz with h | h
      · have := hlo1 z h
        show (if s.value < a.min then s.value else a.min) ≤ z.value
        split <;> omega
      · simp only [List.mem_singleton] at h; subst h
        show (if z.value < a.min then z.value else a.min) ≤ z.value
        split <;> omega
    · show ∃ z ∈ a.cov ++ [s], z.value = (if s.value < a.min then s.value else a.min)
      by_cases h : s.value < a.min
      · exact ⟨s, by simp, by simp [h]⟩
      · exact ⟨x, by simp [hx], by simp [h, hxe]⟩
    · intro z hz
      rcases List.mem_append.1 hz with h | h
      · have := hhi1 z h
        show z.value ≤ (if s.value > a.max then s.value else a.max)
        split <;> omega
      · simp only [List.mem_singleton] at h; subst h
        show z.value ≤ (if z.value > a.max then z.value else a.max)
        split <;> omega
    · show ∃ z ∈ a.cov ++ [s], z.value = (if s.value > a.max then s.value else a.max)
      by_cases h : s.value > a.max
      · exact ⟨s, by simp, by simp [h]⟩
      · exact ⟨y, by simp [hy], by simp [h, hye]⟩

/-- keys and bucket times stored in the table are those of the aggregates -/
def BucketWF (c : Cfg) (P : Stat → Prop) (b : Int) (m : Bucket) : Prop :=
  ∀ q ∈ m, q.1 = aggKey q.2.id ∧ q.2.ts = b ∧ Good c P q.2

def HeldWF (c : Cfg) (P : Stat → Prop) (h : List (Int × Bucket)) : Prop :=
  ∀ p ∈ h, BucketWF c P p.1 p.2

structure Inv (c : Cfg) (P : Stat → Prop) (st : State) : Prop where
  held : HeldWF c P st.held
  reports : ∀ a ∈ st.reports, Good c P a

theorem bucketWF_upsertAgg (c : Cfg) (P : Stat → Prop) (s : Stat) (hid : P s)
    (m : Bucket) (hm : BucketWF c P (bucketOf c s.ts) m) :
    BucketWF c P (bucketOf c s.ts) (upsertAgg (aggKey s.id) s (bucketOf c s.ts) m) := by
  induction m with
  | nil =>
    intro q hq
    simp only [upsertAgg, List.mem_singleton] at hq
    subst hq
    exact ⟨by simp [update_id, newAgg], by simp [update_ts, newAgg], good_new c P s hid⟩
  | cons q0 r ih =>
    obtain ⟨k', a⟩ := q0
    have h0 := hm (k', a) (List.mem_cons_self ..)
    have hr' : BucketWF c P (bucketOf c s.ts) r := fun q hq => hm q (List.mem_cons_of_mem _ hq)
    unfold upsertAgg
    by_cases hk : k' = aggKey s.id
    · simp only [hk, if_true]
      intro q hq
      rcases List.mem_cons.1 hq with h | h
      · subst h
        simp only at h0 ⊢
        refine ⟨by rw [update_id]; exact hk ▸ h0.1, by rw [update_ts]; exact h0.2.1, ?_⟩
        exact good_update c P a s h0.2.2 hid (by rw [← h0.1, hk]) h0.2.1.symm
      · exact hr' q h
    · simp only [hk, if_false]
      intro q hq
      rcases List.mem_cons.1 hq with h | h
      · subst h; exact h0
      · exact ih hr' q h

theorem heldWF_upsertBucket (c : Cfg) (P : Stat → Prop) (s : Stat) (hid : P s)
    (h : List (Int × Bucket)) (hh : HeldWF c P h) :
    HeldWF c P (upsertBucket (bucketOf c s.ts) (aggKey s.id) s h) := by
  induction h with
  | nil =>
    intro p hp
    simp only [upsertBucket, List.mem_singleton] at hp
    subst hp
    intro q hq
    simp only [List.mem_singleton] at hq
    subst hq
    exact ⟨by simp [update_id, newAgg], by simp [update_ts, newAgg], good_new c P s hid⟩
  | cons p0 r ih =>
    obtain ⟨b', m⟩ := p0
    have h0 := hh (b', m) (List.mem_cons_self ..)
    have hr' : HeldWF c P r := fun p hp => hh p (List.mem_cons_of_mem _ hp)
    unfold upsertBucket
    by_cases hb : b' = bucketOf c s.ts
    · simp only [hb, if_true]
      intro p hp
      rcases List.mem_cons.1 hp with h | h
      · subst h
        simp only at h0 ⊢
        exact bucketWF_upsertAgg c P s hid m (hb ▸ h0)
      · exact hr' p h
    · simp only [hb, if_false]
      intro p hp
      rcases List.mem_cons.1 hp with h | h
      · subst h; exact h0
      · exact ih hr' p h

theorem mem_heldAggs {h : List (Int × Bucket)} {a : Agg} :
    a ∈ heldAggs h ↔ ∃ p ∈ h, ∃ q ∈ p.2, q.2 = a := by
  simp only [heldAggs, bucketAggs, List.mem_flatMap, List.mem_map]

/-- ops whose inserted statistics satisfy `P` -/
def OpsOK (P : Stat → Prop) (ops : List Op) : Prop :=
  ∀ s ∈ added ops, P s

theorem inv_step (c : Cfg) (P : Stat → Prop) (st : State) (op : Op) (hi : Inv c P st)
    (hop : ∀ s, op = .add s → P s) : Inv c P (step c st op) := by
  cases op with
  | check s now =>
    simp only [step]; split
    · exact ⟨hi.held, hi.reports⟩
    · exact hi
  | add s =>
    exact ⟨heldWF_upsertBucket c P s (hop s rfl) st.held hi.held, hi.reports⟩
  | scan nows =>
    refine ⟨fun p hp => hi.held p (List.mem_filter.1 hp).1, ?_⟩
    intro a ha
    simp only [step] at ha
    rcases List.mem_append.1 ha with h | h
    · exact hi.reports a h
    · obtain ⟨p, hp, q, hq, rfl⟩ := mem_heldAggs.1 h
      exact (hi.held p (List.mem_filter.1 hp).1 q hq).2.2

theorem inv_run (c : Cfg) (P : Stat → Prop) (ops : List Op) (st : State) (hi : Inv c P st)
    (hops : OpsOK P ops) : Inv c P (run c st ops) := by
  induction ops generalizing st with
  | nil => exact hi
  | cons op r ih =>
    simp only [run, List.foldl_cons]
    apply ih
    · apply inv_step c P st op hi
      intro s hs; subst hs
      exact hops s (by simp [added])
    · intro s hs
      apply hops s
      cases op <;> simp [added, hs]

theorem inv_init (c : Cfg) (P : Stat → Prop) : Inv c P {} :=
  ⟨(by intro p hp; exact absurd hp List.not_mem_nil), (by intro a ha; exact absurd ha List.not_mem_nil)⟩

theorem good_allAggs (c : Cfg) (P : Stat → Prop) (st : State) (hi : Inv c P st) :
    ∀ a ∈ allAggs st, Good c P a := by
  intro a ha
  rcases List.mem_append.1 ha with h | h
  · exact hi.reports a h
  · obtain ⟨p, hp, q, hq, rfl⟩ := mem_heldAggs.1 h
    exact (hi.held p hp q hq).2.2

/-! ### from the ghost bookkeeping to per-(identity, window) sums -/

/-- with an injective key, a good aggregate covers only statistics of its own identity and window -/
theorem good_cov_isFor (c : Cfg) (ids : List Ident) (hkey : KeyInjOn ids) (P : Stat → Prop)
    (hP : ∀ s, P s → s.id ∈ ids) (a : Agg) (g : Good c P a) (id : Ident) (win : Int) :
    ∀ s ∈ a.cov, Stat.isFor c id win s = Agg.isFor id win a := by
  intro s hs
  obtain ⟨s0, h0, e0⟩ := g.head
  have ha : a.id ∈ ids := e0 ▸ hP s0 (g.cov s0 h0).1
  obtain ⟨hp, hk, hb⟩ := g.cov s hs
  have : s.id = a.id := hkey _ (hP s hp) _ ha hk
  simp only [Stat.isFor, Agg.isFor, this, hb]

/-- master equation: any measure `m` on aggregates that is the `f`-sum of the covered statistics is
conserved per (identity, window) -/
theorem conservation_gen (c : Cfg) (ids : List Ident) (hkey : KeyInjOn ids) (ops : List Op)
    (hops : ∀ s ∈ added ops, s.id ∈ ids) (m : Agg → Int) (f : Stat → Int)
    (hm : ∀ a, Good c (fun s => s.id ∈ ids) a → m a = sumBy f a.cov) (id : Ident) (win : Int) :
    sumBy m ((allAggs (run c {} ops)).filter (Agg.isFor id win))
      = sumBy f ((added ops).filter (Stat.isFor c id win)) := by
  have hinv := inv_run c (fun s => s.id ∈ ids) ops {} (inv_init c _) hops
  have hgood := good_allAggs c _ _ hinv
  rw [sumBy_filter_ite, sumBy_filter_ite]
  have h1 : sumBy (fun a => if Agg.isFor id win a = true then m a else 0) (allAggs (run c {} ops))
      = covSum (fun s => if Stat.isFor c id win s = true then f s else 0) (allAggs (run c {} ops)) := by
    unfold covSum
    apply sumBy_congr
    intro a ha
    have g := hgood a ha
    have hc := good_cov_isFor c ids hkey _ (fun _ h => h) a g id win
    cases hf : Agg.isFor id win a
    · simp only [Bool.false_eq_true, if_false]
      symm; apply sumBy_zero
      intro s hs; simp [hc s hs, hf]
    · simp only [if_true]
      rw [hm a g]
      apply sumBy_congr
      intro s hs; simp [hc s hs, hf]
  rw [h1, covSum_run]
  simp [allAggs, heldAggs, covSum, sumBy]

theorem filter_allAggs (st : State) (p : Agg → Bool) :
    (allAggs st).filter p = st.reports.filter p ++ (heldAggs st.held).filter p := by
  simp [allAggs]

/-! ### the ingest worker's sequencing -/

theorem count_toList_some {α} [BEq α] (s x : α) :
    (some x : Option α).toList.count s = if x == s then 1 else 0 := by
  simp [Option.toList, List.count_cons]

theorem partition_wf (c : Cfg) (ops : List Op) : ∀ (p : Option Stat), wf c p ops = true → ∀ s : Stat,
    (recorded ops).count s + p.toList.count s
      = ((droppedBy c ops).map (·.1)).count s + (added ops).count s + (pendingAfter c p ops).toList.count s := by
  induction ops with
  | nil => intro p _ s; simp [recorded, droppedBy, added, pendingAfter]
  | cons op r ih =>
    intro p hw s
    cases op with
    | scan nows =>
      simp only [wf] at hw
      simpa [recorded, droppedBy, added, pendingAfter] using ih p hw s
    | check s' now =>
      cases p with
      | some s0 => simp [wf] at hw
      | none =>
        simp only [wf] at hw
        by_cases he : expired c (bucketOf c s'.ts) now = true
        · simp only [he, if_true] at hw
          have := ih none hw s
          simp only [recorded, droppedBy, pendingAfter, added, he, if_true, List.map_cons, List.count_cons,
            Option.toList, List.count_nil] at this ⊢
          omega
        · simp only [he] at hw
          have := ih (some s') hw s
          simp only [recorded, droppedBy, pendingAfter, added, he, if_false, List.count_cons,
            Option.toList, List.count_nil, Bool.false_eq_true] at this ⊢
          omega
    | add s' =>
      cases p with
      | none => simp [wf] at hw
      | some s0 =>
        simp only [wf, Bool.and_eq_true, beq_iff_eq] at hw
        obtain ⟨he, hw⟩ := hw
        subst he
        have := ih none hw s
        simp only [recorded, droppedBy, pendingAfter, added, List.count_cons,
          Option.toList, List.count_nil] at this ⊢
        omega

theorem dropped_run (c : Cfg) (ops : List Op) : ∀ st : State,
    (run c st ops).dropped = st.dropped ++ droppedBy c ops := by
  induction ops with
  | nil => intro st; simp [run, droppedBy]
  | cons op r ih =>
    intro st
    have := ih (step c st op)
    simp only [run, List.foldl_cons] at this ⊢
    rw [this]
    cases op with
    | check s now =>
      simp only [step, droppedBy]
      split <;> simp
    | add s => simp [step, droppedBy]
    | scan nows => simp [step, droppedBy]

theorem droppedBy_expired (c : Cfg) (ops : List Op) :
    ∀ p ∈ droppedBy c ops, Op.check p.1 p.2 ∈ ops ∧ expired c (bucketOf c p.1.ts) p.2 = true := by
  induction ops with
  | nil => intro p hp; simp [droppedBy] at hp
  | cons op r ih =>
    intro p hp
    cases op with
    | check s now =>
      simp only [droppedBy] at hp
      split at hp
      · rcases List.mem_cons.1 hp with h | h
        · subst h; exact ⟨List.mem_cons_self .., by assumption⟩
        · exact ⟨List.mem_cons_of_mem _ (ih p h).1, (ih p h).2⟩
      · exact ⟨List.mem_cons_of_mem _ (ih p hp).1, (ih p hp).2⟩
    | add s => simp only [droppedBy] at hp; exact ⟨List.mem_cons_of_mem _ (ih p hp).1, (ih p hp).2⟩
    | scan nows => simp only [droppedBy] at hp; exact ⟨List.mem_cons_of_mem _ (ih p hp).1, (ih p hp).2⟩

theorem sumBy_indicator (s : Stat) (l : List Stat) :
    sumBy (fun x => if x = s then (1 : Int) else 0) l = (l.count s : Int) := by
  induction l with
  | nil => simp [sumBy]
  | cons a r ih =>
    simp only [sumBy, ih, List.count_cons, beq_iff_eq]
    split <;> simp <;> omega

end PgBifrost.Aggregator
