import PgBifrost.Model.Batch
/-!
# What the batcher relies on from a batch implementation (`Laws`), proved for the three kinds

`big m` / `bad m` say which records the kind drops as over-size / invalid. The laws are per
answer class of `Add`:

* ok       ⇒ payload extended by exactly that record, same partition key, `txns` updated,
             record neither too big nor invalid;
* too big  ⇒ record is `big`, payload and key unchanged, `txns` updated (the drop is counted);
* invalid  ⇒ record is `bad` (and not `big`), batch unchanged;
* can't fit⇒ record is not `big` (the returned batch is ignored by the batcher);
* full     ⇒ batch unchanged;
* a fresh batch never answers full, and never answers can't-fit for a record in `dom`
  (`dom` = the records for which the can't-fit retry terminates; all records for the generic
  and Kafka batches, "record + Kinesis key fits an empty batch" for Kinesis).

`NoFatal` (`Add` answers "full" only for a batch that `IsFull` reports) is what makes the
batcher's fatal branch unreachable.
-/
namespace PgBifrost.Batch

structure Laws (K : Kind) (big bad : Msg → Bool) (dom : Msg → Prop) : Prop where
  ok_payload : ∀ (b : Batch) (m : Msg) (b' : Batch), K.add b m = (.ok, b') →
    b'.payload = b.payload ++ [m] ∧ b'.pkey = b.pkey ∧ b'.txns = updateTxns b.txns m
  ok_good : ∀ (b : Batch) (m : Msg) (b' : Batch), K.add b m = (.ok, b') → big m = false ∧ bad m = false
  tooBig_big : ∀ (b : Batch) (m : Msg) (b' : Batch), K.add b m = (.tooBig, b') →
    big m = true ∧ b'.payload = b.payload ∧ b'.pkey = b.pkey ∧ b'.txns = updateTxns b.txns m
  invalid_bad : ∀ (b : Batch) (m : Msg) (b' : Batch), K.add b m = (.invalid, b') →
    big m = false ∧ bad m = true ∧ b' = b
  cantFit_small : ∀ (b : Batch) (m : Msg) (b' : Batch), K.add b m = (.cantFit, b') → big m = false
  full_same : ∀ (b : Batch) (m : Msg) (b' : Batch), K.add b m = (.full, b') → b' = b
  fresh_not_cantFit : ∀ (pk : PKey) (m : Msg), dom m → (K.add (fresh pk) m).1 ≠ .cantFit
  fresh_not_full : ∀ (pk : PKey) (m : Msg), (K.add (fresh pk) m).1 ≠ .full

/-- `Add` answers "batch is full" only when `IsFull` is true -/
def NoFatal (K : Kind) : Prop := ∀ (b : Batch) (m : Msg) (b' : Batch), K.add b m = (.full, b') → K.isFull b = true

/-! ## generic -/

def genericBig : Msg → Bool := fun _ => false
def genericBad : Msg → Bool := fun _ => false

theorem generic_add_cases (n : Nat) (b : Batch) (m : Msg) :
    (b.payload.length = n ∧ (genericKind n).add b m = (.full, b)) ∨
    (b.payload.length ≠ n ∧ (genericKind n).add b m =
      (.ok, { b with payload := b.payload ++ [m], bytes := b.bytes + m.size, txns := updateTxns b.txns m })) := by
  by_cases h : b.payload.length = n
  · left; exact ⟨h, by simp [genericKind, h]⟩
  · right; exact ⟨h, by simp [genericKind, h]⟩

theorem genericLaws (n : Nat) (hn : 1 ≤ n) : Laws (genericKind n) genericBig genericBad (fun _ => True) where
  ok_payload := by
    intro b m b' hadd
    rcases generic_add_cases n b m with ⟨_, h⟩ | ⟨_, h⟩ <;> rw [h] at hadd <;> simp at hadd
    subst hadd; simp
  ok_good := by intros; simp [genericBig, genericBad]
  tooBig_big := by
    intro b m b' hadd
    rcases generic_add_cases n b m with ⟨_, h⟩ | ⟨_, h⟩ <;> rw [h] at hadd <;> simp at hadd
  invalid_bad := by
    intro b m b' hadd
    rcases generic_add_cases n b m with ⟨_, h⟩ | ⟨_, h⟩ <;> rw [h] at hadd <;> simp at hadd
  cantFit_small := by intros; simp [genericBig]
  full_same := by
    intro b m b' hadd
    rcases generic_add_cases n b m with ⟨_, h⟩ | ⟨_, h⟩ <;> rw [h] at hadd <;> simp at hadd
    exact hadd.symm
  fresh_not_cantFit := by
    intro pk m _
    rcases generic_add_cases n (fresh pk) m with ⟨_, h⟩ | ⟨_, h⟩ <;> rw [h] <;> simp
  fresh_not_full := by
    intro pk m
    rcases generic_add_cases n (fresh pk) m with ⟨h0, _⟩ | ⟨_, h⟩
    · simp [fresh] at h0; omega
    · rw [h]; simp

theorem genericNoFatal (n : Nat) : NoFatal (genericKind n) := by
  intro b m b' hadd
  rcases generic_add_cases n b m with ⟨h0, _⟩ | ⟨_, h⟩
  · simp [genericKind, h0]
  · rw [h] at hadd; simp at hadd

/-! ## Kinesis -/

def kinesisBig (maxRecord : Nat) : Msg → Bool := fun m => decide (maxRecord < m.size)
def kinesisBad (meth : KinesisMethod) : Msg → Bool := fun m => kinesisKeyLen meth m == 0

/-- the five answers of `KinesisBatch.Add`, in the order of its checks -/
theorem kinesis_add_cases (R B S : Nat) (meth : KinesisMethod) (b : Batch) (m : Msg) :
    (S < m.size ∧ (kinesisKind R B S meth).add b m = (.tooBig, { b with txns := updateTxns b.txns m })) ∨
    (m.size ≤ S ∧ R ≤ b.payload.length ∧ (kinesisKind R B S meth).add b m = (.full, b)) ∨
    (m.size ≤ S ∧ b.payload.length < R ∧ B < m.size + kinesisKeyLen meth m + b.bytes ∧
      (kinesisKind R B S meth).add b m = (.cantFit, b)) ∨
    (m.size ≤ S ∧ b.payload.length < R ∧ m.size + kinesisKeyLen meth m + b.bytes ≤ B ∧
      kinesisKeyLen meth m = 0 ∧ (kinesisKind R B S meth).add b m = (.invalid, b)) ∨
    (m.size ≤ S ∧ b.payload.length < R ∧ m.size + kinesisKeyLen meth m + b.bytes ≤ B ∧
      kinesisKeyLen meth m ≠ 0 ∧ (kinesisKind R B S meth).add b m =
        (.ok, { b with payload := b.payload ++ [m], bytes := b.bytes + (m.size + kinesisKeyLen meth m),
                       txns := updateTxns b.txns m })) := by
  by_cases h1 : S < m.size
  · left; exact ⟨h1, by simp [kinesisKind, h1]⟩
  · right
    by_cases h2 : R ≤ b.payload.length
    · left; exact ⟨by omega, h2, by simp [kinesisKind, h1, h2]⟩
    · right
      by_cases h3 : B < m.size + kinesisKeyLen meth m + b.bytes
      · left; exact ⟨by omega, by omega, h3, by simp [kinesisKind, h1, h2, h3]⟩
      · right
        by_cases h4 : kinesisKeyLen meth m = 0
        · left; exact ⟨by omega, by omega, by omega, h4, by simp [kinesisKind, h1, h2, h4]; omega⟩
        · right; exact ⟨by omega, by omega, by omega, h4, by simp [kinesisKind, h1, h2, h3, h4]⟩

/-- a record within the per-record limit, plus its Kinesis key, fits an empty batch (the real code
would retry forever on a record violating this; it needs a key longer than 4 MiB) -/
def kinesisFits (B S : Nat) (meth : KinesisMethod) (m : Msg) : Prop :=
  m.size ≤ S → m.size + kinesisKeyLen meth m ≤ B

theorem kinesisLaws (R B S : Nat) (meth : KinesisMethod) (hrec : 1 ≤ R) :
    Laws (kinesisKind R B S meth) (kinesisBig S) (kinesisBad meth) (kinesisFits B S meth) where
  ok_payload := by
    intro b m b' hadd
    rcases kinesis_add_cases R B S meth b m with ⟨_, h⟩ | ⟨_, _, h⟩ | ⟨_, _, _, h⟩ | ⟨_, _, _, _, h⟩ | ⟨_, _, _, _, h⟩ <;>
      rw [h] at hadd <;> simp at hadd
    subst hadd; simp
  ok_good := by
    intro b m b' hadd
    rcases kinesis_add_cases R B S meth b m with ⟨_, h⟩ | ⟨_, _, h⟩ | ⟨_, _, _, h⟩ | ⟨_, _, _, _, h⟩ | ⟨h1, _, _, h4, h⟩ <;>
      rw [h] at hadd <;> simp at hadd
    simp [kinesisBig, kinesisBad, h4]; omega
  tooBig_big := by
    intro b m b' hadd
    rcases kinesis_add_cases R B S meth b m with ⟨h1, h⟩ | ⟨_, _, h⟩ | ⟨_, _, _, h⟩ | ⟨_, _, _, _, h⟩ | ⟨_, _, _, _, h⟩ <;>
      rw [h] at hadd <;> simp at hadd
    subst hadd; simp [kinesisBig, h1]
  invalid_bad := by
    intro b m b' hadd
    rcases kinesis_add_cases R B S meth b m with ⟨_, h⟩ | ⟨_, _, h⟩ | ⟨_, _, _, h⟩ | ⟨h1, _, _, h4, h⟩ | ⟨_, _, _, _, h⟩ <;>
      rw [h] at hadd <;> simp at hadd
    subst hadd; simp [kinesisBig, kinesisBad, h4]; omega
  cantFit_small := by
    intro b m b' hadd
    rcases kinesis_add_cases R B S meth b m with ⟨_, h⟩ | ⟨_, _, h⟩ | ⟨h1, _, _, h⟩ | ⟨_, _, _, _, h⟩ | ⟨_, _, _, _, h⟩ <;>
      rw [h] at hadd <;> simp at hadd
    simp [kinesisBig]; omega
  full_same := by
    intro b m b' hadd
    rcases kinesis_add_cases R B S meth b m with ⟨_, h⟩ | ⟨_, _, h⟩ | ⟨_, _, _, h⟩ | ⟨_, _, _, _, h⟩ | ⟨_, _, _, _, h⟩ <;>
      rw [h] at hadd <;> simp at hadd
    exact hadd.symm
  fresh_not_cantFit := by
    intro pk m hfit
    rcases kinesis_add_cases R B S meth (fresh pk) m with ⟨_, h⟩ | ⟨_, _, h⟩ | ⟨h1, _, h3, h⟩ | ⟨_, _, _, _, h⟩ | ⟨_, _, _, _, h⟩ <;>
      try (rw [h]; simp)
    have := hfit h1
    simp [fresh] at h3; omega
  fresh_not_full := by
    intro pk m
    rcases kinesis_add_cases R B S meth (fresh pk) m with ⟨_, h⟩ | ⟨_, h2, h⟩ | ⟨_, _, _, h⟩ | ⟨_, _, _, _, h⟩ | ⟨_, _, _, _, h⟩ <;>
      try (rw [h]; simp)
    simp [fresh] at h2; omega

/-- weakening the domain -/
theorem Laws.mono {K : Kind} {big bad : Msg → Bool} {dom dom' : Msg → Prop} (h : Laws K big bad dom)
    (hd : ∀ m, dom' m → dom m) : Laws K big bad dom' :=
  { h with fresh_not_cantFit := fun pk m hm => h.fresh_not_cantFit pk m (hd m hm) }

/-- the laws under the global size hypothesis (all records fit an empty batch) -/
theorem kinesisLaws_of_fit (R B S : Nat) (meth : KinesisMethod) (hrec : 1 ≤ R)
    (hfit : ∀ m : Msg, m.size ≤ S → m.size + kinesisKeyLen meth m ≤ B) :
    Laws (kinesisKind R B S meth) (kinesisBig S) (kinesisBad meth) (fun _ => True) :=
  (kinesisLaws R B S meth hrec).mono (fun m _ => hfit m)

theorem kinesisNoFatal (R B S : Nat) (meth : KinesisMethod) : NoFatal (kinesisKind R B S meth) := by
  intro b m b' hadd
  rcases kinesis_add_cases R B S meth b m with ⟨_, h⟩ | ⟨_, h2, h⟩ | ⟨_, _, _, h⟩ | ⟨_, _, _, _, h⟩ | ⟨_, _, _, _, h⟩ <;>
    rw [h] at hadd <;> simp at hadd
  simp [kinesisKind, h2]

/-! ## Kafka -/

def kafkaBig (maxBytes : Nat) : Msg → Bool := fun m => decide (maxBytes < m.ksize)
def kafkaBad : Msg → Bool := fun _ => false

theorem kafka_add_cases (n maxBytes : Nat) (b : Batch) (m : Msg) :
    (b.payload.length = n ∧ (kafkaKind n maxBytes).add b m = (.full, b)) ∨
    (b.payload.length ≠ n ∧ maxBytes < m.ksize ∧
      (kafkaKind n maxBytes).add b m = (.tooBig, { b with txns := updateTxns b.txns m })) ∨
    (b.payload.length ≠ n ∧ m.ksize ≤ maxBytes ∧ (kafkaKind n maxBytes).add b m =
      (.ok, { b with payload := b.payload ++ [m], bytes := b.bytes + m.size, txns := updateTxns b.txns m })) := by
  by_cases h : b.payload.length = n
  · left; exact ⟨h, by simp [kafkaKind, h]⟩
  · right
    by_cases h2 : maxBytes < m.ksize
    · left; exact ⟨h, h2, by simp [kafkaKind, h, h2]⟩
    · right; exact ⟨h, by omega, by simp [kafkaKind, h, h2]⟩

theorem kafkaLaws (n maxBytes : Nat) (hn : 1 ≤ n) : Laws (kafkaKind n maxBytes) (kafkaBig maxBytes) kafkaBad (fun _ => True) where
  ok_payload := by
    intro b m b' hadd
    rcases kafka_add_cases n maxBytes b m with ⟨_, h⟩ | ⟨_, _, h⟩ | ⟨_, _, h⟩ <;> rw [h] at hadd <;> simp at hadd
    subst hadd; simp
  ok_good := by
    intro b m b' hadd
    rcases kafka_add_cases n maxBytes b m with ⟨_, h⟩ | ⟨_, _, h⟩ | ⟨_, h2, h⟩ <;> rw [h] at hadd <;> simp at hadd
    simp [kafkaBig, kafkaBad]; omega
  tooBig_big := by
    intro b m b' hadd
    rcases kafka_add_cases n maxBytes b m with ⟨_, h⟩ | ⟨_, h2, h⟩ | ⟨_, _, h⟩ <;> rw [h] at hadd <;> simp at hadd
    subst hadd; simp [kafkaBig, h2]
  invalid_bad := by
    intro b m b' hadd
    rcases kafka_add_cases n maxBytes b m with ⟨_, h⟩ | ⟨_, _, h⟩ | ⟨_, _, h⟩ <;> rw [h] at hadd <;> simp at hadd
  cantFit_small := by
    intro b m b' hadd
    rcases kafka_add_cases n maxBytes b m with ⟨_, h⟩ | ⟨_, _, h⟩ | ⟨_, _, h⟩ <;> rw [h] at hadd <;> simp at hadd
  full_same := by
    intro b m b' hadd
    rcases kafka_add_cases n maxBytes b m with ⟨_, h⟩ | ⟨_, _, h⟩ | ⟨_, _, h⟩ <;> rw [h] at hadd <;> simp at hadd
    exact hadd.symm
  fresh_not_cantFit := by
    intro pk m _
    rcases kafka_add_cases n maxBytes (fresh pk) m with ⟨_, h⟩ | ⟨_, _, h⟩ | ⟨_, _, h⟩ <;> rw [h] <;> simp
  fresh_not_full := by
    intro pk m
    rcases kafka_add_cases n maxBytes (fresh pk) m with ⟨h0, _⟩ | ⟨_, _, h⟩ | ⟨_, _, h⟩
    · simp [fresh] at h0; omega
    · rw [h]; simp
    · rw [h]; simp

theorem kafkaNoFatal (n maxBytes : Nat) : NoFatal (kafkaKind n maxBytes) := by
  intro b m b' hadd
  rcases kafka_add_cases n maxBytes b m with ⟨h0, _⟩ | ⟨_, _, h⟩ | ⟨_, _, h⟩
  · simp [kafkaKind, h0]
  · rw [h] at hadd; simp at hadd
  · rw [h] at hadd; simp at hadd

end PgBifrost.Batch
