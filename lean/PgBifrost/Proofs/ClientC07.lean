import PgBifrost.Proofs.Client
/-! Step facts about forwards and the framing flags; run-level invariants for C07 / C18 / C02. -/
namespace PgBifrost.ClientProofs
open PgBifrost.Client PgBifrost.Spec.Client

/-- what one event forwards, as a function of the framing state before it -/
def fwdsExp (v : Variant) (s : State) : Msg → List (Op × String × Key × Nat)
  | .data lsn (.begin x) n _ => if beginDropped s then [] else [(.begin, x, some (x, n), lsn)]
  | .data lsn (.commit _) _ _ => [(.commit, s.txn, s.key, lsn)]
  | .data lsn .change _ _ => [(.change, s.txn, s.key, lsn)]
  | .errorResponse _ => fwdsOf (recoveryFwd v s)
  | _ => []

def txnExp (v : Variant) (s : State) : Msg → String
  | .data _ (.begin x) _ _ => if beginDropped s then (if v = .fixedC then s.txn else x) else x
  | _ => s.txn
def keyExp (v : Variant) (s : State) : Msg → Key
  | .data _ (.begin x) n _ => if beginDropped s then (if v = .fixedC then s.key else some (x, n)) else some (x, n)
  | _ => s.key
def sawExp (s : State) : Msg → Bool
  | .data _ (.begin _) _ _ => false
  | .data _ (.commit _) _ _ => true
  | .errorResponse _ => false
  | _ => s.sawCommit
def firstExp (s : State) : Msg → Bool
  | .data _ (.begin _) _ _ => beginDropped s
  | .errorResponse _ => true
  | _ => s.firstIter
/-- does the event close the connection although `Start` goes on -/
def closeExp (s : State) : Msg → Bool
  | .data _ (.begin _) _ _ => beginDropped s
  | .errorResponse _ => true
  | _ => false

@[simp] theorem fwdsOf_fwd (o : Op) (t : String) (k : Key) (l : Nat) (r : List Action) :
    fwdsOf (.fwd o t k l :: r) = (o, t, k, l) :: fwdsOf r := rfl
@[simp] theorem fwdsOf_close (r : List Action) : fwdsOf (.close :: r) = fwdsOf r := rfl
@[simp] theorem fwdsOf_exit (x : String) (r : List Action) : fwdsOf (.exit x :: r) = fwdsOf r := rfl
@[simp] theorem fwdsOf_identify (r : List Action) : fwdsOf (.identify :: r) = fwdsOf r := rfl
@[simp] theorem fwdsOf_getplain (b : Bool) (r : List Action) : fwdsOf (.getplain b :: r) = fwdsOf r := rfl
@[simp] theorem hasClose_close (r : List Action) : hasClose (.close :: r) = true := rfl
@[simp] theorem hasClose_fwd (o : Op) (t : String) (k : Key) (l : Nat) (r : List Action) :
    hasClose (.fwd o t k l :: r) = hasClose r := rfl
@[simp] theorem hasExit_exit (x : String) (r : List Action) : hasExit (.exit x :: r) = true := rfl
@[simp] theorem hasExit_fwd (o : Op) (t : String) (k : Key) (l : Nat) (r : List Action) :
    hasExit (.fwd o t k l :: r) = hasExit r := rfl
@[simp] theorem hasExit_close (r : List Action) : hasExit (.close :: r) = hasExit r := rfl
@[simp] theorem hasExit_identify (r : List Action) : hasExit (.identify :: r) = hasExit r := rfl
@[simp] theorem hasExit_getplain (b : Bool) (r : List Action) : hasExit (.getplain b :: r) = hasExit r := rfl
@[simp] theorem hasExit_recoveryFwd (v : Variant) (s : State) : hasExit (recoveryFwd v s) = false := by
  cases v <;> simp [recoveryFwd] <;> split <;> simp
@[simp] theorem hasClose_recoveryFwd (v : Variant) (s : State) : hasClose (recoveryFwd v s) = false := by
  cases v <;> simp [recoveryFwd] <;> split <;> simp

@[simp] theorem beginDropped_feed1 (s : State) (b : List Nat) : beginDropped (feed1 s b) = beginDropped s := rfl
@[simp] theorem recoveryFwd_feed1 (v : Variant) (s : State) (b : List Nat) :
    recoveryFwd v (feed1 s b) = recoveryFwd v s := by
  cases v <;> rfl

/-- forwards, exit, close and the framing fields after one event from a running state -/
theorem step_frame (v : Variant) (s : State) (e : Ev) (hr : s.phase = .running) :
    fwdsOf (step v s e).2 = fwdsExp v s e.msg ∧
      ((hasExit (step v s e).2 = true ∧ (step v s e).1.phase = .exited) ∨
        (hasExit (step v s e).2 = false ∧ (step v s e).1.phase = .running ∧
          hasClose (step v s e).2 = closeExp s e.msg ∧
          (step v s e).1.txn = txnExp v s e.msg ∧ (step v s e).1.key = keyExp v s e.msg ∧
          (step v s e).1.sawCommit = sawExp s e.msg ∧ (step v s e).1.firstIter = firstExp s e.msg)) := by
  rw [step_running v s e hr]
  obtain ⟨feed, msg, tick⟩ := e
  cases msg with
  | data lsn p nanos blocks =>
    cases p with
    | begin x =>
      simp only [handleMsg, handleData, beginDropped_feed1]
      by_cases hd : beginDropped s = true <;>
        simp [finish_none, forward_eq, hr, fwdsExp, txnExp, keyExp, sawExp, firstExp, closeExp, hd]
    | commit x =>
      simp [handleMsg, handleData, finish_none, forward_eq, hr, fwdsExp, txnExp, keyExp, sawExp,
        firstExp, closeExp]
    | change =>
      simp [handleMsg, handleData, finish_none, forward_eq, hr, fwdsExp, txnExp, keyExp, sawExp,
        firstExp, closeExp]
    | unparsable =>
      simp [handleMsg, handleData, finish_none, hr, fwdsExp, txnExp, keyExp, sawExp, firstExp, closeExp]
    | parseError =>
      simp [handleMsg, handleData, finish_some, fwdsExp]
  | keepalive reply w el =>
    rw [handleMsg_keepalive]
    cases reply with
    | false => simp [finish_none, hr, fwdsExp, txnExp, keyExp, sawExp, firstExp, closeExp]
    | true =>
      rcases heartbeat_cases (handleProgress (feed1 s feed) true).1 el with h | ⟨c, d, h⟩
      · simp [h, finish_some, fwdsExp]
      · simp [h, finish_none, hr, fwdsExp, txnExp, keyExp, sawExp, firstExp, closeExp]
  | timeout =>
    simp [handleMsg, finish_none, hr, fwdsExp, txnExp, keyExp, sawExp, firstExp, closeExp]
  | errorResponse pos =>
    simp [handleMsg, recover, finish_none, hr, fwdsExp, txnExp, keyExp, sawExp, firstExp, closeExp]
  | closedErr | nil | skip =>
    simp [handleMsg, finish_none, hr, fwdsExp, txnExp, keyExp, sawExp, firstExp, closeExp]
  | kabad | fatalErr | unexpected | copyEmpty =>
    simp [handleMsg, finish_some, fwdsExp]


/-! ## framing (C07: BEGIN without COMMIT) -/

theorem beginDropped_def (s : State) : beginDropped s = (!s.sawCommit && !s.firstIter) := rfl

theorem framing_from (v : Variant) (evs : List Ev) (s : State) (hr : s.phase = .running) :
    framingAux (beginDropped s) (histFrom v s evs) = true := by
  induction evs generalizing s with
  | nil => rfl
  | cons e r ih =>
    rw [histFrom_cons, framingAux]
    obtain ⟨hf, hx | ⟨hne, hrun, hcl, _, _, hsaw, hfirst⟩⟩ := step_frame v s e hr
    · simp [hx.1]
    · have ih' := ih _ hrun
      rw [beginDropped_def (step v s e).1, hsaw, hfirst] at ih'
      simp only [hne, Bool.false_eq_true, ↓reduceIte]
      obtain ⟨feed, msg, tick⟩ := e
      cases msg with
      | data lsn p nanos blocks =>
        cases p with
        | begin x =>
          simp only [hf, hcl, fwdsExp, closeExp, sawExp, firstExp] at ih' ⊢
          by_cases hd : beginDropped s = true
          · simp [hd] at ih' ⊢; exact ih'
          · simp [hd] at ih' ⊢; exact ih'
        | commit x => simpa [sawExp, firstExp] using ih'
        | change => simpa [sawExp, firstExp, beginDropped_def] using ih'
        | unparsable => simpa [sawExp, firstExp, beginDropped_def] using ih'
        | parseError => simpa [sawExp, firstExp, beginDropped_def] using ih'
      | errorResponse pos => simpa [sawExp, firstExp] using ih'
      | _ => simpa [sawExp, firstExp, beginDropped_def] using ih'

theorem framing_hist (v : Variant) (evs : List Ev) : c07Framing (hist v evs) = true := by
  unfold hist
  cases evs with
  | nil => rfl
  | cons e r =>
    rw [histFrom_cons, c07Framing]
    rcases step_first_cases v start.1 e rfl with ⟨_, _, _, _, hx⟩ | ⟨w, _, heq⟩
    · simp [hx]
    · have := framing_from v r (step v start.1 e).1 (by rw [heq]; simp)
      rw [Bool.or_eq_true]; right
      have hb : beginDropped (step v start.1 e).1 = false := by
        rw [heq]; simp [beginDropped_def, start_state]
      rw [hb] at this; exact this

/-! ## C18: the four forced-send sites -/

/-- forced sends caused by the message itself -/
def forcedBase (m : Msg) (as : List Action) : Nat :=
  match m with
  | .keepalive true _ _ => 1
  | .timeout => 1
  | .data _ _ _ blocks => if (fwdsOf as).isEmpty then 0 else blocks.length
  | _ => 0

theorem forcedCount_eq (e : Ev) (as : List Action) :
    forcedCount e as = forcedBase e.msg as + (if e.tick then 1 else 0) := by
  obtain ⟨f, m, t⟩ := e
  cases m <;> simp [forcedCount, forcedBase]
  all_goals (rename_i a _ _; cases a <;> rfl)

theorem handleMsg_forced (v : Variant) (s : State) (m : Msg) (post : List Action) (hp : fwdsOf post = []) :
    (∃ r, (handleMsg v s m).2 = some r) ∨
      forcedBase m ((handleMsg v s m).1.2 ++ post) ≤ (statusesOf (handleMsg v s m).1.2).length := by
  cases m with
  | data lsn p nanos blocks =>
    cases p with
    | begin x =>
      right
      simp only [handleMsg, handleData, forcedBase]
      by_cases hd : beginDropped s = true
      · simp [hd, hp]
      · simp [hd, forward_eq, statusesOf_append, writeLoop_sts_length]
    | commit x =>
      right; simp [handleMsg, handleData, forcedBase, forward_eq, statusesOf_append, writeLoop_sts_length]
    | change =>
      right; simp [handleMsg, handleData, forcedBase, forward_eq, statusesOf_append, writeLoop_sts_length]
    | unparsable => right; simp [handleMsg, handleData, forcedBase, hp]
    | parseError => left; exact ⟨_, rfl⟩
  | keepalive reply w el =>
    rw [handleMsg_keepalive]
    cases reply with
    | false => right; simp [forcedBase]
    | true =>
      rcases heartbeat_cases (handleProgress s true).1 el with h | ⟨c, d, h⟩
      · left; simp [h]
      · right; simp [h, forcedBase, handleProgress_force_sts]
  | timeout => right; simp [handleMsg, forcedBase, handleProgress_force_sts]
  | _ => right; simp [forcedBase]

theorem step_forced (v : Variant) (s : State) (e : Ev) (hr : s.phase = .running) :
    hasExit (step v s e).2 = true ∨
      forcedCount e (step v s e).2 ≤ (statusesOf (step v s e).2).length := by
  rw [step_running v s e hr, forcedCount_eq]
  have htick : ∀ s' : State, (if e.tick then 1 else 0) ≤ (statusesOf (loopTop s' e.tick).2).length := by
    intro s'; cases e.tick
    · simp
    · simp [loopTop_tick_sts]
  have h1 := fun post hp => handleMsg_forced v (feed1 s e.feed) e.msg post hp
  generalize handleMsg v (feed1 s e.feed) e.msg = h at h1
  obtain ⟨⟨sH, aH⟩, r⟩ := h
  cases r with
  | some r => left; simp [finish_some]
  | none =>
    right
    rcases h1 (loopTop sH e.tick).2 (by simp) with ⟨r, hr'⟩ | h1
    · cases hr'
    · rw [finish_none]
      simp only [statusesOf_append, List.length_append]
      have := htick sH
      simp only at h1
      omega

theorem c18_from (v : Variant) (evs : List Ev) (s : State) (hr : s.phase = .running) :
    c18Aux (histFrom v s evs) = true := by
  induction evs generalizing s with
  | nil => rfl
  | cons e r ih =>
    rw [histFrom_cons, c18Aux]
    obtain ⟨_, hx | ⟨_, hrun, _⟩⟩ := step_frame v s e hr
    · simp [hx.1]
    · rcases step_forced v s e hr with h | h
      · simp [h]
      · simp [h, ih _ hrun]

theorem hasStatus_of_sts {as : List Action} {l : Nat} (h : l ∈ statusesOf as) : hasStatus as = true := by
  simp only [statusesOf, List.mem_filterMap] at h
  obtain ⟨a, ha, hl⟩ := h
  rw [hasStatus, List.any_eq_true]
  refine ⟨a, ha, ?_⟩
  cases a <;> simp at hl ⊢

theorem c18_hist (v : Variant) (evs : List Ev) : c18Replies (hist v evs) = true := by
  unfold hist
  cases evs with
  | nil => rfl
  | cons e r =>
    rw [histFrom_cons, c18Replies]
    rcases step_first_cases v start.1 e rfl with ⟨_, _, _, _, hx⟩ | ⟨w, _, heq⟩
    · simp [hx]
    · rw [Bool.or_eq_true]; right
      rw [Bool.and_eq_true]
      refine ⟨?_, c18_from v r _ (by rw [heq]; simp)⟩
      rw [heq]
      cases ht : e.tick
      · simp
      · have := loopTop_tick_sts (firstState (feed1 start.1 e.feed) w)
        simp only [Bool.not_true, Bool.false_or]
        exact hasStatus_of_sts (l := pend (firstState (feed1 start.1 e.feed) w)) (by rw [this]; simp)

end PgBifrost.ClientProofs
