import PgBifrost.Proofs.SysEnv
/-!
# A concrete run of the composed system (non-vacuity of the system theorems)

Two workers (round robin), generic batches of at most 2 records. Transaction 7 (key 70, three rows
of partition key 1) and transaction 8 (key 80, one row of key 1, one of key 2). The first batch
`[1,2]` is dispatched to worker 0 when row 3 arrives; a tick flushes everything: the seen list
(both COMMITs) is handed over first, then an empty batch is self-reported, `[3,6]` goes to worker 1,
`[7]` to worker 0. Worker 0's sink call fails once (retry), worker 1's later batch is accepted
BEFORE worker 0's earlier one; three emits: nothing / 104 / 113.
-/
namespace PgBifrost.Sys
open PgBifrost.Batch PgBifrost.Batcher

def exCfg : Cfg := ⟨genericKind 2, ⟨2, .roundRobin, 1000, 5000, 1000000⟩⟩
def mB (t k lsn id : Nat) : Msg := ⟨.begin, [], t, k, 0, lsn, id, 0⟩
def mC (t k lsn id : Nat) : Msg := ⟨.commit, [], t, k, 0, lsn, id, 0⟩
def mD (pk : UInt8) (t k lsn id : Nat) : Msg := ⟨.data, [pk], t, k, 10, lsn, id, 0⟩

def exActs : List Act :=
  [.feed (mB 7 70 100 0), .feed (mD 1 7 70 101 1), .feed (mD 1 7 70 102 2), .feed (mD 1 7 70 103 3),
   .feed (mC 7 70 104 4),
   .feed (mB 8 80 110 5), .feed (mD 1 8 80 111 6), .feed (mD 2 8 80 112 7), .feed (mC 8 80 113 8),
   .tick [[], [1], [2]],
   .take 0, .take 1, .sinkRetry 0, .sinkAccept 1, .trackWritten, .trackWritten, .emit,
   .sinkAccept 0, .trackWritten, .emit, .take 0, .sinkAccept 0, .trackWritten, .emit]

theorem exKind : KindOK (genericKind 2) genericBig genericBad (fun _ => True) :=
  ⟨genericLaws 2 (by omega), genericNoFatal 2⟩

theorem exEnv : Env false (genericKind 2) genericBig genericBad (fun _ => True) exActs :=
  ⟨exKind, fun _ _ _ => trivial, ⟨{ cur := none, used := [80, 70], usedT := [8, 7], last := 113, intr := [] }, by decide⟩⟩

/-- the same run stopped before the last emit -/
def exActs' : List Act := exActs.dropLast

theorem exEnv' : Env false (genericKind 2) genericBig genericBad (fun _ => True) exActs' :=
  ⟨exKind, fun _ _ _ => trivial, ⟨{ cur := none, used := [80, 70], usedT := [8, 7], last := 113, intr := [] }, by decide⟩⟩

set_option maxRecDepth 100000 in
theorem ex_acks : (run exCfg exActs).acks = [104, 113] := by decide

set_option maxRecDepth 100000 in
theorem ex_sink : (run exCfg exActs).sinkAccepted.map (·.id) = [3, 6, 1, 2, 7] := by decide

set_option maxRecDepth 100000 in
theorem ex_trace : ledgerTrace (run exCfg exActs) =
    [.seen 7 70 3 104 true, .seen 8 80 2 113 true, .written 7 70 1, .written 8 80 1, .emit,
     .written 7 70 2, .emit, .written 8 80 1, .emit] := by decide

set_option maxRecDepth 100000 in
theorem ex_quiet' : Quiet (run exCfg exActs') :=
  ⟨by decide, by decide, by decide, by decide, by decide⟩

set_option maxRecDepth 100000 in
theorem ex_ledger' : (run exCfg exActs').ledger = some ⟨[⟨8, 80, 113, 2, 2⟩], [(8, 80)]⟩ := by decide


/-! ## one worker: per-key order -/

def ex1Cfg : Cfg := ⟨genericKind 2, ⟨1, .roundRobin, 1000, 5000, 1000000⟩⟩

def ex1Acts : List Act :=
  [.feed (mB 7 70 100 0), .feed (mD 1 7 70 101 1), .feed (mD 2 7 70 102 2), .feed (mD 1 7 70 103 3),
   .feed (mD 1 7 70 104 4), .feed (mC 7 70 105 5), .tick [[], [2], [1]],
   .take 0, .sinkAccept 0, .take 0, .sinkRetry 0, .sinkAccept 0, .take 0, .sinkAccept 0]

theorem ex1Env : Env false (genericKind 2) genericBig genericBad (fun _ => True) ex1Acts :=
  ⟨exKind, fun _ _ _ => trivial, ⟨{ cur := none, used := [70], usedT := [7], last := 105, intr := [] }, by decide⟩⟩

set_option maxRecDepth 100000 in
theorem ex1_sink : (run ex1Cfg ex1Acts).sinkAccepted.map (·.id) = [1, 3, 2, 4] ∧
    (run ex1Cfg ex1Acts).queue = [] ∧ (run ex1Cfg ex1Acts).held = [] ∧
    (∀ p ∈ (run ex1Cfg ex1Acts).bat.openB, p.2.payload = []) := by decide

/-! ## stage 2: an interrupted delivery, redelivered

Transaction 7 is delivered under key 70 (BEGIN, one row) and interrupted; a tick flushes the batch,
worker 0 takes it, the sink accepts it and the tracker consumes the report (`written 7 70 1`): only
then does the redelivery under key 71 start (BEGIN, row, COMMIT). `redeliverQuiet` holds. -/

def ex2Acts : List Act :=
  [.feed (mB 7 70 100 0), .feed (mD 1 7 70 101 1), .tick [[], [1]], .take 0, .sinkAccept 0,
   .trackWritten, .trackWritten,
   .feed (mB 7 71 100 2), .feed (mD 1 7 71 101 3), .feed (mC 7 71 104 4), .tick [[], [1]],
   .take 1, .sinkAccept 1, .trackWritten, .trackWritten, .emit]

theorem ex2Env : Env true (genericKind 2) genericBig genericBad (fun _ => True) ex2Acts :=
  ⟨exKind, fun _ _ _ => trivial, ⟨{ cur := none, used := [71, 70], usedT := [7], last := 104, intr := [70] }, by decide⟩⟩

set_option maxRecDepth 100000 in
theorem ex2_quiet : redeliverQuiet exCfg ex2Acts = true := by decide

set_option maxRecDepth 100000 in
theorem ex2_trace : ledgerTrace (run exCfg ex2Acts) =
    [.written 7 70 1, .seen 7 71 1 104 true, .written 7 71 1, .emit] := by decide

set_option maxRecDepth 100000 in
theorem ex2_acks : (run exCfg ex2Acts).acks = [104] := by decide

/-- the same input with the redelivery fed while the interrupted delivery's row is still in an open
batch: the scheduling hypothesis fails, and so does `NoStale` (finding F1 is reachable) -/
def ex2Bad : List Act :=
  [.feed (mB 7 70 100 0), .feed (mD 1 7 70 101 1),
   .feed (mB 7 71 100 2), .feed (mD 1 7 71 101 3), .feed (mC 7 71 104 4), .tick [[], [1]],
   .take 0, .sinkAccept 0, .trackWritten, .trackWritten, .emit]

theorem ex2BadEnv : Env true (genericKind 2) genericBig genericBad (fun _ => True) ex2Bad :=
  ⟨exKind, fun _ _ _ => trivial, ⟨{ cur := none, used := [71, 70], usedT := [7], last := 104, intr := [70] }, by decide⟩⟩

set_option maxRecDepth 100000 in
theorem ex2Bad_facts : redeliverQuiet exCfg ex2Bad = false ∧
    ledgerTrace (run exCfg ex2Bad) = [.seen 7 71 1 104 true, .written 7 70 1, .written 7 71 1, .emit] ∧
    (run exCfg ex2Bad).acks = [] := by decide

end PgBifrost.Sys
