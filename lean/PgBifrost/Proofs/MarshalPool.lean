import PgBifrost.Model.MarshalPool
/-! Invariant proof: the pooled model computes the pure model's record from every reachable state. Core only. -/
namespace PgBifrost.Proofs.MarshalPool
open PgBifrost.Marshal PgBifrost.MarshalPool

/-- a pooled value map has no key besides `v`, `t`, `q` (all three are overwritten on use) -/
def valOk (m : ValMap) : Prop := ∀ k, k ≠ "v" → k ≠ "t" → k ≠ "q" → m k = none

/-- a used pair map has no key besides `old`, `new` (both are deleted before it is pooled) -/
def pairOk (p : PairMap) : Prop := ∀ k, k ≠ "old" → k ≠ "new" → p k = none

/-- invariant of the state between calls: pooled pair maps are empty, pooled value maps only carry `v`/`t`/`q`;
`colsTemp` may hold anything -/
def Inv (st : PState) : Prop := (∀ m ∈ st.valPool, valOk m) ∧ (∀ p ∈ st.pairPool, p = SMap.empty)

def WInv (w : Work) : Prop :=
  (∀ m ∈ w.valPool, valOk m) ∧ (∀ m ∈ w.usedVals, valOk m) ∧
  (∀ p ∈ w.pairPool, p = SMap.empty) ∧ (∀ p ∈ w.usedPairs, pairOk p)

theorem inv_pristine : Inv pristine := ⟨by simp [pristine], by simp [pristine]⟩

theorem take_fst {α : Type} (pool : List α) (ch : Option Nat) (fresh : α) :
    (take pool ch fresh).1 = fresh ∨ (take pool ch fresh).1 ∈ pool := by
  cases ch with
  | none => exact Or.inl rfl
  | some i =>
    cases h : pool[i]? with
    | none => left; simp only [take, h]
    | some x => right; simp only [take, h]; exact List.mem_of_getElem? h

theorem take_snd {α : Type} (pool : List α) (ch : Option Nat) (fresh : α) :
    ∀ x ∈ (take pool ch fresh).2, x ∈ pool := by
  cases ch with
  | none => exact fun x h => h
  | some i =>
    cases h : pool[i]? with
    | none => simp only [take, h]; exact fun x h => h
    | some y => simp only [take, h]; exact fun x hx => List.mem_of_mem_eraseIdx hx

theorem valOk_empty : valOk SMap.empty := fun _ _ _ _ => rfl

theorem valOk_jcvMap (j : JCV) : valOk (jcvMap j) := by
  intro k h1 h2 h3
  simp [jcvMap, SMap.set, SMap.empty, h1, h2, h3]

/-- overwriting `v`, `t`, `q` of a map without other keys gives exactly the three-key map -/
theorem set3_eq (m : ValMap) (h : valOk m) (a b c : String) :
    ((m.set "v" a).set "t" b).set "q" c = jcvMap ⟨a, b, c⟩ := by
  funext x
  simp only [jcvMap, SMap.set, SMap.empty]
  by_cases hq : x = "q"
  · simp [hq]
  · by_cases ht : x = "t"
    · simp [ht]
    · by_cases hv : x = "v"
      · simp [hv]
      · simp [hq, ht, hv, h x hv ht hq]

theorem valP_spec (w : Work) (cv : CV) (hw : WInv w) :
    (marshalColumnValueP w cv).1 = jcvMap (marshalColumnValue cv) ∧ WInv (marshalColumnValueP w cv).2 ∧
    (marshalColumnValueP w cv).2.usedPairs = w.usedPairs ∧ (marshalColumnValueP w cv).2.pairPool = w.pairPool := by
  obtain ⟨h1, h2, h3, h4⟩ := hw
  have hm : valOk (take w.valPool w.choices.head?.join SMap.empty).1 := by
    rcases take_fst w.valPool w.choices.head?.join (SMap.empty : ValMap) with h | h
    · rw [h]; exact valOk_empty
    · exact h1 _ h
  have heq : (marshalColumnValueP w cv).1 = jcvMap (marshalColumnValue cv) := set3_eq _ hm _ _ _
  refine ⟨heq, ⟨?_, ?_, h3, h4⟩, rfl, rfl⟩
  · intro m hmem
    exact h1 m (take_snd _ _ _ m hmem)
  · intro m hmem
    have : m ∈ w.usedVals ++ [(marshalColumnValueP w cv).1] := hmem
    rcases List.mem_append.mp this with h | h
    · exact h2 m h
    · rw [List.mem_singleton.mp h, heq]; exact valOk_jcvMap _

theorem pairOk_set_old (v : ValMap) : pairOk ((SMap.empty : PairMap).set "old" v) := by
  intro k h1 _; simp [SMap.set, SMap.empty, h1]

theorem pairOk_set_new (v : ValMap) : pairOk ((SMap.empty : PairMap).set "new" v) := by
  intro k _ h2; simp [SMap.set, SMap.empty, h2]

theorem pairOk_set_both (a b : ValMap) : pairOk (((SMap.empty : PairMap).set "old" a).set "new" b) := by
  intro k h1 h2; simp [SMap.set, SMap.empty, h1, h2]

theorem pairOk_pairMap (p : Option JCV × Option JCV) : pairOk (pairMap p) := by
  obtain ⟨o, n⟩ := p
  cases o <;> cases n <;> simp only [pairMap]
  · intro _ _ _; rfl
  · exact pairOk_set_new _
  · exact pairOk_set_old _
  · exact pairOk_set_both _ _

theorem pairP_spec (w : Work) (n o : Option CV) (hw : WInv w) :
    (marshalColumnValuePairP w n o).1 = pairMap (marshalColumnValuePair n o) ∧
    WInv (marshalColumnValuePairP w n o).2 := by
  have hp : (take w.pairPool w.choices.head?.join (SMap.empty : PairMap)).1 = SMap.empty := by
    rcases take_fst w.pairPool w.choices.head?.join (SMap.empty : PairMap) with h | h
    · exact h
    · exact hw.2.2.1 _ h
  have hw1 : WInv { w with pairPool := (take w.pairPool w.choices.head?.join (SMap.empty : PairMap)).2,
                           choices := w.choices.tail } :=
    ⟨hw.1, hw.2.1, fun p hmem => hw.2.2.1 p (take_snd _ _ _ p hmem), hw.2.2.2⟩
  cases o with
  | none =>
    cases n with
    | none => exact ⟨rfl, hw⟩
    | some nv =>
      obtain ⟨e1, i1, u1, _⟩ := valP_spec _ nv hw1
      simp only [marshalColumnValuePairP, marshalColumnValuePair, Option.map, pairMap]
      rw [hp, e1]
      refine ⟨rfl, i1.1, i1.2.1, i1.2.2.1, ?_⟩
      intro p hmem
      rcases List.mem_append.mp hmem with h | h
      · exact i1.2.2.2 p h
      · rw [List.mem_singleton.mp h]; exact pairOk_set_new _
  | some ov =>
    cases n with
    | none =>
      obtain ⟨e1, i1, u1, _⟩ := valP_spec _ ov hw1
      simp only [marshalColumnValuePairP, marshalColumnValuePair, Option.map, pairMap]
      rw [hp, e1]
      refine ⟨rfl, i1.1, i1.2.1, i1.2.2.1, ?_⟩
      intro p hmem
      rcases List.mem_append.mp hmem with h | h
      · exact i1.2.2.2 p h
      · rw [List.mem_singleton.mp h]; exact pairOk_set_old _
    | some nv =>
      obtain ⟨e1, i1, u1, _⟩ := valP_spec _ ov hw1
      obtain ⟨e2, i2, u2, _⟩ := valP_spec _ nv i1
      simp only [marshalColumnValuePairP, marshalColumnValuePair, Option.map, pairMap]
      rw [hp, e1, e2]
      refine ⟨rfl, i2.1, i2.2.1, i2.2.2.1, ?_⟩
      intro p hmem
      rcases List.mem_append.mp hmem with h | h
      · exact i2.2.2.2 p h
      · rw [List.mem_singleton.mp h]; exact pairOk_set_both _ _

/-- the loop body of the pure model is `marshalColumnValuePair` applied to `pairArgs` -/
theorem colEntry_eq_pairArgs (op : String) (noOld : Bool) (old : List (String × CV)) (kv : String × CV) :
    colEntry op noOld old kv =
      (kv.1, marshalColumnValuePair (pairArgs op noOld old kv).1 (pairArgs op noOld old kv).2) := by
  obtain ⟨k, v⟩ := kv
  simp only [colEntry, pairArgs]
  by_cases hd : op = "DELETE"
  · simp [hd]
  · cases hl : old.lookup k with
    | none => simp [hd]
    | some o =>
      by_cases h1 : v.value = o.value
      · simp [hd, h1]
      · by_cases h2 : v.value = toastMarker
        · have h3 : ¬ toastMarker = o.value := fun e => h1 (h2.trans e)
          cases noOld <;> simp [hd, h2, h3]
        · cases noOld <;> simp [hd, h1, h2]

theorem loopP_spec (op : String) (noOld : Bool) (old : List (String × CV)) :
    ∀ (cols : List (String × CV)) (w : Work) (acc : ColsMap), WInv w →
      (loopP op noOld old w acc cols).1 =
        (cols.map (colEntry op noOld old)).foldl (fun acc e => acc.set e.1 (pairMap e.2)) acc ∧
      WInv (loopP op noOld old w acc cols).2 := by
  intro cols
  induction cols with
  | nil => intro w acc hw; exact ⟨rfl, hw⟩
  | cons kv rest ih =>
    intro w acc hw
    obtain ⟨e, i⟩ := pairP_spec w (pairArgs op noOld old kv).1 (pairArgs op noOld old kv).2 hw
    have := ih (marshalColumnValuePairP w (pairArgs op noOld old kv).1 (pairArgs op noOld old kv).2).2
      (acc.set kv.1 (marshalColumnValuePairP w (pairArgs op noOld old kv).1 (pairArgs op noOld old kv).2).1) i
    simp only [loopP, List.map_cons, List.foldl_cons, colEntry_eq_pairArgs op noOld old kv]
    rw [e] at this ⊢
    exact this

theorem del_del_empty (p : PairMap) (h : pairOk p) : (p.del "old").del "new" = SMap.empty := by
  funext x
  simp only [SMap.del, SMap.empty]
  by_cases h1 : x = "new"
  · simp [h1]
  · by_cases h2 : x = "old"
    · simp [h2]
    · simp [h1, h2, h x h2 h1]

/-- one call: from any state satisfying the invariant, whatever `colsTemp` holds and whichever pooled maps the
`Get`s return, the record handed to the JSON encoder is the pure model's, and the invariant holds again -/
theorem marshalP_spec (noOld : Bool) (st : PState) (ch : List (Option Nat)) (c : Change) (h : Inv st) :
    (marshalP noOld st ch c).1 = pureRecord noOld c ∧ Inv (marshalP noOld st ch c).2 := by
  have hw : WInv ⟨st.valPool, [], st.pairPool, [], ch⟩ := ⟨h.1, by simp, h.2, by simp⟩
  obtain ⟨e, i⟩ := loopP_spec c.operation noOld c.oldColumns c.columns _ SMap.empty hw
  constructor
  · simp only [marshalP, pureRecord, entry, colsMapOf, columns]
    rw [e]
  · constructor
    · intro m hm
      rcases List.mem_append.mp hm with h1 | h1
      · exact i.1 m h1
      · exact i.2.1 m h1
    · intro p hp
      rcases List.mem_append.mp hp with h1 | h1
      · exact i.2.2.1 p h1
      · obtain ⟨q, hq, rfl⟩ := List.mem_map.mp h1
        exact del_del_empty q (i.2.2.2 q hq)

theorem runP_spec (noOld : Bool) : ∀ (steps : List (List (Option Nat) × Bool × Change)) (st : PState), Inv st →
    runP noOld st steps = steps.map fun s => pureRecord noOld s.2.2 := by
  intro steps
  induction steps with
  | nil => intro st _; rfl
  | cons s rest ih =>
    intro st h
    obtain ⟨ch, gc, c⟩ := s
    have h1 : Inv (if gc then { st with valPool := [], pairPool := [] } else st) := by
      cases gc
      · exact h
      · exact ⟨by simp, by simp⟩
    obtain ⟨e, i⟩ := marshalP_spec noOld _ ch c h1
    simp only [runP, List.map_cons]
    rw [e, ih _ i]

end PgBifrost.Proofs.MarshalPool
