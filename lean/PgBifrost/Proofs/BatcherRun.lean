import PgBifrost.Model.Batcher
import PgBifrost.Proofs.BatchLaws
/-!
# Running the batcher model and observing it

`run K cfg ops` folds `Batcher.step` over the ops from the initial state and concatenates the
events. Also: observers of the event log, the decomposition of `onMsg` into small named
phases (`lookup`, `noteCommit`, `noteKey`, `roll`, `addPhase`) and the basic lemmas about the
open-batch association list and `sendBatch`.
-/
namespace PgBifrost.Batcher
open PgBifrost.Batch

/-! ## run -/

def stepAcc (K : Kind) (cfg : Cfg) (acc : State × List Ev) (op : Op) : State × List Ev :=
  ((step K cfg acc.1 op).1, acc.2 ++ (step K cfg acc.1 op).2)

def runFrom (K : Kind) (cfg : Cfg) (acc : State × List Ev) (ops : List Op) : State × List Ev :=
  ops.foldl (stepAcc K cfg) acc

/-- final state and complete event log of the batcher on `ops` (from the initial state) -/
def run (K : Kind) (cfg : Cfg) (ops : List Op) : State × List Ev := runFrom K cfg ({}, []) ops

theorem run_nil (K : Kind) (cfg : Cfg) : run K cfg [] = ({}, []) := rfl

theorem run_snoc (K : Kind) (cfg : Cfg) (ops : List Op) (op : Op) :
    run K cfg (ops ++ [op]) = stepAcc K cfg (run K cfg ops) op := by
  simp [run, runFrom, List.foldl_append]

theorem runFrom_append (K : Kind) (cfg : Cfg) (acc : State × List Ev) (a b : List Op) :
    runFrom K cfg acc (a ++ b) = runFrom K cfg (runFrom K cfg acc a) b := by
  simp [runFrom, List.foldl_append]

/-- the run of `a ++ b` continues the run of `a` -/
theorem run_append (K : Kind) (cfg : Cfg) (a b : List Op) :
    run K cfg (a ++ b) = runFrom K cfg (run K cfg a) b := runFrom_append K cfg _ a b

/-- events are only appended -/
theorem runFrom_events_prefix (K : Kind) (cfg : Cfg) (b : List Op) : ∀ acc : State × List Ev,
    ∃ e, (runFrom K cfg acc b).2 = acc.2 ++ e := by
  induction b with
  | nil => intro acc; exact ⟨[], by simp [runFrom]⟩
  | cons op r ih =>
    intro acc
    obtain ⟨e, he⟩ := ih (stepAcc K cfg acc op)
    exact ⟨(step K cfg acc.1 op).2 ++ e, by
      show (runFrom K cfg (stepAcc K cfg acc op) r).2 = _
      rw [he]; simp [stepAcc]⟩

/-- induction over the run: the only way to establish invariants below -/
theorem run_induction (K : Kind) (cfg : Cfg) (P : List Op → State × List Ev → Prop)
    (h0 : P [] ({}, []))
    (hstep : ∀ (pre : List Op) (acc : State × List Ev) (op : Op), acc = run K cfg pre → P pre acc →
      P (pre ++ [op]) (stepAcc K cfg acc op)) :
    ∀ ops, P ops (run K cfg ops) := by
  suffices h : ∀ (rest pre : List Op), P pre (run K cfg pre) → P (pre ++ rest) (run K cfg (pre ++ rest)) by
    intro ops; simpa using h ops [] h0
  intro rest
  induction rest with
  | nil => intro pre h; simpa using h
  | cons op r ih =>
    intro pre h
    have := ih (pre ++ [op]) (by rw [run_snoc]; exact hstep pre _ op rfl h)
    simpa using this

/-! ## observers of the event log -/

def dispatchOf : Ev → Option Batch
  | .dispatch _ b => some b
  | _ => none

/-- the batches of the `.dispatch` events, in order -/
def dispatched (evs : List Ev) : List Batch := evs.filterMap dispatchOf

def selfReportOf : Ev → Option (List TxnCount)
  | .selfReport t => some t
  | _ => none

def selfReported (evs : List Ev) : List (List TxnCount) := evs.filterMap selfReportOf

def seenOf : Ev → List SeenE
  | .seen l => l
  | _ => []

/-- all seen entries handed to the ledger, in order -/
def seenEntries (evs : List Ev) : List SeenE := evs.flatMap seenOf

theorem dispatched_append (a b : List Ev) : dispatched (a ++ b) = dispatched a ++ dispatched b := by
  simp [dispatched, List.filterMap_append]

theorem selfReported_append (a b : List Ev) : selfReported (a ++ b) = selfReported a ++ selfReported b := by
  simp [selfReported, List.filterMap_append]

theorem seenEntries_append (a b : List Ev) : seenEntries (a ++ b) = seenEntries a ++ seenEntries b := by
  simp [seenEntries, List.flatMap_append]

theorem mem_dispatched {evs : List Ev} {b : Batch} : b ∈ dispatched evs ↔ ∃ w, Ev.dispatch w b ∈ evs := by
  unfold dispatched
  rw [List.mem_filterMap]
  constructor
  · rintro ⟨e, he, hb⟩
    cases e <;> simp [dispatchOf] at hb
    subst hb; exact ⟨_, he⟩
  · rintro ⟨w, hw⟩; exact ⟨_, hw, rfl⟩

theorem mem_selfReported {evs : List Ev} {t : List TxnCount} : t ∈ selfReported evs ↔ Ev.selfReport t ∈ evs := by
  unfold selfReported
  rw [List.mem_filterMap]
  constructor
  · rintro ⟨e, he, hb⟩
    cases e <;> simp [selfReportOf] at hb
    subst hb; exact he
  · intro hw; exact ⟨_, hw, rfl⟩

/-- the data messages of the input, in input order -/
def msgOf : Op → List Msg
  | .msg m => [m]
  | .tick _ _ _ => []

def msgs (ops : List Op) : List Msg := ops.flatMap msgOf

def dataMsgs (ops : List Op) : List Msg := (msgs ops).filter (fun m => m.op == .data)

theorem msgs_append (a b : List Op) : msgs (a ++ b) = msgs a ++ msgs b := by
  simp [msgs, List.flatMap_append]

theorem dataMsgs_append (a b : List Op) : dataMsgs (a ++ b) = dataMsgs a ++ dataMsgs b := by
  simp [dataMsgs, msgs_append]

/-! ## the open-batch association list -/

def lk (l : List (PKey × Batch)) (k : PKey) : Option Batch := (l.find? (·.1 == k)).map (·.2)

theorem lk_nil (k : PKey) : lk [] k = none := rfl
theorem lk_cons (p : PKey × Batch) (l) (k : PKey) : lk (p :: l) k = if p.1 = k then some p.2 else lk l k := by
  unfold lk
  by_cases h : p.1 = k <;> simp [h]

theorem lk_none_of_any_false {l : List (PKey × Batch)} {k : PKey} (h : l.any (·.1 == k) = false) : lk l k = none := by
  induction l with
  | nil => rfl
  | cons p l ih =>
    simp only [List.any_cons, Bool.or_eq_false_iff, beq_eq_false_iff_ne, ne_eq] at h
    rw [lk_cons, if_neg h.1, ih h.2]

theorem lk_map_replace (l : List (PKey × Batch)) (pk : PKey) (b : Batch) (k : PKey) :
    lk (l.map fun p => if p.1 == pk then (pk, b) else p) k =
      if k = pk then (if l.any (·.1 == pk) then some b else none) else lk l k := by
  induction l with
  | nil => simp [lk_nil]
  | cons p l ih =>
    rw [List.map_cons, lk_cons, ih, lk_cons]
    by_cases hp : p.1 = pk
    · by_cases hk : k = pk
      · simp [hp, hk]
      · have : ¬ pk = k := fun h => hk h.symm
        simp [hp, hk, this]
    · by_cases hk : k = pk
      · subst hk
        have : (p.1 == k) = false := by simp [hp]
        simp only [this, Bool.false_eq_true, if_true, if_false, List.any_cons, Bool.false_or, hp]
      · simp [hp, hk]

theorem lk_append_single (l : List (PKey × Batch)) (pk : PKey) (b : Batch) (k : PKey) :
    lk (l ++ [(pk, b)]) k = match lk l k with | some x => some x | none => if k = pk then some b else none := by
  induction l with
  | nil =>
    simp only [List.nil_append, lk_cons, lk_nil]
    by_cases hk : k = pk
    · simp [hk]
    · have : ¬ pk = k := fun h => hk h.symm
      simp [hk, this]
  | cons p l ih =>
    rw [List.cons_append, lk_cons, lk_cons, ih]
    by_cases hp : p.1 = k <;> simp [hp]

theorem lk_filter_ne (l : List (PKey × Batch)) (pk : PKey) (k : PKey) :
    lk (l.filter fun p => !(p.1 == pk)) k = if k = pk then none else lk l k := by
  induction l with
  | nil => simp [lk_nil]
  | cons p l ih =>
    by_cases hp : p.1 = pk
    · rw [List.filter_cons_of_neg (by simp [hp]), ih, lk_cons]
      by_cases hk : k = pk
      · simp [hk]
      · have : ¬ pk = k := fun h => hk h.symm
        simp [hk, hp, this]
    · rw [List.filter_cons_of_pos (by simp [hp]), lk_cons, ih, lk_cons]
      by_cases hk : k = pk
      · subst hk; simp [hp]
      · simp [hk]

theorem getOpen_eq_lk (s : State) (k : PKey) : getOpen s k = lk s.openB k := rfl

theorem getOpen_setOpen (s : State) (pk : PKey) (b : Batch) (k : PKey) :
    getOpen (setOpen s pk b) k = if k = pk then some b else getOpen s k := by
  simp only [getOpen_eq_lk, setOpen]
  by_cases hany : s.openB.any (fun p => p.1 == pk) = true
  · rw [if_pos hany]
    simp only []
    rw [lk_map_replace, if_pos hany]
  · rw [if_neg hany]
    simp only []
    rw [lk_append_single]
    have hany' : s.openB.any (fun p => p.1 == pk) = false := Bool.eq_false_iff.mpr hany
    by_cases hk : k = pk
    · subst hk; rw [lk_none_of_any_false hany']
    · simp only [hk, if_false]; cases lk s.openB k <;> rfl

theorem getOpen_delOpen (s : State) (pk : PKey) (k : PKey) :
    getOpen (delOpen s pk) k = if k = pk then none else getOpen s k := by
  simp only [getOpen_eq_lk, delOpen]
  exact lk_filter_ne s.openB pk k

/-! ## `sendBatch` -/

/-- the seen-list part of `sendBatch` -/
def flushSeen (s : State) : State × List Ev :=
  if s.seenList.isEmpty then (s, []) else ({ s with seenList := [] }, [Ev.seen s.seenList])

/-- the routing part of `sendBatch` -/
def route (cfg : Cfg) (s : State) (b : Batch) : State × List Ev :=
  if b.isEmpty then (s, [.selfReport b.txns])
  else
    match cfg.routing with
    | .roundRobin => ({ s with rr := if s.rr + 1 == cfg.workers then 0 else s.rr + 1 }, [.dispatch s.rr b])
    | .partition => (s, [.dispatch (Crc32.quickHash b.pkey cfg.workers) b])

theorem sendBatch_eq (cfg : Cfg) (s : State) (b : Batch) :
    sendBatch cfg s b = ((route cfg (flushSeen s).1 b).1, (flushSeen s).2 ++ (route cfg (flushSeen s).1 b).2) := by
  unfold sendBatch route
  simp only [flushSeen]
  by_cases h1 : s.seenList.isEmpty = true <;> by_cases h2 : b.isEmpty = true <;>
    cases hr : cfg.routing <;> simp [h1, h2]

theorem flushSeen_openB (s : State) : (flushSeen s).1.openB = s.openB := by
  unfold flushSeen; split <;> rfl
theorem flushSeen_dead (s : State) : (flushSeen s).1.dead = s.dead := by
  unfold flushSeen; split <;> rfl
theorem flushSeen_rr (s : State) : (flushSeen s).1.rr = s.rr := by
  unfold flushSeen; split <;> rfl
theorem flushSeen_total (s : State) : (flushSeen s).1.total = s.total := by
  unfold flushSeen; split <;> rfl
theorem flushSeen_curKey (s : State) : (flushSeen s).1.curKey = s.curKey := by
  unfold flushSeen; split <;> rfl
theorem flushSeen_seenList (s : State) : (flushSeen s).1.seenList = [] := by
  unfold flushSeen; split
  · rename_i h; simpa using h
  · rfl

theorem route_openB (cfg : Cfg) (s : State) (b : Batch) : (route cfg s b).1.openB = s.openB := by
  unfold route; split
  · rfl
  · split <;> rfl
theorem route_dead (cfg : Cfg) (s : State) (b : Batch) : (route cfg s b).1.dead = s.dead := by
  unfold route; split
  · rfl
  · split <;> rfl
theorem route_total (cfg : Cfg) (s : State) (b : Batch) : (route cfg s b).1.total = s.total := by
  unfold route; split
  · rfl
  · split <;> rfl
theorem route_curKey (cfg : Cfg) (s : State) (b : Batch) : (route cfg s b).1.curKey = s.curKey := by
  unfold route; split
  · rfl
  · split <;> rfl
theorem route_seenList (cfg : Cfg) (s : State) (b : Batch) : (route cfg s b).1.seenList = s.seenList := by
  unfold route; split
  · rfl
  · split <;> rfl

theorem sendBatch_openB (cfg : Cfg) (s : State) (b : Batch) : (sendBatch cfg s b).1.openB = s.openB := by
  rw [sendBatch_eq]; simp only [route_openB, flushSeen_openB]
theorem sendBatch_dead (cfg : Cfg) (s : State) (b : Batch) : (sendBatch cfg s b).1.dead = s.dead := by
  rw [sendBatch_eq]; simp only [route_dead, flushSeen_dead]
theorem sendBatch_total (cfg : Cfg) (s : State) (b : Batch) : (sendBatch cfg s b).1.total = s.total := by
  rw [sendBatch_eq]; simp only [route_total, flushSeen_total]
theorem sendBatch_curKey (cfg : Cfg) (s : State) (b : Batch) : (sendBatch cfg s b).1.curKey = s.curKey := by
  rw [sendBatch_eq]; simp only [route_curKey, flushSeen_curKey]
theorem sendBatch_seenList (cfg : Cfg) (s : State) (b : Batch) : (sendBatch cfg s b).1.seenList = [] := by
  rw [sendBatch_eq]; simp only [route_seenList, flushSeen_seenList]

theorem sendBatch_getOpen (cfg : Cfg) (s : State) (b : Batch) (k : PKey) :
    getOpen (sendBatch cfg s b).1 k = getOpen s k := by
  simp only [getOpen_eq_lk, sendBatch_openB]

theorem dispatched_flushSeen (s : State) : dispatched (flushSeen s).2 = [] := by
  unfold flushSeen; split <;> rfl
theorem selfReported_flushSeen (s : State) : selfReported (flushSeen s).2 = [] := by
  unfold flushSeen; split <;> rfl
theorem seenEntries_flushSeen (s : State) : seenEntries (flushSeen s).2 = s.seenList := by
  unfold flushSeen; split
  · rename_i h; simp [seenEntries]; simpa using h.symm
  · simp [seenEntries, seenOf]

theorem dispatched_route (cfg : Cfg) (s : State) (b : Batch) :
    dispatched (route cfg s b).2 = if b.isEmpty then [] else [b] := by
  unfold route
  by_cases h : b.isEmpty = true
  · simp [h, dispatched, dispatchOf]
  · simp only [h, if_false, Bool.false_eq_true]
    cases cfg.routing <;> simp [dispatched, dispatchOf]

theorem selfReported_route (cfg : Cfg) (s : State) (b : Batch) :
    selfReported (route cfg s b).2 = if b.isEmpty then [b.txns] else [] := by
  unfold route
  by_cases h : b.isEmpty = true
  · simp [h, selfReported, selfReportOf]
  · simp only [h, if_false, Bool.false_eq_true]
    cases cfg.routing <;> simp [selfReported, selfReportOf]

theorem seenEntries_route (cfg : Cfg) (s : State) (b : Batch) : seenEntries (route cfg s b).2 = [] := by
  unfold route
  by_cases h : b.isEmpty = true
  · simp [h, seenEntries, seenOf]
  · simp only [h, if_false, Bool.false_eq_true]
    cases cfg.routing <;> simp [seenEntries, seenOf]

theorem dispatched_sendBatch (cfg : Cfg) (s : State) (b : Batch) :
    dispatched (sendBatch cfg s b).2 = if b.isEmpty then [] else [b] := by
  rw [sendBatch_eq]; simp only [dispatched_append, dispatched_flushSeen, dispatched_route, List.nil_append]

theorem selfReported_sendBatch (cfg : Cfg) (s : State) (b : Batch) :
    selfReported (sendBatch cfg s b).2 = if b.isEmpty then [b.txns] else [] := by
  rw [sendBatch_eq]; simp only [selfReported_append, selfReported_flushSeen, selfReported_route, List.nil_append]

theorem seenEntries_sendBatch (cfg : Cfg) (s : State) (b : Batch) :
    seenEntries (sendBatch cfg s b).2 = s.seenList := by
  rw [sendBatch_eq]; simp only [seenEntries_append, seenEntries_flushSeen, seenEntries_route, List.append_nil]

/-! ## `onMsg` in named phases -/

/-- look up the key's open batch, creating a fresh one if there is none -/
def lookup (s : State) (pk : PKey) : State × Batch :=
  match getOpen s pk with
  | some b => (s, b)
  | none => (setOpen s pk (fresh pk), fresh pk)

def noteCommit (s : State) (m : Msg) : State :=
  if m.op == .commit then { s with seenList := s.seenList ++ [⟨m.txn, m.key, s.total, m.lsn⟩] } else s

def noteKey (s : State) (m : Msg) : State :=
  if s.curKey != some m.key then { s with curKey := some m.key, total := 0 } else s

/-- replace the open batch by a fresh one (sending it) when it is already full -/
def roll (K : Kind) (cfg : Cfg) (s : State) (cur : Batch) (pk : PKey) : State × Batch × List Ev :=
  if K.isFull cur then (setOpen (sendBatch cfg s cur).1 pk (fresh pk), fresh pk, (sendBatch cfg s cur).2)
  else (s, cur, [])

/-- everything `onMsg` does before it looks at the message type -/
def prep (K : Kind) (cfg : Cfg) (s : State) (m : Msg) : State × Batch × List Ev :=
  roll K cfg (noteKey (noteCommit (lookup s m.pkey).1 m) m) (lookup s m.pkey).2 m.pkey

/-- the data-message part of `onMsg` -/
def addPhase (K : Kind) (cfg : Cfg) (s : State) (cur : Batch) (ev1 : List Ev) (m : Msg) : State × List Ev :=
  if (addToBatch K cfg 3 s cur m).2.2.2 then
    ({ setOpen (addToBatch K cfg 3 s cur m).1 m.pkey (addToBatch K cfg 3 s cur m).2.1 with dead := true },
      ev1 ++ (addToBatch K cfg 3 s cur m).2.2.1)
  else
    ({ setOpen (addToBatch K cfg 3 s cur m).1 m.pkey (addToBatch K cfg 3 s cur m).2.1 with
        total := (setOpen (addToBatch K cfg 3 s cur m).1 m.pkey (addToBatch K cfg 3 s cur m).2.1).total + 1 },
      ev1 ++ (addToBatch K cfg 3 s cur m).2.2.1)

theorem onMsg_eq (K : Kind) (cfg : Cfg) (s : State) (m : Msg) :
    onMsg K cfg s m =
      if m.op != .data then ((prep K cfg s m).1, (prep K cfg s m).2.2)
      else addPhase K cfg (prep K cfg s m).1 (prep K cfg s m).2.1 (prep K cfg s m).2.2 m := by
  rfl

theorem addPhase_snd (K : Kind) (cfg : Cfg) (s : State) (cur : Batch) (ev1 : List Ev) (m : Msg) :
    (addPhase K cfg s cur ev1 m).2 = ev1 ++ (addToBatch K cfg 3 s cur m).2.2.1 := by
  unfold addPhase; split <;> rfl

end PgBifrost.Batcher
