import PgBifrost.Proofs.Rabbit
/-!
# C13 helper lemmas: "written ⇒ every message positively confirmed" (core Lean only)

Generic in the `Mode` where possible: the repaired code (`.fixed`) needs no hypothesis on the script, the
code before the repair (`.asIs`) needs a script without `nack` and without publish error (`NoNackErr`).
-/
namespace PgBifrost.Proofs.Rabbit
open PgBifrost.RabbitConfirm PgBifrost.Spec.Rabbit

/-! ### vocabulary -/

/-- The invariant of the worker state between batches (weakest form): IF the worker holds a channel
(`t.channel ≠ nil`) that the broker has not closed, THEN no confirmation is pending on it and
`t.channelConfirms` equals the channel's delivery-tag counter.  (No channel at all, or a channel that is already
closed: nothing is required — the next attempt notices the close / opens a new channel.) -/
def Clean (st : St) : Prop :=
  st.fieldsSet = true → st.chan.closed = false → st.chan.pending = [] ∧ st.confirms = st.chan.tag

/-- Message `i` has in the log `evs` a publish that the broker accepted on channel `ch` with delivery tag `tag`
and — LATER in the same log — the worker consumed the positive confirmation of that very channel and tag. -/
def ConfirmedAt (evs : List Ev) (i : Nat) : Prop :=
  ∃ ch tag pre mid post, evs = pre ++ Ev.pub ch tag i .ack :: (mid ++ Ev.conf ch tag true :: post)

/-- the same as a sublist statement (the form the lemmas use) -/
def Confd (evs : List Ev) (i : Nat) : Prop :=
  ∃ ch tag, [Ev.pub ch tag i .ack, Ev.conf ch tag true].Sublist evs

/-- the script contains no negative confirmation and no publish error (closes are allowed) -/
def NoNackErr (toks : List Tok) : Prop := ∀ t ∈ toks, t.p ≠ .nack ∧ t.p ≠ .err

theorem clean_init : Clean {} := by
  intro h; exact absurd h (by decide)

theorem clean_of_fields_false {st : St} (h : st.fieldsSet = false) : Clean st := by
  intro h'; rw [h] at h'; exact absurd h' (by decide)

theorem clean_of_closed {st : St} (h : st.chan.closed = true) : Clean st := by
  intro _ h'; rw [h] at h'; exact absurd h' (by decide)

theorem clean_dead {st : St} (h : Clean st) : Clean { st with alive := false } := h

/-! ### `ConfirmedAt` ⇔ `Confd` ⇔ the monitor's `confirmedIn` -/

theorem pair_sublist_split {a b : Ev} : ∀ {l : List Ev}, [a, b].Sublist l →
    ∃ pre mid post, l = pre ++ a :: (mid ++ b :: post) := by
  intro l
  induction l with
  | nil => intro h; cases h
  | cons x xs ih =>
    intro h
    cases h with
    | cons _ h' =>
      obtain ⟨pre, mid, post, e⟩ := ih h'
      exact ⟨x :: pre, mid, post, by rw [e]; rfl⟩
    | cons_cons _ h' =>
      have hb : b ∈ xs := List.singleton_sublist.1 h'
      obtain ⟨s, t, e⟩ := List.append_of_mem hb
      exact ⟨[], s, t, by rw [e]; rfl⟩

theorem pair_sublist_of_split {a b : Ev} (pre mid post : List Ev) :
    [a, b].Sublist (pre ++ a :: (mid ++ b :: post)) := by
  have h1 : [a].Sublist (pre ++ [a]) := List.sublist_append_right _ _
  have h2 : [b].Sublist (mid ++ b :: post) :=
    List.singleton_sublist.2 (List.mem_append_right _ (List.mem_cons_self ..))
  have h3 := List.Sublist.append h1 h2
  rw [List.append_assoc] at h3
  exact h3

theorem confirmedAt_iff_confd (evs : List Ev) (i : Nat) : ConfirmedAt evs i ↔ Confd evs i := by
  constructor
  · rintro ⟨ch, tag, pre, mid, post, e⟩
    exact ⟨ch, tag, e ▸ pair_sublist_of_split pre mid post⟩
  · rintro ⟨ch, tag, h⟩
    obtain ⟨pre, mid, post, e⟩ := pair_sublist_split h
    exact ⟨ch, tag, pre, mid, post, e⟩

theorem confirmedIn_iff_confd : ∀ (evs : List Ev) (i : Nat), confirmedIn evs i = true ↔ Confd evs i := by
  intro evs i
  induction evs with
  | nil =>
    simp only [confirmedIn, Bool.false_eq_true, false_iff]
    rintro ⟨_, _, h⟩; cases h
  | cons e rest ih =>
    -- a sublist of `e :: rest` either skips `e` or starts with it
    have key : Confd (e :: rest) i ↔
        ((∃ ch tag, e = Ev.pub ch tag i .ack ∧ Ev.conf ch tag true ∈ rest) ∨ Confd rest i) := by
      constructor
      · rintro ⟨ch, tag, h⟩
        cases h with
        | cons _ h' => exact Or.inr ⟨ch, tag, h'⟩
        | cons_cons _ h' => exact Or.inl ⟨ch, tag, rfl, List.singleton_sublist.1 h'⟩
      · rintro (⟨ch, tag, he, hm⟩ | ⟨ch, tag, h⟩)
        · exact ⟨ch, tag, he ▸ List.Sublist.cons_cons _ (List.singleton_sublist.2 hm)⟩
        · exact ⟨ch, tag, List.Sublist.cons _ h⟩
    rw [key, ← ih]
    cases e with
    | pub ch tag m o =>
      cases o <;> simp [confirmedIn]
      · constructor
        · rintro (⟨rfl, h⟩ | h)
          · exact Or.inl ⟨ch, tag, ⟨rfl, rfl, rfl⟩, h⟩
          · exact Or.inr h
        · rintro (⟨ch', tag', ⟨rfl, rfl, rfl⟩, h⟩ | h)
          · exact Or.inl ⟨rfl, h⟩
          · exact Or.inr h
    | _ => simp [confirmedIn]

theorem confirmedIn_iff (evs : List Ev) (i : Nat) : confirmedIn evs i = true ↔ ConfirmedAt evs i :=
  (confirmedIn_iff_confd evs i).trans (confirmedAt_iff_confd evs i).symm

theorem allConfirmed_iff (evs : List Ev) (n : Nat) : allConfirmed evs n = true ↔ ∀ i, i < n → ConfirmedAt evs i := by
  unfold allConfirmed
  rw [List.all_eq_true]
  constructor
  · intro h i hi; exact (confirmedIn_iff evs i).1 (h i (List.mem_range.2 hi))
  · intro h i hi; exact (confirmedIn_iff evs i).2 (h i (List.mem_range.1 hi))

theorem Confd.mono {evs evs' : List Ev} {i : Nat} (h : Confd evs i) (hs : evs.Sublist evs') : Confd evs' i := by
  obtain ⟨ch, tag, h⟩ := h
  exact ⟨ch, tag, h.trans hs⟩

theorem confd_of_mem {A B : List Ev} {ch tag i : Nat} (ha : Ev.pub ch tag i .ack ∈ A)
    (hb : Ev.conf ch tag true ∈ B) : Confd (A ++ B) i :=
  ⟨ch, tag, List.Sublist.append (List.singleton_sublist.2 ha) (List.singleton_sublist.2 hb)⟩


/-! ### tokens -/

theorem popTok_suffix (toks : List Tok) : (popTok toks).2 <:+ toks := by
  cases toks with
  | nil => exact List.suffix_refl _
  | cons t r => exact List.suffix_cons t r

theorem NoNackErr.suffix {a b : List Tok} (h : NoNackErr b) (hs : a <:+ b) : NoNackErr a :=
  fun t ht => h t (hs.subset ht)

theorem NoNackErr.pop {toks : List Tok} (h : NoNackErr toks) :
    (popTok toks).1.p ≠ .nack ∧ (popTok toks).1.p ≠ .err := by
  cases toks with
  | nil => simp [popTok]
  | cons t r => exact h t (List.mem_cons_self ..)

/-! ### what the hooks (broker close, closeHandler) can do to the state -/

/-- channel id, tag counter and `confirms` are untouched; the pending confirmations are either untouched or
dropped by a close -/
def Hook (st s : St) : Prop :=
  s.chan.id = st.chan.id ∧ s.chan.tag = st.chan.tag ∧ s.confirms = st.confirms ∧
  ((s.chan.pending = st.chan.pending ∧ s.chan.closed = st.chan.closed) ∨
   (s.chan.pending = [] ∧ s.chan.closed = true))

theorem Hook.refl (st : St) : Hook st st := ⟨rfl, rfl, rfl, Or.inl ⟨rfl, rfl⟩⟩

theorem Hook.trans {a b c : St} (h1 : Hook a b) (h2 : Hook b c) : Hook a c := by
  obtain ⟨i1, t1, c1, d1⟩ := h1
  obtain ⟨i2, t2, c2, d2⟩ := h2
  refine ⟨i2.trans i1, t2.trans t1, c2.trans c1, ?_⟩
  rcases d1 with ⟨p1, q1⟩ | ⟨p1, q1⟩ <;> rcases d2 with ⟨p2, q2⟩ | ⟨p2, q2⟩
  · exact Or.inl ⟨p2.trans p1, q2.trans q1⟩
  · exact Or.inr ⟨p2, q2⟩
  · exact Or.inr ⟨p2.trans p1, q2.trans q1⟩
  · exact Or.inr ⟨p2, q2⟩

theorem Hook.closed_mono {a b : St} (h : Hook a b) (hc : a.chan.closed = true) : b.chan.closed = true := by
  rcases h.2.2.2 with ⟨_, q⟩ | ⟨_, q⟩
  · rw [q]; exact hc
  · exact q

theorem Hook.open_same {a b : St} (h : Hook a b) (hc : b.chan.closed = false) :
    b.chan.pending = a.chan.pending ∧ a.chan.closed = false := by
  rcases h.2.2.2 with ⟨p, q⟩ | ⟨_, q⟩
  · exact ⟨p, by rw [← q]; exact hc⟩
  · rw [q] at hc; exact absurd hc (by decide)

theorem Hook.pending_sub {a b : St} (h : Hook a b) : ∀ c ∈ b.chan.pending, c ∈ a.chan.pending := by
  rcases h.2.2.2 with ⟨p, _⟩ | ⟨p, _⟩ <;> rw [p]
  · intro c hc; exact hc
  · intro c hc; cases hc

theorem Hook.pending_len {a b : St} (h : Hook a b) : b.chan.pending.length ≤ a.chan.pending.length := by
  rcases h.2.2.2 with ⟨p, _⟩ | ⟨p, _⟩ <;> rw [p]
  · exact Nat.le_refl _
  · exact Nat.zero_le _

theorem closeChan_hook (st : St) (b : Bool) : Hook st (closeChan st b).1 := by
  unfold closeChan
  split
  · exact Hook.refl st
  · exact ⟨rfl, rfl, rfl, Or.inr ⟨rfl, rfl⟩⟩

theorem closeChan_closed (st : St) (b : Bool) : (closeChan st b).1.chan.closed = true := by
  unfold closeChan
  split
  · assumption
  · rfl

theorem runHandler_hook (st : St) : Hook st (runHandler st).1 := by
  unfold runHandler
  split
  · exact ⟨rfl, rfl, rfl, Or.inl ⟨rfl, rfl⟩⟩
  · exact Hook.refl st

theorem hookTok_hook (st : St) (t : Tok) : Hook st (hookTok st t).1 := by
  unfold hookTok
  simp only []
  have h1 : Hook st (match t.p with
      | .closeCh => closeChan st false
      | .closeConn => closeChan st true
      | _ => (st, [])).1 := by
    split
    · exact closeChan_hook st false
    · exact closeChan_hook st true
    · exact Hook.refl st
  split
  · exact h1.trans (runHandler_hook _)
  · exact h1

theorem resetChannel_fields (st : St) : (resetChannel st).1.fieldsSet = false := resetChannel_fields_false st

/-! ### `sendMessages` -/

/-- the pending confirmations `cs` belong, in order, to the messages `ms` (a prefix of them), with consecutive
delivery tags `t+1, t+2, …`; a positive one has its accepted publish in the log `E` -/
def Aligned (E : List Ev) (id : Nat) : Nat → List Nat → List Conf → Prop
  | _, _, [] => True
  | _, [], _ :: _ => False
  | t, m :: ms, c :: cs =>
    c.tag = t + 1 ∧ (c.ack = true → Ev.pub id (t + 1) m .ack ∈ E) ∧ Aligned E id (t + 1) ms cs

theorem Aligned.nil (E : List Ev) (id t : Nat) (ms : List Nat) : Aligned E id t ms [] := by
  cases ms <;> simp [Aligned]

theorem Aligned.mono {E E' : List Ev} (h : ∀ e ∈ E, e ∈ E') {id : Nat} :
    ∀ {t : Nat} {ms : List Nat} {cs : List Conf}, Aligned E id t ms cs → Aligned E' id t ms cs := by
  intro t ms cs
  induction cs generalizing t ms with
  | nil => intro _; exact Aligned.nil ..
  | cons c cs ih =>
    cases ms with
    | nil => intro h'; exact h'
    | cons m ms =>
      intro h'
      exact ⟨h'.1, fun ha => h _ (h'.2.1 ha), ih h'.2.2⟩

theorem send_closed (mode : Mode) (st : St) (msgs : List Nat) (toks : List Tok) (h : st.chan.closed = true) :
    (send mode st msgs toks).1 = st ∧ (send mode st msgs toks).2.1 = toks ∧
    (send mode st msgs toks).2.2.1 = [] ∧ (msgs ≠ [] → (send mode st msgs toks).2.2.2 ≠ .done) := by
  cases msgs with
  | nil => simp [send]
  | cons m ms =>
    simp only [send, h, if_true]
    split <;> simp

/-- the state after an accepted publish -/
def ackSt (st : St) (b : Bool) : St :=
  { st with chan := { st.chan with tag := st.chan.tag + 1,
                                   pending := st.chan.pending ++ [⟨st.chan.tag + 1, b⟩] } }

/-- the state and events after a publish that the broker answers by closing the channel / connection -/
def closeSt (st : St) (tk : Tok) : St × List Ev :=
  ((if tk.h then runHandler (closeChan st (tk.p = .closeConn)).1 else ((closeChan st (tk.p = .closeConn)).1, [])).1,
   (closeChan st (tk.p = .closeConn)).2 ++
     (if tk.h then runHandler (closeChan st (tk.p = .closeConn)).1 else ((closeChan st (tk.p = .closeConn)).1, [])).2)

theorem closeSt_hook (st : St) (tk : Tok) : Hook st (closeSt st tk).1 := by
  unfold closeSt
  simp only []
  split
  · exact (closeChan_hook st _).trans (runHandler_hook _)
  · exact closeChan_hook st _

theorem closeSt_closed (st : St) (tk : Tok) : (closeSt st tk).1.chan.closed = true := by
  unfold closeSt
  simp only []
  split
  · exact (runHandler_hook _).closed_mono (closeChan_closed st _)
  · exact closeChan_closed st _

theorem send_cons_panic (mode : Mode) (st : St) (m : Nat) (ms : List Nat) (toks : List Tok)
    (h : mode = .asIs ∧ st.fieldsSet = false) : send mode st (m :: ms) toks = (st, toks, [], .panic) := by
  simp only [send, h, and_self, if_true]

theorem send_cons_closed (mode : Mode) (st : St) (m : Nat) (ms : List Nat) (toks : List Tok)
    (h : ¬(mode = .asIs ∧ st.fieldsSet = false)) (hc : st.chan.closed = true) :
    send mode st (m :: ms) toks = (st, toks, [], .fail) := by
  simp only [send, h, hc, if_true, if_false]

theorem send_cons_err (mode : Mode) (st : St) (m : Nat) (ms : List Nat) (toks : List Tok)
    (h : ¬(mode = .asIs ∧ st.fieldsSet = false)) (hc : st.chan.closed = false)
    (hp : (popTok toks).1.p = .err) :
    send mode st (m :: ms) toks = (st, (popTok toks).2, [.pub st.chan.id 0 m .err], .fail) := by
  simp only [send, h, hc, hp, if_false, Bool.false_eq_true]

theorem send_cons_acc (mode : Mode) (st : St) (m : Nat) (ms : List Nat) (toks : List Tok)
    (h : ¬(mode = .asIs ∧ st.fieldsSet = false)) (hc : st.chan.closed = false)
    (hp : (popTok toks).1.p = .ack ∨ (popTok toks).1.p = .nack) :
    send mode st (m :: ms) toks =
      ((send mode (ackSt st (decide ((popTok toks).1.p = .ack))) ms (popTok toks).2).1,
       (send mode (ackSt st (decide ((popTok toks).1.p = .ack))) ms (popTok toks).2).2.1,
       .pub st.chan.id (st.chan.tag + 1) m (popTok toks).1.p ::
         (send mode (ackSt st (decide ((popTok toks).1.p = .ack))) ms (popTok toks).2).2.2.1,
       (send mode (ackSt st (decide ((popTok toks).1.p = .ack))) ms (popTok toks).2).2.2.2) := by
  rcases hp with hp | hp <;> simp only [send, h, hc, hp, if_false, Bool.false_eq_true, ackSt]

theorem send_cons_close (mode : Mode) (st : St) (m : Nat) (ms : List Nat) (toks : List Tok)
    (h : ¬(mode = .asIs ∧ st.fieldsSet = false)) (hc : st.chan.closed = false)
    (hp : (popTok toks).1.p = .closeCh ∨ (popTok toks).1.p = .closeConn) :
    send mode st (m :: ms) toks =
      ((send mode (closeSt st (popTok toks).1).1 ms (popTok toks).2).1,
       (send mode (closeSt st (popTok toks).1).1 ms (popTok toks).2).2.1,
       .pub st.chan.id 0 m (popTok toks).1.p ::
         ((closeSt st (popTok toks).1).2 ++ (send mode (closeSt st (popTok toks).1).1 ms (popTok toks).2).2.2.1),
       (send mode (closeSt st (popTok toks).1).1 ms (popTok toks).2).2.2.2) := by
  rcases hp with hp | hp <;> simp only [send, h, hc, hp, if_false, Bool.false_eq_true, closeSt, List.append_assoc]

theorem POut.cases5 (p : POut) : p = .err ∨ (p = .ack ∨ p = .nack) ∨ (p = .closeCh ∨ p = .closeConn) := by
  cases p <;> simp

theorem send_spec (mode : Mode) : ∀ (msgs : List Nat) (st : St) (toks : List Tok),
    (send mode st msgs toks).1.confirms = st.confirms ∧
    (send mode st msgs toks).1.chan.id = st.chan.id ∧
    (send mode st msgs toks).2.1 <:+ toks ∧
    ((send mode st msgs toks).2.2.2 = .done → (send mode st msgs toks).1.chan.closed = false →
      st.chan.closed = false ∧ (send mode st msgs toks).1.chan.tag = st.chan.tag + msgs.length ∧
      ∃ new, (send mode st msgs toks).1.chan.pending = st.chan.pending ++ new ∧ new.length = msgs.length ∧
        Aligned (send mode st msgs toks).2.2.1 st.chan.id st.chan.tag msgs new ∧
        (NoNackErr toks → ∀ c ∈ new, c.ack = true)) ∧
    (st.chan.closed = false → (send mode st msgs toks).1.chan.closed = true →
      (send mode st msgs toks).1.chan.pending = []) ∧
    (NoNackErr toks → (send mode st msgs toks).2.2.2 = .fail → (send mode st msgs toks).1.chan.closed = true) := by
  intro msgs
  induction msgs with
  | nil =>
    intro st toks
    have e : send mode st [] toks = (st, toks, [], .done) := by simp [send]
    rw [e]
    refine ⟨rfl, rfl, List.suffix_refl _, ?_, ?_, ?_⟩
    · intro _ hc
      exact ⟨hc, rfl, [], by simp, rfl, Aligned.nil .., by intro _ c hc; cases hc⟩
    · intro h1 h2; rw [h1] at h2; exact absurd h2 (by decide)
    · intro _ h; cases h
  | cons m ms ih =>
    intro st toks
    by_cases hpan : mode = .asIs ∧ st.fieldsSet = false
    · rw [send_cons_panic mode st m ms toks hpan]
      refine ⟨rfl, rfl, List.suffix_refl _, ?_, ?_, ?_⟩
      · intro h; cases h
      · intro h1 h2; rw [h1] at h2; exact absurd h2 (by decide)
      · intro _ h; cases h
    cases hcl : st.chan.closed with
    | true =>
      rw [send_cons_closed mode st m ms toks hpan hcl]
      refine ⟨rfl, rfl, List.suffix_refl _, ?_, ?_, ?_⟩
      · intro h; cases h
      · intro h1; cases h1
      · intro _ _; exact hcl
    | false =>
      rcases POut.cases5 (popTok toks).1.p with hp | hp | hp
      · -- publish error
        rw [send_cons_err mode st m ms toks hpan hcl hp]
        refine ⟨rfl, rfl, popTok_suffix toks, ?_, ?_, ?_⟩
        · intro h; cases h
        · intro _ h2; rw [hcl] at h2; exact absurd h2 (by decide)
        · intro hn; exact absurd hp hn.pop.2
      · -- accepted publish
        rw [send_cons_acc mode st m ms toks hpan hcl hp]
        have IH := ih (ackSt st (decide ((popTok toks).1.p = .ack))) (popTok toks).2
        generalize send mode (ackSt st (decide ((popTok toks).1.p = .ack))) ms (popTok toks).2 = r at IH ⊢
        obtain ⟨s1, tk1, ev1, res1⟩ := r
        simp only [ackSt] at IH ⊢
        obtain ⟨i1, i2, i3, i4, i5, i6⟩ := IH
        refine ⟨i1, i2, i3.trans (popTok_suffix toks), ?_, ?_, ?_⟩
        · intro hd ho
          obtain ⟨_, ht, new, hpd, hlen, hal, hack⟩ := i4 hd ho
          refine ⟨trivial, ?_, ⟨st.chan.tag + 1, decide ((popTok toks).1.p = .ack)⟩ :: new, ?_, ?_, ?_, ?_⟩
          · rw [ht, List.length_cons]; omega
          · rw [hpd, List.append_assoc]; rfl
          · rw [List.length_cons, hlen, List.length_cons]
          · refine ⟨rfl, ?_, ?_⟩
            · intro ha
              have : (popTok toks).1.p = .ack := of_decide_eq_true ha
              rw [this]; exact List.mem_cons_self ..
            · exact Aligned.mono (fun e he => List.mem_cons_of_mem _ he) hal
          · intro hn c hc
            rcases List.mem_cons.1 hc with rfl | hc
            · rcases hp with hp | hp
              · simp [hp]
              · exact absurd hp hn.pop.1
            · exact hack (hn.suffix (popTok_suffix toks)) c hc
        · intro _ h2; exact i5 hcl h2
        · intro hn hf; exact i6 (hn.suffix (popTok_suffix toks)) hf
      · -- the broker closes at the publish
        rw [send_cons_close mode st m ms toks hpan hcl hp]
        have hk := closeSt_hook st (popTok toks).1
        have hkc := closeSt_closed st (popTok toks).1
        have hsc := send_closed mode (closeSt st (popTok toks).1).1 ms (popTok toks).2 hkc
        generalize send mode (closeSt st (popTok toks).1).1 ms (popTok toks).2 = r at hsc ⊢
        obtain ⟨s1, tk1, ev1, res1⟩ := r
        simp only [] at hsc ⊢
        obtain ⟨e1, e2, _, _⟩ := hsc
        subst e1 e2
        have hpe : (closeSt st (popTok toks).1).1.chan.pending = [] := by
          rcases hk.2.2.2 with ⟨_, q⟩ | ⟨q, _⟩
          · rw [hcl] at q; rw [q] at hkc; exact absurd hkc (by decide)
          · exact q
        refine ⟨hk.2.2.1, hk.1, popTok_suffix toks, ?_, ?_, ?_⟩
        · intro _ ho; rw [hkc] at ho; exact absurd ho (by decide)
        · intro _ _; exact hpe
        · intro _ _; exact hkc

/-! ### `waitForConfirmations` -/

/-- the state after the worker took the first pending confirmation off `publishNotify` -/
def popSt (st : St) (rest : List Conf) : St := { st with chan := { st.chan with pending := rest } }

theorem waitLoop_done (mode : Mode) (desired f : Nat) (st : St) (toks : List Tok) (h : desired ≤ st.confirms) :
    waitLoop mode desired (f + 1) st toks = (st, toks, [], .ok) := by
  simp only [waitLoop, h, if_true]

theorem waitLoop_hang (mode : Mode) (desired f : Nat) (st : St) (toks : List Tok) (h : ¬ desired ≤ st.confirms)
    (hh : mode = .asIs ∧ st.fieldsSet = false) :
    waitLoop mode desired (f + 1) st toks = (st, toks, [], .hang) := by
  simp only [waitLoop, h, hh, and_self, if_true, if_false]

theorem waitLoop_empty (mode : Mode) (desired f : Nat) (st : St) (toks : List Tok) (h : ¬ desired ≤ st.confirms)
    (hh : ¬(mode = .asIs ∧ st.fieldsSet = false)) (hp : st.chan.pending = []) :
    waitLoop mode desired (f + 1) st toks =
      if st.chan.closed then (st, toks, [], .fail (desired - st.confirms)) else (st, toks, [], .starve) := by
  simp only [waitLoop, h, hh, hp, if_false]

theorem waitLoop_nack (mode : Mode) (desired f : Nat) (st : St) (toks : List Tok) (h : ¬ desired ≤ st.confirms)
    (hh : ¬(mode = .asIs ∧ st.fieldsSet = false)) (c : Conf) (rest : List Conf) (hp : st.chan.pending = c :: rest)
    (ha : c.ack = false) :
    waitLoop mode desired (f + 1) st toks =
      ((hookTok (popSt st rest) (popTok toks).1).1, (popTok toks).2,
       .conf st.chan.id c.tag c.ack :: (hookTok (popSt st rest) (popTok toks).1).2,
       .fail (desired - st.confirms)) := by
  simp only [waitLoop, h, hh, hp, ha, if_false, if_true, popSt]

theorem waitLoop_ack (mode : Mode) (desired f : Nat) (st : St) (toks : List Tok) (h : ¬ desired ≤ st.confirms)
    (hh : ¬(mode = .asIs ∧ st.fieldsSet = false)) (c : Conf) (rest : List Conf) (hp : st.chan.pending = c :: rest)
    (ha : c.ack = true) :
    waitLoop mode desired (f + 1) st toks =
      ((waitLoop mode desired f { (hookTok (popSt st rest) (popTok toks).1).1 with confirms := c.tag } (popTok toks).2).1,
       (waitLoop mode desired f { (hookTok (popSt st rest) (popTok toks).1).1 with confirms := c.tag } (popTok toks).2).2.1,
       .conf st.chan.id c.tag c.ack :: ((hookTok (popSt st rest) (popTok toks).1).2 ++
         (waitLoop mode desired f { (hookTok (popSt st rest) (popTok toks).1).1 with confirms := c.tag } (popTok toks).2).2.2.1),
       (waitLoop mode desired f { (hookTok (popSt st rest) (popTok toks).1).1 with confirms := c.tag } (popTok toks).2).2.2.2) := by
  simp only [waitLoop, h, hh, hp, ha, if_false, popSt, Bool.true_eq_false]

/-- the loop of `waitForConfirmations`, started with the pending confirmations aligned to the not yet confirmed
messages `ms`: it ends `ok` with every message of `ms` confirmed, or fails with `rem > 0` messages left, the
first `ms.length - rem` being confirmed -/
theorem waitLoop_spec (mode : Mode) (desired id : Nat) (E : List Ev) :
    ∀ (f : Nat) (st : St) (ms : List Nat) (toks : List Tok),
    st.chan.id = id →
    ms.length + st.confirms = desired →
    Aligned E id st.confirms ms st.chan.pending →
    (st.chan.closed = false → st.chan.pending.length = ms.length ∧ st.chan.tag = desired) →
    st.chan.pending.length + 1 ≤ f →
    (waitLoop mode desired f st toks).2.1 <:+ toks ∧
    ((waitLoop mode desired f st toks).2.2.2 = .ok →
      (∀ m ∈ ms, ∃ tag, Ev.pub id tag m .ack ∈ E ∧ Ev.conf id tag true ∈ (waitLoop mode desired f st toks).2.2.1) ∧
      ((waitLoop mode desired f st toks).1.chan.closed = false → (waitLoop mode desired f st toks).1.chan.pending = [] ∧ (waitLoop mode desired f st toks).1.confirms = (waitLoop mode desired f st toks).1.chan.tag)) ∧
    (∀ rem, (waitLoop mode desired f st toks).2.2.2 = .fail rem → 0 < rem ∧ ∃ k, k + rem = ms.length ∧
      (∀ m ∈ ms.take k, ∃ tag, Ev.pub id tag m .ack ∈ E ∧ Ev.conf id tag true ∈ (waitLoop mode desired f st toks).2.2.1) ∧
      ((∀ c ∈ st.chan.pending, c.ack = true) → (waitLoop mode desired f st toks).1.chan.closed = true)) ∧
    ((waitLoop mode desired f st toks).2.2.2 = .hang → mode = .asIs) ∧ (waitLoop mode desired f st toks).2.2.2 ≠ .starve := by
  intro f
  induction f with
  | zero => intro st ms toks _ _ _ _ hf; omega
  | succ f ih =>
    intro st ms toks hid hlen hal hopen hf
    by_cases hd : desired ≤ st.confirms
    · rw [waitLoop_done mode desired f st toks hd]
      have hms : ms = [] := List.eq_nil_of_length_eq_zero (by omega)
      subst hms
      refine ⟨List.suffix_refl _, ?_, ?_, ?_, ?_⟩
      · intro _
        refine ⟨(by intro m hm; cases hm), fun hc => ?_⟩
        obtain ⟨h1, h2⟩ := hopen hc
        refine ⟨List.eq_nil_of_length_eq_zero h1, ?_⟩
        show st.confirms = st.chan.tag
        simp only [List.length_nil] at hlen; omega
      · intro rem h; cases h
      · intro h; cases h
      · intro h; cases h
    by_cases hh : mode = .asIs ∧ st.fieldsSet = false
    · rw [waitLoop_hang mode desired f st toks hd hh]
      refine ⟨List.suffix_refl _, ?_, ?_, fun _ => hh.1, ?_⟩
      · intro h; cases h
      · intro rem h; cases h
      · intro h; cases h
    cases hp : st.chan.pending with
    | nil =>
      rw [waitLoop_empty mode desired f st toks hd hh hp]
      cases hc : st.chan.closed with
      | false =>
        exfalso
        obtain ⟨h1, _⟩ := hopen hc
        rw [hp] at h1
        simp at h1
        omega
      | true =>
        simp only [if_true]
        refine ⟨List.suffix_refl _, ?_, ?_, ?_, ?_⟩
        · intro h; cases h
        · intro rem h
          injection h with h
          subst h
          exact ⟨by omega, 0, by omega, (by intro m hm; simp at hm), fun _ => hc⟩
        · intro h; cases h
        · intro h; cases h
    | cons c rest =>
      rw [hp] at hal
      cases ms with
      | nil => exact absurd hal (by simp [Aligned])
      | cons m ms' =>
        obtain ⟨htag, hpub, hal'⟩ := hal
        simp only [List.length_cons] at hlen
        cases ha : c.ack with
        | false =>
          rw [waitLoop_nack mode desired f st toks hd hh c rest hp ha]
          refine ⟨popTok_suffix toks, ?_, ?_, ?_, ?_⟩
          · intro h; cases h
          · intro rem h
            injection h with h
            subst h
            refine ⟨by omega, 0, by simp only [List.length_cons]; omega, (by intro m hm; simp at hm), fun hall => ?_⟩
            have := hall c (List.mem_cons_self ..)
            rw [ha] at this; cases this
          · intro h; cases h
          · intro h; cases h
        | true =>
          rw [waitLoop_ack mode desired f st toks hd hh c rest hp ha]
          have hk := hookTok_hook (popSt st rest) (popTok toks).1
          have IH := ih { (hookTok (popSt st rest) (popTok toks).1).1 with confirms := c.tag } ms' (popTok toks).2
            (hk.1.trans hid)
            (by show ms'.length + c.tag = desired; omega)
            (by
              show Aligned E id c.tag ms' (hookTok (popSt st rest) (popTok toks).1).1.chan.pending
              rcases hk.2.2.2 with ⟨q, _⟩ | ⟨q, _⟩
              · rw [q, htag]; exact hal'
              · rw [q]; exact Aligned.nil ..)
            (by
              intro hc
              obtain ⟨q1, q2⟩ := hk.open_same hc
              obtain ⟨o1, o2⟩ := hopen q2
              rw [hp] at o1
              simp only [List.length_cons] at o1
              refine ⟨?_, hk.2.1.trans o2⟩
              show (hookTok (popSt st rest) (popTok toks).1).1.chan.pending.length = ms'.length
              rw [q1]; show rest.length = ms'.length; omega)
            (by
              have := hk.pending_len
              rw [hp] at hf
              simp only [List.length_cons] at hf
              show (hookTok (popSt st rest) (popTok toks).1).1.chan.pending.length + 1 ≤ f
              have h2 : (popSt st rest).chan.pending.length = rest.length := rfl
              omega)
          generalize waitLoop mode desired f
            { (hookTok (popSt st rest) (popTok toks).1).1 with confirms := c.tag } (popTok toks).2 = r at IH ⊢
          obtain ⟨s1, tk1, ev1, res1⟩ := r
          simp only [] at IH ⊢
          obtain ⟨j1, j2, j3, j4, j5⟩ := IH
          refine ⟨j1.trans (popTok_suffix toks), ?_, ?_, j4, j5⟩
          · intro hok
            obtain ⟨a1, a2⟩ := j2 hok
            refine ⟨?_, a2⟩
            intro m' hm'
            rcases List.mem_cons.1 hm' with rfl | hm'
            · refine ⟨c.tag, ?_, ?_⟩
              · rw [htag]; exact hpub ha
              · rw [hid, ha]; exact List.mem_cons_self ..
            · obtain ⟨tag, t1, t2⟩ := a1 m' hm'
              exact ⟨tag, t1, List.mem_cons_of_mem _ (List.mem_append_right _ t2)⟩
          · intro rem hrem
            obtain ⟨b1, k, b2, b3, b4⟩ := j3 rem hrem
            refine ⟨b1, k + 1, by simp only [List.length_cons]; omega, ?_, ?_⟩
            · intro m' hm'
              rw [List.take_succ_cons] at hm'
              rcases List.mem_cons.1 hm' with rfl | hm'
              · refine ⟨c.tag, ?_, ?_⟩
                · rw [htag]; exact hpub ha
                · rw [hid, ha]; exact List.mem_cons_self ..
              · obtain ⟨tag, t1, t2⟩ := b3 m' hm'
                exact ⟨tag, t1, List.mem_cons_of_mem _ (List.mem_append_right _ t2)⟩
            · intro hall
              apply b4
              intro c' hc'
              have h3 : c' ∈ (popSt st rest).chan.pending := hk.pending_sub c' hc'
              exact hall c' (List.mem_cons_of_mem _ h3)

/-! ### which events an attempt's parts can emit (for "the retried messages are exactly the unconfirmed ones") -/

def isPub : Ev → Bool
  | .pub .. => true | _ => false
def isConf : Ev → Bool
  | .conf .. => true | _ => false

/-- neither publishes nor confirmations -/
def Quiet (evs : List Ev) : Prop := ∀ e ∈ evs, isPub e = false ∧ isConf e = false

theorem Quiet.nil : Quiet [] := by intro e he; cases he

theorem Quiet.append {a b : List Ev} (ha : Quiet a) (hb : Quiet b) : Quiet (a ++ b) := by
  intro e he
  rcases List.mem_append.1 he with h | h
  · exact ha e h
  · exact hb e h

theorem closeChan_quiet (st : St) (b : Bool) : Quiet (closeChan st b).2 := by
  unfold closeChan
  split
  · exact Quiet.nil
  · intro e he; simp at he; subst he; exact ⟨rfl, rfl⟩

theorem runHandler_quiet (st : St) : Quiet (runHandler st).2 := by
  unfold runHandler
  split
  · intro e he; simp at he; subst he; exact ⟨rfl, rfl⟩
  · exact Quiet.nil

theorem hookTok_quiet (st : St) (t : Tok) : Quiet (hookTok st t).2 := by
  unfold hookTok
  simp only []
  have h1 : Quiet (match t.p with
      | .closeCh => closeChan st false
      | .closeConn => closeChan st true
      | _ => (st, [])).2 := by
    split
    · exact closeChan_quiet st false
    · exact closeChan_quiet st true
    · exact Quiet.nil
  apply h1.append
  split
  · exact runHandler_quiet _
  · exact Quiet.nil

theorem closeSt_quiet (st : St) (tk : Tok) : Quiet (closeSt st tk).2 := by
  unfold closeSt
  simp only []
  apply (closeChan_quiet st _).append
  split
  · exact runHandler_quiet _
  · exact Quiet.nil

theorem resetChannel_quiet (st : St) : Quiet (resetChannel st).2 := by
  unfold resetChannel
  split
  · exact closeChan_quiet st false
  · exact Quiet.nil

theorem setup_quiet (st : St) : Quiet (setup st).2.1 := by
  unfold setup
  split
  · exact Quiet.nil
  · split
    · intro e he; simp at he; subst he; exact ⟨rfl, rfl⟩
    · intro e he; simp at he; subst he; exact ⟨rfl, rfl⟩

/-- `sendMessages` emits no confirmation; the `j`-th message, if accepted, gets delivery tag `tag₀ + 1 + j`
on the current channel -/
theorem send_evs_spec (mode : Mode) : ∀ (msgs : List Nat) (st : St) (toks : List Tok),
    ∀ e ∈ (send mode st msgs toks).2.2.1, isConf e = false ∧
      ∀ ch tag m, e = Ev.pub ch tag m .ack →
        ch = st.chan.id ∧ ∃ j, msgs[j]? = some m ∧ tag = st.chan.tag + 1 + j := by
  intro msgs
  induction msgs with
  | nil => intro st toks e he; simp [send] at he
  | cons m ms ih =>
    intro st toks
    by_cases hpan : mode = .asIs ∧ st.fieldsSet = false
    · rw [send_cons_panic mode st m ms toks hpan]; intro e he; cases he
    cases hcl : st.chan.closed with
    | true => rw [send_cons_closed mode st m ms toks hpan hcl]; intro e he; cases he
    | false =>
      rcases POut.cases5 (popTok toks).1.p with hp | hp | hp
      · rw [send_cons_err mode st m ms toks hpan hcl hp]
        intro e he
        simp only [List.mem_singleton] at he
        subst he
        exact ⟨rfl, by intro ch tag m' h; cases h⟩
      · rw [send_cons_acc mode st m ms toks hpan hcl hp]
        have IH := ih (ackSt st (decide ((popTok toks).1.p = .ack))) (popTok toks).2
        generalize send mode (ackSt st (decide ((popTok toks).1.p = .ack))) ms (popTok toks).2 = r at IH ⊢
        obtain ⟨s1, tk1, ev1, res1⟩ := r
        simp only [ackSt] at IH ⊢
        intro e he
        rcases List.mem_cons.1 he with rfl | he
        · refine ⟨rfl, ?_⟩
          intro ch tag m' h
          injection h with h1 h2 h3 h4
          subst h1 h2 h3
          exact ⟨rfl, 0, rfl, rfl⟩
        · obtain ⟨q1, q2⟩ := IH e he
          refine ⟨q1, ?_⟩
          intro ch tag m' h
          obtain ⟨r1, j, r2, r3⟩ := q2 ch tag m' h
          exact ⟨r1, j + 1, by simpa using r2, by omega⟩
      · rw [send_cons_close mode st m ms toks hpan hcl hp]
        have hsc := send_closed mode (closeSt st (popTok toks).1).1 ms (popTok toks).2 (closeSt_closed _ _)
        rw [hsc.2.2.1, List.append_nil]
        intro e he
        rcases List.mem_cons.1 he with rfl | he
        · refine ⟨rfl, ?_⟩
          intro ch tag m' h
          injection h with _ _ _ h4
          rcases hp with hp | hp <;> rw [hp] at h4 <;> cases h4
        · obtain ⟨q1, q2⟩ := closeSt_quiet st (popTok toks).1 e he
          refine ⟨q2, ?_⟩
          intro ch tag m' h
          subst h
          cases q1

/-- `waitForConfirmations` emits no publish; `channelConfirms` only grows; every positive confirmation it
consumes has a delivery tag `≤` the final `channelConfirms`; on failure `remaining = desired - channelConfirms` -/
theorem waitLoop_evs_spec (mode : Mode) (desired id : Nat) (E : List Ev) :
    ∀ (f : Nat) (st : St) (ms : List Nat) (toks : List Tok),
    Aligned E id st.confirms ms st.chan.pending →
    st.confirms ≤ (waitLoop mode desired f st toks).1.confirms ∧
    (∀ e ∈ (waitLoop mode desired f st toks).2.2.1, isPub e = false ∧ ∀ ch tag, e = Ev.conf ch tag true → tag ≤ (waitLoop mode desired f st toks).1.confirms) ∧
    (∀ rem, (waitLoop mode desired f st toks).2.2.2 = .fail rem → (waitLoop mode desired f st toks).1.confirms + rem = desired) := by
  intro f
  induction f with
  | zero =>
    intro st ms toks _
    simp only [waitLoop]
    exact ⟨Nat.le_refl _, (by intro e he; cases he), (by intro rem h; cases h)⟩
  | succ f ih =>
    intro st ms toks hal
    by_cases hd : desired ≤ st.confirms
    · rw [waitLoop_done mode desired f st toks hd]
      exact ⟨Nat.le_refl _, (by intro e he; cases he), (by intro rem h; cases h)⟩
    by_cases hh : mode = .asIs ∧ st.fieldsSet = false
    · rw [waitLoop_hang mode desired f st toks hd hh]
      exact ⟨Nat.le_refl _, (by intro e he; cases he), (by intro rem h; cases h)⟩
    cases hp : st.chan.pending with
    | nil =>
      rw [waitLoop_empty mode desired f st toks hd hh hp]
      split
      · refine ⟨Nat.le_refl _, (by intro e he; cases he), ?_⟩
        intro rem h
        injection h with h
        subst h
        show st.confirms + (desired - st.confirms) = desired
        omega
      · exact ⟨Nat.le_refl _, (by intro e he; cases he), (by intro rem h; cases h)⟩
    | cons c rest =>
      rw [hp] at hal
      cases ms with
      | nil => exact absurd hal (by simp [Aligned])
      | cons m ms' =>
        obtain ⟨htag, _, hal'⟩ := hal
        have hk := hookTok_hook (popSt st rest) (popTok toks).1
        have hq := hookTok_quiet (popSt st rest) (popTok toks).1
        cases ha : c.ack with
        | false =>
          rw [waitLoop_nack mode desired f st toks hd hh c rest hp ha]
          have hc : (hookTok (popSt st rest) (popTok toks).1).1.confirms = st.confirms := hk.2.2.1
          refine ⟨Nat.le_of_eq hc.symm, ?_, ?_⟩
          · intro e he
            rcases List.mem_cons.1 he with rfl | he
            · exact ⟨rfl, by intro ch tag h; injection h with _ _ h3; rw [ha] at h3; cases h3⟩
            · exact ⟨(hq e he).1, by intro ch tag h; subst h; have h2 : true = false := (hq _ he).2; cases h2⟩
          · intro rem h
            injection h with h
            subst h
            show (hookTok (popSt st rest) (popTok toks).1).1.confirms + (desired - st.confirms) = desired
            rw [hc]; omega
        | true =>
          rw [waitLoop_ack mode desired f st toks hd hh c rest hp ha]
          have IH := ih { (hookTok (popSt st rest) (popTok toks).1).1 with confirms := c.tag } ms' (popTok toks).2
            (by
              show Aligned E id c.tag ms' (hookTok (popSt st rest) (popTok toks).1).1.chan.pending
              rcases hk.2.2.2 with ⟨q, _⟩ | ⟨q, _⟩
              · rw [q, htag]; exact hal'
              · rw [q]; exact Aligned.nil ..)
          generalize waitLoop mode desired f
            { (hookTok (popSt st rest) (popTok toks).1).1 with confirms := c.tag } (popTok toks).2 = r at IH ⊢
          obtain ⟨s1, tk1, ev1, res1⟩ := r
          simp only [] at IH ⊢
          obtain ⟨j1, j2, j3⟩ := IH
          refine ⟨by omega, ?_, j3⟩
          intro e he
          rcases List.mem_cons.1 he with rfl | he
          · refine ⟨rfl, ?_⟩
            intro ch tag h
            injection h with _ h2 _
            omega
          · rcases List.mem_append.1 he with he | he
            · exact ⟨(hq e he).1, by intro ch tag h; subst h; have h2 : true = false := (hq _ he).2; cases h2⟩
            · exact j2 e he

/-! ### one attempt -/

theorem setup_ok_spec (st : St) (h : (setup st).2.2 = true) (hc : Clean st) :
    (setup st).1.fieldsSet = true ∧ Clean (setup st).1 := by
  by_cases hf : st.fieldsSet = true
  · have e : setup st = (st, [], true) := by unfold setup; simp [hf]
    rw [e]; exact ⟨hf, hc⟩
  · by_cases hb : st.connBroken = true
    · unfold setup at h; simp [hf, hb] at h
    · have e : setup st = ({ st with chan := { id := st.nextId }, fieldsSet := true, confirms := 0,
                                      nextId := st.nextId + 1 }, [.opened st.nextId], true) := by
        unfold setup; simp [hf, hb]
      rw [e]; exact ⟨rfl, fun _ _ => ⟨rfl, rfl⟩⟩

/-- the tail of `attempt` after the wait returned `wl` -/
def attWait (mode : Mode) (msgs : List Nat) (evs : List Ev) (wl : St × List Tok × List Ev × WaitRes) :
    St × List Tok × List Ev × AttRes :=
  match wl.2.2.2 with
  | .ok => (wl.1, wl.2.1, evs, .ok)
  | .hang => (wl.1, wl.2.1, evs, .hang)
  | .starve => (wl.1, wl.2.1, evs, .starve)
  | .fail rem =>
    if rem > msgs.length then (wl.1, wl.2.1, evs, .panic)
    else if mode = .fixed then
      ((hookTok (resetChannel wl.1).1 (popTok wl.2.1).1).1, (popTok wl.2.1).2,
       evs ++ (resetChannel wl.1).2 ++ [.fail] ++ (hookTok (resetChannel wl.1).1 (popTok wl.2.1).1).2,
       .retry (if rem > 0 then msgs.drop (msgs.length - rem) else msgs))
    else
      ((hookTok wl.1 (popTok wl.2.1).1).1, (popTok wl.2.1).2,
       evs ++ [.fail] ++ (hookTok wl.1 (popTok wl.2.1).1).2,
       .retry (if rem > 0 then msgs.drop (msgs.length - rem) else msgs))

theorem attempt_setup_fail (mode : Mode) (st : St) (msgs : List Nat) (toks : List Tok)
    (h : (setup st).2.2 = false) :
    attempt mode st msgs toks = ((setup st).1, toks, (setup st).2.1, .retry msgs) := by
  unfold attempt
  simp only [h, if_true]

theorem attempt_send_panic (mode : Mode) (st : St) (msgs : List Nat) (toks : List Tok)
    (h : (setup st).2.2 = true) (hs : (send mode (setup st).1 msgs toks).2.2.2 = .panic) :
    attempt mode st msgs toks =
      ((send mode (setup st).1 msgs toks).1, (send mode (setup st).1 msgs toks).2.1,
       (setup st).2.1 ++ (send mode (setup st).1 msgs toks).2.2.1, .panic) := by
  unfold attempt
  simp only [h, hs, Bool.true_eq_false, if_false]

theorem attempt_send_fail (mode : Mode) (st : St) (msgs : List Nat) (toks : List Tok)
    (h : (setup st).2.2 = true) (hs : (send mode (setup st).1 msgs toks).2.2.2 = .fail) :
    attempt mode st msgs toks =
      ((if mode = .fixed then
          resetChannel (hookTok (send mode (setup st).1 msgs toks).1 (popTok (send mode (setup st).1 msgs toks).2.1).1).1
        else ((hookTok (send mode (setup st).1 msgs toks).1 (popTok (send mode (setup st).1 msgs toks).2.1).1).1, [])).1,
       (popTok (send mode (setup st).1 msgs toks).2.1).2,
       (setup st).2.1 ++ (send mode (setup st).1 msgs toks).2.2.1 ++ [.fail] ++
         (hookTok (send mode (setup st).1 msgs toks).1 (popTok (send mode (setup st).1 msgs toks).2.1).1).2 ++
         (if mode = .fixed then
          resetChannel (hookTok (send mode (setup st).1 msgs toks).1 (popTok (send mode (setup st).1 msgs toks).2.1).1).1
        else ((hookTok (send mode (setup st).1 msgs toks).1 (popTok (send mode (setup st).1 msgs toks).2.1).1).1, [])).2,
       .retry msgs) := by
  unfold attempt
  simp only [h, hs, Bool.true_eq_false, if_false]

theorem attempt_send_done (mode : Mode) (st : St) (msgs : List Nat) (toks : List Tok)
    (h : (setup st).2.2 = true) (hs : (send mode (setup st).1 msgs toks).2.2.2 = .done) :
    attempt mode st msgs toks =
      attWait mode msgs
        ((setup st).2.1 ++ (send mode (setup st).1 msgs toks).2.2.1 ++ [.wait] ++
          (hookTok (send mode (setup st).1 msgs toks).1 (popTok (send mode (setup st).1 msgs toks).2.1).1).2 ++
          (waitLoop mode (msgs.length + (send mode (setup st).1 msgs toks).1.confirms)
            ((hookTok (send mode (setup st).1 msgs toks).1 (popTok (send mode (setup st).1 msgs toks).2.1).1).1.chan.pending.length + 1)
            (hookTok (send mode (setup st).1 msgs toks).1 (popTok (send mode (setup st).1 msgs toks).2.1).1).1
            (popTok (send mode (setup st).1 msgs toks).2.1).2).2.2.1)
        (waitLoop mode (msgs.length + (send mode (setup st).1 msgs toks).1.confirms)
            ((hookTok (send mode (setup st).1 msgs toks).1 (popTok (send mode (setup st).1 msgs toks).2.1).1).1.chan.pending.length + 1)
            (hookTok (send mode (setup st).1 msgs toks).1 (popTok (send mode (setup st).1 msgs toks).2.1).1).1
            (popTok (send mode (setup st).1 msgs toks).2.1).2) := by
  unfold attempt attWait
  simp only [h, hs, Bool.true_eq_false, if_false]
  generalize waitLoop mode (msgs.length + (send mode (setup st).1 msgs toks).1.confirms)
            ((hookTok (send mode (setup st).1 msgs toks).1 (popTok (send mode (setup st).1 msgs toks).2.1).1).1.chan.pending.length + 1)
            (hookTok (send mode (setup st).1 msgs toks).1 (popTok (send mode (setup st).1 msgs toks).2.1).1).1
            (popTok (send mode (setup st).1 msgs toks).2.1).2 = wl
  obtain ⟨a, b, c, d⟩ := wl
  cases d <;> rfl

theorem Confd.mem {evs : List Ev} {m : Nat} (h : Confd evs m) :
    ∃ ch tag, Ev.pub ch tag m .ack ∈ evs ∧ Ev.conf ch tag true ∈ evs := by
  obtain ⟨ch, tag, h⟩ := h
  exact ⟨ch, tag, h.subset (List.mem_cons_self ..), h.subset (List.mem_cons_of_mem _ (List.mem_cons_self ..))⟩

theorem not_confd_of_noconf {evs : List Ev} (h : ∀ e ∈ evs, isConf e = false) (m : Nat) : ¬ Confd evs m := by
  intro hc
  obtain ⟨ch, tag, _, h2⟩ := hc.mem
  have h3 : true = false := h _ h2
  cases h3

theorem Quiet.noconf {evs : List Ev} (h : Quiet evs) : ∀ e ∈ evs, isConf e = false := fun e he => (h e he).2
theorem Quiet.nopub {evs : List Ev} (h : Quiet evs) : ∀ e ∈ evs, isPub e = false := fun e he => (h e he).1

theorem Quiet.single_fail : Quiet [Ev.fail] := by
  intro e he; simp at he; subst he; exact ⟨rfl, rfl⟩
theorem Quiet.single_wait : Quiet [Ev.wait] := by
  intro e he; simp at he; subst he; exact ⟨rfl, rfl⟩

theorem noconf_append {a b : List Ev} (ha : ∀ e ∈ a, isConf e = false) (hb : ∀ e ∈ b, isConf e = false) :
    ∀ e ∈ a ++ b, isConf e = false := by
  intro e he
  rcases List.mem_append.1 he with h | h
  · exact ha e h
  · exact hb e h

theorem sub_mid (A B X Y D : List Ev) : (B ++ D).Sublist (A ++ B ++ X ++ Y ++ D) := by
  have h1 : B.Sublist (A ++ B ++ X ++ Y) := by
    rw [List.append_assoc, List.append_assoc]
    exact (List.sublist_append_left B (X ++ Y)).trans (List.sublist_append_right A _)
  exact List.Sublist.append h1 (List.Sublist.refl D)

/-- One run of `operation`, started in a `Clean` state, in the repaired code (any script) or in the code before
the repair under a script without nack / publish error:
* `ok`: every message of `msgs` was published and positively confirmed in this attempt, and the state is `Clean`;
* `retry msgs'`: `msgs'` is a suffix `msgs.drop k`, the `k` dropped messages were published and positively
  confirmed in this attempt, and the state is `Clean`;
* `hang`/`panic` only before the repair; never `starve`. -/
theorem attempt_spec (mode : Mode) (st : St) (msgs : List Nat) (toks : List Tok) (hc : Clean st)
    (hm : mode = .fixed ∨ NoNackErr toks) :
    (attempt mode st msgs toks).2.1 <:+ toks ∧
    ((attempt mode st msgs toks).2.2.2 = .ok → (∀ m ∈ msgs, Confd (attempt mode st msgs toks).2.2.1 m) ∧ Clean (attempt mode st msgs toks).1) ∧
    (∀ msgs', (attempt mode st msgs toks).2.2.2 = .retry msgs' → Clean (attempt mode st msgs toks).1 ∧
      (∃ k, k ≤ msgs.length ∧ msgs' = msgs.drop k ∧ (msgs ≠ [] → msgs' ≠ []) ∧ ∀ m ∈ msgs.take k, Confd (attempt mode st msgs toks).2.2.1 m) ∧
      (msgs.Nodup → ∀ m ∈ msgs', ¬ Confd (attempt mode st msgs toks).2.2.1 m)) ∧
    ((attempt mode st msgs toks).2.2.2 = .hang ∨ (attempt mode st msgs toks).2.2.2 = .panic → mode = .asIs) ∧ (attempt mode st msgs toks).2.2.2 ≠ .starve := by
  have retry0 : ∀ (E : List Ev), ∃ k, k ≤ msgs.length ∧ msgs = msgs.drop k ∧ (msgs ≠ [] → msgs ≠ []) ∧
      ∀ m ∈ msgs.take k, Confd E m :=
    fun E => ⟨0, Nat.zero_le _, rfl, id, by intro m hm; simp at hm⟩
  cases hs : (setup st).2.2 with
  | false =>
    rw [attempt_setup_fail mode st msgs toks hs]
    refine ⟨List.suffix_refl _, ?_, ?_, ?_, ?_⟩
    · intro h; cases h
    · intro msgs' h
      injection h with h
      subst h
      exact ⟨clean_of_fields_false (setup_fail_fields st hs), retry0 _,
        fun _ m _ => not_confd_of_noconf (setup_quiet st).noconf m⟩
    · rintro (h | h) <;> cases h
    · intro h; cases h
  | true =>
    obtain ⟨hf0, hc0⟩ := setup_ok_spec st hs hc
    have S := send_spec mode msgs (setup st).1 toks
    have SE := send_evs_spec mode msgs (setup st).1 toks
    cases hres : (send mode (setup st).1 msgs toks).2.2.2 with
    | panic =>
      rw [attempt_send_panic mode st msgs toks hs hres]
      refine ⟨S.2.2.1, ?_, ?_, ?_, ?_⟩
      · intro h; cases h
      · intro msgs' h; cases h
      · intro _
        rcases mode with _ | _
        · rfl
        · exact absurd hres (send_fixed_no_panic _ _ _)
      · intro h; cases h
    | fail =>
      rw [attempt_send_fail mode st msgs toks hs hres]
      refine ⟨(popTok_suffix _).trans S.2.2.1, ?_, ?_, ?_, ?_⟩
      · intro h; cases h
      · intro msgs' h
        injection h with h
        subst h
        refine ⟨?_, retry0 _, ?_⟩
        rotate_left
        · intro _ m _
          apply not_confd_of_noconf
          refine noconf_append (noconf_append (noconf_append (noconf_append (setup_quiet st).noconf
            (fun e he => (SE e he).1)) Quiet.single_fail.noconf) (hookTok_quiet _ _).noconf) ?_
          split
          · exact (resetChannel_quiet _).noconf
          · exact Quiet.nil.noconf
        rcases hm with hm | hm
        · subst hm
          simp only [if_true]
          exact clean_of_fields_false (resetChannel_fields_false _)
        · by_cases hmode : mode = .fixed
          · subst hmode
            simp only [if_true]
            exact clean_of_fields_false (resetChannel_fields_false _)
          · simp only [hmode, if_false]
            exact clean_of_closed ((hookTok_hook _ _).closed_mono (S.2.2.2.2.2 hm hres))
      · rintro (h | h) <;> cases h
      · intro h; cases h
    | done =>
      rw [attempt_send_done mode st msgs toks hs hres]
      have SC := send_closed mode (setup st).1 msgs toks
      generalize send mode (setup st).1 msgs toks = sd at S SE SC hres ⊢
      obtain ⟨s1, tk1, ev1, res1⟩ := sd
      simp only [] at S SE SC hres ⊢
      subst hres
      obtain ⟨S1, S2, S3, S4, S5, S6⟩ := S
      have hk := hookTok_hook s1 (popTok tk1).1
      have hq2 := hookTok_quiet s1 (popTok tk1).1
      generalize hookTok s1 (popTok tk1).1 = hkr at hk hq2 ⊢
      obtain ⟨s2, ev2⟩ := hkr
      simp only [] at hk hq2 ⊢
      have hsuf : (popTok tk1).2 <:+ toks := (popTok_suffix _).trans S3
      cases hcl0 : (setup st).1.chan.closed with
      | true =>
        -- the worker still holds a channel that the broker closed earlier: only an empty batch gets here
        obtain ⟨e1, e2, e3, e4⟩ := SC hcl0
        have hmsgs : msgs = [] := by
          cases msgs with
          | nil => rfl
          | cons a b => exact absurd rfl (e4 (by simp))
        subst hmsgs
        rw [waitLoop_done mode _ _ s2 _ (by rw [hk.2.2.1]; simp)]
        simp only [attWait]
        refine ⟨hsuf, ?_, ?_, ?_, ?_⟩
        · intro _
          refine ⟨(by intro m hm; cases hm), ?_⟩
          exact clean_of_closed (hk.closed_mono (by rw [e1]; exact hcl0))
        · intro msgs' h; cases h
        · rintro (h | h) <;> cases h
        · intro h; cases h
      | false =>
        obtain ⟨hp0, hcf0⟩ := hc0 hf0 hcl0
        -- the state at the start of the wait
        have W2 : Aligned ev1 (setup st).1.chan.id s2.confirms msgs s2.chan.pending ∧
            (s2.chan.closed = false → s2.chan.pending.length = msgs.length ∧
              s2.chan.tag = msgs.length + s1.confirms) ∧
            ((mode = .fixed ∨ NoNackErr toks) → mode ≠ .fixed → ∀ c ∈ s2.chan.pending, c.ack = true) := by
          cases hcl1 : s1.chan.closed with
          | true =>
            have hp1 : s1.chan.pending = [] := S5 hcl0 hcl1
            have hp2 : s2.chan.pending = [] := by
              rcases hk.2.2.2 with ⟨q, _⟩ | ⟨q, _⟩
              · rw [q]; exact hp1
              · exact q
            have hcl2 := hk.closed_mono hcl1
            rw [hp2]
            refine ⟨Aligned.nil .., ?_, ?_⟩
            · intro h; rw [hcl2] at h; cases h
            · intro _ _ c hc'; cases hc'
          | false =>
            obtain ⟨_, t1, new, t2, t3, t4, t5⟩ := S4 rfl hcl1
            rw [hp0, List.nil_append] at t2
            refine ⟨?_, ?_, ?_⟩
            · rcases hk.2.2.2 with ⟨q, _⟩ | ⟨q, _⟩
              · rw [q, t2, hk.2.2.1, S1, hcf0]; exact t4
              · rw [q]; exact Aligned.nil ..
            · intro h2
              obtain ⟨q1, _⟩ := hk.open_same h2
              rw [q1, t2, hk.2.1, t1, S1, hcf0]
              exact ⟨t3, by omega⟩
            · intro hm' hnf c hc'
              have hc'' := hk.pending_sub c hc'
              rw [t2] at hc''
              rcases hm' with hm' | hm'
              · exact absurd hm' hnf
              · exact t5 hm' c hc''
        obtain ⟨W2a, W2b, W2c⟩ := W2
        have W := waitLoop_spec mode (msgs.length + s1.confirms) (setup st).1.chan.id ev1
          (s2.chan.pending.length + 1) s2 msgs (popTok tk1).2 (hk.1.trans S2) (by rw [hk.2.2.1]) W2a W2b
          (Nat.le_refl _)
        have WE := waitLoop_evs_spec mode (msgs.length + s1.confirms) (setup st).1.chan.id ev1
          (s2.chan.pending.length + 1) s2 msgs (popTok tk1).2 W2a
        generalize waitLoop mode (msgs.length + s1.confirms) (s2.chan.pending.length + 1) s2 (popTok tk1).2 = wl
          at W WE ⊢
        obtain ⟨s3, tk3, ev3, res3⟩ := wl
        simp only [] at W WE ⊢
        obtain ⟨V1, V2, V3, V4, V5⟩ := W
        obtain ⟨_, WE2, WE3⟩ := WE
        -- a message kept for the retry has no positive confirmation in this attempt
        have hunconf : ∀ (Z : List Ev) (rem k : Nat), Quiet Z → s3.confirms + rem = msgs.length + s1.confirms →
            k + rem = msgs.length → msgs.Nodup → ∀ m ∈ msgs.drop k,
            ¬ Confd ((setup st).2.1 ++ ev1 ++ [.wait] ++ ev2 ++ ev3 ++ Z) m := by
          intro Z rem k hZ hrem hkr hnd m hmem hcd
          obtain ⟨ch, tag, hpub, hcf⟩ := hcd.mem
          have hpub1 : Ev.pub ch tag m .ack ∈ ev1 := by
            simp only [List.mem_append] at hpub
            rcases hpub with ((((h | h) | h) | h) | h) | h
            · exact absurd ((setup_quiet st).nopub _ h) (by simp [isPub])
            · exact h
            · exact absurd (Quiet.single_wait.nopub _ h) (by simp [isPub])
            · exact absurd (hq2.nopub _ h) (by simp [isPub])
            · exact absurd ((WE2 _ h).1) (by simp [isPub])
            · exact absurd (hZ.nopub _ h) (by simp [isPub])
          have hcf1 : Ev.conf ch tag true ∈ ev3 := by
            simp only [List.mem_append] at hcf
            rcases hcf with ((((h | h) | h) | h) | h) | h
            · exact absurd ((setup_quiet st).noconf _ h) (by simp [isConf])
            · exact absurd ((SE _ h).1) (by simp [isConf])
            · exact absurd (Quiet.single_wait.noconf _ h) (by simp [isConf])
            · exact absurd (hq2.noconf _ h) (by simp [isConf])
            · exact h
            · exact absurd (hZ.noconf _ h) (by simp [isConf])
          obtain ⟨_, j, hj, htag⟩ := (SE _ hpub1).2 ch tag m rfl
          have hle := (WE2 _ hcf1).2 ch tag rfl
          obtain ⟨i, hi⟩ := List.mem_iff_getElem?.1 hmem
          rw [List.getElem?_drop] at hi
          have hjl : j < msgs.length := by
            rcases Nat.lt_or_ge j msgs.length with h | h
            · exact h
            · rw [List.getElem?_eq_none h] at hj; cases hj
          have := (List.getElem?_inj hjl hnd).1 (hj.trans hi.symm)
          omega
        have hconf : ∀ (m : Nat) (Z : List Ev),
            (∃ tag, Ev.pub (setup st).1.chan.id tag m .ack ∈ ev1 ∧ Ev.conf (setup st).1.chan.id tag true ∈ ev3) →
            Confd ((setup st).2.1 ++ ev1 ++ [.wait] ++ ev2 ++ ev3 ++ Z) m := by
          rintro m Z ⟨tag, h1, h2⟩
          exact ((confd_of_mem h1 h2).mono (sub_mid _ _ _ _ _)).mono (List.sublist_append_left _ _)
        cases res3 with
        | ok =>
          simp only [attWait]
          obtain ⟨a1, a2⟩ := V2 rfl
          refine ⟨V1.trans hsuf, ?_, ?_, ?_, ?_⟩
          · intro _
            refine ⟨fun m hm => ?_, fun _ h => a2 h⟩
            have := hconf m [] (a1 m hm)
            rw [List.append_nil] at this
            exact this
          · intro msgs' h; cases h
          · rintro (h | h) <;> cases h
          · intro h; cases h
        | hang =>
          simp only [attWait]
          refine ⟨V1.trans hsuf, ?_, ?_, fun _ => V4 rfl, ?_⟩
          · intro h; cases h
          · intro msgs' h; cases h
          · intro h; cases h
        | starve => exact absurd rfl V5
        | fail rem =>
          obtain ⟨b1, k, b2, b3, b4⟩ := V3 rem rfl
          have hnot : ¬ rem > msgs.length := by omega
          have hk' : msgs.length - rem = k := by omega
          by_cases hmode : mode = .fixed
          · simp only [attWait, hnot, hmode, b1, if_true, if_false, hk']
            refine ⟨(popTok_suffix _).trans (V1.trans hsuf), ?_, ?_, ?_, ?_⟩
            · intro h; cases h
            · intro msgs' h
              injection h with h
              subst h
              refine ⟨clean_of_fields_false (hookTok_fields_false _ _ (resetChannel_fields_false _)),
                ⟨k, by omega, rfl, ?_, ?_⟩, ?_⟩
              · intro _ hd
                have := congrArg List.length hd
                simp at this; omega
              · intro m hm
                have := hconf m ((resetChannel s3).2 ++ [.fail] ++
                  (hookTok (resetChannel s3).1 (popTok tk3).1).2) (b3 m hm)
                simp only [List.append_assoc] at this ⊢
                exact this
              · intro hnd m hm
                have := hunconf ((resetChannel s3).2 ++ [.fail] ++
                  (hookTok (resetChannel s3).1 (popTok tk3).1).2) rem k
                  (((resetChannel_quiet _).append Quiet.single_fail).append (hookTok_quiet _ _))
                  (WE3 rem rfl) b2 hnd m hm
                simp only [List.append_assoc] at this ⊢
                exact this
            · rintro (h | h) <;> cases h
            · intro h; cases h
          · simp only [attWait, hnot, hmode, b1, if_true, if_false, hk']
            refine ⟨(popTok_suffix _).trans (V1.trans hsuf), ?_, ?_, ?_, ?_⟩
            · intro h; cases h
            · intro msgs' h
              injection h with h
              subst h
              refine ⟨clean_of_closed ((hookTok_hook _ _).closed_mono (b4 (W2c hm hmode))),
                ⟨k, by omega, rfl, ?_, ?_⟩, ?_⟩
              · intro _ hd
                have := congrArg List.length hd
                simp at this; omega
              · intro m hm
                have := hconf m ([.fail] ++ (hookTok s3 (popTok tk3).1).2) (b3 m hm)
                simp only [List.append_assoc] at this ⊢
                exact this
              · intro hnd m hm
                have := hunconf ([.fail] ++ (hookTok s3 (popTok tk3).1).2) rem k
                  (Quiet.single_fail.append (hookTok_quiet _ _))
                  (WE3 rem rfl) b2 hnd m hm
                simp only [List.append_assoc] at this ⊢
                exact this
            · rintro (h | h) <;> cases h
            · intro h; cases h

/-! ### the retry loop, one batch, a sequence of batches -/

theorem retryLoop_spec (mode : Mode) : ∀ (left : Nat) (st : St) (msgs : List Nat) (toks : List Tok),
    Clean st → (mode = .fixed ∨ NoNackErr toks) →
    ((retryLoop mode left st msgs toks).2.2 = .written → ∀ m ∈ msgs, Confd (retryLoop mode left st msgs toks).2.1 m) ∧
    ((retryLoop mode left st msgs toks).2.2 = .written ∨ (retryLoop mode left st msgs toks).2.2 = .exhausted → Clean (retryLoop mode left st msgs toks).1) ∧
    ((retryLoop mode left st msgs toks).2.2 = .hang ∨ (retryLoop mode left st msgs toks).2.2 = .panic → mode = .asIs) ∧ (retryLoop mode left st msgs toks).2.2 ≠ .starve ∧ (retryLoop mode left st msgs toks).2.2 ≠ .dead := by
  intro left
  induction left with
  | zero =>
    intro st msgs toks hc hm
    have AS := attempt_spec mode st msgs toks hc hm
    unfold retryLoop
    generalize attempt mode st msgs toks = a at AS ⊢
    obtain ⟨s1, tk1, ev1, res1⟩ := a
    simp only [] at AS ⊢
    obtain ⟨A1, A2, A3, A4, A5⟩ := AS
    cases res1 with
    | ok =>
      simp only []
      exact ⟨fun _ => (A2 rfl).1, fun _ => (A2 rfl).2, (by rintro (h | h) <;> cases h), (by intro h; cases h),
        (by intro h; cases h)⟩
    | retry msgs' =>
      simp only []
      exact ⟨(by intro h; cases h), fun _ => clean_dead (A3 msgs' rfl).1, (by rintro (h | h) <;> cases h),
        (by intro h; cases h), (by intro h; cases h)⟩
    | hang =>
      simp only []
      exact ⟨(by intro h; cases h), (by rintro (h | h) <;> cases h), fun _ => A4 (Or.inl rfl), (by intro h; cases h),
        (by intro h; cases h)⟩
    | panic =>
      simp only []
      exact ⟨(by intro h; cases h), (by rintro (h | h) <;> cases h), fun _ => A4 (Or.inr rfl), (by intro h; cases h),
        (by intro h; cases h)⟩
    | starve => exact absurd rfl A5
  | succ l ih =>
    intro st msgs toks hc hm
    have AS := attempt_spec mode st msgs toks hc hm
    unfold retryLoop
    generalize attempt mode st msgs toks = a at AS ⊢
    obtain ⟨s1, tk1, ev1, res1⟩ := a
    simp only [] at AS ⊢
    obtain ⟨A1, A2, A3, A4, A5⟩ := AS
    cases res1 with
    | ok =>
      simp only []
      exact ⟨fun _ => (A2 rfl).1, fun _ => (A2 rfl).2, (by rintro (h | h) <;> cases h), (by intro h; cases h),
        (by intro h; cases h)⟩
    | retry msgs' =>
      simp only []
      obtain ⟨c1, ⟨k, _, hk, _, hconf⟩, _⟩ := A3 msgs' rfl
      have hm' : mode = .fixed ∨ NoNackErr tk1 := hm.imp id (fun h => h.suffix A1)
      obtain ⟨I1, I2, I3, I4, I5⟩ := ih s1 msgs' tk1 c1 hm'
      refine ⟨?_, I2, I3, I4, I5⟩
      intro hw m hmem
      rw [← List.take_append_drop k msgs] at hmem
      rcases List.mem_append.1 hmem with h | h
      · exact (hconf m h).mono (List.sublist_append_left _ _)
      · exact (I1 hw m (hk ▸ h)).mono (List.sublist_append_right _ _)
    | hang =>
      simp only []
      exact ⟨(by intro h; cases h), (by rintro (h | h) <;> cases h), fun _ => A4 (Or.inl rfl), (by intro h; cases h),
        (by intro h; cases h)⟩
    | panic =>
      simp only []
      exact ⟨(by intro h; cases h), (by rintro (h | h) <;> cases h), fun _ => A4 (Or.inr rfl), (by intro h; cases h),
        (by intro h; cases h)⟩
    | starve => exact absurd rfl A5

theorem batch_spec (mode : Mode) (budget : Nat) (st : St) (n : Nat) (toks : List Tok) (hc : Clean st)
    (hm : mode = .fixed ∨ NoNackErr toks) :
    ((batch mode budget st n toks).2.2 = .written → ∀ i, i < n → ConfirmedAt (batch mode budget st n toks).2.1 i) ∧
    ((batch mode budget st n toks).2.2 = .written ∨ (batch mode budget st n toks).2.2 = .exhausted ∨ (batch mode budget st n toks).2.2 = .dead → Clean (batch mode budget st n toks).1) ∧
    ((batch mode budget st n toks).2.2 = .hang ∨ (batch mode budget st n toks).2.2 = .panic → mode = .asIs) ∧ (batch mode budget st n toks).2.2 ≠ .starve := by
  unfold batch
  split
  · exact ⟨(by intro h; cases h), fun _ => hc, (by rintro (h | h) <;> cases h), (by intro h; cases h)⟩
  · obtain ⟨R1, R2, R3, R4, R5⟩ := retryLoop_spec mode budget st (List.range n) toks hc hm
    refine ⟨?_, ?_, R3, R4⟩
    · intro hw i hi
      exact (confirmedAt_iff_confd _ _).2 (R1 hw i (List.mem_range.2 hi))
    · rintro (h | h | h)
      · exact R2 (Or.inl h)
      · exact R2 (Or.inr h)
      · exact absurd h R5

theorem batch_fixed_outcome (budget : Nat) (st : St) (n : Nat) (toks : List Tok) (hc : Clean st) :
    (batch .fixed budget st n toks).2.2 = .written ∨ (batch .fixed budget st n toks).2.2 = .exhausted ∨
    (batch .fixed budget st n toks).2.2 = .dead := by
  obtain ⟨_, _, h3, h4⟩ := batch_spec .fixed budget st n toks hc (Or.inl rfl)
  cases h : (batch .fixed budget st n toks).2.2 with
  | written => simp
  | exhausted => simp
  | dead => simp
  | hang => exact absurd (h3 (Or.inl h)) (by decide)
  | panic => exact absurd (h3 (Or.inr h)) (by decide)
  | starve => exact absurd h h4

theorem batch_fixed_clean (budget : Nat) (st : St) (n : Nat) (toks : List Tok) (hc : Clean st) :
    Clean (batch .fixed budget st n toks).1 :=
  (batch_spec .fixed budget st n toks hc (Or.inl rfl)).2.1 (batch_fixed_outcome budget st n toks hc)

theorem run_length (mode : Mode) (budget : Nat) : ∀ (bs : List (Nat × List Tok)) (st : St),
    (run mode budget st bs).length = bs.length := by
  intro bs
  induction bs with
  | nil => intro st; rfl
  | cons b rest ih =>
    intro st
    obtain ⟨n, toks⟩ := b
    simp only [run, List.length_cons, ih]

theorem run_fixed_spec (budget : Nat) : ∀ (bs : List (Nat × List Tok)) (st : St), Clean st →
    ∀ (b : Nat × List Tok) (r : List Ev × Outcome), (b, r) ∈ bs.zip (run .fixed budget st bs) →
      (r.2 = .written → ∀ i, i < b.1 → ConfirmedAt r.1 i) ∧
      (r.2 = .written ∨ r.2 = .exhausted ∨ r.2 = .dead) := by
  intro bs
  induction bs with
  | nil => intro st _ b r h; simp [run] at h
  | cons b0 rest ih =>
    intro st hc b r h
    obtain ⟨n, toks⟩ := b0
    simp only [run, List.zip_cons_cons, List.mem_cons] at h
    rcases h with h | h
    · injection h with h1 h2
      subst h1 h2
      exact ⟨(batch_spec .fixed budget st n toks hc (Or.inl rfl)).1, batch_fixed_outcome budget st n toks hc⟩
    · exact ih _ (batch_fixed_clean budget st n toks hc) b r h

/-! ### what an attempt on a fresh channel publishes -/

/-- the message indices of the publish calls in a log, in order -/
def pubMsgs : List Ev → List Nat
  | [] => []
  | .pub _ _ m _ :: r => m :: pubMsgs r
  | _ :: r => pubMsgs r

theorem pubMsgs_cons_nopub (e : Ev) (r : List Ev) (h : isPub e = false) : pubMsgs (e :: r) = pubMsgs r := by
  cases e <;> first | rfl | cases h

theorem pubMsgs_append (a b : List Ev) : pubMsgs (a ++ b) = pubMsgs a ++ pubMsgs b := by
  induction a with
  | nil => rfl
  | cons e r ih =>
    cases e <;> simp only [List.cons_append, pubMsgs, ih]

theorem pubMsgs_of_nopub {evs : List Ev} (h : ∀ e ∈ evs, isPub e = false) : pubMsgs evs = [] := by
  induction evs with
  | nil => rfl
  | cons e r ih =>
    rw [pubMsgs_cons_nopub e r (h e (List.mem_cons_self ..))]
    exact ih (fun e he => h e (List.mem_cons_of_mem _ he))

/-- `sendMessages` calls Publish for a prefix of `msgs`, in order, on the current channel; for all of `msgs` if it
returns without error -/
theorem send_pubs (mode : Mode) : ∀ (msgs : List Nat) (st : St) (toks : List Tok),
    pubMsgs (send mode st msgs toks).2.2.1 <+: msgs ∧
    ((send mode st msgs toks).2.2.2 = .done → pubMsgs (send mode st msgs toks).2.2.1 = msgs) ∧
    (∀ ch tag m o, Ev.pub ch tag m o ∈ (send mode st msgs toks).2.2.1 → ch = st.chan.id) := by
  intro msgs
  induction msgs with
  | nil =>
    intro st toks
    have e : send mode st [] toks = (st, toks, [], .done) := by simp [send]
    rw [e]
    exact ⟨List.prefix_refl _, fun _ => rfl, (by intro ch tag m o h; cases h)⟩
  | cons m ms ih =>
    intro st toks
    by_cases hpan : mode = .asIs ∧ st.fieldsSet = false
    · rw [send_cons_panic mode st m ms toks hpan]
      exact ⟨List.nil_prefix, (by intro h; cases h), (by intro ch tag m o h; cases h)⟩
    cases hcl : st.chan.closed with
    | true =>
      rw [send_cons_closed mode st m ms toks hpan hcl]
      exact ⟨List.nil_prefix, (by intro h; cases h), (by intro ch tag m o h; cases h)⟩
    | false =>
      rcases POut.cases5 (popTok toks).1.p with hp | hp | hp
      · rw [send_cons_err mode st m ms toks hpan hcl hp]
        refine ⟨?_, (by intro h; cases h), ?_⟩
        · show [m] <+: m :: ms
          exact (List.cons_prefix_cons).2 ⟨rfl, List.nil_prefix⟩
        · intro ch tag m' o h
          simp only [List.mem_singleton] at h
          cases h; rfl
      · rw [send_cons_acc mode st m ms toks hpan hcl hp]
        have IH := ih (ackSt st (decide ((popTok toks).1.p = .ack))) (popTok toks).2
        generalize send mode (ackSt st (decide ((popTok toks).1.p = .ack))) ms (popTok toks).2 = r at IH ⊢
        obtain ⟨s1, tk1, ev1, res1⟩ := r
        simp only [ackSt] at IH ⊢
        obtain ⟨i1, i2, i3⟩ := IH
        refine ⟨?_, ?_, ?_⟩
        · show m :: pubMsgs ev1 <+: m :: ms
          exact (List.cons_prefix_cons).2 ⟨rfl, i1⟩
        · intro hd
          show m :: pubMsgs ev1 = m :: ms
          rw [i2 hd]
        · intro ch tag m' o h
          rcases List.mem_cons.1 h with h | h
          · cases h; rfl
          · exact i3 ch tag m' o h
      · rw [send_cons_close mode st m ms toks hpan hcl hp]
        have hsc := send_closed mode (closeSt st (popTok toks).1).1 ms (popTok toks).2 (closeSt_closed _ _)
        rw [hsc.2.2.1, List.append_nil]
        have hq := closeSt_quiet st (popTok toks).1
        refine ⟨?_, ?_, ?_⟩
        · show m :: pubMsgs (closeSt st (popTok toks).1).2 <+: m :: ms
          rw [pubMsgs_of_nopub hq.nopub]
          exact (List.cons_prefix_cons).2 ⟨rfl, List.nil_prefix⟩
        · intro hd
          show m :: pubMsgs (closeSt st (popTok toks).1).2 = m :: ms
          rw [pubMsgs_of_nopub hq.nopub]
          cases ms with
          | nil => rfl
          | cons a b => exact absurd hd (hsc.2.2.2 (by simp))
        · intro ch tag m' o h
          rcases List.mem_cons.1 h with h | h
          · cases h; rfl
          · have h2 : true = false := hq.nopub _ h
            cases h2

theorem waitLoop_nopub (mode : Mode) (desired : Nat) : ∀ (f : Nat) (st : St) (toks : List Tok),
    ∀ e ∈ (waitLoop mode desired f st toks).2.2.1, isPub e = false := by
  intro f
  induction f with
  | zero => intro st toks e he; simp [waitLoop] at he
  | succ f ih =>
    intro st toks
    by_cases hd : desired ≤ st.confirms
    · rw [waitLoop_done mode desired f st toks hd]; intro e he; cases he
    by_cases hh : mode = .asIs ∧ st.fieldsSet = false
    · rw [waitLoop_hang mode desired f st toks hd hh]; intro e he; cases he
    cases hp : st.chan.pending with
    | nil =>
      rw [waitLoop_empty mode desired f st toks hd hh hp]
      split <;> (intro e he; cases he)
    | cons c rest =>
      have hq := hookTok_quiet (popSt st rest) (popTok toks).1
      cases ha : c.ack with
      | false =>
        rw [waitLoop_nack mode desired f st toks hd hh c rest hp ha]
        intro e he
        rcases List.mem_cons.1 he with rfl | he
        · rfl
        · exact hq.nopub e he
      | true =>
        rw [waitLoop_ack mode desired f st toks hd hh c rest hp ha]
        intro e he
        rcases List.mem_cons.1 he with rfl | he
        · rfl
        · rcases List.mem_append.1 he with he | he
          · exact hq.nopub e he
          · exact ih _ _ e he

theorem ite_reset_quiet (mode : Mode) (x : St) :
    Quiet (if mode = .fixed then resetChannel x else (x, [])).2 := by
  split
  · exact resetChannel_quiet x
  · exact Quiet.nil

theorem attWait_evs (mode : Mode) (msgs : List Nat) (evs : List Ev) (wl : St × List Tok × List Ev × WaitRes) :
    ∃ Z, Quiet Z ∧ (attWait mode msgs evs wl).2.2.1 = evs ++ Z := by
  obtain ⟨a, b, c, d⟩ := wl
  cases d with
  | ok => exact ⟨[], Quiet.nil, by simp [attWait]⟩
  | hang => exact ⟨[], Quiet.nil, by simp [attWait]⟩
  | starve => exact ⟨[], Quiet.nil, by simp [attWait]⟩
  | fail rem =>
    simp only [attWait]
    split
    · exact ⟨[], Quiet.nil, by simp⟩
    · split
      · exact ⟨(resetChannel a).2 ++ [.fail] ++ (hookTok (resetChannel a).1 (popTok b).1).2,
          ((resetChannel_quiet a).append Quiet.single_fail).append (hookTok_quiet _ _),
          by simp only [List.append_assoc]⟩
      · exact ⟨[.fail] ++ (hookTok a (popTok b).1).2, Quiet.single_fail.append (hookTok_quiet _ _),
          by simp only [List.append_assoc]⟩

/-- An attempt that starts without a channel (as after every failed attempt of the repaired code): either
`conn.Channel()` fails and nothing is published, or it opens the NEW channel `st.nextId`, every Publish of the
attempt goes to that channel, the published messages are a prefix of `msgs` in order (all of `msgs` unless
`sendMessages` fails; in particular if the attempt succeeds). -/
theorem attempt_fresh_pubs (mode : Mode) (st : St) (msgs : List Nat) (toks : List Tok) (hf : st.fieldsSet = false) :
    (st.connBroken = true → (attempt mode st msgs toks).2.2.1 = [.openFail] ∧
      (attempt mode st msgs toks).2.2.2 = .retry msgs) ∧
    (st.connBroken = false → ∃ rest, (attempt mode st msgs toks).2.2.1 = .opened st.nextId :: rest ∧
      (∀ ch tag m o, Ev.pub ch tag m o ∈ rest → ch = st.nextId) ∧ pubMsgs rest <+: msgs ∧
      ((attempt mode st msgs toks).2.2.2 = .ok → pubMsgs rest = msgs)) := by
  constructor
  · intro hb
    have e : setup st = ({ st with connBroken := false }, [.openFail], false) := by
      unfold setup; simp [hf, hb]
    rw [attempt_setup_fail mode st msgs toks (by rw [e]), e]
    exact ⟨rfl, rfl⟩
  · intro hb
    have e : setup st = ({ st with chan := { id := st.nextId }, fieldsSet := true, confirms := 0,
                                    nextId := st.nextId + 1 }, [.opened st.nextId], true) := by
      unfold setup; simp [hf, hb]
    have hs : (setup st).2.2 = true := by rw [e]
    have hid : (setup st).1.chan.id = st.nextId := by rw [e]
    have hev : (setup st).2.1 = [.opened st.nextId] := by rw [e]
    obtain ⟨P1, P2, P3⟩ := send_pubs mode msgs (setup st).1 toks
    rw [hid] at P3
    -- in every branch the log is `opened :: (sendEvents ++ Q)` with `Q` free of publishes
    have close : ∀ (Q : List Ev) (res : AttRes), (∀ e ∈ Q, isPub e = false) →
        (res = .ok → (send mode (setup st).1 msgs toks).2.2.2 = .done) →
        ∃ rest, Ev.opened st.nextId :: ((send mode (setup st).1 msgs toks).2.2.1 ++ Q) = .opened st.nextId :: rest ∧
        (∀ ch tag m o, Ev.pub ch tag m o ∈ rest → ch = st.nextId) ∧ pubMsgs rest <+: msgs ∧
        (res = .ok → pubMsgs rest = msgs) := by
      intro Q res hQ hres
      refine ⟨_, rfl, ?_⟩
      rw [pubMsgs_append, pubMsgs_of_nopub hQ, List.append_nil]
      refine ⟨?_, P1, fun h => P2 (hres h)⟩
      intro ch tag m o h
      rcases List.mem_append.1 h with h | h
      · exact P3 ch tag m o h
      · have h2 : true = false := hQ _ h
        cases h2
    cases hres : (send mode (setup st).1 msgs toks).2.2.2 with
    | panic =>
      rw [attempt_send_panic mode st msgs toks hs hres, hev]
      have := close [] .panic (by intro e he; cases he) (by intro h; cases h)
      rw [List.append_nil] at this
      exact this
    | fail =>
      rw [attempt_send_fail mode st msgs toks hs hres, hev]
      simp only [List.append_assoc, List.cons_append, List.nil_append]
      apply close
      · exact Quiet.nopub (Quiet.single_fail.append ((hookTok_quiet _ _).append (ite_reset_quiet mode _)))
      · intro h; cases h
    | done =>
      rw [attempt_send_done mode st msgs toks hs hres]
      obtain ⟨Z, hZ, hE⟩ := attWait_evs mode msgs
        ((setup st).2.1 ++ (send mode (setup st).1 msgs toks).2.2.1 ++ [.wait] ++
          (hookTok (send mode (setup st).1 msgs toks).1 (popTok (send mode (setup st).1 msgs toks).2.1).1).2 ++
          (waitLoop mode (msgs.length + (send mode (setup st).1 msgs toks).1.confirms)
            ((hookTok (send mode (setup st).1 msgs toks).1 (popTok (send mode (setup st).1 msgs toks).2.1).1).1.chan.pending.length + 1)
            (hookTok (send mode (setup st).1 msgs toks).1 (popTok (send mode (setup st).1 msgs toks).2.1).1).1
            (popTok (send mode (setup st).1 msgs toks).2.1).2).2.2.1)
        (waitLoop mode (msgs.length + (send mode (setup st).1 msgs toks).1.confirms)
            ((hookTok (send mode (setup st).1 msgs toks).1 (popTok (send mode (setup st).1 msgs toks).2.1).1).1.chan.pending.length + 1)
            (hookTok (send mode (setup st).1 msgs toks).1 (popTok (send mode (setup st).1 msgs toks).2.1).1).1
            (popTok (send mode (setup st).1 msgs toks).2.1).2)
      rw [hE, hev]
      simp only [List.append_assoc, List.cons_append, List.nil_append]
      apply close
      · intro e he
        rcases List.mem_cons.1 he with rfl | he
        · rfl
        · rcases List.mem_append.1 he with he | he
          · exact (hookTok_quiet _ _).nopub e he
          · rcases List.mem_append.1 he with he | he
            · exact waitLoop_nopub _ _ _ _ _ e he
            · exact hZ.nopub e he
      · intro _; exact hres

end PgBifrost.Proofs.Rabbit
