import PgBifrost.Model.Client
import PgBifrost.Spec.Client
/-!
# Helper lemmas about the client model: the history of a run and a frame lemma for the
"quiet" sub-operations (`getConnRepl`, `sendStatus`, `handleProgress`, `writeLoop`, `loopTop`).
-/
namespace PgBifrost.ClientProofs
open PgBifrost.Client PgBifrost.Spec.Client

/-- history of the model started in `s` on the events `evs` -/
def histFrom (v : Variant) : State → List Ev → Hist
  | _, [] => []
  | s, e :: r => (e, (step v s e).2) :: histFrom v (step v s e).1 r

/-- the model's own history: what the monitors would see if the implementation were the model -/
def hist (v : Variant) (evs : List Ev) : Hist := histFrom v start.1 evs

theorem start_state : start.1 = { conn := .live } := rfl
theorem start_acts : start.2 = [.getconn 0 true] := rfl

/-! ## `rmax` / `drain` -/

theorem drain_fst (l : List Nat) (o : Nat) (u : Bool) : (drain l o u).1 = rmax o l := by
  induction l generalizing o u with
  | nil => rfl
  | cons v r ih =>
    simp only [drain, rmax, List.foldl_cons]
    split
    · rw [ih]; simp only [rmax]; congr 1; omega
    · rw [ih]; simp only [rmax]; congr 1; omega

theorem rmax_ge (m : Nat) (l : List Nat) : m ≤ rmax m l := by
  induction l generalizing m with
  | nil => exact Nat.le_refl _
  | cons v r ih =>
    simp only [rmax, List.foldl_cons]
    exact Nat.le_trans (Nat.le_max_left m v) (ih (max m v))

theorem rmax_append (m : Nat) (a b : List Nat) : rmax m (a ++ b) = rmax (rmax m a) b := by
  simp [rmax, List.foldl_append]

theorem rmax_nil (m : Nat) : rmax m [] = m := rfl

theorem rmax_mem (m : Nat) (l : List Nat) : rmax m l = m ∨ rmax m l ∈ l := by
  induction l generalizing m with
  | nil => exact Or.inl rfl
  | cons v r ih =>
    simp only [rmax, List.foldl_cons]
    rcases ih (max m v) with h | h
    · rw [show List.foldl max (max m v) r = rmax (max m v) r from rfl, h]
      rcases Nat.le_total m v with hv | hv
      · right; rw [Nat.max_eq_right hv]; exact List.mem_cons_self
      · left; exact Nat.max_eq_left hv
    · right; exact List.mem_cons_of_mem _ h

/-! ## frame lemma -/

/-- `pend s`: the acknowledgement the client would send right now (everything on the channel
drained) -/
def pend (s : State) : Nat := rmax s.overall s.chan

/-- what a quiet sub-operation (`getConnRepl`, `sendStatus`, `handleProgress`, `writeLoop`,
`loopTop`) may do while the environment feeds the blocks `bl` one after the other: it only touches
`overall`, `chan`, `conn`; every action is a `getconn` at `highestWalStart` or a `status` carrying
the running maximum after some prefix of the feeds. -/
structure Quiet (s s' : State) (as : List Action) (bl : List (List Nat)) : Prop where
  phase : s'.phase = s.phase
  highest : s'.highest = s.highest
  txn : s'.txn = s.txn
  key : s'.key = s.key
  saw : s'.sawCommit = s.sawCommit
  first : s'.firstIter = s.firstIter
  hbc : s'.hbCount = s.hbCount
  hbd : s'.hbDelta = s.hbDelta
  openFlag : s'.openFlag = s.openFlag
  pd : pend s' = rmax (pend s) bl.flatten
  ov : s.overall ≤ s'.overall
  acts : ∀ a ∈ as, (∃ st, a = .getconn s.highest st) ∨
    (∃ j, j ≤ bl.length ∧ a = .status (rmax (pend s) (bl.take j).flatten))
  sorted : (statusesOf as).Pairwise (· ≤ ·)
  bound : ∀ l ∈ statusesOf as, s.overall ≤ l ∧ l ≤ s'.overall

theorem pend_ge (s : State) : s.overall ≤ pend s := rmax_ge _ _

theorem statusesOf_append (a b : List Action) : statusesOf (a ++ b) = statusesOf a ++ statusesOf b := by
  simp [statusesOf, List.filterMap_append]

theorem Quiet.refl (s : State) : Quiet s s [] [] :=
  ⟨rfl, rfl, rfl, rfl, rfl, rfl, rfl, rfl, rfl, rfl, Nat.le_refl _, by simp, by simp [statusesOf],
    by simp [statusesOf]⟩

theorem Quiet.trans {s s1 s2 : State} {as bs : List Action} {b1 b2 : List (List Nat)}
    (h1 : Quiet s s1 as b1) (h2 : Quiet s1 s2 bs b2) : Quiet s s2 (as ++ bs) (b1 ++ b2) where
  phase := h2.phase.trans h1.phase
  highest := h2.highest.trans h1.highest
  txn := h2.txn.trans h1.txn
  key := h2.key.trans h1.key
  saw := h2.saw.trans h1.saw
  first := h2.first.trans h1.first
  hbc := h2.hbc.trans h1.hbc
  hbd := h2.hbd.trans h1.hbd
  openFlag := h2.openFlag.trans h1.openFlag
  pd := by rw [h2.pd, h1.pd, List.flatten_append, rmax_append]
  ov := Nat.le_trans h1.ov h2.ov
  acts := by
    intro a ha
    rcases List.mem_append.mp ha with ha | ha
    · rcases h1.acts a ha with h | ⟨j, hj, h⟩
      · exact Or.inl h
      · refine Or.inr ⟨j, by simp only [List.length_append]; omega, ?_⟩
        rw [h, List.take_append_of_le_length hj]
    · rcases h2.acts a ha with ⟨st, h⟩ | ⟨j, hj, h⟩
      · exact Or.inl ⟨st, by rw [h, h1.highest]⟩
      · refine Or.inr ⟨b1.length + j, by simp only [List.length_append]; omega, ?_⟩
        rw [h, h1.pd, ← rmax_append, ← List.flatten_append, List.take_length_add_append]
  sorted := by
    rw [statusesOf_append, List.pairwise_append]
    refine ⟨h1.sorted, h2.sorted, ?_⟩
    intro a ha b hb
    have := (h1.bound a ha).2; have := (h2.bound b hb).1; omega
  bound := by
    intro l hl
    rw [statusesOf_append] at hl
    rcases List.mem_append.mp hl with hl | hl
    · have := h1.bound l hl; have := h2.ov; omega
    · have := h2.bound l hl; have := h1.ov; omega

theorem quiet_getConnRepl (s : State) :
    Quiet s (getConnRepl s s.highest).1 (getConnRepl s s.highest).2 [] := by
  refine ⟨rfl, rfl, rfl, rfl, rfl, rfl, rfl, rfl, rfl, rfl, Nat.le_refl _, ?_, by simp [getConnRepl, statusesOf],
    by simp [getConnRepl, statusesOf]⟩
  intro a ha
  simp only [getConnRepl, List.mem_singleton] at ha
  exact Or.inl ⟨_, ha⟩

/-- the environment puts `b` on the progress channel -/
theorem quiet_feed (s : State) (b : List Nat) : Quiet s (feed1 s b) [] [b] := by
  refine ⟨rfl, rfl, rfl, rfl, rfl, rfl, rfl, rfl, rfl, ?_, Nat.le_refl _, by simp, by simp [statusesOf],
    by simp [statusesOf]⟩
  simp [pend, feed1, rmax_append]

theorem quiet_handleProgress (s : State) (f : Bool) :
    Quiet s (handleProgress s f).1 (handleProgress s f).2 [] := by
  have hd : (drain s.chan s.overall false).1 = pend s := drain_fst _ _ _
  unfold handleProgress
  simp only
  split
  · refine ⟨rfl, rfl, rfl, rfl, rfl, rfl, rfl, rfl, rfl, ?_, ?_, ?_, ?_, ?_⟩
    · simp only [sendStatus, getConnRepl, pend, rmax_nil, List.flatten_nil]; exact hd
    · simp only [sendStatus, getConnRepl]; rw [hd]; exact pend_ge s
    · intro a ha
      simp only [sendStatus, getConnRepl, List.cons_append, List.nil_append, List.mem_cons,
        List.not_mem_nil, or_false] at ha
      rcases ha with ha | ha
      · exact Or.inl ⟨_, ha⟩
      · right; exact ⟨0, Nat.le_refl _, by rw [ha, hd]; rfl⟩
    · simp [sendStatus, getConnRepl, statusesOf]
    · simp only [sendStatus, getConnRepl, statusesOf, List.cons_append, List.nil_append,
        List.filterMap_cons, List.filterMap_nil, List.mem_singleton]
      intro l hl; rw [hl, hd]; exact ⟨pend_ge s, Nat.le_refl _⟩
  · refine ⟨rfl, rfl, rfl, rfl, rfl, rfl, rfl, rfl, rfl, ?_, ?_, by simp, by simp [statusesOf],
      by simp [statusesOf]⟩
    · simp only [pend, rmax_nil, List.flatten_nil]; exact hd
    · simp only; rw [hd]; exact pend_ge s

theorem loopTop_eq (s : State) (t : Bool) :
    loopTop s t = ((getConnRepl (handleProgress s t).1 (handleProgress s t).1.highest).1,
      (handleProgress s t).2 ++ (getConnRepl (handleProgress s t).1 (handleProgress s t).1.highest).2) := rfl

theorem quiet_loopTop (s : State) (t : Bool) : Quiet s (loopTop s t).1 (loopTop s t).2 [] := by
  rw [loopTop_eq]
  exact (quiet_handleProgress s t).trans (quiet_getConnRepl _)

theorem writeLoop_cons (s : State) (b : List Nat) (r : List (List Nat)) :
    writeLoop s (b :: r) =
      ((writeLoop (feed1 (handleProgress s true).1 b) r).1,
        (handleProgress s true).2 ++
          (writeLoop (feed1 (handleProgress s true).1 b) r).2) := rfl

theorem quiet_writeLoop (s : State) (bl : List (List Nat)) :
    Quiet s (writeLoop s bl).1 (writeLoop s bl).2 bl := by
  induction bl generalizing s with
  | nil => exact Quiet.refl s
  | cons b r ih =>
    rw [writeLoop_cons]
    have h := ((quiet_handleProgress s true).trans (quiet_feed _ b)).trans (ih _)
    simpa using h


/-! ## consequences of `Quiet` used as rewrite rules -/

theorem Quiet.fwds {s s' : State} {as : List Action} {bl : List (List Nat)} (h : Quiet s s' as bl) :
    fwdsOf as = [] := by
  rw [fwdsOf, List.filterMap_eq_nil_iff]
  intro a ha
  rcases h.acts a ha with ⟨st, rfl⟩ | ⟨j, _, rfl⟩ <;> rfl

theorem Quiet.noClose {s s' : State} {as : List Action} {bl : List (List Nat)} (h : Quiet s s' as bl) :
    hasClose as = false := by
  rw [hasClose, List.any_eq_false]
  intro a ha
  rcases h.acts a ha with ⟨st, rfl⟩ | ⟨j, _, rfl⟩ <;> simp

theorem Quiet.noExit {s s' : State} {as : List Action} {bl : List (List Nat)} (h : Quiet s s' as bl) :
    hasExit as = false := by
  rw [hasExit, List.any_eq_false]
  intro a ha
  rcases h.acts a ha with ⟨st, rfl⟩ | ⟨j, _, rfl⟩ <;> simp

theorem Quiet.starts {s s' : State} {as : List Action} {bl : List (List Nat)} (h : Quiet s s' as bl) :
    ∀ l ∈ startsOf as, l = s.highest := by
  intro l hl
  simp only [startsOf, List.mem_filterMap] at hl
  obtain ⟨a, ha, hl⟩ := hl
  rcases h.acts a ha with ⟨st, rfl⟩ | ⟨j, _, rfl⟩
  · cases st <;> simp at hl; exact hl.symm
  · simp at hl

theorem Quiet.sts {s s' : State} {as : List Action} {bl : List (List Nat)} (h : Quiet s s' as bl) :
    ∀ l ∈ statusesOf as, ∃ j, j ≤ bl.length ∧ l = rmax (pend s) (bl.take j).flatten := by
  intro l hl
  simp only [statusesOf, List.mem_filterMap] at hl
  obtain ⟨a, ha, hl⟩ := hl
  rcases h.acts a ha with ⟨st, rfl⟩ | ⟨j, hj, rfl⟩
  · simp at hl
  · simp at hl; exact ⟨j, hj, hl.symm⟩

theorem handleProgress_chan (s : State) (f : Bool) : (handleProgress s f).1.chan = [] := by
  unfold handleProgress; simp only; split <;> rfl

theorem loopTop_chan (s : State) (t : Bool) : (loopTop s t).1.chan = [] := by
  rw [loopTop_eq]; exact handleProgress_chan s t

theorem pend_of_chan_nil {s : State} (h : s.chan = []) : pend s = s.overall := by
  simp [pend, h, rmax_nil]

theorem handleProgress_force_sts (s : State) :
    statusesOf (handleProgress s true).2 = [pend s] := by
  have hd : (drain s.chan s.overall false).1 = pend s := drain_fst _ _ _
  simp [handleProgress, sendStatus, getConnRepl, statusesOf, hd]

theorem writeLoop_sts_length (s : State) (bl : List (List Nat)) :
    (statusesOf (writeLoop s bl).2).length = bl.length := by
  induction bl generalizing s with
  | nil => rfl
  | cons b r ih =>
    rw [writeLoop_cons]
    simp only [statusesOf_append, List.length_append, handleProgress_force_sts, ih,
      List.length_cons, List.length_nil]
    omega

theorem loopTop_tick_sts (s : State) : statusesOf (loopTop s true).2 = [pend s] := by
  rw [loopTop_eq, statusesOf_append, handleProgress_force_sts]
  simp [getConnRepl, statusesOf]


/-! ## projections of the quiet operations (simp set) -/
section proj
variable (s : State) (f : Bool) (bl : List (List Nat)) (l : Nat)

@[simp] theorem hp_phase : (handleProgress s f).1.phase = s.phase := (quiet_handleProgress s f).phase
@[simp] theorem hp_highest : (handleProgress s f).1.highest = s.highest := (quiet_handleProgress s f).highest
@[simp] theorem hp_txn : (handleProgress s f).1.txn = s.txn := (quiet_handleProgress s f).txn
@[simp] theorem hp_key : (handleProgress s f).1.key = s.key := (quiet_handleProgress s f).key
@[simp] theorem hp_saw : (handleProgress s f).1.sawCommit = s.sawCommit := (quiet_handleProgress s f).saw
@[simp] theorem hp_first : (handleProgress s f).1.firstIter = s.firstIter := (quiet_handleProgress s f).first
@[simp] theorem hp_hbc : (handleProgress s f).1.hbCount = s.hbCount := (quiet_handleProgress s f).hbc
@[simp] theorem hp_hbd : (handleProgress s f).1.hbDelta = s.hbDelta := (quiet_handleProgress s f).hbd
@[simp] theorem hp_open : (handleProgress s f).1.openFlag = s.openFlag := (quiet_handleProgress s f).openFlag

@[simp] theorem wl_phase : (writeLoop s bl).1.phase = s.phase := (quiet_writeLoop s bl).phase
@[simp] theorem wl_highest : (writeLoop s bl).1.highest = s.highest := (quiet_writeLoop s bl).highest
@[simp] theorem wl_txn : (writeLoop s bl).1.txn = s.txn := (quiet_writeLoop s bl).txn
@[simp] theorem wl_key : (writeLoop s bl).1.key = s.key := (quiet_writeLoop s bl).key
@[simp] theorem wl_saw : (writeLoop s bl).1.sawCommit = s.sawCommit := (quiet_writeLoop s bl).saw
@[simp] theorem wl_first : (writeLoop s bl).1.firstIter = s.firstIter := (quiet_writeLoop s bl).first
@[simp] theorem wl_hbc : (writeLoop s bl).1.hbCount = s.hbCount := (quiet_writeLoop s bl).hbc
@[simp] theorem wl_hbd : (writeLoop s bl).1.hbDelta = s.hbDelta := (quiet_writeLoop s bl).hbd
@[simp] theorem wl_open : (writeLoop s bl).1.openFlag = s.openFlag := (quiet_writeLoop s bl).openFlag

@[simp] theorem lt_phase : (loopTop s f).1.phase = s.phase := (quiet_loopTop s f).phase
@[simp] theorem lt_highest : (loopTop s f).1.highest = s.highest := (quiet_loopTop s f).highest
@[simp] theorem lt_txn : (loopTop s f).1.txn = s.txn := (quiet_loopTop s f).txn
@[simp] theorem lt_key : (loopTop s f).1.key = s.key := (quiet_loopTop s f).key
@[simp] theorem lt_saw : (loopTop s f).1.sawCommit = s.sawCommit := (quiet_loopTop s f).saw
@[simp] theorem lt_first : (loopTop s f).1.firstIter = s.firstIter := (quiet_loopTop s f).first
@[simp] theorem lt_hbc : (loopTop s f).1.hbCount = s.hbCount := (quiet_loopTop s f).hbc
@[simp] theorem lt_hbd : (loopTop s f).1.hbDelta = s.hbDelta := (quiet_loopTop s f).hbd
@[simp] theorem lt_open : (loopTop s f).1.openFlag = s.openFlag := (quiet_loopTop s f).openFlag
@[simp] theorem lt_chan : (loopTop s f).1.chan = [] := loopTop_chan s f

@[simp] theorem hp_fwds : fwdsOf (handleProgress s f).2 = [] := (quiet_handleProgress s f).fwds
@[simp] theorem wl_fwds : fwdsOf (writeLoop s bl).2 = [] := (quiet_writeLoop s bl).fwds
@[simp] theorem lt_fwds : fwdsOf (loopTop s f).2 = [] := (quiet_loopTop s f).fwds
@[simp] theorem hp_noClose : hasClose (handleProgress s f).2 = false := (quiet_handleProgress s f).noClose
@[simp] theorem wl_noClose : hasClose (writeLoop s bl).2 = false := (quiet_writeLoop s bl).noClose
@[simp] theorem lt_noClose : hasClose (loopTop s f).2 = false := (quiet_loopTop s f).noClose
@[simp] theorem hp_noExit : hasExit (handleProgress s f).2 = false := (quiet_handleProgress s f).noExit
@[simp] theorem wl_noExit : hasExit (writeLoop s bl).2 = false := (quiet_writeLoop s bl).noExit
@[simp] theorem lt_noExit : hasExit (loopTop s f).2 = false := (quiet_loopTop s f).noExit
end proj

@[simp] theorem fwdsOf_append (a b : List Action) : fwdsOf (a ++ b) = fwdsOf a ++ fwdsOf b := by
  simp [fwdsOf, List.filterMap_append]
@[simp] theorem startsOf_append (a b : List Action) : startsOf (a ++ b) = startsOf a ++ startsOf b := by
  simp [startsOf, List.filterMap_append]
@[simp] theorem hasClose_append (a b : List Action) : hasClose (a ++ b) = (hasClose a || hasClose b) := by
  simp [hasClose, List.any_append]
@[simp] theorem hasExit_append (a b : List Action) : hasExit (a ++ b) = (hasExit a || hasExit b) := by
  simp [hasExit, List.any_append]

/-- every (re)start of replication in `as` requests `h` -/
def AllStarts (h : Nat) (as : List Action) : Prop := ∀ l ∈ startsOf as, l = h

@[simp] theorem allStarts_append (h : Nat) (a b : List Action) :
    AllStarts h (a ++ b) ↔ AllStarts h a ∧ AllStarts h b := by
  simp only [AllStarts, startsOf_append, List.mem_append]
  constructor
  · intro H; exact ⟨fun l hl => H l (Or.inl hl), fun l hl => H l (Or.inr hl)⟩
  · rintro ⟨H1, H2⟩ l (hl | hl); exact H1 l hl; exact H2 l hl
@[simp] theorem allStarts_nil (h : Nat) : AllStarts h [] := by simp [AllStarts, startsOf]
@[simp] theorem allStarts_hp (s : State) (f : Bool) : AllStarts s.highest (handleProgress s f).2 :=
  (quiet_handleProgress s f).starts
@[simp] theorem allStarts_wl (s : State) (bl : List (List Nat)) : AllStarts s.highest (writeLoop s bl).2 :=
  (quiet_writeLoop s bl).starts
@[simp] theorem allStarts_lt (s : State) (f : Bool) : AllStarts s.highest (loopTop s f).2 :=
  (quiet_loopTop s f).starts
theorem allStarts_of_none {h : Nat} {as : List Action} (hn : startsOf as = []) : AllStarts h as := by
  simp [AllStarts, hn]

theorem step_running (v : Variant) (s : State) (e : Ev) (h : s.phase = .running) :
    step v s e = finish (handleMsg v (feed1 s e.feed) e.msg) e.tick := by
  simp [step, h]
theorem step_first (v : Variant) (s : State) (e : Ev) (h : s.phase = .first) :
    step v s e = finish (handleFirst (feed1 s e.feed) e.msg) e.tick := by
  simp [step, h]
theorem step_exited (v : Variant) (s : State) (e : Ev) (h : s.phase = .exited) :
    step v s e = (s, []) := by
  simp [step, h]

theorem finish_none (p : State × List Action) (t : Bool) :
    finish (p, none) t = ((loopTop p.1 t).1, p.2 ++ (loopTop p.1 t).2) := rfl
theorem finish_some (p : State × List Action) (r : String) (t : Bool) :
    finish (p, some r) t = (exitState p.1, p.2 ++ [.exit r, .close]) := rfl

theorem forward_eq (s : State) (op : Op) (lsn : Nat) (bl : List (List Nat)) :
    forward s op lsn bl = (trackOpen (writeLoop s bl).1 op,
      (writeLoop s bl).2 ++ [.fwd op (writeLoop s bl).1.txn (writeLoop s bl).1.key lsn]) := rfl

/-! ## projections of the named state updates (generated text; all by `rfl`) -/
@[simp] theorem stampBegin_phase (s : State) (x : String) (n : Nat) : (stampBegin s x n).phase = (s.phase) := rfl
@[simp] theorem stampBegin_overall (s : State) (x : String) (n : Nat) : (stampBegin s x n).overall = (s.overall) := rfl
@[simp] theorem stampBegin_highest (s : State) (x : String) (n : Nat) : (stampBegin s x n).highest = (s.highest) := rfl
@[simp] theorem stampBegin_txn (s : State) (x : String) (n : Nat) : (stampBegin s x n).txn = (x) := rfl
@[simp] theorem stampBegin_key (s : State) (x : String) (n : Nat) : (stampBegin s x n).key = (some (x, n)) := rfl
@[simp] theorem stampBegin_sawCommit (s : State) (x : String) (n : Nat) : (stampBegin s x n).sawCommit = (s.sawCommit) := rfl
@[simp] theorem stampBegin_firstIter (s : State) (x : String) (n : Nat) : (stampBegin s x n).firstIter = (s.firstIter) := rfl
@[simp] theorem stampBegin_hbCount (s : State) (x : String) (n : Nat) : (stampBegin s x n).hbCount = (s.hbCount) := rfl
@[simp] theorem stampBegin_hbDelta (s : State) (x : String) (n : Nat) : (stampBegin s x n).hbDelta = (s.hbDelta) := rfl
@[simp] theorem stampBegin_conn (s : State) (x : String) (n : Nat) : (stampBegin s x n).conn = (s.conn) := rfl
@[simp] theorem stampBegin_chan (s : State) (x : String) (n : Nat) : (stampBegin s x n).chan = (s.chan) := rfl
@[simp] theorem stampBegin_openFlag (s : State) (x : String) (n : Nat) : (stampBegin s x n).openFlag = (s.openFlag) := rfl
@[simp] theorem acceptState_phase (s : State) (x : String) (n : Nat) : (acceptState s x n).phase = (s.phase) := rfl
@[simp] theorem acceptState_overall (s : State) (x : String) (n : Nat) : (acceptState s x n).overall = (s.overall) := rfl
@[simp] theorem acceptState_highest (s : State) (x : String) (n : Nat) : (acceptState s x n).highest = (s.highest) := rfl
@[simp] theorem acceptState_txn (s : State) (x : String) (n : Nat) : (acceptState s x n).txn = (x) := rfl
@[simp] theorem acceptState_key (s : State) (x : String) (n : Nat) : (acceptState s x n).key = (some (x, n)) := rfl
@[simp] theorem acceptState_sawCommit (s : State) (x : String) (n : Nat) : (acceptState s x n).sawCommit = (false) := rfl
@[simp] theorem acceptState_firstIter (s : State) (x : String) (n : Nat) : (acceptState s x n).firstIter = (false) := rfl
@[simp] theorem acceptState_hbCount (s : State) (x : String) (n : Nat) : (acceptState s x n).hbCount = (s.hbCount) := rfl
@[simp] theorem acceptState_hbDelta (s : State) (x : String) (n : Nat) : (acceptState s x n).hbDelta = (s.hbDelta) := rfl
@[simp] theorem acceptState_conn (s : State) (x : String) (n : Nat) : (acceptState s x n).conn = (s.conn) := rfl
@[simp] theorem acceptState_chan (s : State) (x : String) (n : Nat) : (acceptState s x n).chan = (s.chan) := rfl
@[simp] theorem acceptState_openFlag (s : State) (x : String) (n : Nat) : (acceptState s x n).openFlag = (s.openFlag) := rfl
@[simp] theorem commitState_phase (s : State) (l : Nat) : (commitState s l).phase = (s.phase) := rfl
@[simp] theorem commitState_overall (s : State) (l : Nat) : (commitState s l).overall = (s.overall) := rfl
@[simp] theorem commitState_highest (s : State) (l : Nat) : (commitState s l).highest = (max s.highest l) := rfl
@[simp] theorem commitState_txn (s : State) (l : Nat) : (commitState s l).txn = (s.txn) := rfl
@[simp] theorem commitState_key (s : State) (l : Nat) : (commitState s l).key = (s.key) := rfl
@[simp] theorem commitState_sawCommit (s : State) (l : Nat) : (commitState s l).sawCommit = (true) := rfl
@[simp] theorem commitState_firstIter (s : State) (l : Nat) : (commitState s l).firstIter = (s.firstIter) := rfl
@[simp] theorem commitState_hbCount (s : State) (l : Nat) : (commitState s l).hbCount = (s.hbCount) := rfl
@[simp] theorem commitState_hbDelta (s : State) (l : Nat) : (commitState s l).hbDelta = (s.hbDelta) := rfl
@[simp] theorem commitState_conn (s : State) (l : Nat) : (commitState s l).conn = (s.conn) := rfl
@[simp] theorem commitState_chan (s : State) (l : Nat) : (commitState s l).chan = (s.chan) := rfl
@[simp] theorem commitState_openFlag (s : State) (l : Nat) : (commitState s l).openFlag = (s.openFlag) := rfl
@[simp] theorem feedAll_phase (s : State) (bl : List (List Nat)) : (feedAll s bl).phase = (s.phase) := rfl
@[simp] theorem feedAll_overall (s : State) (bl : List (List Nat)) : (feedAll s bl).overall = (s.overall) := rfl
@[simp] theorem feedAll_highest (s : State) (bl : List (List Nat)) : (feedAll s bl).highest = (s.highest) := rfl
@[simp] theorem feedAll_txn (s : State) (bl : List (List Nat)) : (feedAll s bl).txn = (s.txn) := rfl
@[simp] theorem feedAll_key (s : State) (bl : List (List Nat)) : (feedAll s bl).key = (s.key) := rfl
@[simp] theorem feedAll_sawCommit (s : State) (bl : List (List Nat)) : (feedAll s bl).sawCommit = (s.sawCommit) := rfl
@[simp] theorem feedAll_firstIter (s : State) (bl : List (List Nat)) : (feedAll s bl).firstIter = (s.firstIter) := rfl
@[simp] theorem feedAll_hbCount (s : State) (bl : List (List Nat)) : (feedAll s bl).hbCount = (s.hbCount) := rfl
@[simp] theorem feedAll_hbDelta (s : State) (bl : List (List Nat)) : (feedAll s bl).hbDelta = (s.hbDelta) := rfl
@[simp] theorem feedAll_conn (s : State) (bl : List (List Nat)) : (feedAll s bl).conn = (s.conn) := rfl
@[simp] theorem feedAll_chan (s : State) (bl : List (List Nat)) : (feedAll s bl).chan = (s.chan ++ bl.flatten) := rfl
@[simp] theorem feedAll_openFlag (s : State) (bl : List (List Nat)) : (feedAll s bl).openFlag = (s.openFlag) := rfl
@[simp] theorem recoverState_phase (s : State) (p : Nat) : (recoverState s p).phase = (s.phase) := rfl
@[simp] theorem recoverState_overall (s : State) (p : Nat) : (recoverState s p).overall = (s.overall) := rfl
@[simp] theorem recoverState_highest (s : State) (p : Nat) : (recoverState s p).highest = (p) := rfl
@[simp] theorem recoverState_txn (s : State) (p : Nat) : (recoverState s p).txn = (s.txn) := rfl
@[simp] theorem recoverState_key (s : State) (p : Nat) : (recoverState s p).key = (s.key) := rfl
@[simp] theorem recoverState_sawCommit (s : State) (p : Nat) : (recoverState s p).sawCommit = (false) := rfl
@[simp] theorem recoverState_firstIter (s : State) (p : Nat) : (recoverState s p).firstIter = (true) := rfl
@[simp] theorem recoverState_hbCount (s : State) (p : Nat) : (recoverState s p).hbCount = (s.hbCount) := rfl
@[simp] theorem recoverState_hbDelta (s : State) (p : Nat) : (recoverState s p).hbDelta = (s.hbDelta) := rfl
@[simp] theorem recoverState_conn (s : State) (p : Nat) : (recoverState s p).conn = (Conn.none) := rfl
@[simp] theorem recoverState_chan (s : State) (p : Nat) : (recoverState s p).chan = (s.chan) := rfl
@[simp] theorem recoverState_openFlag (s : State) (p : Nat) : (recoverState s p).openFlag = (false) := rfl
@[simp] theorem connClosed_phase (s : State) : (connClosed s).phase = (s.phase) := rfl
@[simp] theorem connClosed_overall (s : State) : (connClosed s).overall = (s.overall) := rfl
@[simp] theorem connClosed_highest (s : State) : (connClosed s).highest = (s.highest) := rfl
@[simp] theorem connClosed_txn (s : State) : (connClosed s).txn = (s.txn) := rfl
@[simp] theorem connClosed_key (s : State) : (connClosed s).key = (s.key) := rfl
@[simp] theorem connClosed_sawCommit (s : State) : (connClosed s).sawCommit = (s.sawCommit) := rfl
@[simp] theorem connClosed_firstIter (s : State) : (connClosed s).firstIter = (s.firstIter) := rfl
@[simp] theorem connClosed_hbCount (s : State) : (connClosed s).hbCount = (s.hbCount) := rfl
@[simp] theorem connClosed_hbDelta (s : State) : (connClosed s).hbDelta = (s.hbDelta) := rfl
@[simp] theorem connClosed_conn (s : State) : (connClosed s).conn = (Conn.closed) := rfl
@[simp] theorem connClosed_chan (s : State) : (connClosed s).chan = (s.chan) := rfl
@[simp] theorem connClosed_openFlag (s : State) : (connClosed s).openFlag = (s.openFlag) := rfl
@[simp] theorem dropState_phase (v : Variant) (s : State) (x : String) (n : Nat) (bl : List (List Nat)) : (dropState v s x n bl).phase = (s.phase) := by unfold dropState; first | rfl | (simp only; first | done | rfl | (split <;> rfl))
@[simp] theorem dropState_overall (v : Variant) (s : State) (x : String) (n : Nat) (bl : List (List Nat)) : (dropState v s x n bl).overall = (s.overall) := by unfold dropState; first | rfl | (simp only; first | done | rfl | (split <;> rfl))
@[simp] theorem dropState_highest (v : Variant) (s : State) (x : String) (n : Nat) (bl : List (List Nat)) : (dropState v s x n bl).highest = (s.highest) := by unfold dropState; first | rfl | (simp only; first | done | rfl | (split <;> rfl))
@[simp] theorem dropState_txn (v : Variant) (s : State) (x : String) (n : Nat) (bl : List (List Nat)) : (dropState v s x n bl).txn = (if v = .fixedC then s.txn else x) := by unfold dropState; first | rfl | (simp only; first | done | rfl | (split <;> rfl))
@[simp] theorem dropState_key (v : Variant) (s : State) (x : String) (n : Nat) (bl : List (List Nat)) : (dropState v s x n bl).key = (if v = .fixedC then s.key else some (x, n)) := by unfold dropState; first | rfl | (simp only; first | done | rfl | (split <;> rfl))
@[simp] theorem dropState_sawCommit (v : Variant) (s : State) (x : String) (n : Nat) (bl : List (List Nat)) : (dropState v s x n bl).sawCommit = (false) := by unfold dropState; first | rfl | (simp only; first | done | rfl | (split <;> rfl))
@[simp] theorem dropState_firstIter (v : Variant) (s : State) (x : String) (n : Nat) (bl : List (List Nat)) : (dropState v s x n bl).firstIter = (true) := by unfold dropState; first | rfl | (simp only; first | done | rfl | (split <;> rfl))
@[simp] theorem dropState_hbCount (v : Variant) (s : State) (x : String) (n : Nat) (bl : List (List Nat)) : (dropState v s x n bl).hbCount = (s.hbCount) := by unfold dropState; first | rfl | (simp only; first | done | rfl | (split <;> rfl))
@[simp] theorem dropState_hbDelta (v : Variant) (s : State) (x : String) (n : Nat) (bl : List (List Nat)) : (dropState v s x n bl).hbDelta = (s.hbDelta) := by unfold dropState; first | rfl | (simp only; first | done | rfl | (split <;> rfl))
@[simp] theorem dropState_conn (v : Variant) (s : State) (x : String) (n : Nat) (bl : List (List Nat)) : (dropState v s x n bl).conn = (Conn.none) := by unfold dropState; first | rfl | (simp only; first | done | rfl | (split <;> rfl))
@[simp] theorem dropState_chan (v : Variant) (s : State) (x : String) (n : Nat) (bl : List (List Nat)) : (dropState v s x n bl).chan = (s.chan ++ bl.flatten) := by unfold dropState; first | rfl | (simp only; first | done | rfl | (split <;> rfl))
@[simp] theorem dropState_openFlag (v : Variant) (s : State) (x : String) (n : Nat) (bl : List (List Nat)) : (dropState v s x n bl).openFlag = (s.openFlag) := by unfold dropState; first | rfl | (simp only; first | done | rfl | (split <;> rfl))
@[simp] theorem trackOpen_phase (s : State) (o : Op) : (trackOpen s o).phase = (s.phase) := by cases o <;> rfl
@[simp] theorem trackOpen_overall (s : State) (o : Op) : (trackOpen s o).overall = (s.overall) := by cases o <;> rfl
@[simp] theorem trackOpen_highest (s : State) (o : Op) : (trackOpen s o).highest = (s.highest) := by cases o <;> rfl
@[simp] theorem trackOpen_txn (s : State) (o : Op) : (trackOpen s o).txn = (s.txn) := by cases o <;> rfl
@[simp] theorem trackOpen_key (s : State) (o : Op) : (trackOpen s o).key = (s.key) := by cases o <;> rfl
@[simp] theorem trackOpen_sawCommit (s : State) (o : Op) : (trackOpen s o).sawCommit = (s.sawCommit) := by cases o <;> rfl
@[simp] theorem trackOpen_firstIter (s : State) (o : Op) : (trackOpen s o).firstIter = (s.firstIter) := by cases o <;> rfl
@[simp] theorem trackOpen_hbCount (s : State) (o : Op) : (trackOpen s o).hbCount = (s.hbCount) := by cases o <;> rfl
@[simp] theorem trackOpen_hbDelta (s : State) (o : Op) : (trackOpen s o).hbDelta = (s.hbDelta) := by cases o <;> rfl
@[simp] theorem trackOpen_conn (s : State) (o : Op) : (trackOpen s o).conn = (s.conn) := by cases o <;> rfl
@[simp] theorem trackOpen_chan (s : State) (o : Op) : (trackOpen s o).chan = (s.chan) := by cases o <;> rfl
@[simp] theorem trackOpen_openFlag (s : State) (o : Op) : (trackOpen s o).openFlag = (match o with | .begin => true | .commit => false | .change => s.openFlag) := by cases o <;> rfl

@[simp] theorem exitWith_phase (s : State) (r : String) : (exitWith s r).1.phase = .exited := rfl
@[simp] theorem exitWith_acts (s : State) (r : String) : (exitWith s r).2 = [.exit r, .close] := rfl
@[simp] theorem exitWith_overall (s : State) (r : String) : (exitWith s r).1.overall = s.overall := rfl
@[simp] theorem feed1_phase (s : State) (b : List Nat) : (feed1 s b).phase = (s.phase) := rfl
@[simp] theorem feed1_overall (s : State) (b : List Nat) : (feed1 s b).overall = (s.overall) := rfl
@[simp] theorem feed1_highest (s : State) (b : List Nat) : (feed1 s b).highest = (s.highest) := rfl
@[simp] theorem feed1_txn (s : State) (b : List Nat) : (feed1 s b).txn = (s.txn) := rfl
@[simp] theorem feed1_key (s : State) (b : List Nat) : (feed1 s b).key = (s.key) := rfl
@[simp] theorem feed1_sawCommit (s : State) (b : List Nat) : (feed1 s b).sawCommit = (s.sawCommit) := rfl
@[simp] theorem feed1_firstIter (s : State) (b : List Nat) : (feed1 s b).firstIter = (s.firstIter) := rfl
@[simp] theorem feed1_hbCount (s : State) (b : List Nat) : (feed1 s b).hbCount = (s.hbCount) := rfl
@[simp] theorem feed1_hbDelta (s : State) (b : List Nat) : (feed1 s b).hbDelta = (s.hbDelta) := rfl
@[simp] theorem feed1_conn (s : State) (b : List Nat) : (feed1 s b).conn = (s.conn) := rfl
@[simp] theorem feed1_chan (s : State) (b : List Nat) : (feed1 s b).chan = (s.chan ++ b) := rfl
@[simp] theorem feed1_openFlag (s : State) (b : List Nat) : (feed1 s b).openFlag = (s.openFlag) := rfl
@[simp] theorem hbSet_phase (s : State) (c d : Nat) : (hbSet s c d).phase = (s.phase) := rfl
@[simp] theorem hbSet_overall (s : State) (c d : Nat) : (hbSet s c d).overall = (s.overall) := rfl
@[simp] theorem hbSet_highest (s : State) (c d : Nat) : (hbSet s c d).highest = (s.highest) := rfl
@[simp] theorem hbSet_txn (s : State) (c d : Nat) : (hbSet s c d).txn = (s.txn) := rfl
@[simp] theorem hbSet_key (s : State) (c d : Nat) : (hbSet s c d).key = (s.key) := rfl
@[simp] theorem hbSet_sawCommit (s : State) (c d : Nat) : (hbSet s c d).sawCommit = (s.sawCommit) := rfl
@[simp] theorem hbSet_firstIter (s : State) (c d : Nat) : (hbSet s c d).firstIter = (s.firstIter) := rfl
@[simp] theorem hbSet_hbCount (s : State) (c d : Nat) : (hbSet s c d).hbCount = (c) := rfl
@[simp] theorem hbSet_hbDelta (s : State) (c d : Nat) : (hbSet s c d).hbDelta = (d) := rfl
@[simp] theorem hbSet_conn (s : State) (c d : Nat) : (hbSet s c d).conn = (s.conn) := rfl
@[simp] theorem hbSet_chan (s : State) (c d : Nat) : (hbSet s c d).chan = (s.chan) := rfl
@[simp] theorem hbSet_openFlag (s : State) (c d : Nat) : (hbSet s c d).openFlag = (s.openFlag) := rfl
@[simp] theorem firstState_phase (s : State) (w : Nat) : (firstState s w).phase = (Phase.running) := rfl
@[simp] theorem firstState_overall (s : State) (w : Nat) : (firstState s w).overall = (w) := rfl
@[simp] theorem firstState_highest (s : State) (w : Nat) : (firstState s w).highest = (s.highest) := rfl
@[simp] theorem firstState_txn (s : State) (w : Nat) : (firstState s w).txn = (s.txn) := rfl
@[simp] theorem firstState_key (s : State) (w : Nat) : (firstState s w).key = (s.key) := rfl
@[simp] theorem firstState_sawCommit (s : State) (w : Nat) : (firstState s w).sawCommit = (s.sawCommit) := rfl
@[simp] theorem firstState_firstIter (s : State) (w : Nat) : (firstState s w).firstIter = (s.firstIter) := rfl
@[simp] theorem firstState_hbCount (s : State) (w : Nat) : (firstState s w).hbCount = (s.hbCount) := rfl
@[simp] theorem firstState_hbDelta (s : State) (w : Nat) : (firstState s w).hbDelta = (s.hbDelta) := rfl
@[simp] theorem firstState_conn (s : State) (w : Nat) : (firstState s w).conn = (s.conn) := rfl
@[simp] theorem firstState_chan (s : State) (w : Nat) : (firstState s w).chan = (s.chan) := rfl
@[simp] theorem firstState_openFlag (s : State) (w : Nat) : (firstState s w).openFlag = (s.openFlag) := rfl
@[simp] theorem exitState_phase (s : State) : (exitState s).phase = (Phase.exited) := rfl
@[simp] theorem exitState_overall (s : State) : (exitState s).overall = (s.overall) := rfl
@[simp] theorem exitState_highest (s : State) : (exitState s).highest = (s.highest) := rfl
@[simp] theorem exitState_txn (s : State) : (exitState s).txn = (s.txn) := rfl
@[simp] theorem exitState_key (s : State) : (exitState s).key = (s.key) := rfl
@[simp] theorem exitState_sawCommit (s : State) : (exitState s).sawCommit = (s.sawCommit) := rfl
@[simp] theorem exitState_firstIter (s : State) : (exitState s).firstIter = (s.firstIter) := rfl
@[simp] theorem exitState_hbCount (s : State) : (exitState s).hbCount = (s.hbCount) := rfl
@[simp] theorem exitState_hbDelta (s : State) : (exitState s).hbDelta = (s.hbDelta) := rfl
@[simp] theorem exitState_conn (s : State) : (exitState s).conn = (Conn.none) := rfl
@[simp] theorem exitState_chan (s : State) : (exitState s).chan = (s.chan) := rfl
@[simp] theorem exitState_openFlag (s : State) : (exitState s).openFlag = (s.openFlag) := rfl

@[simp] theorem fwdsOf_nil : fwdsOf [] = [] := rfl
@[simp] theorem startsOf_nil : startsOf [] = [] := rfl
@[simp] theorem statusesOf_nil : statusesOf [] = [] := rfl
@[simp] theorem hasClose_nil : hasClose [] = false := rfl
@[simp] theorem hasExit_nil : hasExit [] = false := rfl
@[simp] theorem startsOf_fwd (o : Op) (t : String) (k : Key) (l : Nat) (r : List Action) :
    startsOf (.fwd o t k l :: r) = startsOf r := rfl
@[simp] theorem startsOf_close (r : List Action) : startsOf (.close :: r) = startsOf r := rfl
@[simp] theorem startsOf_exit (x : String) (r : List Action) : startsOf (.exit x :: r) = startsOf r := rfl
@[simp] theorem startsOf_identify (r : List Action) : startsOf (.identify :: r) = startsOf r := rfl
@[simp] theorem startsOf_getplain (b : Bool) (r : List Action) : startsOf (.getplain b :: r) = startsOf r := rfl
@[simp] theorem startsOf_recoveryFwd (v : Variant) (s : State) : startsOf (recoveryFwd v s) = [] := by
  cases v <;> simp [recoveryFwd] <;> split <;> simp
@[simp] theorem allStarts_cons_fwd (h : Nat) (o : Op) (t : String) (k : Key) (l : Nat) (r : List Action) :
    AllStarts h (.fwd o t k l :: r) ↔ AllStarts h r := by simp [AllStarts]
@[simp] theorem allStarts_cons_close (h : Nat) (r : List Action) :
    AllStarts h (.close :: r) ↔ AllStarts h r := by simp [AllStarts]
@[simp] theorem allStarts_cons_exit (h : Nat) (x : String) (r : List Action) :
    AllStarts h (.exit x :: r) ↔ AllStarts h r := by simp [AllStarts]
@[simp] theorem allStarts_cons_identify (h : Nat) (r : List Action) :
    AllStarts h (.identify :: r) ↔ AllStarts h r := by simp [AllStarts]
@[simp] theorem allStarts_cons_getplain (h : Nat) (b : Bool) (r : List Action) :
    AllStarts h (.getplain b :: r) ↔ AllStarts h r := by simp [AllStarts]
@[simp] theorem allStarts_recoveryFwd (h : Nat) (v : Variant) (s : State) : AllStarts h (recoveryFwd v s) := by
  simp [AllStarts]

theorem handleMsg_keepalive (v : Variant) (s : State) (reply : Bool) (w el : Nat) :
    handleMsg v s (.keepalive reply w el) =
      if !reply then ((s, []), none) else
      match heartbeat (handleProgress s true).1 el with
      | none => (((handleProgress s true).1, (handleProgress s true).2), some "heartbeat")
      | some s2 => ((s2, (handleProgress s true).2), none) := rfl

theorem heartbeat_cases (s : State) (el : Nat) :
    heartbeat s el = none ∨ (∃ c d, heartbeat s el = some (hbSet s c d)) := by
  unfold heartbeat
  simp only
  split
  · exact Or.inl rfl
  · split
    · exact Or.inr ⟨_, _, rfl⟩
    · exact Or.inr ⟨_, _, rfl⟩

/-- C03 restart, one step from a running state -/
theorem step_starts (v : Variant) (s : State) (e : Ev) (hr : s.phase = .running) :
    AllStarts (expectedStart s.highest e) (step v s e).2 ∧
      ((step v s e).1.phase = .exited ∨
        ((step v s e).1.phase = .running ∧ (step v s e).1.highest = expectedStart s.highest e)) := by
  rw [step_running v s e hr]
  obtain ⟨feed, msg, tick⟩ := e
  cases msg with
  | data lsn p nanos blocks =>
    cases p with
    | begin x =>
      simp only [handleMsg, handleData]
      split <;> simp [finish_none, forward_eq, expectedStart, hr]
      · have := allStarts_lt (dropState v (feed1 s feed) x nanos blocks) tick
        simpa using this
      · have h1 := allStarts_wl (acceptState (feed1 s feed) x nanos) blocks
        have h2 := allStarts_lt (trackOpen (writeLoop (acceptState (feed1 s feed) x nanos) blocks).1 .begin) tick
        simp at h1 h2; exact ⟨h1, h2⟩
    | commit x =>
      simp [handleMsg, handleData, finish_none, forward_eq, expectedStart, hr]
      have h1 := allStarts_wl (commitState (feed1 s feed) lsn) blocks
      have h2 := allStarts_lt (trackOpen (writeLoop (commitState (feed1 s feed) lsn) blocks).1 .commit) tick
      simp at h1 h2
      exact ⟨h1, h2⟩
    | change =>
      simp [handleMsg, handleData, finish_none, forward_eq, expectedStart, hr]
      have h1 := allStarts_wl (feed1 s feed) blocks
      have h2 := allStarts_lt (trackOpen (writeLoop (feed1 s feed) blocks).1 .change) tick
      simp at h1 h2; exact ⟨h1, h2⟩
    | unparsable =>
      simp [handleMsg, handleData, finish_none, expectedStart, hr]
      have h2 := allStarts_lt (feedAll (feed1 s feed) blocks) tick
      simpa using h2
    | parseError =>
      simp [handleMsg, handleData, finish_some, expectedStart]
  | keepalive reply w el =>
    rw [handleMsg_keepalive]
    cases reply with
    | false =>
      simp [finish_none, expectedStart, hr]
      have h2 := allStarts_lt (feed1 s feed) tick
      simpa using h2
    | true =>
      have h1 := allStarts_hp (feed1 s feed) true
      simp at h1
      rcases heartbeat_cases (handleProgress (feed1 s feed) true).1 el with h | ⟨c, d, h⟩
      · simp [h, finish_some, expectedStart, h1]
      · simp [h, finish_none, expectedStart, hr, h1]
        have h2 := allStarts_lt (hbSet (handleProgress (feed1 s feed) true).1 c d) tick
        simpa using h2
  | timeout =>
    simp [handleMsg, finish_none, expectedStart, hr]
    have h1 := allStarts_hp (feed1 s feed) true
    have h2 := allStarts_lt (handleProgress (feed1 s feed) true).1 tick
    simp at h1 h2; exact ⟨h1, h2⟩
  | errorResponse pos =>
    simp [handleMsg, recover, finish_none, expectedStart, hr]
    have h2 := allStarts_lt (recoverState (feed1 s feed) pos) tick
    simpa using h2
  | closedErr =>
    simp [handleMsg, finish_none, expectedStart, hr]
    have h2 := allStarts_lt (connClosed (feed1 s feed)) tick
    simpa using h2
  | nil | skip =>
    simp [handleMsg, finish_none, expectedStart, hr]
    have h2 := allStarts_lt (feed1 s feed) tick
    simpa using h2
  | kabad | fatalErr | unexpected | copyEmpty =>
    simp [handleMsg, finish_some, expectedStart]

/-! ## status segments: what the statuses of a piece of execution look like -/

structure Seg (s s' : State) (as : List Action) (bl : List (List Nat)) : Prop where
  pd : pend s' = rmax (pend s) bl.flatten
  ov : s.overall ≤ s'.overall
  sts : ∀ l ∈ statusesOf as, ∃ j, j ≤ bl.length ∧ l = rmax (pend s) (bl.take j).flatten
  sorted : (statusesOf as).Pairwise (· ≤ ·)
  bound : ∀ l ∈ statusesOf as, s.overall ≤ l ∧ l ≤ s'.overall

theorem Quiet.toSeg {s s' : State} {as : List Action} {bl : List (List Nat)} (h : Quiet s s' as bl) :
    Seg s s' as bl := ⟨h.pd, h.ov, h.sts, h.sorted, h.bound⟩

/-- a piece that neither touches `overall`/`chan` nor sends a status -/
theorem Seg.special {s s' : State} {as : List Action} (ho : s'.overall = s.overall)
    (hc : s'.chan = s.chan) (hs : statusesOf as = []) : Seg s s' as [] := by
  refine ⟨?_, by omega, by simp [hs], by simp [hs], by simp [hs]⟩
  simp [pend, ho, hc, rmax_nil]

theorem Seg.trans {s s1 s2 : State} {as bs : List Action} {b1 b2 : List (List Nat)}
    (h1 : Seg s s1 as b1) (h2 : Seg s1 s2 bs b2) : Seg s s2 (as ++ bs) (b1 ++ b2) where
  pd := by rw [h2.pd, h1.pd, List.flatten_append, rmax_append]
  ov := Nat.le_trans h1.ov h2.ov
  sts := by
    intro l hl
    rw [statusesOf_append] at hl
    rcases List.mem_append.mp hl with hl | hl
    · obtain ⟨j, hj, h⟩ := h1.sts l hl
      refine ⟨j, by simp only [List.length_append]; omega, ?_⟩
      rw [h, List.take_append_of_le_length hj]
    · obtain ⟨j, hj, h⟩ := h2.sts l hl
      refine ⟨b1.length + j, by simp only [List.length_append]; omega, ?_⟩
      rw [h, h1.pd, ← rmax_append, ← List.flatten_append, List.take_length_add_append]
  sorted := by
    rw [statusesOf_append, List.pairwise_append]
    refine ⟨h1.sorted, h2.sorted, ?_⟩
    intro a ha b hb
    have := (h1.bound a ha).2; have := (h2.bound b hb).1; omega
  bound := by
    intro l hl
    rw [statusesOf_append] at hl
    rcases List.mem_append.mp hl with hl | hl
    · have := h1.bound l hl; have := h2.ov; omega
    · have := h2.bound l hl; have := h1.ov; omega

theorem Seg.cast {s s' : State} {as as' : List Action} {bl bl' : List (List Nat)}
    (h : Seg s s' as bl) (ha : as = as') (hb : bl = bl') : Seg s s' as' bl' := by
  subst ha; subst hb; exact h

@[simp] theorem statusesOf_fwd (o : Op) (t : String) (k : Key) (l : Nat) (r : List Action) :
    statusesOf (.fwd o t k l :: r) = statusesOf r := rfl
@[simp] theorem statusesOf_close (r : List Action) : statusesOf (.close :: r) = statusesOf r := rfl
@[simp] theorem statusesOf_exit (x : String) (r : List Action) : statusesOf (.exit x :: r) = statusesOf r := rfl
@[simp] theorem statusesOf_identify (r : List Action) : statusesOf (.identify :: r) = statusesOf r := rfl
@[simp] theorem statusesOf_getplain (b : Bool) (r : List Action) : statusesOf (.getplain b :: r) = statusesOf r := rfl
@[simp] theorem statusesOf_recoveryFwd (v : Variant) (s : State) : statusesOf (recoveryFwd v s) = [] := by
  cases v <;> simp [recoveryFwd] <;> split <;> simp

def blocksOfMsg : Msg → List (List Nat)
  | .data _ _ _ blocks => blocks
  | _ => []

theorem quiet_feedAll (s : State) (bl : List (List Nat)) : Seg s (feedAll s bl) [] bl := by
  refine ⟨?_, Nat.le_refl _, by simp, by simp, by simp⟩
  simp [pend, rmax_append]

theorem handleMsg_seg (v : Variant) (s : State) (m : Msg) :
    Seg s (handleMsg v s m).1.1 (handleMsg v s m).1.2 (blocksOfMsg m) := by
  cases m with
  | data lsn p nanos blocks =>
    cases p with
    | begin x =>
      simp only [handleMsg, handleData, blocksOfMsg]
      split
      · refine ⟨?_, by simp, by simp, by simp, by simp⟩
        simp [pend, rmax_append]
      · rw [forward_eq]
        have h0 : Seg s (acceptState s x nanos) [] [] := Seg.special rfl rfl rfl
        have h1 := (quiet_writeLoop (acceptState s x nanos) blocks).toSeg
        have h2 : Seg (writeLoop (acceptState s x nanos) blocks).1
            (trackOpen (writeLoop (acceptState s x nanos) blocks).1 .begin)
            [.fwd .begin (writeLoop (acceptState s x nanos) blocks).1.txn
              (writeLoop (acceptState s x nanos) blocks).1.key lsn] [] := Seg.special (by simp) (by simp) rfl
        exact ((h0.trans h1).trans h2).cast (by simp) (by simp)
    | commit x =>
      simp only [handleMsg, handleData, blocksOfMsg]
      rw [forward_eq]
      have h0 : Seg s (commitState s lsn) [] [] := Seg.special rfl rfl rfl
      have h1 := (quiet_writeLoop (commitState s lsn) blocks).toSeg
      have h2 : Seg (writeLoop (commitState s lsn) blocks).1
          (trackOpen (writeLoop (commitState s lsn) blocks).1 .commit)
          [.fwd .commit (writeLoop (commitState s lsn) blocks).1.txn
            (writeLoop (commitState s lsn) blocks).1.key lsn] [] := Seg.special (by simp) (by simp) rfl
      exact ((h0.trans h1).trans h2).cast (by simp) (by simp)
    | change =>
      simp only [handleMsg, handleData, blocksOfMsg]
      rw [forward_eq]
      have h1 := (quiet_writeLoop s blocks).toSeg
      have h2 : Seg (writeLoop s blocks).1 (trackOpen (writeLoop s blocks).1 .change)
          [.fwd .change (writeLoop s blocks).1.txn (writeLoop s blocks).1.key lsn] [] :=
        Seg.special (by simp) (by simp) rfl
      exact (h1.trans h2).cast (by simp) (by simp)
    | unparsable => exact quiet_feedAll s blocks
    | parseError => exact quiet_feedAll s blocks
  | keepalive reply w el =>
    rw [handleMsg_keepalive]
    cases reply with
    | false => exact Seg.special rfl rfl rfl
    | true =>
      have h1 := (quiet_handleProgress s true).toSeg
      rcases heartbeat_cases (handleProgress s true).1 el with h | ⟨c, d, h⟩
      · simp only [Bool.not_true, Bool.false_eq_true, ↓reduceIte, h, blocksOfMsg]; exact h1
      · simp only [Bool.not_true, Bool.false_eq_true, ↓reduceIte, h, blocksOfMsg]
        have h2 : Seg (handleProgress s true).1 (hbSet (handleProgress s true).1 c d) [] [] :=
          Seg.special rfl rfl rfl
        exact (h1.trans h2).cast (by simp) (by simp)
  | timeout => exact (quiet_handleProgress s true).toSeg
  | errorResponse pos =>
    simp only [handleMsg, recover, blocksOfMsg]
    exact Seg.special rfl rfl (by simp [statusesOf_append])
  | closedErr => exact Seg.special rfl rfl rfl
  | nil | skip | kabad | fatalErr | unexpected | copyEmpty => exact Seg.special rfl rfl rfl

theorem blocksOf_eq (e : Ev) : blocksOf e = blocksOfMsg e.msg := by
  cases e with | mk f m t => cases m <;> rfl

/-- C03 statuses, one step from a running state: the statuses of the step are sorted, lie between
the old and the new `overallProgress`, each is the running maximum after some prefix of the feeds,
and unless `Start` returned, everything fed has been drained. -/
theorem step_seg (v : Variant) (s : State) (e : Ev) (hr : s.phase = .running) :
    Seg (feed1 s e.feed) (step v s e).1 (step v s e).2 (blocksOf e) ∧
      ((step v s e).1.phase = .exited ∨ (step v s e).1.chan = []) := by
  rw [step_running v s e hr, blocksOf_eq]
  have h1 := handleMsg_seg v (feed1 s e.feed) e.msg
  generalize handleMsg v (feed1 s e.feed) e.msg = h at h1
  obtain ⟨⟨sH, aH⟩, r⟩ := h
  cases r with
  | none =>
    rw [finish_none]
    refine ⟨(h1.trans (quiet_loopTop sH e.tick).toSeg).cast (by simp) (by simp), Or.inr ?_⟩
    simp
  | some r =>
    rw [finish_some]
    have h2 : Seg sH (exitState sH) [.exit r, .close] [] := Seg.special rfl rfl rfl
    exact ⟨(h1.trans h2).cast (by simp) (by simp), Or.inl rfl⟩

/-- the first receive: either `Start` returns without any status / (re)start, or the position
`w` announced by the keepalive becomes `overallProgress` and the loop is entered -/
theorem step_first_cases (v : Variant) (s : State) (e : Ev) (hf : s.phase = .first) :
    ((step v s e).1.phase = .exited ∧ statusesOf (step v s e).2 = [] ∧ startsOf (step v s e).2 = [] ∧
        fwdsOf (step v s e).2 = [] ∧ hasExit (step v s e).2 = true) ∨
      (∃ w, initOf e = some w ∧
        step v s e = ((loopTop (firstState (feed1 s e.feed) w) e.tick).1,
          (loopTop (firstState (feed1 s e.feed) w) e.tick).2)) := by
  rw [step_first v s e hf]
  obtain ⟨feed, msg, tick⟩ := e
  cases msg with
  | keepalive r w el => exact Or.inr ⟨w, rfl, by simp [handleFirst, finish_none]⟩
  | kabad => exact Or.inr ⟨0, rfl, by simp [handleFirst, finish_none]⟩
  | _ => left; simp [handleFirst, finish_some, statusesOf, startsOf, fwdsOf, hasExit]

theorem acts_cons (e : Ev) (as : List Action) (r : Hist) : acts ((e, as) :: r) = as ++ acts r := by
  simp [acts]

theorem histFrom_cons (v : Variant) (s : State) (e : Ev) (r : List Ev) :
    histFrom v s (e :: r) = (e, (step v s e).2) :: histFrom v (step v s e).1 r := rfl

/-- once `Start` has returned nothing happens any more -/
theorem acts_exited (v : Variant) (s : State) (evs : List Ev) (hx : s.phase = .exited) :
    acts (histFrom v s evs) = [] := by
  induction evs with
  | nil => rfl
  | cons e r ih => rw [histFrom_cons, acts_cons, step_exited v s e hx]; simpa using ih

/-- phase after a step from a running state -/
theorem step_phase (v : Variant) (s : State) (e : Ev) (hr : s.phase = .running) :
    (step v s e).1.phase = .exited ∨ (step v s e).1.phase = .running := by
  rcases (step_starts v s e hr).2 with h | h
  · exact Or.inl h
  · exact Or.inr h.1

end PgBifrost.ClientProofs
