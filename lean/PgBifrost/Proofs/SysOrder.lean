import PgBifrost.Proofs.SysFlow
/-!
# Order invariants of the composed system (ledger contract clause E3)

`sentKey s k`: a report for delivery key `k` exists somewhere behind the batcher (already consumed
by the tracker, in the written channel, or in the `txns` of a held / queued batch). Because the
seen hand-over is a rendezvous that `sendBatch` performs BEFORE it dispatches or self-reports, and
deliveries are contiguous in the input, a sent key is in exactly one of these situations:
its seen was handed over; its seen is the FIRST pending one; nothing is pending and it is the open
delivery; or it was interrupted. From this the order clause of the contract follows.
-/
namespace PgBifrost.Sys
open PgBifrost.Batch PgBifrost.Batcher
open PgBifrost.LedgerSimple (seenAt mentAt)

/-! ## positions in an extended trace -/

theorem getElem?_append_cases {α : Type} (a b : List α) (i : Nat) (x : α) :
    (a ++ b)[i]? = some x ↔ (i < a.length ∧ a[i]? = some x) ∨ (a.length ≤ i ∧ b[i - a.length]? = some x) := by
  by_cases h : i < a.length
  · rw [List.getElem?_append_left h]
    constructor
    · intro hx; exact Or.inl ⟨h, hx⟩
    · rintro (⟨_, hx⟩ | ⟨h2, _⟩)
      · exact hx
      · omega
  · rw [List.getElem?_append_right (Nat.le_of_not_lt h)]
    constructor
    · intro hx; exact Or.inr ⟨Nat.le_of_not_lt h, hx⟩
    · rintro (⟨h2, _⟩ | ⟨_, hx⟩)
      · omega
      · exact hx

theorem lt_of_getElem? {α : Type} {l : List α} {i : Nat} {x : α} (h : l[i]? = some x) : i < l.length := by
  rcases Nat.lt_or_ge i l.length with h' | h'
  · exact h'
  · rw [List.getElem?_eq_none h'] at h; cases h

theorem seenAt_lt {tr : List Ledger.Op} {i k : Nat} (h : seenAt tr i k) : i < tr.length := by
  obtain ⟨_, _, _, _, h⟩ := h; exact lt_of_getElem? h

theorem mentAt_lt {tr : List Ledger.Op} {i k : Nat} (h : mentAt tr i k) : i < tr.length := by
  obtain ⟨_, h, _⟩ := h; exact lt_of_getElem? h

theorem seenAt_append {a b : List Ledger.Op} {i k : Nat} :
    seenAt (a ++ b) i k ↔ (i < a.length ∧ seenAt a i k) ∨ (a.length ≤ i ∧ seenAt b (i - a.length) k) := by
  unfold seenAt
  constructor
  · rintro ⟨t, tot, c, r, h⟩
    rcases (getElem?_append_cases a b i _).mp h with ⟨h1, h2⟩ | ⟨h1, h2⟩
    · exact Or.inl ⟨h1, t, tot, c, r, h2⟩
    · exact Or.inr ⟨h1, t, tot, c, r, h2⟩
  · rintro (⟨h1, t, tot, c, r, h2⟩ | ⟨h1, t, tot, c, r, h2⟩)
    · exact ⟨t, tot, c, r, (getElem?_append_cases a b i _).mpr (Or.inl ⟨h1, h2⟩)⟩
    · exact ⟨t, tot, c, r, (getElem?_append_cases a b i _).mpr (Or.inr ⟨h1, h2⟩)⟩

theorem mentAt_append {a b : List Ledger.Op} {i k : Nat} :
    mentAt (a ++ b) i k ↔ (i < a.length ∧ mentAt a i k) ∨ (a.length ≤ i ∧ mentAt b (i - a.length) k) := by
  unfold mentAt
  constructor
  · rintro ⟨op, h, hk⟩
    rcases (getElem?_append_cases a b i _).mp h with ⟨h1, h2⟩ | ⟨h1, h2⟩
    · exact Or.inl ⟨h1, op, h2, hk⟩
    · exact Or.inr ⟨h1, op, h2, hk⟩
  · rintro (⟨h1, op, h2, hk⟩ | ⟨h1, op, h2, hk⟩)
    · exact ⟨op, (getElem?_append_cases a b i _).mpr (Or.inl ⟨h1, h2⟩), hk⟩
    · exact ⟨op, (getElem?_append_cases a b i _).mpr (Or.inr ⟨h1, h2⟩), hk⟩

theorem seenAt_seenMap {H : List SeenE} {i k : Nat} :
    seenAt (H.map seenOp) i k ↔ ∃ e, H[i]? = some e ∧ e.key = k := by
  unfold seenAt
  rw [List.getElem?_map]
  constructor
  · rintro ⟨t, tot, c, r, h⟩
    cases he : H[i]? with
    | none => rw [he] at h; simp at h
    | some e =>
      rw [he] at h
      simp only [Option.map_some, seenOp, Option.some.injEq, Ledger.Op.seen.injEq] at h
      exact ⟨e, rfl, h.2.1⟩
  · rintro ⟨e, he, hk⟩
    exact ⟨e.txn, e.total, e.commit, true, by rw [he, ← hk]; rfl⟩

theorem mentAt_seenMap {H : List SeenE} {i k : Nat} :
    mentAt (H.map seenOp) i k ↔ ∃ e, H[i]? = some e ∧ e.key = k := by
  unfold mentAt
  rw [List.getElem?_map]
  constructor
  · rintro ⟨op, h, hk⟩
    cases he : H[i]? with
    | none => rw [he] at h; simp at h
    | some e =>
      rw [he] at h
      simp only [Option.map_some, Option.some.injEq] at h
      subst h
      exact ⟨e, rfl, by simpa [seenOp, Ledger.Op.key?] using hk⟩
  · rintro ⟨e, he, hk⟩
    exact ⟨seenOp e, by rw [he]; rfl, by rw [← hk]; rfl⟩

theorem not_seenAt_writtenMap {t : List TxnCount} {i k : Nat} : ¬ seenAt (t.map writtenOp) i k := by
  rintro ⟨t', tot, c, r, h⟩
  rw [List.getElem?_map] at h
  cases he : t[i]? with
  | none => rw [he] at h; simp at h
  | some e => rw [he] at h; simp [writtenOp] at h

theorem mentAt_writtenMap {t : List TxnCount} {i k : Nat} (h : mentAt (t.map writtenOp) i k) :
    ∃ x ∈ t, x.key = k := by
  obtain ⟨op, h, hk⟩ := h
  rw [List.getElem?_map] at h
  cases he : t[i]? with
  | none => rw [he] at h; simp at h
  | some e =>
    rw [he] at h
    simp only [Option.map_some, Option.some.injEq] at h
    subst h
    exact ⟨e, List.mem_of_getElem? he, by simpa [writtenOp, Ledger.Op.key?] using hk⟩

theorem not_seenAt_emit {i k : Nat} : ¬ seenAt [Ledger.Op.emit] i k := by
  rintro ⟨t, tot, c, r, h⟩
  cases i with
  | zero => simp at h
  | succ n => simp at h

theorem not_mentAt_emit {i k : Nat} : ¬ mentAt [Ledger.Op.emit] i k := by
  rintro ⟨op, h, hk⟩
  cases i with
  | zero => simp at h; subst h; simp [Ledger.Op.key?] at hk
  | succ n => simp at h

theorem nodup_getElem?_inj {α : Type} : ∀ {l : List α}, l.Nodup → ∀ {i j : Nat} {a : α},
    l[i]? = some a → l[j]? = some a → i = j := by
  intro l
  induction l with
  | nil => intro _ i j a h; simp at h
  | cons x xs ih =>
    intro hn i j a hi hj
    rw [List.nodup_cons] at hn
    cases i with
    | zero =>
      cases j with
      | zero => rfl
      | succ j' =>
        simp at hi hj; subst hi
        exact absurd (List.mem_of_getElem? hj) hn.1
    | succ i' =>
      cases j with
      | zero =>
        simp at hi hj; subst hj
        exact absurd (List.mem_of_getElem? hi) hn.1
      | succ j' =>
        simp at hi hj
        rw [ih hn.2 hi hj]

theorem keys_getElem?_inj {H : List SeenE} (hn : (H.map (·.key)).Nodup) {i j : Nat} {e1 e2 : SeenE}
    (h1 : H[i]? = some e1) (h2 : H[j]? = some e2) (hk : e1.key = e2.key) : i = j := by
  apply nodup_getElem?_inj hn (a := e1.key)
  · rw [List.getElem?_map, h1]; rfl
  · rw [List.getElem?_map, h2, hk]; rfl

/-! ## seen operations of the trace vs. handed-over seen entries -/

theorem seenAt_handed {s : SysState} (hF : Flow s) {j k : Nat} (h : seenAt s.trace j k) :
    ∃ e ∈ seenEntries s.evs, e.key = k := by
  obtain ⟨t, tot, c, r, h⟩ := h
  have hm : Ledger.Op.seen t k tot c r ∈ seenOps s.trace :=
    List.mem_filter.mpr ⟨List.mem_of_getElem? h, rfl⟩
  rw [hF.seens] at hm
  obtain ⟨e, he, heq⟩ := List.mem_map.mp hm
  simp only [seenOp, Ledger.Op.seen.injEq] at heq
  exact ⟨e, he, heq.2.1⟩

theorem handed_seenAt {s : SysState} (hF : Flow s) {e : SeenE} (h : e ∈ seenEntries s.evs) :
    ∃ j : Nat, s.trace[j]? = some (seenOp e) := by
  have hm : seenOp e ∈ seenOps s.trace := by rw [hF.seens]; exact List.mem_map.mpr ⟨e, h, rfl⟩
  exact List.getElem?_of_mem (List.mem_filter.mp hm).1

theorem handed_seenAt' {s : SysState} (hF : Flow s) {e : SeenE} (h : e ∈ seenEntries s.evs) :
    ∃ j, seenAt s.trace j e.key := by
  obtain ⟨j, hj⟩ := handed_seenAt hF h
  exact ⟨j, e.txn, e.total, e.commit, true, hj⟩

/-! ## the invariant -/

def sentKey (s : SysState) (k : Nat) : Prop :=
  (∃ t n, Ledger.Op.written t k n ∈ s.trace) ∨ (∃ t ∈ s.wchan, ∃ x ∈ t, x.key = k) ∨
  (∃ p ∈ s.held, ∃ x ∈ p.2.txns, x.key = k) ∨ (∃ p ∈ s.queue, ∃ x ∈ p.2.txns, x.key = k)

structure Ord (s : SysState) (gs : GState) : Prop where
  sent : ∀ k, sentKey s k →
    (∃ e ∈ seenEntries s.evs, e.key = k) ∨ (∃ e rest, s.bat.seenList = e :: rest ∧ e.key = k) ∨
    (s.bat.seenList = [] ∧ ∃ t, gs.cur = some (k, t)) ∨ k ∈ gs.intr
  late : ∀ i k, mentAt s.trace i k → (∀ j, ¬ seenAt s.trace j k) → k ∉ gs.intr →
    ∀ j k', seenAt s.trace j k' → j < i
  order : ∀ i j m kj k1, i < j → j < m → mentAt s.trace i kj → seenAt s.trace j k1 → seenAt s.trace m kj → False

/-- a mention that is not a seen is a written operation -/
theorem mentAt_written {tr : List Ledger.Op} {i k : Nat} (h : mentAt tr i k) (hns : ¬ seenAt tr i k) :
    ∃ t n, Ledger.Op.written t k n ∈ tr := by
  obtain ⟨op, hg, hk⟩ := h
  cases op with
  | seen t k' tot c r =>
    simp [Ledger.Op.key?] at hk; subst hk
    exact absurd ⟨t, tot, c, r, hg⟩ hns
  | written t k' n =>
    simp [Ledger.Op.key?] at hk; subst hk
    exact ⟨t, n, List.mem_of_getElem? hg⟩
  | emit => simp [Ledger.Op.key?] at hk

/-- frame rule: a step that changes neither the batcher, nor the trace, nor the set of sent keys -/
theorem ord_frame {s s' : SysState} {gs : GState} (hO : Ord s gs)
    (h1 : s'.bat = s.bat) (h2 : s'.evs = s.evs) (h3 : s'.trace = s.trace)
    (h4 : ∀ k, sentKey s' k → sentKey s k) : Ord s' gs := by
  refine ⟨fun k hk => ?_, ?_, ?_⟩
  · rw [h1, h2]; exact hO.sent k (h4 k hk)
  · rw [h3]; exact hO.late
  · rw [h3]; exact hO.order

/-- the tracker appends operations that contain no seen -/
theorem ord_append_noseen {s s' : SysState} {gs : GState} (hO : Ord s gs) (lops : List Ledger.Op)
    (h1 : s'.bat = s.bat) (h2 : s'.evs = s.evs) (h3 : s'.trace = s.trace ++ lops)
    (hns : ∀ i k, ¬ seenAt lops i k)
    (h4 : ∀ k, sentKey s' k → sentKey s k) : Ord s' gs := by
  have hseen : ∀ j k, seenAt s'.trace j k → j < s.trace.length ∧ seenAt s.trace j k := by
    intro j k h
    rw [h3] at h
    rcases seenAt_append.mp h with h | ⟨_, h⟩
    · exact h
    · exact absurd h (hns _ _)
  refine ⟨fun k hk => ?_, ?_, ?_⟩
  · rw [h1, h2]; exact hO.sent k (h4 k hk)
  · intro i k hm hun hni j k' hs
    obtain ⟨hj, hs'⟩ := hseen j k' hs
    rw [h3] at hm
    rcases mentAt_append.mp hm with ⟨hi, hm'⟩ | ⟨hi, _⟩
    · refine hO.late i k hm' (fun j' h' => hun j' ?_) hni j k' hs'
      rw [h3]; exact seenAt_append.mpr (Or.inl ⟨seenAt_lt h', h'⟩)
    · omega
  · intro i j m kj k1 hij hjm hm hs1 hs2
    obtain ⟨hm2, hs2'⟩ := hseen m kj hs2
    obtain ⟨_, hs1'⟩ := hseen j k1 hs1
    rw [h3] at hm
    rcases mentAt_append.mp hm with ⟨_, hm'⟩ | ⟨hi, _⟩
    · exact hO.order i j m kj k1 hij hjm hm' hs1' hs2'
    · omega

theorem gstep_intr_mono {r : Bool} {g g' : GState} {m : Msg} (h : gstep r g m = some g') :
    ∀ k ∈ g.intr, k ∈ g'.intr := by
  intro k hk
  rcases gstep_cases h with ⟨_, _, _, _, rfl⟩ | ⟨_, _, _, _, _, _, rfl⟩ | ⟨_, _, _, _, _, _, _, rfl⟩ |
      ⟨_, _, _, _, _, _, _, rfl⟩
  · exact hk
  · exact hk
  · exact hk
  · exact List.mem_cons_of_mem _ hk

/-- the seen entry a batcher operation adds to the pending list -/
def opEntry (s : State) : Batcher.Op → List SeenE
  | .msg m => commitEntry s m
  | .tick _ _ _ => []

/-- facts about one batcher step after `ops` -/
theorem batStep_facts {K : Kind} {big bad : Msg → Bool} {dom : Msg → Prop} (hK : KindOK K big bad dom)
    (bcfg : Batcher.Cfg) (ops : List Batcher.Op) (op : Batcher.Op)
    (hdom : ∀ m ∈ dataMsgs (ops ++ [op]), dom m) :
    seenEntries (Batcher.run K bcfg ops).2 ++ (Batcher.run K bcfg ops).1.seenList = (track (msgs ops)).seens ∧
    (track (msgs (ops ++ [op]))).seens =
      seenEntries (Batcher.run K bcfg ops).2 ++
        (seenEntries (Batcher.step K bcfg (Batcher.run K bcfg ops).1 op).2 ++
          (Batcher.step K bcfg (Batcher.run K bcfg ops).1 op).1.seenList) ∧
    seenEntries (Batcher.step K bcfg (Batcher.run K bcfg ops).1 op).2 ++
        (Batcher.step K bcfg (Batcher.run K bcfg ops).1 op).1.seenList =
      (Batcher.run K bcfg ops).1.seenList ++
        opEntry (Batcher.run K bcfg ops).1 op ∧
    (((track (msgs (ops ++ [op]))).seens.map (·.key)).Nodup →
      (∃ d ∈ (Batcher.step K bcfg (Batcher.run K bcfg ops).1 op).2, isSend d = true) →
      (Batcher.step K bcfg (Batcher.run K bcfg ops).1 op).1.seenList = []) ∧
    (∀ e ∈ (Batcher.step K bcfg (Batcher.run K bcfg ops).1 op).2, TxOK (msgs (ops ++ [op])) (txnsOf e)) := by
  have hdom0 : ∀ m ∈ dataMsgs ops, dom m := fun m hm => hdom m (by rw [dataMsgs_append]; exact List.mem_append_left _ hm)
  have hnd0 := reach_not_dead (run_reach hK.laws hK.noFatal bcfg ops hdom0)
  have hnd1 := reach_not_dead (run_reach hK.laws hK.noFatal bcfg (ops ++ [op]) hdom)
  have o0 := (run_obs K bcfg ops hnd0).2.2
  have o1 := (run_obs K bcfg (ops ++ [op]) hnd1).2.2
  have hsnoc := Batcher.run_snoc K bcfg ops op
  obtain ⟨sh1, sh2⟩ := step_shape K bcfg (Batcher.run K bcfg ops).1 op hnd0
  have htr : (track (msgs (ops ++ [op]))).seens =
      seenEntries (Batcher.run K bcfg ops).2 ++
        (seenEntries (Batcher.step K bcfg (Batcher.run K bcfg ops).1 op).2 ++
          (Batcher.step K bcfg (Batcher.run K bcfg ops).1 op).1.seenList) := by
    rw [← o1, hsnoc]
    simp only [stepAcc, seenEntries_append, List.append_assoc]
  have sh1' : seenEntries (Batcher.step K bcfg (Batcher.run K bcfg ops).1 op).2 ++
        (Batcher.step K bcfg (Batcher.run K bcfg ops).1 op).1.seenList =
      (Batcher.run K bcfg ops).1.seenList ++ opEntry (Batcher.run K bcfg ops).1 op := by
    rw [sh1]; cases op <;> rfl
  refine ⟨o0, htr, sh1', ?_, ?_⟩
  · intro hn hsend
    apply sh2 _ hsend
    rw [← sh1]
    rw [htr, List.map_append] at hn
    exact List.Pairwise.of_map (·.key) (fun a b h hab => h (by rw [hab])) (List.nodup_append.mp hn).2.1
  · intro e he
    have := run_txOK hK bcfg (ops ++ [op]) hdom e
    rw [hsnoc] at this
    exact this (List.mem_append_right _ he)

end PgBifrost.Sys
