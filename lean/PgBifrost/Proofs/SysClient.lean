import PgBifrost.Proofs.ClientC03
import PgBifrost.Proofs.SysEnv
/-! Composition of the replication client (C03) with the batcher ▸ workers ▸ tracker system (`Model/Sys`):
what the client reports to PostgreSQL as flush position. The client model's only link to the rest of the
pipeline is its progress channel (wiring fact `runner_wiring_as_modelled`: `Start(r.progressTracker.OutputChan)`),
so the composition is stated on the values fed to it. -/
namespace PgBifrost.SysClient
open PgBifrost.Client PgBifrost.Spec.Client PgBifrost.ClientProofs

/-- every progress value the events feed to the client (top of the loop and while blocked on output) -/
def allFed (h : Hist) : List Nat := h.flatMap fun p => fedOf p.1

theorem sourcedAux_mem (init : Nat) : ∀ (h : Hist) (fed : List Nat), sourcedAux init fed h = true →
    ∀ a ∈ statusesOf (acts h), a = init ∨ a ∈ fed ++ allFed h := by
  intro h
  induction h with
  | nil => intro fed _ a ha; simp [acts, statusesOf] at ha
  | cons p r ih =>
    intro fed hs a ha
    obtain ⟨e, as⟩ := p
    simp only [sourcedAux, Bool.and_eq_true, List.all_eq_true] at hs
    obtain ⟨h1, h2⟩ := hs
    rw [acts_cons] at ha
    have hsplit : statusesOf (as ++ acts r) = statusesOf as ++ statusesOf (acts r) := by
      simp [statusesOf, List.filterMap_append]
    rw [hsplit, List.mem_append] at ha
    simp only [allFed, List.flatMap_cons]
    rcases ha with ha | ha
    · have := h1 a ha
      simp only [Bool.or_eq_true, beq_iff_eq, List.contains_eq_mem, List.mem_append,
        decide_eq_true_eq] at this
      rcases this with h | h | h
      · exact Or.inl h
      · exact Or.inr (by simp [h])
      · exact Or.inr (by simp [h])
    · rcases ih (fed ++ fedOf e) h2 a ha with h | h
      · exact Or.inl h
      · refine Or.inr ?_
        simp only [allFed, List.mem_append] at h ⊢
        rcases h with (h | h) | h
        · exact Or.inl h
        · exact Or.inr (Or.inl h)
        · exact Or.inr (Or.inr h)

/-- C03, membership form: every status the client sends is the position announced by the session's first
keepalive or one of the values that were put on its progress channel -/
theorem status_sourced (v : Variant) (e : Ev) (evs : List Ev) (i : Nat) (hi : initOf e = some i) :
    ∀ a ∈ statusesOf (acts (hist v (e :: evs))), a = i ∨ a ∈ allFed (hist v (e :: evs)) := by
  have h := sourced_of_runMax _ (runMax_hist v (e :: evs))
  unfold hist at h ⊢
  rw [histFrom_cons] at h ⊢
  simp only [c03Sourced, hi] at h
  intro a ha
  simpa using sourcedAux_mem i _ [] h a ha

end PgBifrost.SysClient
