import PgBifrost.Proofs.BatcherReach
/-!
# Partition-faithful bookkeeping and per-batch invariants, over `Reach`
-/
namespace PgBifrost.Batcher
open PgBifrost.Batch

/-- records of the dispatched batches of key `k`, in dispatch order -/
def D (evs : List Ev) (k : PKey) : List Msg :=
  ((dispatched evs).filter (fun b => b.pkey = k)).flatMap (·.payload)

/-- records of the open batch of key `k` -/
def openPayload (s : State) (k : PKey) : List Msg :=
  match getOpen s k with
  | some b => b.payload
  | none => []

/-- open batches are stored under their own key -/
def WF (s : State) : Prop := ∀ (k : PKey) (b : Batch), getOpen s k = some b → b.pkey = k

/-- is `m` a record of key `k` that the kind accepts (neither over-size nor invalid)? -/
def goodFor (big bad : Msg → Bool) (k : PKey) (m : Msg) : Bool := decide (m.pkey = k) && !big m && !bad m

theorem D_append (a b : List Ev) (k : PKey) : D (a ++ b) k = D a k ++ D b k := by
  simp [D, dispatched_append, List.filter_append, List.flatMap_append]

theorem D_nil (k : PKey) : D [] k = [] := rfl

theorem D_stat (n : String) (k : PKey) : D [.stat n] k = [] := rfl

theorem D_sendBatch (cfg : Cfg) (s : State) (b : Batch) (k : PKey) :
    D (sendBatch cfg s b).2 k = if b.pkey = k then b.payload else [] := by
  unfold D
  rw [dispatched_sendBatch]
  by_cases he : b.isEmpty = true
  · have : b.payload = [] := by simpa [Batch.isEmpty] using he
    simp [he, this]
  · by_cases hk : b.pkey = k <;> simp [he, hk]

theorem openPayload_congr {s s' : State} {k : PKey} (h : getOpen s' k = getOpen s k) :
    openPayload s' k = openPayload s k := by
  unfold openPayload; rw [h]

theorem getOpen_withTotal (s : State) (n : Nat) (k : PKey) : getOpen { s with total := n } k = getOpen s k := rfl

theorem AddOut.noDispatch {K : Kind} {b : Batch} {m : Msg} {b' : Batch} {st : List Ev}
    (h : AddOut K b m b' st) : dispatched st = [] ∧ selfReported st = [] ∧ seenEntries st = [] := by
  rcases h with ⟨_, h⟩ | ⟨_, h⟩ | ⟨_, h⟩ <;> subst h <;> exact ⟨rfl, rfl, rfl⟩

/-- **Master invariant.** Open batches live under their own key, and for every partition key the
dispatched records followed by the open records are the accepted data messages added so far. -/
theorem reach_faithful {K : Kind} {big bad : Msg → Bool} {dom : Msg → Prop} (hL : Laws K big bad dom) {cfg : Cfg} {g : List Msg}
    {acc : State × List Ev} (h : Reach K cfg g acc) :
    WF acc.1 ∧ ∀ k, D acc.2 k ++ openPayload acc.1 k = g.filter (goodFor big bad k) := by
  induction h with
  | init =>
    refine ⟨fun k b hb => by simp [getOpen] at hb, fun k => rfl⟩
  | @create g s evs pk _ hnone ih =>
    obtain ⟨hw, hs⟩ := ih
    simp only at hw hs ⊢
    refine ⟨fun k b hb => ?_, fun k => ?_⟩
    · rw [getOpen_setOpen] at hb
      by_cases hk : k = pk
      · simp [hk] at hb; subst hb; simp [hk, fresh]
      · simp [hk] at hb; exact hw k b hb
    · rw [← hs k]; congr 1
      unfold openPayload
      rw [getOpen_setOpen]
      by_cases hk : k = pk
      · subst hk; simp [hnone, fresh]
      · simp [hk]
  | @noteCommit g s evs m _ ih =>
    obtain ⟨hw, hs⟩ := ih
    simp only at hw hs ⊢
    refine ⟨fun k b hb => hw k b (by rwa [getOpen_noteCommit] at hb), fun k => ?_⟩
    rw [← hs k, openPayload_congr (getOpen_noteCommit s m k)]
  | @noteKey g s evs m _ ih =>
    obtain ⟨hw, hs⟩ := ih
    simp only at hw hs ⊢
    refine ⟨fun k b hb => hw k b (by rwa [getOpen_noteKey] at hb), fun k => ?_⟩
    rw [← hs k, openPayload_congr (getOpen_noteKey s m k)]
  | @sendReplace g s evs pk b _ ho ih =>
    obtain ⟨hw, hs⟩ := ih
    simp only at hw hs ⊢
    have hbk := hw pk b ho
    refine ⟨fun k b' hb => ?_, fun k => ?_⟩
    · rw [getOpen_setOpen, sendBatch_getOpen] at hb
      by_cases hk : k = pk
      · simp [hk] at hb; subst hb; simp [hk, fresh]
      · simp [hk] at hb; exact hw k b' hb
    · rw [← hs k, D_append, D_sendBatch, List.append_assoc]; congr 1
      unfold openPayload
      rw [getOpen_setOpen, sendBatch_getOpen]
      by_cases hk : k = pk
      · subst hk; simp [ho, hbk, fresh]
      · have : ¬ b.pkey = k := by rw [hbk]; exact fun h => hk h.symm
        simp [hk, this]
  | @sendDel g s evs pk b _ ho ih =>
    obtain ⟨hw, hs⟩ := ih
    simp only at hw hs ⊢
    have hbk := hw pk b ho
    refine ⟨fun k b' hb => ?_, fun k => ?_⟩
    · rw [getOpen_delOpen, sendBatch_getOpen] at hb
      by_cases hk : k = pk
      · simp [hk] at hb
      · simp [hk] at hb; exact hw k b' hb
    · rw [← hs k, D_append, D_append, D_stat, D_sendBatch, List.append_nil, List.append_assoc]; congr 1
      unfold openPayload
      rw [getOpen_delOpen, sendBatch_getOpen]
      by_cases hk : k = pk
      · subst hk; simp [ho, hbk]
      · have : ¬ b.pkey = k := by rw [hbk]; exact fun h => hk h.symm
        simp [hk, this]
  | @add g s evs m b b' st _ hd ho hout ih =>
    obtain ⟨hw, hs⟩ := ih
    simp only at hw hs ⊢
    have hbk := hw m.pkey b ho
    have hDst : ∀ k, D st k = [] := by
      intro k; unfold D; rw [hout.noDispatch.1]; rfl
    -- what the answer says about payload, key and goodness
    have hfacts : b'.pkey = b.pkey ∧
        b'.payload = b.payload ++ (if (!big m && !bad m) = true then [m] else []) := by
      rcases hout with ⟨ha, _⟩ | ⟨ha, _⟩ | ⟨ha, _⟩
      · obtain ⟨h1, h2, _⟩ := hL.ok_payload _ _ _ ha
        obtain ⟨h3, h4⟩ := hL.ok_good _ _ _ ha
        simp [h1, h2, h3, h4]
      · obtain ⟨h1, h2, h3, _⟩ := hL.tooBig_big _ _ _ ha
        simp [h1, h2, h3]
      · obtain ⟨h1, h2, h3⟩ := hL.invalid_bad _ _ _ ha
        simp [h1, h2, h3]
    obtain ⟨hpk', hpl'⟩ := hfacts
    refine ⟨fun k b'' hb => ?_, fun k => ?_⟩
    · rw [getOpen_withTotal, getOpen_setOpen] at hb
      by_cases hk : k = m.pkey
      · simp [hk] at hb; subst hb; rw [hk, hpk', hbk]
      · simp [hk] at hb; exact hw k b'' hb
    · rw [List.filter_append, ← hs k, D_append, hDst, List.append_nil, List.append_assoc]; congr 1
      unfold openPayload
      rw [getOpen_withTotal, getOpen_setOpen]
      by_cases hk : k = m.pkey
      · subst hk
        simp only [if_true, ho, hpl']
        by_cases hg : (!big m && !bad m) = true
        · simp [goodFor, hg]
        · simp [goodFor, hg]
      · have : ¬ m.pkey = k := fun h => hk h.symm
        simp [hk, goodFor, this]

/-! ## a generic per-batch invariant

Any predicate `Q` on batches that holds for fresh batches and is preserved by the non-retry answers
of `Add` for a data message of the batch's key holds for every open batch and every batch that
was sent (dispatched, or self-reported when empty). -/

/-- what an event says about the batch that was sent -/
def EvQ (Q : Batch → Prop) : Ev → Prop
  | .dispatch _ b => Q b ∧ b.isEmpty = false
  | .selfReport t => ∃ b, Q b ∧ b.isEmpty = true ∧ b.txns = t
  | _ => True

theorem evQ_sendBatch {Q : Batch → Prop} (cfg : Cfg) (s : State) {b : Batch} (hb : Q b) :
    ∀ e ∈ (sendBatch cfg s b).2, EvQ Q e := by
  intro e he
  rw [sendBatch_eq] at he
  simp only [List.mem_append] at he
  rcases he with he | he
  · unfold flushSeen at he
    split at he
    · simp at he
    · simp at he; subst he; trivial
  · unfold route at he
    by_cases hemp : b.isEmpty = true
    · simp [hemp] at he; subst he; exact ⟨b, hb, hemp, rfl⟩
    · simp only [hemp, if_false, Bool.false_eq_true] at he
      have hemp' : b.isEmpty = false := Bool.eq_false_iff.mpr hemp
      cases hr : cfg.routing <;> rw [hr] at he <;> simp at he <;> subst he <;> exact ⟨hb, hemp'⟩

theorem reach_batches {K : Kind} {cfg : Cfg} (Q : Batch → Prop) (hfresh : ∀ pk, Q (fresh pk))
    (hadd : ∀ (b : Batch) (m : Msg) (b' : Batch) (st : List Ev), Q b → m.pkey = b.pkey → m.op = .data →
      AddOut K b m b' st → Q b' ∧ b'.pkey = b.pkey)
    {g : List Msg} {acc : State × List Ev} (h : Reach K cfg g acc) :
    (∀ (k : PKey) (b : Batch), getOpen acc.1 k = some b → Q b ∧ b.pkey = k) ∧ ∀ e ∈ acc.2, EvQ Q e := by
  induction h with
  | init => exact ⟨fun k b hb => by simp [getOpen] at hb, fun e he => by simp at he⟩
  | @create g s evs pk _ hnone ih =>
    obtain ⟨ho, he⟩ := ih
    refine ⟨fun k b hb => ?_, he⟩
    simp only at hb ho
    rw [getOpen_setOpen] at hb
    by_cases hk : k = pk
    · simp [hk] at hb; subst hb; exact ⟨hfresh pk, by simp [hk, fresh]⟩
    · simp [hk] at hb; exact ho k b hb
  | @noteCommit g s evs m _ ih =>
    obtain ⟨ho, he⟩ := ih
    exact ⟨fun k b hb => ho k b (by simpa [getOpen_noteCommit] using hb), he⟩
  | @noteKey g s evs m _ ih =>
    obtain ⟨ho, he⟩ := ih
    exact ⟨fun k b hb => ho k b (by simpa [getOpen_noteKey] using hb), he⟩
  | @sendReplace g s evs pk b _ hob ih =>
    obtain ⟨ho, he⟩ := ih
    simp only at ho he ⊢
    refine ⟨fun k b' hb => ?_, fun e hm => ?_⟩
    · rw [getOpen_setOpen, sendBatch_getOpen] at hb
      by_cases hk : k = pk
      · simp [hk] at hb; subst hb; exact ⟨hfresh pk, by simp [hk, fresh]⟩
      · simp [hk] at hb; exact ho k b' hb
    · rcases List.mem_append.mp hm with hm | hm
      · exact he e hm
      · exact evQ_sendBatch cfg s (ho pk b hob).1 e hm
  | @sendDel g s evs pk b _ hob ih =>
    obtain ⟨ho, he⟩ := ih
    simp only at ho he ⊢
    refine ⟨fun k b' hb => ?_, fun e hm => ?_⟩
    · rw [getOpen_delOpen, sendBatch_getOpen] at hb
      by_cases hk : k = pk
      · simp [hk] at hb
      · simp [hk] at hb; exact ho k b' hb
    · rcases List.mem_append.mp hm with hm | hm
      · rcases List.mem_append.mp hm with hm | hm
        · exact he e hm
        · exact evQ_sendBatch cfg s (ho pk b hob).1 e hm
      · simp at hm; subst hm; trivial
  | @add g s evs m b b' st _ hd hob hout ih =>
    obtain ⟨ho, he⟩ := ih
    simp only at ho he ⊢
    obtain ⟨hQb, hbk⟩ := ho m.pkey b hob
    obtain ⟨hQ', hpk'⟩ := hadd b m b' st hQb hbk.symm hd hout
    refine ⟨fun k b'' hb => ?_, fun e hm => ?_⟩
    · rw [getOpen_withTotal, getOpen_setOpen] at hb
      by_cases hk : k = m.pkey
      · simp [hk] at hb; subst hb; exact ⟨hQ', by rw [hk, hpk', hbk]⟩
      · simp [hk] at hb; exact ho k b'' hb
    · rcases List.mem_append.mp hm with hm | hm
      · exact he e hm
      · rcases hout with ⟨_, h⟩ | ⟨_, h⟩ | ⟨_, h⟩ <;> subst h <;> simp at hm <;> subst hm <;> trivial

/-! ## a generic invariant on the events (routing) -/

theorem setOpen_rr (s : State) (pk : PKey) (b : Batch) : (setOpen s pk b).rr = s.rr := by
  unfold setOpen; split <;> rfl
theorem noteCommit_rr (s : State) (m : Msg) : (noteCommit s m).rr = s.rr := by
  unfold noteCommit; split <;> rfl
theorem noteKey_rr (s : State) (m : Msg) : (noteKey s m).rr = s.rr := by
  unfold noteKey; split <;> rfl

theorem reach_events {K : Kind} {cfg : Cfg} (R : Nat → Prop) (PE : Ev → Prop) (h0 : R 0)
    (hstat : ∀ n, PE (.stat n))
    (hsend : ∀ (s : State) (b : Batch), R s.rr → R (sendBatch cfg s b).1.rr ∧ ∀ e ∈ (sendBatch cfg s b).2, PE e)
    {g : List Msg} {acc : State × List Ev} (h : Reach K cfg g acc) :
    R acc.1.rr ∧ ∀ e ∈ acc.2, PE e := by
  induction h with
  | init => exact ⟨h0, fun e he => by simp at he⟩
  | @create g s evs pk _ hnone ih => exact ⟨by simpa [setOpen_rr] using ih.1, ih.2⟩
  | @noteCommit g s evs m _ ih => exact ⟨by simpa [noteCommit_rr] using ih.1, ih.2⟩
  | @noteKey g s evs m _ ih => exact ⟨by simpa [noteKey_rr] using ih.1, ih.2⟩
  | @sendReplace g s evs pk b _ hob ih =>
    obtain ⟨hr, he⟩ := ih
    obtain ⟨h1, h2⟩ := hsend s b hr
    refine ⟨by simpa [setOpen_rr] using h1, fun e hm => ?_⟩
    rcases List.mem_append.mp hm with hm | hm
    · exact he e hm
    · exact h2 e hm
  | @sendDel g s evs pk b _ hob ih =>
    obtain ⟨hr, he⟩ := ih
    obtain ⟨h1, h2⟩ := hsend s b hr
    refine ⟨by simpa [delOpen] using h1, fun e hm => ?_⟩
    rcases List.mem_append.mp hm with hm | hm
    · rcases List.mem_append.mp hm with hm | hm
      · exact he e hm
      · exact h2 e hm
    · simp at hm; subst hm; exact hstat _
  | @add g s evs m b b' st _ hd hob hout ih =>
    obtain ⟨hr, he⟩ := ih
    refine ⟨by simpa [setOpen_rr] using hr, fun e hm => ?_⟩
    rcases List.mem_append.mp hm with hm | hm
    · exact he e hm
    · rcases hout with ⟨_, h⟩ | ⟨_, h⟩ | ⟨_, h⟩ <;> subst h <;> simp at hm <;> subst hm <;> exact hstat _

/-! ## lifting to `run` (also when the run ended in the fatal branch) -/

theorem run_events {K : Kind} {big bad : Msg → Bool} {dom : Msg → Prop} (hL : Laws K big bad dom) (cfg : Cfg) (ops : List Op)
    (hdom : ∀ m ∈ dataMsgs ops, dom m) (PE : Ev → Prop) (hfatal : PE .fatal)
    (hreach : ∀ (g : List Msg) (acc : State × List Ev), Reach K cfg g acc → ∀ e ∈ acc.2, PE e) :
    ∀ e ∈ (run K cfg ops).2, PE e := by
  rcases run_shape hL cfg ops hdom with h | ⟨_, _, pre, m, rest, _, _, ⟨acc0, hR0, _, hev, _, _⟩, _⟩
  · exact hreach _ _ h
  · intro e he
    rw [hev] at he
    rcases List.mem_append.mp he with he | he
    · exact hreach _ _ hR0 e he
    · simp at he; subst he; exact hfatal

theorem run_open {K : Kind} {big bad : Msg → Bool} {dom : Msg → Prop} (hL : Laws K big bad dom) (cfg : Cfg) (ops : List Op)
    (hdom : ∀ m ∈ dataMsgs ops, dom m) (P : PKey → Batch → Prop)
    (hreach : ∀ (g : List Msg) (acc : State × List Ev), Reach K cfg g acc →
      ∀ k b, getOpen acc.1 k = some b → P k b) :
    ∀ k b, getOpen (run K cfg ops).1 k = some b → P k b := by
  rcases run_shape hL cfg ops hdom with h | ⟨_, _, pre, m, rest, _, _, ⟨acc0, hR0, _, _, hopen, _⟩, _⟩
  · exact hreach _ _ h
  · intro k b hb
    rw [hopen] at hb
    exact hreach _ _ hR0 k b hb

/-! ## single key per batch -/

def SingleKey (b : Batch) : Prop := ∀ m ∈ b.payload, m.pkey = b.pkey

theorem singleKey_fresh (pk : PKey) : SingleKey (fresh pk) := fun m hm => by simp [fresh] at hm

theorem singleKey_add {K : Kind} {big bad : Msg → Bool} {dom : Msg → Prop} (hL : Laws K big bad dom)
    (b : Batch) (m : Msg) (b' : Batch) (st : List Ev)
    (hQ : SingleKey b) (hmk : m.pkey = b.pkey) (_hd : m.op = .data) (hout : AddOut K b m b' st) :
    SingleKey b' ∧ b'.pkey = b.pkey := by
  rcases hout with ⟨ha, _⟩ | ⟨ha, _⟩ | ⟨ha, _⟩
  · obtain ⟨h1, h2, _⟩ := hL.ok_payload _ _ _ ha
    refine ⟨fun x hx => ?_, h2⟩
    rw [h1] at hx; rw [h2]
    rcases List.mem_append.mp hx with hx | hx
    · exact hQ x hx
    · simp at hx; subst hx; exact hmk
  · obtain ⟨_, h1, h2, _⟩ := hL.tooBig_big _ _ _ ha
    exact ⟨fun x hx => by rw [h1] at hx; rw [h2]; exact hQ x hx, h2⟩
  · obtain ⟨_, _, h1⟩ := hL.invalid_bad _ _ _ ha
    subst h1; exact ⟨hQ, rfl⟩

theorem route_single (cfg : Cfg) (s : State) (b : Batch) :
    ∃ e, (route cfg s b).2 = [e] ∧ ∀ l, e ≠ .seen l := by
  unfold route
  by_cases hemp : b.isEmpty = true
  · exact ⟨.selfReport b.txns, by simp [hemp], fun l h => by cases h⟩
  · cases hr : cfg.routing
    · exact ⟨.dispatch s.rr b, by simp [hemp], fun l h => by cases h⟩
    · exact ⟨.dispatch (Crc32.quickHash b.pkey cfg.workers) b, by simp [hemp], fun l h => by cases h⟩

end PgBifrost.Batcher
