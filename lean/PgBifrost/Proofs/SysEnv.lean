import PgBifrost.Proofs.SysPerKey
/-!
# Input hypotheses of the system theorems (`Env`) and the statements in the form `Props/` uses
-/
namespace PgBifrost.Sys
open PgBifrost.Batch PgBifrost.Batcher
open PgBifrost.LedgerSimple (Contract NoStale)

/-- Input hypotheses: the batch kind satisfies the batcher's laws and never answers "full" for a
batch `IsFull` does not report (true of the generic, Kinesis and Kafka batches); every fed data
message is in the kind's domain (no record needs more than an empty batch); the fed messages follow
the replication client's output grammar (`redeliver = false`: no redelivery; `true`: interrupted
deliveries followed by a new delivery of the same transaction are allowed). -/
structure Env (redeliver : Bool) (K : Kind) (big bad : Msg → Bool) (dom : Msg → Prop) (acts : List Act) : Prop where
  kind : KindOK K big bad dom
  dom : ∀ m ∈ fedMsgs acts, m.op = .data → dom m
  grammar : ∃ g, gscan redeliver (fedMsgs acts) = some g

theorem Env.of_prefix {r : Bool} {K : Kind} {big bad : Msg → Bool} {dom : Msg → Prop} {acts crash : List Act}
    (hE : Env r K big bad dom acts) (hp : crash <+: acts) : Env r K big bad dom crash := by
  obtain ⟨t, rfl⟩ := hp
  obtain ⟨g, hg⟩ := hE.grammar
  rw [fedMsgs_append] at hg
  refine ⟨hE.kind, fun m hm => hE.dom m (by rw [fedMsgs_append]; exact List.mem_append_left _ hm), gscan_prefix hg⟩

/-- LSN of the last COMMIT of a message list (0 when there is none) -/
def lastCommitLsn (ms : List Msg) : Nat :=
  match (ms.filter (fun m => m.op == .commit)).getLast? with
  | some c => c.lsn
  | none => 0

theorem gscan_last {r : Bool} : ∀ (ms : List Msg) (g : GState), gscan r ms = some g → g.last = lastCommitLsn ms := by
  intro ms
  induction ms using snoc_induction with
  | h0 => intro g h; rw [gscan_nil] at h; cases h; rfl
  | hs ms m ih =>
    intro g h
    rw [gscan_snoc] at h
    cases h0 : gscan r ms with
    | none => rw [h0] at h; simp at h
    | some g0 =>
      rw [h0] at h
      simp only [Option.bind_some] at h
      have := ih g0 h0
      unfold lastCommitLsn at this ⊢
      rw [List.filter_append]
      rcases gstep_cases h with ⟨_, ho, _, _, rfl⟩ | ⟨_, _, _, ho, _, _, rfl⟩ | ⟨_, _, _, ho, _, _, _, rfl⟩ |
          ⟨_, _, _, _, ho, _, _, rfl⟩
      · simpa [ho] using this
      · simpa [ho] using this
      · simp [ho]
      · simpa [ho] using this

/-- all deliveries of the stream are closed (the stream does not end inside a transaction) -/
def streamComplete (redeliver : Bool) (ms : List Msg) : Prop := ∃ g, gscan redeliver ms = some g ∧ g.cur = none

section
variable {K : Kind} {big bad : Msg → Bool} {dom : Msg → Prop}

/-- **L2.** The ledger operations the tracker performed satisfy the ledger's contract (both
stages), and `NoStale` when there is no redelivery or the scheduling hypothesis holds. -/
theorem trace_contract (bcfg : Batcher.Cfg) (r : Bool) (acts : List Act) (hE : Env r K big bad dom acts) :
    Contract (ledgerTrace (run ⟨K, bcfg⟩ acts)) ∧
    (Sched r ⟨K, bcfg⟩ acts → NoStale (ledgerTrace (run ⟨K, bcfg⟩ acts))) := by
  obtain ⟨g, hg⟩ := hE.grammar
  obtain ⟨gs, _, hF⟩ := facts_run bcfg hE.kind r acts hE.dom g hg
  exact ⟨hF.contract, fun hs => noStale_run bcfg hE.kind r acts hE.dom g hg hs⟩

theorem never_dead (bcfg : Batcher.Cfg) (r : Bool) (acts : List Act) (hE : Env r K big bad dom acts)
    (hs : Sched r ⟨K, bcfg⟩ acts) : (run ⟨K, bcfg⟩ acts).dead = false := by
  obtain ⟨g, hg⟩ := hE.grammar
  obtain ⟨gs, _, hF⟩ := facts_run bcfg hE.kind r acts hE.dom g hg
  exact hF.not_dead (noStale_run bcfg hE.kind r acts hE.dom g hg hs)

theorem crash_restart (bcfg : Batcher.Cfg) (r : Bool) (acts : List Act) (hE : Env r K big bad dom acts)
    (hs : Sched r ⟨K, bcfg⟩ acts) :
    ∀ crash, crash <+: acts → ∀ v ∈ (run ⟨K, bcfg⟩ crash).acks,
      ∀ c ∈ fedMsgs crash, c.op = .commit → c.lsn ≤ v →
        ∀ m ∈ fedMsgs crash, m.op = .data → m.key = c.key →
          m ∈ (run ⟨K, bcfg⟩ crash).sinkAccepted ∨ big m = true := by
  intro crash hp v hv c hc hco hcv m hm hmd hmk
  have hE' := hE.of_prefix hp
  have hs' : Sched r ⟨K, bcfg⟩ crash := by
    obtain ⟨t, rfl⟩ := hp
    exact hs.of_prefix
  obtain ⟨g, hg⟩ := hE'.grammar
  obtain ⟨pre, post, hsplit, _, hsafe⟩ := ack_safe_acks bcfg hE'.kind r crash hE'.dom g hg hs' v hv
  rcases hsafe c hc hco hcv m hm hmd hmk with h | h
  · left
    obtain ⟨x, hx⟩ := run_sink_mono ⟨K, bcfg⟩ pre (Act.emit :: post)
    rw [hsplit, hx]; exact List.mem_append_left _ h
  · exact Or.inr h

end

end PgBifrost.Sys
