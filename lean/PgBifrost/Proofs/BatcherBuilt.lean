import PgBifrost.Proofs.BatcherFaithful
import PgBifrost.Proofs.BatchLimits
/-!
# Every batch the batcher handles was built by `Add` from a fresh batch (`Built`)

`Built K b adds`: `b` is the result of starting from a fresh batch and applying `Add` to the data
messages `adds` (all of the batch's partition key), each answered ok / too big / invalid. `adds`
is the ghost record of "what this batch was offered while it was the open batch" (a message
answered can't-fit is not in it: it is charged to the next batch).
-/
namespace PgBifrost.Batcher
open PgBifrost.Batch

inductive Built (K : Kind) : Batch → List Msg → Prop
  | fresh (pk : PKey) : Built K (fresh pk) []
  | add {b : Batch} {adds : List Msg} (m : Msg) (b' : Batch) (st : List Ev) : Built K b adds →
      m.pkey = b.pkey → m.op = .data → AddOut K b m b' st → Built K b' (adds ++ [m])

theorem AddOut.snd {K : Kind} {b : Batch} {m : Msg} {b' : Batch} {st : List Ev} (h : AddOut K b m b' st) :
    b' = (K.add b m).2 := by
  rcases h with ⟨h, _⟩ | ⟨h, _⟩ | ⟨h, _⟩ <;> rw [h]

theorem AddOut.pkey {K : Kind} {big bad : Msg → Bool} {dom : Msg → Prop} (hL : Laws K big bad dom)
    {b : Batch} {m : Msg} {b' : Batch} {st : List Ev} (h : AddOut K b m b' st) : b'.pkey = b.pkey := by
  rcases h with ⟨h, _⟩ | ⟨h, _⟩ | ⟨h, _⟩
  · exact (hL.ok_payload _ _ _ h).2.1
  · exact (hL.tooBig_big _ _ _ h).2.2.1
  · rw [(hL.invalid_bad _ _ _ h).2.2]

def IsBuilt (K : Kind) (b : Batch) : Prop := ∃ adds, Built K b adds

theorem isBuilt_fresh (K : Kind) (pk : PKey) : IsBuilt K (fresh pk) := ⟨[], Built.fresh pk⟩

theorem isBuilt_add {K : Kind} {big bad : Msg → Bool} {dom : Msg → Prop} (hL : Laws K big bad dom)
    (b : Batch) (m : Msg) (b' : Batch) (st : List Ev)
    (hQ : IsBuilt K b) (hmk : m.pkey = b.pkey) (hd : m.op = .data) (hout : AddOut K b m b' st) :
    IsBuilt K b' ∧ b'.pkey = b.pkey := by
  obtain ⟨adds, hB⟩ := hQ
  exact ⟨⟨adds ++ [m], Built.add m b' st hB hmk hd hout⟩, hout.pkey hL⟩

/-- any invariant of `Add` that holds for fresh batches holds for built batches -/
theorem Built.inv {K : Kind} (Q : Batch → Prop) (hfresh : ∀ pk, Q (Batch.fresh pk))
    (hstep : ∀ b m, Q b → Q (K.add b m).2) {b : Batch} {adds : List Msg} (h : Built K b adds) : Q b := by
  induction h with
  | fresh pk => exact hfresh pk
  | add m b' st _ _ _ hout ih => rw [hout.snd]; exact hstep _ _ ih

/-- a built batch is the fold of `Add` over its ghost list -/
theorem Built.eq_foldAdd {K : Kind} {big bad : Msg → Bool} {dom : Msg → Prop} (hL : Laws K big bad dom)
    {b : Batch} {adds : List Msg} (h : Built K b adds) :
    b = foldAdd K (Batch.fresh b.pkey) adds ∧ ∀ m ∈ adds, m.pkey = b.pkey ∧ m.op = .data := by
  induction h with
  | fresh pk => exact ⟨rfl, fun m hm => by cases hm⟩
  | @add b adds m b' st _ hmk hd hout ih =>
    have hpk := hout.pkey hL
    refine ⟨?_, fun x hx => ?_⟩
    · rw [hpk]
      unfold foldAdd
      rw [List.foldl_append]
      simp only [List.foldl_cons, List.foldl_nil]
      have := ih.1
      unfold foldAdd at this
      rw [← this]; exact hout.snd
    · rw [hpk]
      rcases List.mem_append.mp hx with hx | hx
      · exact ih.2 x hx
      · simp at hx; subst hx; exact ⟨hmk, hd⟩

/-- the payload of a built batch is what it was offered minus over-size and invalid records -/
theorem Built.payload {K : Kind} {big bad : Msg → Bool} {dom : Msg → Prop} (hL : Laws K big bad dom)
    {b : Batch} {adds : List Msg} (h : Built K b adds) :
    b.payload = adds.filter (fun m => !big m && !bad m) := by
  induction h with
  | fresh pk => rfl
  | @add b adds m b' st _ hmk hd hout ih =>
    rw [List.filter_append]
    rcases hout with ⟨ha, _⟩ | ⟨ha, _⟩ | ⟨ha, _⟩
    · obtain ⟨h1, _, _⟩ := hL.ok_payload _ _ _ ha
      obtain ⟨h3, h4⟩ := hL.ok_good _ _ _ ha
      rw [h1, ih]; simp [h3, h4]
    · obtain ⟨h1, h2, _, _⟩ := hL.tooBig_big _ _ _ ha
      rw [h2, ih]; simp [h1]
    · obtain ⟨h1, h2, h3⟩ := hL.invalid_bad _ _ _ ha
      rw [h3, ih]; simp [h2]

/-- **per-batch txns accounting**: the count recorded for a delivery key is the number of records of
that key the batch accepted plus the number it dropped as too big while it was the open batch -/
theorem Built.txns {K : Kind} {big bad : Msg → Bool} {dom : Msg → Prop} (hL : Laws K big bad dom)
    {b : Batch} {adds : List Msg} (h : Built K b adds) (key : Nat) :
    countOf b.txns key =
      (b.payload.filter (fun m => m.key == key)).length +
      (adds.filter (fun m => m.key == key && big m)).length := by
  induction h with
  | fresh pk => rfl
  | @add b adds m b' st _ hmk hd hout ih =>
    rw [List.filter_append, List.length_append]
    rcases hout with ⟨ha, _⟩ | ⟨ha, _⟩ | ⟨ha, _⟩
    · obtain ⟨h1, _, h2⟩ := hL.ok_payload _ _ _ ha
      obtain ⟨h3, h4⟩ := hL.ok_good _ _ _ ha
      rw [h1, h2, countOf_updateTxns, ih, List.filter_append, List.length_append]
      by_cases hk : m.key = key <;> simp [hk, h3] <;> omega
    · obtain ⟨h1, h2, _, h3⟩ := hL.tooBig_big _ _ _ ha
      rw [h2, h3, countOf_updateTxns, ih]
      by_cases hk : m.key = key <;> simp [hk, h1] <;> omega
    · obtain ⟨h1, h2, h3⟩ := hL.invalid_bad _ _ _ ha
      rw [h3, ih]; simp [h1]

/-- the delivery keys in a built batch's `txns` are distinct (so `countOf` is the only entry) -/
theorem Built.txns_nodup {K : Kind} {big bad : Msg → Bool} {dom : Msg → Prop} (hL : Laws K big bad dom)
    {b : Batch} {adds : List Msg} (h : Built K b adds) : (b.txns.map (·.key)).Nodup := by
  induction h with
  | fresh pk => simp [Batch.fresh]
  | @add b adds m b' st _ hmk hd hout ih =>
    rcases hout with ⟨ha, _⟩ | ⟨ha, _⟩ | ⟨ha, _⟩
    · rw [(hL.ok_payload _ _ _ ha).2.2]; exact updateTxns_nodup _ _ ih
    · rw [(hL.tooBig_big _ _ _ ha).2.2.2]; exact updateTxns_nodup _ _ ih
    · rw [(hL.invalid_bad _ _ _ ha).2.2]; exact ih

/-! ## every batch of a run is built -/

theorem run_built {K : Kind} {big bad : Msg → Bool} {dom : Msg → Prop} (hL : Laws K big bad dom)
    (cfg : Cfg) (ops : List Op) (hdom : ∀ m ∈ dataMsgs ops, dom m) :
    (∀ b ∈ dispatched (run K cfg ops).2, IsBuilt K b ∧ b.payload ≠ []) ∧
    (∀ t ∈ selfReported (run K cfg ops).2, ∃ b, IsBuilt K b ∧ b.payload = [] ∧ b.txns = t) ∧
    (∀ k b, getOpen (run K cfg ops).1 k = some b → IsBuilt K b ∧ b.pkey = k) := by
  have hev := run_events hL cfg ops hdom (EvQ (IsBuilt K)) trivial
    (fun g acc hR => (reach_batches (IsBuilt K) (isBuilt_fresh K) (isBuilt_add hL) hR).2)
  refine ⟨fun b hb => ?_, fun t ht => ?_, ?_⟩
  · obtain ⟨w, hw⟩ := mem_dispatched.mp hb
    obtain ⟨h1, h2⟩ := hev _ hw
    exact ⟨h1, fun h => by simp [Batch.isEmpty, h] at h2⟩
  · obtain ⟨b, h1, h2, h3⟩ := hev _ (mem_selfReported.mp ht)
    exact ⟨b, h1, by simpa [Batch.isEmpty] using h2, h3⟩
  · exact run_open hL cfg ops hdom (fun k b => IsBuilt K b ∧ b.pkey = k)
      (fun g acc hR => (reach_batches (IsBuilt K) (isBuilt_fresh K) (isBuilt_add hL) hR).1)

end PgBifrost.Batcher
