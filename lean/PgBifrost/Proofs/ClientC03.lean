import PgBifrost.Proofs.Client
/-! Run-level invariants for C03 (acknowledgements and restart positions). -/
namespace PgBifrost.ClientProofs
open PgBifrost.Client PgBifrost.Spec.Client

/-! ## monotone -/

/-- from a running or exited state: statuses sorted and not below the current `overallProgress` -/
theorem mono_from (v : Variant) (evs : List Ev) (s : State) (hp : s.phase ≠ .first) :
    (statusesOf (acts (histFrom v s evs))).Pairwise (· ≤ ·) ∧
      ∀ l ∈ statusesOf (acts (histFrom v s evs)), s.overall ≤ l := by
  induction evs generalizing s with
  | nil => simp [histFrom, acts, statusesOf]
  | cons e r ih =>
    rw [histFrom_cons, acts_cons, statusesOf_append]
    cases hph : s.phase with
    | first => exact absurd hph hp
    | exited =>
      rw [step_exited v s e hph]
      simpa using ih s hp
    | running =>
      have hseg := (step_seg v s e hph).1
      have hp' : (step v s e).1.phase ≠ .first := by
        rcases step_phase v s e hph with h | h <;> rw [h] <;> simp
      obtain ⟨ih1, ih2⟩ := ih (step v s e).1 hp'
      have hov : s.overall ≤ (step v s e).1.overall := by simpa using hseg.ov
      refine ⟨?_, ?_⟩
      · rw [List.pairwise_append]
        refine ⟨hseg.sorted, ih1, ?_⟩
        intro a ha b hb
        have := (hseg.bound a ha).2; have := ih2 b hb; omega
      · intro l hl
        rcases List.mem_append.mp hl with hl | hl
        · simpa using (hseg.bound l hl).1
        · have := ih2 l hl; omega

theorem mono_hist (v : Variant) (evs : List Ev) :
    (statusesOf (acts (hist v evs))).Pairwise (· ≤ ·) := by
  unfold hist
  cases evs with
  | nil => simp [histFrom, acts, statusesOf]
  | cons e r =>
    rw [histFrom_cons, acts_cons, statusesOf_append]
    rcases step_first_cases v start.1 e rfl with ⟨hx, hs, _⟩ | ⟨w, _, heq⟩
    · rw [hs, acts_exited v _ r hx]; simp [statusesOf]
    · have hq := (quiet_loopTop (firstState (feed1 start.1 e.feed) w) e.tick)
      have hp' : (step v start.1 e).1.phase ≠ .first := by rw [heq]; simp
      obtain ⟨ih1, ih2⟩ := mono_from v r (step v start.1 e).1 hp'
      rw [List.pairwise_append]
      refine ⟨by rw [heq]; exact hq.sorted, ih1, ?_⟩
      intro a ha b hb
      have h1 : (loopTop (firstState (feed1 start.1 e.feed) w) e.tick).1.overall ≤ b := by
        have := ih2 b hb; rw [heq] at this; exact this
      rw [heq] at ha
      have := (hq.bound a ha).2
      omega

/-! ## running maximum -/

theorem mem_allowedFrom {p : Nat} {bl : List (List Nat)} {l j : Nat} (hj : j ≤ bl.length)
    (h : l = rmax p (bl.take j).flatten) : (allowedFrom p bl).contains l = true := by
  simp only [allowedFrom, List.contains_eq_mem, List.mem_map, List.mem_range, decide_eq_true_eq]
  exact ⟨j, by omega, h.symm⟩

theorem fedOf_eq (e : Ev) : fedOf e = e.feed ++ (blocksOf e).flatten := by
  cases e with | mk f m t => cases m <;> simp [fedOf, blocksOf]

theorem runMax_from (v : Variant) (evs : List Ev) (s : State) (m : Nat) (hp : s.phase ≠ .first)
    (hinv : s.phase = .exited ∨ (s.chan = [] ∧ s.overall = m)) :
    runMaxAux m (histFrom v s evs) = true := by
  induction evs generalizing s m with
  | nil => rfl
  | cons e r ih =>
    rw [histFrom_cons, runMaxAux, Bool.and_eq_true]
    cases hph : s.phase with
    | first => exact absurd hph hp
    | exited =>
      rw [step_exited v s e hph]
      exact ⟨by simp [statusesOf], ih s _ hp (Or.inl hph)⟩
    | running =>
      obtain ⟨hc, ho⟩ : s.chan = [] ∧ s.overall = m := by
        rcases hinv with h | h
        · rw [hph] at h; cases h
        · exact h
      obtain ⟨hseg, hend⟩ := step_seg v s e hph
      have hpend : pend (feed1 s e.feed) = rmax m e.feed := by simp [pend, hc, ho]
      have hp' : (step v s e).1.phase ≠ .first := by
        rcases step_phase v s e hph with h | h <;> rw [h] <;> simp
      refine ⟨?_, ih _ _ hp' ?_⟩
      · rw [List.all_eq_true]
        intro l hl
        obtain ⟨j, hj, h⟩ := hseg.sts l hl
        rw [hpend] at h
        exact mem_allowedFrom hj h
      · rcases hend with h | h
        · exact Or.inl h
        · refine Or.inr ⟨h, ?_⟩
          have := hseg.pd
          rw [pend_of_chan_nil h, hpend, ← rmax_append, ← fedOf_eq] at this
          exact this

theorem runMax_hist (v : Variant) (evs : List Ev) : c03RunMax (hist v evs) = true := by
  unfold hist
  cases evs with
  | nil => rfl
  | cons e r =>
    rw [histFrom_cons, c03RunMax]
    rcases step_first_cases v start.1 e rfl with ⟨hx, hs, _⟩ | ⟨w, hw, heq⟩
    · split
      · simp only [hs, List.all_nil, Bool.true_and]
        exact runMax_from v r _ _ (by rw [hx]; simp) (Or.inl hx)
      · rw [hs, acts_exited v _ r hx]; rfl
    · rw [hw]
      simp only [Bool.and_eq_true]
      have hq := quiet_loopTop (firstState (feed1 start.1 e.feed) w) e.tick
      have hpend : pend (firstState (feed1 start.1 e.feed) w) = rmax w e.feed := by
        simp [pend, start_state]
      refine ⟨?_, ?_⟩
      · rw [List.all_eq_true]
        intro l hl
        rw [heq] at hl
        obtain ⟨j, hj, h⟩ := hq.sts l hl
        simp at hj
        subst hj
        simp only [List.take_zero, List.flatten_nil, rmax_nil, hpend] at h
        simp [h]
      · refine runMax_from v r _ _ (by rw [heq]; simp) (Or.inr ?_)
        rw [heq]
        refine ⟨by simp, ?_⟩
        have := hq.pd
        rw [pend_of_chan_nil (by simp), hpend] at this
        exact this

/-! ## the monitor's `c03Sourced` follows from exactness (for any history, not only the model's) -/

theorem rmax_sourced {i m : Nat} {fed l : List Nat} (hm : m = i ∨ m ∈ fed) :
    rmax m l = i ∨ rmax m l ∈ fed ++ l := by
  rcases rmax_mem m l with h | h
  · rw [h]; rcases hm with h' | h'
    · exact Or.inl h'
    · exact Or.inr (List.mem_append_left _ h')
  · exact Or.inr (List.mem_append_right _ h)

theorem sourced_of_runMaxAux (i : Nat) (h : Hist) (m : Nat) (fed : List Nat) (hm : m = i ∨ m ∈ fed)
    (hr : runMaxAux m h = true) : sourcedAux i fed h = true := by
  induction h generalizing m fed with
  | nil => rfl
  | cons p r ih =>
    obtain ⟨e, as⟩ := p
    rw [runMaxAux, Bool.and_eq_true] at hr
    rw [sourcedAux.eq_def]
    simp only [Bool.and_eq_true]
    refine ⟨?_, ih _ _ ?_ hr.2⟩
    · rw [List.all_eq_true]
      intro l hl
      have := List.all_eq_true.mp hr.1 l hl
      simp only [allowedFrom, List.contains_eq_mem, List.mem_map, List.mem_range,
        decide_eq_true_eq] at this
      obtain ⟨j, _, hj⟩ := this
      rw [← rmax_append] at hj
      rcases rmax_sourced (l := e.feed ++ ((blocksOf e).take j).flatten) hm with h | h
      · simp [← hj, h]
      · simp only [Bool.or_eq_true, beq_iff_eq, List.contains_eq_mem, decide_eq_true_eq]
        right
        rw [← hj]
        rw [fedOf_eq]
        rcases List.mem_append.mp h with h | h
        · exact List.mem_append_left _ h
        · refine List.mem_append_right _ ?_
          rcases List.mem_append.mp h with h | h
          · exact List.mem_append_left _ h
          · refine List.mem_append_right _ ?_
            obtain ⟨b, hb, hlb⟩ := List.mem_flatten.mp h
            exact List.mem_flatten.mpr ⟨b, List.mem_of_mem_take hb, hlb⟩
    · have := rmax_sourced (l := fedOf e) hm
      exact this

theorem sourced_of_runMax (h : Hist) (hr : c03RunMax h = true) : c03Sourced h = true := by
  cases h with
  | nil => rfl
  | cons p r =>
    obtain ⟨e, as⟩ := p
    rw [c03RunMax] at hr
    rw [c03Sourced]
    split at hr
    · rename_i i hi
      simp only [Bool.and_eq_true] at hr
      rw [sourcedAux.eq_def]
      simp only [Bool.and_eq_true]
      refine ⟨?_, ?_⟩
      · rw [List.all_eq_true]
        intro l hl
        have := List.all_eq_true.mp hr.1 l hl
        simp only [beq_iff_eq] at this
        rcases rmax_sourced (i := i) (fed := []) (l := e.feed) (Or.inl rfl) with h | h
        · simp [this, h]
        · simp only [Bool.or_eq_true, beq_iff_eq, List.contains_eq_mem, decide_eq_true_eq]
          right; rw [this, fedOf_eq]
          simp only [List.nil_append] at h ⊢
          exact List.mem_append_left _ h
      · refine sourced_of_runMaxAux i r (rmax i e.feed) _ ?_ hr.2
        have := rmax_sourced (i := i) (fed := []) (l := e.feed) (Or.inl rfl)
        simp only [List.nil_append] at this ⊢
        rcases this with h | h
        · exact Or.inl h
        · right; rw [fedOf_eq]; exact List.mem_append_left _ h
    · exact hr

/-! ## restarts -/

theorem restarts_from (v : Variant) (evs : List Ev) (s : State) (cur : Nat) (hp : s.phase ≠ .first)
    (hinv : s.phase = .exited ∨ s.highest = cur) :
    restartsAux cur (histFrom v s evs) = true := by
  induction evs generalizing s cur with
  | nil => rfl
  | cons e r ih =>
    rw [histFrom_cons, restartsAux]
    simp only [Bool.and_eq_true]
    cases hph : s.phase with
    | first => exact absurd hph hp
    | exited =>
      rw [step_exited v s e hph]
      exact ⟨by simp [startsOf], ih s _ hp (Or.inl hph)⟩
    | running =>
      have hh : s.highest = cur := by
        rcases hinv with h | h
        · rw [hph] at h; cases h
        · exact h
      obtain ⟨h1, h2⟩ := step_starts v s e hph
      rw [hh] at h1 h2
      have hp' : (step v s e).1.phase ≠ .first := by
        rcases step_phase v s e hph with h | h <;> rw [h] <;> simp
      refine ⟨?_, ih _ _ hp' ?_⟩
      · rw [List.all_eq_true]; intro l hl; simpa using h1 l hl
      · rcases h2 with h | h
        · exact Or.inl h
        · exact Or.inr h.2

theorem restarts_hist (v : Variant) (evs : List Ev) : c03Restarts (hist v evs) = true := by
  unfold hist c03Restarts
  cases evs with
  | nil => rfl
  | cons e r =>
    rw [histFrom_cons, restartsAux]
    simp only [Bool.and_eq_true]
    rcases step_first_cases v start.1 e rfl with ⟨hx, _, hs, _⟩ | ⟨w, hw, heq⟩
    · exact ⟨by simp [hs], restarts_from v r _ _ (by rw [hx]; simp) (Or.inl hx)⟩
    · have hq := quiet_loopTop (firstState (feed1 start.1 e.feed) w) e.tick
      have hexp : expectedStart 0 e = 0 := by
        cases e with | mk f m t => cases m <;> simp_all [expectedStart, initOf]
      rw [hexp]
      refine ⟨?_, restarts_from v r _ _ (by rw [heq]; simp) (Or.inr (by rw [heq]; simp [start_state]))⟩
      rw [List.all_eq_true]
      intro l hl
      rw [heq] at hl
      have := hq.starts l hl
      simpa [start_state] using this


/-! ## `hist` is the run -/
theorem runFrom_hist (v : Variant) (evs : List Ev) (s : State) :
    (runFrom v s evs).2 = (histFrom v s evs).map (·.2) := by
  induction evs generalizing s with
  | nil => rfl
  | cons e r ih => simp [runFrom, histFrom, ih]

theorem trace_eq (v : Variant) (evs : List Ev) : trace v evs = start.2 ++ acts (hist v evs) := by
  simp [trace, run, hist, acts, runFrom_hist]

theorem hist_events (v : Variant) (evs : List Ev) (s : State) : (histFrom v s evs).map (·.1) = evs := by
  induction evs generalizing s with
  | nil => rfl
  | cons e r ih => simp [histFrom, ih]

end PgBifrost.ClientProofs
