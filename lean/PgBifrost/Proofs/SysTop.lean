import PgBifrost.Proofs.SysContract
import PgBifrost.Proofs.SysStale
import PgBifrost.Proofs.LedgerSimple.Main
import PgBifrost.Proofs.LedgerSimple.Drain
import PgBifrost.Proofs.LedgerSpecSound
/-!
# Top layer: acknowledgement safety, quiescence, exactly-once — compositions of the layer theorems
-/
namespace PgBifrost.Sys
open PgBifrost.Batch PgBifrost.Batcher
open PgBifrost.LedgerSimple (seenAt mentAt wsum Contract NoStale)

/-! ## small list facts -/

theorem filter_len_eq_forall {α : Type} {p q : α → Bool} (h : ∀ a, p a = true → q a = true) :
    ∀ l : List α, (l.filter p).length = (l.filter q).length → ∀ a ∈ l, q a = true → p a = true := by
  intro l
  induction l with
  | nil => intro _ a ha; cases ha
  | cons x r ih =>
    intro hl a ha hq
    have hmono := length_filter_mono h r
    simp only [List.filter_cons] at hl
    by_cases hpx : p x = true
    · have hqx := h x hpx
      simp only [hpx, hqx, if_true, List.length_cons] at hl
      rcases List.mem_cons.mp ha with rfl | ha
      · exact hpx
      · exact ih (by omega) a ha hq
    · by_cases hqx : q x = true
      · simp only [hpx, hqx, if_true, List.length_cons] at hl
        simp only [Bool.false_eq_true, if_false] at hl
        omega
      · simp only [hpx, hqx, Bool.false_eq_true, if_false] at hl
        rcases List.mem_cons.mp ha with rfl | ha
        · exact absurd hq hqx
        · exact ih hl a ha hq

theorem le_sum_of_mem {α : Type} {f : α → Nat} {l : List α} {a : α} (h : a ∈ l) : f a ≤ (l.map f).sum := by
  induction l with
  | nil => cases h
  | cons x r ih =>
    rcases List.mem_cons.mp h with rfl | h
    · simp
    · have := ih h; simp; omega

/-! ## grammar: what comes after a prefix -/

theorem track_seens_prefix (A B : List Msg) : ∃ extra, (track (A ++ B)).seens = (track A).seens ++ extra := by
  unfold track
  rw [List.foldl_append]
  exact foldl_trackStep_seens B _

theorem later_commit_gt {r : Bool} {A : List Msg} {gA : GState} (hA : gscan r A = some gA) :
    ∀ (B : List Msg) (g : GState), gscan r (A ++ B) = some g →
      gA.last ≤ g.last ∧ ∀ c ∈ B, c.op = .commit → gA.last < c.lsn := by
  intro B
  induction B using snoc_induction with
  | h0 =>
    intro g hg
    rw [List.append_nil, hA] at hg
    cases hg
    exact ⟨Nat.le_refl _, fun c hc => by cases hc⟩
  | hs B m ih =>
    intro g hg
    rw [← List.append_assoc, gscan_snoc] at hg
    cases h1 : gscan r (A ++ B) with
    | none => rw [h1] at hg; simp at hg
    | some g1 =>
      rw [h1] at hg
      simp only [Option.bind_some] at hg
      obtain ⟨i1, i2⟩ := ih g1 h1
      rcases gstep_cases hg with ⟨_, ho, _, _, rfl⟩ | ⟨_, _, _, ho, _, _, rfl⟩ | ⟨_, _, _, ho, _, _, hl, rfl⟩ |
          ⟨_, _, _, _, ho, _, _, rfl⟩
      · refine ⟨i1, fun c hc hco => ?_⟩
        rcases List.mem_append.mp hc with hc | hc
        · exact i2 c hc hco
        · simp at hc; subst hc; rw [ho] at hco; cases hco
      · refine ⟨i1, fun c hc hco => ?_⟩
        rcases List.mem_append.mp hc with hc | hc
        · exact i2 c hc hco
        · simp at hc; subst hc; rw [ho] at hco; cases hco
      · refine ⟨by show gA.last ≤ m.lsn; omega, fun c hc hco => ?_⟩
        rcases List.mem_append.mp hc with hc | hc
        · exact i2 c hc hco
        · simp at hc; subst hc; omega
      · refine ⟨i1, fun c hc hco => ?_⟩
        rcases List.mem_append.mp hc with hc | hc
        · exact i2 c hc hco
        · simp at hc; subst hc; rw [ho] at hco; cases hco

/-- once a delivery is committed no later message carries its key -/
theorem closed_key_stays {r : Bool} {A : List Msg} :
    ∀ (B : List Msg) (g : GState), gscan r (A ++ B) = some g →
      ∀ e ∈ (track A).seens, ∀ m ∈ B, m.key ≠ e.key := by
  intro B
  induction B using snoc_induction with
  | h0 => intro g _ e _ m hm; cases hm
  | hs B m ih =>
    intro g hg e he m' hm'
    rw [← List.append_assoc, gscan_snoc] at hg
    cases h1 : gscan r (A ++ B) with
    | none => rw [h1] at hg; simp at hg
    | some g1 =>
      rw [h1] at hg
      simp only [Option.bind_some] at hg
      rcases List.mem_append.mp hm' with hm' | hm'
      · exact ih g1 h1 e he m' hm'
      · simp at hm'; subst hm'
        have hI := ginv_of_gscan _ h1
        obtain ⟨extra, hex⟩ := track_seens_prefix A B
        have he' : e ∈ (track (A ++ B)).seens := by rw [hex]; exact List.mem_append_left _ he
        obtain ⟨_, _, _, _, c, hc, _, hck, _⟩ := hI.seenE e he'
        have hused : e.key ∈ g1.used := hck ▸ hI.used c hc
        rcases gstep_cases hg with ⟨_, _, hk, _, _⟩ | ⟨k, t, hcur, _, hmk, _, _⟩ | ⟨k, t, hcur, _, hmk, _, _, _⟩ |
            ⟨_, _, _, _, _, _, hk, _⟩
        · intro h; exact hk (h ▸ hused)
        · rw [hmk]; exact fun h => (hI.curOpen k t hcur).2.2.2.2.1 e he' h.symm
        · rw [hmk]; exact fun h => (hI.curOpen k t hcur).2.2.2.2.1 e he' h.symm
        · intro h; exact hk (h ▸ hused)

/-! ## the system never dies under the input hypotheses; acknowledged values -/

section
variable {K : Kind} {big bad : Msg → Bool} {dom : Msg → Prop} {bcfg : Batcher.Cfg} {s : SysState} {gs : GState}

theorem Facts.alive {r : Bool} (hF : Facts r K big bad dom bcfg s gs) (hS : NoStale s.trace) : ∃ l, s.ledger = some l := by
  obtain ⟨l, hrun, _, _⟩ := PgBifrost.LedgerRefine.run_refine' hF.contract hS s.trace.length
  rw [List.take_length] at hrun
  exact ⟨l, by rw [hF.hist.1]; exact hrun⟩

theorem Facts.not_dead {r : Bool} (hF : Facts r K big bad dom bcfg s gs) (hS : NoStale s.trace) : s.dead = false := by
  obtain ⟨l, hl⟩ := hF.alive hS
  simp [SysState.dead, hl]

end

/-! ## the scheduling hypothesis and `NoStale` for both stages -/

/-- no redelivery, or the scheduling hypothesis `redeliverQuiet` holds -/
def Sched (r : Bool) (cfg : Cfg) (acts : List Act) : Prop := r = false ∨ redeliverQuiet cfg acts = true

theorem Sched.of_prefix {r : Bool} {cfg : Cfg} {a b : List Act} (h : Sched r cfg (a ++ b)) : Sched r cfg a := by
  rcases h with h | h
  · exact Or.inl h
  · right
    unfold redeliverQuiet at h ⊢
    rw [rqf_append, Bool.and_eq_true] at h
    exact h.1

theorem Sched.snoc_emit {r : Bool} {cfg : Cfg} {a : List Act} (h : Sched r cfg a) : Sched r cfg (a ++ [Act.emit]) := by
  rcases h with h | h
  · exact Or.inl h
  · right; rw [quiet_snoc, h]; rfl

theorem noStale_run {K : Kind} {big bad : Msg → Bool} {dom : Msg → Prop} (bcfg : Batcher.Cfg)
    (hK : KindOK K big bad dom) (r : Bool) (acts : List Act)
    (hdom : ∀ m ∈ fedMsgs acts, m.op = .data → dom m) (g : GState) (hg : gscan r (fedMsgs acts) = some g)
    (hs : Sched r ⟨K, bcfg⟩ acts) : NoStale (run ⟨K, bcfg⟩ acts).trace := by
  obtain ⟨gs, hgs, hF⟩ := facts_run bcfg hK r acts hdom g hg
  cases r with
  | false => exact hF.noStale
  | true =>
    rcases hs with h | h
    · cases h
    · exact hF.noStale_of_sf (sf_run bcfg hK acts hdom g hg h gs hgs)

/-- an emitted value is the commit of a seen operation of the trace -/
theorem emitVal_is_seen {tr : List Ledger.Op} (hC : Contract tr) (hS : NoStale tr) {l : Ledger.State}
    (hrun : Ledger.run tr = some l) {v : Nat} (hv : Ledger.emitVal l = some v) :
    ∃ (i t k tot : Nat) (rl : Bool), tr[i]? = some (Ledger.Op.seen t k tot v rl) := by
  obtain ⟨l', hrun', hitems, _⟩ := PgBifrost.LedgerRefine.run_refine hC hS tr.length (Nat.le_refl _)
  have hI := PgBifrost.LedgerSimple.run_inv hC hS tr.length (Nat.le_refl _)
  rw [List.take_length] at hrun' hitems hI
  rw [hrun] at hrun'; cases hrun'
  rw [PgBifrost.LedgerRefine.emitVal_eq, hitems] at hv
  generalize PgBifrost.LedgerSimple.run [] tr = items at hI hv
  unfold PgBifrost.LedgerSimple.emitVal at hv
  cases hlast : (items.takeWhile PgBifrost.LedgerSimple.releasable).getLast? with
  | none => rw [hlast] at hv; cases hv
  | some ej =>
    rw [hlast] at hv; simp at hv
    have hejT : ej ∈ items.takeWhile PgBifrost.LedgerSimple.releasable := List.mem_of_getLast? hlast
    have hejI : ej ∈ items := (List.takeWhile_sublist _).subset hejT
    obtain ⟨i, t, tot, c, rl, _, hg, hc, _, _⟩ :=
      PgBifrost.LedgerSimple.releasable_complete hI hejI (PgBifrost.LedgerSimple.releasable_of_mem_takeWhile hejT)
    exact ⟨i, t, ej.key, tot, rl, by rw [hg, ← hc, hv]⟩

/-! ## a delivery the tracker was told is completely written is completely in the sink -/

section
variable {r : Bool} {K : Kind} {big bad : Msg → Bool} {dom : Msg → Prop} {bcfg : Batcher.Cfg} {s : SysState} {gs : GState}

/-- a batch holding a record of delivery key `k` charges `k` at least once -/
theorem built_charges {b : Batch} (hL : Laws K big bad dom) (hB : IsBuilt K b) {m : Msg} (hm : m ∈ b.payload) :
    1 ≤ countOf b.txns m.key := by
  obtain ⟨adds, hB⟩ := hB
  rw [hB.txns hL m.key]
  have : m ∈ b.payload.filter (fun x => x.key == m.key) := List.mem_filter.mpr ⟨hm, by simp⟩
  have := List.length_pos_of_mem this
  omega

theorem Facts.complete_in_sink (hF : Facts r K big bad dom bcfg s gs) {k : Nat}
    (hw : wsum s.trace k = dcount (msgs s.ops) k) :
    (∀ m ∈ msgs s.ops, m.op = .data → m.key = k → (big m || !bad m) = true) ∧
    ∀ m ∈ msgs s.ops, m.op = .data → m.key = k → m ∈ s.sinkAccepted ∨ big m = true := by
  have hL := hF.kind.laws
  have h1 := hF.flow.num k
  have h2 := hF.charges k
  have hfil : (dataMsgs s.ops).filter (fun m => m.key == k && (big m || !bad m)) =
      (msgs s.ops).filter (fun m => (m.key == k && (big m || !bad m)) && m.op == .data) := by
    unfold dataMsgs; rw [List.filter_filter]
  have h3 := length_filter_mono (p := fun m => (m.key == k && (big m || !bad m)) && m.op == .data)
    (q := fun m => m.op == .data && m.key == k)
    (fun a ha => by simp only [Bool.and_eq_true] at ha ⊢; exact ⟨ha.2, ha.1.1⟩) (msgs s.ops)
  rw [hfil] at h2
  have hd : dcount (msgs s.ops) k = ((msgs s.ops).filter (fun m => m.op == .data && m.key == k)).length := rfl
  have hall := filter_len_eq_forall (p := fun m => (m.key == k && (big m || !bad m)) && m.op == .data)
    (q := fun m => m.op == .data && m.key == k)
    (fun a ha => by simp only [Bool.and_eq_true] at ha ⊢; exact ⟨ha.2, ha.1.1⟩) (msgs s.ops) (by omega)
  have hgood : ∀ m ∈ msgs s.ops, m.op = .data → m.key = k → (big m || !bad m) = true := by
    intro m hm hd' hk
    have := hall m hm (by simp [hd', hk])
    simp only [Bool.and_eq_true] at this
    exact this.1.2
  refine ⟨hgood, fun m hm hd' hk => ?_⟩
  by_cases hb : big m = true
  · exact Or.inr hb
  · left
    have hbad : bad m = false := by
      have := hgood m hm hd' hk
      cases hbm : big m <;> cases hbd : bad m <;> simp_all
    have hbig : big m = false := by cases h : big m <;> simp_all
    obtain ⟨_, hfa⟩ := reach_faithful hL hF.reach
    have hmem : m ∈ (dataMsgs s.ops).filter (goodFor big bad m.pkey) := by
      apply List.mem_filter.mpr
      refine ⟨List.mem_filter.mpr ⟨hm, by simp [hd']⟩, by simp [goodFor, hbig, hbad]⟩
    rw [← hfa m.pkey] at hmem
    obtain ⟨hopen, hevq⟩ := reach_batches (IsBuilt K) (isBuilt_fresh K) (isBuilt_add hL) hF.reach
    have hz1 : wcount s.wchan k = 0 := by omega
    have hz2 : bcount s.held k = 0 := by omega
    have hz3 : bcount s.queue k = 0 := by omega
    have hz4 : chargedOpen s.bat k = 0 := by omega
    rcases List.mem_append.mp hmem with hD | hO
    · unfold D at hD
      obtain ⟨b, hb', hmb⟩ := List.mem_flatMap.mp hD
      have hbd : b ∈ dispatched s.evs := (List.mem_filter.mp hb').1
      obtain ⟨w, hw'⟩ := mem_dispatched.mp hbd
      have hbuilt : IsBuilt K b := (hevq _ hw').1
      have hch := built_charges hL hbuilt hmb
      rw [hk] at hch
      have hperm := hF.flow.perm.subset hbd
      rcases List.mem_append.mp hperm with hperm | hq
      · rcases List.mem_append.mp hperm with hacc | hh
        · rw [hF.hist.2]
          exact List.mem_flatMap.mpr ⟨b, hacc, hmb⟩
        · exfalso
          obtain ⟨p, hp, rfl⟩ := List.mem_map.mp hh
          have := le_sum_of_mem (f := fun p : Nat × Batch => countOf p.2.txns k) hp
          unfold bcount at hz2
          omega
      · exfalso
        obtain ⟨p, hp, rfl⟩ := List.mem_map.mp hq
        have := le_sum_of_mem (f := fun p : Nat × Batch => countOf p.2.txns k) hp
        unfold bcount at hz3
        omega
    · exfalso
      unfold openPayload at hO
      cases hg : getOpen s.bat m.pkey with
      | none => rw [hg] at hO; cases hO
      | some b =>
        rw [hg] at hO
        have hch := built_charges hL (hopen m.pkey b hg).1 hO
        rw [hk] at hch
        have hmemO := mem_of_getOpen hg
        have := le_sum_of_mem (f := fun p : PKey × Batch => countOf p.2.txns k) hmemO
        simp only at this
        simp only [chargedOpen, sumOpen] at hz4
        omega

end

/-! ## acknowledgement safety at a state -/

theorem run_emit_trace {cfg : Cfg} {acts : List Act} (hd : (run cfg acts).dead = false) :
    (run cfg (acts ++ [.emit])).trace = (run cfg acts).trace ++ [.emit] := by
  rw [run_snoc, step_live _ hd]; rfl

/-- **State form of C01-Top.** If the tracker ran `emitProgress` now and acknowledged `v`, every data
message of every delivery whose COMMIT (LSN ≤ v) has been fed is in the sink or was dropped as too big. -/
theorem ack_safe_state {K : Kind} {big bad : Msg → Bool} {dom : Msg → Prop} (bcfg : Batcher.Cfg)
    (hK : KindOK K big bad dom) (r : Bool) (acts : List Act)
    (hdom : ∀ m ∈ fedMsgs acts, m.op = .data → dom m) (g : GState) (hg : gscan r (fedMsgs acts) = some g)
    (hs : Sched r ⟨K, bcfg⟩ acts)
    (l : Ledger.State) (hl : (run ⟨K, bcfg⟩ acts).ledger = some l) (v : Nat) (hv : Ledger.emitVal l = some v) :
    ∀ c ∈ fedMsgs acts, c.op = .commit → c.lsn ≤ v →
      ∀ m ∈ fedMsgs acts, m.op = .data → m.key = c.key → m ∈ (run ⟨K, bcfg⟩ acts).sinkAccepted ∨ big m = true := by
  intro c hc hco hcv m hm hmd hmk
  obtain ⟨gs, hgs, hF⟩ := facts_run bcfg hK r acts hdom g hg
  have hNS := noStale_run bcfg hK r acts hdom g hg hs
  have hdead := hF.not_dead hNS
  have hfed := (hist_run ⟨K, bcfg⟩ acts).fedAll hdead
  -- the state after one more emit
  have hfed' : fedMsgs (acts ++ [Act.emit]) = fedMsgs acts := by rw [fedMsgs_snoc]; simp [fedOf]
  obtain ⟨gs', _, hF'⟩ := facts_run bcfg hK r (acts ++ [.emit]) (by rw [hfed']; exact hdom) g (by rw [hfed']; exact hg)
  have hS' := noStale_run bcfg hK r (acts ++ [.emit]) (by rw [hfed']; exact hdom) g (by rw [hfed']; exact hg) hs.snoc_emit
  have htr := run_emit_trace (cfg := ⟨K, bcfg⟩) hdead
  have hC' := hF'.contract
  rw [htr] at hC' hS'
  generalize run ⟨K, bcfg⟩ acts = s at hl hF hfed htr hC' hS' hdead hNS ⊢
  rw [hfed] at hc hm
  have hrun : Ledger.run s.trace = some l := by rw [← hF.hist.1]; exact hl
  -- v is the commit of a handed-over seen entry
  obtain ⟨iv, tv, kv, totv, rv, hgv⟩ := emitVal_is_seen hF.contract hNS hrun hv
  have hev := (hF.seen_src (List.mem_of_getElem? hgv)).1
  -- the entry of c
  have hec := hF.ginv.commitSeen c hc hco
  rw [← hF.seenLog] at hec
  have hpw := hF.ginv.seenCommits
  rw [← hF.seenLog] at hpw
  have hhanded : (⟨c.txn, c.key, dcount (msgs s.ops) c.key, c.lsn⟩ : SeenE) ∈ seenEntries s.evs := by
    rcases List.mem_append.mp hec with h | h
    · exact h
    · have := (List.pairwise_append.mp hpw).2.2 _ hev _ h
      simp only at this
      omega
  obtain ⟨i, hi⟩ := handed_seenAt hF.flow hhanded
  have hi' : (s.trace ++ [Ledger.Op.emit])[i]? =
      some (Ledger.Op.seen c.txn c.key (dcount (msgs s.ops) c.key) c.lsn true) := by
    rw [List.getElem?_append_left (lt_of_getElem? hi)]; exact hi
  have hsafe := PgBifrost.LedgerSimple.emit_safe hC' hS' (n := s.trace.length) (v := v)
    (by simp) (by
      rw [List.take_left']
      · obtain ⟨l', hrun', hitems, _⟩ := PgBifrost.LedgerRefine.run_refine hF.contract hNS s.trace.length (Nat.le_refl _)
        rw [List.take_length] at hrun' hitems
        rw [hrun] at hrun'; cases hrun'
        rw [← hitems, ← PgBifrost.LedgerRefine.emitVal_eq]; exact hv
      · rfl) hi' hcv
  rw [List.take_left' rfl] at hsafe
  exact (hF.complete_in_sink hsafe).2 m hm hmd hmk

end PgBifrost.Sys
