import PgBifrost.Proofs.LedgerSimple.Main
/-!
# Refinement: the faithful ledger model evolves like the simple item-list model

`PgBifrost.Ledger` (items + the `transactionToTimeBasedKey` helper map `cur`) versus
`PgBifrost.LedgerSimple` (items only, supersession read off the item list).

`Agree s` says the helper map is exactly the (txn ↦ key) view of the item list and that the item
list holds at most one entry per key and per transaction. Under `Agree`, every faithful step
computes the simple step on the item list; the only way the faithful `updateSeen` can fail
(`CommitWalStart was not 0`) is excluded by `LInv.unseen` + `Contract.seen_unique`.
-/
namespace PgBifrost.LedgerRefine
open PgBifrost.Ledger
open PgBifrost.LedgerSimple (keys Contract NoStale LInv LOp seenAt mentAt)

/-! ## the helper map as a finite map -/

theorem find_curErase (cur : List (Nat × Nat)) (t t' : Nat) :
    (curErase cur t).find? (·.1 == t') = if t' = t then none else cur.find? (·.1 == t') := by
  induction cur with
  | nil => simp [curErase]
  | cons p r ih =>
    unfold curErase at ih ⊢
    by_cases hp : p.1 = t
    · by_cases ht : t' = t
      · simp [hp, ht]
      · have : ¬ t = t' := fun h => ht h.symm
        simp [hp, ih, ht, this]
    · by_cases ht : t' = t
      · subst ht
        simp [hp, ih]
      · simp [hp, ih, ht, List.find?_cons]

theorem curGet_erase (cur : List (Nat × Nat)) (t t' : Nat) :
    curGet (curErase cur t) t' = if t' = t then none else curGet cur t' := by
  unfold curGet
  rw [find_curErase]
  split <;> rfl

theorem curGet_set (cur : List (Nat × Nat)) (t k t' : Nat) :
    curGet (curSet cur t k) t' = if t' = t then some k else curGet cur t' := by
  unfold curGet curSet
  rw [List.find?_append, find_curErase]
  by_cases ht : t' = t
  · subst ht; simp
  · have : ¬ t = t' := fun h => ht h.symm
    simp [ht, this]

theorem curErase_fst_sublist (cur : List (Nat × Nat)) (t : Nat) :
    ((curErase cur t).map (·.1)).Sublist (cur.map (·.1)) :=
  List.Sublist.map _ List.filter_sublist

theorem not_mem_curErase (cur : List (Nat × Nat)) (t : Nat) : t ∉ (curErase cur t).map (·.1) := by
  simp [curErase]

theorem curSet_nodup {cur : List (Nat × Nat)} (h : (cur.map (·.1)).Nodup) (t k : Nat) :
    ((curSet cur t k).map (·.1)).Nodup := by
  unfold curSet
  rw [List.map_append]
  refine List.nodup_append.mpr ⟨h.sublist (curErase_fst_sublist cur t), by simp, ?_⟩
  intro a ha b hb hab
  simp at hb; subst hb; subst hab
  exact not_mem_curErase cur a ha

/-! ## generic list facts -/

theorem eq_of_nodup_map {α β : Type} {f : α → β} {l : List α} (h : (l.map f).Nodup) {a b : α}
    (ha : a ∈ l) (hb : b ∈ l) (hab : f a = f b) : a = b := by
  induction l with
  | nil => cases ha
  | cons x r ih =>
    rw [List.map_cons, List.nodup_cons] at h
    rcases List.mem_cons.mp ha with ha' | ha' <;> rcases List.mem_cons.mp hb with hb' | hb'
    · rw [ha', hb']
    · rw [← ha'] at h; exact absurd (hab ▸ List.mem_map.mpr ⟨b, hb', rfl⟩) h.1
    · rw [← hb'] at h; exact absurd (hab ▸ List.mem_map.mpr ⟨a, ha', rfl⟩) h.1
    · exact ih h.2 ha' hb'

theorem releasable_eq : Ledger.releasable = LedgerSimple.releasable := rfl

theorem itemsGet_none_iff {items : List Entry} {k : Nat} :
    itemsGet items k = none ↔ LedgerSimple.hasKey items k = false := by
  simp [itemsGet, LedgerSimple.hasKey]

theorem itemsGet_some {items : List Entry} {k : Nat} {e : Entry} (h : itemsGet items k = some e) :
    e ∈ items ∧ e.key = k := by
  unfold itemsGet at h
  exact ⟨List.mem_of_find?_eq_some h, by simpa using List.find?_some h⟩

theorem mem_itemsDelete {items : List Entry} {k : Nat} {e : Entry} :
    e ∈ itemsDelete items k ↔ e ∈ items ∧ e.key ≠ k := by
  simp [itemsDelete]

/-! ## the coupling invariant -/

/-- The faithful state is a consistent (items, helper-map) pair. -/
structure Agree (s : State) : Prop where
  /-- at most one entry per delivery key -/
  keys_nodup : (keys s.items).Nodup
  /-- at most one entry per transaction (stated key-wise; see `Agree.txns_nodup`) -/
  txn_key : ∀ e1 ∈ s.items, ∀ e2 ∈ s.items, e1.txn = e2.txn → e1.key = e2.key
  /-- the helper map is exactly the (txn ↦ key) view of the items -/
  cur_spec : ∀ t k, curGet s.cur t = some k ↔ ∃ e ∈ s.items, e.txn = t ∧ e.key = k
  /-- the helper association list has one binding per transaction -/
  cur_nodup : (s.cur.map (·.1)).Nodup

theorem Agree.key_inj {s : State} (hA : Agree s) {e1 e2 : Entry} (h1 : e1 ∈ s.items)
    (h2 : e2 ∈ s.items) (h : e1.key = e2.key) : e1 = e2 :=
  eq_of_nodup_map (f := fun e : Entry => e.key) (l := s.items) hA.keys_nodup h1 h2 h

/-- the transactions of the entries are pairwise distinct -/
theorem Agree.txns_nodup {s : State} (hA : Agree s) : (s.items.map (·.txn)).Nodup := by
  have h1 : s.items.Pairwise (fun a b => a.key ≠ b.key) := by
    have := hA.keys_nodup
    unfold keys at this
    exact List.pairwise_map.mp this
  have h2 : s.items.Pairwise (fun a b => a.txn ≠ b.txn) :=
    List.Pairwise.imp_of_mem (fun {a b} ha hb hab htxn => hab (hA.txn_key a ha b hb htxn)) h1
  exact List.pairwise_map.mpr h2

theorem agree_empty : Agree {} :=
  ⟨by simp [keys], (by intro e he; cases he), (by intro t k; simp [curGet]), by simp⟩

/-- in-place updates that keep key and txn keep the coupling -/
theorem Agree.map {s : State} (hA : Agree s) (f : Entry → Entry) (hk : ∀ e, (f e).key = e.key)
    (ht : ∀ e, (f e).txn = e.txn) : Agree { s with items := s.items.map f } := by
  refine ⟨?_, ?_, ?_, hA.cur_nodup⟩
  · have : keys (s.items.map f) = keys s.items := by
      unfold keys; rw [List.map_map]; apply List.map_congr_left; intro e _; exact hk e
    show (keys (s.items.map f)).Nodup
    rw [this]; exact hA.keys_nodup
  · intro e1 h1 e2 h2 h
    obtain ⟨a, ha, rfl⟩ := List.mem_map.mp h1
    obtain ⟨b, hb, rfl⟩ := List.mem_map.mp h2
    rw [hk, hk]; rw [ht, ht] at h
    exact hA.txn_key a ha b hb h
  · intro t k
    rw [show ({ s with items := s.items.map f } : State).cur = s.cur from rfl, hA.cur_spec]
    constructor
    · rintro ⟨e, he, h1, h2⟩
      exact ⟨f e, List.mem_map.mpr ⟨e, he, rfl⟩, by rw [ht]; exact h1, by rw [hk]; exact h2⟩
    · rintro ⟨e', he', h1, h2⟩
      obtain ⟨e, he, rfl⟩ := List.mem_map.mp he'
      exact ⟨e, he, by rw [ht] at h1; exact h1, by rw [hk] at h2; exact h2⟩

/-! ## supersession -/

theorem supersede_refine {s : State} (hA : Agree s) (t k : Nat) :
    (supersede s t k).items = LedgerSimple.supersede s.items t k ∧ Agree (supersede s t k) := by
  unfold supersede
  cases hc : curGet s.cur t with
  | none =>
    refine ⟨?_, hA⟩
    show s.items = _
    unfold LedgerSimple.supersede
    refine (List.filter_eq_self.mpr ?_).symm
    intro e he
    have hne : e.txn ≠ t := by
      intro h
      have := (hA.cur_spec t e.key).mpr ⟨e, he, h, rfl⟩
      rw [hc] at this; cases this
    simp [hne]
  | some k' =>
    obtain ⟨e0, he0, ht0, hk0⟩ := (hA.cur_spec t k').mp hc
    by_cases hkk : k' = k
    · subst hkk
      simp only [bne_self_eq_false, Bool.false_eq_true, if_false]
      refine ⟨?_, hA⟩
      unfold LedgerSimple.supersede
      refine (List.filter_eq_self.mpr ?_).symm
      intro e he
      by_cases h : e.txn = t
      · have : e.key = k' := by rw [← hk0]; exact hA.txn_key e he e0 he0 (by rw [h, ht0])
        simp [this]
      · simp [h]
    · have hbne : (k' != k) = true := by simp [hkk]
      simp only [hbne, if_true]
      have hitems : itemsDelete s.items k' = LedgerSimple.supersede s.items t k := by
        unfold itemsDelete LedgerSimple.supersede
        apply List.filter_congr
        intro x hx
        by_cases hxk : x.key = k'
        · have hx0 : x = e0 := hA.key_inj hx he0 (by rw [hxk, hk0])
          have hxt : x.txn = t := by rw [hx0]; exact ht0
          simp [hxk, hxt, hkk]
        · have hxt : x.txn ≠ t := by
            intro h
            exact hxk (by rw [← hk0]; exact hA.txn_key x hx e0 he0 (by rw [h, ht0]))
          have h1 : (x.key == k') = false := by simp [hxk]
          have h2 : (x.txn == t) = false := by simp [hxt]
          simp [h1, h2]
      refine ⟨hitems, ?_, ?_, ?_, ?_⟩
      · show (keys (itemsDelete s.items k')).Nodup
        exact hA.keys_nodup.sublist (List.Sublist.map _ List.filter_sublist)
      · intro e1 h1 e2 h2 h
        exact hA.txn_key e1 (mem_itemsDelete.mp h1).1 e2 (mem_itemsDelete.mp h2).1 h
      · intro t' k''
        show curGet (curErase s.cur t) t' = some k'' ↔ ∃ e ∈ itemsDelete s.items k', _
        rw [curGet_erase]
        by_cases htt : t' = t
        · subst htt
          simp only [if_true]
          constructor
          · intro h; cases h
          · rintro ⟨e, he, h1, _⟩
            obtain ⟨hin, hne⟩ := mem_itemsDelete.mp he
            exact absurd (by rw [← hk0]; exact hA.txn_key e hin e0 he0 (by rw [h1, ht0])) hne
        · simp only [htt, if_false]
          rw [hA.cur_spec]
          constructor
          · rintro ⟨e, he, h1, h2⟩
            refine ⟨e, mem_itemsDelete.mpr ⟨he, ?_⟩, h1, h2⟩
            intro hek
            have : e = e0 := hA.key_inj he he0 (by rw [hek, hk0])
            exact htt (by rw [← h1, this, ht0])
          · rintro ⟨e, he, h1, h2⟩
            exact ⟨e, (mem_itemsDelete.mp he).1, h1, h2⟩
      · exact hA.cur_nodup.sublist (curErase_fst_sublist _ _)

/-- appending a fresh `(t,k)` entry after supersession keeps the coupling -/
theorem agree_append {s : State} (hA : Agree s) {t k : Nat} {newE : Entry}
    (hnk : newE.key = k) (hnt : newE.txn = t)
    (hfresh : k ∉ keys s.items) (hsup : ∀ e ∈ s.items, e.txn = t → e.key = k) :
    Agree { items := s.items ++ [newE], cur := curSet s.cur t k } := by
  have hnot : ∀ e ∈ s.items, e.txn ≠ t := by
    intro e he h
    exact hfresh (LedgerSimple.mem_keys.mpr ⟨e, he, hsup e he h⟩)
  refine ⟨?_, ?_, ?_, curSet_nodup hA.cur_nodup t k⟩
  · show (keys (s.items ++ [newE])).Nodup
    unfold keys
    rw [List.map_append]
    refine List.nodup_append.mpr ⟨hA.keys_nodup, by simp, ?_⟩
    intro a ha b hb hab
    simp at hb; subst hb; subst hab
    rw [hnk] at ha; exact hfresh ha
  · intro e1 h1 e2 h2 h
    simp only [List.mem_append, List.mem_singleton] at h1 h2
    rcases h1 with h1 | h1 <;> rcases h2 with h2 | h2
    · exact hA.txn_key e1 h1 e2 h2 h
    · subst h2; exact absurd (by rw [h, hnt]) (hnot e1 h1)
    · subst h1; exact absurd (by rw [← h, hnt]) (hnot e2 h2)
    · rw [h1, h2]
  · intro t' k'
    show curGet (curSet s.cur t k) t' = some k' ↔ ∃ e ∈ s.items ++ [newE], _
    rw [curGet_set]
    by_cases htt : t' = t
    · subst htt
      simp only [if_true]
      constructor
      · intro h; cases h
        exact ⟨newE, by simp, hnt, hnk⟩
      · rintro ⟨e, he, h1, h2⟩
        simp only [List.mem_append, List.mem_singleton] at he
        rcases he with he | he
        · exact absurd h1 (hnot e he)
        · subst he; rw [← h2, hnk]
    · simp only [htt, if_false]
      rw [hA.cur_spec]
      constructor
      · rintro ⟨e, he, h1, h2⟩
        exact ⟨e, List.mem_append_left _ he, h1, h2⟩
      · rintro ⟨e, he, h1, h2⟩
        simp only [List.mem_append, List.mem_singleton] at he
        rcases he with he | he
        · exact ⟨e, he, h1, h2⟩
        · subst he; exact absurd (by rw [← h1, hnt]) htt

/-! ## the three operations -/

theorem updateWritten_refine {s : State} (hA : Agree s) (t k n : Nat) :
    (updateWritten s t k n).items = LedgerSimple.stepWritten s.items t k n ∧
      Agree (updateWritten s t k n) := by
  obtain ⟨hi, hA1⟩ := supersede_refine hA t k
  unfold updateWritten LedgerSimple.stepWritten
  simp only []
  rw [← hi]
  cases hg : itemsGet (supersede s t k).items k with
  | none =>
    have hh := itemsGet_none_iff.mp hg
    simp only [hh, Bool.false_eq_true, if_false, true_and]
    refine agree_append hA1 rfl rfl ?_ ?_
    · intro h; rw [LedgerSimple.hasKey_iff.mpr h] at hh; cases hh
    · intro e he; rw [hi] at he; exact (LedgerSimple.mem_supersede.mp he).2
  | some e =>
    have hh : LedgerSimple.hasKey (supersede s t k).items k = true := by
      cases h : LedgerSimple.hasKey (supersede s t k).items k with
      | true => rfl
      | false => rw [itemsGet_none_iff.mpr h] at hg; cases hg
    simp only [hh, if_true, true_and]
    refine hA1.map _ ?_ ?_ <;> intro e <;> split <;> rfl

theorem updateSeen_refine {s : State} (hA : Agree s) (t k tot c : Nat)
    (hcommit : ∀ e ∈ s.items, e.key = k → e.commit = 0) :
    ∃ s', updateSeen s t k tot c = some s' ∧
      s'.items = LedgerSimple.stepSeen s.items t k tot c ∧ Agree s' := by
  obtain ⟨hi, hA1⟩ := supersede_refine hA t k
  unfold updateSeen LedgerSimple.stepSeen
  simp only []
  rw [← hi]
  cases hg : itemsGet (supersede s t k).items k with
  | none =>
    have hh := itemsGet_none_iff.mp hg
    refine ⟨_, rfl, ?_, ?_⟩
    · simp only [hh, Bool.false_eq_true, if_false]
    · refine agree_append hA1 rfl rfl ?_ ?_
      · intro h; rw [LedgerSimple.hasKey_iff.mpr h] at hh; cases hh
      · intro e he; rw [hi] at he; exact (LedgerSimple.mem_supersede.mp he).2
  | some e =>
    have hh : LedgerSimple.hasKey (supersede s t k).items k = true := by
      cases h : LedgerSimple.hasKey (supersede s t k).items k with
      | true => rfl
      | false => rw [itemsGet_none_iff.mpr h] at hg; cases hg
    obtain ⟨hein, hek⟩ := itemsGet_some hg
    have hc0 : e.commit = 0 := by
      rw [hi] at hein
      exact hcommit e (LedgerSimple.mem_supersede.mp hein).1 hek
    have hb : (e.commit != 0) = false := by simp [hc0]
    simp only [hb, Bool.false_eq_true, if_false]
    refine ⟨_, rfl, ?_, ?_⟩
    · simp only [hh, if_true]
    · refine hA1.map _ ?_ ?_ <;> intro e <;> split <;> rfl

/-- folding `remove` over a prefix of the item list deletes exactly that prefix -/
theorem foldl_remove (pre : List Entry) : ∀ (rest : List Entry) (s : State), Agree s →
    s.items = pre ++ rest →
    (pre.foldl (fun s e => remove s e.key) s).items = rest ∧
      Agree (pre.foldl (fun s e => remove s e.key) s) := by
  induction pre with
  | nil => intro rest s hA h; exact ⟨h, hA⟩
  | cons e pre ih =>
    intro rest s hA h
    rw [List.foldl_cons]
    have hnd := hA.keys_nodup
    rw [h] at hnd
    simp only [keys, List.cons_append, List.map_cons, List.nodup_cons] at hnd
    have hne : ∀ x ∈ pre ++ rest, x.key ≠ e.key := by
      intro x hx hxe
      exact hnd.1 (hxe ▸ List.mem_map.mpr ⟨x, hx, rfl⟩)
    have hein : e ∈ s.items := by rw [h]; simp
    have hget : itemsGet s.items e.key = some e := by
      rw [h]; simp [itemsGet]
    have hdel : itemsDelete s.items e.key = pre ++ rest := by
      rw [h]
      unfold itemsDelete
      rw [List.cons_append, List.filter_cons]
      simp only [beq_self_eq_true, Bool.not_true, Bool.false_eq_true, if_false]
      apply List.filter_eq_self.mpr
      intro x hx
      simp [hne x hx]
    have hrem : remove s e.key = { items := pre ++ rest, cur := curErase s.cur e.txn } := by
      unfold remove; rw [hget]; simp only [hdel]
    rw [hrem]
    refine ih rest _ ⟨?_, ?_, ?_, ?_⟩ rfl
    · exact hnd.2
    · intro e1 h1 e2 h2
      exact hA.txn_key e1 (by rw [h]; exact List.mem_cons_of_mem _ h1) e2
        (by rw [h]; exact List.mem_cons_of_mem _ h2)
    · intro t' k'
      show curGet (curErase s.cur e.txn) t' = some k' ↔ ∃ x ∈ pre ++ rest, _
      rw [curGet_erase]
      by_cases htt : t' = e.txn
      · subst htt
        simp only [if_true]
        constructor
        · intro h; cases h
        · rintro ⟨x, hx, h1, _⟩
          exact absurd (hA.txn_key x (by rw [h]; exact List.mem_cons_of_mem _ hx) e hein h1) (hne x hx)
      · simp only [htt, if_false]
        rw [hA.cur_spec, h]
        constructor
        · rintro ⟨x, hx, h1, h2⟩
          rcases List.mem_cons.mp hx with hx | hx
          · subst hx; exact absurd h1.symm htt
          · exact ⟨x, hx, h1, h2⟩
        · rintro ⟨x, hx, h1, h2⟩
          exact ⟨x, List.mem_cons_of_mem _ hx, h1, h2⟩
    · exact hA.cur_nodup.sublist (curErase_fst_sublist _ _)

/-- `emitVal` of the faithful model is the simple `emitVal` of its items (no invariant needed) -/
theorem emitVal_eq (s : State) : emitVal s = LedgerSimple.emitVal s.items := by
  unfold emitVal emit LedgerSimple.emitVal
  rw [releasable_eq]
  simp only []
  cases (List.takeWhile LedgerSimple.releasable s.items).getLast? <;> rfl

/-- the faithful `emit` leaves `items.dropWhile releasable` (the simple step) -/
theorem emit_refine {s : State} (hA : Agree s) :
    (emit s).2.items = s.items.dropWhile LedgerSimple.releasable ∧ Agree (emit s).2 := by
  unfold emit
  rw [releasable_eq]
  simp only []
  cases hl : (List.takeWhile LedgerSimple.releasable s.items).getLast? with
  | none =>
    have hnil : List.takeWhile LedgerSimple.releasable s.items = [] := List.getLast?_eq_none_iff.mp hl
    have := List.takeWhile_append_dropWhile (p := LedgerSimple.releasable) (l := s.items)
    rw [hnil, List.nil_append] at this
    exact ⟨this.symm, hA⟩
  | some last =>
    exact foldl_remove _ _ s hA
      (List.takeWhile_append_dropWhile (p := LedgerSimple.releasable) (l := s.items)).symm

/-! ## the simulation -/

theorem step_refine {tr : List Op} (hC : Contract tr) {n : Nat} {s : State} {op : Op}
    (hop : tr[n]? = some op) (hI : LInv tr n s.items) (hA : Agree s) :
    ∃ s', step s op = some s' ∧ s'.items = LedgerSimple.step s.items op ∧ Agree s' := by
  cases op with
  | seen t k tot c r =>
    refine updateSeen_refine hA t k tot c ?_
    intro e he hek
    apply hI.unseen e he
    intro i hi hs
    rw [hek] at hs
    have := hC.seen_unique i n k hs ⟨t, tot, c, r, hop⟩
    omega
  | written t k n' =>
    obtain ⟨h1, h2⟩ := updateWritten_refine hA t k n'
    exact ⟨_, rfl, h1, h2⟩
  | emit =>
    obtain ⟨h1, h2⟩ := emit_refine hA
    exact ⟨_, rfl, h1, h2⟩

theorem run_snoc (l : List Op) (op : Op) :
    Ledger.run (l ++ [op]) = (Ledger.run l).bind (fun s => step s op) := by
  unfold Ledger.run
  rw [List.foldlM_append]
  cases List.foldlM step {} l <;> simp

/-- **Refinement.** On a contract-respecting trace without stale keys, the faithful tracker
never panics and its item list is the simple model's, at every prefix. -/
theorem run_refine {tr : List Op} (hC : Contract tr) (hS : NoStale tr) :
    ∀ n, n ≤ tr.length → ∃ s, Ledger.run (tr.take n) = some s ∧
      s.items = LedgerSimple.run [] (tr.take n) ∧ Agree s := by
  intro n
  induction n with
  | zero => intro _; exact ⟨{}, by simp [Ledger.run], by simp [LedgerSimple.run], agree_empty⟩
  | succ n ih =>
    intro hn
    have hlt : n < tr.length := by omega
    have hg : tr[n]? = some tr[n] := List.getElem?_eq_getElem hlt
    obtain ⟨s, hrun, hitems, hA⟩ := ih (by omega)
    have hI := LedgerSimple.run_inv hC hS n (by omega)
    rw [← hitems] at hI
    obtain ⟨s', hstep, hitems', hA'⟩ := step_refine hC hg hI hA
    refine ⟨s', ?_, ?_, hA'⟩
    · rw [LedgerSimple.take_succ_of_get hg, run_snoc, hrun]; exact hstep
    · rw [LedgerSimple.take_succ_of_get hg, hitems', hitems]
      simp only [LedgerSimple.run, List.foldl_append, List.foldl_cons, List.foldl_nil]

/-- same, for arbitrary `n` (prefixes longer than the trace are the trace) -/
theorem run_refine' {tr : List Op} (hC : Contract tr) (hS : NoStale tr) (n : Nat) :
    ∃ s, Ledger.run (tr.take n) = some s ∧
      s.items = LedgerSimple.run [] (tr.take n) ∧ Agree s := by
  rcases Nat.le_total n tr.length with h | h
  · exact run_refine hC hS n h
  · rw [List.take_of_length_le h, ← List.take_length (l := tr)]
    exact run_refine hC hS tr.length (Nat.le_refl _)

/-- everything at once: no panic, same items, same emitted value, same emit step -/
theorem refinement {tr : List Op} (hC : Contract tr) (hS : NoStale tr) (n : Nat)
    (hn : n ≤ tr.length) :
    ∃ s, Ledger.run (tr.take n) = some s ∧
      s.items = LedgerSimple.run [] (tr.take n) ∧ Agree s ∧
      emitVal s = LedgerSimple.emitVal s.items ∧
      (emit s).2.items = s.items.dropWhile LedgerSimple.releasable ∧ Agree (emit s).2 := by
  obtain ⟨s, h1, h2, h3⟩ := run_refine hC hS n hn
  exact ⟨s, h1, h2, h3, emitVal_eq s, (emit_refine h3).1, (emit_refine h3).2⟩

end PgBifrost.LedgerRefine
