import PgBifrost.Proofs.SysTop2
/-!
# Per-partition-key order at the sink

When every batch of a partition key is routed to one worker (`Routed wk`: partition routing, or a
single worker), the batches of a key are accepted in dispatch order: for every key, accepted ++
held ++ queued batches of that key ARE the dispatched batches of that key, in order.
-/
namespace PgBifrost.Sys
open PgBifrost.Batch PgBifrost.Batcher

/-- every dispatch goes to the worker `wk` assigns to the batch's partition key -/
def Routed (wk : PKey → Nat) (evs : List Ev) : Prop := ∀ w b, Ev.dispatch w b ∈ evs → w = wk b.pkey

structure PK (wk : PKey → Nat) (s : SysState) : Prop where
  wq : ∀ p ∈ s.queue, p.1 = wk p.2.pkey
  wh : ∀ p ∈ s.held, p.1 = wk p.2.pkey
  hn : (s.held.map (·.1)).Nodup
  ord : ∀ pk : PKey, (s.accB.filter (fun b => b.pkey = pk)) ++ ((s.held.map (·.2)).filter (fun b => b.pkey = pk)) ++
      ((s.queue.map (·.2)).filter (fun b => b.pkey = pk)) = (dispatched s.evs).filter (fun b => b.pkey = pk)

theorem filter_nil_of_worker {wk : PKey → Nat} {l : List (Nat × Batch)} {w : Nat} {pk : PKey}
    (hw : ∀ p ∈ l, p.1 = wk p.2.pkey) (hno : ∀ p ∈ l, p.1 ≠ w) (hwk : w = wk pk) :
    (l.map (·.2)).filter (fun b => b.pkey = pk) = [] := by
  rw [List.filter_eq_nil_iff]
  intro b hb
  obtain ⟨p, hp, rfl⟩ := List.mem_map.mp hb
  intro hpk
  have hpk' : p.2.pkey = pk := by simpa using hpk
  exact hno p hp (by rw [hw p hp, hpk', hwk])

theorem pk_run {K : Kind} {dom : Msg → Prop} (bcfg : Batcher.Cfg)
    (wk : PKey → Nat)
    (hrt : ∀ ops, (∀ m ∈ dataMsgs ops, dom m) → Routed wk (Batcher.run K bcfg ops).2) :
    ∀ acts, (∀ m ∈ fedMsgs acts, m.op = .data → dom m) → PK wk (run ⟨K, bcfg⟩ acts) := by
  apply run_ind ⟨K, bcfg⟩ (fun acts s => (∀ m ∈ fedMsgs acts, m.op = .data → dom m) → PK wk s)
  · intro _
    exact ⟨(fun p hp => by cases hp), (fun p hp => by cases hp), List.nodup_nil, fun pk => rfl⟩
  · intro pre a ih hdom
    have hdom0 : ∀ m ∈ fedMsgs pre, m.op = .data → dom m :=
      fun m hm => hdom m (by rw [fedMsgs_snoc]; exact List.mem_append_left _ hm)
    have hP := ih hdom0
    have hH' := hist_run ⟨K, bcfg⟩ (pre ++ [a])
    rw [run_snoc] at hH'
    generalize run ⟨K, bcfg⟩ pre = s at hP hH'
    cases hd : s.dead with
    | true => rw [step_dead a hd]; exact hP
    | false =>
      rw [step_live a hd] at hH' ⊢
      cases hb : batOpOf a with
      | some op =>
        rw [stepLive_bat hb, batStep_eq] at hH' ⊢
        have hbat := hH'.bat
        simp only at hbat
        have hdom' := dom_of_fed hH' hdom
        simp only at hdom'
        have hr := hrt (s.ops ++ [op]) hdom'
        rw [← hbat] at hr
        simp only at hr
        refine ⟨?_, hP.wh, hP.hn, ?_⟩
        · intro p hp
          simp only at hp
          rcases List.mem_append.mp hp with hp | hp
          · exact hP.wq p hp
          · exact hr p.1 p.2 (List.mem_append_right _ (mem_dispatchPairs.mp hp))
        · intro pk
          simp only
          rw [dispatched_append, List.map_append, dispatchPairs_snd, List.filter_append, List.filter_append,
            ← hP.ord pk]
          simp only [List.append_assoc]
      | none =>
        cases a with
        | feed m => simp [batOpOf] at hb
        | tick o => simp [batOpOf] at hb
        | take w =>
          simp only [stepLive]
          split
          · exact hP
          · rename_i hany
            split
            · rename_i b q hq
              obtain ⟨q1, q2, h1, h2, h3⟩ := popFirst_some hq
              have hwnot : ∀ p ∈ s.held, p.1 ≠ w := by
                intro p hp hpw
                apply hany
                rw [List.any_eq_true]
                exact ⟨p, hp, by simp [hpw]⟩
              have hwb : w = wk b.pkey := hP.wq (w, b) (by rw [h1]; simp)
              refine ⟨?_, ?_, ?_, ?_⟩
              · intro p hp
                simp only at hp
                rw [h2] at hp
                exact hP.wq p (by rw [h1]; rcases List.mem_append.mp hp with h | h <;> simp [h])
              · intro p hp
                simp only at hp
                rcases List.mem_append.mp hp with h | h
                · exact hP.wh p h
                · simp at h; subst h; exact hwb
              · simp only [List.map_append, List.map_cons, List.map_nil]
                rw [List.nodup_append]
                refine ⟨hP.hn, by simp, ?_⟩
                intro x hx y hy
                simp at hy; subst hy
                obtain ⟨p, hp, rfl⟩ := List.mem_map.mp hx
                exact hwnot p hp
              · intro pk
                have := hP.ord pk
                simp only
                rw [h1] at this
                rw [h2, ← this]
                by_cases hpk : b.pkey = pk
                · have e1 : (s.held.map (·.2)).filter (fun b => b.pkey = pk) = [] :=
                    filter_nil_of_worker hP.wh hwnot (by rw [hwb, hpk])
                  have e2 : (q1.map (·.2)).filter (fun b => b.pkey = pk) = [] :=
                    filter_nil_of_worker (fun p hp => hP.wq p (by rw [h1]; simp [hp])) h3 (by rw [hwb, hpk])
                  simp [List.filter_append, e1, e2, hpk]
                · simp [List.filter_append, hpk]
            · exact hP
        | sinkAccept w =>
          simp only [stepLive]
          split
          · rename_i b h hq
            obtain ⟨h1', h2', e1, e2, e3⟩ := popFirst_some hq
            have hwb : w = wk b.pkey := hP.wh (w, b) (by rw [e1]; simp)
            have hn := hP.hn
            rw [e1, List.map_append, List.map_cons, List.nodup_append] at hn
            obtain ⟨_, hn2, hn3⟩ := hn
            rw [List.nodup_cons] at hn2
            refine ⟨hP.wq, ?_, ?_, ?_⟩
            · intro p hp
              simp only at hp
              rw [e2] at hp
              exact hP.wh p (by rw [e1]; rcases List.mem_append.mp hp with h | h <;> simp [h])
            · simp only
              rw [e2, List.map_append, List.nodup_append]
              have hnd1 : (h1'.map (·.1)).Nodup := by
                have := hP.hn
                rw [e1, List.map_append, List.nodup_append] at this
                exact this.1
              refine ⟨hnd1, hn2.2, ?_⟩
              intro x hx y hy
              exact hn3 x hx y (List.mem_cons_of_mem _ hy)
            · intro pk
              have := hP.ord pk
              simp only
              rw [e1] at this
              rw [e2, ← this]
              by_cases hpk : b.pkey = pk
              · have f1 : (h1'.map (·.2)).filter (fun b => b.pkey = pk) = [] :=
                  filter_nil_of_worker (fun p hp => hP.wh p (by rw [e1]; simp [hp])) e3 (by rw [hwb, hpk])
                have f2 : (h2'.map (·.2)).filter (fun b => b.pkey = pk) = [] := by
                  apply filter_nil_of_worker (wk := wk) (w := w) (fun p hp => hP.wh p (by rw [e1]; simp [hp])) _
                    (by rw [hwb, hpk])
                  intro p hp hpw
                  exact hn2.1 (List.mem_map.mpr ⟨p, hp, hpw⟩)
                simp [List.filter_append, f1, f2, hpk]
              · simp [List.filter_append, hpk]
          · exact hP
        | sinkRetry w => exact hP
        | trackWritten =>
          simp only [stepLive]
          split
          · exact hP
          · exact ⟨hP.wq, hP.wh, hP.hn, hP.ord⟩
        | emit => exact ⟨hP.wq, hP.wh, hP.hn, hP.ord⟩

theorem filter_flatMap_single_key {X : List Batch} (hsk : ∀ b ∈ X, ∀ x ∈ b.payload, x.pkey = b.pkey) (pk : PKey) :
    (X.flatMap (·.payload)).filter (fun m => m.pkey = pk) =
      (X.filter (fun b => b.pkey = pk)).flatMap (·.payload) := by
  induction X with
  | nil => rfl
  | cons b r ih =>
    have ih' := ih (fun b' hb' => hsk b' (List.mem_cons_of_mem _ hb'))
    rw [List.flatMap_cons, List.filter_append, ih']
    by_cases hb : b.pkey = pk
    · rw [List.filter_cons_of_pos (by simpa using hb), List.flatMap_cons]
      congr 1
      rw [List.filter_eq_self]
      intro x hx
      simp [hsk b (by simp) x hx, hb]
    · rw [List.filter_cons_of_neg (by simpa using hb)]
      have : b.payload.filter (fun m => m.pkey = pk) = [] := by
        rw [List.filter_eq_nil_iff]
        intro x hx
        simp [hsk b (by simp) x hx, hb]
      rw [this, List.nil_append]

theorem exactly_once_per_key {K : Kind} {big bad : Msg → Bool} {dom : Msg → Prop} (bcfg : Batcher.Cfg)
    (hK : KindOK K big bad dom) (wk : PKey → Nat)
    (hrt : ∀ ops, (∀ m ∈ dataMsgs ops, dom m) → Routed wk (Batcher.run K bcfg ops).2)
    (acts : List Act) (hdom : ∀ m ∈ fedMsgs acts, m.op = .data → dom m)
    (hlive : (run ⟨K, bcfg⟩ acts).dead = false)
    (hq : (run ⟨K, bcfg⟩ acts).queue = []) (hh : (run ⟨K, bcfg⟩ acts).held = [])
    (hopen : ∀ p ∈ (run ⟨K, bcfg⟩ acts).bat.openB, p.2.payload = []) (pk : PKey) :
    (run ⟨K, bcfg⟩ acts).sinkAccepted.filter (fun m => m.pkey = pk) =
      (fedMsgs acts).filter (fun m => m.op == .data && decide (m.pkey = pk) && !big m && !bad m) := by
  have hH := hist_run ⟨K, bcfg⟩ acts
  have hF := flow_run bcfg hK acts hdom
  have hP := pk_run bcfg wk hrt acts hdom
  have hdom' := dom_of_fed hH hdom
  have hfed := hH.fedAll hlive
  generalize run ⟨K, bcfg⟩ acts = s at hH hF hP hdom' hfed hq hh hopen
  have hR := run_reach hK.laws hK.noFatal bcfg _ hdom'
  rw [← hH.bat] at hR
  obtain ⟨_, hfa⟩ := reach_faithful hK.laws hR
  have hsk := reach_single_key hK.laws hR
  simp only at hfa hsk
  have hperm := hF.perm
  rw [hq, hh] at hperm
  simp only [List.map_nil, List.append_nil] at hperm
  have hskA : ∀ b ∈ s.accB, ∀ x ∈ b.payload, x.pkey = b.pkey := fun b hb => hsk b (hperm.symm.subset hb)
  have hord := hP.ord pk
  rw [hq, hh] at hord
  simp only [List.map_nil, List.filter_nil, List.append_nil] at hord
  rw [hH.sink, filter_flatMap_single_key hskA, hord, hfed]
  have h1 := hfa pk
  have hop : openPayload s.bat pk = [] := by
    unfold openPayload
    cases hg : getOpen s.bat pk with
    | none => rfl
    | some b => exact hopen _ (mem_of_getOpen hg)
  rw [hop, List.append_nil] at h1
  unfold D at h1
  rw [h1]
  unfold dataMsgs
  rw [List.filter_filter]
  apply List.filter_congr
  intro m _
  simp only [goodFor]
  cases (m.op == MOp.data) <;> cases (decide (m.pkey = pk)) <;> cases (big m) <;> cases (bad m) <;> rfl

/-- partition routing routes by `crc32(pkey) % workers` -/
theorem routed_partition {K : Kind} {big bad : Msg → Bool} {dom : Msg → Prop} (hK : KindOK K big bad dom)
    (bcfg : Batcher.Cfg) (hr : bcfg.routing = .partition) :
    ∀ ops, (∀ m ∈ dataMsgs ops, dom m) →
      Routed (fun pk => Crc32.quickHash pk bcfg.workers) (Batcher.run K bcfg ops).2 := by
  intro ops hdom w b h
  exact reach_partition_routing hr (run_reach hK.laws hK.noFatal bcfg ops hdom) _ h w b rfl

/-- a single worker gets everything -/
theorem routed_single {K : Kind} {big bad : Msg → Bool} {dom : Msg → Prop} (hK : KindOK K big bad dom)
    (bcfg : Batcher.Cfg) (hw : bcfg.workers = 1) :
    ∀ ops, (∀ m ∈ dataMsgs ops, dom m) → Routed (fun _ => 0) (Batcher.run K bcfg ops).2 := by
  intro ops hdom w b h
  have := reach_worker_in_range (by omega : 1 ≤ bcfg.workers) (run_reach hK.laws hK.noFatal bcfg ops hdom) _ h w b rfl
  show w = 0
  omega

end PgBifrost.Sys
