import PgBifrost.Proofs.ClientC07
/-! C02, recovery part: the synthetic COMMIT of `recoverFromErrorResponse` in the `.fixedC` model. -/
namespace PgBifrost.ClientProofs
open PgBifrost.Client PgBifrost.Spec.Client

def openExp (s : State) : Msg → Bool
  | .data _ (.begin _) _ _ => if beginDropped s then s.openFlag else true
  | .data _ (.commit _) _ _ => false
  | .errorResponse _ => false
  | _ => s.openFlag

theorem step_open (v : Variant) (s : State) (e : Ev) (hr : s.phase = .running)
    (hne : hasExit (step v s e).2 = false) : (step v s e).1.openFlag = openExp s e.msg := by
  rw [step_running v s e hr] at hne ⊢
  obtain ⟨feed, msg, tick⟩ := e
  cases msg with
  | data lsn p nanos blocks =>
    cases p with
    | begin x =>
      simp only [handleMsg, handleData, beginDropped_feed1]
      by_cases hd : beginDropped s = true <;> simp [finish_none, forward_eq, openExp, hd]
    | commit x => simp [handleMsg, handleData, finish_none, forward_eq, openExp]
    | change => simp [handleMsg, handleData, finish_none, forward_eq, openExp]
    | unparsable => simp [handleMsg, handleData, finish_none, openExp]
    | parseError => simp [handleMsg, handleData, finish_some] at hne
  | keepalive reply w el =>
    rw [handleMsg_keepalive] at hne ⊢
    cases reply with
    | false => simp [finish_none, openExp]
    | true =>
      rcases heartbeat_cases (handleProgress (feed1 s feed) true).1 el with h | ⟨c, d, h⟩
      · simp [h, finish_some] at hne
      · simp [h, finish_none, openExp, hbSet]
  | timeout => simp [handleMsg, finish_none, openExp]
  | errorResponse pos => simp [handleMsg, recover, finish_none, openExp]
  | closedErr | nil | skip => simp [handleMsg, finish_none, openExp]
  | kabad | fatalErr | unexpected | copyEmpty => simp [handleMsg, finish_some] at hne

/-- the open delivery as the `.fixedC` client sees it -/
def openOf (s : State) : Option (String × Key) := if s.openFlag then some (s.txn, s.key) else none

theorem rec_from (evs : List Ev) (s : State) (hr : s.phase = .running) (hpos : 0 < s.overall) :
    (recAux (openOf s) (histFrom .fixedC s evs)).all (· == .ok) = true := by
  induction evs generalizing s with
  | nil => rfl
  | cons e r ih =>
    rw [histFrom_cons, recAux]
    obtain ⟨hf, hx | ⟨hne, hrun, _, htxn, hkey, _, _⟩⟩ := step_frame .fixedC s e hr
    · simp [hx.1]
    · have hop := step_open .fixedC s e hr hne
      have hov : 0 < (step .fixedC s e).1.overall := by
        have := (step_seg .fixedC s e hr).1.ov
        simp only [feed1_overall] at this; omega
      have ih' := ih _ hrun hov
      simp only [hne, Bool.false_eq_true, ↓reduceIte]
      obtain ⟨feed, msg, tick⟩ := e
      have hopen : ∀ o : Option (String × Key), o = openOf (step .fixedC s ⟨feed, msg, tick⟩).1 →
          (recAux o (histFrom .fixedC (step .fixedC s ⟨feed, msg, tick⟩).1 r)).all (· == .ok) = true := by
        intro o ho; rw [ho]; exact ih'
      cases msg with
      | data lsn p nanos blocks =>
        cases p with
        | begin x =>
          simp only [hf, fwdsExp]
          refine hopen _ ?_
          simp only [openOf, hop, openExp, htxn, hkey, txnExp, keyExp]
          by_cases hd : beginDropped s = true <;> simp [hd, openAfter, openOf]
        | commit x =>
          simp only [hf, fwdsExp]
          refine hopen _ ?_
          simp [openOf, hop, openExp, openAfter]
        | change =>
          simp only [hf, fwdsExp]
          refine hopen _ ?_
          simp [openOf, hop, openExp, openAfter, htxn, hkey, txnExp, keyExp]
        | unparsable =>
          simp only [hf, fwdsExp]
          refine hopen _ ?_
          simp [openOf, hop, openExp, openAfter, htxn, hkey, txnExp, keyExp]
        | parseError =>
          simp only [hf, fwdsExp]
          refine hopen _ ?_
          simp [openOf, hop, openExp, openAfter, htxn, hkey, txnExp, keyExp]
      | errorResponse pos =>
        simp only [hf, fwdsExp, List.all_cons, Bool.and_eq_true]
        refine ⟨?_, hopen _ (by simp [openOf, hop, openExp])⟩
        simp only [recoveryFwd, openOf]
        by_cases ho : s.openFlag = true
        · have hl : fixedLsn s ≠ 0 := by
            simp only [fixedLsn]; split <;> omega
          simp [ho, judgeRecovery, hl]
        · simp [ho, judgeRecovery]
      | _ =>
        simp only [hf, fwdsExp]
        refine hopen _ ?_
        simp [openOf, hop, openExp, openAfter, htxn, hkey, txnExp, keyExp]

/-- every error recovery of the `.fixedC` model closes exactly the open delivery, with a non-zero
LSN, and emits nothing when no delivery is open — provided the session's starting position
(first keepalive's `ServerWALEnd`) is not 0 -/
theorem rec_hist (evs : List Ev) (hinit : ∀ e ∈ evs.head?, ∀ w, initOf e = some w → 0 < w) :
    c02Recovery (hist .fixedC evs) = true := by
  unfold hist c02Recovery c02Verdicts
  cases evs with
  | nil => rfl
  | cons e r =>
    rw [histFrom_cons, recAux]
    rcases step_first_cases .fixedC start.1 e rfl with ⟨_, _, _, _, hx⟩ | ⟨w, hw, heq⟩
    · simp [hx]
    · have hne : hasExit (step .fixedC start.1 e).2 = false := by rw [heq]; simp
      have hfw : fwdsOf (step .fixedC start.1 e).2 = [] := by rw [heq]; simp
      have hwpos : 0 < w := hinit e (by simp) w hw
      have hrun : (step .fixedC start.1 e).1.phase = .running := by rw [heq]; simp
      have hov : 0 < (step .fixedC start.1 e).1.overall := by
        rw [heq]
        have := (quiet_loopTop (firstState (feed1 start.1 e.feed) w) e.tick).ov
        simp only [firstState_overall] at this
        exact Nat.lt_of_lt_of_le hwpos this
      have hopen : openOf (step .fixedC start.1 e).1 = none := by
        rw [heq]; simp [openOf, start_state]
      have := rec_from r _ hrun hov
      rw [hopen] at this
      simp only [hne, Bool.false_eq_true, ↓reduceIte, hfw]
      obtain ⟨feed, msg, tick⟩ := e
      cases msg <;> first | (simp [initOf] at hw; done) | (simpa [openAfter, judgeRecovery] using this)

/-! ## the `.fixed` model (planned F2 patch as it is): never LSN 0, never a COMMIT for a closed or
foreign key; what can remain is an open delivery that is not closed (F2c) -/

def okOrUnclosed (l : List RecVerdict) : Bool := l.all fun x => x == .ok || x == .unclosed

theorem rec_fixed_from (evs : List Ev) (s : State) (o : Option (String × Key)) (hr : s.phase = .running)
    (hpos : 0 < s.overall) (hinv : beginDropped s = true → o = some (s.txn, s.key)) :
    okOrUnclosed (recAux o (histFrom .fixed s evs)) = true := by
  induction evs generalizing s o with
  | nil => rfl
  | cons e r ih =>
    rw [histFrom_cons, recAux]
    obtain ⟨hf, hx | ⟨hne, hrun, _, htxn, hkey, hsaw, hfirst⟩⟩ := step_frame .fixed s e hr
    · simp [hx.1, okOrUnclosed]
    · have hov : 0 < (step .fixed s e).1.overall := by
        have := (step_seg .fixed s e hr).1.ov
        simp only [feed1_overall] at this; omega
      simp only [hne, Bool.false_eq_true, ↓reduceIte]
      have hbd : beginDropped (step .fixed s e).1 = (!sawExp s e.msg && !firstExp s e.msg) := by
        rw [beginDropped_def, hsaw, hfirst]
      obtain ⟨feed, msg, tick⟩ := e
      cases msg with
      | data lsn p nanos blocks =>
        cases p with
        | begin x =>
          simp only [hf, fwdsExp]
          refine ih _ _ hrun hov ?_
          rw [hbd, htxn, hkey]
          by_cases hd : beginDropped s = true <;> simp [hd, sawExp, firstExp, txnExp, keyExp, openAfter]
        | commit x =>
          simp only [hf, fwdsExp]
          refine ih _ _ hrun hov ?_
          rw [hbd]; simp [sawExp]
        | change =>
          simp only [hf, fwdsExp]
          refine ih _ _ hrun hov ?_
          rw [hbd, htxn, hkey]
          simpa [sawExp, firstExp, txnExp, keyExp, openAfter, beginDropped_def] using hinv
        | unparsable =>
          simp only [hf, fwdsExp]
          refine ih _ _ hrun hov ?_
          rw [hbd, htxn, hkey]
          simpa [sawExp, firstExp, txnExp, keyExp, openAfter, beginDropped_def] using hinv
        | parseError =>
          simp only [hf, fwdsExp]
          refine ih _ _ hrun hov ?_
          rw [hbd, htxn, hkey]
          simpa [sawExp, firstExp, txnExp, keyExp, openAfter, beginDropped_def] using hinv
      | errorResponse pos =>
        simp only [hf, fwdsExp, okOrUnclosed, List.all_cons, Bool.and_eq_true]
        refine ⟨?_, ih _ _ hrun hov (by rw [hbd]; simp [firstExp])⟩
        simp only [recoveryFwd]
        by_cases hd : beginDropped s = true
        · have hl : fixedLsn s ≠ 0 := by
            simp only [fixedLsn]; split <;> omega
          simp [hd, hinv hd, judgeRecovery, hl]
        · cases o <;> simp [hd, judgeRecovery]
      | _ =>
        simp only [hf, fwdsExp]
        refine ih _ _ hrun hov ?_
        rw [hbd, htxn, hkey]
        simpa [sawExp, firstExp, txnExp, keyExp, openAfter, beginDropped_def] using hinv

theorem rec_fixed_hist (evs : List Ev) (hinit : ∀ e ∈ evs.head?, ∀ w, initOf e = some w → 0 < w) :
    okOrUnclosed (c02Verdicts (hist .fixed evs)) = true := by
  unfold hist c02Verdicts
  cases evs with
  | nil => rfl
  | cons e r =>
    rw [histFrom_cons, recAux]
    rcases step_first_cases .fixed start.1 e rfl with ⟨_, _, _, _, hx⟩ | ⟨w, hw, heq⟩
    · simp [hx, okOrUnclosed]
    · have hne : hasExit (step .fixed start.1 e).2 = false := by rw [heq]; simp
      have hfw : fwdsOf (step .fixed start.1 e).2 = [] := by rw [heq]; simp
      have hwpos : 0 < w := hinit e (by simp) w hw
      have hrun : (step .fixed start.1 e).1.phase = .running := by rw [heq]; simp
      have hov : 0 < (step .fixed start.1 e).1.overall := by
        rw [heq]
        have := (quiet_loopTop (firstState (feed1 start.1 e.feed) w) e.tick).ov
        simp only [firstState_overall] at this
        exact Nat.lt_of_lt_of_le hwpos this
      have hbd : beginDropped (step .fixed start.1 e).1 = false := by
        rw [heq]; simp [beginDropped_def, start_state]
      have := rec_fixed_from r _ none hrun hov (by rw [hbd]; simp)
      simp only [hne, Bool.false_eq_true, ↓reduceIte, hfw]
      obtain ⟨feed, msg, tick⟩ := e
      cases msg <;> first | (simp [initOf] at hw; done) | (simpa [openAfter, judgeRecovery] using this)

end PgBifrost.ClientProofs
