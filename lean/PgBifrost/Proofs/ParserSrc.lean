import PgBifrost.Gen.ParserSrc
/-! The translated decoder switch (Gen/ParserSrc.lean) equals the model's `stepC` / `finish`. -/
set_option linter.unusedSimpArgs false
namespace PgBifrost.Proofs.ParserSrc
open PgBifrost PgBifrost.Parser

theorem finish_eq : Gen.ParserSrc.finish = finish := by
  funext p st res
  unfold Gen.ParserSrc.finish finish
  cases p <;> cases hc : st.cur <;> simp [Id.run, pure, bind, hc]

theorem stepC_eq (msg : Bytes) (p : Bool) (i : Nat) (chr nxt : UInt8) (st : St) (res : Res) :
    Gen.ParserSrc.stepC msg p i chr nxt st res = stepC msg p i chr nxt st res := by
  obtain ⟨cur, prev, ts, ok, cn, ct⟩ := st
  cases cur
  case null => simp [Gen.ParserSrc.stepC, stepC, Id.run, pure, bind]
  case initial => simp [Gen.ParserSrc.stepC, stepC, Id.run, pure, bind]
  case opTruncate => simp [Gen.ParserSrc.stepC, stepC, Id.run, pure, bind]
  case end_ => simp [Gen.ParserSrc.stepC, stepC, Id.run, pure, bind]
  case relation =>
    simp only [Gen.ParserSrc.stepC, stepC, Id.run, pure, bind, enter]
    by_cases h1 : chr = 58 <;> by_cases h2 : nxt = 32 <;> by_cases h3 : chr = 34 <;> simp [h1, h2, h3] <;>
      (cases slice? msg ts i <;> simp)
  case openSq =>
    simp only [Gen.ParserSrc.stepC, stepC, Id.run, pure, bind, enter] <;>
    (by_cases h1 : chr = 93 <;> simp [h1])
  case escId =>
    simp only [Gen.ParserSrc.stepC, stepC, Id.run, pure, bind, enter] <;>
    (by_cases h1 : chr = 34 <;> by_cases h2 : nxt = 34 <;> simp [h1, h2])
  case colQuoted =>
    simp only [Gen.ParserSrc.stepC, stepC, Id.run, pure, bind, enter] <;>
    (by_cases h1 : chr = 39 <;> by_cases h2 : nxt = 39 <;> simp [h1, h2])
  case colType =>
    simp only [Gen.ParserSrc.stepC, stepC, Id.run, pure, bind, enter]
    by_cases h1 : chr = 93 <;> by_cases h2 : nxt = 58 <;> by_cases h3 : chr = 34 <;> by_cases h4 : chr = 91 <;>
      simp [h1, h2, h3, h4] <;> (cases slice? msg ts i <;> simp)
  case operation =>
    simp only [Gen.ParserSrc.stepC, stepC, Id.run, pure, bind, enter, finish_eq]
    by_cases h1 : chr = 58 <;> by_cases h2 : nxt = 32 <;> simp [h1, h2]
    cases hs : slice? msg ts i <;> simp
    rename_i tok
    by_cases h3 : tok = bTRUNCATE <;> cases p <;> simp [h3, bTRUNCATE] <;> simp_all [bTRUNCATE]
  case colName =>
    simp only [Gen.ParserSrc.stepC, stepC, Id.run, pure, bind, enter]
    by_cases h1 : chr = 91
    · simp [h1]; cases slice? msg ts i <;> simp
    · by_cases h2 : chr = 58
      · simp [h1, h2]
        cases hs : slice? msg ts i <;> simp
        rename_i tok
        by_cases h3 : tok = bOldKey <;> by_cases h4 : tok = bNewTuple <;> simp_all [bOldKey, bNewTuple]
      · by_cases h5 : chr = 40
        · simp [h1, h2, h5]
          cases hs : slice? msg ts msg.length <;> simp
          rename_i rest
          by_cases h6 : rest = bNoTupleData <;> simp_all [bNoTupleData]
        · by_cases h7 : chr = 34 <;> simp [h1, h2, h5, h7]
  case colValue =>
    simp only [Gen.ParserSrc.stepC, stepC, Id.run, pure, bind, enter, valueTok?, addCol]
    cases hi : index? msg ts with
    | none =>
      by_cases h0 : chr = 0 <;> by_cases h32 : chr = 32 <;> by_cases h39 : chr = 39 <;>
        by_cases hq : prev = PS.colQuoted <;> cases ok <;> simp [h0, h32, h39, hq, hi] <;>
        (repeat' split) <;> simp_all
    | some b =>
      by_cases hb : b = 66 <;>
      by_cases h0 : chr = 0 <;> by_cases h32 : chr = 32 <;> by_cases h39 : chr = 39 <;>
        by_cases hq : prev = PS.colQuoted <;> cases ok <;> simp [h0, h32, h39, hq, hi, hb] <;>
        (repeat' split) <;> simp_all

end PgBifrost.Proofs.ParserSrc
