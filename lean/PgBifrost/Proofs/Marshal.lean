import PgBifrost.Spec.Marshal
/-! Helper lemmas for C10: hex digits round trip, `/` split, association-list lookups. Core Lean only. -/
namespace PgBifrost.Proofs.Marshal
open PgBifrost.Marshal PgBifrost.Spec.Marshal

/-! ## base-16 digits -/

/-- value of a digit list, least significant first -/
def ofDigitsRev : List Nat → Nat
  | [] => 0
  | d :: ds => d + 16 * ofDigitsRev ds

theorem hexRevAux_spec : ∀ (f n : Nat), n < f →
    ofDigitsRev (hexRevAux f n) = n ∧ (∀ d ∈ hexRevAux f n, d < 16) ∧ hexRevAux f n ≠ [] := by
  intro f
  induction f with
  | zero => intro n h; omega
  | succ f ih =>
    intro n h
    unfold hexRevAux
    by_cases h16 : n < 16
    · simp [h16, ofDigitsRev]
    · have hlt : n / 16 < f := by omega
      obtain ⟨h1, h2, _⟩ := ih (n / 16) hlt
      simp only [h16, if_false]
      refine ⟨?_, ?_, by simp⟩
      · simp only [ofDigitsRev, h1]; omega
      · intro d hd
        rcases List.mem_cons.mp hd with rfl | hd
        · omega
        · exact h2 d hd

theorem hexRev_spec (n : Nat) :
    ofDigitsRev (hexRev n) = n ∧ (∀ d ∈ hexRev n, d < 16) ∧ hexRev n ≠ [] :=
  hexRevAux_spec (n + 1) n (by omega)

theorem hexVal_digit_fin : ∀ d : Fin 16, hexValU (hexDigitU d.val) = some d.val := by decide

theorem hexVal_digit (d : Nat) (h : d < 16) : hexValU (hexDigitU d) = some d := hexVal_digit_fin ⟨d, h⟩

theorem digit_ne_slash_fin : ∀ d : Fin 16, hexDigitU d.val ≠ '/' := by decide

theorem digit_ne_slash (d : Nat) (h : d < 16) : hexDigitU d ≠ '/' := digit_ne_slash_fin ⟨d, h⟩

theorem parseHexAux_append (a b : List Char) : ∀ acc,
    parseHexAux acc (a ++ b) = (parseHexAux acc a).bind fun x => parseHexAux x b := by
  induction a with
  | nil => intro acc; simp [parseHexAux]
  | cons c cs ih =>
    intro acc
    simp only [List.cons_append, parseHexAux]
    cases hexValU c with
    | none => simp
    | some d => simp [ih]

/-- reading back most-significant-first digit characters -/
theorem parseHexAux_digits (ds : List Nat) : ∀ acc, (∀ d ∈ ds, d < 16) →
    parseHexAux acc (ds.reverse.map hexDigitU) = some (acc * 16 ^ ds.length + ofDigitsRev ds) := by
  induction ds with
  | nil => intro acc _; simp [parseHexAux, ofDigitsRev]
  | cons d ds ih =>
    intro acc h
    have hd : d < 16 := h d (by simp)
    have hds : ∀ e ∈ ds, e < 16 := fun e he => h e (by simp [he])
    simp only [List.reverse_cons, List.map_append, List.map_cons, List.map_nil, parseHexAux_append, ih acc hds,
      Option.bind_some, parseHexAux, hexVal_digit d hd, List.length_cons, ofDigitsRev, Nat.pow_succ]
    congr 1
    rw [Nat.add_mul, Nat.mul_assoc]
    omega

theorem parseHex_upperHexChars (n : Nat) : parseHex (upperHexChars n) = some n := by
  obtain ⟨h1, h2, h3⟩ := hexRev_spec n
  unfold parseHex upperHexChars
  have hne : ((hexRev n).reverse.map hexDigitU).isEmpty = false := by
    cases h : hexRev n with
    | nil => exact absurd h h3
    | cons a l => simp
  rw [hne, parseHexAux_digits _ 0 h2, h1]
  simp

theorem upperHexChars_no_slash (n : Nat) : ∀ c ∈ upperHexChars n, c ≠ '/' := by
  obtain ⟨_, h2, _⟩ := hexRev_spec n
  intro c hc
  unfold upperHexChars at hc
  obtain ⟨d, hd, rfl⟩ := List.mem_map.mp hc
  exact digit_ne_slash d (h2 d (List.mem_reverse.mp hd))

theorem splitSlash_append (a b : List Char) (h : ∀ c ∈ a, c ≠ '/') :
    splitSlash (a ++ '/' :: b) = some (a, b) := by
  induction a with
  | nil => simp [splitSlash]
  | cons c cs ih =>
    have hc : c ≠ '/' := h c (by simp)
    have hcs : ∀ e ∈ cs, e ≠ '/' := fun e he => h e (by simp [he])
    simp [splitSlash, hc, ih hcs]

theorem pow32 : (2 : Nat) ^ 32 = 4294967296 := by decide

theorem parseLsnChars_format (x : Nat) (hx : x < 2 ^ 64) : parseLsnChars (formatLsnChars x) = some x := by
  unfold parseLsnChars formatLsnChars
  rw [splitSlash_append _ _ (upperHexChars_no_slash _)]
  simp only [parseHex_upperHexChars]
  have h64 : (2 : Nat) ^ 64 = 18446744073709551616 := by decide
  rw [pow32]
  rw [h64] at hx
  have h1 : x / 4294967296 % 4294967296 < 4294967296 := Nat.mod_lt _ (by decide)
  have h2 : x % 4294967296 < 4294967296 := Nat.mod_lt _ (by decide)
  simp only [h1, h2, and_self, if_true]
  congr 1
  omega

theorem formatLsn_eq (x : Nat) (hx : x < 2 ^ 64) :
    formatLsn x = upperHex (x / 2 ^ 32) ++ "/" ++ upperHex (x % 2 ^ 32) := by
  have hhi : x / 2 ^ 32 % 2 ^ 32 = x / 2 ^ 32 := by
    have h64 : (2 : Nat) ^ 64 = 18446744073709551616 := by decide
    rw [pow32]; rw [h64] at hx; omega
  have hs : "/" = String.ofList ['/'] := by decide
  unfold formatLsn formatLsnChars upperHex
  rw [hhi, hs, ← String.ofList_append, ← String.ofList_append]
  simp

/-! ## association lists -/

theorem lookup_some_mem {β : Type} (k : String) : ∀ (l : List (String × β)) (v : β),
    l.lookup k = some v → (k, v) ∈ l := by
  intro l
  induction l with
  | nil => intro v h; simp at h
  | cons p ps ih =>
    intro v h
    obtain ⟨k', b⟩ := p
    rw [List.lookup_cons] at h
    by_cases hk : k = k'
    · subst hk; simp at h; simp [h]
    · have : (k == k') = false := by simp [hk]
      rw [this] at h
      exact List.mem_cons_of_mem _ (ih v h)

theorem lookup_map_of_mem {α β : Type} (f : String × α → β) : ∀ (l : List (String × α)) (k : String) (v : α),
    (l.map (·.1)).Nodup → (k, v) ∈ l → (l.map fun kv => (kv.1, f kv)).lookup k = some (f (k, v)) := by
  intro l
  induction l with
  | nil => intro k v _ h; simp at h
  | cons p ps ih =>
    intro k v hnd hmem
    obtain ⟨k', a⟩ := p
    simp only [List.map_cons, List.nodup_cons] at hnd
    rw [List.map_cons, List.lookup_cons]
    rcases List.mem_cons.mp hmem with heq | hin
    · cases heq; simp
    · have hne : k ≠ k' := by
        intro e; subst e
        exact hnd.1 (List.mem_map.mpr ⟨(k, v), hin, rfl⟩)
      have : (k == k') = false := by simp [hne]
      simp only [this]
      exact ih k v hnd.2 hin

/-! ## the loop body against the documented table -/

theorem mcv_render (v : CV) : marshalColumnValue v = render v := rfl

/-- one column: the loop body agrees with the documented table unless a quoted toast literal is involved -/
theorem colEntry_eq_spec (op : String) (noOld : Bool) (old : List (String × CV)) (kv : String × CV)
    (hv : quotedToastLiteral kv.2 = false)
    (ho : ∀ o, old.lookup kv.1 = some o → quotedToastLiteral o = false) :
    colEntry op noOld old kv = specColumn op noOld old kv := by
  obtain ⟨k, v⟩ := kv
  unfold colEntry specColumn specPair
  by_cases hdel : op = "DELETE"
  · simp [hdel, marshalColumnValuePair, mcv_render]
  · simp only [hdel, if_false]
    cases hl : old.lookup k with
    | none => simp [specOld, specNew, marshalColumnValuePair, mcv_render]
    | some o =>
      have ho' := ho o hl
      simp only [quotedToastLiteral, Bool.and_eq_false_iff, beq_eq_false_iff_ne, ne_eq] at hv ho'
      by_cases hne : v.value = o.value
      · -- unchanged text: new only; if it is the marker then both are unquoted markers
        have : ¬ (unchangedToast v = true ∧ unchangedToast o = false) := by
          simp only [unchangedToast, Bool.and_eq_true, beq_iff_eq, Bool.not_eq_true', Bool.and_eq_false_iff,
            beq_eq_false_iff_ne, ne_eq, Bool.not_eq_false']
          rintro ⟨⟨h1, h2⟩, h3⟩
          rcases h3 with h3 | h3
          · exact h3 (hne ▸ h1)
          · rcases ho' with h4 | h4
            · exact h4 (hne ▸ h1)
            · simp [h3] at h4
        have hnew : specNew (some o) v = v := by
          unfold specNew
          by_cases hu : unchangedToast v = true <;> by_cases hu' : unchangedToast o = true <;> simp_all
        simp [hne, specOld, hnew, marshalColumnValuePair, mcv_render]
      · have hne' : ¬ o.value = v.value := fun e => hne e.symm
        by_cases hm : v.value = toastMarker
        · -- the marker, necessarily unquoted; the old value is a different text, hence not a marker
          have hq : v.quoted = false := by
            rcases hv with h | h
            · exact absurd hm h
            · simpa using h
          have hu : unchangedToast v = true := by simp [unchangedToast, hm, hq]
          have hu' : unchangedToast o = false := by
            simp only [unchangedToast, Bool.and_eq_false_iff, beq_eq_false_iff_ne, ne_eq]
            exact Or.inl (fun e => hne (hm.trans e.symm))
          have hne2 : ¬ toastMarker = o.value := fun e => hne (hm.trans e)
          have hne3 : ¬ o.value = toastMarker := fun e => hne2 e.symm
          cases noOld <;>
            simp [hm, hne2, hne3, specOld, specNew, hu, hu', marshalColumnValuePair, mcv_render]
        · have hu : unchangedToast v = false := by
            simp only [unchangedToast, Bool.and_eq_false_iff, beq_eq_false_iff_ne, ne_eq]
            exact Or.inl hm
          cases noOld <;>
            simp [hne, hne', hm, specOld, specNew, hu, marshalColumnValuePair, mcv_render]

end PgBifrost.Proofs.Marshal
