import PgBifrost.Spec.Kafka
/-! Helper lemmas for C14 (core Lean only). -/
namespace PgBifrost.Proofs.Kafka
open PgBifrost.KafkaSend PgBifrost.Spec.Kafka PgBifrost.Batch

theorem foldl_add (c : Cfg) (ms : List KMsg) : ∀ (b : KBatch),
    b.msgs.length = b.core.payload.length → b.core.payload.length ≤ c.maxSize →
    (ms.foldl (fun b m => (add c b m).2) b).msgs =
      b.msgs ++ ((untilFull c (c.maxSize - b.core.payload.length) (ms.filter isData)).filter (fits c)).map
        (produce c.meth b.uuid) ∧
    (ms.foldl (fun b m => (add c b m).2) b).core.txns =
      (untilFull c (c.maxSize - b.core.payload.length) (ms.filter isData)).foldl (fun t m => updateTxns t m.m) b.core.txns := by
  induction ms with
  | nil => intro b _ _; simp [untilFull]
  | cons m ms ih =>
    intro b hlen hle
    simp only [List.foldl_cons]
    by_cases hd : m.m.op = .data
    · have hdat : isData m = true := by simp [isData, hd]
      simp only [List.filter_cons, hdat, if_true]
      by_cases hfull : b.core.payload.length = c.maxSize
      · -- batch is full: nothing changes, now and later
        have hadd : (add c b m).2 = b := by
          simp [add, hd, kafkaKind, hfull]
        rw [hadd]
        have := ih b hlen hle
        rw [hfull, Nat.sub_self] at this ⊢
        cases hrest : ms.filter isData with
        | nil => rw [hrest] at this; simpa [untilFull] using this
        | cons x xs => rw [hrest] at this; simpa [untilFull] using this
      · have hlt : b.core.payload.length < c.maxSize := by omega
        obtain ⟨n, hn⟩ : ∃ n, c.maxSize - b.core.payload.length = n + 1 := ⟨c.maxSize - b.core.payload.length - 1, by omega⟩
        rw [hn]
        simp only [untilFull]
        by_cases hbig : c.maxBytes < m.m.ksize
        · -- too big: dropped, counted
          have hfits : fits c m = false := by simp [fits]; omega
          have hadd : (add c b m).2 = { b with core := { b.core with txns := updateTxns b.core.txns m.m } } := by
            simp [add, hd, kafkaKind, hfull, hbig]
          rw [hadd]
          have := ih { b with core := { b.core with txns := updateTxns b.core.txns m.m } } hlen hle
          simp only [hn] at this
          simp [hfits, this]
        · have hfits : fits c m = true := by simp [fits]; omega
          have hadd : (add c b m).2 = { b with core := { b.core with payload := b.core.payload ++ [m.m], bytes := b.core.bytes + m.m.size, txns := updateTxns b.core.txns m.m }, msgs := b.msgs ++ [produce c.meth b.uuid m] } := by
            simp [add, hd, kafkaKind, hfull, hbig]
          rw [hadd]
          have := ih { b with core := { b.core with payload := b.core.payload ++ [m.m], bytes := b.core.bytes + m.m.size, txns := updateTxns b.core.txns m.m }, msgs := b.msgs ++ [produce c.meth b.uuid m] }
            (by simp [hlen]) (by simp; omega)
          have hn' : c.maxSize - (b.core.payload.length + 1) = n := by omega
          simp only [List.length_append, List.length_singleton, hn'] at this
          simp [hfits, this]
    · have hdat : isData m = false := by simp [isData, hd]
      have hadd : (add c b m).2 = b := by simp [add, hd]
      rw [hadd]
      simpa [List.filter_cons, hdat] using ih b hlen hle

/-- the count of a delivery key in a transactions map (`ordered_map.Get`) -/
def txnCount (txns : List TxnCount) (key : Nat) : Nat :=
  match txns.find? (·.key == key) with
  | some e => e.count
  | none => 0

theorem txnCount_updateTxns (txns : List TxnCount) (m : Msg) :
    txnCount (updateTxns txns m) m.key = txnCount txns m.key + 1 := by
  unfold updateTxns
  split
  · rename_i h
    induction txns with
    | nil => simp at h
    | cons e es ih =>
      by_cases he : e.key = m.key
      · simp [txnCount, he]
      · have h' : es.any (·.key == m.key) = true := by simpa [he] using h
        have := ih h'
        simp only [txnCount] at this ⊢
        simpa [he] using this
  · rename_i h
    have hnone : txns.find? (·.key == m.key) = none := by
      simp only [List.find?_eq_none]
      intro x hx
      simp only [List.any_eq_true, not_exists, not_and] at h
      simpa using h x hx
    simp [txnCount, List.find?_append, hnone]

end PgBifrost.Proofs.Kafka
